import GqlVerif.Proofs.C01AbstractF
/-!
# C01 / C03 end to end, step 2 (`FragmentOp`), part B: what the emitted types accept, exactly

* `deStructMap_flat` (serde): the reader of a struct with own fields and **any number of** flattened plain-struct
  members, as one equation — with pairwise disjoint key sets every member reads exactly what it would read
  from the whole object (`deFlats_eq`: the earlier members took only their own keys out of the buffer);
  generalises L4 `flatten_eq` of `C01Layers` from one member to `n`.
* `conformsLooseF s q o b sels j` — the exact acceptance predicate: own fields as before (`looseOwnF`), every
  spread's fragment struct reads *its* fields from the same object **as buffered content** (`looseMemF`); a JSON
  array is read positionally only by a struct without flattened member; a lone spread is the fragment
  struct itself (type alias).
* `bodyF_accepts_iff` — acceptance is exactly `conformsLooseF` (`accSelF` / `accSelsF` / `accMemF`), under the
  decidable side condition `keysOksF` / `expKeys` nodup: **keys disjoint between a fragment and its siblings**
  (and between the fragments of one selection set).
* specification: `expandSels q sels` replaces every spread by the inline fragment `... on T { body }` (GraphQL
  §6.4.3: CollectFields treats both alike); `conformsF_loose`: `conformsV s rt (expandSels q sels) j →
  conformsLooseF …`.
-/
set_option linter.unusedSimpArgs false
set_option linter.unusedVariables false
namespace GqlVerif
namespace C01
namespace E2E
open Serde Spec C13 C03 Codegen

/-! ## serde: a struct with own fields and any number of flattened plain-struct members -/

theorem takeKeys_snd (keys : List String) :
    ∀ buf : Buf, present (takeKeys keys buf).2 = (present buf).filter (fun kv => !keys.contains kv.1)
  | [] => rfl
  | none :: rest => by
    have ih := takeKeys_snd keys rest
    simp only [takeKeys, present, List.filterMap_cons, id] at ih ⊢
    exact ih
  | some (k, v) :: rest => by
    have ih := takeKeys_snd keys rest
    simp only [takeKeys, present, List.filterMap_cons, id, List.filter_cons] at ih ⊢
    cases hk : keys.contains k <;> simp [ih]

/-- the fields of the struct a flattened member points to -/
def memberFields (e : Env) (g : RField) : List RField :=
  match g.ty with
  | .path q => (match e.find q with | some (.struct _ _ _ G) => G | _ => [])
  | _ => []

def memberKeys (e : Env) (g : RField) : List String := (memberFields e g).map (·.wire)

/-- the member is a plain struct item of the environment -/
def MemberOk (e : Env) (g : RField) : Prop :=
  ∃ q n d c, g.ty = .path q ∧ e.find q = some (.struct n d c (memberFields e g)) ∧ plain (memberFields e g) = true

/-- what the flattened members read, each from the **whole** object -/
def flatVals (e : Env) (fuel : Nat) (kvs : List (String × Json)) : List RField → D (List (String × Val))
  | [] => pure []
  | g :: fs =>
    if !g.flatten then flatVals e fuel kvs fs else do
      let own ← deOwnWith (dePath e true fuel) (memberFields e g) kvs
      let rest ← flatVals e fuel kvs fs
      pure ((g.rust, .record own) :: rest)

theorem filter_filter_disjoint (kvs : List (String × Json)) (K G : List String) (h : ∀ k ∈ G, k ∉ K) :
    (kvs.filter (fun kv => !K.contains kv.1)).filter (fun kv => G.contains kv.1) =
      kvs.filter (fun kv => G.contains kv.1) := by
  rw [List.filter_filter]
  apply List.filter_congr
  intro kv _
  cases hg : G.contains kv.1
  · rfl
  · have : kv.1 ∉ K := h _ (by simpa using hg)
    simp [this]

/-- with pairwise disjoint key sets every flattened member reads exactly what it would read from the whole
    object (the earlier members took only their own keys out of the buffer) -/
theorem deFlats_eq (e : Env) (fuel : Nat) (kvs : List (String × Json)) :
    ∀ (fs : List RField) (buf : Buf), (∀ g ∈ fs, g.flatten = true → MemberOk e g) →
      (∀ g ∈ fs, g.flatten = true → (present buf).filter (fun kv => (memberKeys e g).contains kv.1) =
        kvs.filter (fun kv => (memberKeys e g).contains kv.1)) →
      fs.Pairwise (fun g g' => g.flatten = true → g'.flatten = true → ∀ k ∈ memberKeys e g', k ∉ memberKeys e g) →
      deFlatsWith (deFlat e (fuel + 1)) fs buf = flatVals e fuel kvs fs
  | [], _, _, _, _ => rfl
  | g :: fs, buf, hok, hbuf, hpw => by
    rw [List.pairwise_cons] at hpw
    cases hg : g.flatten
    · simp only [deFlatsWith, flatVals, hg, Bool.not_false, ↓reduceIte]
      exact deFlats_eq e fuel kvs fs buf (fun g' h' => hok g' (List.mem_cons_of_mem _ h'))
        (fun g' h' => hbuf g' (List.mem_cons_of_mem _ h')) hpw.2
    · obtain ⟨q, n, d, c, hty, hfind, hpl⟩ := hok g (by simp) hg
      simp only [deFlatsWith, flatVals, hg, Bool.not_true, Bool.false_eq_true, ↓reduceIte, hty,
        deFlat_plain_struct e fuel q n d c _ buf hfind hpl, takeKeys_fst]
      have h1 := hbuf g (by simp) hg
      unfold memberKeys at h1
      rw [h1, deOwn_filter _ _ kvs _ (fun f hf _ => List.mem_map_of_mem hf)]
      have ih := deFlats_eq e fuel kvs fs (takeKeys ((memberFields e g).map (·.wire)) buf).2
        (fun g' h' => hok g' (List.mem_cons_of_mem _ h'))
        (by
          intro g' h' hf'
          rw [takeKeys_snd]
          have := filter_filter_disjoint (present buf) (memberKeys e g) (memberKeys e g') (hpw.1 g' h' hg hf')
          unfold memberKeys at this ⊢
          rw [this]
          exact hbuf g' (List.mem_cons_of_mem _ h') hf')
        hpw.2
      cases deOwnWith (dePath e true fuel) (memberFields e g) kvs with
      | error err => rfl
      | ok own =>
        simp only [bind, Except.bind, pure, Except.pure]
        rw [ih]

theorem deOwn_filter_flatten (path : String → Json → D Val) (kvs : List (String × Json)) :
    ∀ (fs : List RField), deOwnWith path fs kvs = deOwnWith path (fs.filter (fun f => !f.flatten)) kvs
  | [] => rfl
  | f :: fs => by
    have ih := deOwn_filter_flatten path kvs fs
    cases hf : f.flatten
    · simp only [List.filter_cons, hf, Bool.not_false, ↓reduceIte, deOwnWith, ih]
    · simp only [List.filter_cons, hf, Bool.not_true, Bool.false_eq_true, ↓reduceIte, deOwnWith, ← ih]
      cases deOwnWith path fs kvs <;> rfl

/-- **the reader of a struct with flattened plain-struct members, as one equation** -/
theorem deStructMap_flat (e : Env) (fuel : Nat) (pathD : String → Json → D Val) (fields : List RField)
    (kvs : List (String × Json)) (hany : fields.any (·.flatten) = true)
    (hok : ∀ g ∈ fields, g.flatten = true → MemberOk e g)
    (hown : ∀ g ∈ fields, g.flatten = true → ∀ k ∈ memberKeys e g,
      k ∉ (fields.filter (fun f => !f.flatten)).map (·.wire))
    (hpw : fields.Pairwise (fun g g' => g.flatten = true → g'.flatten = true →
      ∀ k ∈ memberKeys e g', k ∉ memberKeys e g)) :
    deStructMapWith pathD (deFlat e (fuel + 1)) fields kvs =
      (do let own ← deOwnWith pathD (fields.filter (fun f => !f.flatten)) kvs
          let fl ← flatVals e fuel kvs fields
          pure (.record (fields.filterMap fun f => (own ++ fl).find? (·.1 == f.rust)))) := by
  unfold deStructMapWith
  simp only [hany, ↓reduceIte]
  rw [deOwn_filter_flatten pathD kvs fields,
    deFlats_eq e fuel kvs fields _ hok (by
      intro g hg hf
      rw [present_map_some]
      exact filter_filter_disjoint kvs _ _ (hown g hg hf)) hpw]

theorem okB_flatVals (e : Env) (fuel : Nat) (kvs : List (String × Json)) : ∀ (fs : List RField),
    okB (flatVals e fuel kvs fs) =
      (fs.filter (·.flatten)).all (fun g => okB (deOwnWith (dePath e true fuel) (memberFields e g) kvs))
  | [] => rfl
  | g :: fs => by
    have ih := okB_flatVals e fuel kvs fs
    cases hg : g.flatten
    · simp only [flatVals, hg, Bool.not_false, ↓reduceIte, List.filter_cons, Bool.false_eq_true]
      exact ih
    · simp only [flatVals, hg, Bool.not_true, Bool.false_eq_true, ↓reduceIte, List.filter_cons, List.all_cons, ← ih]
      cases deOwnWith (dePath e true fuel) (memberFields e g) kvs <;> cases flatVals e fuel kvs fs <;> rfl


/-! ## the exact acceptance predicate for `FragmentOp` -/

def fragSels (q : Query) (g : Nat) : List Sel :=
  match q.fragments[g]? with
  | some f => f.sels
  | none => []

def isSpread : Sel → Bool
  | .spread _ => true
  | _ => false

mutual
  def looseFieldF (s : Schema) (q : Query) (o : Options) (b : Bool) : Sel → Json → Bool
    | .field a fid sub, v =>
      match s.fields[fid]? with
      | none => false
      | some sf =>
        match sf.ty.id with
        | .object i => (match s.objects[i]? with
          | some _ => accepts (fun j =>
              match sub with
              | [.spread g] => conformsLooseV s o b (fragSels q g) j      -- type alias of the fragment struct
              | _ => match j with
                | .obj kvs' => looseOwnF s q o b sub kvs' && looseMemF s q o sub kvs'
                | .arr xs => !sub.any isSpread && looseArrF s q o b sub xs
                | _ => false) (gtyOf sf.ty.quals) v
          | none => false)
        | _ => looseFieldV s o b (.field a fid sub) v
    | _, _ => true
  /-- the own fields of the struct (spreads contribute no own field) -/
  def looseOwnF (s : Schema) (q : Query) (o : Options) (b : Bool) : List Sel → List (String × Json) → Bool
    | [], _ => true
    | .field a fid sub :: xs, kvs =>
      (match s.fields[fid]? with
       | none => false
       | some sf =>
         decide (countKey (a.getD sf.name) kvs ≤ 1) &&
         (match Json.lookup (a.getD sf.name) kvs with
          | none => nullableQ sf.ty.quals
          | some v => looseFieldF s q o b (.field a fid sub) v)) && looseOwnF s q o b xs kvs
    | _ :: xs, kvs => looseOwnF s q o b xs kvs
  def looseArrF (s : Schema) (q : Query) (o : Options) (b : Bool) : List Sel → List Json → Bool
    | [], _ => true
    | .field a fid sub :: xs, vs =>
      (match vs with
       | [] => false
       | v :: vs' => looseFieldF s q o b (.field a fid sub) v && looseArrF s q o b xs vs')
    | _ :: xs, vs => looseArrF s q o b xs vs
  /-- the flattened members: each fragment struct reads its fields from the same object, as buffered content -/
  def looseMemF (s : Schema) (q : Query) (o : Options) : List Sel → List (String × Json) → Bool
    | [], _ => true
    | .spread g :: xs, kvs => looseSelsV s o true (fragSels q g) kvs && looseMemF s q o xs kvs
    | _ :: xs, kvs => looseMemF s q o xs kvs
end

/-- what the type emitted for an object-level selection set of `FragmentOp` accepts -/
def conformsLooseF (s : Schema) (q : Query) (o : Options) (b : Bool) (sels : List Sel) (j : Json) : Bool :=
  match sels with
  | [.spread g] => conformsLooseV s o b (fragSels q g) j
  | _ => match j with
    | .obj kvs' => looseOwnF s q o b sels kvs' && looseMemF s q o sels kvs'
    | .arr xs => !sels.any isSpread && looseArrF s q o b sels xs
    | _ => false

theorem looseLambdaF (s : Schema) (q : Query) (o : Options) (b : Bool) (sub : List Sel) :
    (fun j =>
      match sub with
      | [.spread g] => conformsLooseV s o b (fragSels q g) j
      | _ => match j with
        | .obj kvs' => looseOwnF s q o b sub kvs' && looseMemF s q o sub kvs'
        | .arr xs => !sub.any isSpread && looseArrF s q o b sub xs
        | _ => false) = conformsLooseF s q o b sub := by
  funext j; unfold conformsLooseF; rfl

/-! ## environment -/

def AliasEnv (e : Env) (name target : String) : Prop :=
  notPrim name ∧ name ≠ "ID" ∧ ∃ n pub, e.find name = some (.alias n pub (.path target))

/-- the struct of the fragment `g` (and its nested items) are what its name resolves to -/
def FragEnv (e : Env) (c : Ctx) (g : Nat) : Prop :=
  match c.q.fragments[g]? with
  | some f => StructEnv e f.name (fieldsOfV c (c.cs.camel f.name) f.sels) ∧ envSelsV e c (c.cs.camel f.name) f.sels
  | none => True

mutual
  def envSelF (e : Env) (c : Ctx) (pfx : String) : Sel → Prop
    | .field a fid sub =>
      match c.s.fields[fid]? with
      | none => True
      | some sf =>
        match sf.ty.id with
        | .object _ =>
          (match sub with
           | [.spread g] => AliasEnv e (pfx ++ c.cs.camel (a.getD sf.name)) (fragName c g) ∧ FragEnv e c g
           | _ => StructEnv e (pfx ++ c.cs.camel (a.getD sf.name)) (fieldsOfF c (pfx ++ c.cs.camel (a.getD sf.name)) sub) ∧
                  envSelsF e c (pfx ++ c.cs.camel (a.getD sf.name)) sub)
        | _ => envSelV e c pfx (.field a fid sub)
    | .spread g => FragEnv e c g
    | _ => True
  def envSelsF (e : Env) (c : Ctx) (pfx : String) : List Sel → Prop
    | [] => True
    | x :: xs => envSelF e c pfx x ∧ envSelsF e c pfx xs
end

mutual
  /-- depth of the selection tree, following spreads into the fragment bodies -/
  def depthF (q : Query) : Sel → Nat
    | .field _ _ sub => depthsF q sub + 1
    | .inline _ sub => depthsF q sub + 1
    | .spread g => selsDepth (fragSels q g) + 1
    | .typename => 1
  def depthsF (q : Query) : List Sel → Nat
    | [] => 0
    | x :: xs => max (depthF q x) (depthsF q xs)
end

mutual
  theorem depthF_noSpread (q : Query) : ∀ (x : Sel), noSpread x = true → depthF q x = selDepth x
    | .field a fid sub => by
      intro h; rw [noSpread] at h; rw [depthF, selDepth, depthsF_noSpreads q sub h]
    | .inline t sub => by
      intro h; rw [noSpread] at h; rw [depthF, selDepth, depthsF_noSpreads q sub h]
    | .spread g => by intro h; simp [noSpread] at h
    | .typename => by intro _; simp [depthF, selDepth]
  theorem depthsF_noSpreads (q : Query) : ∀ (sels : List Sel), noSpreads sels = true → depthsF q sels = selsDepth sels
    | [] => by intro _; simp [depthsF, selsDepth]
    | x :: xs => by
      intro h
      rw [noSpreads, Bool.and_eq_true] at h
      rw [depthsF, selsDepth, depthF_noSpread q x h.1, depthsF_noSpreads q xs h.2]
end

/-- response keys of the expanded selection set (spreads replaced by the fragment's field keys) -/
def expKeys (s : Schema) (q : Query) : List Sel → List String
  | [] => []
  | .field a fid _ :: xs => (match s.fields[fid]? with | some sf => [a.getD sf.name] | none => []) ++ expKeys s q xs
  | .spread g :: xs => fieldKeys s (fragSels q g) ++ expKeys s q xs
  | _ :: xs => expKeys s q xs

mutual
  /-- **keys disjoint between a fragment and its siblings** (and between fragments), at every level -/
  def keysOkF (s : Schema) (q : Query) : Sel → Bool
    | .field _ _ sub => EnumSpec.nodup (expKeys s q sub) && keysOksF s q sub
    | _ => true
  def keysOksF (s : Schema) (q : Query) : List Sel → Bool
    | [] => true
    | x :: xs => keysOkF s q x && keysOksF s q xs
end


/-! ## facts about the emitted fields -/

theorem fieldOfSelF_field (c : Ctx) (pfx : String) (a : Option String) (fid : Nat) (sub : List Sel) :
    fieldOfSelF c pfx (.field a fid sub) = fieldOfSelV c pfx (.field a fid sub) := rfl

/-- every `.field` of the class yields a field; same data as for `VariantOp` -/
theorem fieldOfSelV_f (c : Ctx) (pfx : String) (p : TypeId) (a : Option String) (fid : Nat) (sub : List Sel)
    (ht : fSel c.s c.q c.o p (.field a fid sub) = true) :
    ∃ sf ft, c.s.fields[fid]? = some sf ∧ leafNameV c pfx (a.getD sf.name) sf.ty.id = some ft ∧
      fieldOfSelV c pfx (.field a fid sub) = some (fieldOf c (a.getD sf.name) ft sf.ty.quals sf.deprecation) ∧
      wfQuals sf.ty.quals = true := by
  rw [fSel] at ht
  cases hsf : c.s.fields[fid]? with
  | none => simp [hsf] at ht
  | some sf =>
    simp only [hsf, Bool.and_eq_true] at ht
    obtain ⟨⟨hw, _⟩, hty⟩ := ht
    cases hid : sf.ty.id with
    | scalar k =>
      simp only [hid, Bool.and_eq_true] at hty
      cases hk : c.s.scalars[k]? with
      | none => simp [hk] at hty
      | some sn => exact ⟨sf, sn, rfl, by simp [leafNameV, hid, hk], by simp [fieldOfSelV, hsf, leafNameV, hid, hk], hw⟩
    | «enum» k =>
      simp only [hid, Bool.and_eq_true] at hty
      cases hk : c.s.enums[k]? with
      | none => simp [hk] at hty
      | some en => exact ⟨sf, en.name, rfl, by simp [leafNameV, hid, hk], by simp [fieldOfSelV, hsf, leafNameV, hid, hk], hw⟩
    | object i => exact ⟨sf, pfx ++ c.cs.camel (a.getD sf.name), rfl, by simp [leafNameV, hid], by simp [fieldOfSelV, hsf, leafNameV, hid], hw⟩
    | interface k => exact ⟨sf, pfx ++ c.cs.camel (a.getD sf.name), rfl, by simp [leafNameV, hid], by simp [fieldOfSelV, hsf, leafNameV, hid], hw⟩
    | union k => exact ⟨sf, pfx ++ c.cs.camel (a.getD sf.name), rfl, by simp [leafNameV, hid], by simp [fieldOfSelV, hsf, leafNameV, hid], hw⟩
    | input k => simp [hid] at hty

theorem fSels_mem {s : Schema} {q : Query} {o : Options} {p : TypeId} : ∀ {sels : List Sel}, fSels s q o p sels = true →
    ∀ x ∈ sels, fSel s q o p x = true
  | [], _, _, hx => by simp at hx
  | y :: ys, h, x, hx => by
    obtain ⟨h1, h2⟩ := fSels_cons h
    rcases List.mem_cons.mp hx with rfl | hx'
    · exact h1
    · exact fSels_mem h2 x hx'

/-- the own (non-flattened) fields of the struct are `fieldsOfV` of the selection set -/
theorem own_fieldsOfF (c : Ctx) (pfx : String) (p : TypeId) : ∀ (sels : List Sel), fSels c.s c.q c.o p sels = true →
    (fieldsOfF c pfx sels).filter (fun f => !f.flatten) = fieldsOfV c pfx sels
  | [], _ => rfl
  | x :: xs, ht => by
    obtain ⟨hx, hxs⟩ := fSels_cons ht
    have ih := own_fieldsOfF c pfx p xs hxs
    rw [fieldsOfF_cons, List.filter_append, ih]
    cases x with
    | field a fid sub =>
      obtain ⟨sf, ft, _, _, hf, _⟩ := fieldOfSelV_f c pfx p a fid sub hx
      rw [fieldOfSelF_field, hf, fieldsOfV_cons_field c pfx _ xs _ hf]
      simp [fieldOf]
    | spread g =>
      have hok : fragOk c.s c.q c.o p g = true := by simpa [fSel] using hx
      obtain ⟨fr, hfr, _⟩ := fragOk_parts hok
      rw [fieldsOfV_cons_none c pfx _ xs rfl]
      simp [fieldOfSelF, hfr, spreadField]
    | inline t sub => simp [fSel] at hx
    | typename => rw [fieldsOfV_cons_none c pfx _ xs rfl]; simp [fieldOfSelF, fieldOfSelV]

theorem any_flatten_fieldsOfF (c : Ctx) (pfx : String) (p : TypeId) : ∀ (sels : List Sel), fSels c.s c.q c.o p sels = true →
    (fieldsOfF c pfx sels).any (·.flatten) = sels.any isSpread
  | [], _ => rfl
  | x :: xs, ht => by
    obtain ⟨hx, hxs⟩ := fSels_cons ht
    have ih := any_flatten_fieldsOfF c pfx p xs hxs
    rw [fieldsOfF_cons, List.any_append, ih, List.any_cons]
    cases x with
    | field a fid sub =>
      obtain ⟨sf, ft, _, _, hf, _⟩ := fieldOfSelV_f c pfx p a fid sub hx
      rw [fieldOfSelF_field, hf]; simp [fieldOf, isSpread]
    | spread g =>
      have hok : fragOk c.s c.q c.o p g = true := by simpa [fSel] using hx
      obtain ⟨fr, hfr, _⟩ := fragOk_parts hok
      simp [fieldOfSelF, hfr, spreadField, isSpread]
    | inline t sub => simp [fSel] at hx
    | typename => simp [fieldOfSelF, fieldOfSelV, isSpread]

theorem memberFields_spread (e : Env) (c : Ctx) (g : Nat) (f : RFragment) (hf : c.q.fragments[g]? = some f)
    (he : FragEnv e c g) :
    memberFields e (spreadField c f) = fieldsOfV c (c.cs.camel f.name) f.sels ∧ MemberOk e (spreadField c f) := by
  unfold FragEnv at he
  rw [hf] at he
  obtain ⟨⟨_, _, n, d, cr, hfind⟩, _⟩ := he
  have h1 : memberFields e (spreadField c f) = fieldsOfV c (c.cs.camel f.name) f.sels := by
    simp [memberFields, spreadField, hfind]
  exact ⟨h1, f.name, n, d, cr, rfl, by rw [h1]; exact hfind, by rw [h1]; exact plain_fieldsOfV _ _ _⟩

theorem envSelsF_mem {e : Env} {c : Ctx} {pfx : String} : ∀ {sels : List Sel}, envSelsF e c pfx sels →
    ∀ x ∈ sels, envSelF e c pfx x
  | [], _, _, hx => by simp at hx
  | y :: ys, h, x, hx => by
    rw [envSelsF] at h
    rcases List.mem_cons.mp hx with rfl | hx'
    · exact h.1
    · exact envSelsF_mem h.2 x hx'

/-- from "the keys of the expanded selection set are pairwise distinct" to the hypotheses of `deStructMap_flat` -/
theorem flat_hyps (e : Env) (c : Ctx) (pfx : String) (p : TypeId) : ∀ (sels : List Sel),
    fSels c.s c.q c.o p sels = true → envSelsF e c pfx sels → (expKeys c.s c.q sels).Nodup →
    (∀ g ∈ fieldsOfF c pfx sels, g.flatten = true → MemberOk e g ∧ ∀ k ∈ memberKeys e g, k ∈ expKeys c.s c.q sels) ∧
    (∀ f ∈ fieldsOfF c pfx sels, f.flatten = false → f.wire ∈ expKeys c.s c.q sels) ∧
    (∀ g ∈ fieldsOfF c pfx sels, g.flatten = true → ∀ k ∈ memberKeys e g,
      k ∉ ((fieldsOfF c pfx sels).filter (fun f => !f.flatten)).map (·.wire)) ∧
    (fieldsOfF c pfx sels).Pairwise (fun g g' => g.flatten = true → g'.flatten = true →
      ∀ k ∈ memberKeys e g', k ∉ memberKeys e g)
  | [], _, _, _ => by simp [fieldsOfF]
  | x :: xs, ht, henv, hnd => by
    obtain ⟨hx, hxs⟩ := fSels_cons ht
    rw [envSelsF] at henv
    cases x with
    | field a fid sub =>
      obtain ⟨sf, ft, hsf, _, hf, _⟩ := fieldOfSelV_f c pfx p a fid sub hx
      have hexp : expKeys c.s c.q (.field a fid sub :: xs) = a.getD sf.name :: expKeys c.s c.q xs := by
        simp [expKeys, hsf]
      rw [hexp, List.nodup_cons] at hnd
      obtain ⟨ih1, ih2, ih3, ih4⟩ := flat_hyps e c pfx p xs hxs henv.2 hnd.2
      have hfs : fieldsOfF c pfx (.field a fid sub :: xs) =
          fieldOf c (a.getD sf.name) ft sf.ty.quals sf.deprecation :: fieldsOfF c pfx xs := by
        rw [fieldsOfF_cons, fieldOfSelF_field, hf]; rfl
      have hnf : (fieldOf c (a.getD sf.name) ft sf.ty.quals sf.deprecation).flatten = false := rfl
      rw [hfs, hexp]
      refine ⟨?_, ?_, ?_, ?_⟩
      · intro g hg hfl
        rcases List.mem_cons.mp hg with rfl | hg'
        · rw [hnf] at hfl; cases hfl
        · exact ⟨(ih1 g hg' hfl).1, fun k hk => List.mem_cons_of_mem _ ((ih1 g hg' hfl).2 k hk)⟩
      · intro f hf' hfl
        rcases List.mem_cons.mp hf' with rfl | hf''
        · rw [fieldOf_wire]; simp
        · exact List.mem_cons_of_mem _ (ih2 f hf'' hfl)
      · intro g hg hfl k hk
        rcases List.mem_cons.mp hg with rfl | hg'
        · rw [hnf] at hfl; cases hfl
        · simp only [List.filter_cons, hnf, Bool.not_false, ↓reduceIte, List.map_cons, List.mem_cons, not_or, fieldOf_wire]
          refine ⟨?_, ih3 g hg' hfl k hk⟩
          intro heq
          exact hnd.1 (heq ▸ (ih1 g hg' hfl).2 k hk)
      · rw [List.pairwise_cons]
        exact ⟨fun g' _ hfl => (by rw [hnf] at hfl; cases hfl), ih4⟩
    | spread g =>
      have hok : fragOk c.s c.q c.o p g = true := by simpa [fSel] using hx
      obtain ⟨fr, hfr, _, _, hv, _⟩ := fragOk_parts hok
      have hexp : expKeys c.s c.q (.spread g :: xs) = fieldKeys c.s fr.sels ++ expKeys c.s c.q xs := by
        simp [expKeys, fragSels, hfr]
      rw [hexp, List.nodup_append] at hnd
      obtain ⟨hnd1, hnd2, hdisj⟩ := hnd
      obtain ⟨ih1, ih2, ih3, ih4⟩ := flat_hyps e c pfx p xs hxs henv.2 hnd2
      have hfs : fieldsOfF c pfx (.spread g :: xs) = spreadField c fr :: fieldsOfF c pfx xs := by
        rw [fieldsOfF_cons]; simp [fieldOfSelF, hfr]
      have hfl' : (spreadField c fr).flatten = true := rfl
      obtain ⟨hmf, hmok⟩ := memberFields_spread e c g fr hfr henv.1
      have hmk : memberKeys e (spreadField c fr) = fieldKeys c.s fr.sels := by
        unfold memberKeys; rw [hmf, wire_fieldsOfV c _ false fr.sels hv]
      rw [hfs, hexp]
      refine ⟨?_, ?_, ?_, ?_⟩
      · intro g' hg hfl
        rcases List.mem_cons.mp hg with rfl | hg'
        · exact ⟨hmok, fun k hk => List.mem_append_left _ (hmk ▸ hk)⟩
        · exact ⟨(ih1 g' hg' hfl).1, fun k hk => List.mem_append_right _ ((ih1 g' hg' hfl).2 k hk)⟩
      · intro f hf' hfl
        rcases List.mem_cons.mp hf' with rfl | hf''
        · rw [hfl'] at hfl; cases hfl
        · exact List.mem_append_right _ (ih2 f hf'' hfl)
      · intro g' hg hfl k hk
        simp only [List.filter_cons, hfl', Bool.not_true, Bool.false_eq_true, ↓reduceIte]
        rcases List.mem_cons.mp hg with rfl | hg'
        · rw [hmk] at hk
          intro hmem
          obtain ⟨f, hf', hfw⟩ := List.mem_map.mp hmem
          have hf'' := List.mem_filter.mp hf'
          have := ih2 f hf''.1 (by simpa using hf''.2)
          exact hdisj k hk k (hfw ▸ this) rfl
        · exact ih3 g' hg' hfl k hk
      · rw [List.pairwise_cons]
        refine ⟨?_, ih4⟩
        intro g' hg' _ hfl k hk
        rw [hmk]
        intro hmem
        exact hdisj k hmem k ((ih1 g' hg' hfl).2 k hk) rfl
    | inline t sub => simp [fSel] at hx
    | typename =>
      have hexp : expKeys c.s c.q (.typename :: xs) = expKeys c.s c.q xs := by simp [expKeys]
      have hfs : fieldsOfF c pfx (.typename :: xs) = fieldsOfF c pfx xs := by
        rw [fieldsOfF_cons]; simp [fieldOfSelF, fieldOfSelV]
      rw [hexp] at hnd ⊢
      rw [hfs]
      exact flat_hyps e c pfx p xs hxs henv.2 hnd


/-! ## acceptance, exactly -/

theorem vSel_of_fSel_nonobj {s : Schema} {q : Query} {o : Options} {p : TypeId} {a : Option String} {fid : Nat}
    {sub : List Sel} {sf : StoredField} (h : fSel s q o p (.field a fid sub) = true) (hsf : s.fields[fid]? = some sf)
    (hno : ∀ i, sf.ty.id ≠ .object i) : vSel s o false (.field a fid sub) = true := by
  rw [fSel] at h
  rw [vSel]
  simp only [hsf] at h ⊢
  cases hid : sf.ty.id with
  | object i => exact absurd hid (hno i)
  | scalar k => simpa [hid] using h
  | «enum» k => simpa [hid] using h
  | interface k => simpa [hid] using h
  | union k => simpa [hid] using h
  | input k => simpa [hid] using h

theorem conformsLooseF_not_lone {s : Schema} {q : Query} {o : Options} {b : Bool} {sels : List Sel}
    (h : ∀ g, sels ≠ [Sel.spread g]) (j : Json) :
    conformsLooseF s q o b sels j =
      (match j with
       | .obj kvs' => looseOwnF s q o b sels kvs' && looseMemF s q o sels kvs'
       | .arr xs => !sels.any isSpread && looseArrF s q o b sels xs
       | _ => false) := by
  unfold conformsLooseF
  split
  · rename_i g; exact absurd rfl (h g)
  · rfl

theorem looseMemF_nospread (s : Schema) (q : Query) (o : Options) (kvs : List (String × Json)) :
    ∀ (sels : List Sel), sels.any isSpread = false → looseMemF s q o sels kvs = true
  | [], _ => by simp [looseMemF]
  | x :: xs, h => by
    simp only [List.any_cons, Bool.or_eq_false_iff] at h
    have ih := looseMemF_nospread s q o kvs xs h.2
    cases x with
    | spread g => have := h.1; simp [isSpread] at this
    | field a fid sub => simpa [looseMemF] using ih
    | inline t sub => simpa [looseMemF] using ih
    | typename => simpa [looseMemF] using ih

section AccF
variable (e : Env) (c : Ctx)

/-- the flattened members accept exactly `looseMemF` -/
theorem accMemF (pfx : String) (p : TypeId) : ∀ (sels : List Sel), fSels c.s c.q c.o p sels = true →
    envSelsF e c pfx sels → ∀ fuel, 2 * depthsF c.q sels ≤ fuel → ∀ kvs,
    ((fieldsOfF c pfx sels).filter (·.flatten)).all
        (fun g => okB (deOwnWith (dePath e true fuel) (memberFields e g) kvs)) = looseMemF c.s c.q c.o sels kvs
  | [], _, _, _, _, _ => rfl
  | x :: xs, ht, henv, fuel, hfuel, kvs => by
    obtain ⟨hx, hxs⟩ := fSels_cons ht
    rw [envSelsF] at henv
    rw [depthsF] at hfuel
    have ih := accMemF pfx p xs hxs henv.2 fuel (by omega) kvs
    rw [fieldsOfF_cons, List.filter_append, List.all_append, ih]
    cases x with
    | field a fid sub =>
      obtain ⟨sf, ft, _, _, hf, _⟩ := fieldOfSelV_f c pfx p a fid sub hx
      rw [fieldOfSelF_field, hf]; simp [fieldOf, looseMemF]
    | spread g =>
      have hok : fragOk c.s c.q c.o p g = true := by simpa [fSel] using hx
      obtain ⟨fr, hfr, _, _, hv, _⟩ := fragOk_parts hok
      obtain ⟨hmf, _⟩ := memberFields_spread e c g fr hfr henv.1
      have henvV : envSelsV e c (c.cs.camel fr.name) fr.sels := by
        have := henv.1; unfold envSelF FragEnv at this; rw [hfr] at this; exact this.2
      rw [depthF] at hfuel
      have hsels : fragSels c.q g = fr.sels := by simp [fragSels, hfr]
      rw [hsels] at hfuel
      have hacc := (accSelsV e c fr.sels (c.cs.camel fr.name) false hv henvV true fuel (by omega)).1 kvs
      rw [looseMemF.eq_2, hsels, ← hacc]
      have hflt : (fieldOfSelF c pfx (.spread g)).toList.filter (·.flatten) = [spreadField c fr] := by
        simp [fieldOfSelF, hfr, spreadField]
      rw [hflt]
      simp only [List.all_cons, List.all_nil, Bool.and_true, hmf, okB_deOwn' _ _ _ (plain_fieldsOfV c _ fr.sels)]
    | inline t sub => simp [fSel] at hx
    | typename => simp [fieldOfSelF, fieldOfSelV, looseMemF]

def AccSelF (pfx : String) (x : Sel) : Prop :=
  ∀ p, fSel c.s c.q c.o p x = true → envSelF e c pfx x → keysOkF c.s c.q x = true → ∀ f, fieldOfSelV c pfx x = some f →
    ∀ b fd, 2 * depthF c.q x + 1 ≤ fd → ∀ v, okB (deFieldWith (dePath e b fd) f v) = looseFieldF c.s c.q c.o b x v

def AccSelsF (pfx : String) (sels : List Sel) : Prop :=
  ∀ p, fSels c.s c.q c.o p sels = true → envSelsF e c pfx sels → keysOksF c.s c.q sels = true →
    ∀ b fd, 2 * depthsF c.q sels + 1 ≤ fd →
    (∀ kvs, (fieldsOfV c pfx sels).all (fun f => decide (countKey f.wire kvs ≤ 1) &&
        okB (readField (dePath e b fd) f kvs)) = looseOwnF c.s c.q c.o b sels kvs) ∧
    (∀ xs, (decide ((fieldsOfV c pfx sels).length ≤ xs.length) &&
        ((fieldsOfV c pfx sels).zip xs).all (fun p => okB (deFieldWith (dePath e b fd) p.1 p.2))) =
          looseArrF c.s c.q c.o b sels xs)

/-- the struct of an object-level selection set (not a lone spread) accepts exactly `conformsLooseF` -/
theorem accStructF (pfx name : String) (p : TypeId) (sels : List Sel) (H : AccSelsF e c pfx sels)
    (hnl : ∀ g, sels ≠ [Sel.spread g])
    (ht : fSels c.s c.q c.o p sels = true) (henv : envSelsF e c pfx sels) (hko : keysOksF c.s c.q sels = true)
    (hkeys : EnumSpec.nodup (expKeys c.s c.q sels) = true)
    (hs : StructEnv e name (fieldsOfF c pfx sels)) (b : Bool) (fd : Nat) (hfd : 2 * depthsF c.q sels + 2 ≤ fd) (j : Json) :
    okB (dePath e b fd name j) = conformsLooseF c.s c.q c.o b sels j := by
  obtain ⟨hp, _, n, d, cr, hfind⟩ := hs
  rw [conformsLooseF_not_lone hnl]
  have hown := own_fieldsOfF c pfx p sels ht
  have hany := any_flatten_fieldsOfF c pfx p sels ht
  have hpl := plain_fieldsOfV c pfx sels
  cases hsp : sels.any isSpread
  · -- no spread: a plain struct
    obtain ⟨fd', rfl⟩ : ∃ k, fd = k + 1 := ⟨fd - 1, by omega⟩
    obtain ⟨H1, H2⟩ := H p ht henv hko b fd' (by omega)
    have hplain : fieldsOfF c pfx sels = fieldsOfV c pfx sels := by
      rw [← hown]
      symm
      rw [List.filter_eq_self]
      intro f hf
      rw [hsp] at hany
      have := List.any_eq_false.mp hany f hf
      simpa using this
    rw [dePath_struct e b fd' name n d cr _ hp hfind, hplain]
    cases j with
    | obj kvs =>
      rw [deStruct_obj, deStructMap_plain _ _ _ _ hpl, okB_map, okB_deOwn' _ _ _ hpl, H1]
      simp [looseMemF_nospread c.s c.q c.o kvs sels hsp]
    | arr xs =>
      simp only [deStructWith, any_flatten_of_plain hpl, Bool.false_eq_true, ↓reduceIte, Bool.not_false, Bool.true_and]
      rw [← H2 xs]
      by_cases hlen : xs.length < (fieldsOfV c pfx sels).length
      · have : ¬ ((fieldsOfV c pfx sels).length ≤ xs.length) := by omega
        simp [hlen, this, okB, bad]
      · have : (fieldsOfV c pfx sels).length ≤ xs.length := by omega
        simp only [hlen, ↓reduceIte, okB_map, okB_mapM, this, decide_true, Bool.true_and]
        congr 1; funext p
        cases deFieldWith (dePath e b fd') p.1 p.2 <;> rfl
    | null => rfl
    | bool _ => rfl
    | int _ => rfl
    | num _ => rfl
    | str _ => rfl
  · -- flattened members
    obtain ⟨fd', rfl⟩ : ∃ k, fd = k + 2 := ⟨fd - 2, by omega⟩
    obtain ⟨H1, _⟩ := H p ht henv hko b (fd' + 1) (by omega)
    rw [hsp] at hany
    obtain ⟨h1, _, h3, h4⟩ := flat_hyps e c pfx p sels ht henv (nodup_iff'.mp hkeys)
    rw [dePath_struct e b (fd' + 1) name n d cr _ hp hfind]
    cases j with
    | obj kvs =>
      rw [deStruct_obj, deStructMap_flat e fd' _ _ kvs hany (fun g hg hf => (h1 g hg hf).1) h3 h4, okB_bind2, hown,
        okB_deOwn' _ _ _ hpl, H1 kvs, okB_flatVals, accMemF e c pfx p sels ht henv fd' (by omega) kvs]
    | arr xs => simp only [deStructWith, hany, ↓reduceIte]; rfl
    | null => rfl
    | bool _ => rfl
    | int _ => rfl
    | num _ => rfl
    | str _ => rfl

/-- a lone spread: the type alias of the fragment struct accepts what that struct accepts -/
theorem accAliasF (name : String) (p : TypeId) (g : Nat) (hok : fragOk c.s c.q c.o p g = true)
    (ha : AliasEnv e name (fragName c g)) (hf : FragEnv e c g) (b : Bool) (fd : Nat)
    (hfd : 2 * selsDepth (fragSels c.q g) + 3 ≤ fd) (j : Json) :
    okB (dePath e b fd name j) = conformsLooseV c.s c.o b (fragSels c.q g) j := by
  obtain ⟨fr, hfr, _, _, hv, _⟩ := fragOk_parts hok
  obtain ⟨hp, _, n, pub, hfind⟩ := ha
  unfold FragEnv at hf
  rw [hfr] at hf
  have hsels : fragSels c.q g = fr.sels := by simp [fragSels, hfr]
  have hname : fragName c g = fr.name := by simp [fragName, hfr]
  rw [hsels] at hfd ⊢
  rw [hname] at hfind
  obtain ⟨fd', rfl⟩ : ∃ k, fd = k + 1 := ⟨fd - 1, by omega⟩
  have : dePath e b (fd' + 1) name j = dePath e b fd' fr.name j := by
    rw [dePath]; simp only [dePrim_none hp, hfind, deTyWith]
  rw [this]
  exact structV_accepts_iff e c _ _ fr.sels false hv hf.2 hf.1 b fd' (by omega) j

end AccF


theorem fBody_lone {s : Schema} {q : Query} {o : Options} {p : TypeId} {g : Nat} :
    fBody s q o p [Sel.spread g] = fragOk s q o p g := rfl

section AccF2
variable (e : Env) (c : Ctx)

mutual
  theorem accSelF : ∀ (x : Sel) (pfx : String), AccSelF e c pfx x
    | .field a fid sub, pfx => by
      intro p ht henv hko f hf b fd hfd v
      have IH := accSelsF sub
      obtain ⟨sf, ft, hsf, _, hf', hw⟩ := fieldOfSelV_f c pfx p a fid sub ht
      by_cases hobj : ∃ i, sf.ty.id = .object i
      · obtain ⟨i, hid⟩ := hobj
        rw [depthF] at hfd
        have hwf : wf (gtyOf sf.ty.quals) = true := by rw [wf_gtyOf]; exact hw
        rw [fSel] at ht
        rw [envSelF] at henv
        rw [keysOkF, Bool.and_eq_true] at hko
        rw [looseFieldF]
        simp only [hsf, hid, Bool.and_eq_true] at ht henv ⊢
        obtain ⟨_, hty⟩ := ht
        cases hk : c.s.objects[i]? with
        | none => simp [hk] at hty
        | some ob =>
          simp only []
          simp only [fieldOfSelV, hsf, leafNameV, hid, Option.some.injEq] at hf
          subst hf
          rw [looseLambdaF]
          have hbody : fBody c.s c.q c.o (.object i) sub = true := hty.2
          by_cases hsp : ∃ g, sub = [Sel.spread g]
          · obtain ⟨g, rfl⟩ := hsp
            simp only at henv
            rw [deField_plain _ _ _ _ henv.1.2.1]
            have hdep : depthsF c.q [Sel.spread g] = selsDepth (fragSels c.q g) + 1 := by
              simp [depthsF, depthF]
            rw [hdep] at hfd
            exact (ok_iff_accepts _ _ (conformsLooseF c.s c.q c.o b [Sel.spread g])
              (accAliasF e c _ (.object i) g hbody henv.1 henv.2 b fd (by omega)) _ hwf).2 v
          · have hnl : ∀ g, sub ≠ [Sel.spread g] := fun g hg => hsp ⟨g, hg⟩
            have henv' : StructEnv e (pfx ++ c.cs.camel (a.getD sf.name)) (fieldsOfF c (pfx ++ c.cs.camel (a.getD sf.name)) sub) ∧
                envSelsF e c (pfx ++ c.cs.camel (a.getD sf.name)) sub := by
              revert henv
              split
              · rename_i g; exact absurd rfl (hnl g)
              · exact id
            rw [fBody_not_lone hnl] at hbody
            rw [deField_plain _ _ _ _ henv'.1.2.1]
            exact (ok_iff_accepts _ _ (conformsLooseF c.s c.q c.o b sub)
              (accStructF e c _ _ (.object i) sub (IH _) hnl hbody henv'.2 hko.2 hko.1 henv'.1 b fd (by omega)) _ hwf).2 v
      · -- scalar / enum / abstract: as in `VariantOp`
        have hno : ∀ i, sf.ty.id ≠ .object i := fun i h => hobj ⟨i, h⟩
        have hv := vSel_of_fSel_nonobj ht hsf hno
        have henv' : envSelV e c pfx (.field a fid sub) := by
          rw [envSelF] at henv
          simp only [hsf] at henv
          cases hid : sf.ty.id with
          | object i => exact absurd hid (hno i)
          | scalar k => simpa [hid] using henv
          | «enum» k => simpa [hid] using henv
          | interface k => simpa [hid] using henv
          | union k => simpa [hid] using henv
          | input k => simpa [hid] using henv
        have hl : looseFieldF c.s c.q c.o b (.field a fid sub) v = looseFieldV c.s c.o b (.field a fid sub) v := by
          rw [looseFieldF]
          simp only [hsf]
        rw [hl]
        have hd := depthF_noSpread c.q _ (noSpread_of_vSel c.s c.o _ false hv)
        rw [hd] at hfd
        exact accSelV e c _ pfx false hv henv' f hf b fd hfd v
    | .spread g, pfx => by intro _ _ _ _ f hf; cases hf
    | .inline t sub, pfx => by intro _ _ _ _ f hf; cases hf
    | .typename, pfx => by intro _ _ _ _ f hf; cases hf
  theorem accSelsF : ∀ (sels : List Sel) (pfx : String), AccSelsF e c pfx sels
    | [], pfx => by
      intro _ _ _ _ b fd _
      exact ⟨fun kvs => by simp [fieldsOfV, looseOwnF], fun xs => by simp [fieldsOfV, looseArrF]⟩
    | x :: xs, pfx => by
      intro p ht henv hko b fd hfd
      obtain ⟨hx, hxs⟩ := fSels_cons ht
      rw [envSelsF] at henv
      rw [keysOksF, Bool.and_eq_true] at hko
      rw [depthsF] at hfd
      obtain ⟨I1, I2⟩ := accSelsF xs pfx p hxs henv.2 hko.2 b fd (by omega)
      have IX := accSelF x pfx p hx henv.1 hko.1
      cases x with
      | field a fid sub =>
        obtain ⟨sf, ft, hsf, _, hf, hw⟩ := fieldOfSelV_f c pfx p a fid sub hx
        have IXf := IX _ hf b fd (by omega)
        have hfs := fieldsOfV_cons_field c pfx _ xs _ hf
        refine ⟨fun kvs => ?_, fun vs => ?_⟩
        · rw [hfs, List.all_cons, I1 kvs, looseOwnF.eq_2]
          simp only [hsf, fieldOf_wire, readField]
          cases hl : Json.lookup (a.getD sf.name) kvs with
          | none => simp only [missing_fieldOf]
          | some v => simp only [IXf v]
        · rw [hfs]
          cases vs with
          | nil => rw [looseArrF.eq_2]; simp
          | cons v vs' =>
            rw [looseArrF.eq_3]
            simp only [List.length_cons, List.zip_cons_cons, List.all_cons, IXf v, ← I2 vs',
              Nat.add_le_add_iff_right]
            cases looseFieldF c.s c.q c.o b (.field a fid sub) v <;> simp
      | spread g =>
        have hfs := fieldsOfV_cons_none c pfx (.spread g) xs rfl
        refine ⟨fun kvs => ?_, fun vs => ?_⟩
        · rw [hfs, I1 kvs]; simp [looseOwnF]
        · rw [hfs, I2 vs]; simp [looseArrF]
      | inline t sub => simp [fSel] at hx
      | typename =>
        have hfs := fieldsOfV_cons_none c pfx .typename xs rfl
        refine ⟨fun kvs => ?_, fun vs => ?_⟩
        · rw [hfs, I1 kvs]; simp [looseOwnF]
        · rw [hfs, I2 vs]; simp [looseArrF]
end

end AccF2

/-- what the name of an object-level selection set resolves to: the alias of the fragment struct (lone spread) or
    the struct with the flattened members -/
def BodyEnv (e : Env) (c : Ctx) (name pfx : String) (sels : List Sel) : Prop :=
  match sels with
  | [.spread g] => AliasEnv e name (fragName c g) ∧ FragEnv e c g
  | _ => StructEnv e name (fieldsOfF c pfx sels) ∧ envSelsF e c pfx sels

/-- **the type emitted for an object-level selection set of `FragmentOp` accepts exactly `conformsLooseF`** -/
theorem bodyF_accepts_iff (e : Env) (c : Ctx) (pfx name : String) (p : TypeId) (sels : List Sel)
    (ht : fBody c.s c.q c.o p sels = true) (henv : BodyEnv e c name pfx sels)
    (hko : keysOksF c.s c.q sels = true) (hkeys : EnumSpec.nodup (expKeys c.s c.q sels) = true)
    (b : Bool) (fd : Nat) (hfd : 2 * depthsF c.q sels + 2 ≤ fd) (j : Json) :
    okB (dePath e b fd name j) = conformsLooseF c.s c.q c.o b sels j := by
  unfold BodyEnv at henv
  by_cases hsp : ∃ g, sels = [Sel.spread g]
  · obtain ⟨g, rfl⟩ := hsp
    simp only at henv
    have hdep : depthsF c.q [Sel.spread g] = selsDepth (fragSels c.q g) + 1 := by simp [depthsF, depthF]
    rw [hdep] at hfd
    exact accAliasF e c _ p g ht henv.1 henv.2 b fd (by omega) j
  · have hnl : ∀ g, sels ≠ [Sel.spread g] := fun g hg => hsp ⟨g, hg⟩
    have henv' : StructEnv e name (fieldsOfF c pfx sels) ∧ envSelsF e c pfx sels := by
      revert henv
      split
      · exact fun _ => absurd rfl (hnl _)
      · exact id
    rw [fBody_not_lone hnl] at ht
    exact accStructF e c pfx name p sels (accSelsF e c sels pfx) hnl ht henv'.2 hko hkeys henv'.1 b fd hfd j


/-! ## the specification side: a spread is an inline fragment with the fragment's type condition -/

mutual
  /-- GraphQL §6.4.3 CollectFields treats a fragment spread like an inline fragment with the fragment's type
      condition and selection set.  (Fragment bodies are taken as they are: the class has spread-free bodies.) -/
  def expandSel (q : Query) : Sel → Sel
    | .field a fid sub => .field a fid (expandSels q sub)
    | .inline t sub => .inline t (expandSels q sub)
    | .spread g => (match q.fragments[g]? with | some f => .inline f.on f.sels | none => .spread g)
    | .typename => .typename
  def expandSels (q : Query) : List Sel → List Sel
    | [] => []
    | x :: xs => expandSel q x :: expandSels q xs
end

mutual
  theorem expandSel_noSpread (q : Query) : ∀ (x : Sel), noSpread x = true → expandSel q x = x
    | .field a fid sub => by intro h; rw [noSpread] at h; rw [expandSel, expandSels_noSpreads q sub h]
    | .inline t sub => by intro h; rw [noSpread] at h; rw [expandSel, expandSels_noSpreads q sub h]
    | .spread g => by intro h; simp [noSpread] at h
    | .typename => by intro _; rfl
  theorem expandSels_noSpreads (q : Query) : ∀ (sels : List Sel), noSpreads sels = true → expandSels q sels = sels
    | [] => by intro _; rfl
    | x :: xs => by
      intro h
      rw [noSpreads, Bool.and_eq_true] at h
      rw [expandSels, expandSel_noSpread q x h.1, expandSels_noSpreads q xs h.2]
end

section SLF
variable (s : Schema) (q : Query) (o : Options)

def SLBodyF (sels : List Sel) : Prop :=
  ∀ b i j, fBody s q o (.object i) sels = true → conformsV s i (expandSels q sels) j = true →
    conformsLooseF s q o b sels j = true

theorem slMemF (i : Nat) (kvs : List (String × Json)) (hc : ∀ k, countKey k kvs ≤ 1) : ∀ (sels : List Sel),
    fSels s q o (.object i) sels = true → confSelsV s i (expandSels q sels) kvs = true →
    looseMemF s q o sels kvs = true
  | [], _, _ => by simp [looseMemF]
  | x :: xs, ht, h => by
    obtain ⟨hx, hxs⟩ := fSels_cons ht
    rw [expandSels, confSelsV, Bool.and_eq_true] at h
    have ih := slMemF i kvs hc xs hxs h.2
    cases x with
    | spread g =>
      have hok : fragOk s q o (.object i) g = true := by simpa [fSel] using hx
      obtain ⟨fr, hfr, hon, _, hv, _⟩ := fragOk_parts hok
      have h1 := h.1
      simp only [expandSel, hfr, confSelV, hon, fragApplies, beq_self_eq_true, Bool.not_true, Bool.false_or] at h1
      rw [looseMemF.eq_2, ih, Bool.and_true]
      have : fragSels q g = fr.sels := by simp [fragSels, hfr]
      rw [this]
      exact slSels s o fr.sels false true i kvs hv hc h1
    | field a fid sub => simpa [looseMemF] using ih
    | inline t sub => simpa [looseMemF] using ih
    | typename => simpa [looseMemF] using ih

/-- a conforming response object of the expanded selection set is accepted, given the same for the nested
    object-level selection sets -/
theorem slBodyF_of (sels : List Sel)
    (IHown : ∀ b i kvs, fSels s q o (.object i) sels = true → (∀ k, countKey k kvs ≤ 1) →
      confSelsV s i (expandSels q sels) kvs = true → looseOwnF s q o b sels kvs = true) : SLBodyF s q o sels := by
  intro b i j ht hc
  by_cases hsp : ∃ g, sels = [Sel.spread g]
  · obtain ⟨g, rfl⟩ := hsp
    have hok : fragOk s q o (.object i) g = true := ht
    obtain ⟨fr, hfr, hon, _, hv, _⟩ := fragOk_parts hok
    have hsels : fragSels q g = fr.sels := by simp [fragSels, hfr]
    simp only [conformsLooseF, hsels]
    apply conformsV_loose s o b i fr.sels j hv
    cases j with
    | obj kvs =>
      simp only [expandSels, expandSel, hfr, conformsV, keysSelsV, keysSelV, hon, fragApplies, beq_self_eq_true,
        ↓reduceIte, List.append_nil, confSelsV, confSelV, Bool.not_true, Bool.false_or, Bool.and_true] at hc ⊢
      exact hc
    | null => simp [conformsV] at hc
    | bool _ => simp [conformsV] at hc
    | int _ => simp [conformsV] at hc
    | num _ => simp [conformsV] at hc
    | str _ => simp [conformsV] at hc
    | arr _ => simp [conformsV] at hc
  · have hnl : ∀ g, sels ≠ [Sel.spread g] := fun g hg => hsp ⟨g, hg⟩
    rw [fBody_not_lone hnl] at ht
    rw [conformsLooseF_not_lone hnl]
    cases j with
    | obj kvs =>
      simp only [conformsV, Bool.and_eq_true] at hc
      have hcnt := countKey_le_one_of_nodup (nodup_iff'.mp hc.1.1)
      simp only [IHown b i kvs ht hcnt hc.2, slMemF s q o i kvs hcnt sels ht hc.2, Bool.and_self]
    | null => simp [conformsV] at hc
    | bool _ => simp [conformsV] at hc
    | int _ => simp [conformsV] at hc
    | num _ => simp [conformsV] at hc
    | str _ => simp [conformsV] at hc
    | arr _ => simp [conformsV] at hc

mutual
  theorem slFieldF : ∀ (x : Sel) (p : TypeId) (b : Bool) (v : Json), fSel s q o p x = true →
      strictFieldV s (expandSel q x) v = true → looseFieldF s q o b x v = true
    | .field a fid sub, p, b, v => by
      intro ht h
      have IH := slOwnF sub
      cases hsf : s.fields[fid]? with
      | none => rw [fSel] at ht; simp [hsf] at ht
      | some sf =>
        by_cases hobj : ∃ i, sf.ty.id = .object i
        · obtain ⟨i, hid⟩ := hobj
          rw [fSel] at ht
          simp only [expandSel, strictFieldV] at h
          rw [looseFieldF]
          simp only [hsf, hid, Bool.and_eq_true] at h ht ⊢
          cases ho : s.objects[i]? with
          | none => simp [ho] at ht
          | some ob =>
            simp only []
            rw [looseLambdaF]
            refine (accepts_mono _ _ ?_ _).2 v h
            intro j hj
            simp only [conformsAt, List.any_eq_true, List.mem_range, Bool.and_eq_true, fragApplies, beq_iff_eq] at hj
            obtain ⟨rt, _, hrt, hc⟩ := hj
            subst hrt
            exact slBodyF_of s q o sub (fun b' i' kvs h1 h2 h3 => IH (.object i') b' i' kvs h1 h2 h3) b i j ht.2.2 hc
        · have hno : ∀ i, sf.ty.id ≠ .object i := fun i h => hobj ⟨i, h⟩
          have hv := vSel_of_fSel_nonobj ht hsf hno
          have hl : looseFieldF s q o b (.field a fid sub) v = looseFieldV s o b (.field a fid sub) v := by
            rw [looseFieldF]
            simp only [hsf]
          rw [hl]
          rw [expandSel_noSpread q _ (noSpread_of_vSel s o _ false hv)] at h
          exact slField s o _ false b v hv h
    | .spread _, _, _, _ => by intro _ _; simp [looseFieldF]
    | .inline _ _, _, _, _ => by intro ht; simp [fSel] at ht
    | .typename, _, _, _ => by intro _ _; simp [looseFieldF]
  theorem slOwnF : ∀ (sels : List Sel) (p : TypeId) (b : Bool) (i : Nat) (kvs : List (String × Json)),
      fSels s q o p sels = true → (∀ k, countKey k kvs ≤ 1) →
      confSelsV s i (expandSels q sels) kvs = true → looseOwnF s q o b sels kvs = true
    | [], _, _, _, _, _, _, _ => by simp [looseOwnF]
    | x :: xs, p, b, i, kvs, ht, hc, h => by
      obtain ⟨hx, hxs⟩ := fSels_cons ht
      rw [expandSels, confSelsV, Bool.and_eq_true] at h
      have ih := slOwnF xs p b i kvs hxs hc h.2
      cases x with
      | field a fid sub =>
        have hcx := h.1
        rw [expandSel, confSelV_field] at hcx
        rw [looseOwnF.eq_2, ih, Bool.and_true]
        cases hsf : s.fields[fid]? with
        | none => simp [hsf] at hcx
        | some sf =>
          simp only [hsf] at hcx ⊢
          cases hl : Json.lookup (a.getD sf.name) kvs with
          | none => simp [hl] at hcx
          | some v =>
            simp only [hl] at hcx ⊢
            have := slFieldF (.field a fid sub) p b v hx (by rw [expandSel]; exact hcx)
            simp [hc, this]
      | spread g => simpa [looseOwnF] using ih
      | inline t sub => simp [fSel] at hx
      | typename => simpa [looseOwnF] using ih
end

/-- every response conforming to the specification (on the expanded selection set) is accepted -/
theorem conformsF_loose (b : Bool) (i : Nat) (sels : List Sel) (j : Json)
    (ht : fBody s q o (.object i) sels = true) (h : conformsV s i (expandSels q sels) j = true) :
    conformsLooseF s q o b sels j = true :=
  slBodyF_of s q o sels (fun b' i' kvs h1 h2 h3 => slOwnF s q o sels (.object i') b' i' kvs h1 h2 h3) b i j ht h

end SLF

end E2E
end C01
end GqlVerif
