import GqlVerif.Proofs.C01AbstractC
/-!
# C01 / C03 end to end over `Codegen.responseForQuery`, for operations with abstract positions (`VariantOp`)

**Scope** (part A): selection trees made of `.field` (with or without alias), `.typename`, and — in selection
sets on interface / union typed fields — inline fragments on object types; at such an abstract position:
`__typename` selected, every inline fragment on a possible type, at most one per type, and no response key
both at the interface level and inside an inline fragment (`absOk`; the exclusion is necessary:
`C01.overlap_loses_key`, known finding `C01-overlap`).  Normalization `none`, no denied deprecated field.
**Named fragment spreads are out of scope of this file** (see `C01AbstractF`).

Files: `C01AbstractA` (specification `conformsV` with runtime types, class `VariantOp`, closed form,
`variant_items_shape`), `C01AbstractB` (exact acceptance `conformsLooseV` / `conformsLooseAbs`, `conformsV_loose`),
`C01AbstractC` (`canonSelV`, losslessness), this file (top level over `moduleEnv c items`).

* `variant_accepts`: `conformsOpV c op j → ∃ v, Serde.de env ResponseData j = .ok v`;
* `variant_lossless` / `variant_roundtrip`: `… → Serde.ser env ResponseData v = .ok (canonSelV … j)`;
  `__typename` is kept at abstract positions (and dropped, as before, on object selections);
* `variant_precise_iff` / `variant_precise` (C03): `Serde.de env ResponseData j` succeeds **iff**
  `conformsLooseV c.s c.o false op.sels j`.  At an abstract position (`conformsLooseAbs`), spelled out:
  `abs_tag_count` (missing / duplicated `__typename` rejected), `abs_tag_kind` (neither string nor integer:
  rejected), `abs_tag_unknown` (unknown string rejected unless `fragmentsOtherVariant`), `abs_tag_known` (a
  known one is accepted iff the interface-level fields and *its own* variant accept), `abs_tag_selects` (on
  the value: the known tag's own variant, `Unknown` for an unknown one), and the known finding
  `C03-typename-index`: `abs_tag_int` — an integer `__typename` can only be accepted where the tagged enum
  is read from buffered content, i.e. at an abstract position with interface-level fields (flattened `on`)
  or below another abstract position; `abs_tag_int_direct_rejected` — never at an abstract position without
  interface-level fields that is reached from `ResponseData` through object positions only; witnesses
  `int_tag_flattened_accepted`, `int_tag_nested_accepted`, `int_tag_direct_rejected` at the end of the file.

Hypotheses (all decidable, all evaluated on a concrete module at the end of the file): `VariantOp c op`;
`moduleOk c items` (of `C01EndToEnd`); for losslessness also `rustOkSelsV` / `rustNames`.
-/
set_option linter.unusedSimpArgs false
set_option linter.unusedVariables false
set_option linter.unusedSectionVars false

namespace GqlVerif
namespace C01
namespace E2E
open Serde Spec C13 C03 Codegen

/-! ## fuel: the depth of the selection tree is below the number of emitted items -/

theorem length_flatMap_ge {α β} (f : α → List β) : ∀ (l : List α) (a : α), a ∈ l → (f a).length ≤ (l.flatMap f).length
  | [], a, h => by simp at h
  | x :: xs, a, h => by
    rw [List.flatMap_cons, List.length_append]
    rcases List.mem_cons.mp h with rfl | h'
    · omega
    · have := length_flatMap_ge f xs a h'; omega

theorem length_inlItems_ge (c : Ctx) (pfx : String) (vt : TypeId) : ∀ (sels : List Sel) (x : Sel), x ∈ sels →
    (inlItem c pfx vt x).length ≤ (inlItems c pfx vt sels).length
  | [], x, h => by simp at h
  | y :: ys, x, h => by
    rw [inlItems, List.length_append]
    rcases List.mem_cons.mp h with rfl | h'
    · omega
    · have := length_inlItems_ge c pfx vt ys x h'; omega

theorem renderType_length_pos (c : Ctx) (n : String) (fs : List RField) (vs : List RVariant) :
    1 ≤ (renderType c n fs vs).length := by
  unfold renderType
  split
  · simp
  · split <;> simp

theorem length_flatMap_mono {α β} (f g : α → List β) (h : ∀ a, (f a).length ≤ (g a).length) :
    ∀ (l : List α), (l.flatMap f).length ≤ (l.flatMap g).length
  | [] => by simp
  | x :: xs => by
    have := length_flatMap_mono f g h xs
    have := h x
    simp only [List.flatMap_cons, List.length_append]; omega

/-- the items emitted for the selection `x` of a selection set with prefix `pfx`; for an inline fragment:
    its variant struct and nested items -/
def allItems (c : Ctx) (pfx : String) : Sel → List Item
  | .inline t isub => inlItem c pfx t (.inline t isub)
  | x => itemsV c pfx x

theorem mem_itemsVs {c : Ctx} {pfx : String} {it : Item} : ∀ {sels : List Sel} {x : Sel}, x ∈ sels →
    it ∈ itemsV c pfx x → it ∈ itemsVs c pfx sels
  | [], _, h, _ => by simp at h
  | y :: ys, x, h, hit => by
    rw [itemsVs, List.mem_append]
    rcases List.mem_cons.mp h with rfl | h'
    · exact .inl hit
    · exact .inr (mem_itemsVs h' hit)

theorem mem_inlItems {c : Ctx} {pfx : String} {vt : TypeId} {it : Item} : ∀ {sels : List Sel} {x : Sel}, x ∈ sels →
    it ∈ inlItem c pfx vt x → it ∈ inlItems c pfx vt sels
  | [], _, h, _ => by simp at h
  | y :: ys, x, h, hit => by
    rw [inlItems, List.mem_append]
    rcases List.mem_cons.mp h with rfl | h'
    · exact .inl hit
    · exact .inr (mem_inlItems h' hit)

mutual
  theorem depthV_sel (c : Ctx) : ∀ (x : Sel) (pfx : String) (abs : Bool), vSel c.s c.o abs x = true →
      selDepth x ≤ (allItems c pfx x).length + 1
    | .field a fid sub, pfx, abs => by
      intro ht
      have IH := depthV_sels c sub
      rw [vSel] at ht
      simp only [allItems]
      rw [selDepth, itemsV]
      cases hsf : c.s.fields[fid]? with
      | none => simp [hsf] at ht
      | some sf =>
        simp only [hsf, Bool.and_eq_true] at ht ⊢
        obtain ⟨_, hty⟩ := ht
        cases hid : sf.ty.id with
        | scalar k =>
          simp only [hid, Bool.and_eq_true, List.isEmpty_iff] at hty
          rw [hty.2]; simp [selsDepth]
        | «enum» k =>
          simp only [hid, Bool.and_eq_true, List.isEmpty_iff] at hty
          rw [hty.2]; simp [selsDepth]
        | object i =>
          simp only [hid, Bool.and_eq_true] at hty
          have := (IH (pfx ++ c.cs.camel (a.getD sf.name)) false hty.1.2).1 rfl
          simp only [List.length_cons]; omega
        | interface k =>
          simp only [hid, Bool.and_eq_true] at hty
          obtain ⟨_, _, _, _, _, hin, _, _⟩ := absOk_parts hty.2
          have := (IH (pfx ++ c.cs.camel (a.getD sf.name)) true hty.1.2).2 _ hin
          have := renderType_length_pos c (pfx ++ c.cs.camel (a.getD sf.name))
            (fieldsOfV c (pfx ++ c.cs.camel (a.getD sf.name)) sub)
            (variantsV c (pfx ++ c.cs.camel (a.getD sf.name)) (.interface k) sub)
          simp only [List.length_append]; omega
        | union k =>
          simp only [hid, Bool.and_eq_true] at hty
          obtain ⟨_, _, _, _, _, hin, _, _⟩ := absOk_parts hty.2
          have := (IH (pfx ++ c.cs.camel (a.getD sf.name)) true hty.1.2).2 _ hin
          have := renderType_length_pos c (pfx ++ c.cs.camel (a.getD sf.name))
            (fieldsOfV c (pfx ++ c.cs.camel (a.getD sf.name)) sub)
            (variantsV c (pfx ++ c.cs.camel (a.getD sf.name)) (.union k) sub)
          simp only [List.length_append]; omega
        | input k => simp [hid] at hty
    | .spread _, _, _ => by intro ht; simp [vSel] at ht
    | .inline t isub, pfx, abs => by
      intro ht
      simp only [vSel, Bool.and_eq_true] at ht
      have := (depthV_sels c isub (pfx ++ "On" ++ c.cs.camel (objName c.s t)) false ht.1.2).1 rfl
      simp only [allItems, inlItem, beq_self_eq_true, ↓reduceIte, List.length_cons]
      rw [selDepth]; omega
    | .typename, _, _ => by intro _; simp [selDepth]
  /-- object level: the nested items; abstract level (all inline fragments on listed variants): also the
      variant structs -/
  theorem depthV_sels (c : Ctx) : ∀ (sels : List Sel) (pfx : String) (abs : Bool), vSels c.s c.o abs sels = true →
      (abs = false → selsDepth sels ≤ (itemsVs c pfx sels).length + 1) ∧
      (∀ vts : List TypeId, (∀ t ∈ sels.filterMap inlineTy, t ∈ vts) →
        selsDepth sels ≤ (vts.flatMap (fun vt => inlItems c pfx vt sels)).length + (itemsVs c pfx sels).length + 1)
    | [], _, _ => by intro _; simp [selsDepth]
    | x :: xs, pfx, abs => by
      intro ht
      obtain ⟨hx, hxs⟩ := vSels_cons ht
      have h1 := depthV_sel c x pfx abs hx
      obtain ⟨h2, h3⟩ := depthV_sels c xs pfx abs hxs
      constructor
      · intro habs
        subst habs
        have h2' := h2 rfl
        rw [selsDepth, itemsVs, List.length_append]
        cases x with
        | inline t isub => simp [vSel] at hx
        | field a fid sub => simp only [allItems] at h1; omega
        | spread g => simp [vSel] at hx
        | typename => simp only [allItems] at h1; omega
      · intro vts hin
        have h3' := h3 vts (fun t h' => hin t (by
          cases x <;> simp [List.filterMap_cons, inlineTy, h']))
        have hmono : (vts.flatMap (fun vt => inlItems c pfx vt xs)).length ≤
            (vts.flatMap (fun vt => inlItems c pfx vt (x :: xs))).length := by
          apply length_flatMap_mono
          intro vt
          rw [inlItems.eq_2, List.length_append]; omega
        rw [selsDepth, itemsVs, List.length_append]
        cases x with
        | inline t isub =>
          have ht' : t ∈ vts := hin t (by simp [List.filterMap_cons, inlineTy])
          have hge := length_flatMap_ge (fun vt => inlItems c pfx vt (Sel.inline t isub :: xs)) vts t ht'
          have hge2 := length_inlItems_ge c pfx t (Sel.inline t isub :: xs) _ (List.mem_cons_self)
          simp only [allItems] at h1
          omega
        | field a fid sub => simp only [allItems] at h1; omega
        | spread g => simp [vSel] at hx
        | typename => simp only [allItems] at h1; omega
end


/-! ## the environment of an emitted module -/

theorem reach_step_inline {q : Query} {sels : List Sel} {t : TypeId} {sub : List Sel} {y : Sel}
    (h : C02.Reach q sels (.inline t sub)) (hy : y ∈ sub) : C02.Reach q sels y := by
  generalize hx : Sel.inline t sub = x at h
  induction h with
  | here hm => subst hx; exact .inline hm (.here hy)
  | field hm _ ih => exact .field hm (ih hx)
  | inline hm _ ih => exact .inline hm (ih hx)
  | spread hm hf _ ih => exact .spread hm hf (ih hx)

theorem variantsV_ne_nil {s : Schema} {o : Options} {ty : TypeId} (c' : Ctx) (hs : c'.s = s) (ho : c'.o = o)
    (pfx : String) (sub : List Sel) (h : variantNames s o ty ≠ []) : variantsV c' pfx ty sub ≠ [] := by
  intro hnil
  have := (variantsV_wire c' pfx ty sub).1
  rw [hnil, hs, ho] at this
  exact h this.symm

theorem allItems_obj {c : Ctx} {pfx : String} {x : Sel} (h : vSel c.s c.o false x = true) :
    allItems c pfx x = itemsV c pfx x := by
  cases x <;> first | rfl | (simp [vSel] at h)

section EnvOfV
variable {c : Ctx} {items : List Item} {u : UsedTypes} {root : List Sel} (M : ModFacts c items u root)
include M

theorem taggedEnv_of (name : String) (vs : List RVariant)
    (hmem : Item.tagged name c.respDerives c.serdeCrate "__typename" vs ∈ items) :
    TaggedEnv (moduleEnv c items) name vs :=
  ⟨M.np _ hmem, name_ne_ID M hmem (by intro t h; cases h), _, _, _, find_of_mem (customExterns c) M.nodup hmem⟩

theorem absEnv_of (name : String) (fields : List RField) (vs : List RVariant) (hvs : vs ≠ [])
    (hmem : ∀ it ∈ renderType c name fields vs, it ∈ items) :
    AbsEnv (moduleEnv c items) name fields vs := by
  unfold AbsEnv
  have hve : vs.isEmpty = false := by cases vs <;> simp_all
  unfold renderType at hmem
  cases hf : fields.isEmpty
  · simp only [hf, hve, Bool.false_and, Bool.false_eq_true, ↓reduceIte] at hmem ⊢
    exact ⟨structEnv_of M _ _ (hmem (.struct name c.respDerives c.serdeCrate (fields ++ [onField name])) (by simp [onField])), taggedEnv_of M _ _ (hmem _ (by simp))⟩
  · simp only [hf, hve, Bool.not_false, Bool.and_self, ↓reduceIte] at hmem ⊢
    exact taggedEnv_of M _ _ (hmem _ (by simp))

mutual
  theorem envSelV_of : ∀ (x : Sel) (pfx : String) (abs : Bool), vSel c.s c.o abs x = true →
      (∀ it ∈ allItems c pfx x, it ∈ items) → C02.Reach c.q root x → envSelV (moduleEnv c items) c pfx x
    | .field a fid sub, pfx, abs => by
      intro ht hit hr
      have IH := envSelsV_of sub
      have hdir := M.used _ hr
      rw [vSel] at ht
      simp only [allItems] at hit
      rw [itemsV] at hit
      rw [envSelV]
      cases hsf : c.s.fields[fid]? with
      | none => simp [hsf] at ht
      | some sf =>
        simp only [hsf, Bool.and_eq_true] at ht hit ⊢
        have hty := ht.2
        have hused : sf.ty.id ∈ u.types := hdir sf hsf
        cases hid : sf.ty.id with
        | scalar k =>
          simp only [hid] at hused ⊢
          cases hk : c.s.scalars[k]? with
          | none => trivial
          | some sn => exact scalarEnv_of M k sn hk hused
        | «enum» k =>
          simp only [hid] at hused ⊢
          cases hk : c.s.enums[k]? with
          | none => trivial
          | some en => exact enumEnv_of M k en hk hused
        | object i =>
          simp only [hid, Bool.and_eq_true] at hty hit ⊢
          refine ⟨structEnv_of M _ _ (hit _ (by simp)), ?_⟩
          exact IH _ false hty.1.2 (fun x hx it h => hit it (by
            have : it ∈ itemsVs c (pfx ++ c.cs.camel (a.getD sf.name)) sub := mem_itemsVs hx (by
              rw [← allItems_obj (vSels_mem hty.1.2 _ hx)]; exact h)
            simp [this])) (fun y hy => reach_step hr hy)
        | interface k =>
          simp only [hid, Bool.and_eq_true] at hty hit ⊢
          obtain ⟨_, _, _, hne, _, hin, _, _⟩ := absOk_parts hty.2
          refine ⟨absEnv_of M _ _ _ (variantsV_ne_nil c rfl rfl _ sub hne) (fun it h => hit it (by simp [h])), ?_⟩
          exact IH _ true hty.1.2 (fun x hx it h => hit it (by
            cases x with
            | inline t isub =>
              have ht' := hin t (List.mem_filterMap.mpr ⟨_, hx, rfl⟩)
              have : it ∈ (vtsOfTy c.s (.interface k)).flatMap
                  (fun vt => inlItems c (pfx ++ c.cs.camel (a.getD sf.name)) vt sub) :=
                List.mem_flatMap.mpr ⟨t, ht', mem_inlItems hx h⟩
              simp [this]
            | field a' fid' sub' => simp [mem_itemsVs hx h]
            | spread g => simp [mem_itemsVs hx h]
            | typename => simp [mem_itemsVs hx h])) (fun y hy => reach_step hr hy)
        | union k =>
          simp only [hid, Bool.and_eq_true] at hty hit ⊢
          obtain ⟨_, _, _, hne, _, hin, _, _⟩ := absOk_parts hty.2
          refine ⟨absEnv_of M _ _ _ (variantsV_ne_nil c rfl rfl _ sub hne) (fun it h => hit it (by simp [h])), ?_⟩
          exact IH _ true hty.1.2 (fun x hx it h => hit it (by
            cases x with
            | inline t isub =>
              have ht' := hin t (List.mem_filterMap.mpr ⟨_, hx, rfl⟩)
              have : it ∈ (vtsOfTy c.s (.union k)).flatMap
                  (fun vt => inlItems c (pfx ++ c.cs.camel (a.getD sf.name)) vt sub) :=
                List.mem_flatMap.mpr ⟨t, ht', mem_inlItems hx h⟩
              simp [this]
            | field a' fid' sub' => simp [mem_itemsVs hx h]
            | spread g => simp [mem_itemsVs hx h]
            | typename => simp [mem_itemsVs hx h])) (fun y hy => reach_step hr hy)
        | input k => simp [hid] at hty
    | .spread _, _, _ => by intro ht; simp [vSel] at ht
    | .inline t isub, pfx, abs => by
      intro ht hit hr
      have IH := envSelsV_of isub
      simp only [vSel, Bool.and_eq_true] at ht
      simp only [allItems, inlItem, beq_self_eq_true, ↓reduceIte] at hit
      rw [envSelV]
      refine ⟨structEnv_of M _ _ (hit _ (by simp)), ?_⟩
      exact IH _ false ht.1.2 (fun x hx it h => hit it (by
        have : it ∈ itemsVs c (pfx ++ "On" ++ c.cs.camel (objName c.s t)) isub := mem_itemsVs hx (by
          rw [← allItems_obj (vSels_mem ht.1.2 _ hx)]; exact h)
        simp [this])) (fun y hy => reach_step_inline hr hy)
    | .typename, _, _ => by intro _ _ _; simp [envSelV]
  theorem envSelsV_of : ∀ (sels : List Sel) (pfx : String) (abs : Bool), vSels c.s c.o abs sels = true →
      (∀ x ∈ sels, ∀ it ∈ allItems c pfx x, it ∈ items) → (∀ x ∈ sels, C02.Reach c.q root x) →
      envSelsV (moduleEnv c items) c pfx sels
    | [], _, _ => by intro _ _ _; simp [envSelsV]
    | x :: xs, pfx, abs => by
      intro ht hit hr
      obtain ⟨hx, hxs⟩ := vSels_cons ht
      rw [envSelsV]
      exact ⟨envSelV_of x pfx abs hx (hit x (by simp)) (hr x (by simp)),
        envSelsV_of xs pfx abs hxs (fun y hy => hit y (by simp [hy])) (fun y hy => hr y (by simp [hy]))⟩
end

end EnvOfV


/-! ## `serde_json::to_value` normalisation leaves the canonical form alone -/

theorem fieldKeys_sublist (s : Schema) : ∀ (sels : List Sel), (fieldKeys s sels).Sublist (respKeys s sels)
  | [] => by simp [fieldKeys, respKeys]
  | x :: xs => by
    have ih := fieldKeys_sublist s xs
    cases x with
    | field a fid sub =>
      simp only [fieldKeys, respKeys, List.filterMap_cons, fieldKey, respKey] at ih ⊢
      cases hsf : s.fields[fid]? with
      | none => simpa using ih
      | some sf => simp only [Option.map_some]; exact List.Sublist.cons_cons _ ih
    | spread g =>
      have h1 : respKey s (.spread g) = none := rfl
      simpa [fieldKeys, respKeys, List.filterMap_cons, fieldKey, h1] using ih
    | inline t sub =>
      have h1 : respKey s (.inline t sub) = none := rfl
      simpa [fieldKeys, respKeys, List.filterMap_cons, fieldKey, h1] using ih
    | typename =>
      have h1 : respKey s .typename = some "__typename" := rfl
      simp only [fieldKeys, respKeys, List.filterMap_cons, fieldKey, h1] at ih ⊢
      exact List.Sublist.cons _ ih

theorem canonEntriesV_keys (s : Schema) (skip : Bool) (kvs : List (String × Json)) :
    ∀ sels : List Sel, ((canonEntriesV s skip sels kvs).map (·.1)).Sublist (fieldKeys s sels)
  | [] => by simp [canonEntriesV, fieldKeys]
  | x :: xs => by
    have ih := canonEntriesV_keys s skip kvs xs
    cases x with
    | field a fid sub =>
      rw [canonEntriesV.eq_2]
      simp only [fieldKeys, List.filterMap_cons, fieldKey]
      cases hsf : s.fields[fid]? with
      | none => simpa [fieldKeys] using ih
      | some sf =>
        simp only [Option.map_some, List.map_append]
        have : ∀ l : List (String × Json), (l = [] ∨ ∃ v, l = [(a.getD sf.name, v)]) →
            (l.map (·.1) ++ (canonEntriesV s skip xs kvs).map (·.1)).Sublist
              (a.getD sf.name :: List.filterMap (fieldKey s) xs) := by
          intro l hl
          rcases hl with rfl | ⟨v, rfl⟩
          · exact List.Sublist.cons _ ih
          · exact List.Sublist.cons_cons _ ih
        apply this
        cases Json.lookup (a.getD sf.name) kvs with
        | none => simp only []; split <;> simp
        | some v => simp only []; split <;> simp
    | spread g => simpa [canonEntriesV, fieldKeys, List.filterMap_cons, fieldKey] using ih
    | inline t sub => simpa [canonEntriesV, fieldKeys, List.filterMap_cons, fieldKey] using ih
    | typename => simpa [canonEntriesV, fieldKeys, List.filterMap_cons, fieldKey] using ih

/-- under every selected field's key, a value conforming to the field -/
def StrictAt (s : Schema) (sels : List Sel) (kvs : List (String × Json)) : Prop :=
  ∀ a fid sub, Sel.field a fid sub ∈ sels → ∀ sf, s.fields[fid]? = some sf →
    ∀ v, Json.lookup (a.getD sf.name) kvs = some v → strictFieldV s (.field a fid sub) v = true

theorem strictAt_of_conf {s : Schema} {rt : Nat} {sels : List Sel} {kvs : List (String × Json)}
    (h : confSelsV s rt sels kvs = true) : StrictAt s sels kvs := by
  intro a fid sub hm sf hsf v hl
  have := confSelsV_mem h _ hm
  rw [confSelV_field] at this
  simpa [hsf, hl] using this

theorem normJson_str (n : String) : normJson (.str n) = .str n := by simp [normJson]

section NormV
variable (s : Schema) (o : Options) (skip : Bool)

/-- the canonical form at an abstract position is a normal form, given that of its parts -/
theorem norm_abs (ty : TypeId) (sub : List Sel)
    (IHe : ∀ kvs, StrictAt s sub kvs → ∀ kv ∈ canonEntriesV s skip sub kvs, normJson kv.2 = kv.2)
    (IHi : ∀ t isub, Sel.inline t isub ∈ sub → ∀ kvs, StrictAt s isub kvs →
      ∀ kv ∈ canonEntriesV s skip isub kvs, normJson kv.2 = kv.2)
    (hty : absHyp s ty) (ht : vSels s o true sub = true) (hok : absOk s o ty sub = true) (j : Json)
    (hc : conformsAt s ty sub j = true) : normJson (canonAbsV s skip sub j) = canonAbsV s skip sub j := by
  obtain ⟨rt, kvs, rfl, hnd, hconf, htag, hmem⟩ := abs_conf_facts hty hok hc
  obtain ⟨htn, hrk, _, _, hvn, hin, hind, hexcl⟩ := absOk_parts hok
  have htagName : tagName kvs = rtName s rt := by simp [tagName, htag]
  have hnames : ((vtsOfTy s ty).map (objName s)).Nodup := by
    unfold variantNames at hvn
    exact (List.nodup_append.mp hvn).1
  obtain ⟨hu1, hu2⟩ := canonInlV_unique s skip (.object rt) kvs _ hnames hmem sub hind hin
  have hfk : (fieldKeys s sub).Nodup := (fieldKeys_sublist s sub).nodup (nodup_iff'.mp hrk)
  have hnf := typename_not_fieldKey s sub htn hrk
  simp only [canonAbsV, htagName]
  rw [show rtName s rt = objName s (.object rt) from rfl]
  by_cases hm : TypeId.object rt ∈ sub.filterMap inlineTy
  · obtain ⟨y, hy, hyt⟩ := List.mem_filterMap.mp hm
    cases y with
    | inline t' isub =>
      simp only [inlineTy, Option.some.injEq] at hyt
      subst hyt
      rw [hu2 isub hy]
      have hvy := vSels_mem ht _ hy
      simp only [vSel, Bool.and_eq_true] at hvy
      have hconf_i : confSelsV s rt isub kvs = true := by
        have := confSelsV_mem hconf _ hy
        simpa [confSelV, fragApplies] using this
      have hfki : (fieldKeys s isub).Nodup := (fieldKeys_sublist s isub).nodup (nodup_iff'.mp hvy.2)
      apply normJson_obj_fixed
      · have hsub : ((canonEntriesV s skip sub kvs ++
            (("__typename", Json.str (objName s (.object rt))) :: canonEntriesV s skip isub kvs)).map (·.1)).Sublist
            (fieldKeys s sub ++ ("__typename" :: fieldKeys s isub)) := by
          simp only [List.map_append, List.map_cons]
          exact (canonEntriesV_keys s skip kvs sub).append ((canonEntriesV_keys s skip kvs isub).cons_cons _)
        refine hsub.nodup ?_
        rw [List.nodup_append]
        refine ⟨hfk, ?_, ?_⟩
        · rw [List.nodup_cons]
          refine ⟨?_, hfki⟩
          intro hmem'
          exact hexcl _ isub hy _ hmem' (List.mem_filterMap.mpr ⟨_, typename_mem htn, rfl⟩)
        · intro a ha b hb hab
          subst hab
          simp only [List.mem_cons] at hb
          rcases hb with rfl | hb
          · exact hnf ha
          · exact hexcl _ isub hy _ hb (fieldKeys_sub_respKeys s sub _ ha)
      · intro kv hkv
        simp only [List.mem_append, List.mem_cons] at hkv
        rcases hkv with hkv | rfl | hkv
        · exact IHe kvs (strictAt_of_conf hconf) kv hkv
        · exact normJson_str _
        · exact IHi _ isub hy kvs (strictAt_of_conf hconf_i) kv hkv
    | field a fid sub' => cases hyt
    | spread g => cases hyt
    | typename => cases hyt
  · rw [hu1 hm]
    apply normJson_obj_fixed
    · have hsub : ((canonEntriesV s skip sub kvs ++
          [("__typename", Json.str (objName s (.object rt)))]).map (·.1)).Sublist
          (fieldKeys s sub ++ ["__typename"]) := by
        simp only [List.map_append, List.map_cons, List.map_nil]
        exact (canonEntriesV_keys s skip kvs sub).append (List.Sublist.refl _)
      refine hsub.nodup ?_
      rw [List.nodup_append]
      refine ⟨hfk, by simp, ?_⟩
      intro a ha b hb hab
      subst hab
      simp only [List.mem_singleton] at hb
      subst hb
      exact hnf ha
    · intro kv hkv
      simp only [List.mem_append, List.mem_singleton] at hkv
      rcases hkv with hkv | rfl
      · exact IHe kvs (strictAt_of_conf hconf) kv hkv
      · exact normJson_str _

mutual
  theorem normFieldV : ∀ (x : Sel) (abs : Bool) (v : Json), vSel s o abs x = true →
      strictFieldV s x v = true → normJson (canonFieldV s skip x v) = canonFieldV s skip x v
    | .field a fid sub, abs, v => by
      intro ht hst
      have IHe := normEntriesV sub
      have IHi := normInlsV sub
      rw [vSel] at ht
      simp only [strictFieldV] at hst
      rw [canonFieldV]
      cases hsf : s.fields[fid]? with
      | none => simp [hsf] at ht
      | some sf =>
        simp only [hsf, Bool.and_eq_true] at ht hst ⊢
        obtain ⟨_, hty⟩ := ht
        cases hid : sf.ty.id with
        | scalar k =>
          simp only [hid] at hst ⊢
          cases hk : s.scalars[k]? with
          | none => simp [hk] at hst
          | some sn =>
            simp only [hk] at hst ⊢
            by_cases hID : sn = "ID"
            · subst hID
              simp only [↓reduceIte]
              exact (norm_canon idOk idCanon norm_idCanon _).2 v (by simpa [scalarOk] using hst)
            · simp only [hID, ↓reduceIte]
              have := (norm_canon (scalarOk sn) id (norm_scalar sn) _).2 v hst
              rwa [(canon_id _).2 v] at this
        | «enum» k =>
          simp only [hid] at hst ⊢
          cases hk : s.enums[k]? with
          | none => simp [hk] at hst
          | some en =>
            simp only [hk] at hst
            have := (norm_canon stringOk id norm_string _).2 v hst
            rwa [(canon_id _).2 v] at this
        | object i =>
          simp only [hid, Bool.and_eq_true] at hty hst ⊢
          rw [canonLambdaV]
          refine (norm_canon (conformsAt s (.object i) sub) (canonSelV s skip sub) ?_ _).2 v hst
          intro j hj
          simp only [conformsAt, List.any_eq_true, List.mem_range, Bool.and_eq_true] at hj
          obtain ⟨rt, _, _, hcv⟩ := hj
          cases j with
          | obj kvs =>
            simp only [conformsV, Bool.and_eq_true] at hcv
            rw [canonSelV]
            exact normJson_obj_fixed _
              (((canonEntriesV_keys s skip kvs sub).trans (fieldKeys_sublist s sub)).nodup (nodup_iff'.mp hty.2))
              (IHe false kvs hty.1.2 (strictAt_of_conf hcv.2))
          | null => rfl
          | bool _ => rfl
          | int _ => rfl
          | num _ => rfl
          | str _ => rfl
          | arr _ => simp [conformsV] at hcv
        | interface k =>
          simp only [hid, Bool.and_eq_true] at hty hst ⊢
          rw [canonLambdaAbs]
          exact (norm_canon (conformsAt s (.interface k) sub) (canonAbsV s skip sub)
            (norm_abs s o skip (.interface k) sub (fun kvs h => IHe true kvs hty.1.2 h) (IHi hty.1.2) hty.1.1 hty.1.2 hty.2) _).2 v hst
        | union k =>
          simp only [hid, Bool.and_eq_true] at hty hst ⊢
          rw [canonLambdaAbs]
          exact (norm_canon (conformsAt s (.union k) sub) (canonAbsV s skip sub)
            (norm_abs s o skip (.union k) sub (fun kvs h => IHe true kvs hty.1.2 h) (IHi hty.1.2) hty.1.1 hty.1.2 hty.2) _).2 v hst
        | input k => simp [hid] at hty
    | .spread _, _, _ => by intro ht; simp [vSel] at ht
    | .inline _ _, _, _ => by intro _ h; simp [strictFieldV] at h
    | .typename, _, _ => by intro _ h; simp [strictFieldV] at h
  theorem normEntriesV : ∀ (sels : List Sel) (abs : Bool) (kvs : List (String × Json)),
      vSels s o abs sels = true → StrictAt s sels kvs → ∀ kv ∈ canonEntriesV s skip sels kvs, normJson kv.2 = kv.2
    | [], _, _, _, _ => by simp [canonEntriesV]
    | x :: xs, abs, kvs, ht, hc => by
      obtain ⟨hx, hxs⟩ := vSels_cons ht
      have ih := normEntriesV xs abs kvs hxs (fun a fid sub hm => hc a fid sub (List.mem_cons_of_mem _ hm))
      cases x with
      | field a fid sub =>
        rw [canonEntriesV.eq_2]
        cases hsf : s.fields[fid]? with
        | none => simpa using ih
        | some sf =>
          simp only []
          cases hl : Json.lookup (a.getD sf.name) kvs with
          | none =>
            simp only []
            intro kv hkv
            rw [List.mem_append] at hkv
            rcases hkv with hkv | hkv
            · split at hkv
              · simp at hkv
              · simp only [List.mem_singleton] at hkv; subst hkv; rfl
            · exact ih kv hkv
          | some v =>
            simp only []
            intro kv hkv
            rw [List.mem_append] at hkv
            rcases hkv with hkv | hkv
            · split at hkv
              · simp at hkv
              · simp only [List.mem_singleton] at hkv
                subst hkv
                exact normFieldV _ abs v hx (hc a fid sub (by simp) sf hsf v hl)
            · exact ih kv hkv
      | spread g => simp [vSel] at hx
      | inline t sub => simpa [canonEntriesV] using ih
      | typename => simpa [canonEntriesV] using ih
  theorem normInlsV : ∀ (sels : List Sel), vSels s o true sels = true → ∀ t isub, Sel.inline t isub ∈ sels →
      ∀ kvs, StrictAt s isub kvs → ∀ kv ∈ canonEntriesV s skip isub kvs, normJson kv.2 = kv.2
    | [], _, _, _, h => by simp at h
    | x :: xs, ht, t, isub, hm => by
      obtain ⟨hx, hxs⟩ := vSels_cons ht
      rcases List.mem_cons.mp hm with heq | hm'
      · cases x with
        | inline t' isub' =>
          cases heq
          simp only [vSel, Bool.and_eq_true] at hx
          exact fun kvs h => normEntriesV isub false kvs hx.1.2 h
        | field a fid sub => cases heq
        | spread g => cases heq
        | typename => cases heq
      · exact normInlsV xs hxs t isub hm'
end

end NormV

/-- the canonical form of a conforming response is a `serde_json::to_value` normal form -/
theorem norm_canonSelV (s : Schema) (o : Options) (skip : Bool) (rt : Nat) (sels : List Sel) (j : Json)
    (ht : vSels s o false sels = true) (hk : EnumSpec.nodup (respKeys s sels) = true)
    (hj : conformsV s rt sels j = true) : normJson (canonSelV s skip sels j) = canonSelV s skip sels j := by
  cases j with
  | obj kvs =>
    simp only [conformsV, Bool.and_eq_true] at hj
    rw [canonSelV]
    exact normJson_obj_fixed _
      (((canonEntriesV_keys s skip kvs sels).trans (fieldKeys_sublist s sels)).nodup (nodup_iff'.mp hk))
      (normEntriesV s o skip sels false kvs ht (strictAt_of_conf hj.2))
  | null => rfl
  | bool _ => rfl
  | int _ => rfl
  | num _ => rfl
  | str _ => rfl
  | arr _ => simp [conformsV] at hj


/-! ## top level: `Serde.de` / `Serde.ser` at `ResponseData` -/

/-- what the end-to-end theorems need of the environment (discharged for the environment built from
    `responseForQuery` by `topEnvV_of_module`) -/
structure TopEnvV (e : Env) (c : Ctx) (op : ROperation) : Prop where
  root : StructEnv e "ResponseData" (fieldsOfV c (c.cs.camel op.name) op.sels)
  sub : envSelsV e c (c.cs.camel op.name) op.sels
  size : (itemsVs c (c.cs.camel op.name) op.sels).length + 1 ≤ e.items.length

theorem depth_le_envV (e : Env) (c : Ctx) (op : ROperation) (ht : vSels c.s c.o false op.sels = true)
    (hsz : (itemsVs c (c.cs.camel op.name) op.sels).length + 1 ≤ e.items.length) :
    selsDepth op.sels ≤ e.items.length := by
  have := (depthV_sels c op.sels (c.cs.camel op.name) false ht).1 rfl
  omega

theorem deFuel_depthV (e : Env) (c : Ctx) (op : ROperation) (ht : vSels c.s c.o false op.sels = true)
    (hsz : (itemsVs c (c.cs.camel op.name) op.sels).length + 1 ≤ e.items.length) (j : Json) :
    2 * selsDepth op.sels + 2 ≤ deFuel e j := by
  have h1 := depth_le_envV e c op ht hsz
  unfold deFuel
  have hj := jsonSize_pos j
  have h2 : 3 * (e.items.length + e.externs.length + 2) ≤
      (jsonSize j + 2) * (e.items.length + e.externs.length + 2) := Nat.mul_le_mul_right _ (by omega)
  omega

/-- **`ResponseData` accepts exactly `conformsLooseV … false`** (generic environment) -/
theorem top_accepts_iffV (e : Env) (c : Ctx) (op : ROperation) (ht : VariantOp c op = true) (he : TopEnvV e c op)
    (j : Json) : okB (Serde.de e (.path "ResponseData") j) = conformsLooseV c.s c.o false op.sels j := by
  obtain ⟨_, _, hsels, _⟩ := variantOp_parts ht
  rw [de_top]
  exact structV_accepts_iff e c _ _ op.sels false hsels he.sub he.root false _ (deFuel_depthV e c op hsels he.size j) j

/-- **losslessness at the top level** (generic environment) -/
theorem top_losslessV (e : Env) (c : Ctx) (op : ROperation) (ht : VariantOp c op = true) (he : TopEnvV e c op)
    (hro : rustOkSelsV c op.sels = true) (hrn : EnumSpec.nodup (rustNames c op.sels) = true)
    (rt : Nat) (j : Json) (v : Val) (hc : conformsV c.s rt op.sels j = true)
    (hd : Serde.de e (.path "ResponseData") j = .ok v) :
    Serde.ser e (.path "ResponseData") v = .ok (canonSelV c.s c.o.skipNone op.sels j) := by
  obtain ⟨_, _, hsels, hkeys⟩ := variantOp_parts ht
  rw [de_top] at hd
  have h1 := depth_le_envV e c op hsels he.size
  have hser := structV_lossless e c _ "ResponseData" op.sels hsels he.sub hro hrn hkeys he.root false _
    ((valSize v + 2) * (e.items.length + e.externs.length + 2))
    (deFuel_depthV e c op hsels he.size j)
    (by
      have h2 : 2 * (e.items.length + e.externs.length + 2) ≤
          (valSize v + 2) * (e.items.length + e.externs.length + 2) := Nat.mul_le_mul_right _ (by omega)
      omega)
    rt j v hc hd
  unfold Serde.ser serTy
  rw [show serTyWith (serPath e ((valSize v + 2) * (e.items.length + e.externs.length + 2))) (.path "ResponseData") v =
    serPath e ((valSize v + 2) * (e.items.length + e.externs.length + 2)) "ResponseData" v from rfl, hser]
  rw [show (normJson <$> (Except.ok (canonSelV c.s c.o.skipNone op.sels j) : D Json)) =
    .ok (normJson (canonSelV c.s c.o.skipNone op.sels j)) from rfl,
    norm_canonSelV c.s c.o c.o.skipNone rt op.sels j hsels hkeys hc]

/-! ## from `Codegen.responseForQuery` to the environment hypotheses -/

theorem topEnvV_of_module {c : Ctx} {opIdx : Nat} {op : ROperation} {items : List Item}
    (hop : c.q.operations[opIdx]? = some op) (ht : VariantOp c op = true)
    (hgen : responseForQuery c opIdx = .ok items) (hok : moduleOk c items = true) :
    TopEnvV (moduleEnv c items) c op := by
  obtain ⟨u, S, E, I, V, F, o, resp, hu, hS, hE, ho, hresp, hitems⟩ := responseForQuery_parts hgen
  rw [hop] at ho; cases ho
  obtain ⟨hn, _, hsels, _⟩ := variantOp_parts ht
  rw [variant_items_shape c op (List.mem_of_getElem? hop) ht] at hresp
  cases hresp
  simp only [moduleOk, Bool.and_eq_true, List.all_eq_true, decide_eq_true_eq, List.isEmpty_iff] at hok
  obtain ⟨⟨⟨⟨hnd, hnp⟩, hext⟩, htab⟩, hnoext⟩ := hok
  have hsub : ∀ it ∈ structItemsV c "ResponseData" (c.cs.camel op.name) op.sels, it ∈ items := by
    intro it h; rw [hitems]; simp [h]
  have M : ModFacts c items u op.sels := {
    hn := hn
    nodup := nodup_iff'.mp hnd
    np := hnp
    ext := fun x hx => ⟨(hext x hx).1, fun it hit => by simpa using (hext x hx).2 it hit⟩
    tables := fun n d sp vs ser de hm => by simpa using htab _ hm
    builtin := fun it h => by rw [hitems]; simp [h]
    scalars := fun k n hk hn' hnd' => by
      have := scalarItems_mem hS hk hn' hnd'
      simp only [hn, Normalization.scalarName, Normalization.camelCase] at this
      rw [hitems]; simp [this]
    enums := fun k en hk hen => by
      have := enumItems_mem hE hk hen (by simp [hnoext])
      rw [hitems]; simp [this]
    used := C02.selected_types_used c.s c.q opIdx u hu op hop }
  refine ⟨structEnv_of M _ _ (hsub _ (by simp [structItemsV])), ?_, ?_⟩
  · exact envSelsV_of M op.sels _ false hsels
      (fun x hx it h => hsub it (by
        rw [allItems_obj (vSels_mem hsels _ hx)] at h
        simp [structItemsV, mem_itemsVs hx h])) (fun x hx => .here hx)
  · rw [hitems]
    simp only [moduleEnv, List.length_append, structItemsV, List.length_cons]
    omega

/-- a response conforms to the operation (GraphQL spec §6.4): the response object of the root selection set
    executed on the root object type -/
def conformsOpV (c : Ctx) (op : ROperation) (j : Json) : Bool := conformsV c.s op.objectId op.sels j

/-- **`variant_accepts`.**  Every conforming response is accepted by the emitted `ResponseData`. -/
theorem variant_accepts (c : Ctx) (opIdx : Nat) (op : ROperation) (items : List Item)
    (hop : c.q.operations[opIdx]? = some op) (ht : VariantOp c op = true)
    (hgen : responseForQuery c opIdx = .ok items) (hok : moduleOk c items = true)
    (j : Json) (hc : conformsOpV c op j = true) :
    ∃ v, Serde.de (moduleEnv c items) (.path "ResponseData") j = .ok v := by
  have he := topEnvV_of_module hop ht hgen hok
  have := top_accepts_iffV (moduleEnv c items) c op ht he j
  rw [conformsV_loose c.s c.o false _ _ _ (variantOp_parts ht).2.2.1 hc] at this
  exact (okB_iff _).mp this

/-- **`variant_lossless`.**  … and written back as `canonSelV … j` (`__typename` kept at abstract positions). -/
theorem variant_lossless (c : Ctx) (opIdx : Nat) (op : ROperation) (items : List Item)
    (hop : c.q.operations[opIdx]? = some op) (ht : VariantOp c op = true)
    (hgen : responseForQuery c opIdx = .ok items) (hok : moduleOk c items = true)
    (hro : rustOkSelsV c op.sels = true) (hrn : EnumSpec.nodup (rustNames c op.sels) = true)
    (j : Json) (hc : conformsOpV c op j = true) (v : Val)
    (hd : Serde.de (moduleEnv c items) (.path "ResponseData") j = .ok v) :
    Serde.ser (moduleEnv c items) (.path "ResponseData") v = .ok (canonSelV c.s c.o.skipNone op.sels j) :=
  top_losslessV (moduleEnv c items) c op ht (topEnvV_of_module hop ht hgen hok) hro hrn _ j v hc hd

/-- both in one statement: `roundtrip j = canonSelV j` -/
theorem variant_roundtrip (c : Ctx) (opIdx : Nat) (op : ROperation) (items : List Item)
    (hop : c.q.operations[opIdx]? = some op) (ht : VariantOp c op = true)
    (hgen : responseForQuery c opIdx = .ok items) (hok : moduleOk c items = true)
    (hro : rustOkSelsV c op.sels = true) (hrn : EnumSpec.nodup (rustNames c op.sels) = true)
    (j : Json) (hc : conformsOpV c op j = true) :
    Serde.roundtrip (moduleEnv c items) (.path "ResponseData") j = .ok (canonSelV c.s c.o.skipNone op.sels j) := by
  obtain ⟨v, hv⟩ := variant_accepts c opIdx op items hop ht hgen hok j hc
  unfold Serde.roundtrip
  rw [hv]
  exact variant_lossless c opIdx op items hop ht hgen hok hro hrn j hc v hv

/-- **`variant_precise` (C03), as an equivalence.**  The emitted `ResponseData` accepts `j` **iff**
    `conformsLooseV … false … j`. -/
theorem variant_precise_iff (c : Ctx) (opIdx : Nat) (op : ROperation) (items : List Item)
    (hop : c.q.operations[opIdx]? = some op) (ht : VariantOp c op = true)
    (hgen : responseForQuery c opIdx = .ok items) (hok : moduleOk c items = true) (j : Json) :
    okB (Serde.de (moduleEnv c items) (.path "ResponseData") j) = conformsLooseV c.s c.o false op.sels j :=
  top_accepts_iffV (moduleEnv c items) c op ht (topEnvV_of_module hop ht hgen hok) j

theorem variant_precise (c : Ctx) (opIdx : Nat) (op : ROperation) (items : List Item)
    (hop : c.q.operations[opIdx]? = some op) (ht : VariantOp c op = true)
    (hgen : responseForQuery c opIdx = .ok items) (hok : moduleOk c items = true) (j : Json) (v : Val)
    (hd : Serde.de (moduleEnv c items) (.path "ResponseData") j = .ok v) :
    conformsLooseV c.s c.o false op.sels j = true := by
  rw [← variant_precise_iff c opIdx op items hop ht hgen hok j, hd]; rfl

/-- the response items are the tail of the emitted module -/
theorem variant_module_shape (c : Ctx) (opIdx : Nat) (op : ROperation) (items : List Item)
    (hop : c.q.operations[opIdx]? = some op) (ht : VariantOp c op = true)
    (hgen : responseForQuery c opIdx = .ok items) :
    ∃ pre, items = Codegen.builtinAliases ++ pre ++ structItemsV c "ResponseData" (c.cs.camel op.name) op.sels := by
  obtain ⟨u, S, E, I, V, F, o, resp, _, _, _, ho, hresp, hitems⟩ := responseForQuery_parts hgen
  rw [hop] at ho; cases ho
  rw [variant_items_shape c op (List.mem_of_getElem? hop) ht] at hresp
  cases hresp
  exact ⟨S ++ E ++ I ++ V ++ F, by rw [hitems]; simp⟩

/-! ## C03 at an abstract position, spelled out -/

/-- the entries the tagged enum of an abstract position sees -/
def tagEntries (s : Schema) (sub : List Sel) (kvs : List (String × Json)) : List (String × Json) :=
  if sub.any isFieldSel then kvs.filter (fun kv => !(fieldKeys s sub).contains kv.1) else kvs

theorem tagEntries_tag (s : Schema) (o : Options) (ty : TypeId) (sub : List Sel) (hok : absOk s o ty sub = true)
    (kvs : List (String × Json)) :
    countKey "__typename" (tagEntries s sub kvs) = countKey "__typename" kvs ∧
    Json.lookup "__typename" (tagEntries s sub kvs) = Json.lookup "__typename" kvs := by
  obtain ⟨htn, hrk, _⟩ := absOk_parts hok
  have hnf := typename_not_fieldKey s sub htn hrk
  unfold tagEntries
  split
  · have hq : ∀ v : Json, (fun kv : String × Json => !(fieldKeys s sub).contains kv.1) ("__typename", v) = true := by
      intro v; simpa using hnf
    exact ⟨countKey_filter _ _ hq kvs, lookup_filter _ _ hq kvs⟩
  · exact ⟨rfl, rfl⟩

theorem conformsLooseAbs_obj (s : Schema) (o : Options) (b : Bool) (ty : TypeId) (sub : List Sel)
    (kvs : List (String × Json)) :
    conformsLooseAbs s o b ty sub (.obj kvs) =
      (looseSelsV s o b sub kvs &&
        tagOkV s o (sub.any isFieldSel || b) (vtsOfTy s ty) (fun vt rest => loosePayV s o vt sub rest)
          (tagEntries s sub kvs)) := rfl

/-- **missing or duplicated `__typename`: rejected** -/
theorem abs_tag_count (s : Schema) (o : Options) (b : Bool) (ty : TypeId) (sub : List Sel)
    (hok : absOk s o ty sub = true) (kvs : List (String × Json)) (h : countKey "__typename" kvs ≠ 1) :
    conformsLooseAbs s o b ty sub (.obj kvs) = false := by
  rw [conformsLooseAbs_obj]
  have := (tagEntries_tag s o ty sub hok kvs).1
  unfold tagOkV
  rw [this]
  match hc : countKey "__typename" kvs with
  | 0 => simp
  | 1 => exact absurd hc h
  | k + 2 => simp

/-- **`__typename` that is neither a string nor an integer: rejected** -/
theorem abs_tag_kind (s : Schema) (o : Options) (b : Bool) (ty : TypeId) (sub : List Sel)
    (hok : absOk s o ty sub = true) (kvs : List (String × Json)) (v : Json)
    (hl : Json.lookup "__typename" kvs = some v) (h1 : ∀ n, v ≠ .str n) (h2 : ∀ n, v ≠ .int n) :
    conformsLooseAbs s o b ty sub (.obj kvs) = false := by
  rw [conformsLooseAbs_obj]
  obtain ⟨_, e2⟩ := tagEntries_tag s o ty sub hok kvs
  unfold tagOkV
  rw [e2, hl]
  split
  · cases v <;> simp_all
  · simp

/-- **an integer `__typename` is accepted only from buffered content** (known finding `C03-typename-index`):
    only if the position has interface-level fields (the enum is then the flattened `on`), or the position
    itself is read from buffered content (`b`: it lies below another abstract position) -/
theorem abs_tag_int (s : Schema) (o : Options) (b : Bool) (ty : TypeId) (sub : List Sel)
    (hok : absOk s o ty sub = true) (kvs : List (String × Json)) (n : Int)
    (hl : Json.lookup "__typename" kvs = some (.int n))
    (h : conformsLooseAbs s o b ty sub (.obj kvs) = true) : (sub.any isFieldSel || b) = true := by
  rw [conformsLooseAbs_obj] at h
  obtain ⟨_, e2⟩ := tagEntries_tag s o ty sub hok kvs
  unfold tagOkV at h
  rw [e2, hl] at h
  split at h
  · simp only [Bool.and_eq_true] at h; exact h.2.1.1
  · simp at h

/-- … in particular never directly below `ResponseData` through object positions when the abstract position has
    no interface-level field -/
theorem abs_tag_int_direct_rejected (s : Schema) (o : Options) (ty : TypeId) (sub : List Sel)
    (hok : absOk s o ty sub = true) (hnf : sub.any isFieldSel = false) (kvs : List (String × Json)) (n : Int)
    (hl : Json.lookup "__typename" kvs = some (.int n)) :
    conformsLooseAbs s o false ty sub (.obj kvs) = false := by
  cases h : conformsLooseAbs s o false ty sub (.obj kvs)
  · rfl
  · have := abs_tag_int s o false ty sub hok kvs n hl h
    simp [hnf] at this

/-- **an unknown `__typename` string is rejected unless `fragmentsOtherVariant`** -/
theorem abs_tag_unknown (s : Schema) (o : Options) (b : Bool) (ty : TypeId) (sub : List Sel)
    (hok : absOk s o ty sub = true) (kvs : List (String × Json)) (n : String)
    (hl : Json.lookup "__typename" kvs = some (.str n)) (hun : ∀ vt ∈ vtsOfTy s ty, objName s vt ≠ n)
    (h : conformsLooseAbs s o b ty sub (.obj kvs) = true) : o.otherVariant = true := by
  rw [conformsLooseAbs_obj] at h
  obtain ⟨_, e2⟩ := tagEntries_tag s o ty sub hok kvs
  unfold tagOkV at h
  rw [e2, hl] at h
  have hf : (vtsOfTy s ty).find? (fun vt => objName s vt == n) = none := by
    rw [List.find?_eq_none]; intro vt hvt; simpa using hun vt hvt
  split at h
  · simp only [hf, Bool.and_eq_true] at h; exact h.2
  · simp at h

/-- **a known `__typename` is accepted iff the interface-level fields and its own variant's payload accept** -/
theorem abs_tag_known (s : Schema) (o : Options) (b : Bool) (ty : TypeId) (sub : List Sel)
    (hok : absOk s o ty sub = true) (kvs : List (String × Json)) (vt : TypeId) (hvt : vt ∈ vtsOfTy s ty)
    (hc : countKey "__typename" kvs = 1) (hl : Json.lookup "__typename" kvs = some (.str (objName s vt))) :
    conformsLooseAbs s o b ty sub (.obj kvs) =
      (looseSelsV s o b sub kvs &&
        loosePayV s o vt sub ((tagEntries s sub kvs).filter (·.1 != "__typename"))) := by
  rw [conformsLooseAbs_obj]
  obtain ⟨e1, e2⟩ := tagEntries_tag s o ty sub hok kvs
  obtain ⟨_, _, _, _, hvn, _⟩ := absOk_parts hok
  have hnames : ((vtsOfTy s ty).map (objName s)).Nodup := by
    unfold variantNames at hvn
    exact (List.nodup_append.mp hvn).1
  unfold tagOkV
  rw [e1, e2, hc, hl]
  simp only [find_by_name s _ hnames vt hvt]

/-- the value of the tagged enum: **a known tag selects its own variant, an unknown one `Unknown`** -/
theorem tagged_value (c : Ctx) (pfx : String) (ty : TypeId) (sub : List Sel) (pathB : String → Json → D Val)
    (b : Bool) (kvs : List (String × Json)) (tv : Val) (n : String)
    (hd : deTaggedWith pathB b "__typename" (variantsV c pfx ty sub) kvs = .ok tv)
    (hl : Json.lookup "__typename" kvs = some (.str n)) :
    (∀ vt, (vtsOfTy c.s ty).find? (fun vt => objName c.s vt == n) = some vt →
      ∃ payload, tv = .variant (objName c.s vt) payload) ∧
    ((vtsOfTy c.s ty).find? (fun vt => objName c.s vt == n) = none →
      tv = .variant "Unknown" none ∧ c.o.otherVariant = true) := by
  have hoth : ∀ v ∈ otherVariants c.o, v.other = true := by
    intro v hv; unfold otherVariants at hv; split at hv <;> simp at hv; subst hv; rfl
  have hcnt : countKey "__typename" kvs = 1 := by
    unfold deTaggedWith at hd
    split at hd
    · simp [bad] at hd
    · assumption
    · simp [bad] at hd
  have hw : (variantsV c pfx ty sub).find? (fun v => !v.other && v.wire == n) =
      ((vtsOfTy c.s ty).find? (fun vt => objName c.s vt == n)).map (variantOf c pfx sub) :=
    find_wire_variantsV c pfx sub n _ hoth _
  constructor
  · intro vt hf
    rw [hf] at hw
    obtain ⟨payload, hp⟩ := known_tag_own_variant pathB b "__typename" _ kvs n _ hcnt hl hw tv hd
    rw [(variantOf_wire c pfx sub vt).2.1] at hp
    exact ⟨payload, hp⟩
  · intro hf
    rw [hf] at hw
    have ho : (variantsV c pfx ty sub).find? (·.other) =
        if c.o.otherVariant then some { name := "Unknown", other := true } else none := by
      unfold variantsV
      rw [find_other_variantsV, find_other_otherVariants]
    cases hov : c.o.otherVariant
    · rw [hov] at ho
      have := unknown_tag_rejected pathB b "__typename" _ kvs n hcnt hl hw ho
      rw [hd] at this; cases this
    · rw [hov] at ho
      have := unknown_tag_other pathB b "__typename" _ kvs n _ hcnt hl hw ho
      rw [hd] at this
      exact ⟨by cases this; rfl, rfl⟩


/-- the value read at an abstract position: the tagged enum's value `tv`, alone or as the `on` member -/
theorem abs_read_value (e : Env) (c : Ctx) (pfx name : String) (ty : TypeId) (sub : List Sel)
    (ht : vSels c.s c.o true sub = true)
    (hs : AbsEnv e name (fieldsOfV c pfx sub) (variantsV c pfx ty sub))
    (hrn : EnumSpec.nodup (rustNames c sub ++ ["on"]) = true) (b : Bool) (fd : Nat) (hfd : 2 ≤ fd)
    (kvs : List (String × Json)) (hnd : ∀ k, countKey k kvs ≤ 1) (w : Val)
    (hd : dePath e b fd name (.obj kvs) = .ok w) :
    ∃ tv, (w = tv ∨ ∃ own, w = .record (own ++ [("on", tv)])) ∧
      ∃ pathB b', deTaggedWith pathB b' "__typename" (variantsV c pfx ty sub) (tagEntries c.s sub kvs) = .ok tv := by
  have hemp := isEmpty_fieldsOfV c pfx true sub ht
  unfold AbsEnv at hs
  unfold tagEntries
  cases hF : sub.any isFieldSel
  · rw [hF] at hemp
    simp only [hemp, Bool.not_false, ↓reduceIte] at hs
    obtain ⟨hp, _, n, d, cr, hfind⟩ := hs
    obtain ⟨fd', rfl⟩ : ∃ k, fd = k + 1 := ⟨fd - 1, by omega⟩
    rw [dePath_tagged e b fd' name n d cr _ _ hp hfind] at hd
    exact ⟨w, .inl rfl, _, _, hd⟩
  · rw [hF] at hemp
    simp only [hemp, Bool.not_true, Bool.false_eq_true, ↓reduceIte] at hs
    obtain ⟨⟨hp, _, n, d, cr, hfind⟩, ⟨_, _, n', d', cr', hfind'⟩⟩ := hs
    obtain ⟨fd', rfl⟩ : ∃ k, fd = k + 2 := ⟨fd - 2, by omega⟩
    have hpl := plain_fieldsOfV c pfx sub
    rw [dePath_struct e b (fd' + 1) name n d cr _ hp hfind, deStruct_obj,
      deStructMap_on e fd' _ _ (onField name) (name ++ "On") n' d' cr' "__typename" _ kvs hpl rfl rfl hfind'] at hd
    obtain ⟨own, hown, hd⟩ := C02.bind_ok hd
    obtain ⟨r, hr, hd⟩ := C02.bind_ok hd
    simp only [pure, Except.pure, Except.ok.injEq] at hd
    have hall := (deOwn_ok_iff _ kvs hnd _ own hpl).mp hown
    have hrust : ((fieldsOfV c pfx sub ++ [onField name]).map (·.rust)).Nodup := by
      rw [List.map_append, rust_fieldsOfV c pfx true sub ht]
      exact nodup_iff'.mp hrn
    rw [assemble_on _ (onField name) own r (hall.imp (fun _ _ hh => hh.1)) hrust] at hd
    rw [wire_fieldsOfV c pfx true sub ht] at hr
    exact ⟨r, .inr ⟨own, hd.symm⟩, _, _, hr⟩

/-- **C03 at an abstract position, on the value**: a known `__typename` selects its own variant (never
    another one); an unknown one yields `Unknown` (and `fragmentsOtherVariant` is on) -/
theorem abs_tag_selects (e : Env) (c : Ctx) (pfx name : String) (ty : TypeId) (sub : List Sel)
    (ht : vSels c.s c.o true sub = true) (hok : absOk c.s c.o ty sub = true)
    (hs : AbsEnv e name (fieldsOfV c pfx sub) (variantsV c pfx ty sub))
    (hrn : EnumSpec.nodup (rustNames c sub ++ ["on"]) = true) (b : Bool) (fd : Nat) (hfd : 2 ≤ fd)
    (kvs : List (String × Json)) (hnd : ∀ k, countKey k kvs ≤ 1) (w : Val)
    (hd : dePath e b fd name (.obj kvs) = .ok w) (n : String)
    (hl : Json.lookup "__typename" kvs = some (.str n)) :
    ∃ tv, (w = tv ∨ ∃ own, w = .record (own ++ [("on", tv)])) ∧
      (∀ vt ∈ vtsOfTy c.s ty, objName c.s vt = n → ∃ payload, tv = .variant n payload) ∧
      ((∀ vt ∈ vtsOfTy c.s ty, objName c.s vt ≠ n) → tv = .variant "Unknown" none ∧ c.o.otherVariant = true) := by
  obtain ⟨tv, hw, pathB, b', htv⟩ := abs_read_value e c pfx name ty sub ht hs hrn b fd hfd kvs hnd w hd
  have hl' := (tagEntries_tag c.s c.o ty sub hok kvs).2
  rw [hl] at hl'
  obtain ⟨h1, h2⟩ := tagged_value c pfx ty sub pathB b' _ tv n htv hl'
  obtain ⟨_, _, _, _, hvn, _⟩ := absOk_parts hok
  have hnames : ((vtsOfTy c.s ty).map (objName c.s)).Nodup := by
    unfold variantNames at hvn
    exact (List.nodup_append.mp hvn).1
  refine ⟨tv, hw, ?_, ?_⟩
  · intro vt hvt hname
    have := find_by_name c.s _ hnames vt hvt
    rw [hname] at this
    obtain ⟨payload, hp⟩ := h1 vt this
    rw [hname] at hp
    exact ⟨payload, hp⟩
  · intro hun
    apply h2
    rw [List.find?_eq_none]; intro vt hvt; simpa using hun vt hvt


/-! ## a concrete module: the class and every side condition are satisfiable, the theorems apply

`{ hero { __typename name ... on Human { height buddy { __typename ... on Droid { primaryFunction } } }
          ... on Droid { primaryFunction } }
   search { __typename ... on Human { height } } }`
with `hero : Character` (interface, implemented by `Human`, `Droid`), `search : [SearchResult!]!` and
`buddy : SearchResult` (union of `Human`, `Droid`). -/

def vxSchema : Schema :=
  { objects := [{ name := "Query", fields := [0, 4], implements := [] },
                { name := "Human", fields := [1, 2, 5], implements := [0] },
                { name := "Droid", fields := [1, 3], implements := [0] }]
    fields := [{ name := "hero", ty := { id := .interface 0, quals := [] }, parent := .object 0, deprecation := none },
               { name := "name", ty := { id := .scalar 1, quals := [.required] }, parent := .interface 0, deprecation := none },
               { name := "height", ty := { id := .scalar 3, quals := [] }, parent := .object 1, deprecation := none },
               { name := "primaryFunction", ty := { id := .scalar 1, quals := [] }, parent := .object 2, deprecation := none },
               { name := "search", ty := { id := .union 0, quals := [.required, .list, .required] }, parent := .object 0, deprecation := none },
               { name := "buddy", ty := { id := .union 0, quals := [] }, parent := .object 1, deprecation := none }]
    interfaces := [{ name := "Character", fields := [1] }]
    unions := [{ name := "SearchResult", variants := [.object 1, .object 2] }]
    scalars := ["ID", "String", "Int", "Float", "Boolean"] }

def vxOp : ROperation :=
  { name := "Q", kind := .query, objectId := 0,
    sels := [.field none 0 [.typename, .field none 1 [],
               .inline (.object 1) [.field none 2 [], .field none 5 [.typename, .inline (.object 2) [.field none 3 []]]],
               .inline (.object 2) [.field none 3 []]],
             .field none 4 [.typename, .inline (.object 1) [.field none 2 []]]] }

def vxQuery : Query := { operations := [vxOp] }
def vxCtx : Ctx := { s := vxSchema, q := vxQuery, o := {}, cs := ⟨id, id⟩ }


theorem vx_variant : VariantOp vxCtx vxOp = true := by decide +kernel

def vxUsed : UsedTypes :=
  { types := [.object 2, .union 0, .scalar 3, .object 1, .scalar 1, .interface 0], fragments := [] }

theorem vx_used : allUsedTypes vxSchema vxQuery 0 = .ok vxUsed := by rfl

/-- the emitted module, in closed form (the response part by `variant_items_shape`) -/
def vxItems : List Item :=
  builtinAliases ++ [] ++ [] ++ [] ++ [.unitStruct "Variables" ["Serialize"] (some "::serde")] ++ [] ++
    structItemsV vxCtx "ResponseData" "Q" vxOp.sels

theorem vx_scalars : scalarItems vxCtx vxUsed = .ok [] := by rfl
theorem vx_enums : enumItems vxCtx vxUsed = .ok [] := by rfl
theorem vx_inputs : inputItems vxCtx vxUsed = .ok [] := by rfl
theorem vx_vars : variablesItems vxCtx 0 = .ok [.unitStruct "Variables" ["Serialize"] (some "::serde")] := by rfl
theorem vx_frags : (sortNat vxUsed.fragments).mapM (fragmentItems vxCtx) = .ok [] := by rfl

theorem vx_gen : responseForQuery vxCtx 0 = .ok vxItems := by
  have hresp := variant_items_shape vxCtx vxOp (by simp [vxCtx, vxQuery]) vx_variant
  unfold responseForQuery
  simp only [show vxCtx.s = vxSchema from rfl, show vxCtx.q = vxQuery from rfl, vx_used, vx_scalars, vx_enums,
    vx_inputs, vx_vars, vx_frags, bind, Except.bind]
  rw [show vxQuery.getOperation 0 = .ok vxOp from rfl]
  simp only [hresp]
  rfl


theorem vx_ok : moduleOk vxCtx vxItems = true := by decide +kernel

theorem vx_rust : rustOkSelsV vxCtx vxOp.sels = true ∧ EnumSpec.nodup (rustNames vxCtx vxOp.sels) = true := by
  have h1 : keywordReplace "hero" = "hero" := kw_not (by decide +kernel)
  have h2 : keywordReplace "search" = "search" := kw_not (by decide +kernel)
  have h3 : keywordReplace "name" = "name" := kw_not (by decide +kernel)
  have h4 : keywordReplace "height" = "height" := kw_not (by decide +kernel)
  have h5 : keywordReplace "buddy" = "buddy" := kw_not (by decide +kernel)
  have h6 : keywordReplace "primaryFunction" = "primaryFunction" := kw_not (by decide +kernel)
  have e1 : rustNames vxCtx vxOp.sels = [keywordReplace "hero", keywordReplace "search"] := rfl
  have e2 : rustNames vxCtx [.typename, .field none 1 [],
      .inline (.object 1) [.field none 2 [], .field none 5 [.typename, .inline (.object 2) [.field none 3 []]]],
      .inline (.object 2) [.field none 3 []]] = [keywordReplace "name"] := rfl
  have e3 : rustNames vxCtx [.field none 2 [], .field none 5 [.typename, .inline (.object 2) [.field none 3 []]]] =
      [keywordReplace "height", keywordReplace "buddy"] := rfl
  have e4 : rustNames vxCtx [.typename, .inline (.object 2) [.field none 3 []]] = [] := rfl
  have e5 : rustNames vxCtx [.field none 3 []] = [keywordReplace "primaryFunction"] := rfl
  have e6 : rustNames vxCtx [.typename, .inline (.object 1) [.field none 2 []]] = [] := rfl
  have e7 : rustNames vxCtx [.field none 2 []] = [keywordReplace "height"] := rfl
  have e8 : rustNames vxCtx [] = [] := rfl
  refine ⟨?_, by rw [e1, h1, h2]; decide +kernel⟩
  simp only [vxOp, rustOkSelsV, rustOkSelV, e2, e3, e4, e5, e6, e7, e8, h3, h4, h5, h6]
  decide +kernel

def vxJson : Json :=
  .obj [("search", .arr [.obj [("__typename", .str "Droid")],
                         .obj [("height", .null), ("__typename", .str "Human")]]),
        ("hero", .obj [("__typename", .str "Human"), ("height", .num "1.72"),
                       ("buddy", .obj [("primaryFunction", .str "astromech"), ("__typename", .str "Droid")]),
                       ("name", .str "Luke")])]

def vxCanon : Json :=
  .obj [("hero", .obj [("name", .str "Luke"), ("__typename", .str "Human"), ("height", .num "1.72"),
                       ("buddy", .obj [("__typename", .str "Droid"), ("primaryFunction", .str "astromech")])]),
        ("search", .arr [.obj [("__typename", .str "Droid")],
                         .obj [("__typename", .str "Human"), ("height", .null)]])]

theorem vx_conforms : conformsOpV vxCtx vxOp vxJson = true := by
  simp [conformsOpV, conformsV, confSelsV, confSelV, keysSelsV, keysSelV, fragApplies, rtName, vxCtx, vxSchema, vxOp,
    vxJson, Json.lookup, accepts, acceptsNN, gtyOf, scalarOk, floatOk, stringOk, Json.isNull, EnumSpec.nodup,
    List.range, List.range.loop]

theorem vx_canon : canonSelV vxCtx.s vxCtx.o.skipNone vxOp.sels vxJson = vxCanon := by
  simp [canonSelV, canonEntriesV, canonFieldV, canonInlV, canon, canonNN, gtyOf, vxCtx, vxSchema, vxOp, vxJson, vxCanon,
    Json.lookup, skipQ, Json.isNull, tagName, objName, rtName]

/-- `variant_accepts` + `variant_lossless` on the concrete module: `to_value (from_value vxJson) = vxCanon` -/
example : Serde.roundtrip (moduleEnv vxCtx vxItems) (.path "ResponseData") vxJson = .ok vxCanon := by
  rw [← vx_canon]
  exact variant_roundtrip vxCtx 0 vxOp vxItems rfl vx_variant vx_gen vx_ok vx_rust.1 vx_rust.2 vxJson vx_conforms

theorem vx_precise (j : Json) :
    okB (Serde.de (moduleEnv vxCtx vxItems) (.path "ResponseData") j) =
      conformsLooseV vxSchema {} false vxOp.sels j :=
  variant_precise_iff vxCtx 0 vxOp vxItems rfl vx_variant vx_gen vx_ok j

macro "looseV_eval" : tactic => `(tactic|
  simp [conformsLooseV, looseSelsV, looseArrV, looseFieldV, loosePayV, tagOkV, vxSchema, vxOp, Json.lookup, accepts,
    acceptsNN, gtyOf, scalarOk, floatOk, stringOk, Json.isNull, nullableQ, countKey, isFieldSel, fieldKeys, fieldKey,
    vtsOfTy, Schema.implementors, List.zipIdx, objName, rtName])

/-- **`C03-typename-index`, witness 1**: at `hero` (interface-level field `name`: the enum is the flattened,
    hence buffered, `on`) the integer tag `0` is accepted and selects `Human` -/
theorem int_tag_flattened_accepted :
    okB (Serde.de (moduleEnv vxCtx vxItems) (.path "ResponseData")
      (.obj [("hero", .obj [("__typename", .int 0), ("name", .str "x")]), ("search", .arr [])])) = true := by
  rw [vx_precise]; looseV_eval

/-- **witness 2**: at `buddy` (no interface-level field, but below the abstract position `hero`: buffered) the
    integer tag `1` is accepted -/
theorem int_tag_nested_accepted :
    okB (Serde.de (moduleEnv vxCtx vxItems) (.path "ResponseData")
      (.obj [("hero", .obj [("__typename", .str "Human"), ("name", .str "x"),
               ("buddy", .obj [("__typename", .int 1)])]), ("search", .arr [])])) = true := by
  rw [vx_precise]; looseV_eval

/-- **witness 3**: at `search` (no interface-level field, reached from `ResponseData` directly) an integer tag
    is rejected -/
theorem int_tag_direct_rejected :
    okB (Serde.de (moduleEnv vxCtx vxItems) (.path "ResponseData")
      (.obj [("hero", .null), ("search", .arr [.obj [("__typename", .int 0)]])])) = false := by
  rw [vx_precise]; looseV_eval

/-- rejected: unknown `__typename` (no `fragmentsOtherVariant`) -/
example : okB (Serde.de (moduleEnv vxCtx vxItems) (.path "ResponseData")
    (.obj [("hero", .null), ("search", .arr [.obj [("__typename", .str "Alien")]])])) = false := by
  rw [vx_precise]; looseV_eval
/-- rejected: missing `__typename` -/
example : okB (Serde.de (moduleEnv vxCtx vxItems) (.path "ResponseData")
    (.obj [("hero", .obj [("name", .str "x")]), ("search", .arr [])])) = false := by
  rw [vx_precise]; looseV_eval
/-- rejected: `__typename` of the wrong kind -/
example : okB (Serde.de (moduleEnv vxCtx vxItems) (.path "ResponseData")
    (.obj [("hero", .obj [("name", .str "x"), ("__typename", .bool true)]), ("search", .arr [])])) = false := by
  rw [vx_precise]; looseV_eval
/-- rejected: the variant's own payload does not fit (`height` must be a number) — the known tag selects its
    own variant, not another one that would fit -/
example : okB (Serde.de (moduleEnv vxCtx vxItems) (.path "ResponseData")
    (.obj [("hero", .null), ("search", .arr [.obj [("__typename", .str "Human"), ("height", .str "tall")]])])) = false := by
  rw [vx_precise]; looseV_eval
/-- accepted: a known tag of a unit variant with arbitrary other keys -/
example : okB (Serde.de (moduleEnv vxCtx vxItems) (.path "ResponseData")
    (.obj [("hero", .null), ("search", .arr [.obj [("__typename", .str "Droid"), ("zzz", .int 1)]])])) = true := by
  rw [vx_precise]; looseV_eval
/-- rejected: a JSON array at an abstract position (unlike at an object position) -/
example : okB (Serde.de (moduleEnv vxCtx vxItems) (.path "ResponseData")
    (.obj [("hero", .arr [.str "x"]), ("search", .arr [])])) = false := by
  rw [vx_precise]; looseV_eval

/-- with `fragmentsOtherVariant` an unknown tag is accepted (predicate level; `abs_tag_selects` gives `Unknown`) -/
example : conformsLooseAbs vxSchema { otherVariant := true } false (.union 0) [.typename]
    (.obj [("__typename", .str "Alien")]) = true := by
  simp [conformsLooseAbs, looseSelsV, tagOkV, countKey, Json.lookup, isFieldSel, vtsOfTy, vxSchema, objName, rtName]

/-- the exclusion hypothesis of `absOk` is necessary: with `name` selected both at the interface level and inside
    `... on Human`, the class predicate fails … -/
example : absOk vxSchema {} (.interface 0)
    [.typename, .field none 1 [], .inline (.object 1) [.field none 1 [], .field none 2 []]] = false := by
  decide +kernel
/-- … and the emitted types lose the key: `C01.overlap_loses_key` (same shape, module of `C01Layers`) -/
example : Serde.de overlapEnv (.path "QAnimal") overlapJson = .error (.mismatch "missing field name") :=
  overlap_loses_key

end E2E
end C01
end GqlVerif
