import GqlVerif.Proofs.C01NestedBE
/-!
# C01 end to end (`NestedBOp`), part F: the specification side; `nestedb_accepts`

The specification is the one of `NestedOp`: `C01N.conformsOpN c op j` — `conformsV` on the root selection set with every
spread expanded, recursively (`exN`); it does not depend on the class.

* `aPays` — the fragments selected at abstract positions of the new kind; `absTagOk` (decidable): none of them reads the key
  `__typename` (the tagged enum consumes that entry: the payload is read from the other entries);
* `wholeN_irr` — entries whose key the fragment struct does not read do not matter (pure form of `FragAcc.irr` for `wholeN`);
* `slTagB`, `slFieldA` / `slOwnA`, `conformsOpA_loose` — conforming ⇒ accepted;
* **`nestedb_accepts`** — every conforming response is accepted by the emitted `ResponseData`.

Copy of `C01NestedGenXF` for the class `NestedBOp`; what differs is `slTagB`: the variant side is the one of `slTagX` on the
selection set without its (b)-spreads (`confSelsV_expand_filter`), and every (b)-fragment's own type accepts the entries the own
fields left (`slMemB` of `C01VariantSpreadB`; this is where the key condition of `bOk` is used: `deepKeys_sub_fieldKeys`).
-/
set_option linter.unusedSimpArgs false
set_option linter.unusedVariables false
set_option linter.unusedSectionVars false
set_option linter.unnecessarySimpa false

namespace GqlVerif
namespace C01NB
open Serde Spec C13 C03 Codegen C01 C01.E2E C01M C01N C01NA C01NG C01NX

mutual
  /-- the fragments selected at the abstract positions of the general kind, each with the keys consumed at its position -/
  def aPays (s : Schema) (q : Query) (o : Options) : Sel → List (Nat × List String)
    | .field a fid sub =>
      match s.fields[fid]? with
      | none => []
      | some sf =>
        match sf.ty.id with
        | .object _ => aPayss s q o sub
        | ty => if sSel s q o false (.field a fid sub) then []
               else ((unB q ty sub).filterMap selFrag).map (fun g => (g, posKeys s (unB q ty sub)))
    | _ => []
  def aPayss (s : Schema) (q : Query) (o : Options) : List Sel → List (Nat × List String)
    | [] => []
    | x :: xs => aPays s q o x ++ aPayss s q o xs
end

/-! ## conforming ⇒ accepted, parametric -/

section SLA
variable (s : Schema) (q : Query) (o : Options) (ok : TypeId → Nat → Bool) (whole : Nat → Bool → Json → Bool)
  (ex : Nat → Sel)
  (hexA : ∀ g, FragOkAny s q o g → ex g = expandSel q (.spread g))
  (hmem : ∀ i g, ok (.object i) g = true → ∀ kvs, (∀ k, countKey k kvs ≤ 1) → confSelV s i (ex g) kvs = true →
    whole g true (.obj kvs) = true)
  (hali : ∀ i g, ok (.object i) g = true → ∀ b j, conformsV s i [ex g] j = true → whole g b j = true)
  (hokS : OkSpec q ok)

omit hexA hmem hali hokS in
theorem looseSelsS_all {b : Bool} {kvs : List (String × Json)} : ∀ {sels : List Sel},
    (∀ x ∈ sels, looseSelsS s q o b [x] kvs = true) → looseSelsS s q o b sels kvs = true
  | [], _ => by simp [looseSelsS]
  | x :: xs, h => by
    have ih := looseSelsS_all (fun y hy => h y (List.mem_cons_of_mem _ hy))
    have hx := h x (List.mem_cons_self)
    cases x with
    | field a fid sub' =>
      rw [looseSelsS.eq_2] at hx ⊢
      rw [ih]
      simpa [looseSelsS] using hx
    | spread g => rw [looseSelsS.eq_3 _ _ _ _ _ _ _ (by simp)]; exact ih
    | inline t sub' => rw [looseSelsS.eq_3 _ _ _ _ _ _ _ (by simp)]; exact ih
    | typename => rw [looseSelsS.eq_3 _ _ _ _ _ _ _ (by simp)]; exact ih

omit hexA hmem hali hokS in
theorem looseSelsS_mem {b : Bool} {kvs : List (String × Json)} : ∀ {sels : List Sel},
    looseSelsS s q o b sels kvs = true → ∀ x ∈ sels, looseSelsS s q o b [x] kvs = true
  | [], _, x, hx => by simp at hx
  | y :: ys, h, x, hx => by
    have hsplit : looseSelsS s q o b [y] kvs = true ∧ looseSelsS s q o b ys kvs = true := by
      cases y with
      | field a fid sub' =>
        rw [looseSelsS.eq_2, Bool.and_eq_true] at h
        refine ⟨?_, h.2⟩
        rw [looseSelsS.eq_2, h.1]; simp [looseSelsS]
      | spread g => rw [looseSelsS.eq_3 _ _ _ _ _ _ _ (by simp)] at h; exact ⟨by simp [looseSelsS], h⟩
      | inline t sub' => rw [looseSelsS.eq_3 _ _ _ _ _ _ _ (by simp)] at h; exact ⟨by simp [looseSelsS], h⟩
      | typename => rw [looseSelsS.eq_3 _ _ _ _ _ _ _ (by simp)] at h; exact ⟨by simp [looseSelsS], h⟩
    rcases List.mem_cons.mp hx with rfl | hx'
    · exact hsplit.1
    · exact looseSelsS_mem hsplit.2 x hx'

omit hexA hmem hali hokS in
theorem looseMemN_all {kvs : List (String × Json)} : ∀ {sels : List Sel},
    (∀ g, Sel.spread g ∈ sels → whole g true (.obj kvs) = true) → looseMemN whole sels kvs = true
  | [], _ => rfl
  | x :: xs, h => by
    have ih := looseMemN_all (fun g hg => h g (List.mem_cons_of_mem _ hg))
    cases x with
    | spread g => rw [looseMemN, h g (List.mem_cons_self), ih]; rfl
    | field a fid sub' => simpa [looseMemN] using ih
    | inline t sub' => simpa [looseMemN] using ih
    | typename => simpa [looseMemN] using ih


omit hexA hmem hali hokS in
theorem ownSels_unB (q : Query) (ty : TypeId) (sub : List Sel) : C01NG.ownSels (unB q ty sub) = C01NG.ownSels sub := by
  unfold C01NG.ownSels unB
  rw [List.filter_filter]
  apply List.filter_congr
  intro x _
  cases x <;> simp [isFieldSel, isBSpread]

omit hexA hmem hali hokS in
theorem confSelsV_expand_filter (rt : Nat) (kvs : List (String × Json)) (p : Sel → Bool) : ∀ (sub : List Sel),
    confSelsV s rt (expandSelsW ex sub) kvs = true → confSelsV s rt (expandSelsW ex (sub.filter p)) kvs = true
  | [], h => h
  | x :: xs, h => by
    rw [expandSelsW, confSelsV, Bool.and_eq_true] at h
    have ih := confSelsV_expand_filter rt kvs p xs h.2
    rw [List.filter_cons]
    cases p x
    · simpa using ih
    · simp only [↓reduceIte, expandSelsW, confSelsV, Bool.and_eq_true]; exact ⟨h.1, ih⟩

omit hexA hmem hali hokS in
theorem expandSelsW_eq_of_spreads : ∀ (l : List Sel), (∀ x ∈ l, ∃ g, x = Sel.spread g ∧ ex g = expandSel q (.spread g)) →
    expandSelsW ex l = expandSels q l
  | [], _ => rfl
  | x :: xs, h => by
    obtain ⟨g, rfl, hg⟩ := h x (by simp)
    rw [expandSelsW, expandSels, expandSelsW_eq_of_spreads xs (fun y hy => h y (List.mem_cons_of_mem _ hy)), expandSelW, hg]

omit hexA hmem hali hokS in
theorem deepKeys_sub_fieldKeys : ∀ (sels : List Sel), bBodyOk s q o sels = true → ∀ k ∈ deepKeys s sels, k ∈ fieldKeys s sels
  | [], _, k, hk => by simp [deepKeys] at hk
  | x :: xs, h, k, hk => by
    simp only [bBodyOk, List.all_cons, Bool.and_eq_true] at h
    have ih := deepKeys_sub_fieldKeys xs (by simpa [bBodyOk] using h.2) k
    rw [deepKeys, List.mem_append] at hk
    unfold fieldKeys at ih ⊢
    rw [List.filterMap_cons]
    cases x with
    | field a fid sub' =>
      rcases hk with hk | hk
      · simp only [deepKey] at hk
        cases hsf : s.fields[fid]? with
        | none => simp [hsf] at hk
        | some sf => simp only [hsf, List.mem_singleton] at hk; subst hk; simp [fieldKey, hsf]
      · have := ih hk
        cases fieldKey s (.field a fid sub') <;> simp [this]
    | spread g => simp [isTypename, isFieldSel] at h
    | inline t sub' => simp [isTypename, isFieldSel] at h
    | typename =>
      rcases hk with hk | hk
      · simp [deepKey] at hk
      · simpa [fieldKey] using ih hk

include hmem hokS hexA in
/-- a response object conforming at an abstract position of the general kind (spreads expanded) is accepted by the emitted
    type(s) -/
theorem slTagB (ty : TypeId) (sub : List Sel) (hty : absHyp s ty) (hsb : SpecialB ok s q o ty sub)
    (hirr : ∀ g ∈ (unB q ty sub).filterMap selFrag, ∀ i, ok (.object i) g = true → IrrL whole g (posKeys s (unB q ty sub))) (b : Bool) (j : Json)
    (h : conformsAt s ty (expandSelsW ex sub) j = true) : looseTagB whole s q o b ty sub j = true := by
  have hsx := hsb.x
  have hsg := hsx.gen
  have hsp := hsg.abs
  have hown_eq : C01NG.ownSels (unbody (unB q ty sub)) = C01NG.ownSels (unB q ty sub) := by
    unfold C01NG.ownSels unbody
    rw [List.filter_filter]
    apply List.filter_congr
    intro x _
    cases hf : isFieldSel x with
    | false => simp
    | true =>
      have : isBody x = false := by cases x <;> simp_all [isFieldSel, isBody]
      simp [this]
  simp only [conformsAt, List.any_eq_true, List.mem_range, Bool.and_eq_true] at h
  obtain ⟨rt, hrt, happ, hc⟩ := h
  cases j with
  | obj kvs =>
    simp only [conformsV, Bool.and_eq_true] at hc
    obtain ⟨⟨hnd, _⟩, hconf0⟩ := hc
    have hconf : confSelsV s rt (expandSelsW ex (unB q ty sub)) kvs = true := confSelsV_expand_filter s ex rt kvs _ sub hconf0
    have hnd' := nodup_iff'.mp hnd
    have hcnt := countKey_le_one_of_nodup hnd'
    have htn : Sel.typename ∈ expandSelsW ex (unB q ty sub) := by
      have := C01NA.expandSelsW_mem ex (typename_mem hsx.tn)
      simpa [expandSelW] using this
    have htag : Json.lookup "__typename" kvs = some (.str (rtName s rt)) := by
      have := confSelsV_mem hconf _ htn
      simp only [confSelV] at this
      split at this
      · rename_i n hl; rw [hl]; simp only [beq_iff_eq] at this; rw [this]
      · cases this
    have hc1 : countKey "__typename" kvs = 1 := by
      have := countKey_pos_of_lookup htag
      have := hcnt "__typename"
      omega
    have hmemv := mem_vtsOfTy happ hrt hty
    have hfind : (vtsOfTy s ty).find? (fun vt => objName s vt == rtName s rt) = some (.object rt) := by
      have hnd'' : ((vtsOfTy s ty).map (objName s)).Nodup := by
        have := hsp.nd
        unfold variantNames at this
        exact (List.nodup_append.mp this).1
      exact find_by_name s _ hnd'' _ hmemv
    have hT : "__typename" ∉ fieldKeys s (C01NG.ownSels (unB q ty sub)) := by
      rw [← hown_eq]; exact (List.nodup_cons.mp (nodup_iff'.mp hsg.nd)).1
    have hq : ∀ v : Json, (fun kv : String × Json => !(fieldKeys s (C01NG.ownSels (unB q ty sub))).contains kv.1) ("__typename", v) = true := by
      intro v; simp [hT]
    have htagR : Json.lookup "__typename" (restG s (unB q ty sub) kvs) = some (.str (rtName s rt)) := by
      unfold restG; rw [lookup_filter _ _ hq]; exact htag
    have hc1R : countKey "__typename" (restG s (unB q ty sub) kvs) = 1 := by
      unfold restG; rw [countKey_filter _ _ hq]; exact hc1
    have hfe : (restG s (unB q ty sub) kvs).filter (·.1 != "__typename") =
        kvs.filter (fun kv => !(posKeys s (unB q ty sub)).contains kv.1) := by
      unfold restG posKeys
      rw [List.filter_filter]
      congr 1
      funext kv
      by_cases hkv : kv.1 = "__typename" <;> simp [hkv, List.contains_cons, Bool.and_comm]
    have hmineX := hsx.mine hokS hmemv
    -- every fragment selected on the runtime type accepts the whole object
    have hwhole : ∀ g ∈ memFrags q (.object rt) (unB q ty sub), whole g true (.obj kvs) = true := by
      intro g hg
      have hokg := memFrags_okX hmineX hg
      apply hmem rt g hokg kvs hcnt
      unfold memFrags at hg
      rcases List.mem_append.mp hg with hg | hg
      · obtain ⟨x, hx, hxg⟩ := List.mem_filterMap.mp hg
        cases x with
        | spread g' =>
          simp only [spreadId, Option.some.injEq] at hxg; subst hxg
          have := confSelsV_mem hconf _ (C01NA.expandSelsW_mem ex (mem_mineOf hx).1)
          simpa [expandSelW] using this
        | field a fid sub' => simp [spreadId] at hxg
        | inline t sub' => simp [spreadId] at hxg
        | typename => simp [spreadId] at hxg
      · obtain ⟨x, hx, hxg⟩ := List.mem_filterMap.mp hg
        obtain ⟨t, rfl⟩ := aliasInl_some hxg
        have ht : t = .object rt := by
          have := (mem_mineOf hx).2
          simpa [selOn] using this
        subst ht
        have := confSelsV_mem hconf _ (C01NA.expandSelsW_mem ex (mem_mineOf hx).1)
        simpa [expandSelW, expandSelsW, confSelV, confSelsV, fragApplies] using this
    have hirrm : ∀ g ∈ memFrags q (.object rt) (unB q ty sub), IrrL whole g (posKeys s (unB q ty sub)) :=
      fun g hg => hirr g (memFrags_mem_selFrag hg) rt (memFrags_okX hmineX hg)
    -- the payload
    have hP : payX whole s q o (unB q ty sub) (.object rt) ((restG s (unB q ty sub) kvs).filter (·.1 != "__typename")) = true := by
      rw [hfe]
      unfold payX
      cases hbody : (mineOf q (.object rt) (unB q ty sub)).any isBody with
      | false =>
        simp only [Bool.false_eq_true, if_false]
        have hmeq := mineOf_unbody hbody
        unfold payA memSels
        apply looseMemN_spreads_of
        intro g hg
        have hg' : g ∈ memFrags q (.object rt) (unB q ty sub) := by unfold memFrags at hg ⊢; rw [← hmeq]; exact hg
        rw [hirrm g hg' kvs]
        exact hwhole g hg'
      | true =>
        simp only [if_true, Bool.and_eq_true]
        refine ⟨?_, ?_⟩
        · -- the fields of the inline fragments on the runtime type
          have hkeys : ∀ k ∈ fieldKeys s (C01NG.ownSels (varSels q (.object rt) (unB q ty sub))), ∀ v : Json,
              (fun kv : String × Json => !(posKeys s (unB q ty sub)).contains kv.1) (k, v) = true := by
            intro k hk v
            obtain ⟨x, hx, hxk⟩ := List.mem_filterMap.mp hk
            obtain ⟨hxv, hxf⟩ := List.mem_filter.mp hx
            rcases mem_varSelsOf hxv with ⟨g, rfl, _⟩ | ⟨t, isub, hm, hb, hxi⟩
            · simp [isFieldSel] at hxf
            · have hbk := hsx.body _ (mem_mineOf hm).1 hb
              simp only [bodyOk, Bool.and_eq_true, List.all_eq_true, Bool.not_eq_true'] at hbk
              have := hbk.2 k (List.mem_filterMap.mpr ⟨x, hxi, hxk⟩)
              simpa [posKeys] using this
          rw [looseSelsS_filter s q o true _ kvs _ hkeys]
          apply looseSelsS_all
          intro x hx
          obtain ⟨hxv, hxf⟩ := List.mem_filter.mp hx
          rcases mem_varSelsOf hxv with ⟨g, rfl, _⟩ | ⟨t, isub, hm, hb, hxi⟩
          · simp [isFieldSel] at hxf
          · have ht : t = .object rt := by
              have := (mem_mineOf hm).2
              simpa [selOn] using this
            subst ht
            have hbk := hsx.body _ (mem_mineOf hm).1 hb
            simp only [bodyOk, Bool.and_eq_true, List.all_eq_true] at hbk
            have hci := confSelsV_mem hconf _ (C01NA.expandSelsW_mem ex (mem_mineOf hm).1)
            have hci' : confSelsV s rt (expandSelsW ex isub) kvs = true := by
              simpa [expandSelW, confSelV, fragApplies] using hci
            have hall := slLeafs s q o ex true rt kvs hcnt isub hbk.1.2 hci'
            exact looseSelsS_mem s q o hall x (List.mem_filter.mpr ⟨hxi, hxf⟩)
        · rw [looseMemN_filter whole (posKeys s (unB q ty sub)) kvs _ (fun g hg => by
            rcases mem_varSelsOf hg with ⟨g', h0, hg'⟩ | ⟨t, isub, hm, hb, hxi⟩
            · cases h0; exact hirrm g hg' kvs
            · obtain ⟨_, _, hx', _, hall⟩ := isBody_inline hb
              cases hx'
              have := hall _ hxi
              simp [isFieldSel] at this)]
          apply looseMemN_all
          intro g hg
          rcases mem_varSelsOf hg with ⟨g', h0, hg'⟩ | ⟨t, isub, hm, hb, hxi⟩
          · cases h0; exact hwhole g hg'
          · obtain ⟨_, _, hx', _, hall⟩ := isBody_inline hb
            cases hx'
            have := hall _ hxi
            simp [isFieldSel] at this
    have hownU : C01NG.ownSels (unB q ty sub) = C01NG.ownSels sub := ownSels_unB q ty sub
    have hrestU : restG s (unB q ty sub) kvs = restG s sub kvs := by unfold restG; rw [hownU]
    rw [hrestU] at hP htagR hc1R
    have hq' : ∀ v : Json, (fun kv : String × Json => !(fieldKeys s (C01NG.ownSels sub)).contains kv.1) ("__typename", v) = true := by
      rw [← hownU]; exact hq
    simp only [looseTagB]
    cases hown : ((C01NG.ownSels sub).isEmpty && (bSels q ty sub).isEmpty) with
    | true =>
      have hr : restG s sub kvs = kvs := by
        have : C01NG.ownSels sub = [] := by
          simp only [Bool.and_eq_true, List.isEmpty_iff] at hown; exact hown.1
        simp [restG, this, fieldKeys]
      rw [hr] at hP
      simp only [if_true]
      unfold tagOkV
      simp only [hc1, hfind, htag]
      exact hP
    | false =>
      simp only [Bool.false_eq_true, if_false, Bool.and_eq_true]
      refine ⟨slLeafs s q o ex b rt kvs hcnt sub hsb.leaf hconf0, ?_, ?_⟩
      · have hcB : confSelsV s rt (expandSels q (bSels q ty sub)) kvs = true := by
          rw [← expandSelsW_eq_of_spreads q ex (bSels q ty sub) (fun x hx => by
            obtain ⟨hm, hb⟩ := mem_bSels.mp hx
            obtain ⟨g, f, rfl, _, _⟩ := isBSpread_spread hb
            exact ⟨g, rfl, hexA g (.inr ⟨ty, hty, (hsb.b g hm hb).okB⟩)⟩)]
          exact confSelsV_expand_filter s ex rt kvs _ sub hconf0
        exact slMemB s q o ty hty rt hrt happ kvs hnd'
          (fun kv => !(fieldKeys s (C01NG.ownSels sub)).contains kv.1) hq' (bSels q ty sub)
          (fun g f hg hf hon => by
            obtain ⟨hm, hb⟩ := mem_bSels.mp hg
            have hbf := hsb.b g hm hb
            refine ⟨hbf.okB, fun k hk v => ?_⟩
            have hfs : fragSels q g = f.sels := by simp [fragSels, hf]
            have hk' : k ∈ fieldKeys s (fragSels q g) := by
              rw [hfs]; exact deepKeys_sub_fieldKeys s q o f.sels (by rw [← hfs]; exact hbf.body) k hk
            have := hbf.keys k hk'
            simpa using this) hcB
      · unfold tagOkV
        simp only [hc1R, hfind, htagR]
        exact hP
  | null => simp [conformsV] at hc
  | bool _ => simp [conformsV] at hc
  | int _ => simp [conformsV] at hc
  | num _ => simp [conformsV] at hc
  | str _ => simp [conformsV] at hc
  | arr _ => simp [conformsV] at hc

include hmem in
theorem slMemA (i : Nat) (kvs : List (String × Json)) (hc : ∀ k, countKey k kvs ≤ 1) : ∀ (sels : List Sel),
    aSels ok s q o (.object i) sels = true → confSelsV s i (expandSelsW ex sels) kvs = true →
    looseMemN whole sels kvs = true
  | [], _, _ => by simp [looseMemN]
  | x :: xs, ht, h => by
    obtain ⟨hx, hxs⟩ := aSels_cons ht
    rw [expandSelsW, confSelsV, Bool.and_eq_true] at h
    have ih := slMemA i kvs hc xs hxs h.2
    cases x with
    | spread g =>
      have hokg : ok (.object i) g = true := by simpa [aSel] using hx
      rw [looseMemN, ih, Bool.and_true]
      exact hmem i g hokg kvs hc (by simpa [expandSelW] using h.1)
    | field a fid sub => simpa [looseMemN] using ih
    | inline t sub => simpa [looseMemN] using ih
    | typename => simpa [looseMemN] using ih

include hmem hali in
theorem slBodyA_of (sels : List Sel)
    (IHown : ∀ b i kvs, aSels ok s q o (.object i) sels = true → (∀ k, countKey k kvs ≤ 1) →
      confSelsV s i (expandSelsW ex sels) kvs = true → looseOwnA whole s q o b sels kvs = true) :
    ∀ b i j, aBody ok s q o (.object i) sels = true → conformsV s i (expandSelsW ex sels) j = true →
      conformsLooseA whole s q o b sels j = true := by
  intro b i j ht hc
  by_cases hsp : ∃ g, sels = [Sel.spread g]
  · obtain ⟨g, rfl⟩ := hsp
    have hokg : ok (.object i) g = true := ht
    simp only [conformsLooseA]
    exact hali i g hokg b j (by simpa [expandSelsW, expandSelW] using hc)
  · have hnl : ∀ g, sels ≠ [Sel.spread g] := fun g hg => hsp ⟨g, hg⟩
    rw [aBody_not_lone hnl] at ht
    rw [conformsLooseA_not_lone hnl]
    cases j with
    | obj kvs =>
      simp only [conformsV, Bool.and_eq_true] at hc
      have hcnt := countKey_le_one_of_nodup (nodup_iff'.mp hc.1.1)
      simp only [IHown b i kvs ht hcnt hc.2, slMemA s q o ok whole ex hmem i kvs hcnt sels ht hc.2, Bool.and_self]
    | null => simp [conformsV] at hc
    | bool _ => simp [conformsV] at hc
    | int _ => simp [conformsV] at hc
    | num _ => simp [conformsV] at hc
    | str _ => simp [conformsV] at hc
    | arr _ => simp [conformsV] at hc

mutual
  theorem slFieldA : ∀ (x : Sel) (p : TypeId) (b : Bool) (v : Json),
      (∀ g, FragOkAny s q o g → ex g = expandSel q (.spread g)) →
      (∀ i g, ok (.object i) g = true → ∀ kvs, (∀ k, countKey k kvs ≤ 1) → confSelV s i (ex g) kvs = true →
        whole g true (.obj kvs) = true) →
      (∀ i g, ok (.object i) g = true → ∀ b j, conformsV s i [ex g] j = true → whole g b j = true) →
      OkSpec q ok → (∀ gl ∈ aPays s q o x, ∀ i, ok (.object i) gl.1 = true → IrrL whole gl.1 gl.2) →
      aSel ok s q o p x = true →
      strictFieldV s (expandSelW ex x) v = true → looseFieldA whole s q o b x v = true
    | .field a fid sub, p, b, v => by
      intro hexA hmem hali hokS hirr ht h
      have IH := slOwnA sub
      obtain ⟨sf, hsf⟩ := aSel_field_some ht
      by_cases hobj : ∃ i, sf.ty.id = .object i
      · obtain ⟨i, hid⟩ := hobj
        obtain ⟨_, _, hobjs, hbody⟩ := aSel_obj hsf hid ht
        simp only [expandSelW, strictFieldV] at h
        rw [looseFieldA]
        simp only [hsf, hid, Bool.and_eq_true] at h ⊢
        cases ho : s.objects[i]? with
        | none => simp [ho] at hobjs
        | some ob =>
          simp only []
          rw [looseLambdaA]
          refine (accepts_mono _ _ ?_ _).2 v h
          intro j hj
          simp only [conformsAt, List.any_eq_true, List.mem_range, Bool.and_eq_true, fragApplies, beq_iff_eq] at hj
          obtain ⟨rt, _, hrt, hc⟩ := hj
          subst hrt
          exact slBodyA_of s q o ok whole ex hmem hali sub
            (fun b' i' kvs h1 h2 h3 => IH (.object i') b' i' kvs hexA hmem hali hokS
              (fun g hg => hirr g (by rw [aPays]; simp only [hsf, hid]; exact hg)) h1 h2 h3) b i j hbody hc
      · have hno : ∀ i, sf.ty.id ≠ .object i := fun i h => hobj ⟨i, h⟩
        rcases aSel_nonobj hsf hno ht with hs | ⟨hs, hnew⟩
        · rw [looseFieldA_old hsf hno hs]
          have hexp : expandSelW ex (.field a fid sub) = expandSel q (.field a fid sub) :=
            expandSelW_congr q ex _ (fun g hg => hexA g (fragOk_of_spreadIdS s q o _ false hs g hg (by simp)))
          rw [hexp] at h
          exact slFieldS s q o _ false b v hs h
        · rw [looseFieldA_new hsf hno hs]
          obtain ⟨_, _, hty, hsubA⟩ := absFieldB_parts hnew
          have hsp := absSubB_parts hsubA
          simp only [expandSelW, strictFieldV, hsf] at h
          have hirr' : ∀ g ∈ (unB q sf.ty.id sub).filterMap selFrag, ∀ i, ok (.object i) g = true →
              IrrL whole g (posKeys s (unB q sf.ty.id sub)) := by
            intro g hg0
            have hg : (g, posKeys s (unB q sf.ty.id sub)) ∈
                ((unB q sf.ty.id sub).filterMap selFrag).map (fun g => (g, posKeys s (unB q sf.ty.id sub))) :=
              List.mem_map.mpr ⟨g, hg0, rfl⟩
            apply hirr (g, posKeys s (unB q sf.ty.id sub))
            rw [aPays]
            simp only [hsf]
            cases hid : sf.ty.id with
            | object i => exact absurd hid (hno i)
            | scalar k => simpa only [hid, hs, Bool.false_eq_true, if_false] using hg
            | «enum» k => simpa only [hid, hs, Bool.false_eq_true, if_false] using hg
            | interface k => simpa only [hid, hs, Bool.false_eq_true, if_false] using hg
            | union k => simpa only [hid, hs, Bool.false_eq_true, if_false] using hg
            | input k => simpa only [hid, hs, Bool.false_eq_true, if_false] using hg
          have h' : accepts (conformsAt s sf.ty.id (expandSelsW ex sub)) (gtyOf sf.ty.quals) v = true := by
            cases hid : sf.ty.id with
            | object i => exact absurd hid (hno i)
            | scalar k => rw [hid] at hty; exact absurd hty (by simp [absHyp])
            | «enum» k => rw [hid] at hty; exact absurd hty (by simp [absHyp])
            | input k => rw [hid] at hty; exact absurd hty (by simp [absHyp])
            | interface k => simp only [hid] at h; exact h
            | union k => simp only [hid] at h; exact h
          unfold looseAbsB
          refine (accepts_mono _ _ ?_ _).2 v h'
          intro j hj
          exact slTagB s q o ok whole ex hexA hmem hokS sf.ty.id sub hty hsp hirr' b j hj
    | .spread _, _, _, _ => by intro _ _ _ _ _ _ _; simp [looseFieldA]
    | .inline _ _, _, _, _ => by intro _ _ _ _ _ ht; simp [aSel] at ht
    | .typename, _, _, _ => by intro _ _ _ _ _ _ _; simp [looseFieldA]
  theorem slOwnA : ∀ (sels : List Sel) (p : TypeId) (b : Bool) (i : Nat) (kvs : List (String × Json)),
      (∀ g, FragOkAny s q o g → ex g = expandSel q (.spread g)) →
      (∀ i g, ok (.object i) g = true → ∀ kvs, (∀ k, countKey k kvs ≤ 1) → confSelV s i (ex g) kvs = true →
        whole g true (.obj kvs) = true) →
      (∀ i g, ok (.object i) g = true → ∀ b j, conformsV s i [ex g] j = true → whole g b j = true) →
      OkSpec q ok → (∀ gl ∈ aPayss s q o sels, ∀ i, ok (.object i) gl.1 = true → IrrL whole gl.1 gl.2) →
      aSels ok s q o p sels = true → (∀ k, countKey k kvs ≤ 1) →
      confSelsV s i (expandSelsW ex sels) kvs = true → looseOwnA whole s q o b sels kvs = true
    | [], _, _, _, _, _, _, _, _, _, _, _, _ => by simp [looseOwnA]
    | x :: xs, p, b, i, kvs, hexA, hmem, hali, hokS, hirr, ht, hc, h => by
      obtain ⟨hx, hxs⟩ := aSels_cons ht
      rw [expandSelsW, confSelsV, Bool.and_eq_true] at h
      have ih := slOwnA xs p b i kvs hexA hmem hali hokS
        (fun g hg => hirr g (by rw [aPayss]; exact List.mem_append_right _ hg)) hxs hc h.2
      cases x with
      | field a fid sub =>
        have hcx := h.1
        rw [expandSelW, confSelV_field] at hcx
        rw [looseOwnA.eq_2, ih, Bool.and_true]
        cases hsf : s.fields[fid]? with
        | none => simp [hsf] at hcx
        | some sf =>
          simp only [hsf] at hcx ⊢
          cases hl : Json.lookup (a.getD sf.name) kvs with
          | none => simp [hl] at hcx
          | some v =>
            simp only [hl] at hcx ⊢
            have := slFieldA (.field a fid sub) p b v hexA hmem hali hokS
              (fun g hg => hirr g (by rw [aPayss]; exact List.mem_append_left _ hg)) hx (by rw [expandSelW]; exact hcx)
            simp [hc, this]
      | spread g => simpa [looseOwnA] using ih
      | inline t sub => simp [aSel] at hx
      | typename => simpa [looseOwnA] using ih
end

include hexA hmem hali hokS in
/-- every response conforming to the specification (on the expanded selection set) is accepted -/
theorem conformsA_loose (b : Bool) (i : Nat) (sels : List Sel) (j : Json)
    (hirr : ∀ gl ∈ aPayss s q o sels, ∀ i, ok (.object i) gl.1 = true → IrrL whole gl.1 gl.2)
    (ht : aBody ok s q o (.object i) sels = true) (h : conformsV s i (expandSelsW ex sels) j = true) :
    conformsLooseA whole s q o b sels j = true :=
  slBodyA_of s q o ok whole ex hmem hali sels
    (fun b' i' kvs h1 h2 h3 => slOwnA s q o ok whole ex sels (.object i') b' i' kvs hexA hmem hali hokS hirr h1 h2 h3) b i j ht h

end SLA


/-! ## entries with other keys do not matter to `wholeN` -/

theorem wholeN_irr (c : Ctx) (hnd : fragNamesOk c = true) : ∀ (r : Nat) (p : TypeId) (g : Nat),
    fragOkN c.s c.q c.o r p g = true → ∀ L : List String, (∀ k ∈ L, k ∉ KNn c r (fragName c g)) → ∀ b kvs,
    wholeN c r g b (.obj (kvs.filter (fun kv => !L.contains kv.1))) = wholeN c r g b (.obj kvs)
  | 0, p, g => by
    intro h L hL b kvs
    rw [fragOkN] at h
    obtain ⟨fr, hfr, hon, _, hv, _⟩ := fragOk_parts h
    have hname : fragName c g = fr.name := by simp [fragName, hfr]
    have hsels : fragSels c.q g = fr.sels := by simp [fragSels, hfr]
    have hid : idOf c.q fr.name = g := idOf_name hnd hfr
    have hKN : KNn c 0 fr.name = fieldKeys c.s fr.sels := by rw [KNn, hid, hsels]
    rw [hname, hKN] at hL
    simp only [wholeN, hsels, conformsLooseV]
    exact looseSelsV_filter c.s c.o b L kvs fr.sels (fun k hk hkL => hL k hkL hk)
  | r + 1, p, g => by
    intro h L hL b kvs
    have IH := wholeN_irr c hnd r
    by_cases hold : fragOkN c.s c.q c.o r p g = true
    · obtain ⟨fr, hfr, hon, _, _⟩ := fragOkN_spec c.s c.q c.o r p g hold
      have hfon : fragOn c.q g = p := by simp [fragOn, hfr, hon]
      have hname : fragName c g = fr.name := by simp [fragName, hfr]
      have hid : idOf c.q fr.name = g := idOf_name hnd hfr
      rw [hname, KNn, hid, hfon, if_pos hold] at hL
      have e : ∀ j, wholeN c (r + 1) g b j = wholeN c r g b j := by
        intro j; rw [wholeN, hfon, if_pos hold]
      rw [e, e]
      exact IH p g hold L (by rw [hname]; exact hL) b kvs
    · have holdf : fragOkN c.s c.q c.o r p g = false := by simpa using hold
      rw [fragOkN, holdf, Bool.false_or] at h
      obtain ⟨fr, hfr, hon, _, _, hnl, hb⟩ := fragNew_parts h
      have hfon : fragOn c.q g = p := by simp [fragOn, hfr, hon]
      have hname : fragName c g = fr.name := by simp [fragName, hfr]
      have hsels : fragSels c.q g = fr.sels := by simp [fragSels, hfr]
      have hid : idOf c.q fr.name = g := idOf_name hnd hfr
      have hKN : KNn c (r + 1) fr.name = expKeysN (KNn c r) c fr.sels := by
        rw [KNn, hid, hfon, if_neg hold, hsels]
      have hwh : ∀ b j, wholeN c (r + 1) g b j = conformsLooseN (wholeN c r) c.s c.q c.o b fr.sels j := by
        intro b j; rw [wholeN, hfon, if_neg hold, hsels]
      rw [hname, hKN] at hL
      rw [hwh, hwh, conformsLooseN_not_lone hnl, conformsLooseN_not_lone hnl]
      simp only
      rw [looseOwnN_filter _ _ _ _ _ L kvs fr.sels
          (fun k hk hkL => hL k hkL (fieldKeys_sub_expKeysN (KNn c r) c fr.sels k hk)),
        looseMemN_filter _ L kvs fr.sels (fun g' hg' => by
          have hokg' : fragOkN c.s c.q c.o r fr.on g' = true := by
            simpa [nSel] using nSels_mem hb _ hg'
          exact IH fr.on g' hokg' L
            (fun k hkL hk => hL k hkL (spreadKeys_sub_expKeysN (KNn c r) c fr.sels g' hg' k hk)) true kvs)]

/-- none of the fragments selected at an abstract position of the general kind reads the key `__typename` or the key of an
    interface-level field of that position (decidable) -/
def absTagOk (c : Ctx) (op : ROperation) : Bool :=
  (aPayss c.s c.q c.o op.sels).all (fun gl =>
    gl.2.all (fun k => !(KNn c c.q.fragments.length (fragName c gl.1)).contains k))

/-- conforming ⇒ `conformsLooseA`, at the top level -/
theorem conformsOpA_loose (c : Ctx) (op : ROperation) (ht : NestedBOp c op = true) (hnd : fragNamesOk c = true)
    (htag : absTagOk c op = true) (b : Bool) (j : Json) (h : conformsOpN c op j = true) :
    conformsLooseA (wholeN c c.q.fragments.length) c.s c.q c.o b op.sels j = true := by
  obtain ⟨_, _, hsels⟩ := nestedBOp_parts ht
  refine conformsA_loose c.s c.q c.o _ (wholeN c c.q.fragments.length) (exN c.q c.q.fragments.length)
    (fun g hg => exN_fragOkAny hg _)
    (fun i g hg => (specN c _ i g hg _ (Nat.le_refl _)).1)
    (fun i g hg => (specN c _ i g hg _ (Nat.le_refl _)).2) (fragOkN_spec c.s c.q c.o _) b op.objectId op.sels j ?_ hsels h
  intro gl hg i hokg kvs
  simp only [absTagOk, List.all_eq_true, Bool.not_eq_true'] at htag
  have hk := htag gl hg
  exact wholeN_irr c hnd _ (.object i) gl.1 hokg gl.2 (by
    intro k hk' hmem'
    rw [← List.contains_iff_mem] at hmem'
    rw [hk k hk'] at hmem'
    cases hmem') true kvs

/-- **`nestedb_accepts`.**  Every conforming response is accepted by the emitted `ResponseData`. -/
theorem nestedb_accepts (c : Ctx) (opIdx : Nat) (op : ROperation) (items : List Item)
    (hop : c.q.operations[opIdx]? = some op) (ht : NestedBOp c op = true) (hnd : fragNamesOk c = true)
    (hk : nestedBKeysOk c op = true) (htag : absTagOk c op = true)
    (hgen : responseForQuery c opIdx = .ok items) (hok : moduleOk c items = true)
    (j : Json) (hc : conformsOpN c op j = true) :
    ∃ v, Serde.de (moduleEnv c items) (.path "ResponseData") j = .ok v := by
  have := nestedb_precise_iff c opIdx op items hop ht hnd hk hgen hok j
  rw [conformsOpA_loose c op ht hnd htag false j hc] at this
  exact (okB_iff _).mp this

end C01NB
end GqlVerif
