import GqlVerif.Proofs.C01Layers
import GqlVerif.Proofs.C02Closure
/-!
# C01 / C03 end to end over `Codegen`, part A: specification, class, closed form of the emitted items

**Scope.**  Operations whose selection tree consists of `.field` selections (with or without alias) and
`.typename` only; every selected field with a sub-selection has an *object* type, leaf fields have
scalar / enum types.  **Fragment spreads, inline fragments and abstract (interface / union) positions are
out of scope** of this file and of parts B / C (they are where the known findings `C01-overlap`,
`C01-dropped-fragment`, `C03-typename-index` live).

* `conformsSel s tn sels j` — the **specification**, written from the GraphQL spec §6.4.2 "Executing
  selection sets" / §6.4.3 "Value completion" (not from the generator): `j` is an object without
  duplicate keys whose entries are exactly one per selected response key (alias or field name; for
  `__typename` the name `tn` of the object type as a string); each value conforms to the field's type
  expression (`Spec.accepts`: `null` only at nullable positions, lists exactly at list positions) with, at
  the leaves: `Int` = integer within i64 (the GraphQL spec says 32 bit; i64 ⊇ i32, so every spec-conforming
  value is covered), `Float` = number, `String` = string, `Boolean`, `ID` = string or i64 integer,
  enum = any string, custom scalar = string (the consumer's type is taken to be `String`, as the harness
  does), object type = recursively `conformsSel` of the sub-selection.
* `TreeOp c op` — the class, a decidable (`Bool`) predicate.
* `structItems` / `fieldsOf` / `fieldOf` — the closed form of the emitted items.
* `tree_items_shape` — **Theorem 1**: `responseItems c op = .ok (structItems …)` for every operation of
  the class (fuel included: `calcFuel` suffices).
-/
set_option linter.unusedSimpArgs false

namespace GqlVerif
namespace C01
namespace E2E
open Serde Spec C13 C03 Codegen

/-- qualifier list (outer to inner, as stored in the schema) → type expression; the named type at the
    leaf is irrelevant to `Spec.accepts`, `C13.rustOf`, `C13.wf`, `canon` and is elided -/
def gtyOf : List Qual → GTy
  | [] => .named "_"
  | .required :: qs => .nonNull (gtyOf qs)
  | .list :: qs => .list (gtyOf qs)

/-- no `!!` (`C13.wf` on the qualifier list; `decorate_type` panics on it, neither parser produces it) -/
def wfQuals : List Qual → Bool
  | [] => true
  | .list :: qs => wfQuals qs
  | .required :: qs => (match qs with | .required :: _ => false | _ => true) && wfQuals qs

/-- the outermost level is nullable -/
def nullableQ : List Qual → Bool
  | [] => true
  | q :: _ => q != .required

/-- the positions `skip_serializing_none` marks: nullable with at least one modifier (`renderField`) -/
def skipQ : List Qual → Bool
  | [] => false
  | q :: _ => q != .required

/-- the values of the scalar named `n`: `Int` = integer within i64 (⊇ the 32 bits of the GraphQL spec),
    `Float` = number, `Boolean`, `ID` = string or i64 integer, `String` and every custom scalar = string -/
def scalarOk (n : String) : Json → Bool :=
  if n = "Int" then intOk else if n = "Float" then floatOk else if n = "Boolean" then boolOk
  else if n = "ID" then idOk else stringOk

/-- the response key of a selection: alias, else field name; `__typename` for `.typename` -/
def respKey (s : Schema) : Sel → Option String
  | .field a fid _ => (s.fields[fid]?).map (fun sf => a.getD sf.name)
  | .typename => some "__typename"
  | _ => none

def respKeys (s : Schema) (sels : List Sel) : List String := sels.filterMap (respKey s)

mutual
  /-- the entry an object of type `tn` must carry for one selection (GraphQL spec §6.4.2, §6.4.3) -/
  def confSel (s : Schema) (tn : String) : Sel → List (String × Json) → Bool
    | .field a fid sub, kvs =>
      match s.fields[fid]? with
      | none => false
      | some sf =>
        match Json.lookup (a.getD sf.name) kvs with
        | none => false
        | some v =>
          match sf.ty.id with
          | .scalar k => (match s.scalars[k]? with
            | some n => accepts (scalarOk n) (gtyOf sf.ty.quals) v
            | none => false)
          | .enum k => (match s.enums[k]? with
            | some _ => accepts stringOk (gtyOf sf.ty.quals) v
            | none => false)
          | .object i => (match s.objects[i]? with
            | some o => accepts (fun j => match j with
                | .obj kvs' => EnumSpec.nodup (kvs'.map (·.1)) && kvs'.all (fun kv => (respKeys s sub).contains kv.1) &&
                    confSels s o.name sub kvs'
                | _ => false) (gtyOf sf.ty.quals) v
            | none => false)
          | _ => false
    | .typename, kvs => (match Json.lookup "__typename" kvs with | some (.str n) => n == tn | _ => false)
    | _, _ => false
  def confSels (s : Schema) (tn : String) : List Sel → List (String × Json) → Bool
    | [], _ => true
    | x :: xs, kvs => confSel s tn x kvs && confSels s tn xs kvs
end

/-- **the specification**: `j` is the response object of the selection set `sels` on the object type
    named `tn`: an object without duplicate keys, whose keys are all response keys of `sels`, carrying a
    conforming entry for every selection (so: exactly one entry per response key, order irrelevant) -/
def conformsSel (s : Schema) (tn : String) (sels : List Sel) : Json → Bool
  | .obj kvs => EnumSpec.nodup (kvs.map (·.1)) && kvs.all (fun kv => (respKeys s sels).contains kv.1) &&
      confSels s tn sels kvs
  | _ => false


/-! ## closed form of the emitted items -/

/-- the type name at the leaf of a field's Rust type: scalar alias / enum name / nested struct name
    (path rule: prefix of the enclosing struct ++ upper-camel-case response key) -/
def leafName (c : Ctx) (pfx g : String) : TypeId → Option String
  | .scalar k => c.s.scalars[k]?
  | .enum k => (c.s.enums[k]?).map (·.name)
  | .object _ => some (pfx ++ c.cs.camel g)
  | _ => none

/-- the field emitted for response key `g`, leaf type name `ft`, modifiers `quals` -/
def fieldOf (c : Ctx) (g ft : String) (quals : List Qual) (dep : Option (Option String)) : RField :=
  { rust := keywordReplace (c.cs.snake g)
    rename := fieldRename g (keywordReplace (c.cs.snake g))
    ty := rustOf (.path ft) (gtyOf quals)
    flatten := false
    skipNone := c.o.skipNone && skipQ quals
    deserWith := if ft = "ID" then some (C16.idHelperFor (gtyOf quals)) else none
    default := decide (ft = "ID") && nullableQ quals
    deprecated := match dep, c.o.deprecation with
      | some msg, .warn => some msg
      | _, _ => none }

def fieldOfSel (c : Ctx) (pfx : String) : Sel → Option RField
  | .field a fid _ =>
    match c.s.fields[fid]? with
    | none => none
    | some sf =>
      match leafName c pfx (a.getD sf.name) sf.ty.id with
      | none => none
      | some ft => some (fieldOf c (a.getD sf.name) ft sf.ty.quals sf.deprecation)
  | _ => none

def fieldsOf (c : Ctx) (pfx : String) (sels : List Sel) : List RField := sels.filterMap (fieldOfSel c pfx)

mutual
  def itemsOfSel (c : Ctx) (pfx : String) : Sel → List Item
    | .field a fid sub =>
      match c.s.fields[fid]? with
      | none => []
      | some sf =>
        match sf.ty.id with
        | .object _ =>
          .struct (pfx ++ c.cs.camel (a.getD sf.name)) c.respDerives c.serdeCrate
              (fieldsOf c (pfx ++ c.cs.camel (a.getD sf.name)) sub) ::
            itemsOfSels c (pfx ++ c.cs.camel (a.getD sf.name)) sub
        | _ => []
    | _ => []
  def itemsOfSels (c : Ctx) (pfx : String) : List Sel → List Item
    | [] => []
    | x :: xs => itemsOfSel c pfx x ++ itemsOfSels c pfx xs
end

/-- **closed form**: the struct `name` of the selection set, followed by the structs of its nested
    selection sets (depth first, in selection order) -/
def structItems (c : Ctx) (name pfx : String) (sels : List Sel) : List Item :=
  .struct name c.respDerives c.serdeCrate (fieldsOf c pfx sels) :: itemsOfSels c pfx sels

/-! ## the class -/

mutual
  /-- one selection of the class: a field that exists, without `!!`, not (deprecated and denied); of
      scalar / enum type without sub-selection, or of object type with a sub-selection of the class whose
      response keys are pairwise distinct; or `__typename` -/
  def treeSel (s : Schema) (o : Options) : Sel → Bool
    | .field _ fid sub =>
      match s.fields[fid]? with
      | none => false
      | some sf =>
        wfQuals sf.ty.quals && !(sf.deprecation.isSome && o.deprecation == .deny) &&
        (match sf.ty.id with
         | .scalar k => (s.scalars[k]?).isSome && sub.isEmpty
         | .enum k => (s.enums[k]?).isSome && sub.isEmpty
         | .object i => (s.objects[i]?).isSome && treeSels s o sub && EnumSpec.nodup (respKeys s sub)
         | _ => false)
    | .typename => true
    | _ => false
  def treeSels (s : Schema) (o : Options) : List Sel → Bool
    | [] => true
    | x :: xs => treeSel s o x && treeSels s o xs
end

/-- **the class** (decidable): normalization `none`, the root object exists, the selection tree is in the
    class, root response keys pairwise distinct -/
def TreeOp (c : Ctx) (op : ROperation) : Bool :=
  c.o.normalization == .none && (c.s.objects[op.objectId]?).isSome &&
  treeSels c.s c.o op.sels && EnumSpec.nodup (respKeys c.s op.sels)


/-! ## Theorem 1 -/

theorem quals_gtyOf : ∀ qs, GTy.quals (gtyOf qs) = qs
  | [] => rfl
  | .required :: qs => by simp [gtyOf, GTy.quals, quals_gtyOf qs]
  | .list :: qs => by simp [gtyOf, GTy.quals, quals_gtyOf qs]

theorem wf_gtyOf : ∀ qs, wf (gtyOf qs) = wfQuals qs
  | [] => rfl
  | .list :: qs => by simp [gtyOf, wf, wfQuals, wf_gtyOf qs]
  | .required :: qs => by
    cases qs with
    | nil => simp [gtyOf, wf, wfQuals]
    | cons q qs' =>
      cases q with
      | required => simp [gtyOf, wf, wfQuals]
      | list =>
        have := wf_gtyOf (.list :: qs')
        simp only [gtyOf, wf, wfQuals] at this ⊢
        simp [this]

theorem renderField_tree (c : Ctx) (g ft : String) (quals : List Qual) (dep : Option (Option String))
    (hw : wfQuals quals = true) (hdep : (dep.isSome && c.o.deprecation == .deny) = false) :
    renderField c (some g) (keywordReplace (c.cs.snake g)) ft quals false false dep =
      .ok (some (fieldOf c g ft quals dep)) := by
  unfold renderField
  have hd := decorate_spec (.path ft) (gtyOf quals) (by rw [wf_gtyOf]; exact hw)
  rw [quals_gtyOf] at hd
  rw [hd]
  simp only [bind, Except.bind, fieldOf, C16.idHelperFor, quals_gtyOf]
  cases dep with
  | none =>
    cases hs : c.o.deprecation <;> simp [pure, Except.pure, Option.bind] <;>
      (by_cases hid : ft = "ID" <;> simp [hid, nullableQ, skipQ] <;> (cases quals <;> simp [nullableQ, skipQ]) <;>
        (repeat (first | rfl | split)))
  | some m =>
    cases hs : c.o.deprecation <;> simp [hs] at hdep <;> simp [pure, Except.pure, Option.bind] <;>
      (by_cases hid : ft = "ID" <;> simp [hid, nullableQ, skipQ] <;> (cases quals <;> simp [nullableQ, skipQ]) <;>
        (repeat (first | rfl | split)))


theorem treeSels_cons {s : Schema} {o : Options} {x : Sel} {xs : List Sel} (h : treeSels s o (x :: xs) = true) :
    treeSel s o x = true ∧ treeSels s o xs = true := by
  simpa [treeSels] using h

theorem getField_of {s : Schema} {i : Nat} {x : StoredField} (h : s.fields[i]? = some x) : s.getField i = .ok x := by
  simp [Schema.getField, h, pure, Except.pure]
theorem getScalar_of {s : Schema} {i : Nat} {x : String} (h : s.scalars[i]? = some x) : s.getScalar i = .ok x := by
  simp [Schema.getScalar, h, pure, Except.pure]
theorem getEnum_of {s : Schema} {i : Nat} {x : StoredEnum} (h : s.enums[i]? = some x) : s.getEnum i = .ok x := by
  simp [Schema.getEnum, h, pure, Except.pure]

section Calc
variable (c : Ctx) (hn : c.o.normalization = .none)

def S1 (fuel : Nat) : Prop := ∀ name pfx i sels, treeSels c.s c.o sels = true → 2 * selsSize sels + 2 ≤ fuel →
  calcSelection c fuel name pfx (.object i) sels = .ok (structItems c name pfx sels)
def S4 (fuel : Nat) : Prop := ∀ pfx ty sels, treeSels c.s c.o sels = true → 2 * selsSize sels + 1 ≤ fuel →
  calcFields c fuel pfx ty sels = .ok (fieldsOf c pfx sels, itemsOfSels c pfx sels)

theorem stepS1 (f : Nat) (H4 : S4 c f) : S1 c (f + 1) := by
  intro name pfx i sels ht hf
  have hsp : ∀ g, sels = [Sel.spread g] → False := by
    intro g hg; subst hg; simp [treeSels, treeSel] at ht
  rw [calcSelection.eq_3 _ _ _ _ _ _ hsp]
  have hv : variantsOf c.s (.object i) = .ok none := rfl
  simp only [hv, bind, Except.bind, pure, Except.pure]
  rw [H4 pfx (.object i) sels ht (by omega)]
  simp [renderType, structItems]

include hn in
theorem stepS4 (f : Nat) (H1 : S1 c f) (H4 : S4 c f) : S4 c (f + 1) := by
  intro pfx ty sels ht hf
  cases sels with
  | nil => rw [calcFields.eq_2 _ _ _ _ (by omega)]; rfl
  | cons x rest =>
    obtain ⟨hx, hrest⟩ := treeSels_cons ht
    rw [selsSize.eq_2] at hf
    have hR := H4 pfx ty rest hrest (by have := C02.selSize_pos x; omega)
    cases x with
    | field a fid sub =>
      rw [selSize.eq_1] at hf
      rw [calcFields.eq_3]
      rw [treeSel] at hx
      cases hsf : c.s.fields[fid]? with
      | none => simp [hsf] at hx
      | some sf =>
        simp only [hsf, Bool.and_eq_true] at hx
        obtain ⟨⟨hw, hdep⟩, hty⟩ := hx
        have hdep' : (sf.deprecation.isSome && c.o.deprecation == .deny) = false := by
          cases hd : (sf.deprecation.isSome && c.o.deprecation == .deny) with
          | false => rfl
          | true => simp [hd] at hdep
        simp only [getField_of hsf, bind, Except.bind]
        cases hid : sf.ty.id with
        | scalar k =>
          simp only [hid, Bool.and_eq_true] at hty
          cases hk : c.s.scalars[k]? with
          | none => simp [hk] at hty
          | some sn =>
            simp only [getScalar_of hk, hn, C02.fieldType_none, renderField_tree c _ _ _ _ hw hdep', hR,
              pure, Except.pure]
            simp [fieldsOf, itemsOfSels, itemsOfSel, fieldOfSel, hsf, hid, leafName, hk]
        | enum k =>
          simp only [hid, Bool.and_eq_true] at hty
          cases hk : c.s.enums[k]? with
          | none => simp [hk] at hty
          | some en =>
            simp only [getEnum_of hk, hn, C02.fieldType_none, renderField_tree c _ _ _ _ hw hdep', hR,
              pure, Except.pure]
            simp [fieldsOf, itemsOfSels, itemsOfSel, fieldOfSel, hsf, hid, leafName, hk]
        | object i =>
          simp only [hid, Bool.and_eq_true] at hty
          have hS := H1 (pfx ++ c.cs.camel (a.getD sf.name)) (pfx ++ c.cs.camel (a.getD sf.name)) i sub hty.1.2 (by omega)
          simp only [renderField_tree c _ _ _ _ hw hdep', hS, hR, pure, Except.pure]
          simp [fieldsOf, itemsOfSels, itemsOfSel, fieldOfSel, hsf, hid, leafName, structItems]
        | interface k => simp [hid] at hty
        | union k => simp [hid] at hty
        | input k => simp [hid] at hty
    | spread g => simp [treeSel] at hx
    | inline t sub => simp [treeSel] at hx
    | typename =>
      rw [calcFields.eq_5 _ _ _ _ _ _ (by simp) (by simp), hR]
      have h1 : fieldOfSel c pfx .typename = none := rfl
      have h2 : itemsOfSel c pfx .typename = [] := by simp [itemsOfSel]
      simp [fieldsOf, itemsOfSels, h1, h2]

include hn in
theorem calc_tree : ∀ fuel, S1 c fuel ∧ S4 c fuel := by
  intro fuel
  induction fuel with
  | zero => exact ⟨fun _ _ _ _ _ h => by omega, fun _ _ _ _ h => by omega⟩
  | succ f ih => exact ⟨stepS1 c f ih.2, stepS4 c hn f ih.1 ih.2⟩

end Calc


theorem calcFuel_ge (c : Ctx) (op : ROperation) (hop : op ∈ c.q.operations) :
    2 * selsSize op.sels + 2 ≤ calcFuel c.s c.q := by
  have h1 : selsSize op.sels ≤ C02.totalSize c.q := by
    apply C02.le_foldl_add
    left
    simp only [List.mem_append, List.mem_map]
    exact .inr ⟨op, hop, rfl⟩
  rw [C02.calcFuel_eq, C02.walkFuel_eq]
  obtain ⟨K, hK⟩ : ∃ K, K = C02.totalSize c.q + c.s.objects.length + C02.maxUnion c.s + 4 := ⟨_, rfl⟩
  rw [← hK]
  have h2 : 2 ≤ (c.q.fragments.length + 1) * (C02.maxDepth c.q + 2) + 1 := by
    have : 1 * 2 ≤ (c.q.fragments.length + 1) * (C02.maxDepth c.q + 2) := Nat.mul_le_mul (by omega) (by omega)
    omega
  have h3 := Nat.mul_le_mul_right K h2
  omega

/-- **Theorem 1 (`tree_items_shape`).** For an operation of the class the response items are, in closed
    form: one struct per selection set (named by the path rule), one field per selected field. -/
theorem tree_items_shape (c : Ctx) (op : ROperation) (hop : op ∈ c.q.operations) (ht : TreeOp c op = true) :
    responseItems c op = .ok (structItems c "ResponseData" (c.cs.camel op.name) op.sels) := by
  simp only [TreeOp, Bool.and_eq_true, beq_iff_eq] at ht
  obtain ⟨⟨⟨hn, _⟩, hsels⟩, _⟩ := ht
  exact (calc_tree c hn _).1 _ _ _ _ hsels (calcFuel_ge c op hop)

end E2E
end C01
end GqlVerif
