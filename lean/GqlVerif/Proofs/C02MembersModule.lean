import GqlVerif.Proofs.C02Members
import GqlVerif.Props.C10
/-!
# C02 — member distinctness as a decidable predicate on the query (`MembersOK`)

`C02.module_well_scoped_iff` (`Proofs/C02Response.lean`): under the supported-subset hypotheses the emitted module
is well scoped IFF `NoClash` ∧ "no emitted item has two members of one identifier" — the second conjunct stated on
the OUTPUT.  Here it is reduced to the INPUT:

* `moduleMembers c u o op` — the member-identifier lists of all items of the module (one entry per item, in
  emission order), computed from the schema, the resolved query, the options and the case functions:
  nothing for aliases; per enum the `enumVariantIdent`s plus `Other`; per input object `keywordReplace (snake f)`
  (`keywordReplace (camel f)` for `@oneOf`); the `Variables` struct and the `default_*` functions; per fragment and
  for the operation `C02M.selectionMembers` (`Proofs/C02Members.lean`);
* `module_members_eq` — `items.map C02.memberIdents = moduleMembers …` whenever `responseForQuery` succeeds
  (list equality, no hypothesis);
* `MembersOK c op : Bool` — every list of `moduleMembers` is duplicate-free;
* `members_iff` — `responseForQuery c op = .ok items → ((∀ it ∈ items, (memberIdents it).Nodup) ↔ MembersOK c op)`
  (no hypothesis);
* `module_well_scoped_iff_inputs` — `wellScoped ↔ NoClash ∧ MembersOK` (hypotheses of `module_well_scoped_iff`);
* `membersOK_iff` — `MembersOK` spelled out part by part; the `Other` variant never clashes
  (`enumMemberIdents_nodup_iff`);
* witnesses: each open C02 finding about members is a failure of `MembersOK` alone (`NoClash` holds, all mentions
  are resolved, `Scope.report` shows exactly the duplicate member).
-/
namespace GqlVerif
namespace C02M
open Codegen C02

/-! ## 1. the member lists of the non-response items -/

/-- variants of the enum generated for `e`: one per schema value, plus the catch-all -/
def enumMemberIdents (c : Ctx) (e : StoredEnum) : List String :=
  e.variants.map (enumVariantIdent c.o.normalization c.cs) ++ ["Other"]

/-- the used enums that are not extern, in id order (as `C02.enumNames`) -/
def enumMembers (c : Ctx) (u : UsedTypes) : List (List String) :=
  (((sortNat (u.types.filterMap TypeId.asEnum?)).filterMap (fun k => c.s.enums[k]?)).filter
    (fun e => !c.o.externEnums.contains e.name)).map (enumMemberIdents c)

/-- members of the struct (variants of the `@oneOf` enum) generated for an input object -/
def inputMemberIdents (c : Ctx) (i : StoredInput) : List String :=
  if i.isOneOf then i.fields.map (fun p => keywordReplace (c.cs.camel p.1))
  else i.fields.map (fun p => keywordReplace (c.cs.snake p.1))

/-- the used input types, in id order (as `C02.inputNames`) -/
def inputMembers (c : Ctx) (u : UsedTypes) : List (List String) :=
  (c.s.inputs.zipIdx.filter (fun (x : StoredInput × Nat) => u.types.contains (.input x.2))).map
    (fun x => inputMemberIdents c x.1)

/-- the `Variables` struct (unit struct when nothing is declared) and the `default_*` functions -/
def variablesMembers (c : Ctx) (op : Nat) : List (List String) :=
  if (c.q.opVariables op).isEmpty then [[]] else
  [(c.q.opVariables op).map (fun v => keywordReplace (c.cs.snake v.name)),
   ((c.q.opVariables op).filter (·.default.isSome)).map (fun v => "default_" ++ v.name)]

/-- the items of a used fragment -/
def fragmentMembers (c : Ctx) (g : Nat) : List (List String) :=
  match c.q.fragments[g]? with
  | some fr => selectionMembers c fr.on fr.sels
  | none => []

/-- **the member-identifier list of every item of the emitted module**, in emission order: the four built-in
    aliases and the scalar aliases (no members), the enums, the input types, `Variables` and `default_*`, the
    fragment items, the response items -/
def moduleMembers (c : Ctx) (u : UsedTypes) (o : ROperation) (op : Nat) : List (List String) :=
  List.replicate 4 [] ++ List.replicate (scalarNames c u).length [] ++ enumMembers c u ++ inputMembers c u ++
  variablesMembers c op ++ (sortNat u.fragments).flatMap (fragmentMembers c) ++
  selectionMembers c (.object o.objectId) o.sels

/-- **the decidable member check on the input**: no list of `moduleMembers` has a repeated identifier -/
def MembersOK (c : Ctx) (op : Nat) : Bool :=
  match allUsedTypes c.s c.q op, c.q.operations[op]? with
  | .ok u, some o => (moduleMembers c u o op).all (fun l => decide l.Nodup)
  | _, _ => true

/-! ## 2. the non-response items -/

theorem map_const_of_forall {α β : Type} {f : α → β} {b : β} : ∀ {l : List α}, (∀ a ∈ l, f a = b) →
    l.map f = List.replicate l.length b
  | [], _ => rfl
  | a :: l, h => by
    rw [List.map_cons, h a List.mem_cons_self, map_const_of_forall (fun x hx => h x (List.mem_cons_of_mem _ hx))]
    rfl

theorem scalarItems_members {c : Ctx} {u : UsedTypes} {S : List Item} (h : scalarItems c u = .ok S) :
    S.map memberIdents = List.replicate (scalarNames c u).length [] := by
  have hlen : S.length = (scalarNames c u).length := by
    rw [← scalarItems_names h, defines_eq_map_name (scalarItems_itemDefines h), List.length_map]
  rw [← hlen]
  apply map_const_of_forall
  unfold scalarItems at h
  obtain ⟨ns, _, h⟩ := bind_ok h
  simp only [pure, Except.pure, Except.ok.injEq] at h
  subst h
  intro it hit
  simp only [List.mem_map] at hit
  obtain ⟨n, _, rfl⟩ := hit
  rfl

theorem enumItems_members {c : Ctx} {u : UsedTypes} {E : List Item} (h : enumItems c u = .ok E) :
    E.map memberIdents = enumMembers c u := by
  unfold enumItems at h
  obtain ⟨es, hes, h⟩ := bind_ok h
  simp only [pure, Except.pure, Except.ok.injEq] at h
  subst h
  rw [mapM_eq_filterMap (g := fun k => c.s.enums[k]?) (fun a b hb => getEnum_ok hb) hes]
  simp only [enumMembers, List.map_map]
  rfl

theorem inputItem_members {c : Ctx} {i : StoredInput} {it : Item} (h : inputItem c i = .ok it) :
    memberIdents it = inputMemberIdents c i := by
  unfold inputItem at h
  unfold inputMemberIdents
  split at h
  · rename_i ho
    obtain ⟨vs, hvs, h⟩ := bind_ok h
    simp only [pure, Except.pure, Except.ok.injEq] at h
    subst h
    rw [if_pos ho]
    refine Composed.mapM_map_of _ _ _ ?_ _ _ hvs
    rintro ⟨fname, ty⟩ b hb
    obtain ⟨t, _, hb⟩ := bind_ok hb
    simp only [pure, Except.pure, Except.ok.injEq] at hb
    subst hb
    rfl
  · rename_i ho
    obtain ⟨fs, hfs, h⟩ := bind_ok h
    simp only [pure, Except.pure, Except.ok.injEq] at h
    subst h
    rw [if_neg ho]
    refine Composed.mapM_map_of _ _ _ ?_ _ _ hfs
    rintro ⟨fname, ty⟩ b hb
    obtain ⟨t, _, hb⟩ := bind_ok hb
    simp only [pure, Except.pure, Except.ok.injEq] at hb
    subst hb
    rfl

theorem inputItems_members {c : Ctx} {u : UsedTypes} {I : List Item} (h : inputItems c u = .ok I) :
    I.map memberIdents = inputMembers c u := by
  unfold inputItems at h
  exact mapM_map_eq (g := fun (x : StoredInput × Nat) => inputMemberIdents c x.1)
    (fun a b hb => inputItem_members hb) h

theorem variablesItems_members {c : Ctx} {op : Nat} {V : List Item} (h : variablesItems c op = .ok V) :
    V.map memberIdents = variablesMembers c op := by
  have h0 := h
  unfold variablesItems at h
  unfold variablesMembers
  simp only [] at h
  split at h
  · rename_i hemp
    simp only [pure, Except.pure, Except.ok.injEq] at h
    subst h
    rw [if_pos hemp]
    rfl
  · rename_i hemp
    obtain ⟨fs, hfs, h⟩ := bind_ok h
    obtain ⟨dfl, _, h⟩ := bind_ok h
    simp only [pure, Except.pure, Except.ok.injEq] at h
    subst h
    rw [if_neg hemp]
    have hd := Composed.variablesItems_default_names c op _ dfl [] h0
    have hf : fs.map (·.rust) = (c.q.opVariables op).map (fun v => keywordReplace (c.cs.snake v.name)) := by
      refine Composed.mapM_map_of _ _ _ ?_ _ _ hfs
      intro v b hb
      obtain ⟨t, _, hb⟩ := bind_ok hb
      simp only [pure, Except.pure, Except.ok.injEq] at hb
      subst hb
      rfl
    simp only [List.map_cons, List.map_nil, memberIdents, hf, hd]

theorem fragmentItems_members {c : Ctx} {g : Nat} {its : List Item} (h : fragmentItems c g = .ok its) :
    its.map memberIdents = fragmentMembers c g := by
  obtain ⟨fr, hfr, hcalc⟩ := fragmentItems_ok h
  simp only [fragmentMembers, hfr]
  exact (calc_members _).1 _ _ _ _ _ hcalc

theorem mapM_members_flatten {ε α : Type} {f : α → Except ε (List Item)} {n : α → List (List String)}
    (hfn : ∀ a its, f a = .ok its → its.map memberIdents = n a) :
    ∀ {l : List α} {F : List (List Item)}, l.mapM f = .ok F → F.flatten.map memberIdents = l.flatMap n
  | [], F, h => by
    simp only [List.mapM_nil, pure, Except.pure, Except.ok.injEq] at h
    subst h; rfl
  | a :: l, F, h => by
    rw [List.mapM_cons] at h
    obtain ⟨b, hb, h⟩ := bind_ok h
    obtain ⟨r', hr', h⟩ := bind_ok h
    simp only [pure, Except.pure, Except.ok.injEq] at h
    subst h
    rw [List.flatten_cons, List.map_append, hfn a b hb, mapM_members_flatten hfn hr', List.flatMap_cons]

/-! ## 3. the module -/

/-- **the member identifiers of every item of the emitted module** are exactly `moduleMembers` (one list per
    item, same order); no hypothesis -/
theorem module_members_eq (c : Ctx) (op : Nat) (items : List Item) (h : responseForQuery c op = .ok items) :
    ∃ u o, allUsedTypes c.s c.q op = .ok u ∧ c.q.operations[op]? = some o ∧
      items.map memberIdents = moduleMembers c u o op := by
  obtain ⟨u, S, E, F, I, V, o, R, hu, hS, hE, hF, hI, hV, ho, hR, rfl⟩ := responseForQuery_ok_full h
  refine ⟨u, o, hu, ho, ?_⟩
  unfold responseItems at hR
  simp only [List.map_append, moduleMembers]
  rw [scalarItems_members hS, enumItems_members hE, inputItems_members hI, variablesItems_members hV,
    mapM_members_flatten (fun a its ha => fragmentItems_members ha) hF, (calc_members _).1 _ _ _ _ _ hR]
  rfl

/-- **member distinctness, as a predicate on the query**: whenever `responseForQuery` succeeds, no emitted item has
    two members of one identifier exactly when the decidable `MembersOK` holds of the schema, the resolved query,
    the options and the case functions; no hypothesis -/
theorem members_iff (c : Ctx) (op : Nat) (items : List Item) (h : responseForQuery c op = .ok items) :
    (∀ it ∈ items, (memberIdents it).Nodup) ↔ MembersOK c op = true := by
  obtain ⟨u, o, hu, ho, hm⟩ := module_members_eq c op items h
  unfold MembersOK
  simp only [hu, ho, List.all_eq_true, decide_eq_true_eq]
  rw [← hm]
  simp only [List.mem_map, forall_exists_index, and_imp, forall_apply_eq_imp_iff₂]

/-- soundness of the input-side check, on its own -/
theorem members_nodup (c : Ctx) (op : Nat) (items : List Item) (h : responseForQuery c op = .ok items)
    (hok : MembersOK c op = true) : ∀ it ∈ items, (memberIdents it).Nodup :=
  (members_iff c op items h).mpr hok

/-- **`Scope.wellScoped` on the emitted module, characterised on the input.**  Under the hypotheses of
    `C02.module_well_scoped_iff`, the executable scope check holds for the module `responseForQuery` emits **iff**
    the two decidable predicates on schema + query + options + case functions hold: `NoClash` (no type name defined
    twice) and `MembersOK` (no item with two members of one identifier). -/
theorem module_well_scoped_iff_inputs (c : Ctx) (op : Nat) (items : List Item)
    (hnorm : c.o.normalization = .none)
    (hkwI : ∀ i ∈ c.s.inputs, keywordReplace i.name = i.name)
    (hkwS : ∀ n ∈ c.s.scalars, keywordReplace n = n)
    (hkwE : ∀ e ∈ c.s.enums, keywordReplace e.name = e.name)
    (hwf : OutputOnly c.s c.q = true) (hrel : InputFieldsRelevant c.s = true)
    (hvars : ∀ v ∈ c.q.opVariables op, Relevant v.ty.id)
    (h : responseForQuery c op = .ok items) :
    Scope.wellScoped items (moduleSupplied c) = true ↔ NoClash c op = true ∧ MembersOK c op = true := by
  rw [module_well_scoped_iff c op items hnorm hkwI hkwS hkwE hwf hrel hvars h, members_iff c op items h]

/-- the third component of `Scope.report` is empty exactly when `MembersOK` holds; no hypothesis -/
theorem duplicateMembers_nil_iff (c : Ctx) (op : Nat) (items : List Item) (supplied : List String)
    (h : responseForQuery c op = .ok items) :
    (Scope.report items supplied).duplicateMembers = [] ↔ MembersOK c op = true := by
  rw [← members_iff c op items h]
  unfold Scope.report
  simp only []
  rw [flatMap_eq_nil]
  exact ⟨fun hh it hit => (itemMemberDups_nil_iff it).1 (hh it hit),
    fun hh it hit => (itemMemberDups_nil_iff it).2 (hh it hit)⟩

/-! ## 4. `MembersOK`, part by part -/

/-- the catch-all `Other` never clashes: the variants of a generated enum are distinct iff the schema values'
    identifiers are (`C10.ident_ne_other`) -/
theorem enumMemberIdents_nodup_iff (c : Ctx) (e : StoredEnum) :
    (enumMemberIdents c e).Nodup ↔ (e.variants.map (enumVariantIdent c.o.normalization c.cs)).Nodup := by
  unfold enumMemberIdents
  rw [List.nodup_append]
  constructor
  · exact fun h => h.1
  · intro hi
    refine ⟨hi, by simp, ?_⟩
    intro a ha b hb
    simp only [List.mem_singleton] at hb
    subst hb
    obtain ⟨v, -, rfl⟩ := List.mem_map.mp ha
    exact C10.ident_ne_other _ _ v

/-- `MembersOK` spelled out: the enums, the input types, `Variables` / `default_*`, every used fragment and the
    operation each pass their own check -/
theorem membersOK_iff (c : Ctx) (op : Nat) (u : UsedTypes) (o : ROperation)
    (hu : allUsedTypes c.s c.q op = .ok u) (ho : c.q.operations[op]? = some o) :
    MembersOK c op = true ↔
      (∀ l ∈ enumMembers c u, l.Nodup) ∧ (∀ l ∈ inputMembers c u, l.Nodup) ∧
      (∀ l ∈ variablesMembers c op, l.Nodup) ∧
      (∀ g ∈ sortNat u.fragments, ∀ l ∈ fragmentMembers c g, l.Nodup) ∧
      (∀ l ∈ selectionMembers c (.object o.objectId) o.sels, l.Nodup) := by
  unfold MembersOK
  simp only [hu, ho, List.all_eq_true, decide_eq_true_eq, moduleMembers, List.mem_append, List.mem_flatMap,
    List.mem_replicate]
  constructor
  · intro h
    refine ⟨fun l hl => h l ?_, fun l hl => h l ?_, fun l hl => h l ?_, fun g hg l hl => h l ?_, fun l hl => h l ?_⟩
    · exact .inl (.inl (.inl (.inl (.inr hl))))
    · exact .inl (.inl (.inl (.inr hl)))
    · exact .inl (.inl (.inr hl))
    · exact .inl (.inr ⟨g, hg, hl⟩)
    · exact .inr hl
  · rintro ⟨h1, h2, h3, h4, h5⟩ l hl
    rcases hl with (((((hl | hl) | hl) | hl) | hl) | ⟨g, hg, hl⟩) | hl
    · rw [hl.2]; exact List.nodup_nil
    · rw [hl.2]; exact List.nodup_nil
    · exact h1 l hl
    · exact h2 l hl
    · exact h3 l hl
    · exact h4 g hg l hl
    · exact h5 l hl

/-! ## 5. non-vacuity and the open findings about members -/

/-- the rich sample of `Proofs/C02Response.lean` (interface, union, nested objects, fragments spread as fields, as a
    lone selection and inside inline fragments, extern enum, custom scalar, deprecated field, input-typed variable)
    passes both input-side checks, and the member lists `moduleMembers` computes for it -/
example : MembersOK richCtx 0 = true ∧ NoClash richCtx 0 = true := by
  constructor <;> decide +kernel

example : (allUsedTypes richCtx.s richCtx.q 0).toOption.map (fun u => moduleMembers richCtx u richQuery.operations[0] 0) =
    (responseForQuery richCtx 0).toOption.map (fun items => items.map memberIdents) := by
  decide +kernel

/-- the member lists of the rich sample, as `moduleMembers` computes them from schema and query: 5 aliases, enum
    `Kind`, input `In`, `Variables`, the (empty) `default_*` block, `DogF`, `DogFowner`, `AnimalF` / `AnimalFOn`,
    the alias `AnimalFOnDog`, `QF`, `ResponseData`, `Qanimal` / `QanimalOn`, `QanimalOnDog` (both selections on `Dog`
    contribute: the inline fragment's fields, then the flattened `DogF`), … -/
example : (allUsedTypes richCtx.s richCtx.q 0).toOption.map (fun u => moduleMembers richCtx u richQuery.operations[0] 0) =
    some [[], [], [], [], [], ["A", "B", "Other"], ["k", "d"], ["v"], [], ["barks", "owner"], ["id"], ["name", "on"],
      ["Dog", "Cat"], [], ["kind"], ["animal", "pets", "animal2", "kind", "when", "ext", "QF"], ["name", "on"],
      ["Dog", "Cat"], ["barks", "owner", "DogF"], ["id"], [], ["Dog", "Cat"], [], ["name"], []] := by
  decide +kernel

/-- the same sample under `deny` (the deprecated field `when` is dropped) -/
example : MembersOK { richCtx with o := { richCtx.o with deprecation := .deny } } 0 = true := by
  decide +kernel

/-- `type Query { fooBar: Int  foo_bar: Int }`, `query Q { fooBar foo_bar }`; heck's snake case sends `fooBar`
    to `foo_bar` -/
def snakeCtx : Ctx :=
  { s := { objects := [{ name := "Query", fields := [0, 1], implements := [] }],
           fields := [{ name := "fooBar", ty := { id := .scalar 2, quals := [] }, parent := .object 0, deprecation := none },
                      { name := "foo_bar", ty := { id := .scalar 2, quals := [] }, parent := .object 0, deprecation := none }],
           scalars := Schema.defaultScalars },
    q := { operations := [{ name := "Q", kind := .query, objectId := 0, sels := [.field none 0 [], .field none 1 []] }] },
    o := {}, cs := ⟨fun s => if s = "fooBar" then "foo_bar" else s, id⟩ }

/-- **known finding `fooBar` / `foo_bar`** (sibling fields that coincide after snake-casing): `MembersOK` fails,
    `NoClash` holds, nothing else is wrong with the module -/
theorem snake_collision_witness :
    MembersOK snakeCtx 0 = false ∧ NoClash snakeCtx 0 = true ∧
    (responseForQuery snakeCtx 0).toOption.map (fun items => Scope.report items (moduleSupplied snakeCtx))
      = some { undefined := [], duplicateDefs := [], duplicateMembers := ["foo_bar"], serdeless := [] } := by
  refine ⟨?_, ?_, ?_⟩ <;> decide +kernel

/-- **known finding: a field called `on` next to variants** (`C02.onCtx`: `query Q { i { on ... on O { on } } }`):
    `MembersOK` fails, `NoClash` holds -/
theorem on_witness : MembersOK onCtx 0 = false ∧ NoClash onCtx 0 = true := by
  constructor <;> decide +kernel

/-- the flattened `on` member is there as soon as the type has possible types, selected or not: `query Q { i { on } }`
    fails the check as well; with an alias on the field (`query Q { i { on2: on ... on O { on } } }`) it passes -/
example : MembersOK { onCtx with q := { operations := [{ name := "Q", kind := .query, objectId := 0, sels := [.field none 0 [.field none 1 []]] }] } } 0 = false ∧
    MembersOK { onCtx with q := { operations := [{ name := "Q", kind := .query, objectId := 0, sels := [.field none 0 [.field (some "on2") 1 [], .inline (.object 1) [.field none 1 []]]] }] } } 0 = true := by
  constructor <;> decide +kernel

/-- `enum E { FOO foo }  type Query { e: E }`, `query Q { e }`, `normalization = "rust"` (heck's camel case sends
    both values to `Foo`) -/
def enumCtx : Ctx :=
  { s := { objects := [{ name := "Query", fields := [0], implements := [] }],
           fields := [{ name := "e", ty := { id := .enum 0, quals := [] }, parent := .object 0, deprecation := none }],
           scalars := Schema.defaultScalars,
           enums := [{ name := "E", variants := ["FOO", "foo"] }] },
    q := { operations := [{ name := "Q", kind := .query, objectId := 0, sels := [.field none 0 []] }] },
    o := { normalization := .rust },
    cs := ⟨id, fun s => if s = "FOO" then "Foo" else if s = "foo" then "Foo" else s⟩ }

/-- **known finding: two enum values equal after normalization**: `MembersOK` fails, `NoClash` holds; without the
    normalization the same schema passes -/
theorem enum_collision_witness :
    MembersOK enumCtx 0 = false ∧ NoClash enumCtx 0 = true ∧
    MembersOK { enumCtx with o := {} } 0 = true ∧
    (responseForQuery enumCtx 0).toOption.map (fun items => Scope.report items (moduleSupplied enumCtx))
      = some { undefined := [], duplicateDefs := [], duplicateMembers := ["Foo"], serdeless := [] } := by
  refine ⟨?_, ?_, ?_, ?_⟩ <;> decide +kernel

/-- `interface I { x: String }  type O implements I { x: String }  type Query { i: I }`,
    `query Q { i { ... on O { x } ... on O { x } } }` -/
def twoInlineCtx : Ctx :=
  { s := { objects := [{ name := "Query", fields := [0], implements := [] }, { name := "O", fields := [1], implements := [0] }],
           fields := [{ name := "i", ty := { id := .interface 0, quals := [] }, parent := .object 0, deprecation := none },
                      { name := "x", ty := { id := .scalar 1, quals := [] }, parent := .interface 0, deprecation := none }],
           interfaces := [{ name := "I", fields := [1] }],
           scalars := Schema.defaultScalars },
    q := { operations := [{ name := "Q", kind := .query, objectId := 0,
                            sels := [.field none 0 [.inline (.object 1) [.field none 1 []],
                                                    .inline (.object 1) [.field none 1 []]]] }] },
    o := {}, cs := ⟨id, id⟩ }

/-- **known finding: two inline fragments on one type sharing a key** (after fix 78c01b5 every selection on a
    variant contributes to the variant struct): `MembersOK` fails, `NoClash` holds; with an alias on the second
    occurrence the check passes -/
theorem two_inline_witness :
    MembersOK twoInlineCtx 0 = false ∧ NoClash twoInlineCtx 0 = true ∧
    (responseForQuery twoInlineCtx 0).toOption.map (fun items => Scope.report items (moduleSupplied twoInlineCtx))
      = some { undefined := [], duplicateDefs := [], duplicateMembers := ["x"], serdeless := [] } ∧
    MembersOK { twoInlineCtx with q := { operations := [{ name := "Q", kind := .query, objectId := 0, sels := [.field none 0 [.inline (.object 1) [.field none 1 []], .inline (.object 1) [.field (some "y") 1 []]]] }] } } 0 = true := by
  refine ⟨?_, ?_, ?_, ?_⟩ <;> decide +kernel

/-- `type Query { f: String }`, `fragment f on Query { __typename f2: f }`, `query Q { f ...f }` -/
def fragFieldCtx : Ctx :=
  { s := { objects := [{ name := "Query", fields := [0], implements := [] }],
           fields := [{ name := "f", ty := { id := .scalar 1, quals := [] }, parent := .object 0, deprecation := none }],
           scalars := Schema.defaultScalars },
    q := { fragments := [{ name := "f", on := .object 0, sels := [.typename, .field (some "f2") 0 []] }],
           operations := [{ name := "Q", kind := .query, objectId := 0, sels := [.field none 0 [], .spread 0] }] },
    o := {}, cs := ⟨id, id⟩ }

/-- further failure of the same predicate (not among the listed findings): the flattened member of a spread
    fragment is named `snake(F)`, which may coincide with a selected field -/
theorem fragment_field_witness :
    MembersOK fragFieldCtx 0 = false ∧ NoClash fragFieldCtx 0 = true ∧
    (responseForQuery fragFieldCtx 0).toOption.map (fun items => Scope.report items (moduleSupplied fragFieldCtx))
      = some { undefined := [], duplicateDefs := [], duplicateMembers := ["f"], serdeless := [] } := by
  refine ⟨?_, ?_, ?_⟩ <;> decide +kernel

/-- `type A { x: String }  type Unknown { x: String }  union U = A | Unknown  type Query { u: U }`,
    `query Q { u { __typename } }`, `fragments_other_variant` -/
def unknownCtx : Ctx :=
  { s := { objects := [{ name := "Query", fields := [0], implements := [] }, { name := "A", fields := [1], implements := [] },
                       { name := "Unknown", fields := [1], implements := [] }],
           fields := [{ name := "u", ty := { id := .union 0, quals := [] }, parent := .object 0, deprecation := none },
                      { name := "x", ty := { id := .scalar 1, quals := [] }, parent := .object 1, deprecation := none }],
           unions := [{ name := "U", variants := [.object 1, .object 2] }],
           scalars := Schema.defaultScalars },
    q := { operations := [{ name := "Q", kind := .query, objectId := 0, sels := [.field none 0 [.typename]] }] },
    o := { otherVariant := true }, cs := ⟨id, id⟩ }

/-- further failure of the same predicate (not among the listed findings): under `fragments_other_variant` the
    catch-all variant `Unknown` is not escaped against a possible type of that name -/
theorem unknown_variant_witness :
    MembersOK unknownCtx 0 = false ∧ NoClash unknownCtx 0 = true ∧
    MembersOK { unknownCtx with o := {} } 0 = true ∧
    (responseForQuery unknownCtx 0).toOption.map (fun items => Scope.report items (moduleSupplied unknownCtx))
      = some { undefined := [], duplicateDefs := [], duplicateMembers := ["Unknown"], serdeless := [] } := by
  refine ⟨?_, ?_, ?_, ?_⟩ <;> decide +kernel

end C02M
end GqlVerif
