import GqlVerif.Proofs.C01NestedJ
/-!
# C01 end to end (`NestedOp`): a generated module with a fragment whose own body spreads a fragment

`fragment Inner on Dog { barks }  fragment Outer on Dog { name ...Inner }  fragment AnimalName on Animal { __typename name }`
`query Q { dog { ...Outer } animal { __typename ...AnimalName } }` (`nxDog`: `Qdog` is the type alias of `Outer`), and
`query Q { dog { __typename ...Outer } animal { … } }` (`nx2Dog`: `Qdog` is a struct whose flattened member `Outer` has a
flattened member itself).  Both are in `NestedOp` (and in `NestedOp1`), not in `MixedOp` / `MixedOp2`.
-/
set_option linter.unusedSimpArgs false
set_option linter.unusedVariables false
set_option linter.unusedTactic false

namespace GqlVerif
namespace C01N
open Serde Spec C13 C03 Codegen C01 C01.E2E C01M

def nxOp (dog animal : List Sel) : ROperation :=
  { name := "Q", kind := .query, objectId := 0, sels := [.field none 0 dog, .field none 1 animal] }

def nxQuery (dog animal : List Sel) : Query :=
  { operations := [nxOp dog animal]
    fragments := [{ name := "Inner", on := .object 1, sels := [.field none 3 []] },
                  { name := "Outer", on := .object 1, sels := [.field none 2 [], .spread 0] },
                  { name := "AnimalName", on := .interface 0, sels := [.typename, .field none 2 []] }] }

def nxCtx (dog animal : List Sel) : Ctx := { s := mxSchema, q := nxQuery dog animal, o := {}, cs := ⟨id, id⟩ }

/-- `dog { ...Outer }` -/
def nxDog : List Sel := [.spread 1]
/-- `dog { __typename ...Outer }` -/
def nx2Dog : List Sel := [.typename, .spread 1]
/-- `animal { __typename ...AnimalName }` -/
def nxAnimal : List Sel := [.typename, .spread 2]

def nxItems : List Item := okOr (responseForQuery (nxCtx nxDog nxAnimal) 0)
def nx2Items : List Item := okOr (responseForQuery (nxCtx nx2Dog nxAnimal) 0)

theorem nx_gen : responseForQuery (nxCtx nxDog nxAnimal) 0 = .ok nxItems := gen_of_isOk (by decide +kernel)
theorem nx2_gen : responseForQuery (nxCtx nx2Dog nxAnimal) 0 = .ok nx2Items := gen_of_isOk (by decide +kernel)

theorem nx_class : NestedOp (nxCtx nxDog nxAnimal) (nxOp nxDog nxAnimal) = true := by decide +kernel
theorem nx2_class : NestedOp (nxCtx nx2Dog nxAnimal) (nxOp nx2Dog nxAnimal) = true := by decide +kernel
theorem nx_class1 : NestedOp1 (nxCtx nxDog nxAnimal) (nxOp nxDog nxAnimal) = true := by decide +kernel
/-- the operations are not in `MixedOp` … -/
theorem nx_not_M : MixedOp (nxCtx nxDog nxAnimal) (nxOp nxDog nxAnimal) = false := by decide +kernel
theorem nx2_not_M : MixedOp (nxCtx nx2Dog nxAnimal) (nxOp nx2Dog nxAnimal) = false := by decide +kernel
/-- … nor in `MixedOp2` -/
theorem nx_not_M2 : MixedOp2 (nxCtx nxDog nxAnimal) (nxOp nxDog nxAnimal) = false := by decide +kernel
theorem nx2_not_M2 : MixedOp2 (nxCtx nx2Dog nxAnimal) (nxOp nx2Dog nxAnimal) = false := by decide +kernel

theorem nx_names : fragNamesOk (nxCtx nxDog nxAnimal) = true := by decide +kernel
theorem nx2_names : fragNamesOk (nxCtx nx2Dog nxAnimal) = true := by decide +kernel
theorem nx_keys : nestedKeysOk (nxCtx nxDog nxAnimal) (nxOp nxDog nxAnimal) = true := by decide +kernel
theorem nx2_keys : nestedKeysOk (nxCtx nx2Dog nxAnimal) (nxOp nx2Dog nxAnimal) = true := by decide +kernel
theorem nx_acyclic : AcyclicM.spreadCheck (nxCtx nxDog nxAnimal).q = true := by decide +kernel
theorem nx2_acyclic : AcyclicM.spreadCheck (nxCtx nx2Dog nxAnimal).q = true := by decide +kernel
theorem nx_ok : moduleOk (nxCtx nxDog nxAnimal) nxItems = true := by decide +kernel
theorem nx2_ok : moduleOk (nxCtx nx2Dog nxAnimal) nx2Items = true := by decide +kernel

/-- the emitted types: `Outer` is a struct with the own field `name` and the flattened member `Inner`; `Qdog` is a struct
    with the flattened member `Outer` (a flattened member with a flattened member) -/
theorem nx2_items_shape :
    ((moduleEnv (nxCtx nx2Dog nxAnimal) nx2Items).find "Outer" ==
      some (.struct "Outer" ["Deserialize"] (some "::serde")
        [{ rust := "name", ty := .path "String" },
         { rust := "Inner", ty := .path "Inner", flatten := true }])) &&
    ((moduleEnv (nxCtx nx2Dog nxAnimal) nx2Items).find "Qdog" ==
      some (.struct "Qdog" ["Deserialize"] (some "::serde")
        [{ rust := "Outer", ty := .path "Outer", flatten := true }])) &&
    ((moduleEnv (nxCtx nxDog nxAnimal) nxItems).find "Qdog" == some (.alias "Qdog" true (.path "Outer"))) = true := by
  decide +kernel

/-- C03 on the modules: what `ResponseData` accepts, exactly -/
theorem nx_precise (j : Json) :
    okB (Serde.de (moduleEnv (nxCtx nxDog nxAnimal) nxItems) (.path "ResponseData") j) =
      conformsLooseN (wholeN (nxCtx nxDog nxAnimal) 3) mxSchema (nxQuery nxDog nxAnimal) {} false
        (nxOp nxDog nxAnimal).sels j :=
  nested_precise_iff (nxCtx nxDog nxAnimal) 0 (nxOp nxDog nxAnimal) nxItems rfl nx_class nx_names nx_keys nx_gen nx_ok j

theorem nx2_precise (j : Json) :
    okB (Serde.de (moduleEnv (nxCtx nx2Dog nxAnimal) nx2Items) (.path "ResponseData") j) =
      conformsLooseN (wholeN (nxCtx nx2Dog nxAnimal) 3) mxSchema (nxQuery nx2Dog nxAnimal) {} false
        (nxOp nx2Dog nxAnimal).sels j :=
  nested_precise_iff (nxCtx nx2Dog nxAnimal) 0 (nxOp nx2Dog nxAnimal) nx2Items rfl nx2_class nx2_names nx2_keys
    nx2_gen nx2_ok j

def nxJson : Json :=
  .obj [("dog", .obj [("barks", .bool true), ("name", .str "Rex")]),
        ("animal", .obj [("__typename", .str "Cat"), ("name", .str "Tom")])]

def nx2Json : Json :=
  .obj [("dog", .obj [("__typename", .str "Dog"), ("barks", .bool true), ("name", .str "Rex")]),
        ("animal", .obj [("__typename", .str "Cat"), ("name", .str "Tom")])]

/-! ## a concrete round trip -/

theorem nx_rust : nestedRustOk (nxCtx nxDog nxAnimal) (nxOp nxDog nxAnimal) = true := by decide +kernel
theorem nx2_rust : nestedRustOk (nxCtx nx2Dog nxAnimal) (nxOp nx2Dog nxAnimal) = true := by decide +kernel

macro "confN_eval" : tactic => `(tactic|
  simp [conformsOpN, nxCtx, nxOp, nxQuery, expandSelsW, expandSelW, exN, expandSel, expandSels, conformsV, confSelsV,
    confSelV, keysSelsV, keysSelV,
    fragApplies, rtName, mxSchema, Json.lookup, accepts, acceptsNN, gtyOf, scalarOk, floatOk, stringOk, boolOk,
    Json.isNull, EnumSpec.nodup, List.range, List.range.loop, conformsAt, Schema.implementors, List.zipIdx])

set_option maxRecDepth 8000 in
theorem nx_conforms : conformsOpN (nxCtx nxDog nxAnimal) (nxOp nxDog nxAnimal) nxJson = true := by
  simp only [nxDog, nxAnimal, nxJson]; confN_eval
set_option maxRecDepth 8000 in
theorem nx2_conforms : conformsOpN (nxCtx nx2Dog nxAnimal) (nxOp nx2Dog nxAnimal) nx2Json = true := by
  simp only [nx2Dog, nxAnimal, nx2Json]; confN_eval

abbrev C1 : Ctx := nxCtx nxDog nxAnimal
abbrev C2 : Ctx := nxCtx nx2Dog nxAnimal

/-- `Outer` (fragment 1) is new at rank `1`: not spread-free, its body spreads the spread-free `Inner` -/
theorem nx_r2 : fragOkN C1.s C1.q C1.o 2 (fragOn C1.q 1) 1 = true := by decide +kernel
theorem nx_r1 : fragOkN C1.s C1.q C1.o 1 (fragOn C1.q 1) 1 = true := by decide +kernel
theorem nx_r0 : fragOkN C1.s C1.q C1.o 0 (fragOn C1.q 1) 1 = false := by decide +kernel
theorem nx2_r2 : fragOkN C2.s C2.q C2.o 2 (fragOn C2.q 1) 1 = true := by decide +kernel
theorem nx2_r1 : fragOkN C2.s C2.q C2.o 1 (fragOn C2.q 1) 1 = true := by decide +kernel
theorem nx2_r0 : fragOkN C2.s C2.q C2.o 0 (fragOn C2.q 1) 1 = false := by decide +kernel

theorem centN_zero (c : Ctx) : centN c 0 = fun g kvs => canonEntriesV c.s c.o.skipNone (fragSels c.q g) kvs := by
  funext g kvs; rw [centN]

/-- the entries `Outer` writes: its own entry `name`, then the entries of `Inner` -/
theorem nx_cent (kvs : List (String × Json)) :
    centN C1 3 1 kvs = canonEntriesN (fun g kvs => canonEntriesV C1.s C1.o.skipNone (fragSels C1.q g) kvs) C1.s C1.q
      C1.o.skipNone (fragSels C1.q 1) kvs := by
  rw [centN, if_pos nx_r2, centN, if_pos nx_r1, centN, if_neg (by rw [nx_r0]; simp), centN_zero]

theorem nx2_cent (kvs : List (String × Json)) :
    centN C2 3 1 kvs = canonEntriesN (fun g kvs => canonEntriesV C2.s C2.o.skipNone (fragSels C2.q g) kvs) C2.s C2.q
      C2.o.skipNone (fragSels C2.q 1) kvs := by
  rw [centN, if_pos nx2_r2, centN, if_pos nx2_r1, centN, if_neg (by rw [nx2_r0]; simp), centN_zero]

macro "canonN_eval" : tactic => `(tactic|
  simp [canonSelN, canonEntriesN, canonFieldN, cwhole, nxCtx,
    canonSelM, canonEntriesM, canonFieldM, canonSelV, canonSelD, canonEntriesD, canonFieldD, loneG, canonEntriesBD,
    canonVarD, onNamed, absEntries, absRest, hasStruct, isBSpread, isFieldSel, canonAbsV, canonEntriesV, canonFieldV,
    canonInlV, tagName, fragSels, nxOp, nxQuery, mxSchema, objName, rtName, fieldKeys, fieldKey, Json.lookup, canon, canonNN,
    gtyOf, Json.isNull, skipQ, normJson, normKvs, normList, Json.normObj, Json.insert])

set_option maxRecDepth 8000 in
theorem nx_canon_abs (cent : Nat → List (String × Json) → List (String × Json))
    (h : ∀ kvs, cent 1 kvs = canonEntriesN (fun g kvs => canonEntriesV C1.s C1.o.skipNone (fragSels C1.q g) kvs) C1.s C1.q
      C1.o.skipNone (fragSels C1.q 1) kvs) :
    normJson (canonSelN cent mxSchema (nxQuery nxDog nxAnimal) false (nxOp nxDog nxAnimal).sels nxJson) =
      .obj [("dog", .obj [("name", .str "Rex"), ("barks", .bool true)]),
            ("animal", .obj [("name", .str "Tom"), ("__typename", .str "Cat")])] := by
  simp only [nxDog, nxAnimal, nxJson, C1] at h ⊢
  simp only [canonSelN, canonEntriesN, canonFieldN, cwhole, nxOp, h]
  canonN_eval

set_option maxRecDepth 8000 in
theorem nx2_canon_abs (cent : Nat → List (String × Json) → List (String × Json))
    (h : ∀ kvs, cent 1 kvs = canonEntriesN (fun g kvs => canonEntriesV C2.s C2.o.skipNone (fragSels C2.q g) kvs) C2.s C2.q
      C2.o.skipNone (fragSels C2.q 1) kvs) :
    normJson (canonSelN cent mxSchema (nxQuery nx2Dog nxAnimal) false (nxOp nx2Dog nxAnimal).sels nx2Json) =
      .obj [("dog", .obj [("name", .str "Rex"), ("barks", .bool true)]),
            ("animal", .obj [("name", .str "Tom"), ("__typename", .str "Cat")])] := by
  simp only [nx2Dog, nxAnimal, nx2Json, C2] at h ⊢
  simp only [canonSelN, canonEntriesN, canonFieldN, cwhole, nxOp, h]
  canonN_eval

/-- **`nested_roundtrip` on the generated module** (`Qdog` the type alias of `Outer`): the payload is accepted and written
    back — the own entry `name` of `Outer` first, then the entry `barks` of the fragment `Inner` spread in its body -/
theorem nx_roundtrip :
    Serde.roundtrip (moduleEnv (nxCtx nxDog nxAnimal) nxItems) (.path "ResponseData") nxJson =
      .ok (.obj [("dog", .obj [("name", .str "Rex"), ("barks", .bool true)]),
                 ("animal", .obj [("name", .str "Tom"), ("__typename", .str "Cat")])]) := by
  rw [nested_roundtrip (nxCtx nxDog nxAnimal) 0 (nxOp nxDog nxAnimal) nxItems rfl nx_class nx_names nx_keys nx_rust
    nx_gen nx_ok nxJson nx_conforms]
  exact congrArg Except.ok (nx_canon_abs _ nx_cent)

/-- … and with `Qdog` a struct whose flattened member `Outer` has the flattened member `Inner` (`__typename` in the
    payload is not read at an object position, and not written back) -/
theorem nx2_roundtrip :
    Serde.roundtrip (moduleEnv (nxCtx nx2Dog nxAnimal) nx2Items) (.path "ResponseData") nx2Json =
      .ok (.obj [("dog", .obj [("name", .str "Rex"), ("barks", .bool true)]),
                 ("animal", .obj [("name", .str "Tom"), ("__typename", .str "Cat")])]) := by
  rw [nested_roundtrip (nxCtx nx2Dog nxAnimal) 0 (nxOp nx2Dog nxAnimal) nx2Items rfl nx2_class nx2_names nx2_keys nx2_rust
    nx2_gen nx2_ok nx2Json nx2_conforms]
  exact congrArg Except.ok (nx2_canon_abs _ nx2_cent)

theorem nx2_accepts :
    ∃ v, Serde.de (moduleEnv (nxCtx nx2Dog nxAnimal) nx2Items) (.path "ResponseData") nx2Json = .ok v :=
  nested_accepts (nxCtx nx2Dog nxAnimal) 0 (nxOp nx2Dog nxAnimal) nx2Items rfl nx2_class nx2_names nx2_keys
    nx2_gen nx2_ok nx2Json nx2_conforms

/-! ## the side conditions are needed -/

def kOpN : ROperation := { name := "Q", kind := .query, objectId := 0, sels := [.field none 0 [.spread 1]] }
/-- `fragment Inner on Dog { name }  fragment Outer on Dog { name ...Inner }  query Q { dog { ...Outer } }` -/
def kQueryN : Query :=
  { operations := [kOpN]
    fragments := [{ name := "Inner", on := .object 1, sels := [.field none 2 []] },
                  { name := "Outer", on := .object 1, sels := [.field none 2 [], .spread 0] }] }
def kCtxN : Ctx := { s := mxSchema, q := kQueryN, o := {}, cs := ⟨id, id⟩ }
def kItemsN : List Item := okOr (responseForQuery kCtxN 0)
def kJsonN : Json := .obj [("dog", .obj [("name", .str "Rex")])]

set_option maxRecDepth 8000 in
theorem kN_conforms : conformsOpN kCtxN kOpN kJsonN = true := by
  simp [conformsOpN, kCtxN, kOpN, kQueryN, kJsonN, expandSelsW, expandSelW, exN, expandSel, expandSels, conformsV, confSelsV,
    confSelV, keysSelsV, keysSelV,
    fragApplies, rtName, mxSchema, Json.lookup, accepts, acceptsNN, gtyOf, scalarOk, floatOk, stringOk, boolOk,
    Json.isNull, EnumSpec.nodup, List.range, List.range.loop, conformsAt, Schema.implementors, List.zipIdx]

/-- **`nestedKeysOk` is needed**: the fragment `Outer` and the fragment `Inner` spread in its body both select `name`; the
    operation is in `NestedOp`, every other hypothesis of `nested_accepts` holds, the response conforms — and is rejected
    (`missing field name`: the struct `Outer` took the entry, the flattened member `Inner` does not see it any more) -/
theorem nested_keys_needed :
    NestedOp kCtxN kOpN = true ∧ nestedKeysOk kCtxN kOpN = false ∧ fragNamesOk kCtxN = true ∧
    nestedRustOk kCtxN kOpN = true ∧ AcyclicM.spreadCheck kCtxN.q = true ∧
    responseForQuery kCtxN 0 = .ok kItemsN ∧ moduleOk kCtxN kItemsN = true ∧ conformsOpN kCtxN kOpN kJsonN = true ∧
    okB (Serde.de (moduleEnv kCtxN kItemsN) (.path "ResponseData") kJsonN) = false :=
  ⟨by decide +kernel, by decide +kernel, by decide +kernel, by decide +kernel, by decide +kernel,
   gen_of_isOk (by decide +kernel), by decide +kernel, kN_conforms, by decide +kernel⟩

def rOpN : ROperation := { name := "Q", kind := .query, objectId := 0, sels := [.field none 0 [.spread 1]] }
/-- `fragment Inner on Dog { barks }  fragment Outer on Dog { Inner: name ...Inner }  query Q { dog { ...Outer } }` -/
def rQueryN : Query :=
  { operations := [rOpN]
    fragments := [{ name := "Inner", on := .object 1, sels := [.field none 3 []] },
                  { name := "Outer", on := .object 1, sels := [.field (some "Inner") 2 [], .spread 0] }] }
def rCtxN : Ctx := { s := mxSchema, q := rQueryN, o := {}, cs := ⟨id, id⟩ }
def rItemsN : List Item := okOr (responseForQuery rCtxN 0)
def rJsonN : Json := .obj [("dog", .obj [("Inner", .str "Rex"), ("barks", .bool true)])]

set_option maxRecDepth 8000 in
theorem rN_conforms : conformsOpN rCtxN rOpN rJsonN = true := by
  simp [conformsOpN, rCtxN, rOpN, rQueryN, rJsonN, expandSelsW, expandSelW, exN, expandSel, expandSels, conformsV, confSelsV,
    confSelV, keysSelsV, keysSelV,
    fragApplies, rtName, mxSchema, Json.lookup, accepts, acceptsNN, gtyOf, scalarOk, floatOk, stringOk, boolOk,
    Json.isNull, EnumSpec.nodup, List.range, List.range.loop, conformsAt, Schema.implementors, List.zipIdx]

/-- **`nestedRustOk` is needed**: the own field of `Outer` with the alias `Inner` and the flattened member for `...Inner`
    get the same Rust name; every other hypothesis of `nested_roundtrip` holds, the response conforms — and the round trip
    fails (rustc would reject the struct) -/
theorem nested_rust_needed :
    NestedOp rCtxN rOpN = true ∧ nestedKeysOk rCtxN rOpN = true ∧ fragNamesOk rCtxN = true ∧
    nestedRustOk rCtxN rOpN = false ∧ AcyclicM.spreadCheck rCtxN.q = true ∧
    responseForQuery rCtxN 0 = .ok rItemsN ∧ moduleOk rCtxN rItemsN = true ∧ conformsOpN rCtxN rOpN rJsonN = true ∧
    okB (Serde.roundtrip (moduleEnv rCtxN rItemsN) (.path "ResponseData") rJsonN) = false :=
  ⟨by decide +kernel, by decide +kernel, by decide +kernel, by decide +kernel, by decide +kernel,
   gen_of_isOk (by decide +kernel), by decide +kernel, rN_conforms, by decide +kernel⟩

/-! ## two levels of nesting: `fragment Top on Dog { __typename ...Outer }`, `query Q { dog { ...Top } animal { __typename name } }`

in `NestedOp`, not in the one-level sub-class `NestedOp1` -/

def n3Op : ROperation :=
  { name := "Q", kind := .query, objectId := 0,
    sels := [.field none 0 [.spread 2], .field none 1 [.typename, .field none 2 []]] }
def n3Query : Query :=
  { operations := [n3Op]
    fragments := [{ name := "Inner", on := .object 1, sels := [.field none 3 []] },
                  { name := "Outer", on := .object 1, sels := [.field none 2 [], .spread 0] },
                  { name := "Top", on := .object 1, sels := [.typename, .spread 1] }] }
def n3Ctx : Ctx := { s := mxSchema, q := n3Query, o := {}, cs := ⟨id, id⟩ }
def n3Items : List Item := okOr (responseForQuery n3Ctx 0)
def n3Json : Json :=
  .obj [("dog", .obj [("__typename", .str "Dog"), ("barks", .bool true), ("name", .str "Rex")]),
        ("animal", .obj [("__typename", .str "Cat"), ("name", .str "Tom")])]

theorem n3_gen : responseForQuery n3Ctx 0 = .ok n3Items := gen_of_isOk (by decide +kernel)
theorem n3_class : NestedOp n3Ctx n3Op = true := by decide +kernel
theorem n3_not_1 : NestedOp1 n3Ctx n3Op = false := by decide +kernel
theorem n3_names : fragNamesOk n3Ctx = true := by decide +kernel
theorem n3_keys : nestedKeysOk n3Ctx n3Op = true := by decide +kernel
theorem n3_rust : nestedRustOk n3Ctx n3Op = true := by decide +kernel
theorem n3_ok : moduleOk n3Ctx n3Items = true := by decide +kernel

/-- `Top` has the flattened member `Outer`, which has the flattened member `Inner`; `Qdog` is the alias of `Top` -/
theorem n3_items_shape :
    ((moduleEnv n3Ctx n3Items).find "Top" ==
      some (.struct "Top" ["Deserialize"] (some "::serde") [{ rust := "Outer", ty := .path "Outer", flatten := true }])) &&
    ((moduleEnv n3Ctx n3Items).find "Outer" ==
      some (.struct "Outer" ["Deserialize"] (some "::serde")
        [{ rust := "name", ty := .path "String" }, { rust := "Inner", ty := .path "Inner", flatten := true }])) &&
    ((moduleEnv n3Ctx n3Items).find "Qdog" == some (.alias "Qdog" true (.path "Top"))) = true := by
  decide +kernel

set_option maxRecDepth 8000 in
theorem n3_conforms : conformsOpN n3Ctx n3Op n3Json = true := by
  simp [conformsOpN, n3Ctx, n3Op, n3Query, n3Json, expandSelsW, expandSelW, exN, expandSel, expandSels, conformsV, confSelsV,
    confSelV, keysSelsV, keysSelV,
    fragApplies, rtName, mxSchema, Json.lookup, accepts, acceptsNN, gtyOf, scalarOk, floatOk, stringOk, boolOk,
    Json.isNull, EnumSpec.nodup, List.range, List.range.loop, conformsAt, Schema.implementors, List.zipIdx]

theorem n3_top2 : fragOkN n3Ctx.s n3Ctx.q n3Ctx.o 2 (fragOn n3Ctx.q 2) 2 = true := by decide +kernel
theorem n3_top1 : fragOkN n3Ctx.s n3Ctx.q n3Ctx.o 1 (fragOn n3Ctx.q 2) 2 = false := by decide +kernel
theorem n3_outer0 : fragOkN n3Ctx.s n3Ctx.q n3Ctx.o 0 (fragOn n3Ctx.q 1) 1 = false := by decide +kernel

theorem n3_cent_top (kvs : List (String × Json)) :
    centN n3Ctx 3 2 kvs = canonEntriesN (centN n3Ctx 1) n3Ctx.s n3Ctx.q n3Ctx.o.skipNone (fragSels n3Ctx.q 2) kvs := by
  rw [centN, if_pos n3_top2, centN, if_neg (by rw [n3_top1]; simp)]

theorem n3_cent_outer (kvs : List (String × Json)) :
    centN n3Ctx 1 1 kvs = canonEntriesN (fun g kvs => canonEntriesV n3Ctx.s n3Ctx.o.skipNone (fragSels n3Ctx.q g) kvs)
      n3Ctx.s n3Ctx.q n3Ctx.o.skipNone (fragSels n3Ctx.q 1) kvs := by
  rw [centN, if_neg (by rw [n3_outer0]; simp), centN_zero]

set_option maxRecDepth 8000 in
theorem n3_canon_abs (cent cent1 : Nat → List (String × Json) → List (String × Json))
    (h2 : ∀ kvs, cent 2 kvs = canonEntriesN cent1 n3Ctx.s n3Ctx.q n3Ctx.o.skipNone (fragSels n3Ctx.q 2) kvs)
    (h1 : ∀ kvs, cent1 1 kvs =
      canonEntriesN (fun g kvs => canonEntriesV n3Ctx.s n3Ctx.o.skipNone (fragSels n3Ctx.q g) kvs)
        n3Ctx.s n3Ctx.q n3Ctx.o.skipNone (fragSels n3Ctx.q 1) kvs) :
    normJson (canonSelN cent mxSchema n3Query false n3Op.sels n3Json) =
      .obj [("dog", .obj [("name", .str "Rex"), ("barks", .bool true)]),
            ("animal", .obj [("name", .str "Tom"), ("__typename", .str "Cat")])] := by
  simp only [n3Ctx, n3Json] at h1 h2 ⊢
  simp only [canonSelN, canonEntriesN, canonFieldN, cwhole, n3Op, h2]
  simp [canonSelN, canonEntriesN, canonFieldN, cwhole, h1, n3Ctx,
    canonSelM, canonEntriesM, canonFieldM, canonSelV, canonSelD, canonEntriesD, canonFieldD, loneG, canonEntriesBD,
    canonVarD, onNamed, absEntries, absRest, hasStruct, isBSpread, isFieldSel, canonAbsV, canonEntriesV, canonFieldV,
    canonInlV, tagName, fragSels, n3Op, n3Query, mxSchema, objName, rtName, fieldKeys, fieldKey, Json.lookup, canon, canonNN,
    gtyOf, Json.isNull, skipQ, normJson, normKvs, normList, Json.normObj, Json.insert]

/-- **`nested_roundtrip` with two levels of nesting** -/
theorem n3_roundtrip :
    Serde.roundtrip (moduleEnv n3Ctx n3Items) (.path "ResponseData") n3Json =
      .ok (.obj [("dog", .obj [("name", .str "Rex"), ("barks", .bool true)]),
                 ("animal", .obj [("name", .str "Tom"), ("__typename", .str "Cat")])]) := by
  rw [nested_roundtrip n3Ctx 0 n3Op n3Items rfl n3_class n3_names n3_keys n3_rust n3_gen n3_ok n3Json n3_conforms]
  exact congrArg Except.ok (n3_canon_abs _ _ n3_cent_top n3_cent_outer)

end C01N
end GqlVerif
