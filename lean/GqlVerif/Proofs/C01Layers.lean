import GqlVerif.Model.EnumSpec
import GqlVerif.Props.C03
import GqlVerif.Props.C14
import GqlVerif.Props.C16
/-!
# C01 (response side) and C04 (variables side), in layers

Every theorem is about the model's own functions (`Serde.deTyWith`, `deOwnWith`, `deStructMapWith`,
`deTaggedWith`, `deFlat`, `dePath`, `serTyWith`, `serFieldsWith`, `serPath`, `Serde.de`), for all
inputs of the stated shape.  Layers are parametric in `pathD` / `pathS` (how a named type is read /
written) so that they compose: the conclusion of a lower layer is the hypothesis of the next.

* L1 `leaf_roundtrip` (and `leaf_roundtrip_on`, relative to a class of leaf values), `leaf_lossless`,
  `canon_id`, the built-in leaves (`leaf_int_rt`, `leaf_float_rt`, `leaf_boolean_rt`, `leaf_string_rt`,
  `leaf_enum_rt` and the `*_position_rt` instances), ID: `id_roundtrip`, `id_field_roundtrip`;
* L2 `deOwn_ok_iff`, `struct_accepts`, `struct_value`, `struct_roundtrip`, `struct_roundtrip_lookup`,
  `struct_roundtrip_keys`, `expectOut_noskip`, `unknown_keys_ignored`, `unknown_keys_ignored_insert`,
  `field_unit_iff`, and at the level of a module's items `struct_roundtrip_path`,
  `struct_position_roundtrip` (L1 ∘ L2: nested objects and lists of objects);
* L3 `tagged_read`, `tagged_write_unit`, `tagged_write_newtype`, `tagged_roundtrip`, `tagged_rest`;
* L4 `flatten_eq`, `flatten_take_roundtrip`, `remaining_disjoint`, `flatten_ser_concat`, `flatten_roundtrip`;
* L5 `ser_fields_iff`, `ser_keys_exact`, `ser_keys_nodup`, `ser_keys_all`, `oneof_single_key`, `oneof_keys`,
  `ser_conforms`;
* negative facts `overlap_loses_key`, `overlap_loses_key_silently` (and `disjoint_control`);
* a concrete module on which the layers are composed (side conditions are satisfiable);
* bridges to `Serde.de` / `Serde.ser`: `deFuel_ge`, `normObj_of_nodup`.

(`Props/C10.lean` is not imported: it cannot be loaded next to `Props/C03.lean`, both realise
`Serde.dePath.eq_def`.)
-/
namespace GqlVerif
namespace C01
open Serde Spec C13 C03

/-! ## small facts about `D` -/

theorem okB_iff {α} (x : D α) : okB x = true ↔ ∃ v, x = .ok v := by
  cases x <;> simp [okB]

theorem map_ok {α β} (f : α → β) (x : D α) (b : β) : f <$> x = .ok b ↔ ∃ a, x = .ok a ∧ f a = b := by
  cases x <;> simp [Functor.map, Except.map]

/-- pointwise relation of two lists of the same length (core has no `Forall₂`) -/
inductive All2 {α β} (R : α → β → Prop) : List α → List β → Prop
  | nil : All2 R [] []
  | cons {a b as bs} : R a b → All2 R as bs → All2 R (a :: as) (b :: bs)

theorem All2.imp {α β} {R S : α → β → Prop} (h : ∀ a b, R a b → S a b) :
    ∀ {xs ys}, All2 R xs ys → All2 S xs ys
  | _, _, .nil => .nil
  | _, _, .cons hab rest => .cons (h _ _ hab) (All2.imp h rest)

/-- `mapM` in `D`, pointwise: the result has one element per input, each the image of its input -/
theorem mapM_ok_forall₂ {α β} (f : α → D β) :
    ∀ (xs : List α) (ys : List β), xs.mapM f = .ok ys ↔ All2 (fun x y => f x = .ok y) xs ys
  | [], ys => by
    constructor
    · intro h; cases h; exact .nil
    · intro h; cases h; rfl
  | x :: xs, ys => by
    rw [List.mapM_cons]
    constructor
    · intro h
      cases hx : f x with
      | error e => simp [hx, bind, Except.bind] at h
      | ok y =>
        cases hm : xs.mapM f with
        | error e => simp [hx, hm, bind, Except.bind] at h
        | ok ys' =>
          simp [hx, hm, bind, Except.bind, pure, Except.pure] at h
          subst h
          exact .cons hx ((mapM_ok_forall₂ f xs ys').mp hm)
    · intro h
      cases h with
      | cons hx hrest =>
        rw [hx, (mapM_ok_forall₂ f xs _).mpr hrest]; rfl

/-! ## L1 — leaf positions at every modifier depth -/

mutual
  /-- the **allowed difference** at a position of type `t` in non-null context: `leafCanon` at the
      leaf, element-wise on arrays -/
  def canonNN (leafCanon : Json → Json) : GTy → Json → Json
    | .named _, j => leafCanon j
    | .list t, j => match j with
      | .arr xs => .arr (xs.map (canon leafCanon t))
      | j => j
    | .nonNull t, j => canonNN leafCanon t j
  /-- … at a position of type `t`: `null` stays `null` at nullable positions -/
  def canon (leafCanon : Json → Json) : GTy → Json → Json
    | .nonNull t, j => canonNN leafCanon t j
    | .named n, j => if j.isNull then .null else canonNN leafCanon (.named n) j
    | .list t, j => if j.isNull then .null else canonNN leafCanon (.list t) j
end

/-- ID: an integer becomes its decimal string, everything else is unchanged -/
def idCanon : Json → Json
  | .int n => .str (toString n)
  | j => j

theorem isNull_eq (j : Json) : j.isNull = true → j = .null := by
  cases j <;> simp [Json.isNull]

/-- with the identity at the leaves nothing changes at all -/
theorem canon_id : ∀ t : GTy, (∀ j, canonNN id t j = j) ∧ (∀ j, canon id t j = j) := by
  intro t
  induction t with
  | named n =>
    have h : ∀ j, canonNN id (.named n) j = j := fun j => by simp [canonNN]
    refine ⟨h, fun j => ?_⟩
    simp only [canon, h]
    cases hj : j.isNull
    · simp
    · simp [isNull_eq j hj]
  | list t ih =>
    have h : ∀ j, canonNN id (.list t) j = j := by
      intro j
      cases j <;> simp [canonNN]
      rename_i xs
      have : (canon id t) = id := funext ih.2
      simp [this]
    refine ⟨h, fun j => ?_⟩
    simp only [canon, h]
    cases hj : j.isNull
    · simp
    · simp [isNull_eq j hj]
  | nonNull t ih =>
    exact ⟨fun j => by simp only [canonNN]; exact ih.1 j, fun j => by simp only [canon]; exact ih.1 j⟩

theorem de_opt_ok (path : String → Json → D Val) (t : RTy) (j : Json) (v : Val)
    (h : deTyWith path (.opt t) j = .ok v) :
    (j.isNull = true ∧ v = .unit) ∨ (j.isNull = false ∧ ∃ x, deTyWith path t j = .ok x ∧ v = .some x) := by
  rw [show deTyWith path (RTy.opt t) j = (if j.isNull then pure .unit else Val.some <$> deTyWith path t j) from rfl] at h
  cases hj : j.isNull
  · right
    simp only [hj, Bool.false_eq_true, ↓reduceIte, map_ok] at h
    obtain ⟨x, hx, rfl⟩ := h
    exact ⟨rfl, x, hx, rfl⟩
  · left
    simp only [hj, ↓reduceIte, pure, Except.pure, Except.ok.injEq] at h
    exact ⟨rfl, h.symm⟩

theorem de_vec_ok (path : String → Json → D Val) (t : RTy) (j : Json) (v : Val)
    (h : deTyWith path (.vec t) j = .ok v) :
    ∃ xs vs, j = .arr xs ∧ v = .list vs ∧ All2 (fun x y => deTyWith path t x = .ok y) xs vs := by
  cases j with
  | arr xs =>
    rw [show deTyWith path (RTy.vec t) (.arr xs) = Val.list <$> xs.mapM (deTyWith path t) from rfl, map_ok] at h
    obtain ⟨vs, hvs, rfl⟩ := h
    exact ⟨xs, vs, rfl, rfl, (mapM_ok_forall₂ _ _ _).mp hvs⟩
  | null => cases h
  | bool b => cases h
  | int n => cases h
  | num s => cases h
  | str s => cases h
  | obj kvs => cases h

theorem ser_list_ok (path : String → Val → D Json) (t : RTy) (f : Json → Json) :
    ∀ (xs : List Json) (vs : List Val),
      All2 (fun x y => serTyWith path t y = .ok (f x)) xs vs →
      serTyWith path (.vec t) (.list vs) = .ok (.arr (xs.map f)) := by
  intro xs vs h
  rw [show serTyWith path (RTy.vec t) (.list vs) = Json.arr <$> vs.mapM (serTyWith path t) from rfl, map_ok]
  refine ⟨xs.map f, ?_, rfl⟩
  rw [mapM_ok_forall₂]
  induction h with
  | nil => exact .nil
  | cons hxy _ ih => exact .cons hxy ih

theorem All2.imp_mem {α β} {R S : α → β → Prop} :
    ∀ {xs ys}, (∀ a ∈ xs, ∀ b, R a b → S a b) → All2 R xs ys → All2 S xs ys
  | _, _, _, .nil => .nil
  | _, _, h, .cons hab rest =>
    .cons (h _ (by simp) _ hab) (All2.imp_mem (fun a ha b hr => h a (by simp [ha]) b hr) rest)

/-- L1, relative to a class `leafOk` of leaf values (so that a leaf whose round trip is only known on
    the values a conforming response can carry — e.g. a struct, on objects — can be plugged in):
    on every `j` that `t` allows (`Spec.accepts leafOk`), what is read is written back as `canon t j`. -/
theorem leaf_roundtrip_on (pathD : String → Json → D Val) (pathS : String → Val → D Json) (base : String)
    (leafOk : Json → Bool) (leafCanon : Json → Json)
    (hleaf : ∀ j v, leafOk j = true → pathD base j = .ok v → pathS base v = .ok (leafCanon j)) :
    ∀ t : GTy, wf t = true →
      (∀ j v, acceptsNN leafOk t j = true → deTyWith pathD (rustOfNN (.path base) t) j = .ok v →
        serTyWith pathS (rustOfNN (.path base) t) v = .ok (canonNN leafCanon t j)) ∧
      (∀ j v, accepts leafOk t j = true → deTyWith pathD (rustOf (.path base) t) j = .ok v →
        serTyWith pathS (rustOf (.path base) t) v = .ok (canon leafCanon t j)) := by
  intro t
  -- nullable from non-null, shared by the `named` and `list` cases
  have lift : ∀ (r : RTy) (c : Json → Json) (A : Json → Bool),
      (∀ j v, A j = true → deTyWith pathD r j = .ok v → serTyWith pathS r v = .ok (c j)) →
      ∀ j v, (j.isNull || A j) = true → deTyWith pathD (.opt r) j = .ok v →
        serTyWith pathS (.opt r) v = .ok (if j.isNull then .null else c j) := by
    intro r c A hnn j v ha h
    rcases de_opt_ok pathD r j v h with ⟨hj, rfl⟩ | ⟨hj, x, hx, rfl⟩
    · simp [hj, serTyWith, pure, Except.pure]
    · simp only [hj, Bool.false_eq_true, ↓reduceIte]
      rw [show serTyWith pathS (RTy.opt r) (.some x) = serTyWith pathS r x from rfl]
      exact hnn j x (by simpa [hj] using ha) hx
  induction t with
  | named n =>
    intro _
    have hnn : ∀ j v, acceptsNN leafOk (.named n) j = true →
        deTyWith pathD (rustOfNN (.path base) (.named n)) j = .ok v →
        serTyWith pathS (rustOfNN (.path base) (.named n)) v = .ok (canonNN leafCanon (.named n) j) := by
      intro j v ha h
      simp only [rustOfNN, deTyWith, serTyWith, canonNN, acceptsNN] at h ha ⊢
      exact hleaf j v ha h
    exact ⟨hnn, fun j v ha h => by simp only [rustOf, canon, accepts] at h ha ⊢; exact lift _ _ _ hnn j v ha h⟩
  | list t ih =>
    intro hw
    obtain ⟨_, ih2⟩ := ih (by simpa [wf] using hw)
    have hnn : ∀ j v, acceptsNN leafOk (.list t) j = true →
        deTyWith pathD (rustOfNN (.path base) (.list t)) j = .ok v →
        serTyWith pathS (rustOfNN (.path base) (.list t)) v = .ok (canonNN leafCanon (.list t) j) := by
      intro j v ha h
      simp only [rustOfNN] at h ⊢
      obtain ⟨xs, vs, rfl, rfl, hall⟩ := de_vec_ok pathD _ j v h
      simp only [canonNN]
      simp only [acceptsNN, List.all_eq_true] at ha
      exact ser_list_ok pathS _ _ xs vs (hall.imp_mem (fun x hx y hxy => ih2 x y (ha x hx) hxy))
    exact ⟨hnn, fun j v ha h => by simp only [rustOf, canon, accepts] at h ha ⊢; exact lift _ _ _ hnn j v ha h⟩
  | nonNull t ih =>
    intro hw
    obtain ⟨ih1, _⟩ := ih (by cases t <;> simp_all [wf])
    exact ⟨fun j v ha h => by simp only [rustOfNN, canonNN, acceptsNN] at h ha ⊢; exact ih1 j v ha h,
           fun j v ha h => by simp only [rustOf, canon, accepts] at h ha ⊢; exact ih1 j v ha h⟩

/-- **L1.** For every well-formed type expression (any list depth, any placement of `!`) over a leaf
    type `base`: whatever the deserializer of the generated type `rustOf base t` accepts, the
    serializer writes back as `canon leafCanon t j`.  The only hypothesis is the same statement for
    the leaf itself. -/
theorem leaf_roundtrip (pathD : String → Json → D Val) (pathS : String → Val → D Json) (base : String)
    (leafCanon : Json → Json)
    (hleaf : ∀ j v, pathD base j = .ok v → pathS base v = .ok (leafCanon j)) :
    ∀ t : GTy, wf t = true →
      (∀ j v, deTyWith pathD (rustOfNN (.path base) t) j = .ok v →
        serTyWith pathS (rustOfNN (.path base) t) v = .ok (canonNN leafCanon t j)) ∧
      (∀ j v, deTyWith pathD (rustOf (.path base) t) j = .ok v →
        serTyWith pathS (rustOf (.path base) t) v = .ok (canon leafCanon t j)) := by
  intro t hw
  have hon := leaf_roundtrip_on pathD pathS base (fun j => okB (pathD base j)) leafCanon
    (fun j v _ h => hleaf j v h) t hw
  have hacc := ok_iff_accepts pathD base (fun j => okB (pathD base j)) (fun _ => rfl) t hw
  refine ⟨fun j v h => hon.1 j v ?_ h, fun j v h => hon.2 j v ?_ h⟩
  · rw [← hacc.1 j, h]; rfl
  · rw [← hacc.2 j, h]; rfl

/-- L1 together with C03: a **conforming** value is accepted and written back in canonical form -/
theorem leaf_lossless (pathD : String → Json → D Val) (pathS : String → Val → D Json) (base : String)
    (leafOk : Json → Bool) (leafCanon : Json → Json)
    (hacc : ∀ j, okB (pathD base j) = leafOk j)
    (hleaf : ∀ j v, pathD base j = .ok v → pathS base v = .ok (leafCanon j))
    (t : GTy) (hw : wf t = true) (j : Json) (hj : accepts leafOk t j = true) :
    ∃ v, deTyWith pathD (rustOf (.path base) t) j = .ok v ∧
      serTyWith pathS (rustOf (.path base) t) v = .ok (canon leafCanon t j) := by
  have h := (ok_iff_accepts pathD base leafOk hacc t hw).2 j
  rw [hj, okB_iff] at h
  obtain ⟨v, hv⟩ := h
  exact ⟨v, hv, (leaf_roundtrip pathD pathS base leafCanon hleaf t hw).2 j v hv⟩

/-- L1 for a leaf that is written back verbatim: the round trip is the identity -/
theorem leaf_roundtrip_id (pathD : String → Json → D Val) (pathS : String → Val → D Json) (base : String)
    (hleaf : ∀ j v, pathD base j = .ok v → pathS base v = .ok j)
    (t : GTy) (hw : wf t = true) (j : Json) (v : Val)
    (h : deTyWith pathD (rustOf (.path base) t) j = .ok v) :
    serTyWith pathS (rustOf (.path base) t) v = .ok j := by
  have := (leaf_roundtrip pathD pathS base id hleaf t hw).2 j v h
  rwa [(canon_id t).2 j] at this

/-! ### the built-in leaves of a generated module -/

theorem serPath_prim (e : Env) (fuel : Nat) (p : String) (v : Val) (j : Json) (h : serPrim v = some j) :
    serPath e (fuel + 1) p v = .ok j := by
  unfold serPath; simp [h, pure, Except.pure]

theorem leaf_string_rt (e : Env) (b : Bool) (fd fs : Nat) (j : Json) (v : Val)
    (h : dePath e b (fd + 1) "String" j = .ok v) : serPath e (fs + 1) "String" v = .ok j := by
  unfold dePath at h
  cases j <;> simp [dePrim, bad, pure, Except.pure] at h
  subst h
  exact serPath_prim e fs _ _ _ rfl

theorem leaf_int_rt (e : Env) (b : Bool) (fd fs : Nat)
    (he : e.find "Int" = some (.alias "Int" false (.path "i64"))) (j : Json) (v : Val)
    (h : dePath e b (fd + 2) "Int" j = .ok v) : serPath e (fs + 1) "Int" v = .ok j := by
  have h1 : dePrim "Int" j = none := by simp [dePrim]
  unfold dePath at h; simp only [h1, he, deTyWith] at h
  unfold dePath at h
  cases j with
  | int n =>
    cases hn : inI64 n <;> simp [dePrim, hn, bad, pure, Except.pure] at h
    subst h
    exact serPath_prim e fs _ _ _ rfl
  | null => simp [dePrim, bad] at h
  | bool _ => simp [dePrim, bad] at h
  | num _ => simp [dePrim, bad] at h
  | str _ => simp [dePrim, bad] at h
  | arr _ => simp [dePrim, bad] at h
  | obj _ => simp [dePrim, bad] at h

theorem leaf_float_rt (e : Env) (b : Bool) (fd fs : Nat)
    (he : e.find "Float" = some (.alias "Float" false (.path "f64"))) (j : Json) (v : Val)
    (h : dePath e b (fd + 2) "Float" j = .ok v) : serPath e (fs + 1) "Float" v = .ok j := by
  have h1 : dePrim "Float" j = none := by simp [dePrim]
  unfold dePath at h; simp only [h1, he, deTyWith] at h
  unfold dePath at h
  cases j <;> simp [dePrim, bad, pure, Except.pure] at h <;> subst h <;> exact serPath_prim e fs _ _ _ rfl

theorem leaf_boolean_rt (e : Env) (b : Bool) (fd fs : Nat)
    (he : e.find "Boolean" = some (.alias "Boolean" false (.path "bool"))) (j : Json) (v : Val)
    (h : dePath e b (fd + 2) "Boolean" j = .ok v) : serPath e (fs + 1) "Boolean" v = .ok j := by
  have h1 : dePrim "Boolean" j = none := by simp [dePrim]
  unfold dePath at h; simp only [h1, he, deTyWith] at h
  unfold dePath at h
  cases j <;> simp [dePrim, bad, pure, Except.pure] at h
  subst h
  exact serPath_prim e fs _ _ _ rfl

/- (`Props/C10.lean` cannot be imported next to `Props/C03.lean`: both realise `dePath.eq_def`.
   The three facts about `tablesWf` needed here are therefore re-proved.) -/

theorem nodup_iff' {l : List String} : EnumSpec.nodup l = true ↔ l.Nodup := by
  induction l with
  | nil => simp [EnumSpec.nodup]
  | cons x xs ih => simp [EnumSpec.nodup, ih]

theorem find_fst_of_nodup' {l : List (String × String)} (h : (l.map (·.1)).Nodup) {p : String × String}
    (hp : p ∈ l) : l.find? (·.1 == p.1) = some p := by
  induction l with
  | nil => simp at hp
  | cons a l ih =>
    simp only [List.map_cons, List.nodup_cons] at h
    simp only [List.mem_cons] at hp
    rcases hp with rfl | hp
    · simp
    · have hne : a.1 ≠ p.1 := fun heq => h.1 (heq ▸ List.mem_map_of_mem hp)
      simp [hne, ih h.2 hp]

/-- a generated string enum whose tables are well-formed (`EnumSpec.tablesWf`, evaluated by the
    harness on the tables extracted from the emitted impls) writes back exactly what it read -/
theorem leaf_enum_rt (e : Env) (b : Bool) (fd fs : Nat) (p name : String) (d : List String) (sp : String)
    (vs : List String) (ser de : List (String × String))
    (hp : p ≠ "String" ∧ p ≠ "i64" ∧ p ≠ "f64" ∧ p ≠ "bool")
    (he : e.find p = some (.gqlEnum name d sp vs ser de))
    (hwf : EnumSpec.tablesWf vs ser de = true) (j : Json) (v : Val)
    (h : dePath e b (fd + 1) p j = .ok v) : serPath e (fs + 1) p v = .ok j := by
  have h1 : dePrim p j = none := by simp [dePrim, hp.1, hp.2.1, hp.2.2.1, hp.2.2.2]
  unfold dePath at h; simp only [h1, he] at h
  cases j with
  | str s =>
    simp only at h
    cases hf : de.find? (·.1 == s) with
    | none =>
      simp only [hf, pure, Except.pure, Except.ok.injEq] at h
      subst h
      exact serPath_prim e fs _ _ _ rfl
    | some q =>
      obtain ⟨w, ident⟩ := q
      simp only [hf, pure, Except.pure, Except.ok.injEq] at h
      subst h
      have hmem : (w, ident) ∈ de := List.mem_of_find?_eq_some hf
      have hw : w = s := by simpa using List.find?_some hf
      subst hw
      simp only [EnumSpec.tablesWf, Bool.and_eq_true, beq_iff_eq] at hwf
      obtain ⟨⟨⟨_, h2⟩, _⟩, hser⟩ := hwf
      have hnd : ((de.map (fun p => (p.2, p.1))).map (·.1)).Nodup := by
        simpa [List.map_map, Function.comp_def] using nodup_iff'.mp h2
      have hm' : (ident, w) ∈ de.map (fun p => (p.2, p.1)) := List.mem_map.mpr ⟨(w, ident), hmem, rfl⟩
      have hfind := find_fst_of_nodup' hnd hm'
      unfold serPath
      simp only [serPrim, he, hser]
      simp only [hfind, pure, Except.pure]
  | null => cases h
  | bool _ => cases h
  | int _ => cases h
  | num _ => cases h
  | arr _ => cases h
  | obj _ => cases h

/-- **Int / Float / Boolean / String / enum positions** of a generated module, at every modifier
    depth: `to_value (from_value j) = j` exactly -/
theorem int_position_rt (e : Env) (b : Bool) (fd fs : Nat)
    (he : e.find "Int" = some (.alias "Int" false (.path "i64")))
    (t : GTy) (hw : wf t = true) (j : Json) (v : Val)
    (h : deTy e b (fd + 2) (rustOf (.path "Int") t) j = .ok v) :
    serTy e (fs + 1) (rustOf (.path "Int") t) v = .ok j :=
  leaf_roundtrip_id _ _ "Int" (leaf_int_rt e b fd fs he) t hw j v h

theorem float_position_rt (e : Env) (b : Bool) (fd fs : Nat)
    (he : e.find "Float" = some (.alias "Float" false (.path "f64")))
    (t : GTy) (hw : wf t = true) (j : Json) (v : Val)
    (h : deTy e b (fd + 2) (rustOf (.path "Float") t) j = .ok v) :
    serTy e (fs + 1) (rustOf (.path "Float") t) v = .ok j :=
  leaf_roundtrip_id _ _ "Float" (leaf_float_rt e b fd fs he) t hw j v h

theorem boolean_position_rt (e : Env) (b : Bool) (fd fs : Nat)
    (he : e.find "Boolean" = some (.alias "Boolean" false (.path "bool")))
    (t : GTy) (hw : wf t = true) (j : Json) (v : Val)
    (h : deTy e b (fd + 2) (rustOf (.path "Boolean") t) j = .ok v) :
    serTy e (fs + 1) (rustOf (.path "Boolean") t) v = .ok j :=
  leaf_roundtrip_id _ _ "Boolean" (leaf_boolean_rt e b fd fs he) t hw j v h

theorem string_position_rt (e : Env) (b : Bool) (fd fs : Nat)
    (t : GTy) (hw : wf t = true) (j : Json) (v : Val)
    (h : deTy e b (fd + 1) (rustOf (.path "String") t) j = .ok v) :
    serTy e (fs + 1) (rustOf (.path "String") t) v = .ok j :=
  leaf_roundtrip_id _ _ "String" (leaf_string_rt e b fd fs) t hw j v h

theorem enum_position_rt (e : Env) (b : Bool) (fd fs : Nat) (p name : String) (d : List String) (sp : String)
    (vs : List String) (ser de : List (String × String))
    (hp : p ≠ "String" ∧ p ≠ "i64" ∧ p ≠ "f64" ∧ p ≠ "bool")
    (he : e.find p = some (.gqlEnum name d sp vs ser de))
    (hwf : EnumSpec.tablesWf vs ser de = true)
    (t : GTy) (hw : wf t = true) (j : Json) (v : Val)
    (h : deTy e b (fd + 1) (rustOf (.path p) t) j = .ok v) :
    serTy e (fs + 1) (rustOf (.path p) t) v = .ok j :=
  leaf_roundtrip_id _ _ p (leaf_enum_rt e b fd fs p name d sp vs ser de hp he hwf) t hw j v h

/-- Int positions, acceptance and round trip in one statement (C03 + L1) -/
theorem int_position_lossless (e : Env) (b : Bool) (fd fs : Nat)
    (he : e.find "Int" = some (.alias "Int" false (.path "i64")))
    (t : GTy) (hw : wf t = true) (j : Json) (hj : accepts intOk t j = true) :
    ∃ v, deTy e b (fd + 2) (rustOf (.path "Int") t) j = .ok v ∧
      serTy e (fs + 1) (rustOf (.path "Int") t) v = .ok j := by
  obtain ⟨v, h1, h2⟩ := leaf_lossless (dePath e b (fd + 2)) (serPath e (fs + 1)) "Int" intOk id
    (leaf_int e b fd he) (leaf_int_rt e b fd fs he) t hw j hj
  exact ⟨v, h1, by rwa [(canon_id t).2 j] at h2⟩

/-! ### ID positions: the three helpers -/

/-- the nested helper succeeds exactly as the structural reader with the integer-or-string leaf
    (only the error messages differ) -/
theorem deNestedId_ok_iff : ∀ (t : RTy) (j : Json) (v : Val),
    deNestedId t j = .ok v ↔ deTyWith (fun _ => deIntOrString) t j = .ok v
  | .path _, _, _ => Iff.rfl
  | .box t, j, v => by
    rw [show deNestedId (.box t) j = deNestedId t j from rfl, deNestedId_ok_iff t j v]; exact Iff.rfl
  | .opt t, j, v => by
    rw [show deNestedId (.opt t) j = (if j.isNull then pure .unit else Val.some <$> deNestedId t j) from rfl,
      show deTyWith (fun _ => deIntOrString) (.opt t) j =
        (if j.isNull then pure .unit else Val.some <$> deTyWith (fun _ => deIntOrString) t j) from rfl]
    cases j.isNull
    · simp only [Bool.false_eq_true, ↓reduceIte, map_ok, deNestedId_ok_iff t j]
    · exact Iff.rfl
  | .vec t, j, v => by
    cases j with
    | arr xs =>
      rw [show deNestedId (.vec t) (.arr xs) = Val.list <$> xs.mapM (deNestedId t) from rfl,
        show deTyWith (fun _ => deIntOrString) (.vec t) (.arr xs) =
          Val.list <$> xs.mapM (deTyWith (fun _ => deIntOrString) t) from rfl]
      simp only [map_ok, mapM_ok_forall₂]
      constructor
      · rintro ⟨a, ha, rfl⟩
        exact ⟨a, ha.imp (fun x y h => (deNestedId_ok_iff t x y).mp h), rfl⟩
      · rintro ⟨a, ha, rfl⟩
        exact ⟨a, ha.imp (fun x y h => (deNestedId_ok_iff t x y).mpr h), rfl⟩
    | null => simp [deNestedId, deTyWith, bad]
    | bool _ => simp [deNestedId, deTyWith, bad]
    | int _ => simp [deNestedId, deTyWith, bad]
    | num _ => simp [deNestedId, deTyWith, bad]
    | str _ => simp [deNestedId, deTyWith, bad]
    | obj _ => simp [deNestedId, deTyWith, bad]

theorem intOrString_canon (j : Json) (v : Val) (h : deIntOrString j = .ok v) :
    ∃ s, v = .str s ∧ idCanon j = .str s := by
  cases j with
  | int n =>
    simp only [deIntOrString] at h
    split at h
    · simp only [pure, Except.pure, Except.ok.injEq] at h; exact ⟨_, h.symm, rfl⟩
    · cases h
  | str s => simp only [deIntOrString, pure, Except.pure, Except.ok.injEq] at h; exact ⟨s, h.symm, rfl⟩
  | null => cases h
  | bool _ => cases h
  | num _ => cases h
  | arr _ => cases h
  | obj _ => cases h

/-- **ID under lists** (`deserialize_nested_id`), every depth: integers come back as decimal strings,
    nothing else changes.  `hS`: the `ID` alias writes a string as that string (true of `serPath`
    with any positive fuel: `serPath_prim`). -/
theorem id_roundtrip (pathS : String → Val → D Json) (hS : ∀ s, pathS "ID" (.str s) = .ok (.str s))
    (t : GTy) (hw : wf t = true) (j : Json) (v : Val)
    (h : deNestedId (rustOf (.path "ID") t) j = .ok v) :
    serTyWith pathS (rustOf (.path "ID") t) v = .ok (canon idCanon t j) := by
  rw [deNestedId_ok_iff] at h
  refine (leaf_roundtrip (fun _ => deIntOrString) pathS "ID" idCanon ?_ t hw).2 j v h
  intro j v hv
  obtain ⟨s, rfl, hc⟩ := intOrString_canon j v hv
  rw [hc]; exact hS s

/-- **the emitted ID field** (helper chosen by `renderField`, see `C16.idHelperFor`), every type expression -/
theorem id_field_roundtrip (pathS : String → Val → D Json) (hS : ∀ s, pathS "ID" (.str s) = .ok (.str s))
    (t : GTy) (hw : wf t = true) (j : Json) (v : Val)
    (h : deHelper (C16.idHelperFor t) (rustOf (.path "ID") t) j = .ok v) :
    serTyWith pathS (rustOf (.path "ID") t) v = .ok (canon idCanon t j) := by
  unfold C16.idHelperFor at h
  cases hl : (GTy.quals t).contains .list
  · cases hr : (GTy.quals t).contains .required
    · obtain ⟨n, rfl⟩ := C16.quals_no_list_no_req hw hl hr
      simp only [hl, hr, Bool.false_eq_true, ↓reduceIte, deHelper, beq_self_eq_true,
        show ("graphql_client::serde_with::deserialize_option_id" == "graphql_client::serde_with::deserialize_id") = false by decide] at h
      simp only [rustOf, rustOfNN, canon, canonNN]
      cases hj : j.isNull
      · simp only [hj, Bool.false_eq_true, ↓reduceIte, map_ok] at h ⊢
        obtain ⟨x, hx, rfl⟩ := h
        obtain ⟨s, rfl, hc⟩ := intOrString_canon j x hx
        rw [hc]; exact hS s
      · simp only [hj, ↓reduceIte, pure, Except.pure, Except.ok.injEq] at h ⊢
        subst h; rfl
    · obtain ⟨n, rfl⟩ := C16.quals_no_list_req hw hl hr
      simp only [hl, hr, Bool.false_eq_true, ↓reduceIte, deHelper, beq_self_eq_true] at h
      simp only [rustOf, rustOfNN, canon, canonNN, serTyWith]
      obtain ⟨s, rfl, hc⟩ := intOrString_canon j v h
      rw [hc]; exact hS s
  · simp only [hl, ↓reduceIte, deHelper,
      show ("graphql_client::serde_with::deserialize_nested_id" == "graphql_client::serde_with::deserialize_id") = false by decide,
      show ("graphql_client::serde_with::deserialize_nested_id" == "graphql_client::serde_with::deserialize_option_id") = false by decide,
      Bool.false_eq_true, beq_self_eq_true] at h
    exact id_roundtrip pathS hS t hw j v h

example : canon idCanon (.list (.nonNull (.named "ID"))) (.arr [.int 7, .str "x"]) = .arr [.str "7", .str "x"] := by
  simp [canon, canonNN, idCanon, Json.isNull]; decide

/-! ## L2 — plain structs -/

/-- no `#[serde(flatten)]` member -/
def plain (fields : List RField) : Bool := fields.all (fun f => !f.flatten)

/-- what one own field reads from the object: its key's value, or the missing-key rule -/
def readField (path : String → Json → D Val) (f : RField) (kvs : List (String × Json)) : D Val :=
  match Json.lookup f.wire kvs with
  | some j => deFieldWith path f j
  | none => missingField f

theorem countKey_cons (k k' : String) (v : Json) (kvs : List (String × Json)) :
    countKey k ((k', v) :: kvs) = (if k' == k then 1 else 0) + countKey k kvs := by
  simp only [countKey, List.filter_cons]
  cases k' == k <;> simp <;> omega

theorem countKey_zero_of_not_mem {k : String} : ∀ {kvs : List (String × Json)}, k ∉ kvs.map (·.1) → countKey k kvs = 0
  | [], _ => rfl
  | (k', v) :: kvs, h => by
    simp only [List.map_cons, List.mem_cons, not_or] at h
    have hne : (k' == k) = false := by simpa using fun heq => h.1 heq.symm
    rw [countKey_cons, hne, countKey_zero_of_not_mem h.2]; rfl

/-- an object without duplicate keys carries every key at most once -/
theorem countKey_le_one_of_nodup {kvs : List (String × Json)} (h : (kvs.map (·.1)).Nodup) (k : String) :
    countKey k kvs ≤ 1 := by
  induction kvs with
  | nil => simp [countKey]
  | cons kv kvs ih =>
    obtain ⟨k', v⟩ := kv
    simp only [List.map_cons, List.nodup_cons] at h
    rw [countKey_cons]
    by_cases hk : k' = k
    · subst hk; rw [countKey_zero_of_not_mem h.1]; simp
    · have : (k' == k) = false := by simpa using hk
      rw [this]; have := ih h.2; simpa using this

theorem lookup_none_of_not_mem {k : String} : ∀ {kvs : List (String × Json)}, k ∉ kvs.map (·.1) → Json.lookup k kvs = none
  | [], _ => rfl
  | (k', v) :: kvs, h => by
    simp only [List.map_cons, List.mem_cons, not_or] at h
    have hne : (k' == k) = false := by simpa using fun heq => h.1 heq.symm
    simp only [Json.lookup, hne, Bool.false_eq_true, ↓reduceIte]
    exact lookup_none_of_not_mem h.2

/-- one step of the own-field loop, for a non-flattened field whose key is not duplicated -/
theorem deOwn_cons (path : String → Json → D Val) (f : RField) (fs : List RField) (kvs : List (String × Json))
    (hf : f.flatten = false) (hc : countKey f.wire kvs ≤ 1) :
    deOwnWith path (f :: fs) kvs =
      (do let rest ← deOwnWith path fs kvs
          let x ← readField path f kvs
          pure ((f.rust, x) :: rest)) := by
  have hc' : ¬ (countKey f.wire kvs > 1) := by omega
  simp only [deOwnWith, hf, Bool.false_eq_true, ↓reduceIte, hc', readField]
  cases Json.lookup f.wire kvs <;> rfl

theorem plain_cons {f : RField} {fs : List RField} (h : plain (f :: fs) = true) :
    f.flatten = false ∧ plain fs = true := by
  simpa [plain] using h

/-- **the own-field loop, exactly**: it succeeds with `vals` iff `vals` has one entry per field, in
    declaration order, named by the Rust field and holding what that field reads -/
theorem deOwn_ok_iff (path : String → Json → D Val) (kvs : List (String × Json))
    (hc : ∀ k, countKey k kvs ≤ 1) :
    ∀ (fields : List RField) (vals : List (String × Val)), plain fields = true →
      (deOwnWith path fields kvs = .ok vals ↔
        All2 (fun f p => p.1 = f.rust ∧ readField path f kvs = .ok p.2) fields vals)
  | [], vals, _ => by
    constructor
    · intro h; cases h; exact .nil
    · intro h; cases h; rfl
  | f :: fs, vals, hp => by
    obtain ⟨hf, hp'⟩ := plain_cons hp
    rw [deOwn_cons path f fs kvs hf (hc _)]
    have ih := deOwn_ok_iff path kvs hc fs
    constructor
    · intro h
      cases hr : deOwnWith path fs kvs with
      | error e => simp [hr, bind, Except.bind] at h
      | ok rest =>
        cases hx : readField path f kvs with
        | error e => simp [hr, hx, bind, Except.bind] at h
        | ok x =>
          simp [hr, hx, bind, Except.bind, pure, Except.pure] at h
          subst h
          exact .cons ⟨rfl, hx⟩ ((ih rest hp').mp hr)
    · intro h
      cases h with
      | @cons _ p _ rest hh ht =>
        obtain ⟨n, x⟩ := p
        obtain ⟨hn, hx⟩ := hh
        simp only at hn hx
        subst hn
        rw [(ih rest hp').mpr ht, hx]; rfl

theorem okB_deOwn (path : String → Json → D Val) (kvs : List (String × Json))
    (hc : ∀ k, countKey k kvs ≤ 1) :
    ∀ (fields : List RField), plain fields = true →
      okB (deOwnWith path fields kvs) = fields.all (fun f => okB (readField path f kvs))
  | [], _ => rfl
  | f :: fs, hp => by
    obtain ⟨hf, hp'⟩ := plain_cons hp
    rw [deOwn_cons path f fs kvs hf (hc _), List.all_cons, ← okB_deOwn path kvs hc fs hp']
    cases deOwnWith path fs kvs <;> cases readField path f kvs <;> simp [okB, bind, Except.bind, pure, Except.pure]

theorem any_flatten_of_plain {fields : List RField} (h : plain fields = true) :
    fields.any (·.flatten) = false := by
  induction fields with
  | nil => rfl
  | cons f fs ih =>
    obtain ⟨hf, hp⟩ := plain_cons h
    simp [List.any_cons, hf, ih hp]

theorem deStructMap_plain (path : String → Json → D Val) (flat : RTy → Buf → D (Val × Buf))
    (fields : List RField) (kvs : List (String × Json)) (hp : plain fields = true) :
    deStructMapWith path flat fields kvs = Val.record <$> deOwnWith path fields kvs := by
  unfold deStructMapWith
  simp only [any_flatten_of_plain hp, Bool.false_eq_true, ↓reduceIte]
  cases deOwnWith path fields kvs <;> rfl

/-- **L2, acceptance.** A plain struct read from an object without duplicate keys succeeds iff every
    field either finds its key with a value its type accepts, or is absent and may be absent. -/
theorem struct_accepts (path : String → Json → D Val) (flat : RTy → Buf → D (Val × Buf))
    (fields : List RField) (kvs : List (String × Json))
    (hp : plain fields = true) (hk : (kvs.map (·.1)).Nodup) :
    okB (deStructMapWith path flat fields kvs) =
      fields.all (fun f => match Json.lookup f.wire kvs with
        | some j => okB (deFieldWith path f j)
        | none => okB (missingField f)) := by
  rw [deStructMap_plain path flat fields kvs hp, okB_map,
    okB_deOwn path kvs (countKey_le_one_of_nodup hk) fields hp]
  congr 1; funext f
  unfold readField
  cases Json.lookup f.wire kvs <;> rfl

/-- … and then the value is the record of what the fields read, in declaration order -/
theorem struct_value (path : String → Json → D Val) (flat : RTy → Buf → D (Val × Buf))
    (fields : List RField) (kvs : List (String × Json))
    (hp : plain fields = true) (hk : (kvs.map (·.1)).Nodup) (v : Val) :
    deStructMapWith path flat fields kvs = .ok v ↔
      ∃ vals, v = .record vals ∧
        All2 (fun f p => p.1 = f.rust ∧ readField path f kvs = .ok p.2) fields vals := by
  rw [deStructMap_plain path flat fields kvs hp, map_ok]
  constructor
  · rintro ⟨vals, h, rfl⟩
    exact ⟨vals, rfl, (deOwn_ok_iff path kvs (countKey_le_one_of_nodup hk) fields vals hp).mp h⟩
  · rintro ⟨vals, rfl, h⟩
    exact ⟨vals, (deOwn_ok_iff path kvs (countKey_le_one_of_nodup hk) fields vals hp).mpr h, rfl⟩

/-- the same through `deStructWith` (the entry point `dePath` uses for a struct item) -/
theorem deStruct_obj (path : String → Json → D Val) (flat : RTy → Buf → D (Val × Buf))
    (fields : List RField) (kvs : List (String × Json)) :
    deStructWith path flat fields (.obj kvs) = deStructMapWith path flat fields kvs := rfl

/-! ### unknown keys -/

theorem countKey_filter (q : String × Json → Bool) (k : String) (hq : ∀ v, q (k, v) = true) :
    ∀ kvs : List (String × Json), countKey k (kvs.filter q) = countKey k kvs
  | [] => rfl
  | (k', v) :: kvs => by
    have ih := countKey_filter q k hq kvs
    by_cases hk : k' = k
    · subst hk; simp only [List.filter_cons, hq, ↓reduceIte, countKey_cons, ih]
    · have hne : (k' == k) = false := by simpa using hk
      simp only [List.filter_cons]
      cases q (k', v)
      · simp only [Bool.false_eq_true, ↓reduceIte, countKey_cons, hne, ih]; omega
      · simp only [↓reduceIte, countKey_cons, hne, ih]

theorem lookup_filter (q : String × Json → Bool) (k : String) (hq : ∀ v, q (k, v) = true) :
    ∀ kvs : List (String × Json), Json.lookup k (kvs.filter q) = Json.lookup k kvs
  | [] => rfl
  | (k', v) :: kvs => by
    have ih := lookup_filter q k hq kvs
    by_cases hk : k' = k
    · subst hk; simp only [List.filter_cons, hq, ↓reduceIte, Json.lookup, beq_self_eq_true]
    · have hne : (k' == k) = false := by simpa using hk
      simp only [List.filter_cons]
      cases q (k', v)
      · simp only [Bool.false_eq_true, ↓reduceIte, Json.lookup, hne, ih]
      · simp only [↓reduceIte, Json.lookup, hne, Bool.false_eq_true, ih]

/-- the own-field loop sees only the entries whose key is some own field's wire name -/
theorem deOwn_filter (path : String → Json → D Val) (keys : List String) (kvs : List (String × Json)) :
    ∀ (fields : List RField), (∀ f ∈ fields, f.flatten = false → f.wire ∈ keys) →
      deOwnWith path fields (kvs.filter (fun kv => keys.contains kv.1)) = deOwnWith path fields kvs
  | [], _ => rfl
  | f :: fs, h => by
    have ih := deOwn_filter path keys kvs fs (fun g hg => h g (by simp [hg]))
    cases hf : f.flatten
    · have hq : ∀ v : Json, (fun kv : String × Json => keys.contains kv.1) (f.wire, v) = true := by
        intro v; simpa using h f (by simp) hf
      have h1 := countKey_filter (fun kv : String × Json => keys.contains kv.1) f.wire hq kvs
      have h2 := lookup_filter (fun kv : String × Json => keys.contains kv.1) f.wire hq kvs
      simp only [deOwnWith, ih, hf, h1, h2]
    · simp only [deOwnWith, ih, hf, ↓reduceIte]

/-- **unknown keys are ignored**: two objects that agree on the entries whose key is a field's wire
    name (same entries, same order) are read identically by a plain struct -/
theorem unknown_keys_ignored (path : String → Json → D Val) (flat : RTy → Buf → D (Val × Buf))
    (fields : List RField) (kvs₁ kvs₂ : List (String × Json)) (hp : plain fields = true)
    (h : kvs₁.filter (fun kv => (fields.map (·.wire)).contains kv.1) =
         kvs₂.filter (fun kv => (fields.map (·.wire)).contains kv.1)) :
    deStructMapWith path flat fields kvs₁ = deStructMapWith path flat fields kvs₂ := by
  have hk : ∀ f ∈ fields, f.flatten = false → f.wire ∈ fields.map (·.wire) :=
    fun f hf _ => List.mem_map_of_mem hf
  rw [deStructMap_plain path flat fields kvs₁ hp, deStructMap_plain path flat fields kvs₂ hp,
    ← deOwn_filter path _ kvs₁ fields hk, ← deOwn_filter path _ kvs₂ fields hk, h]

/-- in particular: entries inserted anywhere, none of whose keys is a field's wire name, change nothing -/
theorem unknown_keys_ignored_insert (path : String → Json → D Val) (flat : RTy → Buf → D (Val × Buf))
    (fields : List RField) (pre extra post : List (String × Json)) (hp : plain fields = true)
    (hx : ∀ kv ∈ extra, ∀ f ∈ fields, f.wire ≠ kv.1) :
    deStructMapWith path flat fields (pre ++ extra ++ post) = deStructMapWith path flat fields (pre ++ post) := by
  apply unknown_keys_ignored path flat fields _ _ hp
  have : extra.filter (fun kv => (fields.map (·.wire)).contains kv.1) = [] := by
    rw [List.filter_eq_nil_iff]
    intro kv hkv
    simp only [List.contains_iff_mem, List.mem_map, not_exists, not_and]
    exact fun f hf => hx kv hkv f hf
  simp only [List.filter_append, this, List.append_nil]

/-! ## L5 (C04, variables side) — the entries `serFieldsWith` writes for a plain struct -/

/-- the value stored for the Rust field `name` -/
def valOf (vals : List (String × Val)) (name : String) : Val :=
  match vals.find? (·.1 == name) with
  | some (_, v) => v
  | none => .unit

/-- `skip_serializing_if = "Option::is_none"` applies: the field is marked and holds `None` -/
def skipped (vals : List (String × Val)) (f : RField) : Bool := f.skipNone && (valOf vals f.rust).isUnit

theorem serFields_cons (pathS : String → Val → D Json) (f : RField) (fs : List RField)
    (vals : List (String × Val)) (hf : f.flatten = false) :
    serFieldsWith pathS (f :: fs) vals =
      (do let rest ← serFieldsWith pathS fs vals
          match vals.find? (·.1 == f.rust) with
          | none => unmodelled ("no value for field " ++ f.rust)
          | some (_, v) =>
            if f.skipNone && v.isUnit then pure rest
            else do pure ((f.wire, ← serTyWith pathS f.ty v) :: rest)) := by
  simp only [serFieldsWith, hf, Bool.false_eq_true, ↓reduceIte]
  congr 1

/-- **the serialized struct, exactly**: `serFieldsWith` succeeds with `out` iff every field has a
    value and `out` has one entry per non-skipped field, in declaration order, keyed by the wire name
    and holding the serialization of that field's value -/
theorem ser_fields_iff (pathS : String → Val → D Json) (vals : List (String × Val)) :
    ∀ (fields : List RField) (out : List (String × Json)), plain fields = true →
      (serFieldsWith pathS fields vals = .ok out ↔
        (∀ f ∈ fields, (vals.find? (·.1 == f.rust)).isSome = true) ∧
        All2 (fun f kv => kv.1 = f.wire ∧ serTyWith pathS f.ty (valOf vals f.rust) = .ok kv.2)
          (fields.filter (fun f => !skipped vals f)) out)
  | [], out, _ => by
    constructor
    · intro h; cases h; exact ⟨by simp, .nil⟩
    · rintro ⟨_, h⟩; cases h; rfl
  | f :: fs, out, hp => by
    obtain ⟨hf, hp'⟩ := plain_cons hp
    have ih := ser_fields_iff pathS vals fs
    rw [serFields_cons pathS f fs vals hf]
    constructor
    · intro h
      cases hr : serFieldsWith pathS fs vals with
      | error e => simp [hr, bind, Except.bind] at h
      | ok rest =>
        obtain ⟨hsome, hall⟩ := (ih rest hp').mp hr
        cases hfind : vals.find? (·.1 == f.rust) with
        | none => simp [hr, hfind, bind, Except.bind, unmodelled] at h
        | some nv =>
          obtain ⟨n, v⟩ := nv
          have hval : valOf vals f.rust = v := by simp [valOf, hfind]
          refine ⟨?_, ?_⟩
          · intro g hg
            rcases List.mem_cons.mp hg with rfl | hg
            · simp [hfind]
            · exact hsome g hg
          · simp only [hr, hfind, bind, Except.bind] at h
            cases hskip : (f.skipNone && v.isUnit)
            · simp only [hskip, Bool.false_eq_true, ↓reduceIte] at h
              cases hs : serTyWith pathS f.ty v with
              | error e => simp [hs] at h
              | ok j =>
                simp only [hs, pure, Except.pure, Except.ok.injEq] at h
                subst h
                have : (!skipped vals f) = true := by simp [skipped, hval, hskip]
                rw [List.filter_cons, if_pos this]
                exact .cons ⟨rfl, by rw [hval]; exact hs⟩ hall
            · simp only [hskip, ↓reduceIte, pure, Except.pure, Except.ok.injEq] at h
              subst h
              have : ¬ ((!skipped vals f) = true) := by simp [skipped, hval, hskip]
              rw [List.filter_cons, if_neg this]
              exact hall
    · rintro ⟨hsome, hall⟩
      have hfs := hsome f (by simp)
      cases hfind : vals.find? (·.1 == f.rust) with
      | none => simp [hfind] at hfs
      | some nv =>
        obtain ⟨n, v⟩ := nv
        have hval : valOf vals f.rust = v := by simp [valOf, hfind]
        have hsome' : ∀ g ∈ fs, (vals.find? (·.1 == g.rust)).isSome = true :=
          fun g hg => hsome g (by simp [hg])
        cases hskip : (f.skipNone && v.isUnit)
        · have : (!skipped vals f) = true := by simp [skipped, hval, hskip]
          rw [List.filter_cons, if_pos this] at hall
          cases hall with
          | @cons _ kv _ rest hh ht =>
            obtain ⟨k, j⟩ := kv
            obtain ⟨hk, hj⟩ := hh
            simp only at hk hj
            subst hk
            rw [hval] at hj
            rw [(ih rest hp').mpr ⟨hsome', ht⟩]
            simp [hskip, hj, bind, Except.bind, pure, Except.pure]
        · have : ¬ ((!skipped vals f) = true) := by simp [skipped, hval, hskip]
          rw [List.filter_cons, if_neg this] at hall
          rw [(ih out hp').mpr ⟨hsome', hall⟩]
          simp [hskip, bind, Except.bind, pure, Except.pure]

theorem All2.map_fst {α β γ} {R : α → β → Prop} {f : α → γ} {g : β → γ} (h : ∀ a b, R a b → g b = f a) :
    ∀ {xs ys}, All2 R xs ys → ys.map g = xs.map f
  | _, _, .nil => rfl
  | _, _, .cons hab rest => by rw [List.map_cons, List.map_cons, h _ _ hab, All2.map_fst h rest]

/-- **L5.** The keys of a serialized plain struct are exactly the wire names of the fields that are not
    skipped, in declaration order. -/
theorem ser_keys_exact (pathS : String → Val → D Json) (fields : List RField) (vals : List (String × Val))
    (out : List (String × Json)) (hp : plain fields = true)
    (h : serFieldsWith pathS fields vals = .ok out) :
    out.map (·.1) = (fields.filter (fun f => !skipped vals f)).map (·.wire) :=
  All2.map_fst (fun _ _ hab => hab.1) ((ser_fields_iff pathS vals fields out hp).mp h).2

/-- … hence pairwise distinct when the wire names are, and a subset of the declared names -/
theorem ser_keys_nodup (pathS : String → Val → D Json) (fields : List RField) (vals : List (String × Val))
    (out : List (String × Json)) (hp : plain fields = true) (hw : (fields.map (·.wire)).Nodup)
    (h : serFieldsWith pathS fields vals = .ok out) : (out.map (·.1)).Nodup := by
  rw [ser_keys_exact pathS fields vals out hp h]
  exact List.Nodup.sublist (List.Sublist.map _ List.filter_sublist) hw

/-- without `skip_serializing_none` (or when no marked member is `None`): exactly the declared keys -/
theorem ser_keys_all (pathS : String → Val → D Json) (fields : List RField) (vals : List (String × Val))
    (out : List (String × Json)) (hp : plain fields = true)
    (hns : ∀ f ∈ fields, skipped vals f = false)
    (h : serFieldsWith pathS fields vals = .ok out) :
    out.map (·.1) = fields.map (·.wire) := by
  rw [ser_keys_exact pathS fields vals out hp h]
  congr 1
  rw [List.filter_eq_self]
  intro f hf; simp [hns f hf]

/-! ## L2, round trip -/

/-- the entries the round trip of a plain struct must produce, **in terms of the JSON alone**: one
    entry per field in declaration order, holding the canonical form of the value under the field's
    key; an absent key comes back as `null`; a `skip_serializing_none` field whose key is absent or
    `null` is omitted -/
def expectOut (fcanon : RField → Json → Json) (fields : List RField) (kvs : List (String × Json)) :
    List (String × Json) :=
  fields.filterMap (fun f => match Json.lookup f.wire kvs with
    | some j => if f.skipNone && j.isNull then none else some (f.wire, fcanon f j)
    | none => if f.skipNone then none else some (f.wire, .null))

theorem missingField_ok (f : RField) (x : Val) (h : missingField f = .ok x) :
    x = .unit ∧ (f.default = true ∨ isOption f.ty = true) := by
  unfold missingField at h
  cases hd : f.default
  · simp only [hd, Bool.false_eq_true, ↓reduceIte] at h
    cases hw : f.deserWith.isSome
    · simp only [hw, Bool.false_eq_true, ↓reduceIte] at h
      cases ho : isOption f.ty
      · simp [ho, bad] at h
      · simp only [ho, ↓reduceIte, pure, Except.pure, Except.ok.injEq] at h
        exact ⟨h.symm, .inr rfl⟩
    · simp [hw, bad] at h
  · simp only [hd, ↓reduceIte, pure, Except.pure, Except.ok.injEq] at h
    exact ⟨h.symm, .inl rfl⟩

/-- `None` at an `Option` type (under any `Box`) is written as `null` -/
theorem ser_unit_option (pathS : String → Val → D Json) :
    ∀ ty : RTy, isOption ty = true → serTyWith pathS ty .unit = .ok .null
  | .opt _, _ => rfl
  | .box t, h => by
    rw [show serTyWith pathS (.box t) .unit = serTyWith pathS t .unit from rfl]
    exact ser_unit_option pathS t (by simpa [isOption] using h)
  | .vec _, h => by simp [isOption] at h
  | .path _, h => by simp [isOption] at h

/-- with pairwise distinct Rust field names, the value list built by the reader is found again by name -/
theorem find_of_all2 {R : RField → Val → Prop} {fields : List RField} {vals : List (String × Val)}
    (h : All2 (fun f p => p.1 = f.rust ∧ R f p.2) fields vals) :
    (fields.map (·.rust)).Nodup →
      ∀ f ∈ fields, ∃ x, vals.find? (·.1 == f.rust) = some (f.rust, x) ∧ R f x := by
  induction h with
  | nil => simp
  | @cons g p gs ps hh ht ih =>
    intro hnd
    obtain ⟨n, x⟩ := p
    obtain ⟨hn, hx⟩ := hh
    simp only at hn hx
    subst hn
    simp only [List.map_cons, List.nodup_cons] at hnd
    intro f hf
    rcases List.mem_cons.mp hf with rfl | hf'
    · exact ⟨x, by simp, hx⟩
    · obtain ⟨y, hy, hr⟩ := ih hnd.2 f hf'
      have hne : (g.rust == f.rust) = false := by
        have : g.rust ≠ f.rust := fun heq => hnd.1 (by rw [heq]; exact List.mem_map_of_mem hf')
        simpa using this
      exact ⟨y, by simp [hne, hy], hr⟩

/-- serialization of what the fields read, given the round trip of each field's own reader -/
theorem ser_of_read (pathD : String → Json → D Val) (pathS : String → Val → D Json)
    (fcanon : RField → Json → Json) (kvs : List (String × Json)) (vals : List (String × Val)) :
    ∀ (fs : List RField), plain fs = true →
      (∀ f ∈ fs, ∃ x, vals.find? (·.1 == f.rust) = some (f.rust, x) ∧ readField pathD f kvs = .ok x) →
      (∀ f ∈ fs, ∀ j x, Json.lookup f.wire kvs = some j → deFieldWith pathD f j = .ok x →
        serTyWith pathS f.ty x = .ok (fcanon f j)) →
      (∀ f ∈ fs, f.skipNone = true → ∀ j x, Json.lookup f.wire kvs = some j → deFieldWith pathD f j = .ok x →
        x.isUnit = j.isNull) →
      (∀ f ∈ fs, f.default = true → isOption f.ty = true) →
      serFieldsWith pathS fs vals = .ok (expectOut fcanon fs kvs)
  | [], _, _, _, _, _ => rfl
  | f :: fs, hp, hread, hrt, hunit, hdef => by
    obtain ⟨hf, hp'⟩ := plain_cons hp
    have ih := ser_of_read pathD pathS fcanon kvs vals fs hp'
      (fun g hg => hread g (by simp [hg])) (fun g hg => hrt g (by simp [hg]))
      (fun g hg => hunit g (by simp [hg])) (fun g hg => hdef g (by simp [hg]))
    obtain ⟨x, hfind, hx⟩ := hread f (by simp)
    rw [serFields_cons pathS f fs vals hf, ih, hfind]
    simp only [expectOut, List.filterMap_cons]
    unfold readField at hx
    cases hl : Json.lookup f.wire kvs with
    | some j =>
      simp only [hl] at hx
      have hser := hrt f (by simp) j x hl hx
      cases hs : f.skipNone
      · simp [hser, bind, Except.bind, pure, Except.pure]
      · have hu := hunit f (by simp) hs j x hl hx
        cases hn : j.isNull
        · simp [hu, hn, hser, bind, Except.bind, pure, Except.pure]
        · simp [hu, hn, bind, Except.bind, pure, Except.pure]
    | none =>
      simp only [hl] at hx
      obtain ⟨rfl, hopt⟩ := missingField_ok f x hx
      have hopt' : isOption f.ty = true := hopt.elim (hdef f (by simp)) id
      cases hs : f.skipNone
      · simp [ser_unit_option pathS f.ty hopt', Val.isUnit, bind, Except.bind, pure, Except.pure]
      · simp [Val.isUnit, bind, Except.bind, pure, Except.pure]

/-- **L2, round trip.** A plain struct with pairwise distinct Rust field names, read from an object
    without duplicate keys: the value is a record with one entry per field, and serializing it gives
    exactly `expectOut` — the canonical form of each field's value, `null` for an absent key, nothing
    for a `skip_serializing_none` field that was absent or `null`; keys that are no field's are dropped.

    Hypotheses about the fields (each discharged below for the fields the generator emits):
    `hrt` the field's own round trip (L1 / `id_field_roundtrip` / this theorem, recursively);
    `hunit` a `skip_serializing_none` field holds `None` exactly when it read `null`
    (`field_unit_iff`); `hdef` `#[serde(default)]` only on `Option` fields (`renderField` puts it on
    nullable IDs only, `C16.default_iff_nullable_id`). -/
theorem struct_roundtrip (pathD : String → Json → D Val) (pathS : String → Val → D Json)
    (flat : RTy → Buf → D (Val × Buf)) (fcanon : RField → Json → Json)
    (fields : List RField) (kvs : List (String × Json))
    (hp : plain fields = true) (hr : (fields.map (·.rust)).Nodup) (hk : (kvs.map (·.1)).Nodup)
    (hrt : ∀ f ∈ fields, ∀ j x, Json.lookup f.wire kvs = some j → deFieldWith pathD f j = .ok x →
      serTyWith pathS f.ty x = .ok (fcanon f j))
    (hunit : ∀ f ∈ fields, f.skipNone = true → ∀ j x, Json.lookup f.wire kvs = some j →
      deFieldWith pathD f j = .ok x → x.isUnit = j.isNull)
    (hdef : ∀ f ∈ fields, f.default = true → isOption f.ty = true)
    (v : Val) (h : deStructMapWith pathD flat fields kvs = .ok v) :
    ∃ vals, v = .record vals ∧ vals.map (·.1) = fields.map (·.rust) ∧
      serFieldsWith pathS fields vals = .ok (expectOut fcanon fields kvs) := by
  obtain ⟨vals, rfl, hall⟩ := (struct_value pathD flat fields kvs hp hk v).mp h
  refine ⟨vals, rfl, All2.map_fst (fun _ _ hab => hab.1) hall, ?_⟩
  exact ser_of_read pathD pathS fcanon kvs vals fields hp (find_of_all2 hall hr) hrt hunit hdef

theorem keys_filterMap_sub (h : RField → Option (String × Json)) (hk : ∀ f o, h f = some o → o.1 = f.wire) :
    ∀ (fields : List RField) (k : String), k ∈ (fields.filterMap h).map (·.1) → k ∈ fields.map (·.wire)
  | [], _, hk' => by simp at hk'
  | f :: fs, k, hk' => by
    simp only [List.filterMap_cons] at hk'
    cases hf : h f with
    | none =>
      simp only [hf] at hk'
      exact List.mem_cons_of_mem _ (keys_filterMap_sub h hk fs k hk')
    | some o =>
      simp only [hf, List.map_cons, List.mem_cons] at hk'
      rcases hk' with rfl | hk'
      · simp [hk f o hf]
      · exact List.mem_cons_of_mem _ (keys_filterMap_sub h hk fs k hk')

theorem lookup_filterMap_wire (h : RField → Option (String × Json)) (hk : ∀ f o, h f = some o → o.1 = f.wire) :
    ∀ (fields : List RField), (fields.map (·.wire)).Nodup → ∀ f ∈ fields,
      Json.lookup f.wire (fields.filterMap h) = (h f).map (·.2)
  | [], _, f, hf => by simp at hf
  | g :: gs, hnd, f, hf => by
    simp only [List.map_cons, List.nodup_cons] at hnd
    simp only [List.filterMap_cons]
    rcases List.mem_cons.mp hf with rfl | hf'
    · cases hg : h f with
      | none =>
        simp only [Option.map_none]
        exact lookup_none_of_not_mem (fun hmem => hnd.1 (keys_filterMap_sub h hk gs _ hmem))
      | some o =>
        obtain ⟨k, j⟩ := o
        have := hk f (k, j) hg
        simp only at this
        subst this
        simp [Json.lookup]
    · have hne : g.wire ≠ f.wire := fun heq => hnd.1 (heq ▸ List.mem_map_of_mem hf')
      have ih := lookup_filterMap_wire h hk gs hnd.2 f hf'
      cases hg : h g with
      | none => simpa using ih
      | some o =>
        obtain ⟨k, j⟩ := o
        have := hk g (k, j) hg
        simp only at this
        subst this
        have : (g.wire == f.wire) = false := by simpa using hne
        simp only [Json.lookup, this, Bool.false_eq_true, ↓reduceIte]
        exact ih

/-- **L2, round trip, per key** (wire names pairwise distinct): under each field's key the re-serialized
    object holds the canonical form of what the original held; an absent key comes back as `null`
    (or stays absent at a `skip_serializing_none` field, where also `null` becomes absent) -/
theorem struct_roundtrip_lookup (fcanon : RField → Json → Json) (fields : List RField)
    (kvs : List (String × Json)) (hw : (fields.map (·.wire)).Nodup) (f : RField) (hf : f ∈ fields) :
    Json.lookup f.wire (expectOut fcanon fields kvs) =
      (match Json.lookup f.wire kvs with
       | some j => if f.skipNone && j.isNull then none else some (fcanon f j)
       | none => if f.skipNone then none else some .null) := by
  unfold expectOut
  rw [lookup_filterMap_wire _ _ fields hw f hf]
  · cases Json.lookup f.wire kvs with
    | none => cases f.skipNone <;> rfl
    | some j => cases hs : f.skipNone <;> cases hn : j.isNull <;> simp [hn]
  · intro g o hg
    cases hl : Json.lookup g.wire kvs with
    | none =>
      simp only [hl] at hg
      cases hs : g.skipNone <;> simp [hs] at hg
      rw [← hg]
    | some j =>
      simp only [hl] at hg
      cases hs : (g.skipNone && j.isNull) <;> simp [hs] at hg
      rw [← hg]

/-- … and no other keys: every key of the re-serialized object is a field's wire name -/
theorem struct_roundtrip_keys (fcanon : RField → Json → Json) (fields : List RField)
    (kvs : List (String × Json)) (k : String) (hk : k ∈ (expectOut fcanon fields kvs).map (·.1)) :
    k ∈ fields.map (·.wire) := by
  unfold expectOut at hk
  refine keys_filterMap_sub _ ?_ fields k hk
  intro g o hg
  cases hl : Json.lookup g.wire kvs with
  | none =>
    simp only [hl] at hg
    cases hs : g.skipNone <;> simp [hs] at hg
    rw [← hg]
  | some j =>
    simp only [hl] at hg
    cases hs : (g.skipNone && j.isNull) <;> simp [hs] at hg
    rw [← hg]

/-- response structs carry no `skip_serializing_none`: one entry per field, nothing omitted -/
theorem expectOut_noskip (fcanon : RField → Json → Json) (kvs : List (String × Json)) :
    ∀ (fields : List RField), (∀ f ∈ fields, f.skipNone = false) →
      expectOut fcanon fields kvs =
        fields.map (fun f => (f.wire, match Json.lookup f.wire kvs with | some j => fcanon f j | none => .null))
  | [], _ => rfl
  | f :: fs, h => by
    have ih := expectOut_noskip fcanon kvs fs (fun g hg => h g (by simp [hg]))
    unfold expectOut at ih ⊢
    rw [List.filterMap_cons, List.map_cons, ih]
    have hs := h f (by simp)
    cases Json.lookup f.wire kvs <;> simp [hs]

/-! ### discharging `hunit` and `hrt` for the fields the generator emits -/

theorem deTy_unit_iff (path : String → Json → D Val) :
    ∀ (ty : RTy) (j : Json) (x : Val), isOption ty = true → deTyWith path ty j = .ok x → x.isUnit = j.isNull
  | .opt t, j, x, _, h => by
    rcases de_opt_ok path t j x h with ⟨hj, rfl⟩ | ⟨hj, y, _, rfl⟩
    · simp [hj, Val.isUnit]
    · simp [hj, Val.isUnit]
  | .box t, j, x, ho, h => deTy_unit_iff path t j x (by simpa [isOption] using ho) h
  | .vec _, _, _, ho, _ => by simp [isOption] at ho
  | .path _, _, _, ho, _ => by simp [isOption] at ho

theorem intOrString_not_unit (j : Json) (x : Val) (h : deIntOrString j = .ok x) :
    x.isUnit = false ∧ j.isNull = false := by
  obtain ⟨s, rfl, _⟩ := intOrString_canon j x h
  refine ⟨rfl, ?_⟩
  cases j <;> simp_all [Json.isNull, deIntOrString, bad]

theorem deNestedId_unit_iff : ∀ (ty : RTy) (j : Json) (x : Val), deNestedId ty j = .ok x → x.isUnit = j.isNull
  | .opt t, j, x, h => by
    rw [deNestedId_ok_iff] at h
    rcases de_opt_ok _ t j x h with ⟨hj, rfl⟩ | ⟨hj, y, _, rfl⟩
    · simp [hj, Val.isUnit]
    · simp [hj, Val.isUnit]
  | .box t, j, x, h => deNestedId_unit_iff t j x h
  | .vec t, j, x, h => by
    rw [deNestedId_ok_iff] at h
    obtain ⟨xs, vs, rfl, rfl, _⟩ := de_vec_ok _ t j x h
    rfl
  | .path _, j, x, h => by
    obtain ⟨h1, h2⟩ := intOrString_not_unit j x h
    rw [h1, h2]

/-- a field read through an ID helper, or of `Option` type, holds `None` exactly when it read `null` -/
theorem field_unit_iff (path : String → Json → D Val) (f : RField)
    (hf : f.deserWith.isSome = true ∨ isOption f.ty = true) (j : Json) (x : Val)
    (h : deFieldWith path f j = .ok x) : x.isUnit = j.isNull := by
  unfold deFieldWith at h
  cases hd : f.deserWith with
  | none =>
    simp only [hd] at h
    exact deTy_unit_iff path f.ty j x (by simpa [hd] using hf) h
  | some hname =>
    simp only [hd] at h
    unfold deHelper at h
    split at h
    · obtain ⟨h1, h2⟩ := intOrString_not_unit j x h; rw [h1, h2]
    · split at h
      · cases hn : j.isNull
        · simp only [hn, Bool.false_eq_true, ↓reduceIte, map_ok] at h
          obtain ⟨y, _, rfl⟩ := h; rfl
        · simp only [hn, ↓reduceIte, pure, Except.pure, Except.ok.injEq] at h
          subst h; rfl
      · split at h
        · exact deNestedId_unit_iff f.ty j x h
        · cases h

/-- `hrt` for a field without helper whose type is `rustOf base t`: L1 -/
theorem field_roundtrip_plain (pathD : String → Json → D Val) (pathS : String → Val → D Json)
    (f : RField) (base : String) (t : GTy) (leafCanon : Json → Json)
    (hd : f.deserWith = none) (hty : f.ty = rustOf (.path base) t) (hw : wf t = true)
    (hleaf : ∀ j v, pathD base j = .ok v → pathS base v = .ok (leafCanon j))
    (j : Json) (x : Val) (h : deFieldWith pathD f j = .ok x) :
    serTyWith pathS f.ty x = .ok (canon leafCanon t j) := by
  unfold deFieldWith at h
  simp only [hd, hty] at h
  rw [hty]
  exact (leaf_roundtrip pathD pathS base leafCanon hleaf t hw).2 j x h

/-- `hrt` for the ID field `renderField` emits for a position of type `t` -/
theorem field_roundtrip_id (pathD : String → Json → D Val) (pathS : String → Val → D Json)
    (hS : ∀ s, pathS "ID" (.str s) = .ok (.str s))
    (f : RField) (t : GTy) (hd : f.deserWith = some (C16.idHelperFor t))
    (hty : f.ty = rustOf (.path "ID") t) (hw : wf t = true)
    (j : Json) (x : Val) (h : deFieldWith pathD f j = .ok x) :
    serTyWith pathS f.ty x = .ok (canon idCanon t j) := by
  unfold deFieldWith at h
  simp only [hd, hty] at h
  rw [hty]
  exact id_field_roundtrip pathS hS t hw j x h

/-! ### the same at the level of `dePath` / `serPath` (one more unit of fuel per named type) -/

/-- `p` is not one of the four built-in leaf names -/
def notPrim (p : String) : Prop := p ≠ "String" ∧ p ≠ "i64" ∧ p ≠ "f64" ∧ p ≠ "bool"

instance (p : String) : Decidable (notPrim p) := by unfold notPrim; infer_instance

theorem dePrim_none {p : String} (hp : notPrim p) (j : Json) : dePrim p j = none := by
  simp [dePrim, hp.1, hp.2.1, hp.2.2.1, hp.2.2.2]

theorem dePath_struct (e : Env) (b : Bool) (fd : Nat) (p n : String) (d : List String) (c : Option String)
    (fields : List RField) (hp : notPrim p) (he : e.find p = some (.struct n d c fields)) (j : Json) :
    dePath e b (fd + 1) p j = deStructWith (dePath e b fd) (deFlat e fd) fields j := by
  unfold dePath; simp only [dePrim_none hp, he]

theorem serPath_struct (e : Env) (fs : Nat) (p n : String) (d : List String) (c : Option String)
    (fields : List RField) (he : e.find p = some (.struct n d c fields)) (vals : List (String × Val)) :
    serPath e (fs + 1) p (.record vals) = Json.obj <$> serFieldsWith (serPath e fs) fields vals := by
  unfold serPath; simp only [serPrim, he]

/-- **L2 for a struct item of a module**: `to_value (from_value (.obj kvs)) = .obj (expectOut …)` -/
theorem struct_roundtrip_path (e : Env) (b : Bool) (fd fs : Nat) (p n : String) (d : List String)
    (c : Option String) (fields : List RField) (fcanon : RField → Json → Json) (kvs : List (String × Json))
    (hp : notPrim p) (he : e.find p = some (.struct n d c fields))
    (hpl : plain fields = true) (hr : (fields.map (·.rust)).Nodup) (hk : (kvs.map (·.1)).Nodup)
    (hrt : ∀ f ∈ fields, ∀ j x, Json.lookup f.wire kvs = some j → deFieldWith (dePath e b fd) f j = .ok x →
      serTyWith (serPath e fs) f.ty x = .ok (fcanon f j))
    (hunit : ∀ f ∈ fields, f.skipNone = true → ∀ j x, Json.lookup f.wire kvs = some j →
      deFieldWith (dePath e b fd) f j = .ok x → x.isUnit = j.isNull)
    (hdef : ∀ f ∈ fields, f.default = true → isOption f.ty = true)
    (v : Val) (h : dePath e b (fd + 1) p (.obj kvs) = .ok v) :
    serPath e (fs + 1) p v = .ok (.obj (expectOut fcanon fields kvs)) := by
  rw [dePath_struct e b fd p n d c fields hp he, deStruct_obj] at h
  obtain ⟨vals, rfl, _, hser⟩ := struct_roundtrip (dePath e b fd) (serPath e fs) (deFlat e fd) fcanon fields kvs
    hpl hr hk hrt hunit hdef v h
  rw [serPath_struct e fs p n d c fields he, hser]; rfl

/-- an object without duplicate keys whose entries satisfy `P` (`P`: whatever the fields' own round
    trips need of the values under their keys — e.g. again `accepts (objOk …)` one level down) -/
def objOk (P : List (String × Json) → Bool) : Json → Bool
  | .obj kvs => EnumSpec.nodup (kvs.map (·.1)) && P kvs
  | _ => false

/-- the allowed difference at an object position whose selection is read by the struct `fields` -/
def structCanon (fcanon : RField → Json → Json) (fields : List RField) : Json → Json
  | .obj kvs => .obj (expectOut fcanon fields kvs)
  | j => j

/-- **layers 1 + 2 composed (nested objects, lists of objects)**: a position of type `t` (any list
    depth / nullability) whose named type is a plain struct item: the round trip is `structCanon`
    applied at every object of the value, `null`s and list structure unchanged.  `hrt` is again the
    statement one level down, so this theorem feeds itself along a selection tree. -/
theorem struct_position_roundtrip (e : Env) (b : Bool) (fd fs : Nat) (p n : String) (d : List String)
    (c : Option String) (fields : List RField) (fcanon : RField → Json → Json)
    (P : List (String × Json) → Bool)
    (hp : notPrim p) (he : e.find p = some (.struct n d c fields))
    (hpl : plain fields = true) (hr : (fields.map (·.rust)).Nodup)
    (hrt : ∀ kvs, P kvs = true → ∀ f ∈ fields, ∀ j x, Json.lookup f.wire kvs = some j →
      deFieldWith (dePath e b fd) f j = .ok x → serTyWith (serPath e fs) f.ty x = .ok (fcanon f j))
    (hunit : ∀ kvs, P kvs = true → ∀ f ∈ fields, f.skipNone = true → ∀ j x, Json.lookup f.wire kvs = some j →
      deFieldWith (dePath e b fd) f j = .ok x → x.isUnit = j.isNull)
    (hdef : ∀ f ∈ fields, f.default = true → isOption f.ty = true)
    (t : GTy) (hw : wf t = true) (j : Json) (hj : accepts (objOk P) t j = true) (v : Val)
    (h : deTy e b (fd + 1) (rustOf (.path p) t) j = .ok v) :
    serTy e (fs + 1) (rustOf (.path p) t) v = .ok (canon (structCanon fcanon fields) t j) := by
  refine (leaf_roundtrip_on (dePath e b (fd + 1)) (serPath e (fs + 1)) p (objOk P) (structCanon fcanon fields) ?_ t hw).2 j v hj h
  intro j v hok hv
  cases j with
  | obj kvs =>
    simp only [objOk, Bool.and_eq_true] at hok
    exact struct_roundtrip_path e b fd fs p n d c fields fcanon kvs hp he hpl hr
      (nodup_iff'.mp hok.1) (hrt kvs hok.2) (hunit kvs hok.2) hdef v hv
  | null => simp [objOk] at hok
  | bool _ => simp [objOk] at hok
  | int _ => simp [objOk] at hok
  | num _ => simp [objOk] at hok
  | str _ => simp [objOk] at hok
  | arr _ => simp [objOk] at hok

/-! ## L5, continued: `@oneOf` and conformance of what is written -/

/-- **`@oneOf`**: a value of a `@oneOf` input type serializes to an object with exactly one key, the
    wire name of its variant, holding the serialization of the payload -/
theorem oneof_single_key (e : Env) (fuel : Nat) (p n : String) (d : List String) (c : Option String)
    (vs : List RVariant) (name : String) (payload : Option Val) (j : Json)
    (he : e.find p = some (.oneOf n d c vs))
    (h : serPath e (fuel + 1) p (.variant name payload) = .ok j) :
    ∃ var t pv jv, payload = some pv ∧ vs.find? (·.name == name) = some var ∧ var.payload = some t ∧
      serTyWith (serPath e fuel) t pv = .ok jv ∧ j = .obj [(var.wire, jv)] := by
  unfold serPath at h
  simp only [serPrim, he] at h
  cases payload with
  | none => cases h
  | some pv =>
    simp only at h
    cases hf : vs.find? (·.name == name) with
    | none => simp [hf, unmodelled] at h
    | some var =>
      simp only [hf] at h
      cases hpl : var.payload with
      | none => simp [hpl, unmodelled] at h
      | some t =>
        simp only [hpl] at h
        cases hs : serTyWith (serPath e fuel) t pv with
        | error err => simp [hs, bind, Except.bind] at h
        | ok jv =>
          simp only [hs, bind, Except.bind, pure, Except.pure, Except.ok.injEq] at h
          exact ⟨var, t, pv, jv, rfl, rfl, hpl, hs, h.symm⟩

/-- … so its key list is the singleton of the variant's wire name -/
theorem oneof_keys (e : Env) (fuel : Nat) (p n : String) (d : List String) (c : Option String)
    (vs : List RVariant) (name : String) (payload : Option Val) (j : Json)
    (he : e.find p = some (.oneOf n d c vs))
    (h : serPath e (fuel + 1) p (.variant name payload) = .ok j) :
    ∃ var, vs.find? (·.name == name) = some var ∧ (entriesOf j).map (·.map (·.1)) = some [var.wire] := by
  obtain ⟨var, t, pv, jv, _, hf, _, _, rfl⟩ := oneof_single_key e fuel p n d c vs name payload j he h
  exact ⟨var, hf, rfl⟩

theorem ser_opt_ok (path : String → Val → D Json) (t : RTy) (v : Val) (j : Json)
    (h : serTyWith path (.opt t) v = .ok j) :
    (v = .unit ∧ j = .null) ∨ ∃ x, v = .some x ∧ serTyWith path t x = .ok j := by
  cases v with
  | unit => left; simp only [serTyWith, pure, Except.pure, Except.ok.injEq] at h; exact ⟨rfl, h.symm⟩
  | some x => right; exact ⟨x, rfl, h⟩
  | str _ => cases h
  | int _ => cases h
  | float _ => cases h
  | bool _ => cases h
  | list _ => cases h
  | record _ => cases h
  | variant _ _ => cases h
  | enumOther _ => cases h

theorem ser_vec_ok (path : String → Val → D Json) (t : RTy) (v : Val) (j : Json)
    (h : serTyWith path (.vec t) v = .ok j) :
    ∃ vs js, v = .list vs ∧ j = .arr js ∧ All2 (fun x y => serTyWith path t x = .ok y) vs js := by
  cases v with
  | list vs =>
    rw [show serTyWith path (RTy.vec t) (.list vs) = Json.arr <$> vs.mapM (serTyWith path t) from rfl, map_ok] at h
    obtain ⟨js, hjs, rfl⟩ := h
    exact ⟨vs, js, rfl, rfl, (mapM_ok_forall₂ _ _ _).mp hjs⟩
  | unit => cases h
  | some _ => cases h
  | str _ => cases h
  | int _ => cases h
  | float _ => cases h
  | bool _ => cases h
  | record _ => cases h
  | variant _ _ => cases h
  | enumOther _ => cases h

theorem All2.all_right {α β} {R : α → β → Prop} {q : β → Bool} (h : ∀ a b, R a b → q b = true) :
    ∀ {xs ys}, All2 R xs ys → ys.all q = true
  | _, _, .nil => rfl
  | _, _, .cons hab rest => by simp [List.all_cons, h _ _ hab, All2.all_right h rest]

/-- **what is written conforms to the declared type** (C04): if the leaf type only ever writes values
    of the leaf kind, then a value of type `rustOf base t` is written as JSON that `t` allows — in
    particular a non-null position is never written as `null`, at any depth. -/
theorem ser_conforms (pathS : String → Val → D Json) (base : String) (leafOk : Json → Bool)
    (hleaf : ∀ v j, pathS base v = .ok j → leafOk j = true) :
    ∀ t : GTy, wf t = true →
      (∀ v j, serTyWith pathS (rustOfNN (.path base) t) v = .ok j → acceptsNN leafOk t j = true) ∧
      (∀ v j, serTyWith pathS (rustOf (.path base) t) v = .ok j → accepts leafOk t j = true) := by
  intro t
  have lift : ∀ (r : RTy) (A : Json → Bool),
      (∀ v j, serTyWith pathS r v = .ok j → A j = true) →
      ∀ v j, serTyWith pathS (.opt r) v = .ok j → (j.isNull || A j) = true := by
    intro r A hnn v j h
    rcases ser_opt_ok pathS r v j h with ⟨_, rfl⟩ | ⟨x, _, hx⟩
    · rfl
    · simp [hnn x j hx]
  induction t with
  | named n =>
    intro _
    have hnn : ∀ v j, serTyWith pathS (rustOfNN (.path base) (.named n)) v = .ok j →
        acceptsNN leafOk (.named n) j = true := by
      intro v j h
      simp only [rustOfNN, serTyWith, acceptsNN] at h ⊢
      exact hleaf v j h
    exact ⟨hnn, fun v j h => by simp only [rustOf, accepts] at h ⊢; exact lift _ _ hnn v j h⟩
  | list t ih =>
    intro hw
    obtain ⟨_, ih2⟩ := ih (by simpa [wf] using hw)
    have hnn : ∀ v j, serTyWith pathS (rustOfNN (.path base) (.list t)) v = .ok j →
        acceptsNN leafOk (.list t) j = true := by
      intro v j h
      simp only [rustOfNN] at h
      obtain ⟨vs, js, rfl, rfl, hall⟩ := ser_vec_ok pathS _ v j h
      simp only [acceptsNN]
      exact All2.all_right (fun a b hab => ih2 a b hab) hall
    exact ⟨hnn, fun v j h => by simp only [rustOf, accepts] at h ⊢; exact lift _ _ hnn v j h⟩
  | nonNull t ih =>
    intro hw
    obtain ⟨ih1, _⟩ := ih (by cases t <;> simp_all [wf])
    exact ⟨fun v j h => by simp only [rustOfNN, acceptsNN] at h ⊢; exact ih1 v j h,
           fun v j h => by simp only [rustOf, accepts] at h ⊢; exact ih1 v j h⟩

/-! ## L3 — internally tagged enums (`__typename` dispatch) -/

/-- in a list whose keys are pairwise distinct, the first element with `v`'s key (and `q`) is `v` -/
theorem find_of_nodup_key {α} (key : α → String) (q : α → Bool) :
    ∀ (xs : List α), (xs.map key).Nodup → ∀ v ∈ xs, q v = true →
      xs.find? (fun x => q x && key x == key v) = some v
  | [], _, v, hv, _ => by simp at hv
  | a :: as, hnd, v, hv, hq => by
    simp only [List.map_cons, List.nodup_cons] at hnd
    rcases List.mem_cons.mp hv with rfl | hv'
    · simp [hq]
    · have hne : key a ≠ key v := fun heq => hnd.1 (by rw [heq]; exact List.mem_map_of_mem hv')
      have : (q a && key a == key v) = false := by simp [hne]
      rw [List.find?_cons, this]
      exact find_of_nodup_key key q as hnd.2 v hv' hq

theorem find_variant_wire {vs : List RVariant} (hw : (vs.map (·.wire)).Nodup) {v : RVariant} (hv : v ∈ vs)
    (hno : v.other = false) : vs.find? (fun x => !x.other && x.wire == v.wire) = some v :=
  find_of_nodup_key (·.wire) (fun x => !x.other) vs hw v hv (by simp [hno])

theorem find_variant_name {vs : List RVariant} (hn : (vs.map (·.name)).Nodup) {v : RVariant} (hv : v ∈ vs) :
    vs.find? (·.name == v.name) = some v := by
  have := find_of_nodup_key (·.name) (fun _ => true) vs hn v hv rfl
  simpa using this

theorem dePath_tagged (e : Env) (b : Bool) (fd : Nat) (p n : String) (d : List String) (c : Option String)
    (tag : String) (vs : List RVariant) (hp : notPrim p) (he : e.find p = some (.tagged n d c tag vs))
    (kvs : List (String × Json)) :
    dePath e b (fd + 1) p (.obj kvs) = deTaggedWith (dePath e true fd) b tag vs kvs := by
  unfold dePath; simp only [dePrim_none hp, he]

/-- reading: with pairwise distinct variant wire names, exactly one tag entry, naming variant `v`,
    selects `v`; a unit variant accepts whatever else is there, a newtype variant reads its payload
    from **the other entries** (`rest`) -/
theorem tagged_read (pathB : String → Json → D Val) (buffered : Bool) (tag : String)
    (vs : List RVariant) (kvs : List (String × Json)) (v : RVariant)
    (hw : (vs.map (·.wire)).Nodup) (hv : v ∈ vs) (hno : v.other = false)
    (hcount : countKey tag kvs = 1) (htag : Json.lookup tag kvs = some (.str v.wire)) :
    deTaggedWith pathB buffered tag vs kvs =
      (match v.payload with
       | none => .ok (.variant v.name none)
       | some t => (fun x => Val.variant v.name (some x)) <$> deTyWith pathB t (.obj (kvs.filter (·.1 != tag)))) := by
  unfold deTaggedWith
  simp only [hcount, htag, find_variant_wire hw hv hno, hno, Bool.false_eq_true, ↓reduceIte]
  cases v.payload <;> rfl

/-- writing a unit variant: only the tag entry -/
theorem tagged_write_unit (e : Env) (fs : Nat) (p n : String) (d : List String) (c : Option String)
    (tag : String) (vs : List RVariant) (v : RVariant)
    (he : e.find p = some (.tagged n d c tag vs)) (hn : (vs.map (·.name)).Nodup) (hv : v ∈ vs) :
    serPath e (fs + 1) p (.variant v.name none) = .ok (.obj [(tag, .str v.wire)]) := by
  unfold serPath
  simp only [serPrim, he, find_variant_name hn hv, pure, Except.pure]

/-- writing a newtype variant: the tag entry followed by the payload's entries -/
theorem tagged_write_newtype (e : Env) (fs : Nat) (p n : String) (d : List String) (c : Option String)
    (tag : String) (vs : List RVariant) (v : RVariant) (t : RTy) (x : Val) (out : List (String × Json))
    (he : e.find p = some (.tagged n d c tag vs)) (hn : (vs.map (·.name)).Nodup) (hv : v ∈ vs)
    (hpl : v.payload = some t) (hser : serTyWith (serPath e fs) t x = .ok (.obj out)) :
    serPath e (fs + 1) p (.variant v.name (some x)) = .ok (.obj ((tag, .str v.wire) :: out)) := by
  unfold serPath
  simp only [serPrim, he, find_variant_name hn hv, hpl, hser, bind, Except.bind, entriesOf, pure, Except.pure]

/-- **L3.** An internally tagged enum with pairwise distinct variant names (Rust and wire), read from
    entries with exactly one tag entry naming the non-`other` variant `v`:
    * it is accepted iff `v` is a unit variant or `v`'s payload type accepts the other entries;
    * the value is `.variant v.name _`;
    * serializing it gives the tag entry `(tag, v.wire)` followed by the payload's entries (nothing
      for a unit variant) — `pcanon rest` is whatever the payload's own round trip yields (`hpay`, e.g.
      `struct_roundtrip_path` for the variant struct);
    * hence `lookup tag` of the result is the original tag. -/
theorem tagged_roundtrip (e : Env) (fd fs : Nat) (buffered : Bool) (p n : String) (d : List String)
    (c : Option String) (tag : String) (vs : List RVariant) (kvs : List (String × Json)) (v : RVariant)
    (pcanon : List (String × Json) → List (String × Json))
    (he : e.find p = some (.tagged n d c tag vs))
    (hw : (vs.map (·.wire)).Nodup) (hn : (vs.map (·.name)).Nodup) (hv : v ∈ vs) (hno : v.other = false)
    (hcount : countKey tag kvs = 1) (htag : Json.lookup tag kvs = some (.str v.wire))
    (hpay : ∀ t, v.payload = some t → ∀ x, deTyWith (dePath e true fd) t (.obj (kvs.filter (·.1 != tag))) = .ok x →
      serTyWith (serPath e fs) t x = .ok (.obj (pcanon (kvs.filter (·.1 != tag))))) :
    okB (deTaggedWith (dePath e true fd) buffered tag vs kvs) =
      (match v.payload with
       | none => true
       | some t => okB (deTyWith (dePath e true fd) t (.obj (kvs.filter (·.1 != tag))))) ∧
    ∀ r, deTaggedWith (dePath e true fd) buffered tag vs kvs = .ok r →
      (∃ payload, r = .variant v.name payload) ∧
      ∃ out, serPath e (fs + 1) p r = .ok (.obj out) ∧
        out = (tag, .str v.wire) :: (if v.payload.isSome then pcanon (kvs.filter (·.1 != tag)) else []) ∧
        Json.lookup tag out = some (.str v.wire) := by
  rw [tagged_read (dePath e true fd) buffered tag vs kvs v hw hv hno hcount htag]
  cases hpl : v.payload with
  | none =>
    refine ⟨rfl, ?_⟩
    intro r hr
    simp only [Except.ok.injEq] at hr
    subst hr
    exact ⟨⟨none, rfl⟩, _, tagged_write_unit e fs p n d c tag vs v he hn hv, by simp, by simp [Json.lookup]⟩
  | some t =>
    refine ⟨by simp only [okB_map], ?_⟩
    intro r hr
    simp only [map_ok] at hr
    obtain ⟨x, hx, rfl⟩ := hr
    refine ⟨⟨some x, rfl⟩, _, tagged_write_newtype e fs p n d c tag vs v t x _ he hn hv hpl (hpay t hpl x hx),
      by simp, by simp [Json.lookup]⟩

/-- the payload never sees the tag: the entries handed to a newtype variant do not contain the tag key,
    and contain every other entry, in order -/
theorem tagged_rest (tag : String) (kvs : List (String × Json)) :
    tag ∉ (kvs.filter (·.1 != tag)).map (·.1) ∧
    ∀ k, k ≠ tag → Json.lookup k (kvs.filter (·.1 != tag)) = Json.lookup k kvs := by
  constructor
  · simp [List.mem_map, List.mem_filter]
  · intro k hk
    exact lookup_filter (fun kv => kv.1 != tag) k (by intro v; simpa using hk) kvs

/-! ## the key-overlap finding, as theorems about the model

`animal { __typename name ... on Dog { name barks } }`: the struct has the own field `name` and the
flattened `on: QAnimalOn`; the variant struct `QAnimalOnDog` selects `name` again.  serde's own-key
loop consumes `name` before the flattened member sees the buffer. -/

def overlapEnv : Env :=
  { items := [
      .struct "QAnimal" [] none
        [{ rust := "name", ty := .path "String" }, { rust := "on", ty := .path "QAnimalOn", flatten := true }],
      .tagged "QAnimalOn" [] none "__typename"
        [{ name := "Dog", payload := some (.path "QAnimalOnDog") }, { name := "Cat" }],
      .struct "QAnimalOnDog" [] none
        [{ rust := "name", ty := .path "String" }, { rust := "barks", ty := .path "bool" }] ] }

/-- the same with a *nullable* `name` in the variant -/
def overlapEnvOpt : Env :=
  { items := [
      .struct "QAnimal" [] none
        [{ rust := "name", ty := .path "String" }, { rust := "on", ty := .path "QAnimalOn", flatten := true }],
      .tagged "QAnimalOn" [] none "__typename"
        [{ name := "Dog", payload := some (.path "QAnimalOnDog") }, { name := "Cat" }],
      .struct "QAnimalOnDog" [] none
        [{ rust := "name", ty := .opt (.path "String") }, { rust := "barks", ty := .path "bool" }] ] }

/-- control: the variant does not select `name` (readers' key sets disjoint) -/
def disjointEnv : Env :=
  { items := [
      .struct "QAnimal" [] none
        [{ rust := "name", ty := .path "String" }, { rust := "on", ty := .path "QAnimalOn", flatten := true }],
      .tagged "QAnimalOn" [] none "__typename"
        [{ name := "Dog", payload := some (.path "QAnimalOnDog") }, { name := "Cat" }],
      .struct "QAnimalOnDog" [] none [{ rust := "barks", ty := .path "bool" }] ] }

/-- a conforming response object for that selection -/
def overlapJson : Json := .obj [("__typename", .str "Dog"), ("name", .str "Rex"), ("barks", .bool true)]

/-- **key overlap loses the key** (known finding; witness as a theorem about the model): the
    conforming object is *rejected*, with `missing field name`, because the own field consumed `name` -/
theorem overlap_loses_key :
    Serde.de overlapEnv (.path "QAnimal") overlapJson = .error (.mismatch "missing field name") := by
  rfl

/-- with a nullable field in the variant the loss is **silent**: the object is accepted, the variant's
    `name` reads as `None`, and `to_value (from_value j)` carries `"name": null` instead of `"Rex"`
    (the two `name` entries collapse in `serde_json::Map`, the last one wins) -/
theorem overlap_loses_key_silently :
    Serde.de overlapEnvOpt (.path "QAnimal") overlapJson = .ok (.record
      [("name", .str "Rex"), ("on", .variant "Dog" (some (.record [("name", .unit), ("barks", .bool true)])))]) ∧
    Serde.roundtrip overlapEnvOpt (.path "QAnimal") overlapJson =
      .ok (.obj [("name", .null), ("__typename", .str "Dog"), ("barks", .bool true)]) := by
  constructor <;> rfl

/-- control: with disjoint key sets the same object round-trips to itself up to key order -/
theorem disjoint_control :
    Serde.roundtrip disjointEnv (.path "QAnimal") overlapJson =
      .ok (.obj [("name", .str "Rex"), ("__typename", .str "Dog"), ("barks", .bool true)]) := by
  rfl

/-! ## L4 — one flattened member that is a plain struct (named fragment on the type itself) -/

theorem present_map_some (l : List (String × Json)) : present (l.map some) = l := by
  induction l with
  | nil => rfl
  | cons x xs ih => simp only [present, List.map_cons, List.filterMap_cons, id] at ih ⊢; rw [ih]

/-- `takeKeys` takes exactly the present entries whose key is recognised, in order -/
theorem takeKeys_fst (keys : List String) :
    ∀ buf : Buf, (takeKeys keys buf).1 = (present buf).filter (fun kv => keys.contains kv.1)
  | [] => rfl
  | none :: rest => by
    have ih := takeKeys_fst keys rest
    simp only [takeKeys, present, List.filterMap_cons, id] at ih ⊢
    exact ih
  | some (k, v) :: rest => by
    have ih := takeKeys_fst keys rest
    simp only [takeKeys, present, List.filterMap_cons, id, List.filter_cons] at ih ⊢
    cases hk : keys.contains k <;> simp [ih]

theorem deFlat_plain_struct (e : Env) (fuel : Nat) (q n : String) (d : List String) (c : Option String)
    (gfields : List RField) (buf : Buf) (he : e.find q = some (.struct n d c gfields))
    (hgp : plain gfields = true) :
    deFlat e (fuel + 1) (.path q) buf =
      (do let own ← deOwnWith (dePath e true fuel) gfields (takeKeys (gfields.map (·.wire)) buf).1
          pure (.record own, (takeKeys (gfields.map (·.wire)) buf).2)) := by
  unfold deFlat
  simp only [he, any_flatten_of_plain hgp, Bool.false_eq_true, ↓reduceIte]

theorem deFlats_plain (flat : RTy → Buf → D (Val × Buf)) :
    ∀ (fs : List RField) (buf : Buf), plain fs = true → deFlatsWith flat fs buf = pure []
  | [], _, _ => rfl
  | f :: fs, buf, hp => by
    obtain ⟨hf, hp'⟩ := plain_cons hp
    simp only [deFlatsWith, hf, Bool.not_false, ↓reduceIte]
    exact deFlats_plain flat fs buf hp'

theorem deFlats_one (flat : RTy → Buf → D (Val × Buf)) (g : RField) (post : List RField)
    (hg : g.flatten = true) (hpost : plain post = true) :
    ∀ (pre : List RField) (buf : Buf), plain pre = true →
      deFlatsWith flat (pre ++ g :: post) buf = (do let r ← flat g.ty buf; pure [(g.rust, r.1)])
  | [], buf, _ => by
    simp only [List.nil_append, deFlatsWith, hg, Bool.not_true, Bool.false_eq_true, ↓reduceIte]
    cases flat g.ty buf with
    | error err => rfl
    | ok r =>
      obtain ⟨v, buf'⟩ := r
      simp only [bind, Except.bind, deFlats_plain flat post buf' hpost, pure, Except.pure]
  | f :: fs, buf, hp => by
    obtain ⟨hf, hp'⟩ := plain_cons hp
    simp only [List.cons_append, deFlatsWith, hf, Bool.not_false, ↓reduceIte]
    exact deFlats_one flat g post hg hpost fs buf hp'

/-- the own-field loop skips a flattened member -/
theorem deOwn_skip (path : String → Json → D Val) (g : RField) (post : List RField)
    (kvs : List (String × Json)) (hg : g.flatten = true) :
    ∀ (pre : List RField), deOwnWith path (pre ++ g :: post) kvs = deOwnWith path (pre ++ post) kvs
  | [] => by
    simp only [List.nil_append, deOwnWith, hg, ↓reduceIte]
    cases deOwnWith path post kvs <;> rfl
  | f :: fs => by
    simp only [List.cons_append, deOwnWith, deOwn_skip path g post kvs hg fs]

theorem All2.append {α β} {R : α → β → Prop} :
    ∀ {xs as ys bs}, All2 R xs as → All2 R ys bs → All2 R (xs ++ ys) (as ++ bs)
  | _, _, _, _, .nil, h => h
  | _, _, _, _, .cons hab rest, h => .cons hab (All2.append rest h)

theorem All2.append_inv {α β} {R : α → β → Prop} :
    ∀ (xs : List α) {ys : List α} {zs : List β}, All2 R (xs ++ ys) zs →
      ∃ as bs, zs = as ++ bs ∧ All2 R xs as ∧ All2 R ys bs
  | [], _, zs, h => ⟨[], zs, rfl, .nil, h⟩
  | x :: xs, _, _, h => by
    cases h with
    | cons hab rest =>
      obtain ⟨as, bs, rfl, h1, h2⟩ := All2.append_inv xs rest
      exact ⟨_ :: as, bs, rfl, .cons hab h1, h2⟩

theorem All2.imp_mem2 {α β} {R S : α → β → Prop} :
    ∀ {xs ys}, (∀ a ∈ xs, ∀ b ∈ ys, R a b → S a b) → All2 R xs ys → All2 S xs ys
  | _, _, _, .nil => .nil
  | _, _, h, .cons hab rest =>
    .cons (h _ (by simp) _ (by simp) hab)
      (All2.imp_mem2 (fun a ha b hb hr => h a (by simp [ha]) b (by simp [hb]) hr) rest)

theorem filterMap_find (L : List (String × Val)) :
    ∀ {fs : List RField} {ps : List (String × Val)},
      All2 (fun f p => L.find? (·.1 == f.rust) = some p) fs ps →
      fs.filterMap (fun f => L.find? (·.1 == f.rust)) = ps
  | _, _, .nil => rfl
  | _, _, .cons hab rest => by rw [List.filterMap_cons, hab, filterMap_find L rest]

/-- putting the record back into declaration order (`deStructMapWith`'s last step) -/
theorem assemble (pre post : List RField) (g : RField) (a c : List (String × Val)) (x : Val)
    (ha : All2 (fun f p => p.1 = f.rust) pre a) (hc : All2 (fun f p => p.1 = f.rust) post c)
    (hr : ((pre ++ g :: post).map (·.rust)).Nodup) :
    (pre ++ g :: post).filterMap (fun f => ((a ++ c) ++ [(g.rust, x)]).find? (·.1 == f.rust)) =
      a ++ (g.rust, x) :: c := by
  have hna : a.map (·.1) = pre.map (·.rust) := All2.map_fst (fun _ _ h => h) ha
  have hnc : c.map (·.1) = post.map (·.rust) := All2.map_fst (fun _ _ h => h) hc
  have hL : (((a ++ c) ++ [(g.rust, x)]).map (·.1)).Nodup := by
    simp only [List.map_append, List.map_cons, List.map_nil, hna, hnc]
    simp only [List.map_append, List.map_cons] at hr
    have := List.Perm.nodup_iff (List.perm_middle (l₁ := pre.map (·.rust)) (l₂ := post.map (·.rust)) (a := g.rust))
    rw [this] at hr
    have h2 : (List.map (fun x => x.rust) pre ++ List.map (fun x => x.rust) post ++ [g.rust]).Perm
        (g.rust :: (List.map (fun x => x.rust) pre ++ List.map (fun x => x.rust) post)) := by
      simpa using List.perm_append_comm (l₁ := List.map (fun x => x.rust) pre ++ List.map (fun x => x.rust) post) (l₂ := [g.rust])
    exact (List.Perm.nodup_iff h2).mpr hr
  have hfind : ∀ p ∈ (a ++ c) ++ [(g.rust, x)], ((a ++ c) ++ [(g.rust, x)]).find? (·.1 == p.1) = some p := by
    intro p hp
    have := find_of_nodup_key (fun p : String × Val => p.1) (fun _ => true) _ hL p hp rfl
    simpa using this
  have h1 : All2 (fun f p => ((a ++ c) ++ [(g.rust, x)]).find? (·.1 == f.rust) = some p) pre a :=
    ha.imp_mem2 (fun f _ p hp h => by rw [← h]; exact hfind p (by simp [hp]))
  have h3 : All2 (fun f p => ((a ++ c) ++ [(g.rust, x)]).find? (·.1 == f.rust) = some p) post c :=
    hc.imp_mem2 (fun f _ p hp h => by rw [← h]; exact hfind p (by simp [hp]))
  have h2 := hfind (g.rust, x) (by simp)
  rw [List.filterMap_append, List.filterMap_cons, filterMap_find _ h1, filterMap_find _ h3]
  simp only at h2
  rw [h2]

theorem filter_plain {fs : List RField} (h : plain fs = true) : fs.filter (fun f => !f.flatten) = fs := by
  rw [List.filter_eq_self]
  intro f hf
  have := List.all_eq_true.mp h f hf
  simpa using this

theorem plain_append {xs ys : List RField} (hx : plain xs = true) (hy : plain ys = true) :
    plain (xs ++ ys) = true := by
  simp only [plain, List.all_append, Bool.and_eq_true] at *
  exact ⟨hx, hy⟩

/-- the whole reader of a struct with one flattened plain-struct member, as one equation: own fields
    from `kvs`, the member from **the entries the own fields left, restricted to its keys** -/
theorem flatten_eq (e : Env) (fuel : Nat) (pathD : String → Json → D Val)
    (pre post : List RField) (g : RField) (q n : String) (d : List String) (c : Option String)
    (gfields : List RField) (kvs : List (String × Json))
    (hpre : plain pre = true) (hpost : plain post = true) (hg : g.flatten = true) (hty : g.ty = .path q)
    (he : e.find q = some (.struct n d c gfields)) (hgp : plain gfields = true) :
    deStructMapWith pathD (deFlat e (fuel + 1)) (pre ++ g :: post) kvs =
      (do let own ← deOwnWith pathD (pre ++ post) kvs
          let inner ← deOwnWith (dePath e true fuel) gfields
            ((kvs.filter (fun kv => !((pre ++ post).map (·.wire)).contains kv.1)).filter
              (fun kv => (gfields.map (·.wire)).contains kv.1))
          pure (.record ((pre ++ g :: post).filterMap fun f =>
            ((own ++ [(g.rust, Val.record inner)]).find? (·.1 == f.rust))))) := by
  unfold deStructMapWith
  have hany : (pre ++ g :: post).any (·.flatten) = true := by simp [hg]
  have hown : ((pre ++ g :: post).filter (fun f => !f.flatten)).map (·.wire) = (pre ++ post).map (·.wire) := by
    simp [List.filter_append, hg, filter_plain hpre, filter_plain hpost]
  rw [deOwn_skip pathD g post kvs hg pre]
  simp only [hany, ↓reduceIte, hown, deFlats_one _ g post hg hpost pre _ hpre, hty,
    deFlat_plain_struct e fuel q n d c gfields _ he hgp, takeKeys_fst, present_map_some]
  cases deOwnWith pathD (pre ++ post) kvs with
  | error err => rfl
  | ok own =>
    simp only [bind, Except.bind]
    cases deOwnWith (dePath e true fuel) gfields _ <;> rfl

theorem deOwn_append_ok (path : String → Json → D Val) (kvs : List (String × Json))
    (hc : ∀ k, countKey k kvs ≤ 1) (xs ys : List RField) (hx : plain xs = true) (hy : plain ys = true)
    (own : List (String × Val)) :
    deOwnWith path (xs ++ ys) kvs = .ok own ↔
      ∃ a c, own = a ++ c ∧ deOwnWith path xs kvs = .ok a ∧ deOwnWith path ys kvs = .ok c := by
  rw [deOwn_ok_iff path kvs hc (xs ++ ys) own (plain_append hx hy)]
  constructor
  · intro h
    obtain ⟨a, c, rfl, h1, h2⟩ := All2.append_inv xs h
    exact ⟨a, c, rfl, (deOwn_ok_iff path kvs hc xs a hx).mpr h1, (deOwn_ok_iff path kvs hc ys c hy).mpr h2⟩
  · rintro ⟨a, c, rfl, h1, h2⟩
    exact All2.append ((deOwn_ok_iff path kvs hc xs a hx).mp h1) ((deOwn_ok_iff path kvs hc ys c hy).mp h2)

/-- **L4, reading.** A struct `pre ++ g :: post` whose only flattened member `g` is a plain struct
    `gfields`, read from an object without duplicate keys: it succeeds iff the own fields succeed on
    `kvs` and the member succeeds on **the entries the own fields left, restricted to its own keys**
    (what `takeKeys` hands it); the value is the record in declaration order. -/
theorem flatten_take_roundtrip (e : Env) (fuel : Nat) (pathD : String → Json → D Val)
    (pre post : List RField) (g : RField) (q n : String) (d : List String) (c : Option String)
    (gfields : List RField) (kvs : List (String × Json))
    (hpre : plain pre = true) (hpost : plain post = true) (hg : g.flatten = true) (hty : g.ty = .path q)
    (he : e.find q = some (.struct n d c gfields)) (hgp : plain gfields = true)
    (hr : ((pre ++ g :: post).map (·.rust)).Nodup) (hk : (kvs.map (·.1)).Nodup) (r : Val) :
    deStructMapWith pathD (deFlat e (fuel + 1)) (pre ++ g :: post) kvs = .ok r ↔
      ∃ a inner c', deOwnWith pathD pre kvs = .ok a ∧ deOwnWith pathD post kvs = .ok c' ∧
        deOwnWith (dePath e true fuel) gfields
          ((kvs.filter (fun kv => !((pre ++ post).map (·.wire)).contains kv.1)).filter
            (fun kv => (gfields.map (·.wire)).contains kv.1)) = .ok inner ∧
        r = .record (a ++ (g.rust, .record inner) :: c') := by
  have hc := countKey_le_one_of_nodup hk
  rw [flatten_eq e fuel pathD pre post g q n d c gfields kvs hpre hpost hg hty he hgp]
  constructor
  · intro h
    cases ho : deOwnWith pathD (pre ++ post) kvs with
    | error err => simp [ho, bind, Except.bind] at h
    | ok own =>
      obtain ⟨a, c', rfl, h1, h2⟩ := (deOwn_append_ok pathD kvs hc pre post hpre hpost own).mp ho
      cases hi : deOwnWith (dePath e true fuel) gfields
          ((kvs.filter (fun kv => !((pre ++ post).map (·.wire)).contains kv.1)).filter
            (fun kv => (gfields.map (·.wire)).contains kv.1)) with
      | error err => simp only [ho, hi, bind, Except.bind, reduceCtorEq] at h
      | ok inner =>
        simp only [ho, hi, bind, Except.bind, pure, Except.pure, Except.ok.injEq] at h
        refine ⟨a, inner, c', h1, h2, rfl, ?_⟩
        rw [← h, assemble pre post g a c' (.record inner)
          (((deOwn_ok_iff pathD kvs hc pre a hpre).mp h1).imp (fun _ _ hh => hh.1))
          (((deOwn_ok_iff pathD kvs hc post c' hpost).mp h2).imp (fun _ _ hh => hh.1)) hr]
  · rintro ⟨a, inner, c', h1, h2, hi, rfl⟩
    have ho := (deOwn_append_ok pathD kvs hc pre post hpre hpost (a ++ c')).mpr ⟨a, c', rfl, h1, h2⟩
    simp only [ho, hi, bind, Except.bind, pure, Except.pure]
    rw [assemble pre post g a c' (.record inner)
      (((deOwn_ok_iff pathD kvs hc pre a hpre).mp h1).imp (fun _ _ hh => hh.1))
      (((deOwn_ok_iff pathD kvs hc post c' hpost).mp h2).imp (fun _ _ hh => hh.1)) hr]

/-- with key sets disjoint from the own fields' keys nothing the member wants has been consumed:
    it reads exactly what it would read from the whole object -/
theorem remaining_disjoint (path : String → Json → D Val) (own gfields : List RField) (kvs : List (String × Json))
    (hdisj : ∀ f ∈ own, ∀ h ∈ gfields, f.wire ≠ h.wire) :
    deOwnWith path gfields
      ((kvs.filter (fun kv => !(own.map (·.wire)).contains kv.1)).filter
        (fun kv => (gfields.map (·.wire)).contains kv.1)) = deOwnWith path gfields kvs := by
  have : (kvs.filter (fun kv => !(own.map (·.wire)).contains kv.1)).filter
        (fun kv => (gfields.map (·.wire)).contains kv.1) =
      kvs.filter (fun kv => (gfields.map (·.wire)).contains kv.1) := by
    rw [List.filter_filter]
    apply List.filter_congr
    intro kv _
    cases hgk : (gfields.map (·.wire)).contains kv.1
    · rfl
    · simp only [Bool.true_and, Bool.not_eq_true']
      simp only [List.contains_iff_mem, List.mem_map] at hgk
      obtain ⟨h, hh, hw⟩ := hgk
      cases hok : (own.map (·.wire)).contains kv.1
      · rfl
      · simp only [List.contains_iff_mem, List.mem_map] at hok
        obtain ⟨f, hf, hfw⟩ := hok
        exact absurd (hfw.trans hw.symm) (hdisj f hf h hh)
  rw [this]
  exact deOwn_filter path _ kvs gfields (fun f hf _ => List.mem_map_of_mem hf)

/-! ### L4, writing -/

theorem serFields_append (pathS : String → Val → D Json) (vals : List (String × Val)) (ys : List RField)
    (o2 : List (String × Json)) (h2 : serFieldsWith pathS ys vals = .ok o2) :
    ∀ (xs : List RField) (o1 : List (String × Json)), plain xs = true →
      serFieldsWith pathS xs vals = .ok o1 → serFieldsWith pathS (xs ++ ys) vals = .ok (o1 ++ o2)
  | [], o1, _, h1 => by cases h1; exact h2
  | x :: xs, o1, hp, h1 => by
    obtain ⟨hx, hp'⟩ := plain_cons hp
    rw [serFields_cons pathS x xs vals hx] at h1
    rw [List.cons_append, serFields_cons pathS x (xs ++ ys) vals hx]
    cases hr : serFieldsWith pathS xs vals with
    | error err => simp [hr, bind, Except.bind] at h1
    | ok rest =>
      rw [serFields_append pathS vals ys o2 h2 xs rest hp' hr]
      simp only [hr, bind, Except.bind] at h1 ⊢
      cases hfind : vals.find? (·.1 == x.rust) with
      | none => simp [hfind, unmodelled] at h1
      | some nv =>
        obtain ⟨n, v⟩ := nv
        simp only [hfind] at h1 ⊢
        cases hskip : (x.skipNone && v.isUnit)
        · simp only [hskip, Bool.false_eq_true, ↓reduceIte] at h1 ⊢
          cases hs : serTyWith pathS x.ty v with
          | error err => simp [hs] at h1
          | ok j =>
            simp only [hs, pure, Except.pure, Except.ok.injEq] at h1 ⊢
            rw [← h1]; rfl
        · simp only [hskip, ↓reduceIte, pure, Except.pure, Except.ok.injEq] at h1 ⊢
          rw [h1]

/-- **L4, writing**: serialization concatenates the own entries before the member, the member's
    entries, and the own entries after it -/
theorem flatten_ser_concat (pathS : String → Val → D Json) (vals : List (String × Val))
    (pre post : List RField) (g : RField) (gname : String) (gv : Val) (o1 o2 o3 : List (String × Json))
    (hpre : plain pre = true) (hg : g.flatten = true)
    (hfind : vals.find? (·.1 == g.rust) = some (gname, gv))
    (h1 : serFieldsWith pathS pre vals = .ok o1)
    (h2 : serTyWith pathS g.ty gv = .ok (.obj o2))
    (h3 : serFieldsWith pathS post vals = .ok o3) :
    serFieldsWith pathS (pre ++ g :: post) vals = .ok (o1 ++ (o2 ++ o3)) := by
  apply serFields_append pathS vals (g :: post) (o2 ++ o3) _ pre o1 hpre h1
  simp only [serFieldsWith, h3, hfind, hg, h2, entriesOf, bind, Except.bind, ↓reduceIte, pure, Except.pure]

theorem not_flatten_of_plain {fs : List RField} (h : plain fs = true) {f : RField} (hf : f ∈ fs) :
    f.flatten = false := by
  have := List.all_eq_true.mp h f hf
  simpa using this

/-- **L4, round trip** of a struct item `p = pre ++ g :: post` with one flattened member `g : q`,
    `q` a plain struct item whose keys are disjoint from the own fields' keys: the re-serialized object
    is the own entries before `g`, then the member's entries, then the own entries after `g` — each
    part exactly as in L2 (`expectOut`), each read from the *whole* object. -/
theorem flatten_roundtrip (e : Env) (b : Bool) (fuel fs : Nat) (p n' : String) (d' : List String)
    (c' : Option String) (pre post : List RField) (g : RField) (q n : String) (d : List String)
    (c : Option String) (gfields : List RField) (kvs : List (String × Json))
    (fcanon gcanon : RField → Json → Json)
    (hp : notPrim p) (hep : e.find p = some (.struct n' d' c' (pre ++ g :: post)))
    (hpre : plain pre = true) (hpost : plain post = true) (hg : g.flatten = true) (hty : g.ty = .path q)
    (he : e.find q = some (.struct n d c gfields)) (hgp : plain gfields = true)
    (hr : ((pre ++ g :: post).map (·.rust)).Nodup) (hgr : (gfields.map (·.rust)).Nodup)
    (hk : (kvs.map (·.1)).Nodup)
    (hdisj : ∀ f ∈ pre ++ post, ∀ h ∈ gfields, f.wire ≠ h.wire)
    (hrt : ∀ f ∈ pre ++ post, ∀ j x, Json.lookup f.wire kvs = some j →
      deFieldWith (dePath e b (fuel + 1)) f j = .ok x → serTyWith (serPath e (fs + 1)) f.ty x = .ok (fcanon f j))
    (hunit : ∀ f ∈ pre ++ post, f.skipNone = true → ∀ j x, Json.lookup f.wire kvs = some j →
      deFieldWith (dePath e b (fuel + 1)) f j = .ok x → x.isUnit = j.isNull)
    (hdef : ∀ f ∈ pre ++ post, f.default = true → isOption f.ty = true)
    (hrtg : ∀ f ∈ gfields, ∀ j x, Json.lookup f.wire kvs = some j →
      deFieldWith (dePath e true fuel) f j = .ok x → serTyWith (serPath e fs) f.ty x = .ok (gcanon f j))
    (hunitg : ∀ f ∈ gfields, f.skipNone = true → ∀ j x, Json.lookup f.wire kvs = some j →
      deFieldWith (dePath e true fuel) f j = .ok x → x.isUnit = j.isNull)
    (hdefg : ∀ f ∈ gfields, f.default = true → isOption f.ty = true)
    (r : Val) (h : dePath e b (fuel + 2) p (.obj kvs) = .ok r) :
    serPath e (fs + 2) p r =
      .ok (.obj (expectOut fcanon pre kvs ++ (expectOut gcanon gfields kvs ++ expectOut fcanon post kvs))) := by
  rw [dePath_struct e b (fuel + 1) p n' d' c' _ hp hep, deStruct_obj] at h
  obtain ⟨a, inner, cc, h1, h2, hi, rfl⟩ :=
    (flatten_take_roundtrip e fuel (dePath e b (fuel + 1)) pre post g q n d c gfields kvs
      hpre hpost hg hty he hgp hr hk r).mp h
  rw [remaining_disjoint _ (pre ++ post) gfields kvs hdisj] at hi
  have hc := countKey_le_one_of_nodup hk
  have ha := (deOwn_ok_iff _ kvs hc pre a hpre).mp h1
  have hcc := (deOwn_ok_iff _ kvs hc post cc hpost).mp h2
  have hin := (deOwn_ok_iff _ kvs hc gfields inner hgp).mp hi
  -- every field of `p` finds its value again by name
  have hall : All2 (fun f pv => pv.1 = f.rust ∧
      (if f.flatten then pv.2 = .record inner else readField (dePath e b (fuel + 1)) f kvs = .ok pv.2))
      (pre ++ g :: post) (a ++ (g.rust, .record inner) :: cc) := by
    refine All2.append (ha.imp_mem (fun f hf pv hh => ⟨hh.1, ?_⟩))
      (.cons ⟨rfl, by simp [hg]⟩ (hcc.imp_mem (fun f hf pv hh => ⟨hh.1, ?_⟩)))
    · simp only [not_flatten_of_plain hpre hf, Bool.false_eq_true, ↓reduceIte]; exact hh.2
    · simp only [not_flatten_of_plain hpost hf, Bool.false_eq_true, ↓reduceIte]; exact hh.2
  have hfind := find_of_all2 (R := fun f x =>
      if f.flatten then x = .record inner else readField (dePath e b (fuel + 1)) f kvs = .ok x) hall hr
  have hs1 : serFieldsWith (serPath e (fs + 1)) pre (a ++ (g.rust, .record inner) :: cc) =
      .ok (expectOut fcanon pre kvs) := by
    refine ser_of_read _ _ fcanon kvs _ pre hpre ?_ (fun f hf => hrt f (by simp [hf]))
      (fun f hf => hunit f (by simp [hf])) (fun f hf => hdef f (by simp [hf]))
    intro f hf
    obtain ⟨x, hx, hR⟩ := hfind f (by simp [hf])
    simp only [not_flatten_of_plain hpre hf, Bool.false_eq_true, ↓reduceIte] at hR
    exact ⟨x, hx, hR⟩
  have hs3 : serFieldsWith (serPath e (fs + 1)) post (a ++ (g.rust, .record inner) :: cc) =
      .ok (expectOut fcanon post kvs) := by
    refine ser_of_read _ _ fcanon kvs _ post hpost ?_ (fun f hf => hrt f (by simp [hf]))
      (fun f hf => hunit f (by simp [hf])) (fun f hf => hdef f (by simp [hf]))
    intro f hf
    obtain ⟨x, hx, hR⟩ := hfind f (by simp [hf])
    simp only [not_flatten_of_plain hpost hf, Bool.false_eq_true, ↓reduceIte] at hR
    exact ⟨x, hx, hR⟩
  obtain ⟨x, hgx, hR⟩ := hfind g (by simp)
  simp only [hg, ↓reduceIte] at hR
  subst hR
  have hs2 : serTyWith (serPath e (fs + 1)) g.ty (.record inner) = .ok (.obj (expectOut gcanon gfields kvs)) := by
    rw [hty, show serTyWith (serPath e (fs + 1)) (.path q) (.record inner) = serPath e (fs + 1) q (.record inner) from rfl,
      serPath_struct e fs q n d c gfields he inner,
      ser_of_read (dePath e true fuel) (serPath e fs) gcanon kvs inner gfields hgp (find_of_all2 hin hgr) hrtg hunitg hdefg]
    rfl
  rw [serPath_struct e (fs + 1) p n' d' c' _ hep,
    flatten_ser_concat _ _ pre post g g.rust (.record inner) _ _ _ hpre hg hgx hs1 hs2 hs3]
  rfl

/-! ## the side conditions are satisfiable, and the layers compose: a concrete module

`hero { name age id friends { name } }` with `name: String!`, `age: Int`, `id: ID!`,
`friends: [Friend!]`.  Everything below is for **every** object `kvs` without duplicate keys. -/

def demoEnv : Env :=
  { items := Codegen.builtinAliases ++ [
      .struct "QHero" [] none
        [{ rust := "name", ty := .path "String" },
         { rust := "age", ty := .opt (.path "Int") },
         { rust := "id", ty := .path "ID", deserWith := some "graphql_client::serde_with::deserialize_id" },
         { rust := "friends", ty := .opt (.vec (.path "QHeroFriends")) }],
      .struct "QHeroFriends" [] none [{ rust := "name", ty := .path "String" }] ] }

def friendFields : List RField := [{ rust := "name", ty := .path "String" }]

def heroFields : List RField :=
  [{ rust := "name", ty := .path "String" },
   { rust := "age", ty := .opt (.path "Int") },
   { rust := "id", ty := .path "ID", deserWith := some "graphql_client::serde_with::deserialize_id" },
   { rust := "friends", ty := .opt (.vec (.path "QHeroFriends")) }]

example : plain heroFields = true ∧ (heroFields.map (·.rust)).Nodup ∧ (heroFields.map (·.wire)).Nodup ∧
    (∀ f ∈ heroFields, f.default = true → isOption f.ty = true) := by decide

def friendCanon : RField → Json → Json := fun _ j => j

def heroCanon : RField → Json → Json := fun f j =>
  if f.rust == "id" then idCanon j
  else if f.rust == "friends" then canon (structCanon friendCanon friendFields) (.list (.nonNull (.named "Friend"))) j
  else j

/-- layer 2 on `QHeroFriends`, then layers 1+2 for the `friends` position, then layer 2 on `QHero` -/
example (b : Bool) (k m : Nat) (kvs : List (String × Json)) (hk : (kvs.map (·.1)).Nodup) (v : Val)
    -- the value under `friends` is well-formed JSON for `[Friend!]`: objects without duplicate keys
    (hfr : ∀ j, Json.lookup "friends" kvs = some j →
      accepts (objOk (fun _ => true)) (.list (.nonNull (.named "Friend"))) j = true)
    (h : dePath demoEnv b (k + 4) "QHero" (.obj kvs) = .ok v) :
    serPath demoEnv (m + 3) "QHero" v = .ok (.obj (expectOut heroCanon heroFields kvs)) := by
  have hInt : demoEnv.find "Int" = some (.alias "Int" false (.path "i64")) := rfl
  refine struct_roundtrip_path demoEnv b (k + 3) (m + 2) "QHero" "QHero" [] none heroFields heroCanon kvs
    (by decide) rfl (by decide) (by decide) hk ?_ ?_ (by decide) v h
  · -- `hrt`
    intro f hf j x hl hx
    simp only [heroFields, List.mem_cons, List.not_mem_nil, or_false] at hf
    rcases hf with rfl | rfl | rfl | rfl
    · have := field_roundtrip_plain _ (serPath demoEnv (m + 2)) _ "String" (.nonNull (.named "String")) id rfl
        (by simp [rustOf, rustOfNN]) rfl (leaf_string_rt demoEnv b (k + 2) (m + 1)) j x hx
      rw [(canon_id _).2 j] at this
      simpa [heroCanon] using this
    · have := field_roundtrip_plain _ (serPath demoEnv (m + 2)) _ "Int" (.named "Int") id rfl
        (by simp [rustOf, rustOfNN]) rfl (leaf_int_rt demoEnv b (k + 1) (m + 1) hInt) j x hx
      rw [(canon_id _).2 j] at this
      simpa [heroCanon] using this
    · have := field_roundtrip_id _ (serPath demoEnv (m + 2)) (fun s => serPath_prim demoEnv (m + 1) "ID" _ _ rfl)
        _ (.nonNull (.named "ID")) rfl (by simp [rustOf, rustOfNN]) rfl j x hx
      simpa [heroCanon, canon, canonNN] using this
    · -- the nested object position: layers 1 + 2
      unfold deFieldWith at hx
      simp only at hx
      have hx' : deTy demoEnv b (k + 2 + 1) (rustOf (.path "QHeroFriends") (.list (.nonNull (.named "Friend")))) j = .ok x := by
        simpa [deTy, rustOf, rustOfNN] using hx
      have := struct_position_roundtrip demoEnv b (k + 2) (m + 1) "QHeroFriends" "QHeroFriends" [] none
        friendFields friendCanon (fun _ => true) (by decide) rfl (by decide) (by decide)
        (by
          intro _ _ f hf j x _ hx
          simp only [friendFields, List.mem_cons, List.not_mem_nil, or_false] at hf
          subst hf
          have := field_roundtrip_plain _ (serPath demoEnv (m + 1)) _ "String" (.nonNull (.named "String")) id rfl
            (by simp [rustOf, rustOfNN]) rfl (leaf_string_rt demoEnv b (k + 1) m) j x hx
          rwa [(canon_id _).2 j] at this)
        (by
          intro _ _ f hf hs
          simp only [friendFields, List.mem_cons, List.not_mem_nil, or_false] at hf
          subst hf; simp at hs)
        (by decide) (.list (.nonNull (.named "Friend"))) rfl j (hfr j hl) x hx'
      simpa [serTy, rustOf, rustOfNN, heroCanon] using this
  · -- `hunit`: no field carries `skip_serializing_none`
    intro f hf hs
    simp only [heroFields, List.mem_cons, List.not_mem_nil, or_false] at hf
    rcases hf with rfl | rfl | rfl | rfl <;> simp at hs

/-! ### the side conditions of L3, L4, L5 on concrete items -/

-- L3: the tagged enum of `overlapEnv`, read from `overlapJson`'s entries
example :
    let vs : List RVariant := [{ name := "Dog", payload := some (.path "QAnimalOnDog") }, { name := "Cat" }]
    let kvs : List (String × Json) := [("__typename", .str "Dog"), ("name", .str "Rex"), ("barks", .bool true)]
    (vs.map (·.wire)).Nodup ∧ (vs.map (·.name)).Nodup ∧ countKey "__typename" kvs = 1 ∧
      Json.lookup "__typename" kvs = some (.str "Dog") := by
  refine ⟨by decide, by decide, by decide, rfl⟩

-- L4: `struct Q { id, #[serde(flatten)] frag: Frag, age }`, `struct Frag { name, email }`
example :
    let pre : List RField := [{ rust := "id", ty := .path "ID" }]
    let g : RField := { rust := "frag", ty := .path "Frag", flatten := true }
    let post : List RField := [{ rust := "age", ty := .opt (.path "Int") }]
    let gfields : List RField := [{ rust := "name", ty := .path "String" }, { rust := "email", ty := .opt (.path "String") }]
    plain pre = true ∧ plain post = true ∧ g.flatten = true ∧ plain gfields = true ∧
      ((pre ++ g :: post).map (·.rust)).Nodup ∧ (gfields.map (·.rust)).Nodup ∧
      (∀ f ∈ pre ++ post, ∀ h ∈ gfields, f.wire ≠ h.wire) := by decide

-- L5: `Variables { id: ID, first: Option<Int> /* skip_serializing_none */ }` holding `first = None`
example :
    let fields : List RField := [{ rust := "id", ty := .path "ID" }, { rust := "first", ty := .opt (.path "Int"), skipNone := true }]
    let vals : List (String × Val) := [("id", .str "7"), ("first", .unit)]
    plain fields = true ∧ (fields.map (·.wire)).Nodup ∧
      (fields.filter (fun f => !skipped vals f)).map (·.wire) = ["id"] := by decide

/-! ### bridges to the top-level `Serde.de` / `Serde.ser`

The layer theorems hold for every fuel `k + c` (`c` a small constant); `Serde.de` / `Serde.ser` run with
`(size + 2) * (#items + #externs + 2) ≥ 6`.  `Serde.ser` finally applies `normJson`
(`serde_json::Map`: the last occurrence of a key wins), which does nothing to an entry list with
pairwise distinct keys — and that is what `ser_keys_nodup` gives. -/

theorem jsonSize_pos (j : Json) : 1 ≤ jsonSize j := by
  cases j <;> simp [jsonSize] <;> omega

theorem deFuel_ge (e : Env) (j : Json) : 6 ≤ deFuel e j := by
  unfold deFuel
  have h1 := jsonSize_pos j
  have h2 : 3 * 2 ≤ (jsonSize j + 2) * (e.items.length + e.externs.length + 2) := Nat.mul_le_mul (by omega) (by omega)
  omega

theorem insert_of_not_mem (k : String) (v : Json) :
    ∀ (acc : List (String × Json)), k ∉ acc.map (·.1) → Json.insert k v acc = acc ++ [(k, v)]
  | [], _ => rfl
  | (k', v') :: acc, h => by
    simp only [List.map_cons, List.mem_cons, not_or] at h
    have hne : (k' == k) = false := by simpa using fun heq => h.1 heq.symm
    simp only [Json.insert, hne, Bool.false_eq_true, ↓reduceIte, List.cons_append, insert_of_not_mem k v acc h.2]

theorem foldl_insert_of_nodup :
    ∀ (kvs acc : List (String × Json)), ((acc ++ kvs).map (·.1)).Nodup →
      kvs.foldl (fun acc (kv : String × Json) => Json.insert kv.1 kv.2 acc) acc = acc ++ kvs
  | [], acc, _ => by simp
  | (k, v) :: kvs, acc, h => by
    have hk : k ∉ acc.map (·.1) := by
      simp only [List.map_append, List.map_cons, List.nodup_append, List.nodup_cons, List.mem_cons] at h
      intro hmem
      exact h.2.2 k hmem k (Or.inl rfl) rfl
    rw [List.foldl_cons, insert_of_not_mem k v acc hk,
      foldl_insert_of_nodup kvs (acc ++ [(k, v)]) (by simpa [List.append_assoc] using h)]
    simp [List.append_assoc]

/-- `serde_json::Map` collapsing is the identity on entries with pairwise distinct keys -/
theorem normObj_of_nodup (kvs : List (String × Json)) (h : (kvs.map (·.1)).Nodup) : Json.normObj kvs = kvs := by
  have := foldl_insert_of_nodup kvs [] (by simpa using h)
  simpa [Json.normObj] using this

end C01
end GqlVerif
