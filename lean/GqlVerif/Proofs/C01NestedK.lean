import GqlVerif.Proofs.C01NestedD
/-!
# C01 end to end (`NestedOp`), part K: the class makes the spread graph of the reachable fragments acyclic

`NestedOp` is defined through ranks, so no cycle of same-type spreads passes through a fragment reachable from the operation:
the emitted module is `Acyclic`, `EnvOK`, `EnvOKS` with **no acyclicity hypothesis on the document**
(`AcyclicM.module_envOK_of_reachRanked`).

* `spreadIds_classN` — every spread anywhere in an object-level selection set of the class is `FragOkAny` (spread-free body;
  those at abstract positions) or `ok` on an object type;
* `rhoN c g` — the first rank at which the fragment `g` is in the class; `nested_reachRanked` —
  `AcyclicM.ReachRanked c.q op.sels (rhoN c)`; **`nested_module_envOK`**.
-/
set_option linter.unusedSimpArgs false
set_option linter.unusedVariables false
set_option linter.unusedSectionVars false
set_option linter.unnecessarySimpa false

namespace GqlVerif
namespace C01N
open Serde Spec C13 C03 Codegen C01 C01.E2E C01M

mutual
  theorem spreadIds_classN (ok : TypeId → Nat → Bool) (s : Schema) (q : Query) (o : Options) : ∀ (x : Sel) (p : Nat),
      nSel ok s q o (.object p) x = true → ∀ g ∈ spreadIds x, FragOkAny s q o g ∨ ∃ p', ok (.object p') g = true
    | .field a fid sub, p => by
      intro ht g hg
      have IH := spreadIdss_classN ok s q o sub
      obtain ⟨sf, hsf⟩ := nSel_field_some ht
      by_cases hobj : ∃ i, sf.ty.id = .object i
      · obtain ⟨i, hid⟩ := hobj
        obtain ⟨_, _, _, hbody⟩ := nSel_obj hsf hid ht
        rw [spreadIds] at hg
        by_cases hsp : ∃ g', sub = [Sel.spread g']
        · obtain ⟨g', rfl⟩ := hsp
          simp only [spreadIdss, spreadIds, List.append_nil, List.mem_singleton] at hg
          subst hg
          exact .inr ⟨i, hbody⟩
        · have hnl : ∀ g, sub ≠ [Sel.spread g] := fun g hg => hsp ⟨g, hg⟩
          rw [nBody_not_lone hnl] at hbody
          exact IH i hbody g hg
      · have hno : ∀ i, sf.ty.id ≠ .object i := fun i h => hobj ⟨i, h⟩
        exact .inl (fragOk_of_spreadIdS s q o _ false (nSel_nonobj hsf hno ht) g hg (by simp))
    | .spread g', p => by
      intro ht g hg
      simp only [spreadIds, List.mem_singleton] at hg
      subst hg
      exact .inr ⟨p, by simpa [nSel] using ht⟩
    | .inline _ _, _ => by intro ht; simp [nSel] at ht
    | .typename, _ => by intro _ g hg; simp [spreadIds] at hg
  theorem spreadIdss_classN (ok : TypeId → Nat → Bool) (s : Schema) (q : Query) (o : Options) :
      ∀ (sels : List Sel) (p : Nat), nSels ok s q o (.object p) sels = true →
      ∀ g ∈ spreadIdss sels, FragOkAny s q o g ∨ ∃ p', ok (.object p') g = true
    | [], _ => by intro _ g hg; simp [spreadIdss] at hg
    | x :: xs, p => by
      intro ht g hg
      obtain ⟨hx, hxs⟩ := nSels_cons ht
      rw [spreadIdss, List.mem_append] at hg
      rcases hg with hg | hg
      · exact spreadIds_classN ok s q o x p hx g hg
      · exact spreadIdss_classN ok s q o xs p hxs g hg
end

theorem spreadIdss_class_body {ok : TypeId → Nat → Bool} {s : Schema} {q : Query} {o : Options} {p : Nat}
    {sels : List Sel} (h : nBody ok s q o (.object p) sels = true) :
    ∀ g ∈ spreadIdss sels, FragOkAny s q o g ∨ ∃ p', ok (.object p') g = true := by
  by_cases hsp : ∃ g', sels = [Sel.spread g']
  · obtain ⟨g', rfl⟩ := hsp
    intro g hg
    simp only [spreadIdss, spreadIds, List.append_nil, List.mem_singleton] at hg
    subst hg
    exact .inr ⟨p, h⟩
  · have hnl : ∀ g, sels ≠ [Sel.spread g] := fun g hg => hsp ⟨g, hg⟩
    rw [nBody_not_lone hnl] at h
    exact spreadIdss_classN ok s q o sels p h

/-! ## the first rank -/

/-- scanning down from `n`: one more than the last `r < n` at which `P` fails (`0` if there is none) -/
def firstOk (P : Nat → Bool) : Nat → Nat
  | 0 => 0
  | n + 1 => if P n then firstOk P n else n + 1

theorem firstOk_le {P : Nat → Bool} (hmono : ∀ r, P r = true → P (r + 1) = true) {r : Nat} (hr : P r = true) :
    ∀ n, firstOk P n ≤ r
  | 0 => Nat.zero_le _
  | n + 1 => by
    rw [firstOk]
    split
    · exact firstOk_le hmono hr n
    · rename_i hn
      have hmono' : ∀ k, P (r + k) = true := by
        intro k; induction k with
        | zero => exact hr
        | succ k ih => exact hmono _ ih
      by_cases hle : r ≤ n
      · obtain ⟨k, rfl⟩ : ∃ k, n = r + k := ⟨n - r, by omega⟩
        exact absurd (hmono' k) hn
      · omega

theorem firstOk_cases {P : Nat → Bool} : ∀ n, P n = true →
    (firstOk P (n + 1) = 0 ∧ P 0 = true) ∨ ∃ r0, firstOk P (n + 1) = r0 + 1 ∧ P r0 = false ∧ P (r0 + 1) = true
  | 0, h => .inl ⟨by rw [firstOk, if_pos h, firstOk], h⟩
  | n + 1, h => by
    rw [firstOk, if_pos h]
    cases hn : P n
    · exact .inr ⟨n, by rw [firstOk]; simp [hn], hn, h⟩
    · exact firstOk_cases n hn

/-- the first rank at which the fragment `g` is in the class -/
def rhoN (c : Ctx) (g : Nat) : Nat :=
  firstOk (fun r => fragOkN c.s c.q c.o r (fragOn c.q g) g) (c.q.fragments.length + 1)

/-- **the reachable fragments of an operation of `NestedOp` are ranked along same-type spreads** -/
theorem nested_reachRanked (c : Ctx) (op : ROperation) (ht : NestedOp c op = true) :
    AcyclicM.ReachRanked c.q op.sels (rhoN c) := by
  obtain ⟨_, _, hsels⟩ := nestedOp_parts ht
  -- the fragments reachable from the operation
  let G : Nat → Prop := fun g => FragOkAny c.s c.q c.o g ∨
    ∃ i, fragOkN c.s c.q c.o c.q.fragments.length (.object i) g = true
  have hfree : ∀ g, FragOkAny c.s c.q c.o g → ∀ f, c.q.fragments[g]? = some f → ∀ h, Sel.spread h ∉ f.sels := by
    intro g hg f hf h
    rcases hg with ⟨i, hg⟩ | ⟨ty, _, hg⟩
    · obtain ⟨f', hf', _, _, hv, _⟩ := fragOk_parts hg
      rw [hf] at hf'; cases hf'
      exact no_spread_of_vSels hv h
    · obtain ⟨f', hf', _, _, hv, _⟩ := fragOkB_parts hg
      rw [hf] at hf'; cases hf'
      exact no_spread_of_vSels hv h
  have hfree' : ∀ g, FragOkAny c.s c.q c.o g → spreadIdss (fragSels c.q g) = [] := by
    intro g hg
    rcases hg with ⟨i, hg⟩ | ⟨ty, _, hg⟩
    · obtain ⟨f, hf, _, _, hv, _⟩ := fragOk_parts hg
      have : fragSels c.q g = f.sels := by simp [fragSels, hf]
      rw [this]; exact spreadIdss_noSpreads f.sels (noSpreads_of_vSels c.s c.o f.sels false hv)
    · obtain ⟨f, hf, _, _, hv, _⟩ := fragOkB_parts hg
      have : fragSels c.q g = f.sels := by simp [fragSels, hf]
      rw [this]; exact spreadIdss_noSpreads f.sels (noSpreads_of_vSels c.s c.o f.sels true hv)
  have hcl : ∀ g, G g → ∀ h ∈ spreadIdss (fragSels c.q g), G h := by
    intro g hg h hh
    rcases hg with hg | ⟨i, hg⟩
    · rw [hfree' g hg] at hh; cases hh
    · rcases fragOkN_cases hg with hg0 | ⟨r', hr', hnew⟩
      · rw [hfree' g (.inl ⟨i, hg0⟩)] at hh; cases hh
      · obtain ⟨f, hf, hon, _, _, hnl, hb⟩ := fragNew_parts hnew
        have : fragSels c.q g = f.sels := by simp [fragSels, hf]
        rw [this] at hh
        rw [hon] at hb
        rcases spreadIdss_classN _ c.s c.q c.o f.sels i hb h hh with h1 | ⟨p', h1⟩
        · exact .inl h1
        · exact .inr ⟨p', fragOkN_le (by omega) h1⟩
  have h0 : ∀ h ∈ spreadIdss op.sels, G h := by
    intro h hh
    rcases spreadIdss_class_body hsels h hh with h1 | ⟨p', h1⟩
    · exact .inl h1
    · exact .inr ⟨p', h1⟩
  intro g hr f hf h hh
  have hG : G g := AcyclicM.reach_spread_in_closed c.q G hcl h0 hr
  have hmem : Sel.spread h ∈ f.sels := AcyclicM.mem_topSpreads.mp (AcyclicM.jumpSpreads_sub_top c.q f h hh)
  rcases hG with hg | ⟨i, hg⟩
  · exact absurd hmem (hfree g hg f hf h)
  · obtain ⟨f', hf', hon, _, _⟩ := fragOkN_spec c.s c.q c.o _ _ g hg
    rw [hf] at hf'; cases hf'
    have hfon : fragOn c.q g = .object i := by simp [fragOn, hf, hon]
    have hmono : ∀ (g' : Nat) (p : TypeId) r, (fun r => fragOkN c.s c.q c.o r p g') r = true →
        (fun r => fragOkN c.s c.q c.o r p g') (r + 1) = true := fun g' p r h' => fragOkN_succ h'
    rcases firstOk_cases (P := fun r => fragOkN c.s c.q c.o r (fragOn c.q g) g) c.q.fragments.length
        (by rw [hfon]; exact hg) with ⟨_, h00⟩ | ⟨r0, hrho, hno, hyes⟩
    · -- rank `0`: spread-free
      rw [hfon] at h00
      have : fragOk c.s c.q c.o (.object i) g = true := by simpa [fragOkN] using h00
      exact absurd hmem (hfree g (.inl ⟨i, this⟩) f hf h)
    · rw [hfon] at hno hyes
      have hno' : fragOkN c.s c.q c.o r0 (.object i) g = false := hno
      have hyes' : fragOkN c.s c.q c.o (r0 + 1) (.object i) g = true := hyes
      rw [fragOkN, hno', Bool.false_or] at hyes'
      have hyes := hyes'
      obtain ⟨f', hf', _, _, _, _, hb⟩ := fragNew_parts hyes
      rw [hf] at hf'; cases hf'
      have hokh : fragOkN c.s c.q c.o r0 f.on h = true := by simpa [nSel] using nSels_mem hb _ hmem
      obtain ⟨fh, hfh, honh, _, _⟩ := fragOkN_spec c.s c.q c.o _ _ h hokh
      have hfonh : fragOn c.q h = f.on := by simp [fragOn, hfh, honh]
      have hle : rhoN c h ≤ r0 :=
        firstOk_le (P := fun r => fragOkN c.s c.q c.o r (fragOn c.q h) h) (hmono h _) (by rw [hfonh]; exact hokh) _
      have : rhoN c g = r0 + 1 := hrho
      omega

/-- **the module of an operation of `NestedOp` is `EnvOK` and `EnvOKS`** (no fuel exhaustion, fuel independence), with no
    acyclicity hypothesis on the document -/
theorem nested_module_envOK {c : Ctx} {opIdx : Nat} {op : ROperation} {items : List Item}
    (hop : c.q.operations[opIdx]? = some op) (ht : NestedOp c op = true)
    (hgen : responseForQuery c opIdx = .ok items) (hok : moduleOk c items = true) :
    SerdeFuel.EnvOK (moduleEnv c items) ∧ SerdeFuel.EnvOKS (moduleEnv c items) :=
  AcyclicM.module_envOK_of_reachRanked hop (nested_reachRanked c op ht) hgen hok

end C01N
end GqlVerif
