import GqlVerif.Proofs.C01AliasFragD
import GqlVerif.Proofs.C01NestedK
/-!
# C01 end to end (`AliasFragOp`), part K: the class makes the spread graph of the reachable fragments acyclic

As `C01NestedK`, with the ranks of `fragOkA` (an alias hop `fragment A on T { ...B }` descends in rank like any other
same-type spread): `aliasfrag_reachRanked`, **`aliasfrag_module_envOK`** — no acyclicity hypothesis on the document.
-/
set_option linter.unusedSimpArgs false
set_option linter.unusedVariables false
set_option linter.unusedSectionVars false
set_option linter.unnecessarySimpa false

namespace GqlVerif
namespace C01AF
open Serde Spec C13 C03 Codegen C01 C01.E2E C01M C01N

theorem nBody_spread_mem {ok : TypeId → Nat → Bool} {s : Schema} {q : Query} {o : Options} {p : TypeId} {sels : List Sel}
    {h : Nat} (hb : nBody ok s q o p sels = true) (hmem : Sel.spread h ∈ sels) : ok p h = true := by
  by_cases hsp : ∃ g', sels = [Sel.spread g']
  · obtain ⟨g', rfl⟩ := hsp
    simp only [List.mem_singleton, Sel.spread.injEq] at hmem
    subst hmem
    exact hb
  · have hnl : ∀ g, sels ≠ [Sel.spread g] := fun g hg => hsp ⟨g, hg⟩
    rw [nBody_not_lone hnl] at hb
    simpa [nSel] using nSels_mem hb _ hmem

/-- the first rank at which the fragment `g` is in the class -/
def rhoA (c : Ctx) (g : Nat) : Nat :=
  firstOk (fun r => fragOkA c.s c.q c.o r (fragOn c.q g) g) (c.q.fragments.length + 1)

/-- **the reachable fragments of an operation of `AliasFragOp` are ranked along same-type spreads** -/
theorem aliasfrag_reachRanked (c : Ctx) (op : ROperation) (ht : AliasFragOp c op = true) :
    AcyclicM.ReachRanked c.q op.sels (rhoA c) := by
  obtain ⟨_, _, hsels⟩ := aliasFragOp_parts ht
  -- the fragments reachable from the operation
  let G : Nat → Prop := fun g => FragOkAny c.s c.q c.o g ∨
    ∃ i, fragOkA c.s c.q c.o c.q.fragments.length (.object i) g = true
  have hfree : ∀ g, FragOkAny c.s c.q c.o g → ∀ f, c.q.fragments[g]? = some f → ∀ h, Sel.spread h ∉ f.sels := by
    intro g hg f hf h
    rcases hg with ⟨i, hg⟩ | ⟨ty, _, hg⟩
    · obtain ⟨f', hf', _, _, hv, _⟩ := fragOk_parts hg
      rw [hf] at hf'; cases hf'
      exact no_spread_of_vSels hv h
    · obtain ⟨f', hf', _, _, hv, _⟩ := fragOkB_parts hg
      rw [hf] at hf'; cases hf'
      exact no_spread_of_vSels hv h
  have hfree' : ∀ g, FragOkAny c.s c.q c.o g → spreadIdss (fragSels c.q g) = [] := by
    intro g hg
    rcases hg with ⟨i, hg⟩ | ⟨ty, _, hg⟩
    · obtain ⟨f, hf, _, _, hv, _⟩ := fragOk_parts hg
      have : fragSels c.q g = f.sels := by simp [fragSels, hf]
      rw [this]; exact spreadIdss_noSpreads f.sels (noSpreads_of_vSels c.s c.o f.sels false hv)
    · obtain ⟨f, hf, _, _, hv, _⟩ := fragOkB_parts hg
      have : fragSels c.q g = f.sels := by simp [fragSels, hf]
      rw [this]; exact spreadIdss_noSpreads f.sels (noSpreads_of_vSels c.s c.o f.sels true hv)
  have hcl : ∀ g, G g → ∀ h ∈ spreadIdss (fragSels c.q g), G h := by
    intro g hg h hh
    rcases hg with hg | ⟨i, hg⟩
    · rw [hfree' g hg] at hh; cases hh
    · rcases fragOkA_cases hg with hg0 | ⟨r', hr', hnew⟩
      · rw [hfree' g (.inl ⟨i, hg0⟩)] at hh; cases hh
      · obtain ⟨f, hf, hon, _, _, hb⟩ := fragNewA_parts hnew
        have : fragSels c.q g = f.sels := by simp [fragSels, hf]
        rw [this] at hh
        rw [hon] at hb
        rcases spreadIdss_class_body hb h hh with h1 | ⟨p', h1⟩
        · exact .inl h1
        · exact .inr ⟨p', fragOkA_le (by omega) h1⟩
  have h0 : ∀ h ∈ spreadIdss op.sels, G h := by
    intro h hh
    rcases spreadIdss_class_body hsels h hh with h1 | ⟨p', h1⟩
    · exact .inl h1
    · exact .inr ⟨p', h1⟩
  intro g hr f hf h hh
  have hG : G g := AcyclicM.reach_spread_in_closed c.q G hcl h0 hr
  have hmem : Sel.spread h ∈ f.sels := AcyclicM.mem_topSpreads.mp (AcyclicM.jumpSpreads_sub_top c.q f h hh)
  rcases hG with hg | ⟨i, hg⟩
  · exact absurd hmem (hfree g hg f hf h)
  · obtain ⟨f', hf', hon, _, _⟩ := fragOkA_spec c.s c.q c.o _ _ g hg
    rw [hf] at hf'; cases hf'
    have hfon : fragOn c.q g = .object i := by simp [fragOn, hf, hon]
    have hmono : ∀ (g' : Nat) (p : TypeId) r, (fun r => fragOkA c.s c.q c.o r p g') r = true →
        (fun r => fragOkA c.s c.q c.o r p g') (r + 1) = true := fun g' p r h' => fragOkA_succ h'
    rcases firstOk_cases (P := fun r => fragOkA c.s c.q c.o r (fragOn c.q g) g) c.q.fragments.length
        (by rw [hfon]; exact hg) with ⟨_, h00⟩ | ⟨r0, hrho, hno, hyes⟩
    · -- rank `0`: spread-free
      rw [hfon] at h00
      have : fragOk c.s c.q c.o (.object i) g = true := by simpa [fragOkA] using h00
      exact absurd hmem (hfree g (.inl ⟨i, this⟩) f hf h)
    · rw [hfon] at hno hyes
      have hno' : fragOkA c.s c.q c.o r0 (.object i) g = false := hno
      have hyes' : fragOkA c.s c.q c.o (r0 + 1) (.object i) g = true := hyes
      rw [fragOkA, hno', Bool.false_or] at hyes'
      have hyes := hyes'
      obtain ⟨f', hf', _, _, _, hb⟩ := fragNewA_parts hyes
      rw [hf] at hf'; cases hf'
      have hokh : fragOkA c.s c.q c.o r0 f.on h = true := nBody_spread_mem hb hmem
      obtain ⟨fh, hfh, honh, _, _⟩ := fragOkA_spec c.s c.q c.o _ _ h hokh
      have hfonh : fragOn c.q h = f.on := by simp [fragOn, hfh, honh]
      have hle : rhoA c h ≤ r0 :=
        firstOk_le (P := fun r => fragOkA c.s c.q c.o r (fragOn c.q h) h) (hmono h _) (by rw [hfonh]; exact hokh) _
      have : rhoA c g = r0 + 1 := hrho
      omega

/-- **the module of an operation of `AliasFragOp` is `EnvOK` and `EnvOKS`** (no fuel exhaustion, fuel independence), with no
    acyclicity hypothesis on the document -/
theorem aliasfrag_module_envOK {c : Ctx} {opIdx : Nat} {op : ROperation} {items : List Item}
    (hop : c.q.operations[opIdx]? = some op) (ht : AliasFragOp c op = true)
    (hgen : responseForQuery c opIdx = .ok items) (hok : moduleOk c items = true) :
    SerdeFuel.EnvOK (moduleEnv c items) ∧ SerdeFuel.EnvOKS (moduleEnv c items) :=
  AcyclicM.module_envOK_of_reachRanked hop (aliasfrag_reachRanked c op ht) hgen hok

end C01AF
end GqlVerif
