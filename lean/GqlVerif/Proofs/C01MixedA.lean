import GqlVerif.Proofs.C01VariantSpreadE
/-!
# C01 / C03 end to end: spreads at object positions **and** at abstract positions (`MixedOp`), part A: class, closed form

`FragmentOp` (C01AbstractF..I) allows named fragment spreads in object-level selection sets, `VariantSpreadOp`
(C01VariantSpread*) allows them in selection sets on interface / union typed fields; the two classes are incomparable.
`MixedOp` contains both:

* an **object-level selection set** (the root selection set, the sub-selections of object-typed fields, at any nesting
  depth below object-typed fields) is what `FragmentOp` allows: fields, `__typename`, spreads of fragments on the parent
  type itself (`fragOk`: non-recursive, body a spread-free selection set of `VariantOp`), or a lone spread (type alias);
* a field of **scalar / enum / interface / union** type is what `VariantSpreadOp` allows at that field (`sSel … false`):
  at an abstract position spreads of fragments on a possible type (a) and on the abstract type itself (b), a lone spread
  of a fragment on the abstract type itself (c); the bodies of inline fragments and the sub-selections of object-typed
  fields *below an abstract position* are those of `VariantSpreadOp` (no object-level spreads there).

So a spread at an object position and a spread at an abstract position may occur in the same operation, e.g.
`query Q { dog { ...DogFields } animal { __typename ...AnimalName ...DogFields } }` (generated module: part E); with the
aliased inline fragment `... on Dog { ...DogFields }` instead of `...DogFields`: class `MixedOp2` of part F (normalization,
as `VariantSpreadOp2`).

Parts: A class / closed form, B exact acceptance, C top level + `mixed_accepts`, D `mixed_lossless` / `mixed_roundtrip`,
E the two classes inside `MixedOp` + a generated module in neither, F `MixedOp2`, G side conditions on `FragmentOp`,
necessity witnesses.

* `itemsM` / `bodyItemsM` — closed form of the emitted items: `itemsF` at object positions, `itemsS` at the others;
* **`mixed_items_shape`** — `responseItems c op = .ok (bodyItemsM …)` for every operation of the class;
* `mixedOp_of_fragmentOp`, `mixedOp_of_variantSpreadOp` — the class contains both;
  `bodyItemsM_eq_F`, `bodyItemsM_eq_S` — on each of the two classes the closed form is the one proved there.
-/
set_option linter.unusedSimpArgs false
set_option linter.unusedVariables false
set_option linter.unusedSectionVars false

namespace GqlVerif
namespace C01M
open Serde Spec C13 C03 Codegen C01 C01.E2E

/-! ## the class -/

mutual
  /-- one selection of an object-level selection set on `parent` -/
  def mSel (s : Schema) (q : Query) (o : Options) (parent : TypeId) : Sel → Bool
    | .field a fid sub =>
      match s.fields[fid]? with
      | none => false
      | some sf =>
        match sf.ty.id with
        | .object i =>
          wfQuals sf.ty.quals && !(sf.deprecation.isSome && o.deprecation == .deny) && (s.objects[i]?).isSome &&
            (match sub with
             | [.spread g] => fragOk s q o (.object i) g
             | _ => mSels s q o (.object i) sub)
        | _ => sSel s q o false (.field a fid sub)
    | .typename => true
    | .spread g => fragOk s q o parent g
    | .inline _ _ => false
  def mSels (s : Schema) (q : Query) (o : Options) (parent : TypeId) : List Sel → Bool
    | [] => true
    | x :: xs => mSel s q o parent x && mSels s q o parent xs
end

/-- the body of an object-level selection set: a lone spread (type alias) or a selection set of the class -/
def mBody (s : Schema) (q : Query) (o : Options) (parent : TypeId) (sels : List Sel) : Bool :=
  match sels with
  | [.spread g] => fragOk s q o parent g
  | _ => mSels s q o parent sels

/-- **the class `MixedOp`** (decidable): object-level selection sets as in `FragmentOp` (spreads of fragments on the parent
    type), every field of scalar / enum / interface / union type as in `VariantSpreadOp` (spreads at abstract positions) -/
def MixedOp (c : Ctx) (op : ROperation) : Bool :=
  c.o.normalization == .none && (c.s.objects[op.objectId]?).isSome &&
  mBody c.s c.q c.o (.object op.objectId) op.sels

/-! ## closed form -/

mutual
  def itemsM (c : Ctx) (pfx : String) : Sel → List Item
    | .field a fid sub =>
      match c.s.fields[fid]? with
      | none => []
      | some sf =>
        match sf.ty.id with
        | .object _ =>
          (match sub with
           | [.spread g] => [aliasItem (pfx ++ c.cs.camel (a.getD sf.name)) (fragName c g) false]
           | _ => .struct (pfx ++ c.cs.camel (a.getD sf.name)) c.respDerives c.serdeCrate
                    (fieldsOfF c (pfx ++ c.cs.camel (a.getD sf.name)) sub) ::
                  itemsMs c (pfx ++ c.cs.camel (a.getD sf.name)) sub)
        | _ => itemsS c pfx (.field a fid sub)
    | _ => []
  def itemsMs (c : Ctx) (pfx : String) : List Sel → List Item
    | [] => []
    | x :: xs => itemsM c pfx x ++ itemsMs c pfx xs
end

/-- **closed form** of the items of an object-level selection set: a type alias for a lone spread; otherwise the struct
    (own fields and one flattened member per spread, in selection order) and the nested items -/
def bodyItemsM (c : Ctx) (name pfx : String) (sels : List Sel) : List Item :=
  match sels with
  | [.spread g] => [aliasItem name (fragName c g) false]
  | _ => .struct name c.respDerives c.serdeCrate (fieldsOfF c pfx sels) :: itemsMs c pfx sels

/-! ## basic facts -/

theorem mSels_cons {s : Schema} {q : Query} {o : Options} {p : TypeId} {x : Sel} {xs : List Sel}
    (h : mSels s q o p (x :: xs) = true) : mSel s q o p x = true ∧ mSels s q o p xs = true := by
  simpa [mSels] using h

theorem mSels_mem {s : Schema} {q : Query} {o : Options} {p : TypeId} : ∀ {sels : List Sel}, mSels s q o p sels = true →
    ∀ x ∈ sels, mSel s q o p x = true
  | [], _, _, hx => by simp at hx
  | y :: ys, h, x, hx => by
    obtain ⟨h1, h2⟩ := mSels_cons h
    rcases List.mem_cons.mp hx with rfl | hx'
    · exact h1
    · exact mSels_mem h2 x hx'

theorem mBody_not_lone {s : Schema} {q : Query} {o : Options} {p : TypeId} {sels : List Sel}
    (h : ∀ g, sels ≠ [Sel.spread g]) : mBody s q o p sels = mSels s q o p sels := by
  unfold mBody
  split
  · rename_i g; exact absurd rfl (h g)
  · rfl

theorem mBody_lone {s : Schema} {q : Query} {o : Options} {p : TypeId} {g : Nat} :
    mBody s q o p [Sel.spread g] = fragOk s q o p g := rfl

theorem bodyItemsM_not_lone (c : Ctx) (name pfx : String) {sels : List Sel} (h : ∀ g, sels ≠ [Sel.spread g]) :
    bodyItemsM c name pfx sels =
      .struct name c.respDerives c.serdeCrate (fieldsOfF c pfx sels) :: itemsMs c pfx sels := by
  unfold bodyItemsM
  split
  · rename_i g; exact absurd rfl (h g)
  · rfl

/-- an object-typed field of the class -/
theorem mSel_obj {s : Schema} {q : Query} {o : Options} {p : TypeId} {a : Option String} {fid : Nat} {sub : List Sel}
    {sf : StoredField} {i : Nat} (hsf : s.fields[fid]? = some sf) (hid : sf.ty.id = .object i)
    (h : mSel s q o p (.field a fid sub) = true) :
    wfQuals sf.ty.quals = true ∧ (sf.deprecation.isSome && o.deprecation == .deny) = false ∧
      (s.objects[i]?).isSome = true ∧ mBody s q o (.object i) sub = true := by
  rw [mSel] at h
  simp only [hsf, hid, Bool.and_eq_true] at h
  obtain ⟨⟨⟨hw, hdep⟩, hobj⟩, hb⟩ := h
  refine ⟨hw, ?_, hobj, hb⟩
  cases hd : (sf.deprecation.isSome && o.deprecation == .deny) with
  | false => rfl
  | true => simp [hd] at hdep

/-- a field of the class that is not object-typed is a field of `VariantSpreadOp` -/
theorem mSel_nonobj {s : Schema} {q : Query} {o : Options} {p : TypeId} {a : Option String} {fid : Nat} {sub : List Sel}
    {sf : StoredField} (hsf : s.fields[fid]? = some sf) (hno : ∀ i, sf.ty.id ≠ .object i)
    (h : mSel s q o p (.field a fid sub) = true) : sSel s q o false (.field a fid sub) = true := by
  rw [mSel] at h
  simp only [hsf] at h
  cases hid : sf.ty.id with
  | object i => exact absurd hid (hno i)
  | scalar k => simpa [hid] using h
  | «enum» k => simpa [hid] using h
  | interface k => simpa [hid] using h
  | union k => simpa [hid] using h
  | input k => simpa [hid] using h

theorem mSel_field_some {s : Schema} {q : Query} {o : Options} {p : TypeId} {a : Option String} {fid : Nat} {sub : List Sel}
    (h : mSel s q o p (.field a fid sub) = true) : ∃ sf, s.fields[fid]? = some sf := by
  rw [mSel] at h
  cases hsf : s.fields[fid]? with
  | none => simp [hsf] at h
  | some sf => exact ⟨sf, rfl⟩

theorem itemsM_nonobj (c : Ctx) (pfx : String) (a : Option String) (fid : Nat) (sub : List Sel) (sf : StoredField)
    (hsf : c.s.fields[fid]? = some sf) (hno : ∀ i, sf.ty.id ≠ .object i) :
    itemsM c pfx (.field a fid sub) = itemsS c pfx (.field a fid sub) := by
  rw [itemsM]
  simp only [hsf]

/-! ## Theorem 1 for `MixedOp` -/

section CalcM
variable (c : Ctx) (hn : c.o.normalization = .none) (N M : Nat)

def M1 (fuel : Nat) : Prop := ∀ name pfx i sels e, selsDepth sels ≤ e → selsSize sels ≤ N →
  C02.Sb N M e ≤ fuel → mBody c.s c.q c.o (.object i) sels = true →
  calcSelection c fuel name pfx (.object i) sels = .ok (bodyItemsM c name pfx sels)
def M4 (fuel : Nat) : Prop := ∀ pfx i sels e, selsDepth sels ≤ e → selsSize sels ≤ N →
  C02.Fneed N M e sels.length ≤ fuel → mSels c.s c.q c.o (.object i) sels = true →
  calcFields c fuel pfx (.object i) sels = .ok (fieldsOfF c pfx sels, itemsMs c pfx sels)

theorem stepM1 (f : Nat) (H4 : M4 c N M f) : M1 c N M (f + 1) := by
  intro name pfx i sels e hD hS hF ht
  by_cases hsp : ∃ g, sels = [Sel.spread g]
  · obtain ⟨g, rfl⟩ := hsp
    rw [calcSelection.eq_2]
    have hok : fragOk c.s c.q c.o (.object i) g = true := ht
    obtain ⟨fr, hfr, _, _, _, _⟩ := fragOk_parts hok
    simp only [getFragment_of hfr, bind, Except.bind, pure, Except.pure, not_recursive_of_fragOk hok]
    simp [bodyItemsM, fragName, hfr]
  · have hsp' : ∀ g, sels ≠ [Sel.spread g] := fun g hg => hsp ⟨g, hg⟩
    rw [calcSelection.eq_3 _ _ _ _ _ _ (fun g hg => hsp ⟨g, hg⟩)]
    rw [mBody_not_lone hsp'] at ht
    have hv : variantsOf c.s (.object i) = .ok none := rfl
    have hL := C02.length_le_selsSize sels
    have hfields := H4 pfx i sels e hD hS (by
      cases e with
      | zero => simp only [C02.Fneed]; unfold C02.Sb at hF; omega
      | succ e' => simp only [C02.Fneed]; rw [C02.Sb_succ] at hF; omega) ht
    simp only [hv, bind, Except.bind, pure, Except.pure, hfields]
    rw [bodyItemsM_not_lone c name pfx hsp']
    simp [renderType]

include hn in
theorem stepM4 (hM : ∀ ty vts, variantsOf c.s ty = .ok (some vts) → vts.length ≤ M)
    (f : Nat) (H1 : M1 c N M f) (H4 : M4 c N M f) : M4 c N M (f + 1) := by
  intro pfx i sels e hD hS hF ht
  have H1a := (calc_variantspread c hn N M hM f).2.1
  cases sels with
  | nil => rw [calcFields.eq_2 _ _ _ _ (by omega)]; rfl
  | cons x rest =>
    cases e with
    | zero => have := C02.selsDepth_cons_pos x rest; omega
    | succ e =>
      obtain ⟨hx, hrest⟩ := mSels_cons ht
      rw [selsDepth.eq_2] at hD
      rw [selsSize.eq_2] at hS
      simp only [C02.Fneed, List.length_cons] at hF
      have hR := H4 pfx i rest (e + 1) (by omega) (by omega) (by simp only [C02.Fneed]; omega) hrest
      rw [fieldsOfF_cons, itemsMs]
      cases x with
      | field a fid sub =>
        rw [selDepth.eq_1] at hD
        rw [selSize.eq_1] at hS
        rw [calcFields.eq_3]
        obtain ⟨sf, hsf⟩ := mSel_field_some hx
        simp only [getField_of hsf, bind, Except.bind]
        by_cases hobj : ∃ j, sf.ty.id = .object j
        · obtain ⟨j, hid⟩ := hobj
          obtain ⟨hw, hdep', _, hbody⟩ := mSel_obj hsf hid hx
          have hS' := H1 (pfx ++ c.cs.camel (a.getD sf.name)) (pfx ++ c.cs.camel (a.getD sf.name)) j sub e
            (by omega) (by omega) (by omega) hbody
          simp only [hid, renderField_tree c _ _ _ _ hw hdep', hS', hR, pure, Except.pure]
          have hitems : itemsM c pfx (.field a fid sub) =
              bodyItemsM c (pfx ++ c.cs.camel (a.getD sf.name)) (pfx ++ c.cs.camel (a.getD sf.name)) sub := by
            rw [itemsM]; simp only [hsf, hid]; rfl
          rw [hitems]
          simp [fieldOfSelF, fieldOfSelV, hsf, hid, leafNameV]
        · have hno : ∀ j, sf.ty.id ≠ .object j := fun j h => hobj ⟨j, h⟩
          have hs := mSel_nonobj hsf hno hx
          rw [itemsM_nonobj c pfx a fid sub sf hsf hno]
          rw [sSel] at hs
          simp only [hsf, Bool.and_eq_true] at hs
          obtain ⟨⟨hw, hdep⟩, hty⟩ := hs
          have hdep' : (sf.deprecation.isSome && c.o.deprecation == .deny) = false := by
            cases hd : (sf.deprecation.isSome && c.o.deprecation == .deny) with
            | false => rfl
            | true => simp [hd] at hdep
          cases hid : sf.ty.id with
          | object j => exact absurd hid (hno j)
          | scalar k =>
            simp only [hid, Bool.and_eq_true] at hty
            cases hk : c.s.scalars[k]? with
            | none => simp [hk] at hty
            | some sn =>
              simp only [getScalar_of hk, hn, C02.fieldType_none, renderField_tree c _ _ _ _ hw hdep', hR,
                pure, Except.pure]
              simp [itemsS, fieldOfSelF, fieldOfSelV, hsf, hid, leafNameV, hk]
          | «enum» k =>
            simp only [hid, Bool.and_eq_true] at hty
            cases hk : c.s.enums[k]? with
            | none => simp [hk] at hty
            | some en =>
              simp only [getEnum_of hk, hn, C02.fieldType_none, renderField_tree c _ _ _ _ hw hdep', hR,
                pure, Except.pure]
              simp [itemsS, fieldOfSelF, fieldOfSelV, hsf, hid, leafNameV, hk]
          | interface k =>
            simp only [hid, Bool.and_eq_true] at hty
            have hS' := H1a (pfx ++ c.cs.camel (a.getD sf.name)) (pfx ++ c.cs.camel (a.getD sf.name)) (.interface k) sub e
              (by omega) (by omega) (by omega) hty.1.1 hty.1.2 hty.2
            simp only [renderField_tree c _ _ _ _ hw hdep', hS', hR, pure, Except.pure]
            simp [itemsS, fieldOfSelF, fieldOfSelV, hsf, hid, leafNameV, absItemsS, absItemsL]
          | union k =>
            simp only [hid, Bool.and_eq_true] at hty
            have hS' := H1a (pfx ++ c.cs.camel (a.getD sf.name)) (pfx ++ c.cs.camel (a.getD sf.name)) (.union k) sub e
              (by omega) (by omega) (by omega) hty.1.1 hty.1.2 hty.2
            simp only [renderField_tree c _ _ _ _ hw hdep', hS', hR, pure, Except.pure]
            simp [itemsS, fieldOfSelF, fieldOfSelV, hsf, hid, leafNameV, absItemsS, absItemsL]
          | input k => simp [hid] at hty
      | spread g =>
        rw [calcFields.eq_4]
        have hok : fragOk c.s c.q c.o (.object i) g = true := by simpa [mSel] using hx
        obtain ⟨fr, hfr, hon, hname, _, _⟩ := fragOk_parts hok
        have hne : (fr.on != TypeId.object i) = false := by simp [hon]
        simp only [getFragment_of hfr, bind, Except.bind, hR, hne, Bool.false_eq_true, ↓reduceIte,
          not_recursive_of_fragOk hok, renderField_spread c fr hname, pure, Except.pure]
        simp [fieldOfSelF, hfr, itemsM]
      | inline t sub => simp [mSel] at hx
      | typename =>
        rw [calcFields.eq_5 _ _ _ _ _ _ (by simp) (by simp), hR]
        simp [fieldOfSelF, fieldOfSelV, itemsM]

include hn in
theorem calc_mixed (hM : ∀ ty vts, variantsOf c.s ty = .ok (some vts) → vts.length ≤ M) :
    ∀ fuel, M1 c N M fuel ∧ M4 c N M fuel := by
  intro fuel
  induction fuel with
  | zero =>
    refine ⟨?_, ?_⟩
    · intro _ _ _ _ e _ _ h; unfold C02.Sb at h; omega
    · intro _ _ sels e _ _ h; have := C02.Fneed_pos N M e sels.length; omega
  | succ f ih => exact ⟨stepM1 c N M f ih.2, stepM4 c hn N M hM f ih.1 ih.2⟩

end CalcM

theorem mixedOp_parts {c : Ctx} {op : ROperation} (h : MixedOp c op = true) :
    c.o.normalization = .none ∧ (c.s.objects[op.objectId]?).isSome = true ∧
      mBody c.s c.q c.o (.object op.objectId) op.sels = true := by
  simp only [MixedOp, Bool.and_eq_true, beq_iff_eq] at h
  exact ⟨h.1.1, h.1.2, h.2⟩

/-- **Theorem 1 (`mixed_items_shape`).**  For an operation of the class `MixedOp` the response items are, in closed form:
    at object positions as `fragment_items_shape` (a type alias for a lone spread, otherwise one struct with one
    `#[serde(flatten)]` member per spread), at fields of abstract type as `variantspread_items_shape` (`itemsS`). -/
theorem mixed_items_shape (c : Ctx) (op : ROperation) (hop : op ∈ c.q.operations) (ht : MixedOp c op = true) :
    responseItems c op = .ok (bodyItemsM c "ResponseData" (c.cs.camel op.name) op.sels) := by
  obtain ⟨hn, _, hsels⟩ := mixedOp_parts ht
  have H := (calc_mixed c hn (C02.totalSize c.q) (c.s.objects.length + C02.maxUnion c.s)
    (C02.variants_length_le c.s) (calcFuel c.s c.q)).1
  apply H _ _ _ _ (C02.maxDepth c.q) (C02.op_depth_le c.q op hop) _ (calcFuel_Sb c) hsels
  apply C02.le_foldl_add
  left
  simp only [List.mem_append, List.mem_map]
  exact .inr ⟨op, hop, rfl⟩

/-! ## the class contains `FragmentOp` and `VariantSpreadOp` -/

mutual
  theorem mSel_of_fSel (s : Schema) (q : Query) (o : Options) : ∀ (x : Sel) (p : TypeId), fSel s q o p x = true →
      mSel s q o p x = true
    | .field a fid sub, p => by
      intro h
      have IH := mSels_of_fSels s q o sub
      cases hsf : s.fields[fid]? with
      | none => rw [fSel] at h; simp [hsf] at h
      | some sf =>
        by_cases hobj : ∃ i, sf.ty.id = .object i
        · obtain ⟨i, hid⟩ := hobj
          rw [fSel] at h
          rw [mSel]
          simp only [hsf, hid, Bool.and_eq_true] at h ⊢
          refine ⟨⟨h.1, h.2.1⟩, ?_⟩
          have hb : fBody s q o (.object i) sub = true := h.2.2
          by_cases hsp : ∃ g, sub = [Sel.spread g]
          · obtain ⟨g, rfl⟩ := hsp; exact hb
          · have hnl : ∀ g, sub ≠ [Sel.spread g] := fun g hg => hsp ⟨g, hg⟩
            rw [fBody_not_lone hnl] at hb
            have := IH _ hb
            split
            · exact absurd rfl (hnl _)
            · exact this
        · have hno : ∀ i, sf.ty.id ≠ .object i := fun i h => hobj ⟨i, h⟩
          have hv := vSel_of_fSel_nonobj h hsf hno
          have hs := sSel_of_vSel s q o _ false hv
          rw [mSel]
          simp only [hsf]
          cases hid : sf.ty.id with
          | object i => exact absurd hid (hno i)
          | scalar k => exact hs
          | «enum» k => exact hs
          | interface k => exact hs
          | union k => exact hs
          | input k => exact hs
    | .spread g, p => by intro h; simpa [fSel, mSel] using h
    | .inline _ _, _ => by intro h; simp [fSel] at h
    | .typename, _ => by intro _; simp [mSel]
  theorem mSels_of_fSels (s : Schema) (q : Query) (o : Options) : ∀ (sels : List Sel) (p : TypeId),
      fSels s q o p sels = true → mSels s q o p sels = true
    | [], _ => by intro _; rfl
    | x :: xs, p => by
      intro h
      obtain ⟨hx, hxs⟩ := fSels_cons h
      rw [mSels, mSel_of_fSel s q o x p hx, mSels_of_fSels s q o xs p hxs]; rfl
end

theorem mBody_of_fBody {s : Schema} {q : Query} {o : Options} {p : TypeId} {sels : List Sel}
    (h : fBody s q o p sels = true) : mBody s q o p sels = true := by
  by_cases hsp : ∃ g, sels = [Sel.spread g]
  · obtain ⟨g, rfl⟩ := hsp; exact h
  · have hnl : ∀ g, sels ≠ [Sel.spread g] := fun g hg => hsp ⟨g, hg⟩
    rw [fBody_not_lone hnl] at h
    rw [mBody_not_lone hnl]
    exact mSels_of_fSels s q o sels p h

/-- **`FragmentOp ⊆ MixedOp`** -/
theorem mixedOp_of_fragmentOp (c : Ctx) (op : ROperation) (h : FragmentOp c op = true) : MixedOp c op = true := by
  obtain ⟨hn, ho, hb⟩ := fragmentOp_parts h
  simp only [MixedOp, Bool.and_eq_true, beq_iff_eq]
  exact ⟨⟨hn, ho⟩, mBody_of_fBody hb⟩

mutual
  theorem mSel_of_sSel (s : Schema) (q : Query) (o : Options) : ∀ (x : Sel) (p : TypeId), sSel s q o false x = true →
      mSel s q o p x = true
    | .field a fid sub, p => by
      intro h
      have IH := mSels_of_sSels s q o sub
      cases hsf : s.fields[fid]? with
      | none => rw [sSel] at h; simp [hsf] at h
      | some sf =>
        rw [mSel]
        simp only [hsf]
        cases hid : sf.ty.id with
        | object i =>
          rw [sSel] at h
          simp only [hsf, hid, Bool.and_eq_true] at h ⊢
          refine ⟨⟨h.1, h.2.1.1⟩, ?_⟩
          have hnl := not_lone_spread_S h.2.1.2
          have := IH (.object i) h.2.1.2
          split
          · rename_i g; exact absurd rfl (fun hh => hnl g hh)
          · exact this
        | scalar k => exact h
        | «enum» k => exact h
        | interface k => exact h
        | union k => exact h
        | input k => exact h
    | .spread g, _ => by intro h; simp [sSel] at h
    | .inline _ _, _ => by intro h; simp [sSel] at h
    | .typename, _ => by intro _; simp [mSel]
  theorem mSels_of_sSels (s : Schema) (q : Query) (o : Options) : ∀ (sels : List Sel) (p : TypeId),
      sSels s q o false sels = true → mSels s q o p sels = true
    | [], _ => by intro _; rfl
    | x :: xs, p => by
      intro h
      obtain ⟨hx, hxs⟩ := sSels_cons h
      rw [mSels, mSel_of_sSel s q o x p hx, mSels_of_sSels s q o xs p hxs]; rfl
end

theorem mBody_of_sSels {s : Schema} {q : Query} {o : Options} {p : TypeId} {sels : List Sel}
    (h : sSels s q o false sels = true) : mBody s q o p sels = true := by
  have hnl : ∀ g, sels ≠ [Sel.spread g] := fun g hg => not_lone_spread_S h g hg
  rw [mBody_not_lone hnl]
  exact mSels_of_sSels s q o sels p h

/-- **`VariantSpreadOp ⊆ MixedOp`** -/
theorem mixedOp_of_variantSpreadOp (c : Ctx) (op : ROperation) (h : VariantSpreadOp c op = true) :
    MixedOp c op = true := by
  obtain ⟨hn, ho, hb, _⟩ := variantSpreadOp_parts h
  simp only [MixedOp, Bool.and_eq_true, beq_iff_eq]
  exact ⟨⟨hn, ho⟩, mBody_of_sSels hb⟩

/-- on `FragmentOp` the closed form is the one of `fragment_items_shape` -/
theorem bodyItemsM_eq_F (c : Ctx) (op : ROperation) (hop : op ∈ c.q.operations) (h : FragmentOp c op = true) :
    bodyItemsM c "ResponseData" (c.cs.camel op.name) op.sels =
      bodyItemsF c "ResponseData" (c.cs.camel op.name) op.sels := by
  have h1 := mixed_items_shape c op hop (mixedOp_of_fragmentOp c op h)
  rw [fragment_items_shape c op hop h] at h1
  exact (Except.ok.inj h1).symm

/-- on `VariantSpreadOp` the closed form is the one of `variantspread_items_shape` -/
theorem bodyItemsM_eq_S (c : Ctx) (op : ROperation) (hop : op ∈ c.q.operations) (h : VariantSpreadOp c op = true) :
    bodyItemsM c "ResponseData" (c.cs.camel op.name) op.sels =
      structItemsS c "ResponseData" (c.cs.camel op.name) op.sels := by
  have h1 := mixed_items_shape c op hop (mixedOp_of_variantSpreadOp c op h)
  rw [variantspread_items_shape c op hop h] at h1
  exact (Except.ok.inj h1).symm

end C01M
end GqlVerif
