import GqlVerif.Proofs.C01VariantSpreadF
import GqlVerif.Proofs.C01VariantSpreadH
/-!
# C01 / C03 end to end: `VariantSpreadOp2` — acceptance, precision, losslessness (part G)

The theorems of `VariantSpreadOp` for the class `VariantSpreadOp2` of part F (inline fragments `... on T { ...F }` next to other
selections on `T`, the shape of the defect repaired by fix 78c01b5).  The emitted items are those of the normalized operation
`normOp op` (`variantspread2_items_shape`); here:

* `conformsV_norm` — the **specification is invariant under the normalization**: a response conforms to the operation iff it
  conforms to the normalized operation (`... on T { ...F }` and `...F` collect the same fields when `F` is on `T`; the order
  of the selections is irrelevant);
* `reach_norm` / `topEnvS2_of_module` — the environment of the emitted module, for the normalized operation;
* `variantspread2_accepts`, `variantspread2_precise_iff`, `variantspread2_precise`, `variantspread2_lossless`,
  `variantspread2_roundtrip` — stated with the specification of the **original** operation;
* `variantspread2_content`, `variantspread2_roundtrip_content` — the closed form has the content of the response
  (`SameContent` of `C01VariantSpreadH`);
* `variantSpreadOp2_of_variantSpreadOp` — the class only grows;
* a generated module (`a2Query`: `hero { __typename ... on Human { ...HF } ... on Human { h2: height } ...HG }`) with every
  hypothesis evaluated, and necessity witnesses for the new side conditions.
-/
set_option linter.unusedSimpArgs false
set_option linter.unusedVariables false
set_option linter.unusedSectionVars false

namespace GqlVerif
namespace C01
namespace E2E
open Serde Spec C13 C03 Codegen

/-! ## the specification is invariant under the normalization -/

theorem confSelsV_append (s : Schema) (rt : Nat) (kvs : List (String × Json)) : ∀ (xs ys : List Sel),
    confSelsV s rt (xs ++ ys) kvs = (confSelsV s rt xs kvs && confSelsV s rt ys kvs)
  | [], ys => by simp [confSelsV]
  | x :: xs, ys => by rw [List.cons_append, confSelsV, confSelsV, confSelsV_append s rt kvs xs ys, Bool.and_assoc]

theorem keysSelsV_append (s : Schema) (rt : Nat) : ∀ (xs ys : List Sel),
    keysSelsV s rt (xs ++ ys) = keysSelsV s rt xs ++ keysSelsV s rt ys
  | [], ys => by simp [keysSelsV]
  | x :: xs, ys => by rw [List.cons_append, keysSelsV, keysSelsV, keysSelsV_append s rt xs ys, List.append_assoc]

theorem expandSels_append (q : Query) : ∀ (xs ys : List Sel), expandSels q (xs ++ ys) = expandSels q xs ++ expandSels q ys
  | [], ys => by simp [expandSels]
  | x :: xs, ys => by rw [List.cons_append, expandSels, expandSels, expandSels_append q xs ys, List.cons_append]

theorem contains_congr {l1 l2 : List String} (h : ∀ k, k ∈ l1 ↔ k ∈ l2) (k : String) : l1.contains k = l2.contains k := by
  rw [Bool.eq_iff_iff]; simp [h]

/-- two selection sets that collect the same keys and the same conditions, for every runtime type -/
def SameSpec (s : Schema) (A B : List Sel) : Prop :=
  ∀ rt, (∀ kvs, confSelsV s rt A kvs = confSelsV s rt B kvs) ∧ (∀ k, k ∈ keysSelsV s rt A ↔ k ∈ keysSelsV s rt B)

theorem confSelV_field_congr (s : Schema) {A B : List Sel} (h : SameSpec s A B) (rt : Nat) (a : Option String) (fid : Nat)
    (kvs : List (String × Json)) : confSelV s rt (.field a fid A) kvs = confSelV s rt (.field a fid B) kvs := by
  have h1 : ∀ rt' kvs', confSelsV s rt' A kvs' = confSelsV s rt' B kvs' := fun rt' => (h rt').1
  have h2 : ∀ rt' k, (keysSelsV s rt' A).contains k = (keysSelsV s rt' B).contains k :=
    fun rt' => contains_congr (h rt').2
  simp only [confSelV, h1, h2]

theorem conformsV_congr (s : Schema) {A B : List Sel} (h : SameSpec s A B) (rt : Nat) (j : Json) :
    conformsV s rt A j = conformsV s rt B j := by
  have h1 : ∀ kvs', confSelsV s rt A kvs' = confSelsV s rt B kvs' := (h rt).1
  have h2 : ∀ k, (keysSelsV s rt A).contains k = (keysSelsV s rt B).contains k := contains_congr (h rt).2
  cases j <;> simp only [conformsV, h1, h2]

theorem aliasWfSels_cons {q : Query} {x : Sel} {xs : List Sel} (h : aliasWfSels q (x :: xs) = true) :
    aliasWfSel q x = true ∧ aliasWfSels q xs = true := by
  simpa [aliasWfSels] using h

theorem aliasOn_spec {q : Query} {t : TypeId} {g : Nat} (h : aliasOn q t [.spread g] = true) :
    ∃ f, q.fragments[g]? = some f ∧ f.on = t := by
  simp only [aliasOn] at h
  cases hf : q.fragments[g]? with
  | none => simp [hf] at h
  | some f => simp only [hf, beq_iff_eq] at h; exact ⟨f, rfl, h⟩

mutual
  theorem norm_specSel (s : Schema) (q : Query) : ∀ (x : Sel), aliasWfSel q x = true → ∀ rt,
      (∀ kvs, confSelV s rt (expandSel q (normSel x)) kvs = confSelV s rt (expandSel q x) kvs) ∧
      (∀ k, k ∈ keysSelV s rt (expandSel q (normSel x)) ↔ k ∈ keysSelV s rt (expandSel q x))
    | .field a fid sub => by
      intro h rt
      rw [aliasWfSel] at h
      have IH := norm_specSels s q sub h
      rw [normSel_field, expandSel, expandSel]
      refine ⟨fun kvs => confSelV_field_congr s IH rt a fid kvs, fun k => ?_⟩
      simp only [keysSelV]
    | .inline t sub => by
      intro h rt
      rw [aliasWfSel, Bool.and_eq_true] at h
      have IH := norm_specSels s q sub h.2 rt
      rw [normSel_inline, expandSel, expandSel]
      refine ⟨fun kvs => ?_, fun k => ?_⟩
      · simp only [confSelV, IH.1]
      · simp only [keysSelV]
        split
        · exact IH.2 k
        · exact Iff.rfl
    | .spread g => by intro _ rt; rw [normSel]; exact ⟨fun _ => rfl, fun _ => Iff.rfl⟩
    | .typename => by intro _ rt; rw [normSel]; exact ⟨fun _ => rfl, fun _ => Iff.rfl⟩
  theorem norm_specSels (s : Schema) (q : Query) : ∀ (sels : List Sel), aliasWfSels q sels = true →
      SameSpec s (expandSels q (normSels sels)) (expandSels q sels)
    | [] => by intro _ rt; exact ⟨fun _ => rfl, fun _ => Iff.rfl⟩
    | x :: xs => by
      intro h rt
      obtain ⟨hx, hxs⟩ := aliasWfSels_cons h
      have IH := norm_specSels s q xs hxs rt
      have IHx := norm_specSel s q x hx rt
      unfold normSels at IH ⊢
      cases ha : aliasInl x with
      | none =>
        rw [keepN_cons_keep ha, movedN_cons_keep ha, List.cons_append, expandSels, expandSels]
        refine ⟨fun kvs => ?_, fun k => ?_⟩
        · rw [confSelsV, confSelsV, IHx.1, IH.1]
        · rw [keysSelsV, keysSelsV, List.mem_append, List.mem_append, IHx.2, IH.2]
      | some g =>
        obtain ⟨t, rfl⟩ := aliasInl_some ha
        rw [aliasWfSel, Bool.and_eq_true] at hx
        obtain ⟨f, hf, hon⟩ := aliasOn_spec hx.1
        rw [keepN_cons_alias ha, movedN_cons_alias ha, expandSels_append, expandSels, expandSels]
        rw [expandSels_append] at IH
        have e1 : expandSel q (.spread g) = .inline t f.sels := by rw [expandSel]; simp [hf, hon]
        have e2 : expandSel q (.inline t [.spread g]) = .inline t [.inline t f.sels] := by
          rw [expandSel, expandSels, expandSels, e1]
        rw [e1, e2]
        refine ⟨fun kvs => ?_, fun k => ?_⟩
        · rw [confSelsV_append, confSelsV, confSelsV, ← IH.1, confSelsV_append]
          simp only [confSelV, confSelsV]
          cases fragApplies s rt t <;> cases confSelsV s rt f.sels kvs <;>
            cases confSelsV s rt (expandSels q (keepN xs)) kvs <;> cases confSelsV s rt (expandSels q (movedN xs)) kvs <;> rfl
        · have hk := IH.2 k
          rw [keysSelsV_append, List.mem_append] at hk
          rw [keysSelsV_append, keysSelsV, keysSelsV]
          simp only [List.mem_append, ← hk, keysSelV, keysSelsV]
          cases fragApplies s rt t <;> simp <;>
            (constructor <;> (intro h'; rcases h' with h' | h' | h' <;> simp [h']))
end

/-- **the specification is invariant under the normalization** -/
theorem conformsV_norm (s : Schema) (q : Query) (sels : List Sel) (h : aliasWfSels q sels = true) (rt : Nat) (j : Json) :
    conformsV s rt (expandSels q (normSels sels)) j = conformsV s rt (expandSels q sels) j :=
  conformsV_congr s (norm_specSels s q sels h) rt j


/-! ## the environment of the emitted module, for the normalized operation -/

/-- everything reachable from the normalized selection set is (the normalization of) something reachable from the
    selection set itself -/
theorem reach_norm (q : Query) : ∀ {sels' : List Sel} {y : Sel}, C02.Reach q sels' y → ∀ sels, sels' = normSels sels →
    ∃ y0, C02.Reach q sels y0 ∧ (y = y0 ∨ y = normSel y0) := by
  intro sels' y h
  induction h with
  | @here sels' y hm =>
    intro sels he
    subst he
    rcases List.mem_append.mp hm with hk | hmv
    · obtain ⟨x, hx, _, rfl⟩ := mem_keepN hk
      exact ⟨x, .here hx, .inr rfl⟩
    · obtain ⟨t, g, hin, rfl⟩ := mem_movedN hmv
      exact ⟨.spread g, .inline hin (.here (by simp)), .inl rfl⟩
  | @field sels' a fid sub y hm _ ih =>
    intro sels he
    subst he
    rcases List.mem_append.mp hm with hk | hmv
    · obtain ⟨x, hx, _, hxe⟩ := mem_keepN hk
      cases x with
      | field a' fid' sub' =>
        rw [normSel_field] at hxe
        injection hxe with h1 h2 h3
        obtain ⟨y0, hr, hy⟩ := ih sub' h3
        exact ⟨y0, .field hx hr, hy⟩
      | inline t sub' => rw [normSel_inline] at hxe; cases hxe
      | spread g => rw [normSel] at hxe; cases hxe
      | typename => rw [normSel] at hxe; cases hxe
    · obtain ⟨t, g, _, he⟩ := mem_movedN hmv
      cases he
  | @inline sels' t sub y hm _ ih =>
    intro sels he
    subst he
    rcases List.mem_append.mp hm with hk | hmv
    · obtain ⟨x, hx, _, hxe⟩ := mem_keepN hk
      cases x with
      | field a' fid' sub' => rw [normSel_field] at hxe; cases hxe
      | inline t' sub' =>
        rw [normSel_inline] at hxe
        injection hxe with h1 h2
        obtain ⟨y0, hr, hy⟩ := ih sub' h2
        exact ⟨y0, .inline hx hr, hy⟩
      | spread g => rw [normSel] at hxe; cases hxe
      | typename => rw [normSel] at hxe; cases hxe
    · obtain ⟨t, g, _, he⟩ := mem_movedN hmv
      cases he
  | @spread sels' g f y hm hf hr _ =>
    intro sels he
    subst he
    rcases List.mem_append.mp hm with hk | hmv
    · obtain ⟨x, hx, _, hxe⟩ := mem_keepN hk
      cases x with
      | field a' fid' sub' => rw [normSel_field] at hxe; cases hxe
      | inline t' sub' => rw [normSel_inline] at hxe; cases hxe
      | spread g' =>
        rw [normSel] at hxe
        injection hxe with h1
        subst h1
        exact ⟨y, .spread hx hf hr, .inl rfl⟩
      | typename => rw [normSel] at hxe; cases hxe
    · obtain ⟨t, g', hin, he⟩ := mem_movedN hmv
      injection he with h1
      subst h1
      exact ⟨y, .inline hin (.spread (by simp) hf hr), .inl rfl⟩

theorem direct_normSel (s : Schema) (u : UsedTypes) : ∀ (x : Sel), C02.Direct s u x → C02.Direct s u (normSel x)
  | .field a fid sub, h => by rw [normSel_field]; exact h
  | .inline t sub, h => by rw [normSel_inline]; exact h
  | .spread g, h => by rw [normSel]; exact h
  | .typename, h => by rw [normSel]; exact h

theorem used_norm {s : Schema} {q : Query} {u : UsedTypes} {sels : List Sel}
    (h : ∀ x, C02.Reach q sels x → C02.Direct s u x) : ∀ x, C02.Reach q (normSels sels) x → C02.Direct s u x := by
  intro x hr
  obtain ⟨y0, hr0, hy⟩ := reach_norm q hr sels rfl
  rcases hy with rfl | rfl
  · exact h _ hr0
  · exact direct_normSel s u _ (h _ hr0)

theorem normOp_sels (op : ROperation) : (normOp op).sels = normSels op.sels := rfl
theorem normOp_name (op : ROperation) : (normOp op).name = op.name := rfl
theorem normOp_objectId (op : ROperation) : (normOp op).objectId = op.objectId := rfl

theorem topEnvS2_of_module {c : Ctx} {opIdx : Nat} {op : ROperation} {items : List Item}
    (hop : c.q.operations[opIdx]? = some op) (ht : VariantSpreadOp2 c op = true)
    (hgen : responseForQuery c opIdx = .ok items) (hok : moduleOk c items = true) :
    TopEnvS (moduleEnv c items) c (normOp op) := by
  obtain ⟨u, S, E, F, I, V, o, resp, hu, hS, hE, hF, ho, hresp, hitems⟩ := responseForQuery_parts_full hgen
  rw [hop] at ho; cases ho
  obtain ⟨_, _, ht'⟩ := variantSpreadOp2_parts ht
  obtain ⟨hn, _, hsels, _⟩ := variantSpreadOp_parts ht'
  rw [normOp_sels] at hsels
  rw [variantspread2_items_shape c op (List.mem_of_getElem? hop) ht] at hresp
  cases hresp
  simp only [moduleOk, Bool.and_eq_true, List.all_eq_true, decide_eq_true_eq, List.isEmpty_iff] at hok
  obtain ⟨⟨⟨⟨hnd, hnp⟩, hext⟩, htab⟩, hnoext⟩ := hok
  have hsub : ∀ it ∈ structItemsS c "ResponseData" (c.cs.camel op.name) (normSels op.sels), it ∈ items := by
    intro it h; rw [hitems]; simp [h]
  have M : ModFacts c items u (normSels op.sels) := {
    hn := hn
    nodup := nodup_iff'.mp hnd
    np := hnp
    ext := fun x hx => ⟨(hext x hx).1, fun it hit => by simpa using (hext x hx).2 it hit⟩
    tables := fun n d sp vs ser de hm => by simpa using htab _ hm
    builtin := fun it h => by rw [hitems]; simp [h]
    scalars := fun k n hk hn' hnd' => by
      have := scalarItems_mem hS hk hn' hnd'
      simp only [hn, Normalization.scalarName, Normalization.camelCase] at this
      rw [hitems]; simp [this]
    enums := fun k en hk hen => by
      have := enumItems_mem hE hk hen (by simp [hnoext])
      rw [hitems]; simp [this]
    used := used_norm (C02.selected_types_used c.s c.q opIdx u hu op hop) }
  -- the items of every spread fragment are in the module
  have hfragmem : ∀ g i, C02.Reach c.q (normSels op.sels) (.spread g) → fragOk c.s c.q c.o (.object i) g = true →
      ∀ f, c.q.fragments[g]? = some f → structItemsV c f.name (c.cs.camel f.name) f.sels ∈ F := by
    intro g i hr hokg f hf
    have hused : g ∈ u.fragments := M.used _ hr
    obtain ⟨its, hits, hfi⟩ := C02.mapM_ok_of_mem hF g ((C02.mem_sortNat _ _).mpr hused)
    obtain ⟨f', hf', hshape⟩ := fragment_struct_shape c hn (.object i) g i rfl hokg
    rw [hf] at hf'; cases hf'
    rw [hshape] at hfi; cases hfi
    exact hits
  have hfragmemB : ∀ g ty, C02.Reach c.q (normSels op.sels) (.spread g) → absHyp c.s ty →
      fragOkB c.s c.q c.o ty g = true →
      ∀ f, c.q.fragments[g]? = some f → absItemsV c f.name (c.cs.camel f.name) ty f.sels ∈ F := by
    intro g ty hr hty hokg f hf
    have hused : g ∈ u.fragments := M.used _ hr
    obtain ⟨its, hits, hfi⟩ := C02.mapM_ok_of_mem hF g ((C02.mem_sortNat _ _).mpr hused)
    obtain ⟨f', hf', hshape⟩ := fragment_abs_shape c hn ty g hty hokg
    rw [hf] at hf'; cases hf'
    rw [hshape] at hfi; cases hfi
    exact hits
  have hfr : FragsIn c items (normSels op.sels) := by
    intro g i hr hokg f hf it hit
    rw [hitems]
    have : it ∈ F.flatten := List.mem_flatten.mpr ⟨_, hfragmem g i hr hokg f hf, hit⟩
    simp [this]
  have hfrB : FragsInB c items (normSels op.sels) := by
    intro g ty hr hty hokg f hf it hit
    rw [hitems]
    have : it ∈ F.flatten := List.mem_flatten.mpr ⟨_, hfragmemB g ty hr hty hokg f hf, hit⟩
    simp [this]
  have hK : ∀ g, C02.Reach c.q (normSels op.sels) (.spread g) → FragOkAny c.s c.q c.o g →
      selsDepth (fragSels c.q g) ≤ F.flatten.length := by
    intro g hr hokg
    rcases hokg with ⟨i, hokg⟩ | ⟨ty, hty, hokg⟩
    · obtain ⟨f, hf, _, _, hv, _⟩ := fragOk_parts hokg
      have h1 := length_le_flatten (hfragmem g i hr hokg f hf)
      have h2 := (depthV_sels c f.sels (c.cs.camel f.name) false hv).1 rfl
      have : fragSels c.q g = f.sels := by simp [fragSels, hf]
      rw [this]
      simp only [structItemsV, List.length_cons] at h1
      omega
    · obtain ⟨f, hf, _, _, hv, hokf⟩ := fragOkB_parts hokg
      obtain ⟨_, _, _, _, _, hin, _, _⟩ := absOk_parts hokf
      have h1 := length_le_flatten (hfragmemB g ty hr hty hokg f hf)
      have h2 := (depthV_sels c f.sels (c.cs.camel f.name) true hv).2 _ hin
      have h3 := renderType_length_pos c f.name (fieldsOfV c (c.cs.camel f.name) f.sels)
        (variantsV c (c.cs.camel f.name) ty f.sels)
      have : fragSels c.q g = f.sels := by simp [fragSels, hf]
      rw [this]
      simp only [absItemsV, List.length_append] at h1
      omega
  refine ⟨structEnv_of M _ _ (hsub _ (by simp [structItemsS, normOp_sels, normOp_name])), ?_, ?_⟩
  · rw [normOp_sels, normOp_name]
    refine envSelsS_of M hfr hfrB (normSels op.sels) _ false hsels (fun x hx it h => hsub it ?_) (fun x hx => .here hx)
      (fun g hg => absurd hg (no_spread_of_sSels hsels g))
    have hxs := sSels_mem hsels x hx
    have : it ∈ itemsSs c (c.cs.camel op.name) (normSels op.sels) := by
      cases x with
      | inline t isub => simp [sSel] at hxs
      | spread g => simp [sSel] at hxs
      | field a' fid' sub' => exact mem_itemsSs hx h
      | typename => exact mem_itemsSs hx h
    simp [structItemsS, this]
  · rw [normOp_sels]
    have hd := depthS_obj c F.flatten.length (normSels op.sels) (c.cs.camel op.name) hsels (by
      intro g hg
      have hr := reach_spreadIdss c.q (normSels op.sels) (normSels op.sels) (fun y hy => .here hy) g hg
      have hokg := fragOk_of_spreadIdsS c.s c.q c.o (normSels op.sels) false hsels
        (fun g' hg' => absurd hg' (no_spread_of_sSels hsels g')) g hg
      exact hK g hr hokg)
    rw [hitems]
    simp only [moduleEnv, List.length_append, structItemsS, List.length_cons]
    omega

/-! ## the theorems -/

/-- **`variantspread2_accepts`.**  Every response that conforms to the operation (specification of the operation as written)
    is accepted by the emitted `ResponseData`. -/
theorem variantspread2_accepts (c : Ctx) (opIdx : Nat) (op : ROperation) (items : List Item)
    (hop : c.q.operations[opIdx]? = some op) (ht : VariantSpreadOp2 c op = true)
    (hgen : responseForQuery c opIdx = .ok items) (hok : moduleOk c items = true)
    (j : Json) (hc : conformsOpS c op j = true) :
    ∃ v, Serde.de (moduleEnv c items) (.path "ResponseData") j = .ok v := by
  obtain ⟨hwf, _, ht'⟩ := variantSpreadOp2_parts ht
  have he := topEnvS2_of_module hop ht hgen hok
  have := top_accepts_iffS (moduleEnv c items) c (normOp op) ht' he j
  have hc' : conformsV c.s op.objectId (expandSels c.q (normSels op.sels)) j = true := by
    rw [conformsV_norm c.s c.q op.sels hwf]; exact hc
  have hs : sSels c.s c.q c.o false (normSels op.sels) = true := (variantSpreadOp_parts ht').2.2.1
  rw [normOp_sels, conformsS_loose c.s c.q c.o false _ _ _ hs hc'] at this
  exact (okB_iff _).mp this

/-- **`variantspread2_precise_iff` (C03).**  The emitted `ResponseData` accepts `j` **iff** `conformsLooseS … false` of the
    normalized selection set. -/
theorem variantspread2_precise_iff (c : Ctx) (opIdx : Nat) (op : ROperation) (items : List Item)
    (hop : c.q.operations[opIdx]? = some op) (ht : VariantSpreadOp2 c op = true)
    (hgen : responseForQuery c opIdx = .ok items) (hok : moduleOk c items = true) (j : Json) :
    okB (Serde.de (moduleEnv c items) (.path "ResponseData") j) =
      conformsLooseS c.s c.q c.o false (normSels op.sels) j :=
  top_accepts_iffS (moduleEnv c items) c (normOp op) (variantSpreadOp2_parts ht).2.2
    (topEnvS2_of_module hop ht hgen hok) j

theorem variantspread2_precise (c : Ctx) (opIdx : Nat) (op : ROperation) (items : List Item)
    (hop : c.q.operations[opIdx]? = some op) (ht : VariantSpreadOp2 c op = true)
    (hgen : responseForQuery c opIdx = .ok items) (hok : moduleOk c items = true) (j : Json) (v : Val)
    (hd : Serde.de (moduleEnv c items) (.path "ResponseData") j = .ok v) :
    conformsLooseS c.s c.q c.o false (normSels op.sels) j = true := by
  rw [← variantspread2_precise_iff c opIdx op items hop ht hgen hok j, hd]; rfl

/-- **`variantspread2_lossless`.**  A response that conforms to the operation (as written) and was read is written back as
    `normJson (canonSelD … (normSels op.sels) j)`: the entries of `... on T { ...F }` are written where the member
    `snake(F)` is — behind the other entries of the variant. -/
theorem variantspread2_lossless (c : Ctx) (opIdx : Nat) (op : ROperation) (items : List Item)
    (hop : c.q.operations[opIdx]? = some op) (ht : VariantSpreadOp2 c op = true)
    (hgen : responseForQuery c opIdx = .ok items) (hok : moduleOk c items = true)
    (hr : spreadRustOkD c (normOp op) = true)
    (j : Json) (hc : conformsOpS c op j = true) (v : Val)
    (hd : Serde.de (moduleEnv c items) (.path "ResponseData") j = .ok v) :
    Serde.ser (moduleEnv c items) (.path "ResponseData") v =
      .ok (normJson (canonSelD c.s c.q c.o.skipNone (normSels op.sels) j)) := by
  obtain ⟨hwf, _, ht'⟩ := variantSpreadOp2_parts ht
  simp only [spreadRustOkD, Bool.and_eq_true] at hr
  have hc' : conformsV c.s op.objectId (expandSels c.q (normSels op.sels)) j = true := by
    rw [conformsV_norm c.s c.q op.sels hwf]; exact hc
  exact top_losslessD (moduleEnv c items) c (normOp op) ht' (topEnvS2_of_module hop ht hgen hok) hr.1 hr.2 _ j v hc' hd

/-- **`variantspread2_roundtrip`**: both in one statement -/
theorem variantspread2_roundtrip (c : Ctx) (opIdx : Nat) (op : ROperation) (items : List Item)
    (hop : c.q.operations[opIdx]? = some op) (ht : VariantSpreadOp2 c op = true)
    (hgen : responseForQuery c opIdx = .ok items) (hok : moduleOk c items = true)
    (hr : spreadRustOkD c (normOp op) = true)
    (j : Json) (hc : conformsOpS c op j = true) :
    Serde.roundtrip (moduleEnv c items) (.path "ResponseData") j =
      .ok (normJson (canonSelD c.s c.q c.o.skipNone (normSels op.sels) j)) := by
  obtain ⟨v, hv⟩ := variantspread2_accepts c opIdx op items hop ht hgen hok j hc
  unfold Serde.roundtrip
  rw [hv]
  exact variantspread2_lossless c opIdx op items hop ht hgen hok hr j hc v hv

/-- **`variantspread2_content`**: the closed form of `variantspread2_lossless` / `variantspread2_roundtrip` has the content of
    the response (`SameContent` of `C01VariantSpreadH`) -/
theorem variantspread2_content (c : Ctx) (op : ROperation) (ht : VariantSpreadOp2 c op = true) (j : Json)
    (hc : conformsOpS c op j = true) :
    SameContent c.o.skipNone j (normJson (canonSelD c.s c.q c.o.skipNone (normSels op.sels) j)) := by
  obtain ⟨hwf, _, ht'⟩ := variantSpreadOp2_parts ht
  have hc' : conformsOpS c (normOp op) j = true := by
    unfold conformsOpS
    rw [normOp_sels, normOp_objectId, conformsV_norm c.s c.q op.sels hwf]; exact hc
  exact variantspread_content c (normOp op) ht' j hc'

/-- **`variantspread2_roundtrip_content`**: the round trip returns a response with the same content -/
theorem variantspread2_roundtrip_content (c : Ctx) (opIdx : Nat) (op : ROperation) (items : List Item)
    (hop : c.q.operations[opIdx]? = some op) (ht : VariantSpreadOp2 c op = true)
    (hgen : responseForQuery c opIdx = .ok items) (hok : moduleOk c items = true)
    (hr : spreadRustOkD c (normOp op) = true) (j : Json) (hc : conformsOpS c op j = true) :
    ∃ j', Serde.roundtrip (moduleEnv c items) (.path "ResponseData") j = .ok j' ∧ SameContent c.o.skipNone j j' :=
  ⟨_, variantspread2_roundtrip c opIdx op items hop ht hgen hok hr j hc, variantspread2_content c op ht j hc⟩

/-! ## the class only grows -/

theorem aliasFrOk_of_noAlias (c : Ctx) : ∀ (sels : List Sel), (∀ x ∈ sels, aliasInl x = none) → aliasFrOk c sels = true := by
  intro sels h
  simp only [aliasFrOk, List.all_eq_true]
  intro x hx
  have := h x hx
  split
  · simp [aliasInl] at this
  · simp [aliasInl] at this
  · rfl

theorem keepN_of_noAlias : ∀ (sels : List Sel), (∀ x ∈ sels, aliasInl x = none) → (∀ x ∈ sels, normSel x = x) →
    keepN sels = sels
  | [], _, _ => rfl
  | x :: xs, h, hn => by
    rw [keepN_cons_keep (h x (by simp)), hn x (by simp),
      keepN_of_noAlias xs (fun y hy => h y (List.mem_cons_of_mem _ hy)) (fun y hy => hn y (List.mem_cons_of_mem _ hy))]

theorem edgeOk_of_noAlias (c : Ctx) (vt : TypeId) (sels : List Sel) (h : ∀ x ∈ sels, aliasInl x = none) :
    edgeOk c vt sels = true := by
  have : movedN (mineOf c.q vt sels) = [] :=
    movedN_no_alias _ (fun x hx => h x (List.mem_filter.mp hx).1)
  simp [edgeOk, this]

theorem aliasAt_of_noAlias (c : Ctx) (vts : List TypeId) (sels : List Sel) (h : ∀ x ∈ sels, aliasInl x = none) :
    aliasAt c vts sels = true := by
  simp only [aliasAt, Bool.and_eq_true, List.all_eq_true]
  exact ⟨aliasFrOk_of_noAlias c sels h, fun vt _ => edgeOk_of_noAlias c vt sels h⟩

/-- the conjunction proved along the tree of an operation of `VariantSpreadOp`: nothing to normalize -/
def NoAliasAt (c : Ctx) (sels : List Sel) : Prop :=
  normSels sels = sels ∧ aliasOkSels c sels = true ∧ aliasWfSels c.q sels = true ∧ ∀ x ∈ sels, aliasInl x = none

theorem aliasInl_inline_obj {s : Schema} {q : Query} {o : Options} {t : TypeId} {sub : List Sel}
    (h : sSels s q o false sub = true) : aliasInl (.inline t sub) = none := by
  cases hg : aliasInl (.inline t sub) with
  | none => rfl
  | some g =>
    obtain ⟨t', he⟩ := aliasInl_some hg
    injection he with _ h2
    subst h2
    exact absurd (List.mem_singleton.mpr rfl) (no_spread_of_sSels h g)

theorem aliasOn_obj {s : Schema} {q : Query} {o : Options} {t : TypeId} {sub : List Sel}
    (h : sSels s q o false sub = true) : aliasOn q t sub = true := by
  unfold aliasOn
  split
  · rename_i g
    exact absurd (List.mem_singleton.mpr rfl) (no_spread_of_sSels h g)
  · rfl

mutual
  theorem noAlias_sel (c : Ctx) : ∀ (x : Sel) (abs : Bool), sSel c.s c.q c.o abs x = true →
      normSel x = x ∧ aliasOkSel c x = true ∧ aliasWfSel c.q x = true ∧ aliasInl x = none
    | .field a fid sub, abs => by
      intro ht
      have IH := noAlias_sels c sub
      rw [sSel] at ht
      cases hsf : c.s.fields[fid]? with
      | none => simp [hsf] at ht
      | some sf =>
        simp only [hsf, Bool.and_eq_true] at ht
        have hty := ht.2
        have key : ∀ abs', sSels c.s c.q c.o abs' sub = true →
            normSel (.field a fid sub) = .field a fid sub ∧ aliasOkSel c (.field a fid sub) = true ∧
              aliasWfSel c.q (.field a fid sub) = true ∧ aliasInl (.field a fid sub) = none := by
          intro abs' hs
          obtain ⟨h1, h2, h3, h4⟩ := IH abs' hs
          refine ⟨by rw [normSel_field, h1], ?_, by rw [aliasWfSel]; exact h3, rfl⟩
          rw [aliasOkSel]
          simp only [hsf, Bool.and_eq_true]
          exact ⟨aliasAt_of_noAlias c _ sub h4, h2⟩
        cases hid : sf.ty.id with
        | scalar k =>
          simp only [hid, Bool.and_eq_true, List.isEmpty_iff] at hty
          have := hty.2; subst this
          exact key false rfl
        | «enum» k =>
          simp only [hid, Bool.and_eq_true, List.isEmpty_iff] at hty
          have := hty.2; subst this
          exact key false rfl
        | object i => simp only [hid, Bool.and_eq_true] at hty; exact key false hty.1.2
        | interface k => simp only [hid, Bool.and_eq_true] at hty; exact key true hty.1.2
        | union k => simp only [hid, Bool.and_eq_true] at hty; exact key true hty.1.2
        | input k => simp [hid] at hty
    | .inline t sub, abs => by
      intro ht
      simp only [sSel, Bool.and_eq_true] at ht
      obtain ⟨h1, h2, h3, h4⟩ := noAlias_sels c sub false ht.1.2
      refine ⟨by rw [normSel_inline, h1], by rw [aliasOkSel]; exact h2, ?_, aliasInl_inline_obj ht.1.2⟩
      rw [aliasWfSel, Bool.and_eq_true]
      exact ⟨aliasOn_obj ht.1.2, h3⟩
    | .spread g, _ => by intro _; exact ⟨by rw [normSel], by simp [aliasOkSel], by simp [aliasWfSel], rfl⟩
    | .typename, _ => by intro _; exact ⟨by rw [normSel], by simp [aliasOkSel], by simp [aliasWfSel], rfl⟩
  theorem noAlias_sels (c : Ctx) : ∀ (sels : List Sel) (abs : Bool), sSels c.s c.q c.o abs sels = true →
      NoAliasAt c sels
    | [], _ => by intro _; exact ⟨rfl, rfl, rfl, fun x hx => by simp at hx⟩
    | x :: xs, abs => by
      intro ht
      obtain ⟨hx, hxs⟩ := sSels_cons ht
      obtain ⟨a1, a2, a3, a4⟩ := noAlias_sel c x abs hx
      obtain ⟨b1, b2, b3, b4⟩ := noAlias_sels c xs abs hxs
      have hall : ∀ y ∈ x :: xs, aliasInl y = none := by
        intro y hy
        rcases List.mem_cons.mp hy with h | h
        · rw [h]; exact a4
        · exact b4 y h
      refine ⟨?_, by rw [aliasOkSels, a2, b2]; rfl, by rw [aliasWfSels, a3, b3]; rfl, hall⟩
      unfold normSels at b1 ⊢
      rw [movedN_no_alias _ hall, List.append_nil, keepN_cons_keep a4, a1]
      rw [movedN_no_alias _ b4, List.append_nil] at b1
      rw [b1]
end

theorem normOp_of_variantSpreadOp {c : Ctx} {op : ROperation} (h : VariantSpreadOp c op = true) : normOp op = op := by
  obtain ⟨_, _, hsels, _⟩ := variantSpreadOp_parts h
  obtain ⟨h1, _⟩ := noAlias_sels c op.sels false hsels
  unfold normOp
  rw [h1]

/-- **the class only grows**: `VariantSpreadOp ⊆ VariantSpreadOp2`, with the same statements (`normSels op.sels = op.sels`) -/
theorem variantSpreadOp2_of_variantSpreadOp (c : Ctx) (op : ROperation) (h : VariantSpreadOp c op = true) :
    VariantSpreadOp2 c op = true ∧ normSels op.sels = op.sels := by
  obtain ⟨_, _, hsels, _⟩ := variantSpreadOp_parts h
  obtain ⟨h1, h2, h3, _⟩ := noAlias_sels c op.sels false hsels
  refine ⟨?_, h1⟩
  unfold VariantSpreadOp2
  rw [normOp_of_variantSpreadOp h, h, h2, h3]
  rfl

/-! ## a generated module of the class `VariantSpreadOp2`

Schema `vxSchema`, fragments of `wsQuery` (`HG on Human { height }`, `HF on Human { name }`, …);
`query Q { hero { __typename ... on Human { ...HF } ... on Human { h2: height } ...HG } }` -/

def a2Sels : List Sel :=
  [.typename, .inline (.object 1) [.spread 3], .inline (.object 1) [.field (some "h2") 2 []], .spread 0]

def a2Items : List Item := okOr (responseForQuery (wsCtx a2Sels) 0)

theorem a2_gen : responseForQuery (wsCtx a2Sels) 0 = .ok a2Items := gen_of_isOk (by decide +kernel)
theorem a2_class : VariantSpreadOp2 (wsCtx a2Sels) (wsOp a2Sels) = true := by decide +kernel
/-- not in the class `VariantSpreadOp` -/
theorem a2_not_class1 : VariantSpreadOp (wsCtx a2Sels) (wsOp a2Sels) = false := by decide +kernel
theorem a2_ok : moduleOk (wsCtx a2Sels) a2Items = true := by decide +kernel
theorem a2_rustD : spreadRustOkD (wsCtx a2Sels) (normOp (wsOp a2Sels)) = true := by decide +kernel

/-- the normalized selection set: the aliased inline fragment is the spread `...HF`, behind the other selections -/
theorem a2_norm : normSels a2Sels =
    [.typename, .inline (.object 1) [.field (some "h2") 2 []], .spread 0, .spread 3] := by
  simp [normSels, keepN, movedN, normSel, aliasInl, a2Sels]

/-- the variant of `Human`: the struct with the inline fragment's field, the member for `...HG` and — last — the member for
    `... on Human { ...HF }` (`aliasMember`) -/
theorem a2_items_shape :
    ((moduleEnv (wsCtx a2Sels) a2Items).find "QheroOnHuman" ==
      some (.struct "QheroOnHuman" ["Deserialize"] (some "::serde")
        [{ rust := "h2", ty := .opt (.path "Float") },
         { rust := "HG", ty := .path "HG", flatten := true },
         { rust := "HF", ty := .path "HF", flatten := true }])) = true := by
  decide +kernel

def a2JsonH : Json :=
  .obj [("hero", .obj [("__typename", .str "Human"), ("name", .str "x"), ("h2", .num "1.8"), ("height", .num "1.8")])]

set_option maxRecDepth 8000 in
theorem a2_conformsH : conformsOpS (wsCtx a2Sels) (wsOp a2Sels) a2JsonH = true := by
  simp only [a2Sels, a2JsonH]; confS_eval

set_option maxRecDepth 8000 in
theorem a2_canonD :
    normJson (canonSelD vxSchema (wsQuery a2Sels) false (normSels (wsOp a2Sels).sels) a2JsonH) =
      .obj [("hero", .obj [("__typename", .str "Human"), ("h2", .num "1.8"), ("height", .num "1.8"),
                           ("name", .str "x")])] := by
  have e : normSels (wsOp a2Sels).sels =
      [.field none 0 [.typename, .inline (.object 1) [.field (some "h2") 2 []], .spread 0, .spread 3]] := by
    simp [normSels, keepN, movedN, normSel, aliasInl, a2Sels, wsOp]
  rw [e]
  simp [canonSelD, canonEntriesD, canonFieldD, loneG, canonEntriesBD, canonVarD, onNamed, absEntries, absRest, hasStruct,
    isBSpread, isFieldSel, canonAbsV, canonEntriesV, canonFieldV, canonInlV, tagName, wsOp, wsQuery, a2Sels, a2JsonH,
    vxSchema, objName, rtName, fieldKeys, fieldKey, Json.lookup, canon, canonNN, gtyOf, Json.isNull, skipQ,
    normJson, normKvs, normList, Json.normObj, Json.insert]

/-- `variantspread2_roundtrip` on the generated module: the entries of `... on Human { ...HF }` are written last -/
theorem a2_roundtripH :
    Serde.roundtrip (moduleEnv (wsCtx a2Sels) a2Items) (.path "ResponseData") a2JsonH =
      .ok (.obj [("hero", .obj [("__typename", .str "Human"), ("h2", .num "1.8"), ("height", .num "1.8"),
                                ("name", .str "x")])]) := by
  rw [variantspread2_roundtrip (wsCtx a2Sels) 0 (wsOp a2Sels) a2Items rfl a2_class a2_gen a2_ok a2_rustD a2JsonH
    a2_conformsH]
  exact congrArg Except.ok a2_canonD

theorem a2_precise (j : Json) :
    okB (Serde.de (moduleEnv (wsCtx a2Sels) a2Items) (.path "ResponseData") j) =
      conformsLooseS vxSchema (wsQuery a2Sels) {} false (normSels (wsOp a2Sels).sels) j :=
  variantspread2_precise_iff (wsCtx a2Sels) 0 (wsOp a2Sels) a2Items rfl a2_class a2_gen a2_ok j

/-- the shape of the defect repaired by fix 78c01b5 itself — `hero { __typename ... on Human { ...HF } ...HG }` — is in the
    class: the variant keeps both fragments (`variantspread_alias_keeps_sibling` is the shape theorem on this instance) -/
def a3Sels : List Sel := [.typename, .inline (.object 1) [.spread 3], .spread 0]

theorem a3_class : VariantSpreadOp2 (wsCtx a3Sels) (wsOp a3Sels) = true := by decide +kernel

theorem variantspread2_alias_keeps_sibling :
    ((moduleEnv (wsCtx a3Sels) (okOr (responseForQuery (wsCtx a3Sels) 0))).find "QheroOnHuman" ==
      some (.struct "QheroOnHuman" ["Deserialize"] (some "::serde")
        [{ rust := "HG", ty := .path "HG", flatten := true },
         { rust := "HF", ty := .path "HF", flatten := true }])) = true := by
  decide +kernel

/-! ## the new side conditions are needed -/

/-- `hero { __typename ... on Droid { ...HF } }` with `HF on Human`: the type condition is not the fragment's type -/
def a4Sels : List Sel := [.typename, .inline (.object 2) [.spread 3]]

def a4JsonD : Json := .obj [("hero", .obj [("__typename", .str "Droid")])]

/-- **`variantspread2_accepts` is false without "the fragment is on the type of the condition"** (`aliasWfSels`,
    `aliasFrOk`): the module is generated and `moduleOk`, the response conforms (`HF` does not apply to a `Droid`), and the
    emitted `ResponseData` rejects it (the variant `Droid` is the alias of `HF`, which requires `name`) -/
theorem variantspread2_alias_type_needed :
    aliasWfSels (wsQuery a4Sels) (wsOp a4Sels).sels = false ∧
    isOkO (responseForQuery (wsCtx a4Sels) 0) = true ∧
    moduleOk (wsCtx a4Sels) (okOr (responseForQuery (wsCtx a4Sels) 0)) = true ∧
    conformsOpS (wsCtx a4Sels) (wsOp a4Sels) a4JsonD = true ∧
    okB (Serde.de (moduleEnv (wsCtx a4Sels) (okOr (responseForQuery (wsCtx a4Sels) 0))) (.path "ResponseData")
      a4JsonD) = false := by
  refine ⟨by decide +kernel, by decide +kernel, by decide +kernel, ?_, by decide +kernel⟩
  simp only [a4Sels, a4JsonD]; confS_eval

/-- `hero { __typename ... on Human { ...HF } ... on Human { __typename } }`: one aliased inline fragment next to a selection
    on `Human` that contributes no field -/
def a5Sels : List Sel := [.typename, .inline (.object 1) [.spread 3], .inline (.object 1) [.typename]]

/-- **the shape theorem is false without `edgeOk`**: everything else of the class holds, and the generator emits the type
    alias `QheroOnHuman = HF`, not the struct with the one member `HF` of the closed form (both read the same responses; the
    exclusion is one of the closed form, not a defect) -/
theorem variantspread2_edge_needed :
    aliasWfSels (wsQuery a5Sels) (wsOp a5Sels).sels = true ∧
    VariantSpreadOp (wsCtx a5Sels) (normOp (wsOp a5Sels)) = true ∧
    VariantSpreadOp2 (wsCtx a5Sels) (wsOp a5Sels) = false ∧
    responseItems (wsCtx a5Sels) (wsOp a5Sels) ≠
      .ok (structItemsS (wsCtx a5Sels) "ResponseData" "Q" (normSels (wsOp a5Sels).sels)) := by
  refine ⟨by decide +kernel, by decide +kernel, by decide +kernel, ?_⟩
  intro h
  have h1 : okOr (responseItems (wsCtx a5Sels) (wsOp a5Sels)) =
      structItemsS (wsCtx a5Sels) "ResponseData" "Q" (normSels (wsOp a5Sels).sels) := by rw [h]; rfl
  have h2 := congrArg (fun l => l.any (fun it => it == Item.alias "QheroOnHuman" true (.path "HF"))) h1
  revert h2
  decide +kernel

/-! ## several inline fragments on one possible type (class `VariantSpreadOp`), on a generated module

`query Q { hero { __typename ... on Human { h2: height } ...HB ... on Human { __typename n2: name } } }` -/

def miSels : List Sel :=
  [.typename, .inline (.object 1) [.field (some "h2") 2 []], .spread 1,
   .inline (.object 1) [.typename, .field (some "n2") 1 []]]

def miItems : List Item := okOr (responseForQuery (wsCtx miSels) 0)

theorem mi_gen : responseForQuery (wsCtx miSels) 0 = .ok miItems := gen_of_isOk (by decide +kernel)
theorem mi_class : VariantSpreadOp (wsCtx miSels) (wsOp miSels) = true := by decide +kernel
theorem mi_ok : moduleOk (wsCtx miSels) miItems = true := by decide +kernel
theorem mi_rustD : spreadRustOkD (wsCtx miSels) (wsOp miSels) = true := by decide +kernel

/-- the variant of `Human`: one struct with the fields of both inline fragments and the member, in selection order -/
theorem mi_items_shape :
    ((moduleEnv (wsCtx miSels) miItems).find "QheroOnHuman" ==
      some (.struct "QheroOnHuman" ["Deserialize"] (some "::serde")
        [{ rust := "h2", ty := .opt (.path "Float") },
         { rust := "HB", ty := .path "HB", flatten := true },
         { rust := "n2", ty := .path "String" }])) = true := by
  decide +kernel

def miJson : Json :=
  .obj [("hero", .obj [("__typename", .str "Human"), ("n2", .str "x"), ("h2", .num "1.8"), ("buddy", .null)])]

set_option maxRecDepth 8000 in
theorem mi_conforms : conformsOpS (wsCtx miSels) (wsOp miSels) miJson = true := by
  simp only [miSels, miJson]; confS_eval

set_option maxRecDepth 8000 in
theorem mi_canonD :
    normJson (canonSelD vxSchema (wsQuery miSels) false (wsOp miSels).sels miJson) =
      .obj [("hero", .obj [("__typename", .str "Human"), ("h2", .num "1.8"), ("buddy", .null), ("n2", .str "x")])] := by
  simp [canonSelD, canonEntriesD, canonFieldD, loneG, canonEntriesBD, canonVarD, onNamed, absEntries, absRest, hasStruct,
    isBSpread, isFieldSel, canonAbsV, canonEntriesV, canonFieldV, canonInlV, tagName, wsOp, wsQuery, miSels, miJson,
    vxSchema, objName, rtName, fieldKeys, fieldKey, Json.lookup, canon, canonNN, gtyOf, Json.isNull, skipQ,
    normJson, normKvs, normList, Json.normObj, Json.insert]

theorem mi_roundtrip :
    Serde.roundtrip (moduleEnv (wsCtx miSels) miItems) (.path "ResponseData") miJson =
      .ok (.obj [("hero", .obj [("__typename", .str "Human"), ("h2", .num "1.8"), ("buddy", .null), ("n2", .str "x")])]) := by
  rw [variantspread_roundtrip (wsCtx miSels) 0 (wsOp miSels) miItems rfl mi_class mi_gen mi_ok mi_rustD miJson mi_conforms]
  exact congrArg Except.ok mi_canonD

theorem mi_precise (j : Json) :
    okB (Serde.de (moduleEnv (wsCtx miSels) miItems) (.path "ResponseData") j) =
      conformsLooseS vxSchema (wsQuery miSels) {} false (wsOp miSels).sels j :=
  variantspread_precise_iff (wsCtx miSels) 0 (wsOp miSels) miItems rfl mi_class mi_gen mi_ok j

/-- `hero { __typename ... on Human { height } ... on Human { height } }`: the keys selected on one variant are not
    pairwise distinct (`absOkS`, third part) -/
def miBad : List Sel := [.typename, .inline (.object 1) [.field none 2 []], .inline (.object 1) [.field none 2 []]]

/-- **the disjointness of the keys of two inline fragments on one type is needed**: the module is generated and
    `moduleOk`, and the variant struct declares the field `height` twice (`spreadRustOkD` is false: E0124 in Rust) -/
theorem variantspread_two_inline_overlap_dup_field :
    VariantSpreadOp (wsCtx miBad) (wsOp miBad) = false ∧
    isOkO (responseForQuery (wsCtx miBad) 0) = true ∧
    moduleOk (wsCtx miBad) (okOr (responseForQuery (wsCtx miBad) 0)) = true ∧
    spreadRustOkD (wsCtx miBad) (wsOp miBad) = false ∧
    ((moduleEnv (wsCtx miBad) (okOr (responseForQuery (wsCtx miBad) 0))).find "QheroOnHuman" ==
      some (.struct "QheroOnHuman" ["Deserialize"] (some "::serde")
        [{ rust := "height", ty := .opt (.path "Float") }, { rust := "height", ty := .opt (.path "Float") }])) = true := by
  refine ⟨by decide +kernel, by decide +kernel, by decide +kernel, by decide +kernel, by decide +kernel⟩

/-! ## a selection set on an abstract type that is a lone spread (class `VariantSpreadOp`), on a generated module

Fragments of `bsQuery` (`fragment CF on Character { name __typename }`, …); `query Q { hero { ...CF } }`: the position is the
type alias `Qhero = CF`; `__typename` comes from the fragment. -/

def lsSels : List Sel := [.spread 0]

def lsItems : List Item := okOr (responseForQuery (bsCtx lsSels) 0)

theorem ls_gen : responseForQuery (bsCtx lsSels) 0 = .ok lsItems := gen_of_isOk (by decide +kernel)
theorem ls_class : VariantSpreadOp (bsCtx lsSels) (wsOp lsSels) = true := by decide +kernel
theorem ls_ok : moduleOk (bsCtx lsSels) lsItems = true := by decide +kernel
theorem ls_rustD : spreadRustOkD (bsCtx lsSels) (wsOp lsSels) = true := by decide +kernel

/-- the position is the type alias of the fragment's struct; the fragment's items are its struct and tagged enum -/
theorem ls_items_shape :
    ((moduleEnv (bsCtx lsSels) lsItems).find "Qhero" == some (.alias "Qhero" true (.path "CF"))) &&
    (lsItems.map (·.name) == ["Boolean", "Float", "Int", "ID", "Variables", "CF", "CFOn", "ResponseData", "Qhero"]) = true := by
  decide +kernel

set_option maxRecDepth 8000 in
theorem ls_conforms : conformsOpS (bsCtx lsSels) (wsOp lsSels) wsJsonN = true := by
  simp only [lsSels, wsJsonN]
  simp [conformsOpS, bsCtx, wsOp, bsQuery, expandSels, expandSel, conformsV, confSelsV, confSelV, keysSelsV, keysSelV,
    fragApplies, rtName, vxSchema, Json.lookup, accepts, acceptsNN, gtyOf, scalarOk, floatOk, stringOk,
    Json.isNull, EnumSpec.nodup, List.range, List.range.loop, conformsAt, Schema.implementors]

set_option maxRecDepth 8000 in
theorem ls_canonD :
    normJson (canonSelD vxSchema (bsQuery lsSels) false (wsOp lsSels).sels wsJsonN) =
      .obj [("hero", .obj [("name", .str "x"), ("__typename", .str "Human")])] := by
  simp [canonSelD, canonEntriesD, canonFieldD, loneG, canonEntriesBD, canonVarD, onNamed, absEntries, absRest, hasStruct,
    isBSpread, isFieldSel, canonAbsV, canonEntriesV, canonFieldV, canonInlV, tagName, wsOp, bsQuery, lsSels, wsJsonN,
    vxSchema, objName, rtName, fieldKeys, fieldKey, Json.lookup, canon, canonNN, gtyOf, Json.isNull, skipQ,
    normJson, normKvs, normList, Json.normObj, Json.insert]

/-- `variantspread_roundtrip` on the generated module: the response is written in the fragment's order -/
theorem ls_roundtrip :
    Serde.roundtrip (moduleEnv (bsCtx lsSels) lsItems) (.path "ResponseData") wsJsonN =
      .ok (.obj [("hero", .obj [("name", .str "x"), ("__typename", .str "Human")])]) := by
  rw [variantspread_roundtrip (bsCtx lsSels) 0 (wsOp lsSels) lsItems rfl ls_class ls_gen ls_ok ls_rustD wsJsonN ls_conforms]
  exact congrArg Except.ok ls_canonD

theorem ls_precise (j : Json) :
    okB (Serde.de (moduleEnv (bsCtx lsSels) lsItems) (.path "ResponseData") j) =
      conformsLooseS vxSchema (bsQuery lsSels) {} false (wsOp lsSels).sels j :=
  variantspread_precise_iff (bsCtx lsSels) 0 (wsOp lsSels) lsItems rfl ls_class ls_gen ls_ok j

/-- `query Q { hero { ...HF } }` with `HF on Human { name }` (fragments of `wsQuery`): a lone spread of a fragment on a
    **possible** type -/
def lsBad : List Sel := [.spread 3]

def lsJsonD : Json := .obj [("hero", .obj [])]

/-- **"on the abstract type itself" is needed for a lone spread** (`loneB`): the module is generated and `moduleOk` (the
    position is the type alias `Qhero = HF`), the response of a `Droid` — to which `HF` does not apply — conforms, and the
    emitted `ResponseData` rejects it (`HF` requires `name`) -/
theorem variantspread_lone_possible_type_rejects :
    VariantSpreadOp (wsCtx lsBad) (wsOp lsBad) = false ∧
    isOkO (responseForQuery (wsCtx lsBad) 0) = true ∧
    moduleOk (wsCtx lsBad) (okOr (responseForQuery (wsCtx lsBad) 0)) = true ∧
    ((moduleEnv (wsCtx lsBad) (okOr (responseForQuery (wsCtx lsBad) 0))).find "Qhero" ==
      some (.alias "Qhero" true (.path "HF"))) = true ∧
    conformsOpS (wsCtx lsBad) (wsOp lsBad) lsJsonD = true ∧
    okB (Serde.de (moduleEnv (wsCtx lsBad) (okOr (responseForQuery (wsCtx lsBad) 0))) (.path "ResponseData")
      lsJsonD) = false := by
  refine ⟨by decide +kernel, by decide +kernel, by decide +kernel, by decide +kernel, ?_, by decide +kernel⟩
  simp only [lsBad, lsJsonD]; confS_eval

end E2E
end C01
end GqlVerif
