import GqlVerif.Props.C16
import GqlVerif.Proofs.ComposedC13
/-!
# Composed C16 — the ID member the generator emits, read by the serde model (reviewer finding 19)

`C16.id_field_iff` is about a local copy (`idHelperFor`) of `renderField`'s if-chain.  Here:

* `renderField_helper`, `helper_iff_ID` — the member `Codegen.renderField` emits carries a `deserialize_with` helper iff the
  type name it was given is `"ID"`, and then it is `idHelperFor t` (so the copy is faithful);
* `id_field_value` — `Serde.deFieldWith` on that member reads exactly `deNestedId (rustOf "ID" t)`, for every well-formed
  `t`, every flag (`flatten`, `boxed`, deprecation) and every `path`;
* **`id_field_composed`** — hence it accepts exactly `Spec.accepts idOk t`;
* `id_field_int_required`, `id_field_int_nullable`, `id_field_int_list` — an in-range integer yields its decimal string
  (`ID!`, `ID`, and element-wise at `[ID!]!`); `id_read_canonical` — at every ID type, reading a payload gives the same
  value as reading it with every in-range integer replaced by its decimal string;
* `non_id_field_plain` — for any other type name no helper: the member is read structurally (`deTyWith`);
* `calcFields_id_field`, `calcFields_scalar_helper_iff` — composed through the field loop: the member emitted for a selection
  of a scalar field; helper iff the *normalized* scalar name is `"ID"` (`fieldType_eq_ID_iff`; for normalization `none`
  iff the scalar is `ID`; `helper_on_renamed_scalar` shows the side condition is needed under `rust`;
  `helper_on_struct_named_ID`: a path-named struct called `ID` gets the helper too — such modules fail `C02.NoClash`);
* `id_struct_reads_int` — through `Serde.dePath`: a struct item whose member is such a field reads `{"id": 42}` as
  `id = "42"`.
-/
namespace GqlVerif
namespace Composed
open Codegen Serde Spec C13 C03 C16 C02

/-! ## what `renderField` attaches -/

theorem renderField_helper (c : Ctx) (g : Option String) (r ft : String) (t : GTy) (fl bx : Bool)
    (dep : Option (Option String)) (f : RField)
    (h : renderField c g r ft (GTy.quals t) fl bx dep = .ok (some f)) :
    f.deserWith = if ft = "ID" then some (idHelperFor t) else none := by
  rw [(renderField_fields c g r ft (GTy.quals t) fl bx dep f h).1]
  by_cases hid : ft = "ID"
  · subst hid
    simp only [beq_self_eq_true, Bool.not_true, Bool.false_eq_true, ↓reduceIte, idHelperFor]
    split
    · rfl
    · split <;> rfl
  · simp [hid]

/-- **helper iff ID** (on `renderField`, any qualifiers, any flags) -/
theorem helper_iff_ID (c : Ctx) (g : Option String) (r ft : String) (quals : List Qual) (fl bx : Bool)
    (dep : Option (Option String)) (f : RField)
    (h : renderField c g r ft quals fl bx dep = .ok (some f)) :
    f.deserWith.isSome = true ↔ ft = "ID" := by
  rw [attach_iff_ID c g r ft quals fl bx dep f h]
  simp

/-! ## what the serde model does with it -/

theorem deNestedId_box (t : RTy) (j : Json) : deNestedId (.box t) j = deNestedId t j := by
  rw [deNestedId]

theorem deHelper_idHelperFor (t : GTy) (hw : wf t = true) (j : Json) :
    deHelper (idHelperFor t) (rustOf (.path "ID") t) j = deNestedId (rustOf (.path "ID") t) j := by
  unfold idHelperFor
  cases hl : (GTy.quals t).contains .list
  · cases hr : (GTy.quals t).contains .required
    · obtain ⟨n, rfl⟩ := quals_no_list_no_req hw hl hr
      simp only [Bool.false_eq_true, ↓reduceIte, deHelper,
        show ("graphql_client::serde_with::deserialize_option_id" == "graphql_client::serde_with::deserialize_id") = false by decide,
        beq_self_eq_true, rustOf, rustOfNN, deNestedId]
    · obtain ⟨n, rfl⟩ := quals_no_list_req hw hl hr
      simp only [Bool.false_eq_true, ↓reduceIte, deHelper, beq_self_eq_true, rustOf, rustOfNN, deNestedId]
  · simp only [↓reduceIte, deHelper,
      show ("graphql_client::serde_with::deserialize_nested_id" == "graphql_client::serde_with::deserialize_id") = false by decide,
      show ("graphql_client::serde_with::deserialize_nested_id" == "graphql_client::serde_with::deserialize_option_id") = false by decide,
      Bool.false_eq_true, beq_self_eq_true]

theorem deHelper_box (h : String) (t : RTy) (j : Json) : deHelper h (.box t) j = deHelper h t j := by
  unfold deHelper
  rw [deNestedId_box]

/-- **what the emitted ID member reads**: whatever the flags and the `path`, the member `renderField` emits for type
    name `"ID"` and type expression `t` is read by `deFieldWith` as `deNestedId (rustOf "ID" t)` -/
theorem id_field_value (c : Ctx) (g : Option String) (r : String) (t : GTy) (fl bx : Bool)
    (dep : Option (Option String)) (f : RField) (hw : wf t = true)
    (h : renderField c g r "ID" (GTy.quals t) fl bx dep = .ok (some f))
    (path : String → Json → D Val) (j : Json) :
    deFieldWith path f j = deNestedId (rustOf (.path "ID") t) j := by
  have hd := renderField_helper c g r "ID" t fl bx dep f h
  have hty := renderField_type_rule c g r "ID" t fl bx dep f hw h
  simp only [↓reduceIte] at hd
  unfold deFieldWith
  rw [hd, hty]
  simp only []
  cases bx
  · exact deHelper_idHelperFor t hw j
  · simp only [boxIf, ↓reduceIte, deHelper_box]
    exact deHelper_idHelperFor t hw j

/-- **C16, composed**: the member `Codegen.renderField` emits for an `ID` position of type expression `t`, read by the
    serde model's field reader, accepts exactly the JSON admitted by `t` with ID leaves (string, or integer within
    i64) — every list / non-null nesting, every flag, every reader `path` of the named types -/
theorem id_field_composed (c : Ctx) (g : Option String) (r : String) (t : GTy) (fl bx : Bool)
    (dep : Option (Option String)) (f : RField) (hw : wf t = true)
    (h : renderField c g r "ID" (GTy.quals t) fl bx dep = .ok (some f))
    (path : String → Json → D Val) (j : Json) :
    okB (deFieldWith path f j) = accepts idOk t j := by
  rw [id_field_value c g r t fl bx dep f hw h path j]
  exact (nested_id_iff t hw).2 j

/-- `ID!`: an integer within i64 is accepted and yields its decimal string; a string is taken verbatim -/
theorem id_field_int_required (c : Ctx) (g : Option String) (r n : String) (fl bx : Bool)
    (dep : Option (Option String)) (f : RField)
    (h : renderField c g r "ID" (GTy.quals (.nonNull (.named n))) fl bx dep = .ok (some f))
    (path : String → Json → D Val) :
    (∀ k : Int, i64Ok k = true → deFieldWith path f (.int k) = .ok (.str (toString k))) ∧
    (∀ s : String, deFieldWith path f (.str s) = .ok (.str s)) := by
  refine ⟨fun k hk => ?_, fun s => ?_⟩
  · rw [id_field_value c g r _ fl bx dep f rfl h]
    simp only [rustOf, rustOfNN, deNestedId]
    exact id_int k hk
  · rw [id_field_value c g r _ fl bx dep f rfl h]
    simp only [rustOf, rustOfNN, deNestedId]
    rfl

/-- `ID` (nullable): `null` is `None`, an integer within i64 yields `Some` of its decimal string -/
theorem id_field_int_nullable (c : Ctx) (g : Option String) (r n : String) (fl bx : Bool)
    (dep : Option (Option String)) (f : RField)
    (h : renderField c g r "ID" (GTy.quals (.named n)) fl bx dep = .ok (some f))
    (path : String → Json → D Val) :
    (∀ k : Int, i64Ok k = true → deFieldWith path f (.int k) = .ok (.some (.str (toString k)))) ∧
    (∀ s : String, deFieldWith path f (.str s) = .ok (.some (.str s))) ∧
    deFieldWith path f .null = .ok .unit := by
  refine ⟨fun k hk => ?_, fun s => ?_, ?_⟩
  · rw [id_field_value c g r _ fl bx dep f rfl h]
    simp only [rustOf, rustOfNN, deNestedId, Json.isNull, Bool.false_eq_true, ↓reduceIte, id_int k hk]
    rfl
  · rw [id_field_value c g r _ fl bx dep f rfl h]
    simp only [rustOf, rustOfNN, deNestedId, Json.isNull, Bool.false_eq_true, ↓reduceIte, id_str]
    rfl
  · rw [id_field_value c g r _ fl bx dep f rfl h]
    simp only [rustOf, rustOfNN, deNestedId, Json.isNull, ↓reduceIte]
    rfl

/-! ## canonical reading: an in-range integer and its decimal string are read alike, at every depth -/

mutual
  /-- replace every in-range integer by its decimal string (through arrays) -/
  def canonId : Json → Json
    | .int n => if inI64 n then .str (toString n) else .int n
    | .arr xs => .arr (canonIds xs)
    | j => j
  def canonIds : List Json → List Json
    | [] => []
    | x :: xs => canonId x :: canonIds xs
end

theorem canonIds_eq_map (xs : List Json) : canonIds xs = xs.map canonId := by
  induction xs with
  | nil => rfl
  | cons x xs ih => simp [canonIds, ih]

theorem deIntOrString_canon (j : Json) : deIntOrString (canonId j) = deIntOrString j := by
  cases j with
  | int n =>
    simp only [canonId]
    by_cases h : inI64 n = true
    · simp [h, deIntOrString, pure, Except.pure]
    · simp [h]
  | arr xs => simp [canonId, deIntOrString]
  | null => rfl
  | bool b => rfl
  | num s => rfl
  | str s => rfl
  | obj kvs => rfl

theorem canonId_isNull (j : Json) : (canonId j).isNull = j.isNull := by
  cases j with
  | int n => simp only [canonId]; split <;> rfl
  | arr xs => simp [canonId, Json.isNull]
  | null => rfl
  | bool b => rfl
  | num s => rfl
  | str s => rfl
  | obj kvs => rfl

theorem mapM_congr_map {α β : Type} (f : α → D β) (k : α → α) (hk : ∀ a, f (k a) = f a) (xs : List α) :
    (xs.map k).mapM f = xs.mapM f := by
  induction xs with
  | nil => rfl
  | cons x xs ih => rw [List.map_cons, List.mapM_cons, List.mapM_cons, hk, ih]

/-- **canonical**: at every Rust type an ID position can have, the nested helper reads a payload exactly as it reads
    the payload with every in-range integer replaced by its decimal string -/
theorem deNestedId_canon : ∀ (ty : RTy) (j : Json), deNestedId ty (canonId j) = deNestedId ty j := by
  intro ty
  induction ty with
  | path p => intro j; simp only [deNestedId]; exact deIntOrString_canon j
  | opt t ih => intro j; simp only [deNestedId, canonId_isNull, ih]
  | box t ih => intro j; simp only [deNestedId, ih]
  | vec t ih =>
    intro j
    cases j with
    | arr xs =>
      simp only [canonId, deNestedId, canonIds_eq_map]
      rw [mapM_congr_map _ _ ih]
    | int n => simp only [canonId]; split <;> rfl
    | null => rfl
    | bool b => rfl
    | num s => rfl
    | str s => rfl
    | obj kvs => rfl

/-- the emitted ID member reads integers and their decimal strings alike, at every list depth -/
theorem id_read_canonical (c : Ctx) (g : Option String) (r : String) (t : GTy) (fl bx : Bool)
    (dep : Option (Option String)) (f : RField) (hw : wf t = true)
    (h : renderField c g r "ID" (GTy.quals t) fl bx dep = .ok (some f))
    (path : String → Json → D Val) (j : Json) :
    deFieldWith path f (canonId j) = deFieldWith path f j := by
  rw [id_field_value c g r t fl bx dep f hw h, id_field_value c g r t fl bx dep f hw h]
  exact deNestedId_canon _ j

/-- `[ID!]!`: a list of in-range integers yields the list of their decimal strings -/
theorem id_field_int_list (c : Ctx) (g : Option String) (r n : String) (fl bx : Bool)
    (dep : Option (Option String)) (f : RField)
    (h : renderField c g r "ID" (GTy.quals (.nonNull (.list (.nonNull (.named n))))) fl bx dep = .ok (some f))
    (path : String → Json → D Val) (ks : List Int) (hk : ∀ k ∈ ks, i64Ok k = true) :
    deFieldWith path f (.arr (ks.map Json.int)) = .ok (.list (ks.map fun k => Val.str (toString k))) := by
  rw [id_field_value c g r _ fl bx dep f rfl h]
  simp only [rustOf, rustOfNN, deNestedId]
  have : (ks.map Json.int).mapM (fun x => deIntOrString x) = .ok (ks.map fun k => Val.str (toString k)) := by
    induction ks with
    | nil => rfl
    | cons k ks ih =>
      rw [List.map_cons, List.mapM_cons, ih (fun k' hk' => hk k' (List.mem_cons_of_mem _ hk'))]
      simp only [id_int k (hk k List.mem_cons_self)]
      rfl
  rw [this]
  rfl

/-! ## any other type name: no helper -/

/-- for a type name other than `"ID"` the member has no helper and is read structurally at its `rustOf` type -/
theorem non_id_field_plain (c : Ctx) (g : Option String) (r ft : String) (t : GTy) (fl bx : Bool)
    (dep : Option (Option String)) (f : RField) (hw : wf t = true) (hne : ft ≠ "ID")
    (h : renderField c g r ft (GTy.quals t) fl bx dep = .ok (some f))
    (path : String → Json → D Val) (j : Json) :
    f.deserWith = none ∧ deFieldWith path f j = deTyWith path (rustOf (.path ft) t) j := by
  have hd := renderField_helper c g r ft t fl bx dep f h
  have hty := renderField_type_rule c g r ft t fl bx dep f hw h
  simp only [hne, ↓reduceIte] at hd
  refine ⟨hd, ?_⟩
  unfold deFieldWith
  rw [hd, hty]
  cases bx
  · rfl
  · simp only [boxIf, ↓reduceIte]
    rw [deTyWith]

/-! ## composed through the field loop -/

theorem fieldType_eq_ID_iff (n : Normalization) (cs : CaseFns) (s : String) :
    n.fieldType cs s = "ID" ↔ s = "ID" ∨ (s.startsWith "__" = false ∧ n.camelCase cs s = "ID") := by
  unfold Normalization.fieldType
  by_cases h1 : s = "ID"
  · subst h1; simp
  · cases h2 : s.startsWith "__"
    · simp [h1]
    · simp [h1]

theorem fieldType_none_eq_ID_iff (cs : CaseFns) (s : String) : Normalization.none.fieldType cs s = "ID" ↔ s = "ID" := by
  rw [fieldType_eq_ID_iff]
  simp only [Normalization.camelCase]
  constructor
  · rintro (h | ⟨_, h⟩) <;> exact h
  · exact .inl

/-- **the member emitted for a selection of a scalar field** (field loop → `renderField`): it carries a helper iff the
    normalized scalar name is `"ID"` -/
theorem calcFields_scalar_helper_iff (c : Ctx) (f : Nat) (pfx : String) (ty : TypeId) (a : Option String) (fid : Nat)
    (sub rest : List Sel) (fs : List RField) (items : List Item) (sf : StoredField) (k : Nat) (sn : String)
    (hsf : c.s.fields[fid]? = some sf) (hk : sf.ty.id = .scalar k) (hsn : c.s.scalars[k]? = some sn)
    (hem : emitted c sf = true)
    (h : calcFields c (f + 1) pfx ty (.field a fid sub :: rest) = .ok (fs, items)) :
    ∃ fld fs', fs = fld :: fs' ∧ fld.wire = a.getD sf.name ∧
      renderField c (some (a.getD sf.name)) (keywordReplace (c.cs.snake (a.getD sf.name)))
        (c.o.normalization.fieldType c.cs sn) sf.ty.quals false false sf.deprecation = .ok (some fld) ∧
      (fld.deserWith.isSome = true ↔ c.o.normalization.fieldType c.cs sn = "ID") := by
  obtain ⟨sf', fld, its, fs', items', hsf', hr, rfl, rfl, hstep⟩ := calcFields_field_ok h
  rw [hsf] at hsf'
  cases hsf'
  rcases hstep with ⟨e, _, he, _⟩ | ⟨k', sn', hk', hsn', _, hrf⟩ | ⟨_, h2, _⟩
  · rw [hk] at he; cases he
  · rw [hk] at hk'
    cases hk'
    rw [hsn] at hsn'
    cases hsn'
    rcases renderField_ok hrf with ⟨_, h1, h2⟩ | ⟨x, rfl, _, hr', _, hren⟩
    · simp [emitted, h1, h2] at hem
    · exact ⟨x, fs', rfl, wire_of_rename _ _ x hr' (by simpa using hren), hrf, helper_iff_ID _ _ _ _ _ _ _ _ _ hrf⟩
  · exact absurd hk (h2 k)

/-- **the member emitted for a selection of a field of the built-in type `ID`** accepts exactly the values of the
    declared type expression, and reads integers as decimal strings (`id_field_value`) -/
theorem calcFields_id_field (c : Ctx) (f : Nat) (pfx : String) (ty : TypeId) (a : Option String) (fid : Nat)
    (sub rest : List Sel) (fs : List RField) (items : List Item) (sf : StoredField) (k : Nat) (t : GTy)
    (hsf : c.s.fields[fid]? = some sf) (hk : sf.ty.id = .scalar k) (hsn : c.s.scalars[k]? = some "ID")
    (hq : sf.ty.quals = GTy.quals t) (hw : wf t = true) (hem : emitted c sf = true)
    (h : calcFields c (f + 1) pfx ty (.field a fid sub :: rest) = .ok (fs, items)) :
    ∃ fld fs', fs = fld :: fs' ∧ fld.wire = a.getD sf.name ∧ fld.deserWith = some (idHelperFor t) ∧
      fld.ty = rustOf (.path "ID") t ∧
      ∀ (path : String → Json → D Val) (j : Json),
        deFieldWith path fld j = deNestedId (rustOf (.path "ID") t) j ∧
        okB (deFieldWith path fld j) = accepts idOk t j := by
  obtain ⟨fld, fs', rfl, hwire, hrf, _⟩ :=
    calcFields_scalar_helper_iff c f pfx ty a fid sub rest fs items sf k "ID" hsf hk hsn hem h
  have hft : c.o.normalization.fieldType c.cs "ID" = "ID" := by simp [Normalization.fieldType]
  rw [hft, hq] at hrf
  refine ⟨fld, fs', rfl, hwire, ?_, ?_, fun path j => ⟨?_, ?_⟩⟩
  · simpa using renderField_helper c _ _ "ID" t false false _ fld hrf
  · exact renderField_type_rule c _ _ "ID" t false false _ fld hw hrf
  · exact id_field_value c _ _ t false false _ fld hw hrf path j
  · exact id_field_composed c _ _ t false false _ fld hw hrf path j

/-- the side condition of "helper iff the scalar is `ID`" is needed under `rust` normalization: a custom scalar whose
    camel-cased name is `ID` (heck: `i_d`, `I_D` ↦ `ID`) gets the helper too (its alias then also collides with the
    built-in alias `ID`: the module does not compile, see `C02.NoClash`) -/
theorem helper_on_renamed_scalar :
    let cs : CaseFns := ⟨id, fun s => if s == "I_D" then "ID" else s⟩
    Normalization.rust.fieldType cs "I_D" = "ID" ∧ Normalization.none.fieldType cs "I_D" ≠ "ID" := by
  decide +kernel

/-! ## through `dePath`: a struct whose member is an emitted ID field -/

/-- a struct item with one own member that is the field emitted for an `ID!` position: `{"<wire>": 42}` is read as the
    record `<rust> = "42"` by the serde model's own named-type reader -/
theorem id_struct_reads_int (c : Ctx) (gname r n : String) (dep : Option (Option String)) (f : RField)
    (h : renderField c (some gname) r "ID" (GTy.quals (.nonNull (.named n))) false false dep = .ok (some f))
    (e : Env) (b : Bool) (fuel : Nat) (p sn : String) (d : List String) (sc : Option String)
    (hp : dePrim p (.obj [(gname, .int 42)]) = none) (hfind : e.find p = some (.struct sn d sc [f])) :
    dePath e b (fuel + 1) p (.obj [(gname, .int 42)]) = .ok (.record [(r, .str "42")]) := by
  have hwire : f.wire = gname := C11.wire_is_graphql_name c gname r "ID" _ false false dep f h
  obtain ⟨_, _, hrust, hfl⟩ := renderField_fields c (some gname) r "ID" _ false false dep f h
  have hv := (id_field_int_required c (some gname) r n false false dep f h (dePath e b fuel)).1 42 (by decide)
  rw [dePath]
  simp only [hp, hfind, deStructWith, deStructMapWith, List.any_cons, hfl, List.any_nil, Bool.or_self,
    Bool.false_eq_true, ↓reduceIte, deOwnWith, hwire, countKey, List.filter_cons, beq_self_eq_true,
    List.filter_nil, List.length_cons, List.length_nil, Nat.lt_irrefl, Json.lookup, hv, hrust, bind, Except.bind,
    pure, Except.pure]
  rfl

/-! ## non-vacuity -/

/-- the hypotheses of `id_field_composed` / `id_field_int_required` hold: `renderField` does emit a member for `id: ID!` -/
example : ∃ f, renderField richCtx (some "id") "id" "ID" (GTy.quals (.nonNull (.named "ID"))) false false none = .ok (some f) ∧
    f.deserWith = some "graphql_client::serde_with::deserialize_id" ∧
    ∀ path, deFieldWith path f (.int 42) = .ok (.str "42") := by
  cases h : renderField richCtx (some "id") "id" "ID" (GTy.quals (.nonNull (.named "ID"))) false false none with
  | error e => exact absurd h (by simp [renderField, decorateType, decorateStep, GTy.quals, bind, Except.bind, pure, Except.pure])
  | ok o =>
    cases o with
    | none =>
      rcases renderField_ok h with ⟨_, h1, _⟩ | ⟨f, hf, _⟩
      · cases h1
      · cases hf
    | some f =>
      refine ⟨f, rfl, ?_, fun path => (id_field_int_required richCtx _ _ "ID" false false none f h path).1 42 (by decide)⟩
      rw [renderField_helper richCtx _ _ "ID" _ false false none f h]
      decide

/-- the hypotheses of `calcFields_id_field` hold on the rich context of `C02Response`: the selection `id` of
    `Person.id : ID!` (field 7, scalar 0 = `ID`) -/
example : ∃ fld fs', (calcFields richCtx 3 "QAnimalOnDogOwner" (.object 3) [.field none 7 []]).map (·.1) = .ok (fld :: fs') ∧
    fld.wire = "id" ∧ fld.deserWith = some (idHelperFor (.nonNull (.named "ID"))) ∧
    ∀ path j, okB (deFieldWith path fld j) = accepts idOk (.nonNull (.named "ID")) j := by
  have hok : (calcFields richCtx 3 "QAnimalOnDogOwner" (.object 3) [.field none 7 []]).toOption.isSome = true := by
    decide +kernel
  cases h : calcFields richCtx 3 "QAnimalOnDogOwner" (.object 3) [.field none 7 []] with
  | error e => rw [h] at hok; cases hok
  | ok p =>
    obtain ⟨fs, items⟩ := p
    obtain ⟨fld, fs', rfl, hw, hd, _, hall⟩ := calcFields_id_field richCtx 2 _ _ none 7 [] [] fs items
      richCtx.s.fields[7] 0 (.nonNull (.named "ID")) rfl rfl rfl rfl rfl (by decide) h
    exact ⟨fld, fs', rfl, hw, hd, fun path j => (hall path j).2⟩

/-- the `ID` test of `renderField` is a test on the *Rust type name*: `query I { d { x } }` (operation `I`, object field
    `d`) names the nested struct `I` ++ `D` = `ID`, and the member `d: Option<ID>` gets `deserialize_option_id` although
    its type is an object.  The module defines `ID` twice (`C02.NoClash` is false), so it does not compile: the
    composed "helper iff built-in `ID`" holds on modules that pass the C02 scope check. -/
def idClashCtx : Ctx :=
  { s := { objects := [{ name := "Query", fields := [0], implements := [] }, { name := "T", fields := [1], implements := [] }],
           fields := [{ name := "d", ty := { id := .object 1, quals := [] }, parent := .object 0, deprecation := none },
                      { name := "x", ty := { id := .scalar 2, quals := [] }, parent := .object 1, deprecation := none }],
           scalars := Schema.defaultScalars },
    q := { operations := [{ name := "I", kind := .query, objectId := 0, sels := [.field none 0 [.field none 1 []]] }] },
    o := {}, cs := ⟨id, fun s => if s == "d" then "D" else s⟩ }

theorem helper_on_struct_named_ID :
    ((responseForQuery idClashCtx 0).toOption.map fun its => its.filterMap fun
      | .struct "ResponseData" _ _ fs => some (fs.map fun f => (f.rust, f.ty, f.deserWith))
      | _ => none) =
      some [[("d", .opt (.path "ID"), some "graphql_client::serde_with::deserialize_option_id")]] ∧
    C02.NoClash idClashCtx 0 = false := by
  constructor <;> decide +kernel

end Composed
end GqlVerif
