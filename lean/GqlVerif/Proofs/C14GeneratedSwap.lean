import GqlVerif.Proofs.C14GeneratedCheck
/-!
# P26 (2/4, part 0) — replacing the value of an entry that is read through the flatten buffer

`Composed.erase_main` shows that an entry nothing names can be *removed* from the object read at `p`.  The same
argument, for an entry `(w, v)` whose value is *replaced* by `v'`: if every reader of the key `w` among the items
that read this JSON object — the own members with wire name `w` of every struct reachable from `p` (`Composed.Reach`:
through flattened members, newtype variants of tagged enums, aliases) — reads `v` and `v'` alike, no reachable
tagged enum has the tag `w`, and no `@oneOf` enum is reachable, then the object is read alike at `p`.

* `Swap w v v' l l'` — `l'` is `l` with some entries `(w, v)` replaced by `(w, v')` (`SwapB` for flatten buffers);
* `AgreeAt e w v v' p` — the hypothesis above;
* **`swap_dePath`** : `AgreeAt e w v v' p → Swap w v v' l l' → dePath e b fuel p (.obj l) = dePath e b fuel p (.obj l')`
  (every fuel, buffered or not), and `swap_deFlat` for a flattened member read from related buffers.

Used by `C14GeneratedNested` for the generator `Sim.buffered` (descending into the value of a key that a *flattened*
member reads).  Also here: `readKey`, `deOwnWith_cons`, `deOwnWith_congr` (the own-member loop depends on the entries
only through key multiplicities and what each member reads).
-/
namespace GqlVerif
namespace C14G
open Serde Composed

/-! ## the own-member loop -/

/-- what an own member reads from the entries -/
def readKey (path : String → Json → D Val) (g : RField) (kvs : List (String × Json)) : D Val :=
  match Json.lookup g.wire kvs with
  | some j => deFieldWith path g j
  | none => missingField g

theorem deOwnWith_cons (path : String → Json → D Val) (f : RField) (fs : List RField) (kvs : List (String × Json)) :
    deOwnWith path (f :: fs) kvs = (do
      let rest ← deOwnWith path fs kvs
      if f.flatten then pure rest else
      if countKey f.wire kvs > 1 then bad ("duplicate field " ++ f.wire) else do
      let v ← readKey path f kvs
      pure ((f.rust, v) :: rest)) := by
  rw [deOwnWith]
  unfold readKey
  cases deOwnWith path fs kvs with
  | error err => rfl
  | ok rest =>
    simp only [bind, Except.bind]
    cases f.flatten
    · simp only [Bool.false_eq_true, ↓reduceIte]
      split
      · rfl
      · cases Json.lookup f.wire kvs <;> rfl
    · rfl

theorem deOwnWith_congr (path : String → Json → D Val) (all : List RField) (kvs kvs' : List (String × Json))
    (hc : ∀ w, countKey w kvs = countKey w kvs')
    (hr : ∀ g ∈ all, g.flatten = false → readKey path g kvs = readKey path g kvs') :
    ∀ fs : List RField, (∀ g ∈ fs, g ∈ all) → deOwnWith path fs kvs = deOwnWith path fs kvs'
  | [], _ => rfl
  | f :: fs, hsub => by
    rw [deOwnWith_cons, deOwnWith_cons, deOwnWith_congr path all kvs kvs' hc hr fs (fun g hg => hsub g (by simp [hg])), hc f.wire]
    cases hfl : f.flatten
    · rw [hr f (hsub f (by simp)) hfl]
    · rfl

theorem countKey_cons (w : String) (kv : String × Json) (kvs : List (String × Json)) :
    countKey w (kv :: kvs) = (if kv.1 == w then 1 else 0) + countKey w kvs := by
  unfold countKey
  rw [List.filter_cons]
  split <;> simp <;> omega

theorem readKey_cons (path : String → Json → D Val) (g : RField) (kv : String × Json) (kvs : List (String × Json)) :
    readKey path g (kv :: kvs) = if kv.1 == g.wire then deFieldWith path g kv.2 else readKey path g kvs := by
  obtain ⟨k, v⟩ := kv
  unfold readKey
  rw [Json.lookup]
  by_cases h : (k == g.wire) = true <;> simp [h]

/-! ## entry lists / buffers that differ by a replaced value -/

section Swap
variable (w : String) (v v' : Json)

/-- `l'` is `l` with some of its entries `(w, v)` replaced by `(w, v')` -/
inductive Swap : List (String × Json) → List (String × Json) → Prop
  | nil : Swap [] []
  | same (kv : String × Json) {l l' : List (String × Json)} : Swap l l' → Swap (kv :: l) (kv :: l')
  | swap {l l' : List (String × Json)} : Swap l l' → Swap ((w, v) :: l) ((w, v') :: l')

/-- the same for flatten buffers -/
inductive SwapB : Buf → Buf → Prop
  | nil : SwapB [] []
  | same (x : Option (String × Json)) {l l' : Buf} : SwapB l l' → SwapB (x :: l) (x :: l')
  | swap {l l' : Buf} : SwapB l l' → SwapB (some (w, v) :: l) (some (w, v') :: l')

variable {w v v'}

theorem Swap.refl : ∀ l : List (String × Json), Swap w v v' l l
  | [] => .nil
  | kv :: l => .same kv (Swap.refl l)

/-- one entry, anywhere -/
theorem Swap.at (pre post : List (String × Json)) : Swap w v v' (pre ++ (w, v) :: post) (pre ++ (w, v') :: post) := by
  induction pre with
  | nil => exact .swap (Swap.refl post)
  | cons kv pre ih => exact .same kv ih

theorem Swap.filter (q : String × Json → Bool) (hq : q (w, v) = q (w, v')) {l l' : List (String × Json)}
    (h : Swap w v v' l l') : Swap w v v' (l.filter q) (l'.filter q) := by
  induction h with
  | nil => exact .nil
  | same kv _ ih =>
    rw [List.filter_cons, List.filter_cons]
    split
    · exact .same kv ih
    · exact ih
  | swap _ ih =>
    rw [List.filter_cons, List.filter_cons, ← hq]
    split
    · exact .swap ih
    · exact ih

theorem Swap.countKey (u : String) {l l' : List (String × Json)} (h : Swap w v v' l l') : countKey u l = countKey u l' := by
  induction h with
  | nil => rfl
  | same kv _ ih => rw [countKey_cons, countKey_cons, ih]
  | swap _ ih => rw [countKey_cons, countKey_cons, ih]

theorem Swap.lookup_ne {u : String} (hu : u ≠ w) {l l' : List (String × Json)} (h : Swap w v v' l l') :
    Json.lookup u l = Json.lookup u l' := by
  induction h with
  | nil => rfl
  | same kv _ ih =>
    obtain ⟨k, x⟩ := kv
    simp only [Json.lookup, ih]
  | swap _ ih =>
    have : (w == u) = false := by simpa using fun h => hu h.symm
    simp only [Json.lookup, this, Bool.false_eq_true, ↓reduceIte, ih]

theorem Swap.lookup_eq {l l' : List (String × Json)} (h : Swap w v v' l l') :
    Json.lookup w l = Json.lookup w l' ∨ (Json.lookup w l = some v ∧ Json.lookup w l' = some v') := by
  induction h with
  | nil => exact .inl rfl
  | same kv _ ih =>
    obtain ⟨k, x⟩ := kv
    simp only [Json.lookup]
    split
    · exact .inl rfl
    · exact ih
  | swap _ _ => exact .inr ⟨by simp [Json.lookup], by simp [Json.lookup]⟩

theorem Swap.map_some {l l' : List (String × Json)} (h : Swap w v v' l l') : SwapB w v v' (l.map some) (l'.map some) := by
  induction h with
  | nil => exact .nil
  | same kv _ ih => exact .same (some kv) ih
  | swap _ ih => exact .swap ih

theorem SwapB.refl : ∀ b : Buf, SwapB w v v' b b
  | [] => .nil
  | x :: b => .same x (SwapB.refl b)

theorem SwapB.present {b b' : Buf} (h : SwapB w v v' b b') : Swap w v v' (present b) (present b') := by
  induction h with
  | nil => exact .nil
  | same x _ ih =>
    cases x with
    | none => simpa [Serde.present] using ih
    | some kv =>
      have e1 : ∀ r : Buf, Serde.present (some kv :: r) = kv :: Serde.present r := fun r => by simp [Serde.present]
      rw [e1, e1]; exact .same kv ih
  | swap _ ih =>
    have e1 : ∀ (kv : String × Json) (r : Buf), Serde.present (some kv :: r) = kv :: Serde.present r :=
      fun kv r => by simp [Serde.present]
    rw [e1, e1]; exact .swap ih

theorem SwapB.takeKeys (keys : List String) {b b' : Buf} (h : SwapB w v v' b b') :
    Swap w v v' (takeKeys keys b).1 (takeKeys keys b').1 ∧ SwapB w v v' (takeKeys keys b).2 (takeKeys keys b').2 := by
  induction h with
  | nil => exact ⟨.nil, .nil⟩
  | same x _ ih =>
    cases x with
    | none => simp only [Serde.takeKeys]; exact ⟨ih.1, .same none ih.2⟩
    | some kv =>
      obtain ⟨k, x⟩ := kv
      simp only [Serde.takeKeys]
      split
      · exact ⟨.same _ ih.1, .same none ih.2⟩
      · exact ⟨ih.1, .same _ ih.2⟩
  | swap _ ih =>
    simp only [Serde.takeKeys]
    split
    · exact ⟨.swap ih.1, .same none ih.2⟩
    · exact ⟨ih.1, .swap ih.2⟩

/-! ## the building blocks of the reader under `Swap` -/

theorem deOwnWith_swap (path : String → Json → D Val) (fs : List RField)
    (hf : ∀ f ∈ fs, f.flatten = false → f.wire = w → deFieldWith path f v = deFieldWith path f v')
    {l l' : List (String × Json)} (h : Swap w v v' l l') : deOwnWith path fs l = deOwnWith path fs l' := by
  apply deOwnWith_congr path fs l l' (fun u => h.countKey u) ?_ fs (fun _ hg => hg)
  intro g hg hfl
  unfold readKey
  by_cases hw : g.wire = w
  · rw [hw]
    rcases h.lookup_eq with h1 | ⟨h1, h2⟩
    · rw [h1]
    · rw [h1, h2]; exact hf g hg hfl hw
  · rw [h.lookup_ne hw]

/-- related results of reading one flattened member: same value (or same error), related buffers handed on -/
def RelRes (w : String) (v v' : Json) (r r' : D (Val × Buf)) : Prop :=
  match r, r' with
  | .ok a, .ok a' => a.1 = a'.1 ∧ SwapB w v v' a.2 a'.2
  | .error x, .error x' => x = x'
  | _, _ => False

theorem deFlatsWith_swap (flat : RTy → Buf → D (Val × Buf)) : ∀ (fs : List RField),
    (∀ f ∈ fs, f.flatten = true → ∀ b b', SwapB w v v' b b' → RelRes w v v' (flat f.ty b) (flat f.ty b')) →
    ∀ b b', SwapB w v v' b b' → deFlatsWith flat fs b = deFlatsWith flat fs b'
  | [], _, _, _, _ => rfl
  | f :: fs, hF, b, b', hb => by
    have ih := deFlatsWith_swap flat fs (fun f' hf' => hF f' (List.mem_cons_of_mem _ hf'))
    cases hfl : f.flatten
    · simp only [deFlatsWith, hfl, Bool.not_false, ↓reduceIte]
      exact ih b b' hb
    · simp only [deFlatsWith, hfl, Bool.not_true, Bool.false_eq_true, ↓reduceIte]
      have hr := hF f List.mem_cons_self hfl b b' hb
      unfold RelRes at hr
      cases h1 : flat f.ty b with
      | error x =>
        cases h2 : flat f.ty b' with
        | error x' => rw [h1, h2] at hr; simp only at hr; rw [hr]
        | ok a' => rw [h1, h2] at hr; exact hr.elim
      | ok a =>
        cases h2 : flat f.ty b' with
        | error x' => rw [h1, h2] at hr; exact hr.elim
        | ok a' =>
          rw [h1, h2] at hr
          obtain ⟨x, bx⟩ := a
          obtain ⟨x', bx'⟩ := a'
          simp only at hr
          obtain ⟨rfl, hbx⟩ := hr
          simp only [bind, Except.bind, ih bx bx' hbx]

theorem deStructMapWith_swap (path : String → Json → D Val) (flat : RTy → Buf → D (Val × Buf)) (fs : List RField)
    (hf : ∀ f ∈ fs, f.flatten = false → f.wire = w → deFieldWith path f v = deFieldWith path f v')
    (hF : ∀ f ∈ fs, f.flatten = true → ∀ b b', SwapB w v v' b b' → RelRes w v v' (flat f.ty b) (flat f.ty b'))
    {l l' : List (String × Json)} (h : Swap w v v' l l') :
    deStructMapWith path flat fs l = deStructMapWith path flat fs l' := by
  unfold deStructMapWith
  rw [deOwnWith_swap path fs hf h]
  have hb := (Swap.filter (w := w) (v := v) (v' := v') (fun kv => !((fs.filter (!·.flatten)).map (·.wire)).contains kv.1) rfl h).map_some
  simp only [deFlatsWith_swap flat fs hF _ _ hb]

theorem deTyWith_obj_swap (path : String → Json → D Val) : ∀ (t : RTy),
    (∀ l l', Swap w v v' l l' → path (Scope.leaf t) (.obj l) = path (Scope.leaf t) (.obj l')) →
    ∀ l l', Swap w v v' l l' → deTyWith path t (.obj l) = deTyWith path t (.obj l') := by
  intro t
  induction t with
  | path p => intro h l l' hl; simp only [deTyWith]; exact h l l' hl
  | opt t ih => intro h l l' hl; simp only [deTyWith, Json.isNull, Bool.false_eq_true, ↓reduceIte, ih h l l' hl]
  | vec t _ => intro _ l l' _; simp only [deTyWith]
  | box t ih => intro h l l' hl; simp only [deTyWith]; exact ih h l l' hl

theorem deTaggedWith_swap (pathB : String → Json → D Val) (b : Bool) (tag : String) (vs : List RVariant) (htag : tag ≠ w)
    (hP : ∀ x ∈ vs, ∀ t, x.payload = some t → ∀ l l', Swap w v v' l l' → deTyWith pathB t (.obj l) = deTyWith pathB t (.obj l'))
    {l l' : List (String × Json)} (h : Swap w v v' l l') :
    deTaggedWith pathB b tag vs l = deTaggedWith pathB b tag vs l' := by
  unfold deTaggedWith
  rw [h.countKey tag, h.lookup_ne htag]
  have hrest : Swap w v v' (l.filter (fun kv => kv.1 != tag)) (l'.filter (fun kv => kv.1 != tag)) :=
    Swap.filter (w := w) (v := v) (v' := v') (fun kv => kv.1 != tag) rfl h
  have hpick : ∀ x ∈ vs,
      (if x.other then (pure (.variant x.name none) : D Val) else
        match x.payload with
        | none => pure (.variant x.name none)
        | some t => (fun y => Val.variant x.name (some y)) <$> deTyWith pathB t (.obj (l.filter (fun kv => kv.1 != tag)))) =
      (if x.other then (pure (.variant x.name none) : D Val) else
        match x.payload with
        | none => pure (.variant x.name none)
        | some t => (fun y => Val.variant x.name (some y)) <$> deTyWith pathB t (.obj (l'.filter (fun kv => kv.1 != tag)))) := by
    intro x hx
    cases hp : x.payload with
    | none => rfl
    | some t => simp only [hP x hx t hp _ _ hrest]
  split
  · rfl
  · simp only []
    split
    · rename_i name _
      cases hf : vs.find? (fun x => !x.other && x.wire == name) with
      | none => rfl
      | some x => exact hpick x (List.mem_of_find?_eq_some hf)
    · rename_i n _
      split
      · rfl
      · split
        · rfl
        · cases hg : vs[n.toNat]? with
          | none => rfl
          | some x => exact hpick x (List.mem_of_getElem? hg)
    · rfl
  · rfl

end Swap

/-! ## the main theorem -/

/-- the item reads `v` and `v'` alike wherever it reads the key `w` (an `@oneOf` enum is sensitive to everything) -/
def okItemS (e : Env) (w : String) (v v' : Json) : Item → Prop
  | .struct _ _ _ fs => ∀ f ∈ fs, f.flatten = false → f.wire = w →
      f.deserWith = none ∧ ∀ b fuel, deTyWith (dePath e b fuel) f.ty v = deTyWith (dePath e b fuel) f.ty v'
  | .tagged _ _ _ tag _ => tag ≠ w
  | .oneOf .. => False
  | _ => True

/-- **every reader of the key `w` in the JSON object read at `p` reads `v` and `v'` alike** -/
def AgreeAt (e : Env) (w : String) (v v' : Json) (p : String) : Prop :=
  ∀ q, Reach e p q → ∀ it, e.find q = some it → okItemS e w v v' it

theorem AgreeAt.item {e : Env} {w : String} {v v' : Json} {p q : String} {it : Item} (h : AgreeAt e w v v' p)
    (hf : e.find p = some it) (hq : q ∈ sameLevel it) : AgreeAt e w v v' q :=
  fun r hr => h r (.item hf hq hr)

theorem AgreeAt.extern {e : Env} {w : String} {v v' : Json} {p : String} {x : String × RTy} (h : AgreeAt e w v v' p)
    (hf : e.find p = none) (hx : e.externs.find? (·.1 == p) = some x) : AgreeAt e w v v' (Scope.leaf x.2) :=
  fun r hr => h r (.extern hf hx hr)

section Main
variable {e : Env} {w : String} {v v' : Json}

def SStmt1 (e : Env) (w : String) (v v' : Json) (fuel : Nat) : Prop := ∀ p b l l', AgreeAt e w v v' p → Swap w v v' l l' →
  dePath e b fuel p (.obj l) = dePath e b fuel p (.obj l')
def SStmt2 (e : Env) (w : String) (v v' : Json) (fuel : Nat) : Prop := ∀ t buf buf', AgreeAt e w v v' (Scope.leaf t) →
  SwapB w v v' buf buf' → RelRes w v v' (deFlat e fuel t buf) (deFlat e fuel t buf')

theorem relRes_refl (r : D (Val × Buf)) : RelRes w v v' r r := by
  unfold RelRes
  cases r with
  | error x => rfl
  | ok a => exact ⟨rfl, SwapB.refl _⟩

theorem relRes_map {r r' : D Val} (h : r = r') {b b' : Buf} (hb : SwapB w v v' b b') :
    RelRes w v v' (do let x ← r; pure (x, b)) (do let x ← r'; pure (x, b')) := by
  subst h
  unfold RelRes
  cases r with
  | error x => rfl
  | ok a => exact ⟨rfl, hb⟩

theorem struct_hypsS {fields : List RField} {n : String} {d : List String} {sc : Option String} {p : String}
    (hag : AgreeAt e w v v' p) (hfind : e.find p = some (.struct n d sc fields)) :
    (∀ f ∈ fields, f.flatten = false → f.wire = w →
      f.deserWith = none ∧ ∀ b fuel, deTyWith (dePath e b fuel) f.ty v = deTyWith (dePath e b fuel) f.ty v') ∧
    (∀ f ∈ fields, f.flatten = true → AgreeAt e w v v' (Scope.leaf f.ty)) := by
  refine ⟨hag p (.refl p) _ hfind, fun f hf hfl => hag.item hfind ?_⟩
  simp only [sameLevel, List.mem_map, List.mem_filter]
  exact ⟨f, ⟨hf, hfl⟩, rfl⟩

theorem swap_main : ∀ fuel, SStmt1 e w v v' fuel ∧ SStmt2 e w v v' fuel := by
  intro fuel
  induction fuel with
  | zero =>
    refine ⟨?_, ?_⟩
    · intro p b l l' _ _; rw [dePath, dePath]
    · intro t buf buf' _ _; rw [deFlat, deFlat]; exact rfl
  | succ f ih =>
    obtain ⟨H1, H2⟩ := ih
    have hTy : ∀ b t, AgreeAt e w v v' (Scope.leaf t) → ∀ l l', Swap w v v' l l' →
        deTyWith (dePath e b f) t (.obj l) = deTyWith (dePath e b f) t (.obj l') :=
      fun b t hag => deTyWith_obj_swap _ t (fun l l' hl => H1 _ b l l' hag hl)
    have hField : ∀ b (g : RField), (g.deserWith = none ∧ ∀ b fuel, deTyWith (dePath e b fuel) g.ty v = deTyWith (dePath e b fuel) g.ty v') →
        deFieldWith (dePath e b f) g v = deFieldWith (dePath e b f) g v' := by
      intro b g hg
      simp only [deFieldWith, hg.1, hg.2 b f]
    have hStruct : ∀ b p n d sc fields, AgreeAt e w v v' p → e.find p = some (.struct n d sc fields) → ∀ l l', Swap w v v' l l' →
        deStructMapWith (dePath e b f) (deFlat e f) fields l = deStructMapWith (dePath e b f) (deFlat e f) fields l' := by
      intro b p n d sc fields hag hfind l l' hl
      obtain ⟨h1, h2⟩ := struct_hypsS hag hfind
      exact deStructMapWith_swap _ _ fields (fun g hg hfl hw => hField b g (h1 g hg hfl hw))
        (fun g hg hfl bb bb' hbb => H2 g.ty bb bb' (h2 g hg hfl) hbb) hl
    have hTagged : ∀ b p n d sc tag vs, AgreeAt e w v v' p → e.find p = some (.tagged n d sc tag vs) → ∀ l l', Swap w v v' l l' →
        deTaggedWith (dePath e true f) b tag vs l = deTaggedWith (dePath e true f) b tag vs l' := by
      intro b p n d sc tag vs hag hfind l l' hl
      have htag : tag ≠ w := hag p (.refl p) _ hfind
      refine deTaggedWith_swap _ b tag vs htag (fun x hx t ht => hTy true t (hag.item hfind ?_)) hl
      simp only [sameLevel, List.mem_filterMap]
      exact ⟨x, hx, by simp [ht]⟩
    refine ⟨?_, ?_⟩
    · intro p b l l' hag hl
      rw [dePath, dePath, dePrim_obj p l l']
      split
      · rfl
      · cases hfind : e.find p with
        | none =>
          simp only []
          cases hx : e.externs.find? (·.1 == p) with
          | none => rfl
          | some x =>
            obtain ⟨x1, t⟩ := x
            exact hTy b t (hag.extern hfind hx) l l' hl
        | some it =>
          cases it with
          | alias n pub t =>
            simp only []
            exact hTy b t (hag.item hfind (by simp [sameLevel])) l l' hl
          | struct n d sc fields =>
            simp only [deStructWith]
            exact hStruct b p n d sc fields hag hfind l l' hl
          | unitStruct n d sc => rfl
          | tagged n d sc tag vs =>
            simp only []
            exact hTagged b p n d sc tag vs hag hfind l l' hl
          | gqlEnum n d sp vs ser de => rfl
          | oneOf n d sc vs => exact (hag p (.refl p) _ hfind).elim
          | defaults fns => rfl
    · intro t buf buf' hag hb
      cases t with
      | box t => rw [deFlat, deFlat]; exact H2 t buf buf' hag hb
      | opt t => simp only [deFlat]; exact rfl
      | vec t => simp only [deFlat]; exact rfl
      | path p =>
        rw [deFlat, deFlat]
        have hag' : AgreeAt e w v v' p := hag
        cases hfind : e.find p with
        | none => exact rfl
        | some it =>
          cases it with
          | alias n pub t => simp only []; exact H2 t buf buf' (hag'.item hfind (by simp [sameLevel])) hb
          | struct n d sc fields =>
            simp only []
            cases hany : fields.any (·.flatten)
            · obtain ⟨h1, _⟩ := struct_hypsS hag' hfind
              simp only [Bool.false_eq_true, ↓reduceIte]
              obtain ⟨ht1, ht2⟩ := hb.takeKeys (fields.map (·.wire))
              have hown := deOwnWith_swap (dePath e true f) fields
                (fun g hg hfl hw => hField true g (h1 g hg hfl hw)) ht1
              rw [hown]
              cases deOwnWith (dePath e true f) fields (takeKeys (fields.map (·.wire)) buf').1 with
              | error x => exact rfl
              | ok a => exact ⟨rfl, ht2⟩
            · simp only [↓reduceIte]
              exact relRes_map (hStruct true p n d sc fields hag' hfind _ _ hb.present) hb
          | tagged n d sc tag vs =>
            simp only []
            exact relRes_map (hTagged true p n d sc tag vs hag' hfind _ _ hb.present) hb
          | unitStruct n d sc => exact rfl
          | gqlEnum n d sp vs ser de => exact rfl
          | oneOf n d sc vs => exact rfl
          | defaults fns => exact rfl

end Main

/-- **an entry read through the flatten buffer, its value replaced**: if every reader of the key `w` in the JSON
    object read at `p` reads `v` and `v'` alike, the object is read alike — any fuel, buffered or not -/
theorem swap_dePath {e : Env} {w : String} {v v' : Json} {p : String} (hag : AgreeAt e w v v' p)
    {l l' : List (String × Json)} (h : Swap w v v' l l') (b : Bool) (fuel : Nat) :
    dePath e b fuel p (.obj l) = dePath e b fuel p (.obj l') :=
  (swap_main fuel).1 p b l l' hag h

theorem swap_deFlat {e : Env} {w : String} {v v' : Json} {t : RTy} (hag : AgreeAt e w v v' (Scope.leaf t))
    {buf buf' : Buf} (h : SwapB w v v' buf buf') (fuel : Nat) :
    RelRes w v v' (deFlat e fuel t buf) (deFlat e fuel t buf') :=
  (swap_main fuel).2 t buf buf' hag h

end C14G
end GqlVerif
