import GqlVerif.Proofs.C01EndToEnd
import GqlVerif.Proofs.C02MembersModule
/-!
# `moduleOk` (the side condition of every end-to-end theorem) from the INPUT

`C01.E2E.moduleOk c items` is a decidable condition on the EMITTED module.  This file gives the decidable
predicate `ModuleOkIn c op` on the input (schema `c.s`, resolved query `c.q`, options `c.o`, case functions
`c.cs`) and proves, class-free and with no hypothesis but that generation succeeds,

  `moduleOk_iff_inputs : responseForQuery c op = .ok items → (moduleOk c items = true ↔ ModuleOkIn c op = true)`.

`ModuleOkIn c op`, conjunct by conjunct (`u` the used set `allUsedTypes c.s c.q op`, `o` the operation):

1. `C02.NoClash c op` — the names of `C02.moduleNames c u o` (built-in aliases, custom scalars, enums, inputs,
   `Variables`, fragment names with their path-named nested types, `ResponseData` with its path-named nested
   types: `C02.selectionNames`, a function of schema + selection tree + `camel`) are pairwise distinct;
2. when the operation declares variables, no such name is `"<impl Variables>"` — an artefact of the model:
   `Item.name (.defaults _) = "<impl Variables>"` and `moduleOk` speaks of `Item.name`;
3. no name of `moduleNames` is one of `String` / `i64` / `f64` / `bool` (`notPrim`);
4. no custom-scalar extern path (`customExterns c`) is a primitive name or an item name;
5. for every USED, non-extern enum: the schema's value names pairwise distinct and their normalized Rust
   identifiers (`enumVariantIdent`) pairwise distinct (`enumItem_tablesWf_iff`: exactly `EnumSpec.tablesWf` of
   the emitted tables);
6. `c.o.externEnums = []`.

`ModuleOkInputsClasses.lean` restates the headline round-trip theorems with `ModuleOkIn` in place of `moduleOk`.
-/
set_option linter.unusedSimpArgs false
set_option linter.unusedSectionVars false

namespace GqlVerif
namespace MOK
open Codegen C02 C02M C01 C01.E2E C03

/-! ## 1. the predicate on the input -/

/-- the used enums that are generated (not extern), in id order (as `C02.enumNames` / `C02M.enumMembers`) -/
def usedEnums (c : Ctx) (u : UsedTypes) : List StoredEnum :=
  ((sortNat (u.types.filterMap TypeId.asEnum?)).filterMap (fun k => c.s.enums[k]?)).filter
    (fun e => !c.o.externEnums.contains e.name)

/-- the schema's value names pairwise distinct, and their normalized Rust identifiers pairwise distinct -/
def enumValuesOk (c : Ctx) (e : StoredEnum) : Bool :=
  decide e.variants.Nodup && decide (e.variants.map (enumVariantIdent c.o.normalization c.cs)).Nodup

/-- the one item whose `Item.name` is not a defined type name: `impl Variables { default_* }`, emitted exactly when
    the operation declares variables -/
def implNames (c : Ctx) (op : Nat) : List String :=
  if (c.q.opVariables op).isEmpty then [] else ["<impl Variables>"]

/-- `Item.name` of every item of the module (up to order): the defined names `C02.moduleNames` and `implNames` -/
def itemNames (c : Ctx) (u : UsedTypes) (o : ROperation) (op : Nat) : List String :=
  moduleNames c u o ++ implNames c op

/-- **the side condition of the end-to-end theorems, on the input** -/
def ModuleOkIn (c : Ctx) (op : Nat) : Bool :=
  match allUsedTypes c.s c.q op, c.q.operations[op]? with
  | .ok u, some o =>
    NoClash c op &&
    (implNames c op).all (fun n => !(moduleNames c u o).contains n) &&
    (moduleNames c u o).all (fun n => decide (notPrim n)) &&
    (customExterns c).all (fun x => decide (notPrim x.1) && (itemNames c u o op).all (fun n => n != x.1)) &&
    (usedEnums c u).all (enumValuesOk c) &&
    c.o.externEnums.isEmpty
  | _, _ => false

/-! ## 2. the enum tables -/

/-- the table check of `moduleOk` on one item -/
def tablesOk : Item → Bool
  | .gqlEnum _ _ _ vs ser de => EnumSpec.tablesWf vs ser de
  | _ => true

/-- items that are neither a generated enum nor the `impl Variables` block -/
def plain : Item → Bool
  | .gqlEnum .. => false
  | .defaults _ => false
  | _ => true

theorem plain_tablesOk {it : Item} (h : plain it = true) : tablesOk it = true := by
  cases it <;> first | rfl | simp [plain] at h

theorem plain_defines {it : Item} (h : plain it = true) : Scope.itemDefines it = some it.name := by
  cases it <;> first | rfl | simp [plain] at h

/-- **the emitted tables are well-formed exactly when the value names and their identifiers are distinct**
    (the converse of `C10.codegen_tables_wf` included) -/
theorem enumItem_tablesWf_iff (c : Ctx) (e : StoredEnum) : tablesOk (enumItem c e) = enumValuesOk c e := by
  have h1 : ∀ l : List String, EnumSpec.nodup l = decide l.Nodup := by
    intro l
    rw [Bool.eq_iff_iff, nodup_iff']
    simp
  simp only [tablesOk, enumItem, EnumSpec.tablesWf, enumValuesOk, List.map_map, Function.comp_def, List.map_id',
    h1, beq_self_eq_true, Bool.and_true]

/-! ## 3. `Item.name` of the items of the module -/

theorem plain_renderType (c : Ctx) (n : String) (fs : List RField) (vs : List RVariant) :
    ∀ it ∈ renderType c n fs vs, plain it = true := by
  intro it hit
  unfold renderType at hit
  split at hit
  · simp only [List.mem_singleton] at hit
    subst hit; rfl
  · split at hit
    · simp only [List.mem_singleton] at hit
      subst hit; rfl
    · simp only [List.mem_cons, List.not_mem_nil, or_false] at hit
      rcases hit with rfl | rfl <;> rfl

theorem calc_plain (c : Ctx) {fuel : Nat} {name pfx : String} {ty : TypeId} {sels : List Sel} {items : List Item}
    (h : calcSelection c fuel name pfx ty sels = .ok items) : ∀ it ∈ items, plain it = true :=
  (calc_shape (c := c) (P := fun it => plain it = true) (fun n t b => by cases b <;> rfl)
    (plain_renderType c) fuel).1 _ _ _ _ _ h

theorem map_name_of_plain {l : List Item} (h : ∀ it ∈ l, plain it = true) : l.map (·.name) = Scope.defines l :=
  (defines_eq_map_name (fun it hit => plain_defines (h it hit))).symm

theorem inputItem_plain {c : Ctx} {i : StoredInput} {it : Item} (h : inputItem c i = .ok it) : plain it = true := by
  unfold inputItem at h
  split at h
  · obtain ⟨vs, _, h⟩ := bind_ok h
    simp only [pure, Except.pure, Except.ok.injEq] at h
    subst h; rfl
  · obtain ⟨fs, _, h⟩ := bind_ok h
    simp only [pure, Except.pure, Except.ok.injEq] at h
    subst h; rfl

theorem variablesItems_split {c : Ctx} {op : Nat} {V : List Item} (h : variablesItems c op = .ok V) :
    V.map (·.name) = "Variables" :: implNames c op ∧ ∀ it ∈ V, tablesOk it = true := by
  unfold variablesItems at h
  unfold implNames
  simp only [] at h
  split at h
  · rename_i hemp
    simp only [pure, Except.pure, Except.ok.injEq] at h
    subst h
    rw [if_pos hemp]
    exact ⟨rfl, by simp [tablesOk]⟩
  · rename_i hemp
    obtain ⟨fs, _, h⟩ := bind_ok h
    obtain ⟨dfl, _, h⟩ := bind_ok h
    simp only [pure, Except.pure, Except.ok.injEq] at h
    subst h
    rw [if_neg hemp]
    exact ⟨rfl, by simp [tablesOk]⟩

theorem enumItems_eq {c : Ctx} {u : UsedTypes} {E : List Item} (h : enumItems c u = .ok E) :
    E = (usedEnums c u).map (enumItem c) := by
  unfold enumItems at h
  obtain ⟨es, hes, h⟩ := bind_ok h
  simp only [pure, Except.pure, Except.ok.injEq] at h
  subst h
  rw [mapM_eq_filterMap (g := fun k => c.s.enums[k]?) (fun a b hb => getEnum_ok hb) hes]
  rfl

/-- **the emitted module, seen from the input**: `Item.name` of its items is a permutation of `itemNames`, and the
    generated enums are `enumItem` of the used enums, every other item passing the table check trivially -/
theorem module_item_names (c : Ctx) (op : Nat) (items : List Item) (h : responseForQuery c op = .ok items) :
    ∃ u o, allUsedTypes c.s c.q op = .ok u ∧ c.q.operations[op]? = some o ∧
      (items.map (·.name)).Perm (itemNames c u o op) ∧
      (items.all tablesOk = (usedEnums c u).all (enumValuesOk c)) := by
  obtain ⟨u, S, E, F, I, V, o, R, hu, hS, hE, hF, hI, hV, ho, hR, rfl⟩ := responseForQuery_ok_full h
  refine ⟨u, o, hu, ho, ?_, ?_⟩
  · have hSn : S.map (·.name) = scalarNames c u := by
      rw [← scalarItems_names hS, defines_eq_map_name (scalarItems_itemDefines hS)]
    have hEn : E.map (·.name) = enumNames c u := by
      rw [← enumItems_names hE, defines_eq_map_name (enumItems_itemDefines hE)]
    have hIn : I.map (·.name) = inputNames c u := by
      rw [← inputItems_names hI, defines_eq_map_name (inputItems_itemDefines hI)]
    have hFp : ∀ it ∈ F.flatten, plain it = true := by
      intro it hit
      obtain ⟨its, hits, hit⟩ := List.mem_flatten.mp hit
      obtain ⟨g, _, hfi⟩ := mapM_ok_mem hF its hits
      obtain ⟨fr, _, hc⟩ := fragmentItems_ok hfi
      exact calc_plain c hc it hit
    have hFn : F.flatten.map (·.name) = (sortNat u.fragments).flatMap (fragmentNames c) := by
      rw [map_name_of_plain hFp, mapM_defines_flatten (fun a its ha => fragmentItems_names ha) hF]
    have hRn : R.map (·.name) =
        selectionNames c "ResponseData" (c.cs.camel o.name) (.object o.objectId) o.sels := by
      unfold responseItems at hR
      rw [map_name_of_plain (calc_plain c hR), (calc_names _).1 _ _ _ _ _ hR]
    simp only [List.map_append, hSn, hEn, hIn, (variablesItems_split hV).1, hFn, hRn, itemNames, moduleNames]
    have hb : builtinAliases.map (·.name) = ["Boolean", "Float", "Int", "ID"] := rfl
    rw [hb]
    simp only [List.append_assoc, List.cons_append, List.nil_append]
    repeat apply List.Perm.cons
    repeat apply List.Perm.append_left
    apply List.Perm.cons
    exact List.perm_append_comm.trans (by rw [List.append_assoc])
  · have hall : ∀ l : List Item, (∀ it ∈ l, tablesOk it = true) → l.all tablesOk = true := by
      intro l hl; rw [List.all_eq_true]; exact hl
    have hB : builtinAliases.all tablesOk = true := by decide
    have hSt : S.all tablesOk = true := by
      apply hall
      unfold scalarItems at hS
      obtain ⟨ns, _, hS⟩ := bind_ok hS
      simp only [pure, Except.pure, Except.ok.injEq] at hS
      subst hS
      intro it hit
      simp only [List.mem_map] at hit
      obtain ⟨n, _, rfl⟩ := hit
      rfl
    have hIt : I.all tablesOk = true := by
      apply hall
      intro it hit
      unfold inputItems at hI
      obtain ⟨x, _, hx⟩ := mapM_ok_mem hI it hit
      exact plain_tablesOk (inputItem_plain hx)
    have hVt : V.all tablesOk = true := hall _ (variablesItems_split hV).2
    have hFt : F.flatten.all tablesOk = true := by
      apply hall
      intro it hit
      obtain ⟨its, hits, hit⟩ := List.mem_flatten.mp hit
      obtain ⟨g, _, hfi⟩ := mapM_ok_mem hF its hits
      obtain ⟨fr, _, hc⟩ := fragmentItems_ok hfi
      exact plain_tablesOk (calc_plain c hc it hit)
    have hRt : R.all tablesOk = true := by
      apply hall
      unfold responseItems at hR
      exact fun it hit => plain_tablesOk (calc_plain c hR it hit)
    have hEt : E.all tablesOk = (usedEnums c u).all (enumValuesOk c) := by
      rw [enumItems_eq hE, List.all_map]
      congr 1
      funext e
      exact enumItem_tablesWf_iff c e
    simp only [List.all_append, hB, hSt, hIt, hVt, hFt, hRt, hEt, Bool.true_and, Bool.and_true]

/-! ## 4. `moduleOk` ⇔ `ModuleOkIn` -/

/-- `moduleOk`, with its first three conjuncts as propositions about the list of item names -/
theorem moduleOk_iff_names (c : Ctx) (items : List Item) :
    moduleOk c items = true ↔
      ((items.map (·.name)).Nodup ∧ (∀ n ∈ items.map (·.name), notPrim n) ∧
       (∀ x ∈ customExterns c, notPrim x.1 ∧ ∀ n ∈ items.map (·.name), n ≠ x.1)) ∧
      items.all tablesOk = true ∧ c.o.externEnums = [] := by
  have ht : moduleOk c items =
      (EnumSpec.nodup (items.map (·.name)) &&
      items.all (fun it => decide (notPrim it.name)) &&
      (customExterns c).all (fun x => decide (notPrim x.1) && items.all (fun it => it.name != x.1)) &&
      items.all tablesOk &&
      c.o.externEnums.isEmpty) := rfl
  rw [ht]
  simp only [Bool.and_eq_true, List.all_eq_true, decide_eq_true_eq, List.isEmpty_iff, nodup_iff', List.mem_map,
    forall_exists_index, and_imp, forall_apply_eq_imp_iff₂, bne_iff_ne, ne_eq]
  constructor
  · rintro ⟨⟨⟨⟨a, b⟩, d⟩, e⟩, f⟩
    exact ⟨⟨a, b, d⟩, e, f⟩
  · rintro ⟨⟨a, b, d⟩, e, f⟩
    exact ⟨⟨⟨⟨a, b⟩, d⟩, e⟩, f⟩

theorem notPrim_impl : notPrim "<impl Variables>" := by decide

/-- **`moduleOk` of the emitted module ⇔ `ModuleOkIn` of the input**, whenever `responseForQuery` succeeds (no
    other hypothesis: every context, normalization, case functions, operation) -/
theorem moduleOk_iff_inputs (c : Ctx) (op : Nat) (items : List Item) (h : responseForQuery c op = .ok items) :
    moduleOk c items = true ↔ ModuleOkIn c op = true := by
  obtain ⟨u, o, hu, ho, hperm, htab⟩ := module_item_names c op items h
  rw [moduleOk_iff_names, htab]
  have hmem : ∀ n, n ∈ items.map (·.name) ↔ n ∈ itemNames c u o op := fun n => hperm.mem_iff
  have hnc : NoClash c op = true ↔ (moduleNames c u o).Nodup := by
    unfold NoClash
    simp only [hu, ho, decide_eq_true_eq]
  have himplnd : (implNames c op).Nodup := by
    unfold implNames; split <;> simp
  have himplnp : ∀ n ∈ implNames c op, notPrim n := by
    intro n hn
    unfold implNames at hn
    split at hn
    · simp at hn
    · simp only [List.mem_singleton] at hn
      subst hn; exact notPrim_impl
  unfold ModuleOkIn
  simp only [hu, ho, Bool.and_eq_true, List.all_eq_true, decide_eq_true_eq, List.isEmpty_iff, hnc,
    Bool.not_eq_true', bne_iff_ne, ne_eq]
  rw [hperm.nodup_iff]
  simp only [hmem]
  unfold itemNames
  rw [List.nodup_append]
  simp only [List.mem_append]
  constructor
  · rintro ⟨⟨⟨hnd, _, hdis⟩, hnp, hext⟩, htb, hee⟩
    refine ⟨⟨⟨⟨⟨hnd, ?_⟩, fun n hn => hnp n (.inl hn)⟩, hext⟩, htb⟩, hee⟩
    intro n hn
    cases hc : (moduleNames c u o).contains n
    · rfl
    · exact absurd rfl (hdis n (by simpa using hc) n hn)
  · rintro ⟨⟨⟨⟨⟨hnd, hdis⟩, hnp⟩, hext⟩, htb⟩, hee⟩
    refine ⟨⟨⟨hnd, himplnd, ?_⟩, ?_, hext⟩, htb, hee⟩
    · intro a ha b hb hab
      subst hab
      have := hdis a hb
      simp [ha] at this
    · rintro n (hn | hn)
      · exact hnp n hn
      · exact himplnp n hn

/-- **`moduleOk_of_inputs`** — the direction the end-to-end theorems use -/
theorem moduleOk_of_inputs (c : Ctx) (op : Nat) (items : List Item) (h : responseForQuery c op = .ok items)
    (hin : ModuleOkIn c op = true) : moduleOk c items = true :=
  (moduleOk_iff_inputs c op items h).mpr hin

/-- as an equation between the two decidable checks -/
theorem moduleOk_eq_inputs (c : Ctx) (op : Nat) (items : List Item) (h : responseForQuery c op = .ok items) :
    moduleOk c items = ModuleOkIn c op := by
  rw [Bool.eq_iff_iff]
  exact moduleOk_iff_inputs c op items h

/-! ## 5. `ModuleOkIn`, part by part -/

/-- `ModuleOkIn` spelled out as propositions on the input -/
theorem moduleOkIn_iff (c : Ctx) (op : Nat) (u : UsedTypes) (o : ROperation)
    (hu : allUsedTypes c.s c.q op = .ok u) (ho : c.q.operations[op]? = some o) :
    ModuleOkIn c op = true ↔
      (moduleNames c u o).Nodup ∧
      ((c.q.opVariables op) ≠ [] → "<impl Variables>" ∉ moduleNames c u o) ∧
      (∀ n ∈ moduleNames c u o, notPrim n) ∧
      (∀ x ∈ customExterns c, notPrim x.1 ∧ ∀ n ∈ itemNames c u o op, n ≠ x.1) ∧
      (∀ e ∈ usedEnums c u, e.variants.Nodup ∧ (e.variants.map (enumVariantIdent c.o.normalization c.cs)).Nodup) ∧
      c.o.externEnums = [] := by
  have hnc : NoClash c op = true ↔ (moduleNames c u o).Nodup := by
    unfold NoClash
    simp only [hu, ho, decide_eq_true_eq]
  have himpl : (∀ n ∈ implNames c op, (moduleNames c u o).contains n = false) ↔
      ((c.q.opVariables op) ≠ [] → "<impl Variables>" ∉ moduleNames c u o) := by
    unfold implNames
    cases hv : c.q.opVariables op <;> simp
  unfold ModuleOkIn
  simp only [hu, ho, Bool.and_eq_true, List.all_eq_true, decide_eq_true_eq, List.isEmpty_iff, hnc,
    Bool.not_eq_true', bne_iff_ne, ne_eq, himpl, enumValuesOk]
  constructor
  · rintro ⟨⟨⟨⟨⟨a, b⟩, d⟩, e⟩, f⟩, g⟩; exact ⟨a, b, d, e, f, g⟩
  · rintro ⟨a, b, d, e, f, g⟩; exact ⟨⟨⟨⟨⟨a, b⟩, d⟩, e⟩, f⟩, g⟩

/-- `ModuleOkIn` contains the C02 name check -/
theorem moduleOkIn_noClash {c : Ctx} {op : Nat} (h : ModuleOkIn c op = true) : NoClash c op = true := by
  unfold ModuleOkIn at h
  split at h
  · simp only [Bool.and_eq_true] at h
    exact h.1.1.1.1.1
  · cases h

/-! ## 6. the tree class with the input-level hypothesis -/

/-- `tree_accepts` with the side condition on the input -/
theorem tree_accepts_inputs (c : Ctx) (opIdx : Nat) (op : ROperation) (items : List Item)
    (hop : c.q.operations[opIdx]? = some op) (ht : TreeOp c op = true)
    (hgen : responseForQuery c opIdx = .ok items) (hok : ModuleOkIn c opIdx = true)
    (j : Json) (hc : conformsOp c op j = true) :
    ∃ v, Serde.de (moduleEnv c items) (.path "ResponseData") j = .ok v :=
  tree_accepts c opIdx op items hop ht hgen (moduleOk_of_inputs c opIdx items hgen hok) j hc

/-- **`tree_roundtrip` with the side condition on the input** -/
theorem tree_roundtrip_inputs (c : Ctx) (opIdx : Nat) (op : ROperation) (items : List Item)
    (hop : c.q.operations[opIdx]? = some op) (ht : TreeOp c op = true)
    (hgen : responseForQuery c opIdx = .ok items) (hok : ModuleOkIn c opIdx = true)
    (hro : rustOkSels c op.sels = true) (hrn : EnumSpec.nodup (rustNames c op.sels) = true)
    (j : Json) (hc : conformsOp c op j = true) :
    Serde.roundtrip (moduleEnv c items) (.path "ResponseData") j = .ok (canonSel c.s c.o.skipNone op.sels j) :=
  tree_roundtrip c opIdx op items hop ht hgen (moduleOk_of_inputs c opIdx items hgen hok) hro hrn j hc

/-- `tree_precise_iff` (C03) with the side condition on the input -/
theorem tree_precise_iff_inputs (c : Ctx) (opIdx : Nat) (op : ROperation) (items : List Item)
    (hop : c.q.operations[opIdx]? = some op) (ht : TreeOp c op = true)
    (hgen : responseForQuery c opIdx = .ok items) (hok : ModuleOkIn c opIdx = true) (j : Json) :
    okB (Serde.de (moduleEnv c items) (.path "ResponseData") j) = conformsSelLoose c.s op.sels j :=
  tree_precise_iff c opIdx op items hop ht hgen (moduleOk_of_inputs c opIdx items hgen hok) j

/-! ## 7. instances -/

/-- `type Query { animal: Animal }  type Animal { owner: Owner  name: String }  type Owner { id: ID }` -/
def ceSchema : Schema :=
  { objects := [{ name := "Query", fields := [0], implements := [] },
                { name := "Animal", fields := [1, 2], implements := [] },
                { name := "Owner", fields := [3], implements := [] }]
    fields := [{ name := "animal", ty := { id := .object 1, quals := [] }, parent := .object 0, deprecation := none },
               { name := "owner", ty := { id := .object 2, quals := [] }, parent := .object 1, deprecation := none },
               { name := "name", ty := { id := .scalar 1, quals := [] }, parent := .object 1, deprecation := none },
               { name := "id", ty := { id := .scalar 0, quals := [] }, parent := .object 2, deprecation := none }]
    scalars := Schema.defaultScalars }

/-- `query Q { animal { owner { id } } animalowner: animal { name } }` (docs/REVIEW_3.md, finding 3) -/
def ceOp : ROperation :=
  { name := "Q", kind := .query, objectId := 0,
    sels := [.field none 0 [.field none 1 [.field none 3 []]], .field (some "animalowner") 0 [.field none 2 []]] }

def ceCtx : Ctx := { s := ceSchema, q := { operations := [ceOp] }, o := {}, cs := ⟨id, id⟩ }

/-- **the reviewer's counterexample**: the operation is in the class `TreeOp`, generation succeeds, and the input-level
    predicate is FALSE — through `NoClash` alone: the two selection paths `Q/animal/owner` and `Q/animalowner`
    concatenate to the one item name `Qanimalowner`; every other conjunct holds -/
theorem reviewer_counterexample :
    TreeOp ceCtx ceOp = true ∧ (responseForQuery ceCtx 0).toOption.isSome = true ∧
    ModuleOkIn ceCtx 0 = false ∧ NoClash ceCtx 0 = false ∧
    (allUsedTypes ceCtx.s ceCtx.q 0).toOption.map (fun u => moduleNames ceCtx u ceOp) =
      some ["Boolean", "Float", "Int", "ID", "Variables", "ResponseData", "Qanimal", "Qanimalowner", "Qanimalowner"] := by
  refine ⟨?_, ?_, ?_, ?_, ?_⟩ <;> decide +kernel

/-- so `moduleOk` fails on the module that IS emitted for it (by the equivalence, not by evaluating the module) -/
theorem reviewer_counterexample_output :
    ∃ items, responseForQuery ceCtx 0 = .ok items ∧ moduleOk ceCtx items = false := by
  cases hgen : responseForQuery ceCtx 0 with
  | error e =>
    have := reviewer_counterexample.2.1
    rw [hgen] at this; cases this
  | ok items =>
    refine ⟨items, rfl, ?_⟩
    rw [moduleOk_eq_inputs ceCtx 0 items hgen]
    exact reviewer_counterexample.2.2.1

/-- with an alias that does not collide (`pet: animal { name }`) the predicate holds -/
example : ModuleOkIn { ceCtx with q := { operations := [{ ceOp with
    sels := [.field none 0 [.field none 1 [.field none 3 []]], .field (some "pet") 0 [.field none 2 []]] }] } } 0 = true := by
  decide +kernel

/-- the two-level module of `C01EndToEnd` (nested selections, an alias, a deprecated enum one of whose values is a Rust
    keyword, a custom scalar with its extern, a list of objects) passes the input-level predicate … -/
theorem ex_in : ModuleOkIn exCtx 0 = true := by decide +kernel

/-- … and `tree_roundtrip_inputs` applies to it: `to_value (from_value exJson) = exCanon`, the side condition
    discharged on the input -/
example : Serde.roundtrip (moduleEnv exCtx exItems) (.path "ResponseData") exJson = .ok exCanon := by
  rw [← ex_canon]
  exact tree_roundtrip_inputs exCtx 0 exOp exItems rfl ex_tree ex_gen ex_in ex_rust.1 ex_rust.2 exJson ex_conforms

/-- the rich sample of `C02Response` has an extern enum: the predicate is false on it (conjunct 6), and true once the
    enum is generated instead -/
example : ModuleOkIn richCtx 0 = false ∧ ModuleOkIn { richCtx with o := {} } 0 = true := by
  constructor <;> decide +kernel

/-- **two enum values equal after normalization** (`C02M.enumCtx`, a C02 finding): conjunct 5 fails, `NoClash` holds -/
example : ModuleOkIn enumCtx 0 = false ∧ NoClash enumCtx 0 = true ∧ ModuleOkIn { enumCtx with o := {} } 0 = true := by
  refine ⟨?_, ?_, ?_⟩ <;> decide +kernel

end MOK
end GqlVerif
