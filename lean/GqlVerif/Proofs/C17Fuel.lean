import GqlVerif.Proofs.C02Closure
import GqlVerif.Proofs.C12Graph
import GqlVerif.Model.Valid
/-!
# C17 — fuel independence of the guarded walks, stated on the model's own functions

The Rust code recurses without fuel; the model gives each walk that follows fragment spreads / input
fields a fuel argument and returns a *default* (not an error) at fuel `0`.  Silent exhaustion would make
the model disagree with the code.  This file proves, for each such function `f` and the fuel `F` the
model passes at its call site,

    ∀ fuel ≥ F, f … fuel … = f … F …

(the result no longer depends on the fuel once it reaches what the model passes), with **no
well-formedness hypothesis** on schema or query: out-of-range ids stop the walks.  The only side
condition is, for the three selection-tree walks, that the selection set at hand is not deeper than
the depth the model's fuel formula measured (`selsDepth sels ≤ maxDepth q`), which holds for every
operation and fragment body of `q` (the only sets the model passes).

* `containsTypenameAux_fuel_indep` — `Resolve.containsTypenameAux`, fuel `#fragments + 1`
* `rootFieldCount_fuel_indep(_op)` — `Resolve.rootFieldCount`, fuel `depthFuel q`
* `reachesFragment_fuel_indep(_frag)`, `fragmentIsRecursive_fuel_indep` — `Codegen.reachesFragment`, fuel `walkFuel q`
* `collectSel_fuel_indep`, `collectSels_fuel_indep`, `allUsedTypes_fuel_indep` — `Codegen.collectSel`, fuel `walkFuel q`
* `usedInputIds_fuel_indep`, `collectVar_fuel_indep` — `Codegen.usedInputIds`, fuel `#inputs + 1`
* `containsWithoutIndirection_fuel_indep`, `inputIsRecursive_fuel_indep` —
  `Codegen.containsWithoutIndirection`, fuel `#inputs + 1`

Each has a general form `…_fuel_eq` (any two fuels above the *need* of the call give the same result).
-/
namespace GqlVerif
namespace C17F
open Codegen Resolve

/-! ## 0. generic fold lemmas -/

theorem foldl_congr_inv {α β : Type} (f g : β → α → β) (Inv : β → Prop) (l : List α)
    (hstep : ∀ b x, x ∈ l → Inv b → f b x = g b x ∧ Inv (f b x)) :
    ∀ b, Inv b → l.foldl f b = l.foldl g b := by
  induction l with
  | nil => intro b _; rfl
  | cons a l ih =>
    intro b hb
    have ⟨h1, h2⟩ := hstep b a (by simp) hb
    simp only [List.foldl_cons]
    rw [← h1]
    exact ih (fun b x hx hb => hstep b x (by simp [hx]) hb) _ h2

theorem foldlM_congr_inv {ε α β : Type} (f g : β → α → Except ε β) (Inv : β → Prop) (l : List α)
    (hstep : ∀ b x, x ∈ l → Inv b → f b x = g b x ∧ ∀ b', f b x = .ok b' → Inv b') :
    ∀ b, Inv b → l.foldlM f b = l.foldlM g b := by
  induction l with
  | nil => intro b _; rfl
  | cons a l ih =>
    intro b hb
    have ⟨h1, h2⟩ := hstep b a (by simp) hb
    simp only [List.foldlM_cons]
    rw [← h1]
    cases hfa : f b a with
    | error e => rfl
    | ok b1 =>
      simp only [bind, Except.bind]
      exact ih (fun b x hx hb => hstep b x (by simp [hx]) hb) _ (h2 b1 hfa)

/-- the fold of a monotone step is monotone (second component grows) -/
theorem foldl_snd_mono {α β γ : Type} (f : β × List γ → α → β × List γ) (l : List α)
    (hstep : ∀ acc x, x ∈ l → ∀ v ∈ acc.2, v ∈ (f acc x).2) :
    ∀ acc, ∀ v ∈ acc.2, v ∈ (l.foldl f acc).2 := by
  induction l with
  | nil => intro acc v hv; exact hv
  | cons a l ih =>
    intro acc v hv
    simp only [List.foldl_cons]
    exact ih (fun acc x hx => hstep acc x (by simp [hx])) _ v (hstep acc a (by simp) v hv)

/-! ## 1. `Resolve.containsTypenameAux` (fuel `#fragments + 1`) -/

theorem containsTypenameAux_fuel_eq (q : Query) :
    ∀ (fuel fuel' : Nat) (parent : TypeId) (visited : List Nat) (sels : List Sel),
      (C17.remaining q visited).length < fuel → (C17.remaining q visited).length < fuel' →
      containsTypenameAux q parent fuel visited sels = containsTypenameAux q parent fuel' visited sels := by
  intro fuel
  induction fuel with
  | zero => intro _ _ _ _ h; omega
  | succ n ih =>
    intro fuel' parent visited sels h1 h2
    cases fuel' with
    | zero => omega
    | succ m =>
      unfold containsTypenameAux
      congr 1
      funext sel
      cases sel with
      | typename => rfl
      | field a b c => rfl
      | inline a b => rfl
      | spread fid =>
        simp only
        cases hv : visited.contains fid
        · simp only [Bool.false_eq_true, ↓reduceIte]
          cases hf : q.fragments[fid]? with
          | none => rfl
          | some f =>
            simp only
            have hdec := C17.remaining_decreases q visited fid f hf hv
            rw [ih m f.on (fid :: visited) f.sels (by omega) (by omega)]
        · simp

/-- **`containsTypenameAux`**: above the fuel `Resolve.containsTypename` passes, the result is the
    value of `containsTypename` — for every query, type, selection set; no hypothesis -/
theorem containsTypenameAux_fuel_indep (q : Query) (parent : TypeId) (sels : List Sel) :
    ∀ fuel, q.fragments.length + 1 ≤ fuel →
      containsTypenameAux q parent fuel [] sels = containsTypename q parent sels := by
  intro fuel h
  unfold containsTypename
  have := C17.remaining_nil q
  exact containsTypenameAux_fuel_eq q _ _ parent [] sels (by omega) (by omega)

/-! ## 2. depth of selection sets: the two copies in the model agree -/

mutual
  theorem selDepth'_eq : ∀ x : Sel, selDepth' x = selDepth x
    | .field _ _ sub => by rw [selDepth', selDepth, selsDepth'_eq sub]
    | .inline _ sub => by rw [selDepth', selDepth, selsDepth'_eq sub]
    | .spread _ => by rw [selDepth', selDepth] <;> simp
    | .typename => by rw [selDepth', selDepth] <;> simp
  theorem selsDepth'_eq : ∀ l : List Sel, selsDepth' l = selsDepth l
    | [] => by rw [selsDepth', selsDepth]
    | x :: xs => by rw [selsDepth', selsDepth, selDepth'_eq x, selsDepth'_eq xs]
end

theorem depthFuel_eq_walkFuel (q : Query) : depthFuel q = walkFuel q := by
  unfold depthFuel walkFuel
  have h1 : (fun f : RFragment => selsDepth' f.sels) = (fun f => selsDepth f.sels) :=
    funext fun f => selsDepth'_eq f.sels
  have h2 : (fun o : ROperation => selsDepth' o.sels) = (fun o => selsDepth o.sels) :=
    funext fun o => selsDepth'_eq o.sels
  rw [h1, h2]

theorem selsDepth_pos_of_mem {x : Sel} {l : List Sel} (h : x ∈ l) : 1 ≤ selsDepth l :=
  Nat.le_trans (C02.selDepth_pos x) (C02.selDepth_le_of_mem h)

theorem selsDepth_field_lt {a : Option String} {fid : Nat} {sub l : List Sel} (h : Sel.field a fid sub ∈ l) :
    selsDepth sub < selsDepth l := by
  have := C02.selDepth_le_of_mem h
  rw [selDepth] at this
  omega

theorem selsDepth_inline_lt {t : TypeId} {sub l : List Sel} (h : Sel.inline t sub ∈ l) :
    selsDepth sub < selsDepth l := by
  have := C02.selDepth_le_of_mem h
  rw [selDepth] at this
  omega

/-- what a list-level walk needs: the depth of the set at hand plus a full body depth (`d + 1`) for
    every fragment that can still be entered -/
def need (q : Query) (d : Nat) (visited : List Nat) (sels : List Sel) : Nat :=
  selsDepth sels + C12Graph.remainingF q visited * (d + 1)

theorem need_mono (q : Query) (d : Nat) {v v' : List Nat} (h : ∀ n ∈ v, n ∈ v') (sels : List Sel) :
    need q d v' sels ≤ need q d v sels := by
  unfold need
  have := Nat.mul_le_mul_right (d + 1) (C12Graph.remainingF_mono q h)
  omega

/-- entering an unvisited fragment strictly lowers the need -/
theorem need_enter (q : Query) (d : Nat) (hd : ∀ f ∈ q.fragments, selsDepth f.sels ≤ d)
    {v : List Nat} {fid : Nat} {f : RFragment} (hf : q.fragments[fid]? = some f) (hv : fid ∉ v)
    {sels : List Sel} (hpos : 1 ≤ selsDepth sels) :
    need q d (fid :: v) f.sels < need q d v sels := by
  unfold need
  have hlt : fid < q.fragments.length := (List.getElem?_eq_some_iff.mp hf).1
  have h1 := C12Graph.remainingF_decreases q v fid hlt hv
  have h2 := hd f (List.mem_of_getElem? hf)
  have h3 := Nat.mul_le_mul_right (d + 1) (Nat.succ_le_of_lt h1)
  rw [Nat.succ_mul] at h3
  omega

theorem need_nil_le_walkFuel (q : Query) (sels : List Sel) (h : selsDepth sels ≤ C02.maxDepth q) :
    need q (C02.maxDepth q) [] sels < walkFuel q := by
  unfold need
  rw [C12Graph.remainingF_nil, C02.walkFuel_eq]
  have h4 : (q.fragments.length + 1) * (C02.maxDepth q + 2) =
      q.fragments.length * (C02.maxDepth q + 1) + q.fragments.length + (C02.maxDepth q + 2) := by
    rw [Nat.succ_mul, Nat.mul_succ]
  omega

/-! ## 3. `Resolve.rootFieldCount` (fuel `depthFuel q`) -/

def rfcStep (q : Query) (fuel : Nat) (acc : Nat × List Nat) (sel : Sel) : Nat × List Nat :=
  match sel with
  | .field _ _ _ => (acc.1 + 1, acc.2)
  | .typename => (acc.1 + 1, acc.2)
  | .inline _ sub =>
    let r := rootFieldCount q fuel acc.2 sub
    (acc.1 + r.1, r.2)
  | .spread fid =>
    if acc.2.contains fid then acc else
    match q.fragments[fid]? with
    | none => acc
    | some f =>
      let r := rootFieldCount q fuel (fid :: acc.2) f.sels
      (acc.1 + r.1, r.2)

theorem rfc_succ (q : Query) (fuel : Nat) (visited : List Nat) (sels : List Sel) :
    rootFieldCount q (fuel+1) visited sels = sels.foldl (rfcStep q fuel) (0, visited) := by
  rw [rootFieldCount]
  rfl

theorem rfc_mono (q : Query) : ∀ (fuel : Nat) (visited : List Nat) (sels : List Sel),
    ∀ v ∈ visited, v ∈ (rootFieldCount q fuel visited sels).2 := by
  intro fuel
  induction fuel with
  | zero => intro visited sels v hv; rw [rootFieldCount]; exact hv
  | succ n ih =>
    intro visited sels v hv
    rw [rfc_succ]
    refine foldl_snd_mono _ sels ?_ (0, visited) v hv
    intro acc x _ w hw
    unfold rfcStep
    cases x with
    | field a b c => exact hw
    | typename => exact hw
    | inline t sub => exact ih _ _ w hw
    | spread fid =>
      simp only
      split
      · exact hw
      · split
        · exact hw
        · exact ih _ _ w (List.mem_cons_of_mem _ hw)

theorem rootFieldCount_fuel_eq (q : Query) (d : Nat) (hd : ∀ f ∈ q.fragments, selsDepth f.sels ≤ d) :
    ∀ (fuel fuel' : Nat) (visited : List Nat) (sels : List Sel),
      need q d visited sels < fuel → need q d visited sels < fuel' →
      rootFieldCount q fuel visited sels = rootFieldCount q fuel' visited sels := by
  intro fuel
  induction fuel with
  | zero => intro _ _ _ h; omega
  | succ n ih =>
    intro fuel' visited sels h1 h2
    cases fuel' with
    | zero => omega
    | succ m =>
      rw [rfc_succ, rfc_succ]
      refine foldl_congr_inv _ _ (fun acc => ∀ v ∈ visited, v ∈ acc.2) sels ?_ (0, visited) (fun _ h => h)
      intro acc x hx hinv
      have hacc := need_mono q d hinv
      cases x with
      | field a b c => exact ⟨rfl, hinv⟩
      | typename => exact ⟨rfl, hinv⟩
      | inline t sub =>
        have hlt := selsDepth_inline_lt hx
        have hn : need q d acc.2 sub < need q d visited sels := by
          have := hacc sub
          unfold need at this ⊢; omega
        refine ⟨?_, fun v hv => ?_⟩
        · unfold rfcStep
          simp only
          rw [ih m acc.2 sub (by omega) (by omega)]
        · unfold rfcStep
          exact rfc_mono q _ _ _ v (hinv v hv)
      | spread fid =>
        unfold rfcStep
        simp only
        cases hc : acc.2.contains fid
        · simp only [Bool.false_eq_true, ↓reduceIte]
          cases hf : q.fragments[fid]? with
          | none => exact ⟨rfl, hinv⟩
          | some f =>
            simp only
            have hv : fid ∉ acc.2 := by simpa using hc
            have hn := need_enter q d hd hf hv (selsDepth_pos_of_mem hx)
            have := hacc sels
            refine ⟨?_, fun v hv' => ?_⟩
            · rw [ih m (fid :: acc.2) f.sels (by omega) (by omega)]
            · exact rfc_mono q _ _ _ v (List.mem_cons_of_mem _ (hinv v hv'))
        · simp only [↓reduceIte]
          exact ⟨trivial, hinv⟩

/-- **`rootFieldCount`**: above the fuel `validateSubscriptions` passes the result is fuel independent,
    for every selection set that is not deeper than the operations / fragment bodies of `q` -/
theorem rootFieldCount_fuel_indep (q : Query) (sels : List Sel) (hs : selsDepth sels ≤ C02.maxDepth q) :
    ∀ fuel, depthFuel q ≤ fuel →
      rootFieldCount q fuel [] sels = rootFieldCount q (depthFuel q) [] sels := by
  intro fuel h
  rw [depthFuel_eq_walkFuel] at h ⊢
  have := need_nil_le_walkFuel q sels hs
  exact rootFieldCount_fuel_eq q _ (C02.frag_depth_le q) _ _ [] sels (by omega) (by omega)

/-- … in particular for the root selection set of every operation (the only call site) -/
theorem rootFieldCount_fuel_indep_op (q : Query) (o : ROperation) (ho : o ∈ q.operations) :
    ∀ fuel, depthFuel q ≤ fuel →
      rootFieldCount q fuel [] o.sels = rootFieldCount q (depthFuel q) [] o.sels :=
  rootFieldCount_fuel_indep q o.sels (C02.op_depth_le q o ho)

/-! ## 4. `Codegen.reachesFragment` (fuel `walkFuel q`) -/

theorem rf_mono (q : Query) (target : Nat) : ∀ (fuel : Nat) (visited : List Nat) (sels : List Sel),
    ∀ v ∈ visited, v ∈ (reachesFragment q target fuel visited sels).2 := by
  intro fuel
  induction fuel with
  | zero => intro visited sels v hv; rw [reachesFragment]; exact hv
  | succ n ih =>
    intro visited sels v hv
    rw [C12Graph.rf_succ]
    refine foldl_snd_mono _ sels ?_ (false, visited) v hv
    intro acc x _ w hw
    unfold C12Graph.rfStep
    split
    · exact hw
    · cases x with
      | field a b c => exact ih _ _ w hw
      | typename => exact hw
      | inline t sub => exact ih _ _ w hw
      | spread fid =>
        simp only
        split
        · exact hw
        · split
          · exact hw
          · split
            · exact hw
            · exact ih _ _ w (List.mem_cons_of_mem _ hw)

theorem reachesFragment_fuel_eq (q : Query) (target d : Nat) (hd : ∀ f ∈ q.fragments, selsDepth f.sels ≤ d) :
    ∀ (fuel fuel' : Nat) (visited : List Nat) (sels : List Sel),
      need q d visited sels < fuel → need q d visited sels < fuel' →
      reachesFragment q target fuel visited sels = reachesFragment q target fuel' visited sels := by
  intro fuel
  induction fuel with
  | zero => intro _ _ _ h; omega
  | succ n ih =>
    intro fuel' visited sels h1 h2
    cases fuel' with
    | zero => omega
    | succ m =>
      rw [C12Graph.rf_succ, C12Graph.rf_succ]
      refine foldl_congr_inv _ _ (fun acc => ∀ v ∈ visited, v ∈ acc.2) sels ?_ (false, visited) (fun _ h => h)
      intro acc x hx hinv
      have hacc := need_mono q d hinv
      unfold C12Graph.rfStep
      cases h1' : acc.1
      · simp only [Bool.false_eq_true, ↓reduceIte]
        cases x with
        | field a b sub =>
          have hlt := selsDepth_field_lt hx
          have hn : need q d acc.2 sub < need q d visited sels := by
            have := hacc sub
            unfold need at this ⊢; omega
          simp only
          rw [ih m acc.2 sub (by omega) (by omega)]
          exact ⟨by trivial, fun v hv => rf_mono q target _ _ _ v (hinv v hv)⟩
        | typename => exact ⟨by trivial, hinv⟩
        | inline t sub =>
          have hlt := selsDepth_inline_lt hx
          have hn : need q d acc.2 sub < need q d visited sels := by
            have := hacc sub
            unfold need at this ⊢; omega
          simp only
          rw [ih m acc.2 sub (by omega) (by omega)]
          exact ⟨by trivial, fun v hv => rf_mono q target _ _ _ v (hinv v hv)⟩
        | spread fid =>
          simp only
          split
          · exact ⟨by trivial, hinv⟩
          · cases hc : acc.2.contains fid
            · simp only [Bool.false_eq_true, ↓reduceIte]
              cases hf : q.fragments[fid]? with
              | none => exact ⟨by trivial, hinv⟩
              | some f =>
                simp only
                have hv : fid ∉ acc.2 := by simpa using hc
                have hn := need_enter q d hd hf hv (selsDepth_pos_of_mem hx)
                have := hacc sels
                rw [ih m (fid :: acc.2) f.sels (by omega) (by omega)]
                exact ⟨by trivial, fun v hv' => rf_mono q target _ _ _ v (List.mem_cons_of_mem _ (hinv v hv'))⟩
            · simp only [↓reduceIte]
              exact ⟨by trivial, hinv⟩
      · simp only [↓reduceIte]
        exact ⟨by trivial, hinv⟩

/-- **`reachesFragment`**: above `walkFuel q` the result (verdict *and* visited set) is fuel
    independent, for every target and every selection set not deeper than the bodies of `q` -/
theorem reachesFragment_fuel_indep (q : Query) (target : Nat) (sels : List Sel)
    (hs : selsDepth sels ≤ C02.maxDepth q) :
    ∀ fuel, walkFuel q ≤ fuel →
      reachesFragment q target fuel [] sels = reachesFragment q target (walkFuel q) [] sels := by
  intro fuel h
  have := need_nil_le_walkFuel q sels hs
  exact reachesFragment_fuel_eq q target _ (C02.frag_depth_le q) _ _ [] sels (by omega) (by omega)

/-- … in particular for the body of every fragment (the only call site, `fragmentIsRecursive`) -/
theorem reachesFragment_fuel_indep_frag (q : Query) (target : Nat) (f : RFragment) (hf : f ∈ q.fragments) :
    ∀ fuel, walkFuel q ≤ fuel →
      reachesFragment q target fuel [] f.sels = reachesFragment q target (walkFuel q) [] f.sels :=
  reachesFragment_fuel_indep q target f.sels (C02.frag_depth_le q f hf)

/-- `fragmentIsRecursive` is the fuel-free verdict: any fuel `≥ walkFuel q` gives the same answer -/
theorem fragmentIsRecursive_fuel_indep (q : Query) (fid : Nat) :
    ∀ fuel, walkFuel q ≤ fuel →
      (match q.fragments[fid]? with
        | none => false
        | some f => (reachesFragment q fid fuel [] f.sels).1) = fragmentIsRecursive q fid := by
  intro fuel h
  unfold fragmentIsRecursive
  cases hf : q.fragments[fid]? with
  | none => rfl
  | some f =>
    simp only
    rw [reachesFragment_fuel_indep_frag q fid f (List.mem_of_getElem? hf) fuel h]

/-! ## 5. `Codegen.collectSel` (fuel `walkFuel q`) -/

theorem unseenFrags_eq_remainingF (q : Query) (u : UsedTypes) :
    C02.unseenFrags q u = C12Graph.remainingF q u.fragments := rfl

theorem collectSel_fuel_eq (s : Schema) (q : Query) (d : Nat) (hd : ∀ f ∈ q.fragments, selsDepth f.sels ≤ d) :
    ∀ (fuel fuel' : Nat) (u : UsedTypes) (sel : Sel),
      C02.fuelNeed q d u sel ≤ fuel → C02.fuelNeed q d u sel ≤ fuel' →
      collectSel s q fuel u sel = collectSel s q fuel' u sel := by
  intro fuel
  induction fuel with
  | zero =>
    intro _ u sel h
    have := C02.selDepth_pos sel
    unfold C02.fuelNeed at h; omega
  | succ n ih =>
    intro fuel' u sel h1 h2
    cases fuel' with
    | zero =>
      have := C02.selDepth_pos sel
      unfold C02.fuelNeed at h2; omega
    | succ m =>
      -- the fold over a sub-selection set, started in any state that has visited at least `u0`
      have hfold : ∀ (sub : List Sel) (u0 u1 : UsedTypes),
          (∀ x ∈ sub, C02.fuelNeed q d u0 x ≤ n ∧ C02.fuelNeed q d u0 x ≤ m) →
          C02.unseenFrags q u1 ≤ C02.unseenFrags q u0 →
          sub.foldlM (collectSel s q n) u1 = sub.foldlM (collectSel s q m) u1 := by
        intro sub u0 u1 hpre h01
        refine foldlM_congr_inv _ _ (fun b => C02.unseenFrags q b ≤ C02.unseenFrags q u0) sub ?_ u1 h01
        intro b x hx hb
        have hle : C02.fuelNeed q d b x ≤ C02.fuelNeed q d u0 x := by
          unfold C02.fuelNeed
          have := Nat.mul_le_mul_right (d + 1) hb
          omega
        have ⟨hn, hm⟩ := hpre x hx
        refine ⟨ih m b x (by omega) (by omega), fun b' hb' => ?_⟩
        have ⟨hleC, _⟩ := C02.collectSel_spec s q d hd n b x b' (by omega) hb'
        exact Nat.le_trans (C02.unseenFrags_le hleC.frags) hb
      cases sel with
      | typename => simp only [collectSel]
      | field a fid sub =>
        rw [collectSel.eq_2, collectSel.eq_2]
        cases hf : s.getField fid with
        | error e => rfl
        | ok f =>
          simp only [bind, Except.bind]
          apply hfold sub u
          · intro x hx
            have h3 := C02.selDepth_le_of_mem hx
            unfold C02.fuelNeed at h1 h2 ⊢
            rw [selDepth.eq_1] at h1 h2
            omega
          · exact C02.unseenFrags_le (C02.LeC.insertType s q u f.ty.id).frags
      | inline t sub =>
        rw [collectSel.eq_3, collectSel.eq_3]
        apply hfold sub u
        · intro x hx
          have h3 := C02.selDepth_le_of_mem hx
          unfold C02.fuelNeed at h1 h2 ⊢
          rw [selDepth.eq_2] at h1 h2
          omega
        · exact C02.unseenFrags_le (C02.LeC.insertType s q u t).frags
      | spread g =>
        rw [collectSel.eq_4, collectSel.eq_4]
        split
        · rfl
        · rename_i hc
          have hng : g ∉ u.fragments := by simpa using hc
          cases hf : q.getFragment g with
          | error e => rfl
          | ok f =>
            simp only [bind, Except.bind]
            have hf' := C02.getFragment_ok hf
            have hlt : g < q.fragments.length := (List.getElem?_eq_some_iff.mp hf').1
            have hdec := C12Graph.remainingF_decreases q u.fragments g hlt hng
            apply hfold f.sels { u with fragments := g :: u.fragments }
            · intro x hx
              have h3 := C02.selDepth_le_of_mem hx
              have h4 := hd f (List.mem_of_getElem? hf')
              have h5 := Nat.mul_le_mul_right (d + 1) (Nat.succ_le_of_lt hdec)
              rw [Nat.succ_mul] at h5
              unfold C02.fuelNeed at h1 h2 ⊢
              rw [unseenFrags_eq_remainingF] at h1 h2 ⊢
              dsimp only at ⊢
              have := C02.selDepth_pos (.spread g)
              omega
            · exact Nat.le_refl _

/-- **`collectSel`**: above `walkFuel q` the result is fuel independent — in every state `u` of the
    walk, for every selection not deeper than the bodies of `q`; errors included -/
theorem collectSel_fuel_indep (s : Schema) (q : Query) (sel : Sel) (hs : selDepth sel ≤ C02.maxDepth q) :
    ∀ fuel, walkFuel q ≤ fuel → ∀ u, collectSel s q fuel u sel = collectSel s q (walkFuel q) u sel := by
  intro fuel h u
  have hneed : C02.fuelNeed q (C02.maxDepth q) u sel ≤ walkFuel q := by
    have h2 : C02.unseenFrags q u ≤ q.fragments.length := C02.unseen_le_n _ _
    have h3 := Nat.mul_le_mul_right (C02.maxDepth q + 1) h2
    rw [C02.walkFuel_eq]
    unfold C02.fuelNeed
    have h4 : (q.fragments.length + 1) * (C02.maxDepth q + 2) =
        q.fragments.length * (C02.maxDepth q + 1) + q.fragments.length + (C02.maxDepth q + 2) := by
      rw [Nat.succ_mul, Nat.mul_succ]
    omega
  exact collectSel_fuel_eq s q _ (C02.frag_depth_le q) _ _ u sel (by omega) hneed

/-- the selection phase of `allUsedTypes` -/
theorem collectSels_fuel_indep (s : Schema) (q : Query) (sels : List Sel) (hs : selsDepth sels ≤ C02.maxDepth q) :
    ∀ fuel, walkFuel q ≤ fuel → ∀ u,
      sels.foldlM (collectSel s q fuel) u = sels.foldlM (collectSel s q (walkFuel q)) u := by
  intro fuel h u
  refine foldlM_congr_inv _ _ (fun _ => True) sels ?_ u trivial
  intro b x hx _
  exact ⟨collectSel_fuel_indep s q x (Nat.le_trans (C02.selDepth_le_of_mem hx) hs) fuel h b, fun _ _ => trivial⟩

/-! ## 6. `Codegen.usedInputIds` (fuel `#inputs + 1`) -/

theorem usedInputIds_fuel_eq (s : Schema) :
    ∀ (fuel fuel' : Nat) (u : UsedTypes) (i : StoredInput),
      C02.unseenInputs s u < fuel → C02.unseenInputs s u < fuel' →
      usedInputIds s fuel u i = usedInputIds s fuel' u i := by
  intro fuel
  induction fuel with
  | zero => intro _ _ _ h; omega
  | succ n ih =>
    intro fuel' u i h1 h2
    cases fuel' with
    | zero => omega
    | succ m =>
      rw [usedInputIds.eq_2, usedInputIds.eq_2]
      refine foldlM_congr_inv _ _ (fun b => C02.unseenInputs s b ≤ C02.unseenInputs s u) i.fields ?_ u
        (Nat.le_refl _)
      rintro b ⟨fname, ty⟩ _ hb
      have hins : ∀ t, C02.unseenInputs s (b.insertType t) ≤ C02.unseenInputs s u :=
        fun t => Nat.le_trans (C02.unseenInputs_le (fun x hx => C02.mem_insertType.mpr (.inr hx))) hb
      simp only
      cases hid : ty.id with
      | input iid =>
        simp only
        split
        · exact ⟨rfl, fun b' hb' => by cases hb'; exact hb⟩
        · rename_i hc
          cases hi : s.getInput iid with
          | error e => exact ⟨rfl, fun b' hb' => by simp [bind, Except.bind] at hb'⟩
          | ok i2 =>
            simp only [bind, Except.bind]
            have hi2' := C02.getInput_ok hi
            have hlt : iid < s.inputs.length := (List.getElem?_eq_some_iff.mp hi2').1
            have hnot : TypeId.input iid ∉ b.types := by simpa using hc
            have hdec : C02.unseenInputs s (b.insertType (.input iid)) < C02.unseenInputs s b := by
              apply C02.unseen_lt iid hlt
              · simpa using hnot
              · simp [C02.mem_insertType]
              · intro j hj
                simp only [List.contains_eq_mem, decide_eq_true_eq] at hj ⊢
                exact C02.mem_insertType.mpr (.inr hj)
            refine ⟨ih m _ i2 (by omega) (by omega), fun b' hb' => ?_⟩
            have ⟨hle, _⟩ := C02.usedInputIds_spec s n _ i2 b' (by omega) hb'
            exact Nat.le_trans (C02.unseenInputs_le hle.types) (hins _)
      | «enum» k => exact ⟨rfl, fun b' hb' => by cases hb'; exact hins _⟩
      | scalar k => exact ⟨rfl, fun b' hb' => by cases hb'; exact hins _⟩
      | object k => exact ⟨rfl, fun b' hb' => by cases hb'; exact hb⟩
      | interface k => exact ⟨rfl, fun b' hb' => by cases hb'; exact hb⟩
      | union k => exact ⟨rfl, fun b' hb' => by cases hb'; exact hb⟩

/-- **`usedInputIds`**: above the fuel `collectVar` passes, the result is fuel independent — for every
    schema, every state of the used set and every input; no hypothesis (ids out of range are errors) -/
theorem usedInputIds_fuel_indep (s : Schema) (u : UsedTypes) (i : StoredInput) :
    ∀ fuel, s.inputs.length + 1 ≤ fuel →
      usedInputIds s fuel u i = usedInputIds s (s.inputs.length + 1) u i := by
  intro fuel h
  have : C02.unseenInputs s u ≤ s.inputs.length := C02.unseen_le_n _ _
  exact usedInputIds_fuel_eq s _ _ u i (by omega) (by omega)

/-- `collectVar` with any larger fuel is `collectVar` -/
theorem collectVar_fuel_indep (s : Schema) (u : UsedTypes) (v : RVariable) :
    ∀ fuel, s.inputs.length + 1 ≤ fuel →
      (match v.ty.id with
        | .input iid => do
          let i ← s.getInput iid
          usedInputIds s fuel (u.insertType v.ty.id) i
        | .scalar _ | .enum _ => pure (u.insertType v.ty.id)
        | _ => pure u) = collectVar s u v := by
  intro fuel h
  unfold collectVar
  cases hid : v.ty.id with
  | input iid =>
    simp only
    cases hi : s.getInput iid with
    | error e => rfl
    | ok i => simp only [bind, Except.bind]; exact usedInputIds_fuel_indep s _ i fuel h
  | _ => rfl

/-- **`allUsedTypes`** computed with any larger fuels (selection walk `≥ walkFuel q`, input walk
    `≥ #inputs + 1`) is `allUsedTypes`: neither fuel of the used-types computation is ever felt -/
theorem allUsedTypes_fuel_indep (s : Schema) (q : Query) (op : Nat) :
    ∀ fuel, walkFuel q ≤ fuel →
      (do let o ← q.getOperation op
          let u ← o.sels.foldlM (collectSel s q fuel) {}
          (q.opVariables op).foldlM (collectVar s) u) = allUsedTypes s q op := by
  intro fuel h
  unfold allUsedTypes
  cases ho : q.getOperation op with
  | error e => rfl
  | ok o =>
    simp only [bind, Except.bind]
    have hmem : o ∈ q.operations := List.mem_of_getElem? (C02.getOperation_ok ho)
    rw [collectSels_fuel_indep s q o.sels (C02.op_depth_le q o hmem) fuel h]

/-! ## 7. `Codegen.containsWithoutIndirection` (fuel `#inputs + 1`; visited set keyed by *name*) -/

theorem cwi_mono (s : Schema) (target : Nat) : ∀ (fuel : Nat) (visited : List String) (input : StoredInput),
    ∀ v ∈ visited, v ∈ (containsWithoutIndirection s target fuel visited input).2 := by
  intro fuel
  induction fuel with
  | zero => intro visited input v hv; rw [containsWithoutIndirection]; exact hv
  | succ n ih =>
    intro visited input v hv
    rw [C12Graph.cwi_succ]
    refine foldl_snd_mono _ input.fields ?_ (false, input.name :: visited) v (List.mem_cons_of_mem _ hv)
    intro acc x _ w hw
    unfold C12Graph.cwiStep
    split
    · exact hw
    · split
      · exact hw
      · split
        · exact hw
        · split
          · exact hw
          · split
            · exact hw
            · split
              · exact hw
              · exact ih _ _ w hw

theorem containsWithoutIndirection_fuel_eq (s : Schema) (target : Nat) :
    ∀ (fuel fuel' : Nat) (visited : List String) (input : StoredInput),
      C12Graph.remaining s (input.name :: visited) < fuel →
      C12Graph.remaining s (input.name :: visited) < fuel' →
      containsWithoutIndirection s target fuel visited input =
        containsWithoutIndirection s target fuel' visited input := by
  intro fuel
  induction fuel with
  | zero => intro _ _ _ h; omega
  | succ n ih =>
    intro fuel' visited input h1 h2
    cases fuel' with
    | zero => omega
    | succ m =>
      rw [C12Graph.cwi_succ, C12Graph.cwi_succ]
      refine foldl_congr_inv _ _ (fun acc => ∀ v ∈ input.name :: visited, v ∈ acc.2) input.fields ?_
        (false, input.name :: visited) (fun _ h => h)
      intro acc x _ hinv
      refine ⟨?_, fun v hv => ?_⟩
      · unfold C12Graph.cwiStep
        cases h1' : acc.1 <;> simp only [Bool.false_eq_true, ↓reduceIte]
        cases h2' : x.2.isIndirected <;> simp only [Bool.false_eq_true, ↓reduceIte]
        cases h3' : x.2.id.asInput? with
        | none => rfl
        | some fid =>
          simp only
          cases h4' : (fid == target) <;> simp only [Bool.false_eq_true, ↓reduceIte]
          cases hi : s.inputs[fid]? with
          | none => rfl
          | some i =>
            simp only
            cases hc : acc.2.contains i.name <;> simp only [Bool.false_eq_true, ↓reduceIte]
            have hv : i.name ∉ acc.2 := by simpa using hc
            have hdec := C12Graph.remaining_decreases s acc.2 fid i hi hv
            have hle := C12Graph.remaining_mono s hinv
            exact ih m acc.2 i (by omega) (by omega)
      · have hstep : ∀ w ∈ acc.2, w ∈ (C12Graph.cwiStep s target n acc x).2 := by
          intro w hw
          unfold C12Graph.cwiStep
          split
          · exact hw
          · split
            · exact hw
            · split
              · exact hw
              · split
                · exact hw
                · split
                  · exact hw
                  · split
                    · exact hw
                    · exact cwi_mono s target _ _ _ w hw
        exact hstep v (hinv v hv)

/-- **`containsWithoutIndirection`**: above the fuel `inputIsRecursive` passes, the result (verdict
    *and* visited set) is fuel independent — for every schema, target, visited set and input; no
    hypothesis, although the visited set is keyed by name (duplicate names and ids out of range included) -/
theorem containsWithoutIndirection_fuel_indep (s : Schema) (target : Nat) (visited : List String)
    (input : StoredInput) :
    ∀ fuel, s.inputs.length + 1 ≤ fuel →
      containsWithoutIndirection s target fuel visited input =
        containsWithoutIndirection s target (s.inputs.length + 1) visited input := by
  intro fuel h
  have h1 : C12Graph.remaining s (input.name :: visited) ≤ s.inputs.length := by
    have := C12Graph.remaining_mono s (v := []) (v' := input.name :: visited) (fun _ h => by cases h)
    rw [C12Graph.remaining_nil] at this
    exact this
  exact containsWithoutIndirection_fuel_eq s target _ _ visited input (by omega) (by omega)

/-- `inputIsRecursive` is the fuel-free verdict -/
theorem inputIsRecursive_fuel_indep (s : Schema) (iid : Nat) :
    ∀ fuel, s.inputs.length + 1 ≤ fuel →
      (match s.inputs[iid]? with
        | none => false
        | some i => (containsWithoutIndirection s iid fuel [] i).1) = inputIsRecursive s iid := by
  intro fuel h
  unfold inputIsRecursive
  cases hf : s.inputs[iid]? with
  | none => rfl
  | some i =>
    simp only
    rw [containsWithoutIndirection_fuel_indep s iid [] i fuel h]

/-! ## 8. the side condition is needed; the theorems apply to cyclic documents; a spec-side walk that
is *not* fuel independent -/

/-- `rootFieldCount` / `reachesFragment` / `collectSel` on a selection set that is **deeper** than every
    body of `q` (never passed by the model): the fuel formula does not cover it, the result changes -/
theorem depth_hypothesis_needed :
    let q : Query := {}
    let deep : List Sel := [.inline (.object 0) [.inline (.object 0) [.inline (.object 0) [.typename, .spread 0]]]]
    depthFuel q = 3 ∧ walkFuel q = 3 ∧
    rootFieldCount q 3 [] deep = (0, []) ∧ rootFieldCount q 4 [] deep = (1, []) ∧
    reachesFragment q 0 3 [] deep = (false, []) ∧ reachesFragment q 0 4 [] deep = (true, []) := by
  decide

/-- `F0 { f { ...F1 } }`, `F1 { __typename ... on T { ...F0 } }`, `F2 { ...F0 }`; `query { ...F2 g }` -/
def cyc : Query :=
  { fragments := [ { name := "F0", on := .object 0, sels := [.field none 0 [.spread 1]] },
                   { name := "F1", on := .object 0, sels := [.typename, .inline (.object 0) [.spread 0]] },
                   { name := "F2", on := .object 0, sels := [.spread 0] } ],
    operations := [ { name := "Q", kind := .subscription, objectId := 0, sels := [.spread 2, .field none 1 []] } ] }

example : ∀ fuel, depthFuel cyc ≤ fuel → (rootFieldCount cyc fuel [] [.spread 2, .field none 1 []]).1 = 2 := by
  intro fuel h
  have := rootFieldCount_fuel_indep_op cyc _ (List.mem_singleton.mpr rfl) fuel h
  simp only at this
  rw [this]; decide

example : ∀ fuel, walkFuel cyc ≤ fuel →
    (match cyc.fragments[0]? with
      | none => false
      | some f => (reachesFragment cyc 0 fuel [] f.sels).1) = true := by
  intro fuel h
  rw [fragmentIsRecursive_fuel_indep cyc 0 fuel h]; decide

/-- **a walk of the model whose result does change above the fuel it is given** — on the *specification*
    side (`Valid.rootKeys`, no visited set, fuel `(#fragments+1)·(depth+1)+1` in `Valid.validDef`): on the
    cyclic fragment `fragment F on S { a ...F }` the key list keeps growing with the fuel.  `validDef`
    only looks at `eraseDups` of it (the set of keys, here `{a}` at both fuels); the set, and with it the
    verdict of the rule, *is* fuel independent: `C17F.rootKeys_mem_fuel_indep`,
    `C17F.validDef_subscription_fuel_indep` in `C17FuelSpec.lean`. -/
theorem rootKeys_not_fuel_indep :
    let ft : List (String × String × List QSel) := [("F", "S", [.field none "a" [], .spread "F"])]
    let sels : List QSel := [.spread "F"]
    let F := (ft.length + 1) * (Valid.qselsDepth sels + 1) + 1
    Valid.rootKeys ft F sels = ["a", "a", "a", "a"] ∧ Valid.rootKeys ft (F + 1) sels = ["a", "a", "a", "a", "a"] ∧
    (Valid.rootKeys ft F sels).eraseDups = (Valid.rootKeys ft (F + 1) sels).eraseDups := by
  decide

end C17F
end GqlVerif
