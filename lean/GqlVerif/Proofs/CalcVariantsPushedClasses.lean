import GqlVerif.Proofs.CalcVariantsPushed
import GqlVerif.Proofs.C01VariantSpreadF
/-!
# P41 — on the existing classes the new alias-or-struct decision is the old one

The classes whose operations reach `calcVariants` with selections on a variant are `VariantOp` (`vSel` / `vSels`,
`Proofs/C01AbstractA.lean`), `VariantSpreadOp` (`sSel` / `sSels`, `Proofs/C01VariantSpreadA.lean`) and `VariantSpreadOp2`
(`sSels` of the normalized selection set, `Proofs/C01VariantSpreadF.lean`).  (`TreeOp`, `FragmentOp`, `MixedOp`,
`RecFragmentOp` and the `deny` classes `TreeOpD` / `FragOpD` built on them have object positions only: no variant struct.)
Each of the three selection predicates carries, for every field selection, the conjunct
`!(sf.deprecation.isSome && o.deprecation == .deny)` — which is `selDenied c x = false`.  So `Pushed.noDeniedV` holds for the
variant selections these classes hand to `calcVariants`, and there `pushedAny c.q vt mine = !r.1.isEmpty`
(`Pushed.pushedAny_eq_of_noDenied`): "some field was pushed" is "some field is rendered".

* `vSels_not_denied`, `sSels_not_denied`, `normSels_not_denied` — no denied field in a selection set of the class;
* `noDeniedV_vselsOf` (`VariantOp`), `noDeniedV_vselsOfS` (`VariantSpreadOp`), `noDeniedV_vselsOfS_norm`
  (`VariantSpreadOp2`) — for the selections on any variant (`List.filter`);
* `variantOp_decision`, `variantSpreadOp_decision`, `variantSpreadOp2_decision` — the decision of `calcVariants` on them.
-/
set_option linter.unusedVariables false
set_option linter.unusedSimpArgs false
namespace GqlVerif
namespace Pushed
open Codegen C01.E2E

theorem selDenied_field {c : Ctx} {a : Option String} {fid : Nat} {sub : List Sel} {sf : StoredField}
    (hsf : c.s.fields[fid]? = some sf) (h : (!(sf.deprecation.isSome && c.o.deprecation == .deny)) = true) :
    selDenied c (.field a fid sub) = false := by
  simp only [selDenied, hsf, denied]
  cases hd : (sf.deprecation.isSome && c.o.deprecation == .deny) with
  | false => rfl
  | true => rw [hd] at h; cases h

/-- a selection of `VariantOp` is not a denied field -/
theorem vSel_not_denied {c : Ctx} {abs : Bool} {x : Sel} (h : vSel c.s c.o abs x = true) : selDenied c x = false := by
  cases x with
  | field a fid sub =>
    rw [vSel] at h
    cases hsf : c.s.fields[fid]? with
    | none => simp [hsf] at h
    | some sf =>
      simp only [hsf, Bool.and_eq_true] at h
      exact selDenied_field hsf h.1.2
  | _ => rfl

theorem vSels_not_denied {c : Ctx} {abs : Bool} {sels : List Sel} (h : vSels c.s c.o abs sels = true) :
    sels.any (selDenied c) = false := by
  rw [List.any_eq_false]
  intro x hx
  simp [vSel_not_denied (vSels_mem h x hx)]

/-- a selection of `VariantSpreadOp` is not a denied field -/
theorem sSel_not_denied {c : Ctx} {abs : Bool} {x : Sel} (h : sSel c.s c.q c.o abs x = true) : selDenied c x = false := by
  cases x with
  | field a fid sub =>
    rw [sSel] at h
    cases hsf : c.s.fields[fid]? with
    | none => simp [hsf] at h
    | some sf =>
      simp only [hsf, Bool.and_eq_true] at h
      exact selDenied_field hsf h.1.2
  | _ => rfl

theorem sSels_not_denied {c : Ctx} {abs : Bool} {sels : List Sel} (h : sSels c.s c.q c.o abs sels = true) :
    sels.any (selDenied c) = false := by
  rw [List.any_eq_false]
  intro x hx
  simp [sSel_not_denied (sSels_mem h x hx)]

theorem noDeniedV_filter {c : Ctx} {mine : List VariantSel} (p : VariantSel → Bool) (h : noDeniedV c mine = true) :
    noDeniedV c (mine.filter p) = true := by
  simp only [noDeniedV, List.all_eq_true] at h ⊢
  exact fun v hv => h v (List.mem_filter.mp hv).1

/-- **`VariantOp`**: nothing denied among the selections on a variant -/
theorem noDeniedV_vselsOf {c : Ctx} {sels : List Sel} (h : vSels c.s c.o true sels = true) :
    noDeniedV c (vselsOf sels) = true := by
  simp only [noDeniedV, List.all_eq_true]
  intro v hv
  obtain ⟨x, hx, hxv⟩ := List.mem_filterMap.mp hv
  cases x with
  | inline t sub =>
    simp only [vselOf, Option.some.injEq] at hxv
    subst hxv
    have := vSels_mem h _ hx
    simp only [vSel, Bool.and_eq_true] at this
    simp [vSels_not_denied this.1.2]
  | _ => simp [vselOf] at hxv

/-- **`VariantSpreadOp`**: nothing denied among the selections on a variant -/
theorem noDeniedV_vselsOfS {c : Ctx} {ty : TypeId} {sels : List Sel} (h : sSels c.s c.q c.o true sels = true) :
    noDeniedV c (vselsOfS c.q ty sels) = true := by
  simp only [noDeniedV, List.all_eq_true]
  intro v hv
  obtain ⟨x, hx, hxv⟩ := List.mem_filterMap.mp hv
  cases x with
  | inline t sub =>
    simp only [vselOfS, Option.some.injEq] at hxv
    subst hxv
    have := sSels_mem h _ hx
    simp only [sSel, Bool.and_eq_true] at this
    simp [sSels_not_denied this.1.2]
  | spread g =>
    simp only [vselOfS] at hxv
    cases hfr : c.q.fragments[g]? with
    | none => simp [hfr] at hxv
    | some f =>
      simp only [hfr] at hxv
      split at hxv
      · cases hxv
      · simp only [Option.some.injEq] at hxv
        subst hxv; rfl
  | field a fid sub => simp [vselOfS] at hxv
  | typename => simp [vselOfS] at hxv

/-- whether a selection is a denied field does not depend on what is selected below it -/
theorem selDenied_normSel (c : Ctx) (x : Sel) : selDenied c (normSel x) = selDenied c x := by
  cases x with
  | field a fid sub => rw [normSel_field]; rfl
  | inline t sub => rw [normSel_inline]; rfl
  | spread g => rw [normSel]
  | typename => rw [normSel]

/-- **`VariantSpreadOp2`** (the class is stated on the normalized selection set): nothing denied in the selection set as
    written -/
theorem normSels_not_denied {c : Ctx} {abs : Bool} {sels : List Sel}
    (h : sSels c.s c.q c.o abs (normSels sels) = true) : sels.any (selDenied c) = false := by
  rw [List.any_eq_false]
  intro x hx
  cases ha : aliasInl x with
  | some g =>
    obtain ⟨t, rfl⟩ := aliasInl_some ha
    simp [selDenied]
  | none =>
    have hm : normSel x ∈ normSels sels := List.mem_append_left _ (mem_keepN_of hx ha)
    have := sSel_not_denied (sSels_mem h _ hm)
    rw [selDenied_normSel] at this
    simp [this]

theorem noDeniedV_vselsOfS_norm {c : Ctx} {ty : TypeId} {sels : List Sel}
    (h : sSels c.s c.q c.o true (normSels sels) = true) : noDeniedV c (vselsOfS c.q ty sels) = true := by
  simp only [noDeniedV, List.all_eq_true]
  intro v hv
  obtain ⟨x, hx, hxv⟩ := List.mem_filterMap.mp hv
  cases x with
  | inline t sub =>
    simp only [vselOfS, Option.some.injEq] at hxv
    subst hxv
    cases ha : aliasInl (Sel.inline t sub) with
    | some g =>
      obtain ⟨t', he⟩ := aliasInl_some ha
      cases he
      simp [selDenied]
    | none =>
      have hm : normSel (.inline t sub) ∈ normSels sels := List.mem_append_left _ (mem_keepN_of hx ha)
      have := sSels_mem h _ hm
      rw [normSel_inline] at this
      simp only [sSel, Bool.and_eq_true] at this
      simp [normSels_not_denied this.1.2]
  | spread g =>
    simp only [vselOfS] at hxv
    cases hfr : c.q.fragments[g]? with
    | none => simp [hfr] at hxv
    | some f =>
      simp only [hfr] at hxv
      split at hxv
      · cases hxv
      · simp only [Option.some.injEq] at hxv
        subst hxv; rfl
  | field a fid sub => simp [vselOfS] at hxv
  | typename => simp [vselOfS] at hxv

/-! ## the decision on the three classes -/

/-- **`VariantOp`**: at an abstract position of the class, for every variant `vt`, `has_fields` of the variant struct is
    "some field is rendered": the decision of `calcVariants` is the one the model took before P41 -/
theorem variantOp_decision {c : Ctx} {sels : List Sel} (h : vSels c.s c.o true sels = true) (vt : TypeId)
    {fuel : Nat} {sname pfx : String} {r : List RField × List Item × List Item}
    (hr : calcVariantSels c fuel sname pfx vt ((vselsOf sels).filter (fun v => v.typeId == vt)) = .ok r) :
    pushedAny c.q vt ((vselsOf sels).filter (fun v => v.typeId == vt)) = !r.1.isEmpty :=
  pushedAny_eq_of_noDenied hr (noDeniedV_filter _ (noDeniedV_vselsOf h))

/-- **`VariantSpreadOp`**: the same -/
theorem variantSpreadOp_decision {c : Ctx} {ty : TypeId} {sels : List Sel} (h : sSels c.s c.q c.o true sels = true)
    (vt : TypeId) {fuel : Nat} {sname pfx : String} {r : List RField × List Item × List Item}
    (hr : calcVariantSels c fuel sname pfx vt ((vselsOfS c.q ty sels).filter (fun v => v.typeId == vt)) = .ok r) :
    pushedAny c.q vt ((vselsOfS c.q ty sels).filter (fun v => v.typeId == vt)) = !r.1.isEmpty :=
  pushedAny_eq_of_noDenied hr (noDeniedV_filter _ (noDeniedV_vselsOfS h))

/-- **`VariantSpreadOp2`**: the same (the class hypothesis is on the normalized selection set) -/
theorem variantSpreadOp2_decision {c : Ctx} {ty : TypeId} {sels : List Sel}
    (h : sSels c.s c.q c.o true (normSels sels) = true)
    (vt : TypeId) {fuel : Nat} {sname pfx : String} {r : List RField × List Item × List Item}
    (hr : calcVariantSels c fuel sname pfx vt ((vselsOfS c.q ty sels).filter (fun v => v.typeId == vt)) = .ok r) :
    pushedAny c.q vt ((vselsOfS c.q ty sels).filter (fun v => v.typeId == vt)) = !r.1.isEmpty :=
  pushedAny_eq_of_noDenied hr (noDeniedV_filter _ (noDeniedV_vselsOfS_norm h))

end Pushed
end GqlVerif
