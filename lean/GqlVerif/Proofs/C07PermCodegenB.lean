import GqlVerif.Proofs.C07PermCodegenA
import GqlVerif.Proofs.C02Closure
/-!
# C07 / P31 (part B) — `ItemsPerm`, and the order-insensitive parts of code generation under a type renumbering

* `ItemsPerm` — two item lists are equal up to the order of the items and, inside every tagged enum, the order of
  its variants (inductive closure; `itemsPerm_iff_itemsEqv`: it is the relation `C07.ItemsEqv` in which
  `C07.CodegenIsoPermStatement` is phrased);
* `ResF R x y` — "if `x` succeeds then `y` runs out of fuel or succeeds with an `R`-related result", the shape in which
  the fuel-indexed `calc*` block is compared (`ResF.bind`), `Res0` — the same without the fuel escape;
* the used-types walk commutes with the renumbering (`allUsedTypes_tiso`, an equality, errors included);
* `scalarItems_tiso`, `enumItems_tiso`, `inputItems_tiso` — the emitted scalar aliases / enums / input types are
  permutations of each other (they are emitted in id order, resp. table order); `variablesItems_tiso` — equal.
-/
set_option linter.unusedSectionVars false
set_option linter.unusedVariables false
set_option linter.unusedSimpArgs false

namespace GqlVerif
namespace C07P
open Resolve Codegen C07

/-! ## `ItemsPerm` -/

theorem itemEqv_symm {x y : Item} (h : ItemEqv x y) : ItemEqv y x := by
  cases h with
  | refl => exact .refl _
  | tagged n d c tag hp => exact .tagged n d c tag hp.symm

theorem itemEqv_trans {x y z : Item} (h1 : ItemEqv x y) (h2 : ItemEqv y z) : ItemEqv x z := by
  cases h1 with
  | refl => exact h2
  | tagged n d c tag hp =>
    generalize hy : Item.tagged n d c tag _ = y at h2
    cases h2 with
    | refl => subst hy; exact .tagged n d c tag hp
    | tagged n' d' c' tag' hp' =>
      cases hy
      exact .tagged n d c tag (hp.trans hp')

/-- equal up to the order of the items and of the variants of each tagged enum -/
inductive ItemsPerm : List Item → List Item → Prop
  | nil : ItemsPerm [] []
  | cons {x y : Item} {l l' : List Item} : ItemEqv x y → ItemsPerm l l' → ItemsPerm (x :: l) (y :: l')
  | swap (x y : Item) (l : List Item) : ItemsPerm (y :: x :: l) (x :: y :: l)
  | trans {a b c : List Item} : ItemsPerm a b → ItemsPerm b c → ItemsPerm a c

namespace ItemsPerm

theorem refl : ∀ l : List Item, ItemsPerm l l
  | [] => .nil
  | x :: l => .cons (.refl x) (refl l)

theorem of_eq {l l' : List Item} (h : l = l') : ItemsPerm l l' := h ▸ refl l

theorem of_perm {l l' : List Item} (h : l.Perm l') : ItemsPerm l l' := by
  induction h with
  | nil => exact .nil
  | cons x _ ih => exact .cons (.refl x) ih
  | swap x y l => exact .swap x y l
  | trans _ _ ih1 ih2 => exact .trans ih1 ih2

theorem symm {l l' : List Item} (h : ItemsPerm l l') : ItemsPerm l' l := by
  induction h with
  | nil => exact .nil
  | cons hx _ ih => exact .cons (itemEqv_symm hx) ih
  | swap x y l => exact .swap y x l
  | trans _ _ ih1 ih2 => exact .trans ih2 ih1

theorem append_right {l l' : List Item} (h : ItemsPerm l l') (m : List Item) : ItemsPerm (l ++ m) (l' ++ m) := by
  induction h with
  | nil => exact refl m
  | cons hx _ ih => exact .cons hx ih
  | swap x y l => exact .swap x y (l ++ m)
  | trans _ _ ih1 ih2 => exact .trans ih1 ih2

theorem append_left (m : List Item) {l l' : List Item} (h : ItemsPerm l l') : ItemsPerm (m ++ l) (m ++ l') := by
  induction m with
  | nil => exact h
  | cons x m ih => exact .cons (.refl x) ih

theorem append {a a' b b' : List Item} (h1 : ItemsPerm a a') (h2 : ItemsPerm b b') : ItemsPerm (a ++ b) (a' ++ b') :=
  .trans (append_right h1 b) (append_left a' h2)

theorem length_eq {l l' : List Item} (h : ItemsPerm l l') : l.length = l'.length := by
  induction h with
  | nil => rfl
  | cons _ _ ih => simp [ih]
  | swap => simp
  | trans _ _ ih1 ih2 => exact ih1.trans ih2

end ItemsPerm

theorem allRel_refl : ∀ l : List Item, AllRel ItemEqv l l
  | [] => .nil
  | x :: l => .cons (.refl x) (allRel_refl l)

theorem allRel_trans {a b c : List Item} (h1 : AllRel ItemEqv a b) : AllRel ItemEqv b c → AllRel ItemEqv a c := by
  induction h1 generalizing c with
  | nil => intro h2; cases h2; exact .nil
  | cons hx _ ih =>
    intro h2
    cases h2 with
    | cons hy h2 => exact .cons (itemEqv_trans hx hy) (ih h2)

/-- a permutation followed by an elementwise change is an elementwise change followed by a permutation -/
theorem perm_allRel_comm {m b : List Item} (hp : m.Perm b) :
    ∀ {n : List Item}, AllRel ItemEqv b n → ∃ m', AllRel ItemEqv m m' ∧ m'.Perm n := by
  induction hp with
  | nil => intro n hn; cases hn; exact ⟨[], .nil, .nil⟩
  | cons x _ ih =>
    intro n hn
    cases hn with
    | cons hx hn =>
      obtain ⟨m', h1, h2⟩ := ih hn
      exact ⟨_ :: m', .cons hx h1, h2.cons _⟩
  | swap x y l =>
    intro n hn
    cases hn with
    | cons hx hn =>
      cases hn with
      | cons hy hn => exact ⟨_ :: _ :: _, .cons hy (.cons hx hn), .swap _ _ _⟩
  | trans _ _ ih1 ih2 =>
    intro n hn
    obtain ⟨m2, h1, h2⟩ := ih2 hn
    obtain ⟨m1, h3, h4⟩ := ih1 h1
    exact ⟨m1, h3, h4.trans h2⟩

theorem itemsPerm_of_allRel {l m : List Item} (h : AllRel ItemEqv l m) : ItemsPerm l m := by
  induction h with
  | nil => exact .nil
  | cons hx _ ih => exact .cons hx ih

/-- `ItemsPerm` is the relation `C07.ItemsEqv` of `C07.CodegenIsoPermStatement` -/
theorem itemsPerm_iff_itemsEqv (l l' : List Item) : ItemsPerm l l' ↔ ItemsEqv l l' := by
  constructor
  · intro h
    induction h with
    | nil => exact ⟨[], .nil, .nil⟩
    | cons hx _ ih =>
      obtain ⟨m, h1, h2⟩ := ih
      exact ⟨_ :: m, .cons hx h1, h2.cons _⟩
    | swap x y l => exact ⟨y :: x :: l, allRel_refl _, .swap _ _ _⟩
    | trans _ _ ih1 ih2 =>
      obtain ⟨m1, h1, h2⟩ := ih1
      obtain ⟨m2, h3, h4⟩ := ih2
      obtain ⟨m', h5, h6⟩ := perm_allRel_comm h2 h3
      exact ⟨m', allRel_trans h1 h5, h6.trans h4⟩
  · rintro ⟨m, h1, h2⟩
    exact .trans (itemsPerm_of_allRel h1) (.of_perm h2)

/-- blockwise: lists of blocks related one by one -/
theorem itemsPerm_flatten {α} (l : List α) (f g : α → List Item) (h : ∀ x ∈ l, ItemsPerm (f x) (g x)) :
    ItemsPerm (l.map f).flatten (l.map g).flatten := by
  induction l with
  | nil => exact .nil
  | cons x l ih =>
    simp only [List.map_cons, List.flatten_cons]
    exact ItemsPerm.append (h x (by simp)) (ih fun y hy => h y (by simp [hy]))

/-! ## comparing outcomes -/

/-- out of fuel (any of the model's `unmodelled` errors) -/
def OOF {α} (y : Outcome α) : Prop := ∃ w, y = .error (.unmodelled w)

/-- if `x` succeeds then `y` runs out of fuel or succeeds with a related result -/
def ResF {α β} (Rel : α → β → Prop) (x : Outcome α) (y : Outcome β) : Prop :=
  ∀ a, x = .ok a → OOF y ∨ ∃ b, y = .ok b ∧ Rel a b

/-- if `x` succeeds then `y` succeeds with a related result -/
def Res0 {α β} (Rel : α → β → Prop) (x : Outcome α) (y : Outcome β) : Prop :=
  ∀ a, x = .ok a → ∃ b, y = .ok b ∧ Rel a b

theorem Res0.resF {α β} {Rel : α → β → Prop} {x : Outcome α} {y : Outcome β} (h : Res0 Rel x y) : ResF Rel x y :=
  fun a ha => .inr (h a ha)

theorem ResF.res0 {α β} {Rel : α → β → Prop} {x : Outcome α} {y : Outcome β} (h : ResF Rel x y)
    (hc : ∀ w, y ≠ .error (.unmodelled w)) : Res0 Rel x y := by
  intro a ha
  rcases h a ha with ⟨w, hw⟩ | hb
  · exact absurd hw (hc w)
  · exact hb

theorem ResF.bind {α β α' β'} {Rel : α → β → Prop} {S : α' → β' → Prop} {x : Outcome α} {y : Outcome β}
    {f : α → Outcome α'} {g : β → Outcome β'} (hxy : ResF Rel x y) (hfg : ∀ a b, Rel a b → ResF S (f a) (g b)) :
    ResF S (x >>= f) (y >>= g) := by
  intro c hc
  obtain ⟨a, ha, hfa⟩ := C02.bind_ok hc
  rcases hxy a ha with ⟨w, hw⟩ | ⟨b, hb, hab⟩
  · left; exact ⟨w, by rw [hw]; rfl⟩
  · rw [hb]
    exact hfg a b hab c hfa

theorem Res0.bind {α β α' β'} {Rel : α → β → Prop} {S : α' → β' → Prop} {x : Outcome α} {y : Outcome β}
    {f : α → Outcome α'} {g : β → Outcome β'} (hxy : Res0 Rel x y) (hfg : ∀ a b, Rel a b → Res0 S (f a) (g b)) :
    Res0 S (x >>= f) (y >>= g) := by
  intro c hc
  obtain ⟨a, ha, hfa⟩ := C02.bind_ok hc
  obtain ⟨b, hb, hab⟩ := hxy a ha
  rw [hb]
  exact hfg a b hab c hfa

theorem ResF.pure {α β} {Rel : α → β → Prop} {a : α} {b : β} (h : Rel a b) :
    ResF Rel (Pure.pure a : Outcome α) (Pure.pure b) := by
  intro a' ha'
  cases ha'
  exact .inr ⟨b, rfl, h⟩

theorem Res0.pure {α β} {Rel : α → β → Prop} {a : α} {b : β} (h : Rel a b) :
    Res0 Rel (Pure.pure a : Outcome α) (Pure.pure b) := by
  intro a' ha'
  cases ha'
  exact ⟨b, rfl, h⟩

theorem Res0.of_map {α β} {x : Outcome α} {y : Outcome β} (φ : α → β) (h : y = x.map φ) :
    Res0 (fun a b => b = φ a) x y := by
  intro a ha
  subst ha
  exact ⟨φ a, h, rfl⟩

theorem Res0.of_eq {α} {x y : Outcome α} (h : y = x) : Res0 (fun a b => b = a) x y := by
  intro a ha
  subst ha
  exact ⟨a, h, rfl⟩

theorem ResF.of_map {α β} {x : Outcome α} {y : Outcome β} (φ : α → β) (h : y = x.map φ) :
    ResF (fun a b => b = φ a) x y := (Res0.of_map φ h).resF

theorem ResF.of_eq {α} {x y : Outcome α} (h : y = x) : ResF (fun a b => b = a) x y := (Res0.of_eq h).resF

theorem ResF.error {α β} {Rel : α → β → Prop} (e : Err) (y : Outcome β) : ResF Rel (.error e : Outcome α) y := by
  intro a ha; cases ha

theorem ResF.mono {α β} {Rel S : α → β → Prop} {x : Outcome α} {y : Outcome β} (h : ResF Rel x y)
    (hi : ∀ a b, Rel a b → S a b) : ResF S x y := by
  intro a ha
  rcases h a ha with hw | ⟨b, hb, hab⟩
  · exact .inl hw
  · exact .inr ⟨b, hb, hi a b hab⟩

theorem Res0.mono {α β} {Rel S : α → β → Prop} {x : Outcome α} {y : Outcome β} (h : Res0 Rel x y)
    (hi : ∀ a b, Rel a b → S a b) : Res0 S x y := by
  intro a ha
  obtain ⟨b, hb, hab⟩ := h a ha
  exact ⟨b, hb, hi a b hab⟩

/-! ## generic list lemmas -/

theorem foldlM_map_comm {α α' β β' : Type} (φ : β → β') (ψ : α → α') (f : β → α → Outcome β)
    (f' : β' → α' → Outcome β') (l : List α) (hf : ∀ b, ∀ x ∈ l, f' (φ b) (ψ x) = (f b x).map φ) :
    ∀ b, (l.map ψ).foldlM f' (φ b) = (l.foldlM f b).map φ := by
  induction l with
  | nil => intro b; rfl
  | cons x l ih =>
    intro b
    simp only [List.map_cons, List.foldlM_cons, hf b x (by simp)]
    cases f b x with
    | error e => rfl
    | ok b1 => exact ih (fun b y hy => hf b y (by simp [hy])) b1

theorem mapM_perm_ok {α β : Type} (f : α → Outcome β) {l l' : List α} (hp : l'.Perm l) :
    ∀ {r : List β}, l.mapM f = .ok r → ∃ r', l'.mapM f = .ok r' ∧ r'.Perm r := by
  induction hp with
  | nil => intro r h; exact ⟨r, h, .refl _⟩
  | cons x _ ih =>
    intro r h
    rw [List.mapM_cons] at h
    obtain ⟨y, hy, h⟩ := C02.bind_ok h
    obtain ⟨ys, hys, h⟩ := C02.bind_ok h
    cases h
    obtain ⟨r', h1, h2⟩ := ih hys
    refine ⟨y :: r', ?_, h2.cons y⟩
    rw [List.mapM_cons, hy, h1]; rfl
  | swap x y l =>
    intro r h
    rw [List.mapM_cons, List.mapM_cons] at h
    obtain ⟨a, ha, h⟩ := C02.bind_ok h
    obtain ⟨bs, hbs, h⟩ := C02.bind_ok h
    cases h
    obtain ⟨b, hb, hbs⟩ := C02.bind_ok hbs
    obtain ⟨cs, hcs, hbs⟩ := C02.bind_ok hbs
    cases hbs
    refine ⟨b :: a :: cs, ?_, .swap _ _ _⟩
    rw [List.mapM_cons, List.mapM_cons, hb, ha, hcs]; rfl
  | trans _ _ ih1 ih2 =>
    intro r h
    obtain ⟨r1, h1, h2⟩ := ih2 h
    obtain ⟨r2, h3, h4⟩ := ih1 h1
    exact ⟨r2, h3, h4.trans h2⟩

theorem mapM_map_eq {α α' β : Type} (ψ : α → α') (f : α → Outcome β) (f' : α' → Outcome β) (l : List α)
    (hf : ∀ x ∈ l, f' (ψ x) = f x) : (l.map ψ).mapM f' = l.mapM f := by
  induction l with
  | nil => rfl
  | cons x l ih =>
    rw [List.map_cons, List.mapM_cons, List.mapM_cons, hf x (by simp), ih fun y hy => hf y (by simp [hy])]

/-! ## `sortNat` -/

theorem ins_sorted (x : Nat) : ∀ l : List Nat, l.Pairwise (· < ·) → (sortNat.ins x l).Pairwise (· < ·)
  | [], _ => by simp [sortNat.ins]
  | y :: ys, h => by
    unfold sortNat.ins
    rw [List.pairwise_cons] at h
    split
    · rename_i hxy
      rw [List.pairwise_cons]
      refine ⟨?_, List.pairwise_cons.2 h⟩
      intro a ha
      simp only [List.mem_cons] at ha
      rcases ha with rfl | ha
      · exact hxy
      · exact Nat.lt_trans hxy (h.1 a ha)
    · split
      · exact List.pairwise_cons.2 h
      · rename_i h1 h2
        rw [List.pairwise_cons]
        refine ⟨?_, ins_sorted x ys h.2⟩
        intro a ha
        rcases (C02.mem_ins x a ys).1 ha with rfl | ha
        · have : ¬ a = y := by simpa using h2
          omega
        · exact h.1 a ha

theorem sortNat_sorted (xs : List Nat) : (sortNat xs).Pairwise (· < ·) := by
  unfold sortNat
  suffices ∀ acc : List Nat, acc.Pairwise (· < ·) →
      (xs.foldl (fun acc x => sortNat.ins x acc) acc).Pairwise (· < ·) from this [] .nil
  induction xs with
  | nil => intro acc h; exact h
  | cons x xs ih => intro acc h; exact ih _ (ins_sorted x acc h)

theorem sortNat_nodup (xs : List Nat) : (sortNat xs).Nodup :=
  (sortNat_sorted xs).imp (fun h => Nat.ne_of_lt h)

theorem sortNat_map_perm (f : Nat → Nat) (hf : ∀ i j, f i = f j → i = j) (xs : List Nat) :
    (sortNat (xs.map f)).Perm ((sortNat xs).map f) := by
  rw [List.perm_ext_iff_of_nodup (sortNat_nodup _)]
  · intro a
    simp only [C02.mem_sortNat, List.mem_map]
  · rw [List.Nodup, List.pairwise_map]
    exact (sortNat_nodup xs).imp (fun h e => h (hf _ _ e))

/-! ## the renumbered context, the used types -/

/-- the context with the renumbered schema and query -/
def tC (R : Ren) (t : Schema) (c : Ctx) : Ctx := { c with s := t, q := tQ R c.q }

@[simp] theorem tC_s (R : Ren) (t : Schema) (c : Ctx) : (tC R t c).s = t := rfl
@[simp] theorem tC_q (R : Ren) (t : Schema) (c : Ctx) : (tC R t c).q = tQ R c.q := rfl
@[simp] theorem tC_o (R : Ren) (t : Schema) (c : Ctx) : (tC R t c).o = c.o := rfl
@[simp] theorem tC_cs (R : Ren) (t : Schema) (c : Ctx) : (tC R t c).cs = c.cs := rfl

theorem renderField_tC (R : Ren) (t : Schema) (c : Ctx) : renderField (tC R t c) = renderField c := rfl
theorem renderType_tC (R : Ren) (t : Schema) (c : Ctx) : renderType (tC R t c) = renderType c := rfl
theorem aliasMember_tC (R : Ren) (t : Schema) (c : Ctx) : aliasMember (tC R t c) = aliasMember c := rfl
theorem enumItem_tC (R : Ren) (t : Schema) (c : Ctx) : enumItem (tC R t c) = enumItem c := rfl

def tU (R : Ren) (u : UsedTypes) : UsedTypes := { types := u.types.map R.tid, fragments := u.fragments }

@[simp] theorem tU_types (R : Ren) (u : UsedTypes) : (tU R u).types = u.types.map R.tid := rfl
@[simp] theorem tU_fragments (R : Ren) (u : UsedTypes) : (tU R u).fragments = u.fragments := rfl

theorem insertType_t {R : Ren} (hR : R.Inj) (u : UsedTypes) (x : TypeId) :
    (tU R u).insertType (R.tid x) = tU R (u.insertType x) := by
  simp only [UsedTypes.insertType, tU_types, hR.contains_tid]
  split <;> rfl

theorem insertType_input {R : Ren} (hR : R.Inj) (u : UsedTypes) (i : Nat) :
    (tU R u).insertType (.input (R.inp i)) = tU R (u.insertType (.input i)) := insertType_t hR u (.input i)
theorem insertType_enum {R : Ren} (hR : R.Inj) (u : UsedTypes) (i : Nat) :
    (tU R u).insertType (.enum (R.en i)) = tU R (u.insertType (.enum i)) := insertType_t hR u (.enum i)
theorem insertType_scalar {R : Ren} (hR : R.Inj) (u : UsedTypes) (i : Nat) :
    (tU R u).insertType (.scalar (R.sc i)) = tU R (u.insertType (.scalar i)) := insertType_t hR u (.scalar i)
theorem contains_input {R : Ren} (hR : R.Inj) (u : UsedTypes) (i : Nat) :
    (tU R u).types.contains (.input (R.inp i)) = u.types.contains (.input i) := hR.contains_tid u.types (.input i)

section
variable {R : Ren} {s t : Schema} (h : TypeIso R s t)
include h

theorem usedInputIds_tiso (fuel : Nat) : ∀ (u : UsedTypes) (i : StoredInput),
    usedInputIds t fuel (tU R u) (R.input i) = (usedInputIds s fuel u i).map (tU R) := by
  induction fuel with
  | zero => intro _ _; rfl
  | succ fuel ih =>
    intro u i
    simp only [usedInputIds, Ren.input_fields]
    apply foldlM_map_comm (tU R) (fun p : String × FieldType => (p.1, R.ft p.2))
    intro b p _
    obtain ⟨n, ⟨id, quals⟩⟩ := p
    simp only [Ren.ft_id]
    cases id with
    | input iid =>
      simp only [Ren.tid_input, contains_input h.inj, insertType_input h.inj]
      split
      · rfl
      · simp only [h.getInput]
        cases s.getInput iid with
        | error e => rfl
        | ok i' =>
          simp only [Except.map, bind, Except.bind, ih]
    | «enum» e =>
      simp only [Ren.tid_enum, insertType_enum h.inj]; rfl
    | scalar e =>
      simp only [Ren.tid_scalar, insertType_scalar h.inj]; rfl
    | object _ => rfl
    | interface _ => rfl
    | union _ => rfl

theorem collectVar_tiso (u : UsedTypes) (v : RVariable) :
    collectVar t (tU R u) (tVar R v) = (collectVar s u v).map (tU R) := by
  obtain ⟨oi, vn, vd, ⟨id, quals⟩⟩ := v
  simp only [collectVar, tVar_ty, Ren.ft_id, h.inputs_length]
  cases id with
  | input iid =>
    simp only [Ren.tid_input, h.getInput, insertType_input h.inj]
    cases s.getInput iid with
    | error e => rfl
    | ok i' =>
      simp only [Except.map, bind, Except.bind, usedInputIds_tiso h]
  | «enum» e =>
    simp only [Ren.tid_enum, insertType_enum h.inj]; rfl
  | scalar e =>
    simp only [Ren.tid_scalar, insertType_scalar h.inj]; rfl
  | object _ => rfl
  | interface _ => rfl
  | union _ => rfl

theorem collectSel_tiso (q : Query) (fuel : Nat) : ∀ (u : UsedTypes) (x : Sel),
    collectSel t (tQ R q) fuel (tU R u) (tSel R x) = (collectSel s q fuel u x).map (tU R) := by
  induction fuel with
  | zero => intro _ _; rfl
  | succ fuel ih =>
    intro u x
    cases x with
    | field a fid sub =>
      simp only [tSel, collectSel, h.getField]
      cases s.getField fid with
      | error e => rfl
      | ok f =>
        simp only [Except.map, bind, Except.bind, Ren.field_ty, Ren.ft_id, insertType_t h.inj, tSels_eq_map]
        exact foldlM_map_comm (tU R) (tSel R) _ _ sub (fun b y _ => ih b y) _
    | inline ty sub =>
      simp only [tSel, collectSel, insertType_t h.inj, tSels_eq_map]
      exact foldlM_map_comm (tU R) (tSel R) _ _ sub (fun b y _ => ih b y) _
    | spread fid =>
      simp only [tSel, collectSel, getFragment_t, tU_fragments]
      split
      · rfl
      · cases q.getFragment fid with
        | error e => rfl
        | ok f =>
          simp only [Except.map, bind, Except.bind, tFrag_sels, tSels_eq_map]
          exact foldlM_map_comm (tU R) (tSel R) _ _ f.sels (fun b y _ => ih b y)
            { u with fragments := fid :: u.fragments }
    | typename => rfl

theorem allUsedTypes_tiso (q : Query) (op : Nat) :
    allUsedTypes t (tQ R q) op = (allUsedTypes s q op).map (tU R) := by
  simp only [allUsedTypes, getOperation_t, walkFuel_t, opVariables_t]
  cases q.getOperation op with
  | error e => rfl
  | ok o =>
    simp only [Except.map, bind, Except.bind, tOp_sels, tSels_eq_map]
    have h1 := foldlM_map_comm (tU R) (tSel R) (collectSel s q (walkFuel q)) (collectSel t (tQ R q) (walkFuel q))
      o.sels (fun b y _ => collectSel_tiso h q _ b y) {}
    rw [show tU R ({} : UsedTypes) = {} from rfl] at h1
    rw [h1]
    cases List.foldlM (collectSel s q (walkFuel q)) {} o.sels with
    | error e => rfl
    | ok u =>
      simp only [Except.map]
      exact foldlM_map_comm (tU R) (tVar R) (collectVar s) (collectVar t) _ (fun b v _ => collectVar_tiso h b v) u

/-! ## recursion tests on input types -/

theorem containsWithoutIndirection_tiso (target fuel : Nat) : ∀ (visited : List String) (i : StoredInput),
    containsWithoutIndirection t (R.inp target) fuel visited (R.input i) =
      containsWithoutIndirection s target fuel visited i := by
  induction fuel with
  | zero => intro _ _; rfl
  | succ fuel ih =>
    intro visited i
    simp only [containsWithoutIndirection, Ren.input_fields, Ren.input_name, List.foldl_map]
    congr 1
    funext acc p
    obtain ⟨n, ⟨id, quals⟩⟩ := p
    simp only [FieldType.isIndirected, Ren.ft_quals, Ren.ft_id]
    cases id with
    | input fid =>
      simp only [Ren.tid_input, TypeId.asInput?, h.inpAt]
      have e : (R.inp fid == R.inp target) = (fid == target) := by
        by_cases hft : fid = target
        · subst hft; simp
        · rw [beq_false_of_ne hft, beq_false_of_ne (fun e => hft (h.inj.inp _ _ e))]
      rw [e]
      cases s.inputs[fid]? with
      | none => rfl
      | some i' => simp only [Option.map_some, Ren.input_name, ih]
    | object _ => rfl
    | scalar _ => rfl
    | interface _ => rfl
    | union _ => rfl
    | «enum» _ => rfl

theorem inputIsRecursive_tiso (iid : Nat) : inputIsRecursive t (R.inp iid) = inputIsRecursive s iid := by
  simp only [inputIsRecursive, h.inpAt, h.inputs_length]
  cases s.inputs[iid]? with
  | none => rfl
  | some i => simp only [Option.map_some, containsWithoutIndirection_tiso h]

end

/-! ## scalar aliases, enums, input types, variables -/

theorem filterMapM_map_eq {α α' β : Type} (ψ : α → α') (f : α → Outcome (Option β)) (f' : α' → Outcome (Option β))
    (l : List α) (hf : ∀ x ∈ l, f' (ψ x) = f x) : (l.map ψ).filterMapM f' = l.filterMapM f := by
  induction l with
  | nil => rfl
  | cons x l ih =>
    rw [List.map_cons, List.filterMapM_cons, List.filterMapM_cons, hf x (by simp),
      ih fun y hy => hf y (by simp [hy])]

theorem filterMapM_map {α α' β : Type} (ψ : α → α') (f' : α' → Outcome (Option β)) (l : List α) :
    (l.map ψ).filterMapM f' = l.filterMapM (fun x => f' (ψ x)) :=
  filterMapM_map_eq ψ _ f' l (fun _ _ => rfl)

theorem forM_map_eq {α α' : Type} (ψ : α → α') (f : α → Outcome PUnit) (f' : α' → Outcome PUnit)
    (l : List α) (hf : ∀ x ∈ l, f' (ψ x) = f x) : (l.map ψ).forM f' = l.forM f := by
  induction l with
  | nil => rfl
  | cons x l ih =>
    have e1 : (ψ x :: l.map ψ).forM f' = (do f' (ψ x); (l.map ψ).forM f') := List.forM_cons ..
    have e2 : (x :: l).forM f = (do f x; l.forM f) := List.forM_cons ..
    rw [List.map_cons, e1, e2, hf x (by simp), ih fun y hy => hf y (by simp [hy])]

theorem filterMap_asScalar_t (R : Ren) (l : List TypeId) :
    (l.map R.tid).filterMap TypeId.asScalar? = (l.filterMap TypeId.asScalar?).map R.sc := by
  induction l with
  | nil => rfl
  | cons x l ih =>
    cases x <;> simp only [List.map_cons, List.filterMap_cons, TypeId.asScalar?, Ren.tid, ih]

theorem filterMap_asEnum_t (R : Ren) (l : List TypeId) :
    (l.map R.tid).filterMap TypeId.asEnum? = (l.filterMap TypeId.asEnum?).map R.en := by
  induction l with
  | nil => rfl
  | cons x l ih =>
    cases x <;> simp only [List.map_cons, List.filterMap_cons, TypeId.asEnum?, Ren.tid, ih]

section
variable {R : Ren} {t : Schema} (c : Ctx) (h : TypeIso R c.s t)
include h

theorem scalarItems_tiso (u : UsedTypes) :
    Res0 (fun a b => b.Perm a) (scalarItems c u) (scalarItems (tC R t c) (tU R u)) := by
  intro a ha
  unfold scalarItems at ha ⊢
  obtain ⟨names, hn, ha⟩ := C02.bind_ok ha
  cases ha
  simp only [tC_s, tC_o, tC_cs, tU_types, filterMap_asScalar_t]
  have h1 : ((sortNat (u.types.filterMap TypeId.asScalar?)).map R.sc).mapM t.getScalar = .ok names := by
    rw [mapM_map_eq R.sc c.s.getScalar t.getScalar _ (fun x _ => h.getScalar x)]; exact hn
  obtain ⟨names', h2, h3⟩ := mapM_perm_ok t.getScalar (sortNat_map_perm R.sc h.inj.sc _) h1
  rw [h2]
  exact ⟨_, rfl, (h3.filter _).map _⟩

theorem enumItems_tiso (u : UsedTypes) :
    Res0 (fun a b => b.Perm a) (enumItems c u) (enumItems (tC R t c) (tU R u)) := by
  intro a ha
  unfold enumItems at ha ⊢
  obtain ⟨es, hn, ha⟩ := C02.bind_ok ha
  cases ha
  simp only [tC_s, tC_o, tU_types, filterMap_asEnum_t, enumItem_tC]
  have h1 : ((sortNat (u.types.filterMap TypeId.asEnum?)).map R.en).mapM t.getEnum = .ok es := by
    rw [mapM_map_eq R.en c.s.getEnum t.getEnum _ (fun x _ => h.getEnum x)]; exact hn
  obtain ⟨es', h2, h3⟩ := mapM_perm_ok t.getEnum (sortNat_map_perm R.en h.inj.en _) h1
  rw [h2]
  exact ⟨_, rfl, (h3.filter _).map _⟩

theorem inputFieldType_tiso (ty : FieldType) (quals : List Qual) :
    inputFieldType (tC R t c) (R.ft ty) quals = inputFieldType c ty quals := by
  obtain ⟨id, q⟩ := ty
  simp only [inputFieldType, tC_s, tC_o, tC_cs, Ren.ft_id, h.typeName]
  cases id <;> simp only [Ren.tid_object, Ren.tid_scalar, Ren.tid_interface, Ren.tid_union, Ren.tid_enum,
    Ren.tid_input, TypeId.asInput?, inputIsRecursive_tiso h] <;> rfl

theorem inputItem_tiso (i : StoredInput) : inputItem (tC R t c) (R.input i) = inputItem c i := by
  simp only [inputItem, tC_o, tC_cs, Ren.input_name, Ren.input_isOneOf, Ren.input_fields]
  have e1 := mapM_map_eq (fun p : String × FieldType => (p.1, R.ft p.2))
    (fun (x : String × FieldType) => do
      let t ← inputFieldType c x.2 (.required :: x.2.quals)
      pure ({ name := keywordReplace (c.cs.camel x.1), rename := fieldRename x.1 (keywordReplace (c.cs.camel x.1)),
              payload := some t } : RVariant))
    (fun (x : String × FieldType) => do
      let t' ← inputFieldType (tC R t c) x.2 (.required :: x.2.quals)
      pure ({ name := keywordReplace (c.cs.camel x.1), rename := fieldRename x.1 (keywordReplace (c.cs.camel x.1)),
              payload := some t' } : RVariant))
    i.fields (fun x _ => by simp only [inputFieldType_tiso c h, Ren.ft_quals])
  have e2 := mapM_map_eq (fun p : String × FieldType => (p.1, R.ft p.2))
    (fun (x : String × FieldType) => do
      let t ← inputFieldType c x.2 x.2.quals
      pure ({ rust := keywordReplace (c.cs.snake x.1), rename := fieldRename x.1 (keywordReplace (c.cs.snake x.1)),
              ty := t, skipNone := c.o.skipNone && x.2.isOptional } : RField))
    (fun (x : String × FieldType) => do
      let t' ← inputFieldType (tC R t c) x.2 x.2.quals
      pure ({ rust := keywordReplace (c.cs.snake x.1), rename := fieldRename x.1 (keywordReplace (c.cs.snake x.1)),
              ty := t', skipNone := c.o.skipNone && x.2.isOptional } : RField))
    i.fields (fun x _ => by simp only [inputFieldType_tiso c h, Ren.ft_quals, FieldType.isOptional])
  rw [e1, e2]
  rfl

theorem inputItems_tiso (u : UsedTypes) :
    Res0 (fun a b => b.Perm a) (inputItems c u) (inputItems (tC R t c) (tU R u)) := by
  intro a ha
  unfold inputItems at ha ⊢
  simp only [tC_s]
  have hp := (h.inpsPerm.filter (fun x => (tU R u).types.contains (.input x.2)))
  rw [List.filter_map] at hp
  have e : ((fun x : StoredInput × Nat => (tU R u).types.contains (TypeId.input x.2)) ∘
      fun p : StoredInput × Nat => (R.input p.1, R.inp p.2)) =
      fun x : StoredInput × Nat => u.types.contains (TypeId.input x.2) := by
    funext p; exact contains_input h.inj u p.2
  rw [e] at hp
  have h1 : ((c.s.inputs.zipIdx.filter (fun x => u.types.contains (TypeId.input x.2))).map
      (fun p : StoredInput × Nat => (R.input p.1, R.inp p.2))).mapM
      (fun x : StoredInput × Nat => inputItem (tC R t c) x.1) = .ok a := by
    rw [mapM_map_eq (fun p : StoredInput × Nat => (R.input p.1, R.inp p.2))
      (fun x : StoredInput × Nat => inputItem c x.1) (fun x : StoredInput × Nat => inputItem (tC R t c) x.1) _
      (fun x _ => inputItem_tiso c h x.1)]
    exact ha
  obtain ⟨r', h2, h3⟩ := mapM_perm_ok _ hp h1
  exact ⟨r', h2, h3⟩

theorem variableType_tiso (v : RVariable) : variableType (tC R t c) (tVar R v) = variableType c v := by
  simp only [variableType, tC_s, tC_o, tC_cs, tVar_ty, Ren.ft_id, Ren.ft_quals, h.typeName]

theorem literalOk_tiso (fuel : Nat) : ∀ (v : Value) (ty : TypeId) (quals : List Qual),
    literalOk t fuel v (R.tid ty) quals = literalOk c.s fuel v ty quals := by
  induction fuel with
  | zero => intro _ _ _; rfl
  | succ fuel ih =>
    intro v ty quals
    cases v with
    | list xs => simp only [literalOk, ih]
    | obj kvs =>
      cases ty <;> simp only [literalOk, Ren.tid_object, Ren.tid_scalar, Ren.tid_interface, Ren.tid_union,
        Ren.tid_enum, Ren.tid_input, TypeId.asInput?]
      rename_i iid
      rw [h.getInput]
      cases c.s.getInput iid with
      | error e => rfl
      | ok i =>
        simp only [Except.map, bind, Except.bind, Ren.input_fields, Ren.input_isOneOf]
        apply forM_map_eq
        intro p _
        obtain ⟨fname, fty⟩ := p
        simp only [Ren.ft_id, Ren.ft_quals]
        cases kvs.find? (·.1 == fname) with
        | none => rfl
        | some kv => simp only [ih]; rfl
    | int _ => rfl
    | float _ => rfl
    | str _ => rfl
    | bool _ => rfl
    | null => rfl
    | «enum» _ => rfl
    | var _ => rfl

theorem variablesItems_tiso (op : Nat) : variablesItems (tC R t c) op = variablesItems c op := by
  simp only [variablesItems, tC_s, tC_q, tC_o, tC_cs, opVariables_t, List.isEmpty_map]
  split
  · rfl
  · have e1 := mapM_map_eq (tVar R)
      (fun v : RVariable => do
        let ty ← variableType c v
        pure ({ rust := keywordReplace (c.cs.snake v.name), rename := fieldRename v.name (keywordReplace (c.cs.snake v.name)),
                ty := ty, skipNone := c.o.skipNone && v.ty.quals.head? != some .required } : RField))
      (fun v : RVariable => do
        let ty ← variableType (tC R t c) v
        pure ({ rust := keywordReplace (c.cs.snake v.name), rename := fieldRename v.name (keywordReplace (c.cs.snake v.name)),
                ty := ty, skipNone := c.o.skipNone && v.ty.quals.head? != some .required } : RField))
      (c.q.opVariables op) (fun v _ => by simp only [variableType_tiso c h, tVar_name, tVar_ty, Ren.ft_quals])
    rw [e1, filterMapM_map]
    simp only [tVar_default, tVar_ty, tVar_name, Ren.ft_id, Ren.ft_quals, variableType_tiso c h, literalOk_tiso c h]
    rfl

end

end C07P
end GqlVerif
