import GqlVerif.Proofs.SerdeFuelNeed
import GqlVerif.Proofs.ComposedC14
/-!
# P25 (3/3) — the fuel `Serde.de` / `Serde.ser` / `Serde.roundtrip` pass never matters … on ranked environments

`W = envWidth e = #items + #externs + 2`; `deFuel e j = 2 * ((jsonSize j + 2) * W)` (twice the width since P25: `deFlat`
spends a unit on the `Box` of a recursive flattened fragment; see `SerdeFuelWitness.generated_module_fuel_exhausted` for
what happened with the single width); the fuel of `ser` is `(valSize v + 2) * W` (`Box`es are free there).

* `EnvOK e` : there is a certificate `Ranked e c cf K` (file 2) with `K ≤ deWidth e = 2 * W` — at most `2 * W - 1` jumps
  to named types in a row that do not consume input.  It holds for every acyclic environment whose alias targets /
  flattened members carry at most one `Box` (`SerdeFuelAcyclic.envOK_of_acyclic`).  Decidable sufficient check:
  `rankCheck e` (`envOK_of_check`); for any other width `K`, `rankCheckWith e c cf K` gives the never-exhausted fuel
  `(jsonSize j + 1) * K` (`deTy_nf_of_check`).
* Under `EnvOK e`: `deTy_fuel_indep`, `dePath_fuel_indep`, `deStructWith_fuel_indep`, `deFlat_fuel_indep`
  (`b = false` and `b = true`), `de_never_out_of_fuel`, `roundtrip_fuel_indep`, `denied_key_ignored_de`; under the
  weaker `EnvOKS e` (alias chains only): `serTy_fuel_indep`, `ser_fuel_indep`, `ser_never_out_of_fuel`.
* Without any hypothesis (from monotonicity, file 1): `de_stable`, `ser_stable`, `denied_key_ignored_de_of_nf`.
* The hypothesis is needed (`SerdeFuelWitness.lean`: `box_fuel_matters` — many `Box`es under one flattened member,
  `alias_cycle_always_out_of_fuel`, `denied_key_not_ignored_without_rank`), and the former single width was too small
  for a module the generator emits (`chain_fuel_exhausted`, `generated_module_fuel_exhausted`, stated on the old fuel
  expression; `generated_module_read` is the positive instance with the present `de`).
-/
namespace GqlVerif
namespace SerdeFuel
open Serde Composed

/-- the per-level allowance of `ser` (and half that of `deFuel`) -/
def envWidth (e : Env) : Nat := e.items.length + e.externs.length + 2

/-- the per-level allowance of `deFuel`: twice `envWidth` -/
def deWidth (e : Env) : Nat := 2 * envWidth e

/-- the fuel `ser` passes -/
def serFuel (e : Env) (v : Val) : Nat := (valSize v + 2) * envWidth e

theorem deFuel_eq (e : Env) (j : Json) : deFuel e j = 2 * ((jsonSize j + 2) * envWidth e) := rfl

theorem deFuel_eq' (e : Env) (j : Json) : deFuel e j = (jsonSize j + 2) * deWidth e := by
  rw [deFuel_eq, deWidth, Nat.mul_left_comm]

theorem ser_eq (e : Env) (t : RTy) (v : Val) : ser e t v = normJson <$> serTy e (serFuel e v) t v := rfl

/-- **the hypothesis on the environment**: a rank certificate that fits into the per-level allowance of `deFuel` -/
def EnvOK (e : Env) : Prop := ∃ (c cf : String → Nat) (K : Nat), Ranked e c cf K ∧ K ≤ deWidth e

/-- the hypothesis serialization needs (alias chains only; `Box`es are free there), for the single width `ser` uses -/
def EnvOKS (e : Env) : Prop := ∃ (c : String → Nat) (K : Nat), RankedS e c K ∧ K ≤ envWidth e

/-- a certificate within the single width serves both directions -/
theorem envOK_of_ranked {e : Env} {c cf : String → Nat} {K : Nat} (hr : Ranked e c cf K) (hK : K ≤ envWidth e) :
    EnvOK e ∧ EnvOKS e :=
  ⟨⟨c, cf, K, hr, by unfold deWidth; omega⟩, ⟨c, K, hr.toS, hK⟩⟩

theorem need_le {n K W c : Nat} (hc : c < K) (hK : K ≤ W) : n * K + c + 1 ≤ (n + 2) * W := by
  have h1 : n * K ≤ n * W := Nat.mul_le_mul_left n hK
  have h2 : (n + 2) * W = n * W + 2 * W := Nat.add_mul n 2 W
  omega

theorem needP_le_deFuel {e : Env} {c cf : String → Nat} {K : Nat} (hr : Ranked e c cf K) (hK : K ≤ deWidth e)
    (p : String) (j : Json) : jsonSize j * K + c p + 1 ≤ deFuel e j := by
  rw [deFuel_eq']
  exact need_le (hr.bound p) hK

/-! ## 1. deserialization -/

/-- **target 1** — `deTy`: at or above the fuel `de` passes, the result (value or error, including which error) does
    not depend on the fuel; buffered or not -/
theorem deTy_fuel_indep {e : Env} (h : EnvOK e) (b : Bool) (t : RTy) (j : Json) (fuel : Nat) (hf : deFuel e j ≤ fuel) :
    deTy e b fuel t j = deTy e b (deFuel e j) t j := by
  obtain ⟨c, cf, K, hr, hK⟩ := h
  have := needP_le_deFuel hr hK (Scope.leaf t) j
  exact deTy_fuel_eq hr b _ _ t j (by omega) this

theorem dePath_fuel_indep {e : Env} (h : EnvOK e) (b : Bool) (p : String) (j : Json) (fuel : Nat) (hf : deFuel e j ≤ fuel) :
    dePath e b fuel p j = dePath e b (deFuel e j) p j :=
  deTy_fuel_indep h b (.path p) j fuel hf

/-- `deStructWith`, as `dePath` calls it for a struct item of the environment -/
theorem deStructWith_fuel_indep {e : Env} (h : EnvOK e) (b : Bool) {p n : String} {d : List String} {sc : Option String}
    {fields : List RField} (hfind : e.find p = some (.struct n d sc fields)) (j : Json) (fuel : Nat)
    (hf : deFuel e j ≤ fuel) :
    deStructWith (dePath e b fuel) (deFlat e fuel) fields j =
      deStructWith (dePath e b (deFuel e j)) (deFlat e (deFuel e j)) fields j := by
  obtain ⟨c, cf, K, hr, hK⟩ := h
  have := needP_le_deFuel hr hK p j
  exact deStructWith_fuel_eq hr b _ _ hfind j (by omega) (by omega)

/-- `deFlat` for a flattened member `f` of a struct item of the environment, with the fuel of the buffered object -/
theorem deFlat_fuel_indep {e : Env} (h : EnvOK e) {p n : String} {d : List String} {sc : Option String}
    {fields : List RField} (hfind : e.find p = some (.struct n d sc fields)) {f : RField} (hmem : f ∈ fields)
    (hfl : f.flatten = true) (buf : Buf) (fuel : Nat) (hf : deFuel e (.obj (present buf)) ≤ fuel) :
    deFlat e fuel f.ty buf = deFlat e (deFuel e (.obj (present buf))) f.ty buf := by
  obtain ⟨c, cf, K, hr, hK⟩ := h
  have h1 := hr.flat p n d sc fields hfind f hmem hfl
  have h2 := hr.bound p
  have h3 : (bufSize buf + 1) * K + tyCost cf f.ty + 1 ≤ deFuel e (.obj (present buf)) := by
    have : jsonSize (.obj (present buf)) = bufSize buf + 1 := by rw [jsonSize, bufSize]; omega
    rw [deFuel_eq', this]
    exact need_le (by omega) hK
  exact deFlat_fuel_eq hr _ _ f.ty buf (by omega) h3

/-- **target 3** — `de` never returns the error of an exhausted fuel (`DErr.unmodelled "fuel"`, what `dePath` /
    `deFlat` return at fuel `0`) -/
theorem de_never_out_of_fuel {e : Env} (h : EnvOK e) (t : RTy) (j : Json) : de e t j ≠ .error (.unmodelled "fuel") := by
  obtain ⟨c, cf, K, hr, hK⟩ := h
  exact deTy_nf hr false _ t j (needP_le_deFuel hr hK _ j)

/-- `de` is what every fuel at or above `deFuel` computes -/
theorem de_fuel_indep {e : Env} (h : EnvOK e) (t : RTy) (j : Json) (fuel : Nat) (hf : deFuel e j ≤ fuel) :
    deTy e false fuel t j = de e t j :=
  deTy_fuel_indep h false t j fuel hf

/-- no hypothesis on the environment: whatever `de` returns other than the fuel error is final -/
theorem de_stable (e : Env) (t : RTy) (j : Json) (hnf : de e t j ≠ .error (.unmodelled "fuel")) (fuel : Nat)
    (hf : deFuel e j ≤ fuel) : deTy e false fuel t j = de e t j :=
  deTy_mono e false hf t j hnf

/-! ## 2. serialization -/

theorem needS_le_serFuel {e : Env} {c : String → Nat} {K : Nat} (hr : RankedS e c K) (hK : K ≤ envWidth e)
    (p : String) (v : Val) : valSize v * K + c p + 1 ≤ serFuel e v :=
  need_le (hr.bound p) hK

/-- **target 2** — `serTy`: at or above the fuel `ser` passes the result does not depend on the fuel -/
theorem serTy_fuel_indep {e : Env} (h : EnvOKS e) (t : RTy) (v : Val) (fuel : Nat) (hf : serFuel e v ≤ fuel) :
    serTy e fuel t v = serTy e (serFuel e v) t v := by
  obtain ⟨c, K, hr, hK⟩ := h
  have := needS_le_serFuel hr hK (Scope.leaf t) v
  exact serTy_fuel_eq hr _ _ t v (by omega) this

theorem serPath_fuel_indep {e : Env} (h : EnvOKS e) (p : String) (v : Val) (fuel : Nat) (hf : serFuel e v ≤ fuel) :
    serPath e fuel p v = serPath e (serFuel e v) p v :=
  serTy_fuel_indep h (.path p) v fuel hf

/-- **target 2** — `ser` is what every fuel at or above the one it passes computes -/
theorem ser_fuel_indep {e : Env} (h : EnvOKS e) (t : RTy) (v : Val) (fuel : Nat) (hf : serFuel e v ≤ fuel) :
    normJson <$> serTy e fuel t v = ser e t v := by
  rw [ser_eq, serTy_fuel_indep h t v fuel hf]

theorem ser_never_out_of_fuel {e : Env} (h : EnvOKS e) (t : RTy) (v : Val) : ser e t v ≠ .error (.unmodelled "fuel") := by
  obtain ⟨c, K, hr, hK⟩ := h
  rw [ser_eq]
  exact nf_map.mpr (serTy_nf hr _ t v (needS_le_serFuel hr hK _ v))

/-- no hypothesis on the environment: whatever `ser` returns other than the fuel error is final -/
theorem ser_stable (e : Env) (t : RTy) (v : Val) (hnf : ser e t v ≠ .error (.unmodelled "fuel")) (fuel : Nat)
    (hf : serFuel e v ≤ fuel) : normJson <$> serTy e fuel t v = ser e t v := by
  rw [ser_eq] at hnf ⊢
  rw [serTy_mono e hf t v (nf_map.mp hnf)]

/-! ## 3. round trip -/

/-- **target 3** — `roundtrip` is what any fuels at or above the ones it passes compute (the serialization fuel may
    depend on the value read) -/
theorem roundtrip_fuel_indep {e : Env} (h : EnvOK e) (hS : EnvOKS e) (t : RTy) (j : Json) (fuel : Nat) (sfuel : Val → Nat)
    (hf : deFuel e j ≤ fuel) (hs : ∀ v, serFuel e v ≤ sfuel v) :
    (do let v ← deTy e false fuel t j; normJson <$> serTy e (sfuel v) t v) = roundtrip e t j := by
  unfold roundtrip
  rw [de_fuel_indep h t j fuel hf]
  cases de e t j with
  | error err => rfl
  | ok v => exact ser_fuel_indep hS t v (sfuel v) (hs v)

theorem roundtrip_never_out_of_fuel {e : Env} (h : EnvOK e) (hS : EnvOKS e) (t : RTy) (j : Json) :
    roundtrip e t j ≠ .error (.unmodelled "fuel") := by
  unfold roundtrip
  exact nf_bind (de_never_out_of_fuel h t j) (fun v _ => ser_never_out_of_fuel hS t v)

/-! ## 4. the hypothesis of `Composed.denied_key_ignored_de_of_fuel` discharged -/

theorem jsonSize_eraseKey_le (k : String) (kvs : List (String × Json)) :
    jsonSize (.obj (eraseKey k kvs)) ≤ jsonSize (.obj kvs) := by
  have := kvsSize_filter_le (fun kv => kv.1 != k) kvs
  rw [jsonSize, jsonSize]; unfold eraseKey; omega

theorem deFuel_eraseKey_le (e : Env) (k : String) (kvs : List (String × Json)) :
    deFuel e (.obj (eraseKey k kvs)) ≤ deFuel e (.obj kvs) := by
  rw [deFuel_eq', deFuel_eq']
  exact Nat.mul_le_mul_right _ (Nat.add_le_add_right (jsonSize_eraseKey_le k kvs) 2)

/-- **target 4** — a payload key that nothing reading this JSON object names is ignored by the top-level `Serde.de`,
    at any type expression -/
theorem denied_key_ignored_de_ty {e : Env} (h : EnvOK e) (k : String) (t : RTy) (kvs : List (String × Json))
    (hkf : KeyFree e k (Scope.leaf t)) : de e t (.obj kvs) = de e t (.obj (eraseKey k kvs)) :=
  denied_key_ignored_de_of_fuel e k t kvs hkf
    (deTy_fuel_indep h false t (.obj (eraseKey k kvs)) _ (deFuel_eraseKey_le e k kvs))

/-- **target 4**, as stated in the brief -/
theorem denied_key_ignored_de {e : Env} (h : EnvOK e) (k p : String) (kvs : List (String × Json)) (hkf : KeyFree e k p) :
    de e (.path p) (.obj kvs) = de e (.path p) (.obj (eraseKey k kvs)) :=
  denied_key_ignored_de_ty h k (.path p) kvs hkf

/-- no hypothesis on the environment: if the payload *without* the key is not answered by the fuel error, the payload
    with the key is read alike -/
theorem denied_key_ignored_de_of_nf (e : Env) (k : String) (t : RTy) (kvs : List (String × Json))
    (hkf : KeyFree e k (Scope.leaf t)) (hnf : de e t (.obj (eraseKey k kvs)) ≠ .error (.unmodelled "fuel")) :
    de e t (.obj kvs) = de e t (.obj (eraseKey k kvs)) :=
  denied_key_ignored_de_of_fuel e k t kvs hkf (de_stable e t _ hnf _ (deFuel_eraseKey_le e k kvs))

/-! ## a decidable sufficient check for `EnvOK` -/

def known (e : Env) (p : String) : Bool := (e.find p).isSome || (e.externs.find? (·.1 == p)).isSome

/-- `c` on the names the environment defines, `0` elsewhere -/
def clamp (e : Env) (c : String → Nat) (p : String) : Nat := if known e p then c p else 0

/-- the conditions of `Ranked`, checked on every item and extern of the environment -/
def rankCheckWith (e : Env) (c cf : String → Nat) (K : Nat) : Bool :=
  decide (1 ≤ K) &&
  e.items.all (fun it => decide (c it.name < K) && (match it with
    | .alias n _ t => decide (c (Scope.leaf t) < c n) && decide (tyCost cf t < cf n)
    | .struct n _ _ fs => fs.all (fun f => !f.flatten || (decide (tyCost cf f.ty < c n) && decide (tyCost cf f.ty < cf n)))
    | _ => true)) &&
  e.externs.all (fun x => decide (c x.1 < K) && ((e.find x.1).isSome || decide (c (Scope.leaf x.2) < c x.1)))

theorem clamp_le (e : Env) (c : String → Nat) (p : String) : clamp e c p ≤ c p := by
  unfold clamp; split <;> omega

theorem find_spec {e : Env} {p : String} {it : Item} (h : e.find p = some it) : it ∈ e.items ∧ it.name = p := by
  unfold Env.find at h
  refine ⟨List.mem_of_find?_eq_some h, ?_⟩
  have := List.find?_some h
  simpa using this

theorem ranked_of_check {e : Env} {c cf : String → Nat} {K : Nat} (h : rankCheckWith e c cf K = true) :
    Ranked e (clamp e c) cf K := by
  simp only [rankCheckWith, Bool.and_eq_true, decide_eq_true_eq, List.all_eq_true] at h
  obtain ⟨⟨hK, hI⟩, hX⟩ := h
  have hknown : ∀ {p it}, e.find p = some it → clamp e c p = c p := by
    intro p it hf
    simp [clamp, known, hf]
  have hitem : ∀ {p it}, e.find p = some it → it ∈ e.items ∧ it.name = p := find_spec
  have hstruct : ∀ p n d sc fields, e.find p = some (.struct n d sc fields) → ∀ f ∈ fields, f.flatten = true →
      tyCost cf f.ty < c p ∧ tyCost cf f.ty < cf p := by
    intro p n d sc fields hf f hmem hfl
    obtain ⟨hm, hn⟩ := hitem hf
    have h2 := (hI _ hm).2
    simp only [List.all_eq_true, Bool.or_eq_true, Bool.not_eq_true', Bool.and_eq_true, decide_eq_true_eq] at h2
    simp only [Item.name] at hn
    rw [← hn]
    rcases h2 f hmem with h3 | h3
    · rw [hfl] at h3; cases h3
    · exact h3
  have halias : ∀ p n pub t, e.find p = some (.alias n pub t) → c (Scope.leaf t) < c p ∧ tyCost cf t < cf p := by
    intro p n pub t hf
    obtain ⟨hm, hn⟩ := hitem hf
    have h2 := (hI _ hm).2
    simp only [Bool.and_eq_true, decide_eq_true_eq] at h2
    simp only [Item.name] at hn
    rw [← hn]
    exact h2
  refine ⟨fun p => ?_, fun p n pub t hf => ?_, fun p x hf hx => ?_, fun p n d sc fields hf f hmem hfl => ?_,
    fun p n pub t hf => (halias p n pub t hf).2, fun p n d sc fields hf f hmem hfl => (hstruct p n d sc fields hf f hmem hfl).2⟩
  · unfold clamp known
    cases hf : e.find p with
    | some it =>
      obtain ⟨hm, hn⟩ := hitem hf
      have := (hI it hm).1
      simp only [Option.isSome_some, Bool.true_or, ↓reduceIte]
      rw [← hn]; exact this
    | none =>
      cases hx : e.externs.find? (·.1 == p) with
      | none => simp only [Option.isSome_none, Bool.or_self, Bool.false_eq_true, ↓reduceIte]; omega
      | some x =>
        have hm := List.mem_of_find?_eq_some hx
        have hn : x.1 = p := by simpa using List.find?_some hx
        have := (hX x hm).1
        simp only [Option.isSome_none, Option.isSome_some, Bool.or_true, ↓reduceIte]
        rw [← hn]; exact this
  · rw [hknown hf]
    exact Nat.lt_of_le_of_lt (clamp_le e c _) (halias p n pub t hf).1
  · have hm := List.mem_of_find?_eq_some hx
    have hn : x.1 = p := by simpa using List.find?_some hx
    have h2 := (hX x hm).2
    rw [hn, hf] at h2
    simp only [Option.isSome_none, Bool.false_or, decide_eq_true_eq] at h2
    have hk : clamp e c p = c p := by simp [clamp, known, hf, hx]
    rw [hk]
    exact Nat.lt_of_le_of_lt (clamp_le e c _) h2
  · rw [hknown hf]
    exact (hstruct p n d sc fields hf f hmem hfl).1

/-- a candidate `cf`: the longest chain of `deFlat` jumps (`Box`es included) from the named type `p`, explored to
    depth `fuel` -/
def costFl (e : Env) : Nat → String → Nat
  | 0, _ => 0
  | fuel+1, p =>
    match e.find p with
    | some (.alias _ _ t) => tyCost (costFl e fuel) t + 1
    | some (.struct _ _ _ fs) =>
      (fs.filter (·.flatten)).foldl (fun m f => max m (tyCost (costFl e fuel) f.ty + 1)) 0
    | _ => 0

/-- a candidate `c`: the longest chain of input-free jumps from the named type `p` read by `dePath` -/
def costP (e : Env) (cf : String → Nat) : Nat → String → Nat
  | 0, _ => 0
  | fuel+1, p =>
    match e.find p with
    | some (.alias _ _ t) => costP e cf fuel (Scope.leaf t) + 1
    | some (.struct _ _ _ fs) => (fs.filter (·.flatten)).foldl (fun m f => max m (tyCost cf f.ty + 1)) 0
    | some _ => 0
    | none => match e.externs.find? (·.1 == p) with
      | some x => costP e cf fuel (Scope.leaf x.2) + 1
      | none => 0

/-- exploration depth for the candidates: more than the number of names an acyclic chain can visit -/
def rankDepth (e : Env) : Nat := envWidth e

/-- **the decidable predicate**: the candidate ranks are a certificate within the per-level allowance of `deFuel` -/
def rankCheck (e : Env) : Bool :=
  let cf := costFl e (rankDepth e)
  rankCheckWith e (costP e cf (rankDepth e)) cf (deWidth e)

theorem envOK_of_check {e : Env} (h : rankCheck e = true) : EnvOK e :=
  ⟨_, _, _, ranked_of_check h, Nat.le_refl _⟩

/-- the same within the single width (`ser`, and the former `deFuel`) -/
def rankCheckS (e : Env) : Bool :=
  let cf := costFl e (rankDepth e)
  rankCheckWith e (costP e cf (rankDepth e)) cf (envWidth e)

theorem envOK_of_checkS {e : Env} (h : rankCheckS e = true) : EnvOK e ∧ EnvOKS e :=
  envOK_of_ranked (ranked_of_check h) (Nat.le_refl _)

/-- any certificate, for any `K`, gives a fuel that is never exhausted: `(jsonSize j + 1) * K` -/
theorem deTy_nf_of_check {e : Env} {c cf : String → Nat} {K : Nat} (h : rankCheckWith e c cf K = true) (b : Bool)
    (t : RTy) (j : Json) (fuel : Nat) (hf : (jsonSize j + 1) * K ≤ fuel) : deTy e b fuel t j ≠ .error (.unmodelled "fuel") := by
  have hr := ranked_of_check h
  have h1 := hr.bound (Scope.leaf t)
  have h2 : (jsonSize j + 1) * K = jsonSize j * K + K := Nat.succ_mul _ _
  exact deTy_nf hr b fuel t j (by omega)

end SerdeFuel
end GqlVerif
