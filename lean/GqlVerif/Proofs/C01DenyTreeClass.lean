import GqlVerif.Proofs.C01DenyTreeLossless
import GqlVerif.Proofs.C14GeneratedWitness
/-!
# P33 (3/4) — the class `TreeOpR` ("`TreeOp` without the clause that excludes denied fields"), a concrete instance

* `TreeOpR c op` — `TreeOp` evaluated with the deprecation strategy replaced by `allow`, i.e. literally the definition
  of `TreeOp` with the conjunct `!(deprecated && strategy == deny)` deleted (`treeOpR_unfold`).  It contains `TreeOp`
  (`treeOpR_of_treeOp`) and is contained in `TreeOpD` (`treeOpD_of_treeOpR`); for its operations every hypothesis of
  parts 1–2 holds: `treeOp_prune_of_treeOpR`, `tnOkOp_of_treeOpR`.
* **`treeR_accepts`, `treeR_precise_iff`, `treeR_lossless`, `treeR_roundtrip`** — the four end-to-end theorems of
  `C01EndToEnd` for `TreeOpR` under ANY strategy (under `allow` / `warn` nothing is pruned: `pruneSels_of_not_deny`, and
  the statements are those of `tree_*`).
* `prune_id_of_treeOp` — for an operation of the old class nothing is pruned.
* the module of `C14GeneratedWitness` (`query Q { animal { __typename name when owner { id since } friends { name when } } when }`
  under `deny`, `when` / `since` deprecated): every hypothesis evaluated, `wd_roundtrip`, rejected / accepted payloads.
* `sibling_key_covered` — P26's scenario `animal { when: name  when }` (denied key = key of a kept sibling) is covered by
  the general theorems of parts 1–2: no "denied key ≠ kept key" side condition.
* `tn_condition_artifact` — where `tnOkOp` fails (a denied field aliased `__typename` next to `__typename`) the lemma
  `conformsSel_erase` is false but the conclusion of `treeD_roundtrip` still holds on the witness: the side condition
  comes from the proof route (reuse of `top_lossless` through `eraseDenied`), not from the generated code.
-/
set_option linter.unusedSimpArgs false
set_option linter.unusedSectionVars false
set_option linter.unusedVariables false

namespace GqlVerif
namespace C01
namespace Deny
open Serde Spec C13 C03 Codegen C01.E2E C14G

/-! ## the class -/

/-- the same context with the strategy `allow` (nothing is denied) -/
def allowCtx (c : Ctx) : Ctx := { c with o := { c.o with deprecation := .allow } }

/-- **`TreeOpR`**: `TreeOp` without the exclusion of denied fields -/
def TreeOpR (c : Ctx) (op : ROperation) : Bool := TreeOp (allowCtx c) op

theorem treeOpR_unfold (c : Ctx) (op : ROperation) :
    TreeOpR c op = (c.o.normalization == .none && (c.s.objects[op.objectId]?).isSome &&
      treeSels c.s (allowCtx c).o op.sels && EnumSpec.nodup (respKeys c.s op.sels)) := rfl

theorem allow_dep (c : Ctx) : ((allowCtx c).o.deprecation == DepStrategy.deny) = false := rfl

/-! ### response keys of the pruned selection -/

theorem respKeys_append (s : Schema) (xs ys : List Sel) : respKeys s (xs ++ ys) = respKeys s xs ++ respKeys s ys := by
  simp [respKeys]

theorem respKeys_cons (s : Schema) (x : Sel) (xs : List Sel) :
    respKeys s (x :: xs) = (respKey s x).toList ++ respKeys s xs := by
  simp only [respKeys, List.filterMap_cons]
  cases respKey s x <;> rfl

theorem respKeys_pruneSel_sublist (c : Ctx) (x : Sel) :
    (respKeys c.s (pruneSel c x)).Sublist (respKey c.s x).toList := by
  cases x with
  | field a fid sub =>
    cases hsf : c.s.fields[fid]? with
    | none => rw [pruneSel]; simp [hsf, respKeys, respKey]
    | some sf =>
      by_cases hd : isDenied c sf = true
      · rw [pruneSel_denied hsf hd]; simp [respKeys]
      · rw [pruneSel_kept hsf (by simpa using hd)]; simp [respKeys, respKey, hsf]
  | inline t sub => rw [pruneSel]; simp [respKeys, respKey]
  | spread g => rw [pruneSel]; simp [respKeys, respKey]
  | typename => rw [pruneSel]; simp [respKeys, respKey]

theorem respKeys_prune_sublist (c : Ctx) : ∀ sels : List Sel,
    (respKeys c.s (pruneSels c sels)).Sublist (respKeys c.s sels)
  | [] => by rw [pruneSels]; simp [respKeys]
  | x :: xs => by
    rw [pruneSels, respKeys_append, respKeys_cons]
    exact List.Sublist.append (respKeys_pruneSel_sublist c x) (respKeys_prune_sublist c xs)

theorem nodup_respKeys_prune (c : Ctx) (sels : List Sel) (h : EnumSpec.nodup (respKeys c.s sels) = true) :
    EnumSpec.nodup (respKeys c.s (pruneSels c sels)) = true :=
  nodup_iff'.mpr (List.Nodup.sublist (respKeys_prune_sublist c sels) (nodup_iff'.mp h))

theorem deniedKey_respKey {c : Ctx} {x : Sel} {k : String} (h : deniedKey c x = some k) : respKey c.s x = some k := by
  cases x with
  | field a fid sub =>
    simp only [deniedKey, respKey] at h ⊢
    cases hsf : c.s.fields[fid]? with
    | none => simp [hsf] at h
    | some sf =>
      simp only [hsf] at h ⊢
      split at h
      · simpa using h
      · cases h
  | inline t sub => simp [deniedKey] at h
  | spread g => simp [deniedKey] at h
  | typename => simp [deniedKey] at h

theorem deniedKeys_subset_respKeys {c : Ctx} {sels : List Sel} {k : String} (h : k ∈ deniedKeys c sels) :
    k ∈ respKeys c.s sels := by
  obtain ⟨x, hx, hkx⟩ := List.mem_filterMap.mp h
  exact List.mem_filterMap.mpr ⟨x, hx, deniedKey_respKey hkx⟩

theorem typename_mem_of_has {sels : List Sel} (h : hasTypename sels = true) : Sel.typename ∈ sels := by
  simp only [hasTypename, List.any_eq_true] at h
  obtain ⟨x, hx, hxt⟩ := h
  cases x <;> simp at hxt
  exact hx

/-- with pairwise distinct response keys, a selection set that selects `__typename` has no denied field with that key -/
theorem tnHere_of_respNodup (c : Ctx) (sels : List Sel) (h : EnumSpec.nodup (respKeys c.s sels) = true) :
    tnHere c sels = true := by
  by_cases ht : hasTypename sels = true
  · have hmem := typename_mem_of_has ht
    have hnot : "__typename" ∉ deniedKeys c sels := by
      intro hd
      have hnd := nodup_iff'.mp h
      clear h ht
      induction sels with
      | nil => simp at hmem
      | cons x xs ih =>
        rw [respKeys_cons] at hnd
        simp only [deniedKeys, List.filterMap_cons] at hd
        rcases List.mem_cons.mp hmem with hx | hx
        · subst hx
          simp only [deniedKey] at hd
          have hin := deniedKeys_subset_respKeys (c := c) (sels := xs) hd
          have : respKey c.s .typename = some "__typename" := rfl
          rw [this] at hnd
          simp only [Option.toList_some, List.singleton_append, List.nodup_cons] at hnd
          exact hnd.1 hin
        · have htn : "__typename" ∈ respKeys c.s xs := List.mem_filterMap.mpr ⟨.typename, hx, rfl⟩
          cases hdk : deniedKey c x with
          | none =>
            rw [hdk] at hd
            exact ih hx hd (List.Nodup.sublist (List.sublist_append_right _ _) hnd)
          | some k =>
            rw [hdk] at hd
            rcases List.mem_cons.mp hd with hk | hd'
            · subst hk
              rw [deniedKey_respKey hdk] at hnd
              simp only [Option.toList_some, List.singleton_append, List.nodup_cons] at hnd
              exact hnd.1 htn
            · exact ih hx hd' (List.Nodup.sublist (List.sublist_append_right _ _) hnd)
    simp only [tnHere, ht, Bool.not_true, Bool.false_or, Bool.not_eq_true', List.contains_eq_mem,
      decide_eq_false_iff_not]
    intro hdrop
    simp only [dropKeys, List.mem_filter] at hdrop
    exact hnot hdrop.1
  · simp [tnHere, ht]

/-! ### the hypotheses of parts 1–2 for the class -/

mutual
  theorem classR_sel (c : Ctx) : ∀ x : Sel, treeSel c.s (allowCtx c).o x = true →
      treeSelD c x = true ∧ treeSels c.s c.o (pruneSel c x) = true ∧ tnOkSel c x = true
    | .field a fid sub => by
      intro h
      have IH := classR_sels c sub
      rw [treeSel] at h
      rw [treeSelD, tnOkSel]
      cases hsf : c.s.fields[fid]? with
      | none => simp [hsf] at h
      | some sf =>
        simp only [hsf, allow_dep, Bool.and_false, Bool.not_false, Bool.and_true, Bool.and_eq_true] at h ⊢
        obtain ⟨hw, hty⟩ := h
        by_cases hd : isDenied c sf = true
        · rw [pruneSel_denied hsf hd]
          refine ⟨⟨hw, ?_⟩, by simp [treeSels], by simp [hd]⟩
          cases hid : sf.ty.id with
          | scalar k => simpa [hid] using hty
          | «enum» k => simpa [hid] using hty
          | object i =>
            simp only [hid, Bool.and_eq_true] at hty ⊢
            exact ⟨⟨hty.1.1, (IH hty.1.2).1⟩, nodup_kept_of_resp c sub hty.2⟩
          | interface k => simp [hid] at hty
          | union k => simp [hid] at hty
          | input k => simp [hid] at hty
        · have hd' : isDenied c sf = false := by simpa using hd
          have hdep : (sf.deprecation.isSome && c.o.deprecation == .deny) = false := hd'
          have hdep' : (!(sf.deprecation.isSome && c.o.deprecation == .deny)) = true := by rw [hdep]; rfl
          have hnil : pruneSels c [] = [] := by rw [pruneSels]
          rw [pruneSel_kept hsf hd', treeSels, treeSels, Bool.and_true, treeSel]
          simp only [hsf, hd', Bool.false_or, Bool.and_eq_true]
          cases hid : sf.ty.id with
          | scalar k =>
            simp only [hid, Bool.and_eq_true, List.isEmpty_iff] at hty
            obtain ⟨hs1, hs2⟩ := hty
            subst hs2
            simp [hid, hw, hs1, hdep', hnil, tnHere, hasTypename, tnOkSels]
          | «enum» k =>
            simp only [hid, Bool.and_eq_true, List.isEmpty_iff] at hty
            obtain ⟨hs1, hs2⟩ := hty
            subst hs2
            simp [hid, hw, hs1, hdep', hnil, tnHere, hasTypename, tnOkSels]
          | object i =>
            simp only [hid, Bool.and_eq_true] at hty ⊢
            obtain ⟨h1, h2, h3⟩ := IH hty.1.2
            exact ⟨⟨hw, ⟨hty.1.1, h1⟩, nodup_kept_of_resp c sub hty.2⟩,
              ⟨⟨hw, hdep'⟩, ⟨hty.1.1, h2⟩, nodup_respKeys_prune c sub hty.2⟩, tnHere_of_respNodup c sub hty.2, h3⟩
          | interface k => simp [hid] at hty
          | union k => simp [hid] at hty
          | input k => simp [hid] at hty
    | .spread _ => by intro h; simp [treeSel] at h
    | .inline _ _ => by intro h; simp [treeSel] at h
    | .typename => by intro _; rw [pruneSel_typename]; simp [treeSelD, treeSels, treeSel, tnOkSel]
  theorem classR_sels (c : Ctx) : ∀ xs : List Sel, treeSels c.s (allowCtx c).o xs = true →
      treeSelsD c xs = true ∧ treeSels c.s c.o (pruneSels c xs) = true ∧ tnOkSels c xs = true
    | [] => by intro _; rw [pruneSels]; simp [treeSelsD, treeSels, tnOkSels]
    | x :: xs => by
      intro h
      obtain ⟨hx, hxs⟩ := treeSels_cons h
      obtain ⟨a1, a2, a3⟩ := classR_sel c x hx
      obtain ⟨b1, b2, b3⟩ := classR_sels c xs hxs
      rw [treeSelsD, pruneSels, tnOkSels, a1, b1, a3, b3]
      exact ⟨rfl, treeSels_append.mpr ⟨a2, b2⟩, rfl⟩
end

theorem treeOpR_parts {c : Ctx} {op : ROperation} (h : TreeOpR c op = true) :
    c.o.normalization = .none ∧ (c.s.objects[op.objectId]?).isSome = true ∧
      treeSels c.s (allowCtx c).o op.sels = true ∧ EnumSpec.nodup (respKeys c.s op.sels) = true :=
  treeOp_parts (c := allowCtx c) h

/-- the class is contained in P26's `TreeOpD` -/
theorem treeOpD_of_treeOpR {c : Ctx} {op : ROperation} (h : TreeOpR c op = true) : TreeOpD c op = true := by
  obtain ⟨hn, ho, hs, hk⟩ := treeOpR_parts h
  simp only [TreeOpD, Bool.and_eq_true, beq_iff_eq]
  exact ⟨⟨⟨hn, ho⟩, (classR_sels c _ hs).1⟩, nodup_kept_of_resp c _ hk⟩

/-- the pruned operation is in the old class `TreeOp` -/
theorem treeOp_prune_of_treeOpR {c : Ctx} {op : ROperation} (h : TreeOpR c op = true) :
    TreeOp c (pruneOp c op) = true := by
  obtain ⟨hn, ho, hs, hk⟩ := treeOpR_parts h
  simp only [TreeOp, Bool.and_eq_true, beq_iff_eq, pruneOp_sels, pruneOp_objectId]
  exact ⟨⟨⟨hn, ho⟩, (classR_sels c _ hs).2.1⟩, nodup_respKeys_prune c _ hk⟩

theorem tnOkOp_of_treeOpR {c : Ctx} {op : ROperation} (h : TreeOpR c op = true) : tnOkOp c op = true := by
  obtain ⟨_, _, hs, hk⟩ := treeOpR_parts h
  simp only [tnOkOp, Bool.and_eq_true]
  exact ⟨tnHere_of_respNodup c _ hk, (classR_sels c _ hs).2.2⟩

/-! ### the class contains `TreeOp`; for `TreeOp` (and whenever the strategy is not `deny`) nothing is pruned -/

mutual
  theorem allow_of_treeSel (c : Ctx) : ∀ x : Sel, treeSel c.s c.o x = true →
      treeSel c.s (allowCtx c).o x = true ∧ pruneSel c x = [x]
    | .field a fid sub => by
      intro h
      have IH := allow_of_treeSels c sub
      rw [treeSel] at h
      rw [treeSel]
      cases hsf : c.s.fields[fid]? with
      | none => simp [hsf] at h
      | some sf =>
        simp only [hsf, allow_dep, Bool.and_false, Bool.not_false, Bool.and_true, Bool.and_eq_true] at h ⊢
        obtain ⟨⟨hw, hdep⟩, hty⟩ := h
        have hd' : isDenied c sf = false := by
          cases hd : isDenied c sf with
          | false => rfl
          | true => simp only [isDenied] at hd; simp [hd] at hdep
        rw [pruneSel_kept hsf hd']
        cases hid : sf.ty.id with
        | scalar k =>
          simp only [hid, Bool.and_eq_true, List.isEmpty_iff] at hty ⊢
          rw [hty.2]
          exact ⟨⟨hw, hty.1, rfl⟩, by rw [pruneSels]⟩
        | «enum» k =>
          simp only [hid, Bool.and_eq_true, List.isEmpty_iff] at hty ⊢
          rw [hty.2]
          exact ⟨⟨hw, hty.1, rfl⟩, by rw [pruneSels]⟩
        | object i =>
          simp only [hid, Bool.and_eq_true] at hty ⊢
          obtain ⟨h1, h2⟩ := IH hty.1.2
          exact ⟨⟨hw, ⟨hty.1.1, h1⟩, hty.2⟩, by rw [h2]⟩
        | interface k => simp [hid] at hty
        | union k => simp [hid] at hty
        | input k => simp [hid] at hty
    | .spread _ => by intro h; simp [treeSel] at h
    | .inline _ _ => by intro h; simp [treeSel] at h
    | .typename => by intro _; exact ⟨by simp [treeSel], pruneSel_typename c⟩
  theorem allow_of_treeSels (c : Ctx) : ∀ xs : List Sel, treeSels c.s c.o xs = true →
      treeSels c.s (allowCtx c).o xs = true ∧ pruneSels c xs = xs
    | [] => by intro _; exact ⟨by simp [treeSels], by rw [pruneSels]⟩
    | x :: xs => by
      intro h
      obtain ⟨hx, hxs⟩ := treeSels_cons h
      obtain ⟨a1, a2⟩ := allow_of_treeSel c x hx
      obtain ⟨b1, b2⟩ := allow_of_treeSels c xs hxs
      rw [treeSels, pruneSels, a1, b1, a2, b2]
      exact ⟨rfl, rfl⟩
end

/-- the class contains the old class -/
theorem treeOpR_of_treeOp {c : Ctx} {op : ROperation} (h : TreeOp c op = true) : TreeOpR c op = true := by
  obtain ⟨hn, ho, hs, hk⟩ := treeOp_parts h
  rw [treeOpR_unfold]
  simp only [Bool.and_eq_true, beq_iff_eq]
  exact ⟨⟨⟨hn, ho⟩, (allow_of_treeSels c _ hs).1⟩, hk⟩

/-- for an operation of the old class nothing is pruned (so the theorems below are `tree_*` there) -/
theorem prune_id_of_treeOp {c : Ctx} {op : ROperation} (h : TreeOp c op = true) : pruneSels c op.sels = op.sels :=
  (allow_of_treeSels c _ (treeOp_parts h).2.2.1).2

mutual
  theorem pruneSel_of_not_deny (c : Ctx) (h : c.o.deprecation ≠ .deny) : ∀ x : Sel, pruneSel c x = [x]
    | .field a fid sub => by
      rw [pruneSel]
      cases hsf : c.s.fields[fid]? with
      | none => simp [pruneSels_of_not_deny c h sub]
      | some sf => simp [isDenied_false_of h sf, pruneSels_of_not_deny c h sub]
    | .inline t sub => by rw [pruneSel, pruneSels_of_not_deny c h sub]
    | .spread g => by rw [pruneSel]
    | .typename => by rw [pruneSel]
  /-- under `allow` / `warn` nothing is pruned -/
  theorem pruneSels_of_not_deny (c : Ctx) (h : c.o.deprecation ≠ .deny) : ∀ xs : List Sel, pruneSels c xs = xs
    | [] => by rw [pruneSels]
    | x :: xs => by rw [pruneSels, pruneSel_of_not_deny c h x, pruneSels_of_not_deny c h xs]; rfl
end

/-! ## the end-to-end theorems for the class -/

/-- **Theorem 2 under any strategy (`treeR_accepts`).** -/
theorem treeR_accepts (c : Ctx) (opIdx : Nat) (op : ROperation) (items : List Item)
    (hop : c.q.operations[opIdx]? = some op) (ht : TreeOpR c op = true)
    (hgen : responseForQuery c opIdx = .ok items) (hok : moduleOk c items = true)
    (j : Json) (hc : conformsOp c op j = true) :
    ∃ v, Serde.de (moduleEnv c items) (.path "ResponseData") j = .ok v :=
  treeD_accepts c opIdx op items hop (treeOpD_of_treeOpR ht) (treeOp_prune_of_treeOpR ht) hgen hok j hc

/-- **Theorem 4 under any strategy (`treeR_precise_iff`, C03).** -/
theorem treeR_precise_iff (c : Ctx) (opIdx : Nat) (op : ROperation) (items : List Item)
    (hop : c.q.operations[opIdx]? = some op) (ht : TreeOpR c op = true)
    (hgen : responseForQuery c opIdx = .ok items) (hok : moduleOk c items = true) (j : Json) :
    okB (Serde.de (moduleEnv c items) (.path "ResponseData") j) = conformsSelLoose c.s (pruneSels c op.sels) j :=
  treeD_precise_iff c opIdx op items hop (treeOpD_of_treeOpR ht) (treeOp_prune_of_treeOpR ht) hgen hok j

/-- **Theorem 3 under any strategy (`treeR_lossless`).** -/
theorem treeR_lossless (c : Ctx) (opIdx : Nat) (op : ROperation) (items : List Item)
    (hop : c.q.operations[opIdx]? = some op) (ht : TreeOpR c op = true)
    (hgen : responseForQuery c opIdx = .ok items) (hok : moduleOk c items = true)
    (hro : rustOkSels c (pruneSels c op.sels) = true)
    (hrn : EnumSpec.nodup (rustNames c (pruneSels c op.sels)) = true)
    (j : Json) (hc : conformsOp c op j = true) (v : Val)
    (hd : Serde.de (moduleEnv c items) (.path "ResponseData") j = .ok v) :
    Serde.ser (moduleEnv c items) (.path "ResponseData") v = .ok (canonSelD c op j) :=
  treeD_lossless c opIdx op items hop (treeOpD_of_treeOpR ht) (treeOp_prune_of_treeOpR ht) (tnOkOp_of_treeOpR ht)
    hgen hok hro hrn j hc v hd

/-- Theorems 2 + 3 under any strategy -/
theorem treeR_roundtrip (c : Ctx) (opIdx : Nat) (op : ROperation) (items : List Item)
    (hop : c.q.operations[opIdx]? = some op) (ht : TreeOpR c op = true)
    (hgen : responseForQuery c opIdx = .ok items) (hok : moduleOk c items = true)
    (hro : rustOkSels c (pruneSels c op.sels) = true)
    (hrn : EnumSpec.nodup (rustNames c (pruneSels c op.sels)) = true)
    (j : Json) (hc : conformsOp c op j = true) :
    Serde.roundtrip (moduleEnv c items) (.path "ResponseData") j = .ok (canonSelD c op j) :=
  treeD_roundtrip c opIdx op items hop (treeOpD_of_treeOpR ht) (treeOp_prune_of_treeOpR ht) (tnOkOp_of_treeOpR ht)
    hgen hok hro hrn j hc

/-! ## a concrete module under `deny` (the one of `C14GeneratedWitness`) -/

section Instance
open C14G.Witness

theorem wd_class : TreeOpR wCtx wOp = true := by decide +kernel
example : TreeOp wCtx wOp = false := by decide +kernel

def wdFull : Json :=
  .obj [("when", .str "root"),
        ("animal", .obj [("__typename", .str "Animal"), ("when", .str "2020"), ("name", .str "Rex"),
                         ("owner", .obj [("since", .str "2019"), ("id", .int 7)]),
                         ("friends", .arr [.obj [("name", .str "Tom"), ("when", .null)],
                                           .obj [("when", .str "x"), ("name", .null)]])])]
def wdCanon : Json :=
  .obj [("animal", .obj [("name", .str "Rex"),
                         ("owner", .obj [("id", .str "7")]),
                         ("friends", .arr [.obj [("name", .str "Tom")], .obj [("name", .null)]])])]

theorem wd_conforms : conformsOp wCtx wOp wdFull = true := by
  simp [conformsOp, rootName, conformsSel, confSels, confSel, wCtx, wSchema, wOp, wdFull, Json.lookup, accepts,
    acceptsNN, gtyOf, scalarOk, idOk, stringOk, i64Ok, Json.isNull, EnumSpec.nodup, respKeys, respKey, Schema.defaultScalars]

def wdPruned : List Sel :=
  [.field none 0 [.typename, .field none 1 [], .field none 3 [.field none 4 []], .field none 5 [.field none 1 []]]]

theorem wd_prune : pruneSels wCtx wOp.sels = wdPruned := by
  simp [pruneSels, pruneSel, wCtx, wOp, wSchema, isDenied, wdPruned]

theorem wd_canon : canonSelD wCtx wOp wdFull = wdCanon := by
  unfold canonSelD
  rw [wd_prune]
  simp [canonSel, canonEntries, canonField, canon, canonNN, idCanon, gtyOf, wCtx, wSchema, wdPruned, wdFull, wdCanon,
    Json.lookup, skipQ, Json.isNull, Schema.defaultScalars]
  decide

theorem wd_rust : rustOkSels wCtx (pruneSels wCtx wOp.sels) = true ∧
    EnumSpec.nodup (rustNames wCtx (pruneSels wCtx wOp.sels)) = true := by
  rw [wd_prune]
  have h1 : keywordReplace "animal" = "animal" := kw_not (by decide +kernel)
  have h2 : keywordReplace "name" = "name" := kw_not (by decide +kernel)
  have h3 : keywordReplace "owner" = "owner" := kw_not (by decide +kernel)
  have h4 : keywordReplace "friends" = "friends" := kw_not (by decide +kernel)
  have h5 : keywordReplace "id" = "id" := kw_not (by decide +kernel)
  have e1 : rustNames wCtx wdPruned = [keywordReplace "animal"] := rfl
  have e2 : rustNames wCtx [.typename, .field none 1 [], .field none 3 [.field none 4 []], .field none 5 [.field none 1 []]] =
      [keywordReplace "name", keywordReplace "owner", keywordReplace "friends"] := rfl
  have e3 : rustNames wCtx [.field none 4 []] = [keywordReplace "id"] := rfl
  have e4 : rustNames wCtx [.field none 1 []] = [keywordReplace "name"] := rfl
  have e5 : rustNames wCtx [] = [] := rfl
  refine ⟨?_, by rw [e1, h1]; decide +kernel⟩
  simp only [wdPruned, rustOkSels, rustOkSel, e2, e3, e4, e5, h2, h3, h4, h5]
  decide +kernel

theorem wd_roundtrip : Serde.roundtrip wEnv (.path "ResponseData") wdFull = .ok wdCanon := by
  rw [← wd_canon]
  exact treeR_roundtrip wCtx 0 wOp wItems rfl wd_class w_gen w_moduleOk wd_rust.1 wd_rust.2 wdFull wd_conforms

theorem wd_precise (j : Json) :
    okB (Serde.de wEnv (.path "ResponseData") j) = conformsSelLoose wSchema wdPruned j := by
  have := treeR_precise_iff wCtx 0 wOp wItems rfl wd_class w_gen w_moduleOk j
  rw [wd_prune] at this
  exact this

macro "wd_eval" : tactic => `(tactic|
  simp [conformsSelLoose, looseSels, looseArr, looseField, wSchema, wdPruned, Json.lookup, accepts, acceptsNN, gtyOf,
    scalarOk, idOk, stringOk, i64Ok, Json.isNull, nullableQ, countKey, Schema.defaultScalars])

example : okB (Serde.de wEnv (.path "ResponseData") wWith) = true := by rw [wd_precise]; unfold wWith; wd_eval
example : okB (Serde.de wEnv (.path "ResponseData")
    (.obj [("animal", .obj [("name", .int 3), ("when", .str "x")])])) = false := by rw [wd_precise]; wd_eval
example : okB (Serde.de wEnv (.path "ResponseData")
    (.obj [("animal", .obj [("owner", .obj [("since", .str "x")])])])) = false := by rw [wd_precise]; wd_eval

def tOp : ROperation :=
  { name := "T", kind := .query, objectId := 0, sels := [.typename, .field (some "__typename") 6 []] }
def tCtx : Ctx := { s := wSchema, q := { operations := [tOp] }, o := { deprecation := .deny }, cs := ⟨id, id⟩ }
def tItems : List Item := (responseForQuery tCtx 0).toOption.getD []
def tEnv : Env := moduleEnv tCtx tItems
def tJson : Json := .obj [("__typename", .str "Query")]

theorem tn_condition_artifact :
    TreeOpD tCtx tOp = true ∧ TreeOp tCtx (pruneOp tCtx tOp) = true ∧ tnOkOp tCtx tOp = false ∧
    responseForQuery tCtx 0 = .ok tItems ∧ moduleOk tCtx tItems = true ∧
    conformsOp tCtx tOp tJson = true ∧
    eraseDenied tCtx tOp tJson = .obj [] ∧
    conformsSel tCtx.s (rootName tCtx tOp) (pruneSels tCtx tOp.sels) (eraseDenied tCtx tOp tJson) = false ∧
    canonSelD tCtx tOp tJson = .obj [] ∧
    Serde.roundtrip tEnv (.path "ResponseData") tJson = .ok (canonSelD tCtx tOp tJson) := by
  have hp : pruneSels tCtx tOp.sels = [.typename] := by
    simp [pruneSels, pruneSel, tCtx, tOp, wSchema, isDenied]
  have he : eraseDenied tCtx tOp tJson = .obj [] := by
    simp [eraseDenied, eraseObj, eraseEntry, eraseKeys, dropKeys, deniedKeys, keptKeys, deniedKey,
      keptKey, isDenied, tCtx, tOp, wSchema, tJson]
  refine ⟨by decide +kernel, by decide +kernel, by decide +kernel, except_ok_of_isSome (by decide +kernel),
    by decide +kernel, ?_, he, ?_, ?_, ?_⟩
  · simp [conformsOp, rootName, conformsSel, confSels, confSel, tCtx, wSchema, tOp, tJson, Json.lookup, accepts,
      acceptsNN, gtyOf, scalarOk, stringOk, Json.isNull, EnumSpec.nodup, respKeys, respKey, Schema.defaultScalars]
  · rw [he, hp]; simp [conformsSel, confSels, confSel, Json.lookup, EnumSpec.nodup]
  · unfold canonSelD; rw [hp]; simp [canonSel, canonEntries, tJson]
  · refine treeD_roundtrip_pruned tCtx 0 tOp tItems rfl (by decide +kernel) (by decide +kernel)
      (except_ok_of_isSome (by decide +kernel)) (by decide +kernel) ?_ ?_ tJson ?_
    · rw [hp]; rfl
    · rw [hp]; rfl
    · show conformsSel tCtx.s (rootName tCtx (pruneOp tCtx tOp)) (pruneSels tCtx tOp.sels) tJson = true
      rw [hp]
      simp [rootName, pruneOp, conformsSel, confSels, confSel, tCtx, wSchema, tOp, tJson, Json.lookup,
        EnumSpec.nodup, respKeys, respKey]

/-- P26's `sibling_key_matters` scenario `query Q { animal { when: name  when } }` (the denied key is also the key of a
    kept sibling): the operation is NOT in `TreeOpR` (response keys not distinct) but the general theorems of parts 1–2
    apply — no "denied key ≠ kept key" side condition is needed, because `eraseDenied` leaves such a key alone and the
    pruned selection reads it -/
theorem sibling_key_covered :
    TreeOpR sCtx sOp = false ∧
    Serde.roundtrip sEnv (.path "ResponseData") (.obj [("animal", .obj [("when", .str "Rex")])]) =
      .ok (.obj [("animal", .obj [("when", .str "Rex")])]) := by
  refine ⟨by decide +kernel, ?_⟩
  have hp : pruneSels sCtx sOp.sels = [.field none 0 [.field (some "when") 1 []]] := by
    simp [pruneSels, pruneSel, sCtx, sOp, wSchema, isDenied]
  have hc : canonSelD sCtx sOp (.obj [("animal", .obj [("when", .str "Rex")])]) =
      .obj [("animal", .obj [("when", .str "Rex")])] := by
    unfold canonSelD
    rw [hp]
    simp [canonSel, canonEntries, canonField, canon, canonNN, gtyOf, sCtx, wSchema, Json.lookup, skipQ, Json.isNull,
      Schema.defaultScalars]
  have := treeD_roundtrip sCtx 0 sOp sItems rfl (by decide +kernel) (by decide +kernel) (by decide +kernel)
    (except_ok_of_isSome (by decide +kernel)) (by decide +kernel) (by decide +kernel) (by decide +kernel)
    (.obj [("animal", .obj [("when", .str "Rex")])]) ?_
  · rw [hc] at this; exact this
  simp [conformsOp, rootName, conformsSel, confSels, confSel, sCtx, wSchema, sOp, Json.lookup, accepts,
    acceptsNN, gtyOf, scalarOk, stringOk, Json.isNull, EnumSpec.nodup, respKeys, respKey, Schema.defaultScalars]

/-- P26's payload `wWith` — the denied key `when` twice at the root, of the wrong type in `animal`, … — does not conform to
    the operation as written, but its erasure `wWithout` conforms to the pruned operation: `treeD_roundtrip_of_erased` -/
theorem wd_roundtrip_dirty :
    Serde.roundtrip wEnv (.path "ResponseData") wWith = .ok (canonSelD wCtx wOp wWith) := by
  refine treeD_roundtrip_of_erased wCtx 0 wOp wItems rfl w_class (treeOp_prune_of_treeOpR wd_class) w_gen w_moduleOk
    wd_rust.1 wd_rust.2 wWith ?_
  rw [w_erase]
  show conformsSel wCtx.s (rootName wCtx (pruneOp wCtx wOp)) (pruneSels wCtx wOp.sels) wWithout = true
  rw [wd_prune]
  simp [rootName, pruneOp, conformsSel, confSels, confSel, wCtx, wSchema, wOp, wdPruned, wWithout, Json.lookup, accepts,
    acceptsNN, gtyOf, scalarOk, idOk, stringOk, i64Ok, Json.isNull, EnumSpec.nodup, respKeys, respKey,
    Schema.defaultScalars]

end Instance

end Deny
end C01
end GqlVerif
