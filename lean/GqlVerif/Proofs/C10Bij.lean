import GqlVerif.Props.C10
/-!
# C10 — the other half of "bijection": deserialize ∘ serialize on the values of the enum type

`Props/C10.lean` proves `serialize (deserialize s) = s` for all strings (so `deserialize` is injective).
This file proves the converse on the VALUES of the generated type, and says exactly where it stops:

* every value of the generated enum type (a declared variant, or `Other(s)` for any `s`) serializes
  (`serialize_total`): `Serialize` never fails;
* a declared variant survives a round trip through the wire: `deserialize (serialize v) = v`
  (`variant_roundtrip`), and so does `Other(s)` when `s` is not a schema value (`other_roundtrip`);
* the image of `deserialize` is exactly the set of *canonical* values — declared variants and
  `Other(s)` with `s` not a schema value (`deserialize_canonical`, `canonical_iff_image`) — and the two
  functions are mutually inverse between all strings and the canonical values (`string_value_bijection`);
* the one non-canonical kind of value, `Other(w)` built BY HAND by the user with a schema value `w`,
  serializes to `w` and comes back as the variant (`handmade_other_collapses`): the property's
  "bijection" is between strings and what deserialization can produce, not all Rust values.
-/
namespace GqlVerif
namespace C10
open EnumSpec

/-- a value of the generated enum type: a declared variant or `Other(_)` -/
def isValue (vs : List String) : EVal → Prop
  | .variant ident => ident ∈ vs
  | .other _ => True

/-- canonical: what deserialization can produce -/
def canonical (vs : List String) (de : List (String × String)) : EVal → Prop
  | .variant ident => ident ∈ vs
  | .other s => s ∉ de.map (·.1)

theorem variant_has_arm {vs ser de} (h : tablesWf vs ser de = true) {ident : String} (hi : ident ∈ vs) :
    ∃ w, (w, ident) ∈ de := by
  obtain ⟨-, -, hvs, -⟩ := wf_parts h
  subst hvs
  obtain ⟨p, hp, rfl⟩ := List.mem_map.mp hi
  exact ⟨p.1, hp⟩

/-- `Serialize` never fails on a value of the type -/
theorem serialize_total {vs ser de} (h : tablesWf vs ser de = true) (v : EVal) (hv : isValue vs v) :
    ∃ w, serE ser v = some w := by
  cases v with
  | other s => exact ⟨s, rfl⟩
  | variant ident =>
    obtain ⟨w, hw⟩ := variant_has_arm h hv
    exact ⟨w, (schema_value_own_variant h hw).2⟩

/-- a declared variant survives the wire -/
theorem variant_roundtrip {vs ser de} (h : tablesWf vs ser de = true) {ident w : String} (hi : ident ∈ vs)
    (hs : serE ser (.variant ident) = some w) : deE de w = .variant ident := by
  obtain ⟨w', hw'⟩ := variant_has_arm h hi
  have := schema_value_own_variant h hw'
  rw [this.2] at hs
  cases hs
  exact this.1

/-- `Other(s)` survives the wire when `s` is not a schema value -/
theorem other_roundtrip (ser de : List (String × String)) {s : String} (hs : s ∉ de.map (·.1)) :
    serE ser (.other s) = some s ∧ deE de s = .other s :=
  ⟨rfl, unknown_string_is_other de s hs⟩

/-- everything deserialization produces is canonical -/
theorem deserialize_canonical {vs ser de} (h : tablesWf vs ser de = true) (s : String) :
    canonical vs de (deE de s) := by
  obtain ⟨-, -, hvs, -⟩ := wf_parts h
  unfold deE
  cases hf : de.find? (·.1 == s) with
  | none =>
    simp only [canonical]
    intro hm
    obtain ⟨p, hp, rfl⟩ := List.mem_map.mp hm
    have := List.find?_eq_none.mp hf p hp
    simp at this
  | some p =>
    obtain ⟨w, ident⟩ := p
    simp only [canonical]
    subst hvs
    exact List.mem_map.mpr ⟨(w, ident), List.mem_of_find?_eq_some hf, rfl⟩

/-- a canonical value is the image of the string it serializes to -/
theorem canonical_roundtrip {vs ser de} (h : tablesWf vs ser de = true) (v : EVal) (hc : canonical vs de v) :
    ∃ w, serE ser v = some w ∧ deE de w = v := by
  cases v with
  | other s => exact ⟨s, rfl, unknown_string_is_other de s hc⟩
  | variant ident =>
    obtain ⟨w, hw⟩ := variant_has_arm h hc
    have := schema_value_own_variant h hw
    exact ⟨w, this.2, this.1⟩

/-- the canonical values are exactly the image of `deserialize` -/
theorem canonical_iff_image {vs ser de} (h : tablesWf vs ser de = true) (v : EVal) :
    canonical vs de v ↔ ∃ s, deE de s = v := by
  constructor
  · intro hc
    obtain ⟨w, -, hw⟩ := canonical_roundtrip h v hc
    exact ⟨w, hw⟩
  · rintro ⟨s, rfl⟩
    exact deserialize_canonical h s

/-- **strings ↔ canonical values**: `deserialize` and `serialize` are mutually inverse -/
theorem string_value_bijection {vs ser de} (h : tablesWf vs ser de = true) :
    (∀ s : String, canonical vs de (deE de s) ∧ serE ser (deE de s) = some s) ∧
    (∀ v : EVal, canonical vs de v → ∃ w, serE ser v = some w ∧ deE de w = v) :=
  ⟨fun s => ⟨deserialize_canonical h s, roundtrip_all_strings h s⟩, fun v hc => canonical_roundtrip h v hc⟩

/-- where the bijection stops: a hand-made `Other(w)` with a schema value `w` is a value of the type,
    is not canonical, serializes to `w`, and comes back as the variant -/
theorem handmade_other_collapses {vs ser de} (h : tablesWf vs ser de = true) {w ident : String}
    (hm : (w, ident) ∈ de) :
    isValue vs (.other w) ∧ ¬ canonical vs de (.other w) ∧ serE ser (.other w) = some w ∧
      deE de w = .variant ident ∧ deE de w ≠ .other w := by
  have := schema_value_own_variant h hm
  refine ⟨trivial, ?_, rfl, this.1, ?_⟩
  · simp only [canonical]
    exact fun hn => hn (List.mem_map.mpr ⟨(w, ident), hm, rfl⟩)
  · rw [this.1]; exact fun hh => by cases hh

-- non-vacuity on concrete tables (keyword-escaped and renamed variants)
example : let de := [("where", "where_"), ("self", "self_"), ("red", "Red")]
    deE de "red" = .variant "Red" ∧ deE de "Red" = .other "Red" ∧
    serE [("where_", "where"), ("self_", "self"), ("Red", "red")] (.other "red") = some "red" := by decide

end C10
end GqlVerif
