import GqlVerif.Proofs.C14GeneratedFragDeep
import GqlVerif.Proofs.C14GeneratedWitness
/-!
# P26 (4/4, part 2) — a non-vacuous instance with flattened fragment structs

```graphql
type Query  { animal: Animal   when: String @deprecated }
type Animal { name: String   when: Date @deprecated(reason: "use since")   owner: Person   friends: [Animal!] }
type Person { id: ID!   since: String @deprecated }
fragment AF on Animal { name when owner { id since } }
query Q { animal { ...AF friends { ...AF } } when }
```

Under `deny` the generator emits `ResponseData { animal }`, `Qanimal { #[serde(flatten)] AF: AF, friends }` (the case functions of the test context are the identity),
`type Qanimalfriends = AF`, `AF { name, owner }`, `AFowner { id }`.  The denied keys: `when` at the root; `when` in the
object of `animal` — denied **in the fragment**, so it is a key of the flatten buffer of `Qanimal`; `since` inside `owner`,
an entry that `Qanimal` does not name and `AF` reads from the buffer; `when` in every element of `friends`, read at the
alias.

* `f_class`, `f_keys`, `f_gen`, `f_names`, `f_envOK` — the hypotheses of `denied_field_payload_same_frag`;
* **`f_instance`** — the payload with all of them is read successfully at `ResponseData` and equals the read of the
  payload without them (`eraseDeniedF` computes it: `f_erase`);
* `f_keyFree` — `denied_field_keyFree_frag` at `Qanimal` (struct with a flattened member) for the key `when` denied in the
  fragment body; `f_not_keyFree` — `name`, a kept key of the fragment body, is not `KeyFree` there although `Qanimal` has no
  member `name`.
-/
namespace GqlVerif
namespace C14G
namespace FragWitness
open Serde Composed SerdeFuel Codegen C01 C01.E2E Witness

def fOp : ROperation :=
  { name := "Q", kind := .query, objectId := 0,
    sels := [.field none 0 [.spread 0, .field none 5 [.spread 0]], .field none 6 []] }

def fQuery : Query :=
  { fragments := [{ name := "AF", on := .object 1,
                    sels := [.field none 1 [], .field none 2 [], .field none 3 [.field none 4 [], .field none 7 []]] }],
    operations := [fOp] }

def fCtx : Ctx := { s := wSchema, q := fQuery, o := { deprecation := .deny }, cs := ⟨id, id⟩ }

def fItems : List Item := (responseForQuery fCtx 0).toOption.getD []

def fEnv : Env := moduleEnv fCtx fItems

theorem f_class : FragOpD fCtx fOp = true := by decide +kernel
theorem f_keys : FragKeysOkD fCtx fOp = true := by decide +kernel
theorem f_gen : responseForQuery fCtx 0 = .ok fItems := except_ok_of_isSome (by decide +kernel)
theorem f_names : EnumSpec.nodup (fItems.map (·.name)) = true := by decide +kernel
theorem f_envOK : EnvOK fEnv := (module_envOK_of_check f_gen (by decide +kernel)).1

/-- the emitted structs and aliases -/
example :
    fItems.filterMap (fun | .struct n _ _ fs => some (n, fs.map (fun f => (f.wire, f.flatten))) | _ => none) =
      [("AF", [("name", false), ("owner", false)]), ("AFowner", [("id", false)]), ("ResponseData", [("animal", false)]),
       ("Qanimal", [("AF", true), ("friends", false)])] ∧
    fItems.filterMap (fun | .alias n true t => some (n, t) | _ => none) = [("Qanimalfriends", .path "AF")] := by
  decide +kernel

def fWith : Json :=
  .obj [("when", .str "root"),
        ("animal", .obj [("when", .int 1), ("name", .str "Rex"),
                         ("owner", .obj [("since", .str "2019"), ("id", .int 7)]),
                         ("friends", .arr [.obj [("name", .str "Tom"), ("when", .str "2020"), ("owner", .null)]])])]

def fWithout : Json :=
  .obj [("animal", .obj [("name", .str "Rex"), ("owner", .obj [("id", .int 7)]),
                         ("friends", .arr [.obj [("name", .str "Tom"), ("owner", .null)]])])]

theorem f_erase : eraseDeniedF fCtx fOp fWith = fWithout := by
  simp [eraseDeniedF, eraseObjF, eraseInSelF, eraseEntryF, eraseFragEntry, eraseInSel, eraseEntry, thruQuals, eraseKeys,
    dropKeysF, dropKeys, collectedDenied, collectedKept, spreadFrags, deniedKeys, keptKeys, deniedKey, keptKey, isDenied,
    fCtx, fOp, fQuery, wSchema, fWith, fWithout, Schema.defaultScalars]

/-- **the instance** -/
theorem f_instance :
    (Serde.de fEnv (.path "ResponseData") fWith).toOption.isSome = true ∧
    Serde.de fEnv (.path "ResponseData") fWith = Serde.de fEnv (.path "ResponseData") fWithout := by
  refine ⟨by decide +kernel, ?_⟩
  rw [← f_erase]
  exact denied_field_payload_same_frag fCtx 0 fOp fItems rfl f_class f_keys f_gen f_names f_envOK fWith

example : (Serde.de fEnv (.path "ResponseData") fWith).toOption.map showVal =
    some "{animal:Some({AF:{name:Some(\"Rex\"),owner:Some({id:\"7\",}),},friends:Some([{name:Some(\"Tom\"),owner:(),},]),}),}" := by
  decide +kernel

theorem f_node : NodeF fCtx "ResponseData" "Q" 0 fOp.sels "Qanimal" "Qanimal" 1 [.spread 0, .field none 5 [.spread 0]] :=
  .step (a := none) (fid := 0) (sf := wSchema.fields[0]) (j := 1) (sub := [.spread 0, .field none 5 [.spread 0]])
    (by simp [fOp]) rfl rfl (.here _ _ _ _)

/-- `when` is denied in the body of the fragment spread into `animal`: `KeyFree` at `Qanimal`, a struct with a flattened member -/
theorem f_keyFree : KeyFree fEnv "when" "Qanimal" :=
  (denied_field_keyFree_frag fCtx 0 fOp fItems rfl f_class f_gen f_names f_node
    (body := [.field none 1 [], .field none 2 [], .field none 3 [.field none 4 [], .field none 7 []]])
    (.inr ⟨fQuery.fragments[0], by simp [spreadFrags, fCtx, fQuery], rfl⟩)
    (a := none) (fid := 2) (sub := []) (sf := wSchema.fields[2]) (by simp) rfl rfl rfl (by decide +kernel)).2

/-- `name` is no member of `Qanimal`, but the flattened `AF` reads it -/
theorem f_not_keyFree : ¬ KeyFree fEnv "name" "Qanimal" ∧
    (structFields? (fEnv.find "Qanimal")).map (fun fs => fs.any (fun f => !f.flatten && f.wire == "name")) = some false :=
  ⟨collected_key_not_keyFree fCtx 0 fOp fItems rfl f_class f_gen f_names f_node (by decide +kernel), by decide +kernel⟩

example : keyFreeCheck fEnv "when" "Qanimal" = true ∧ keyFreeCheck fEnv "since" "Qanimal" = true ∧
    keyFreeCheck fEnv "name" "Qanimal" = false ∧ keyFreeCheck fEnv "owner" "Qanimal" = false ∧
    keyFreeCheck fEnv "when" "Qanimalfriends" = true ∧ keyFreeCheck fEnv "name" "Qanimalfriends" = false ∧
    reachSet fEnv "Qanimal" = ["Qanimal", "AF"] ∧ reachSet fEnv "Qanimalfriends" = ["Qanimalfriends", "AF"] := by
  decide +kernel

end FragWitness
end C14G
end GqlVerif
