import GqlVerif.Proofs.C02CompleteGen
import GqlVerif.Proofs.C07Frontends
/-!
# C02 — the schema well-formedness hypotheses hold of everything the two front-ends produce

`resolve_complete` / `codegen_succeeds` assume `SchemaWf s` (ids in range) and `SchemaWfGen s`.  By
`C07.sdl_spec` / `C07.intro_spec` both front-ends return `a.toSchema` on every rendering of a well-formed abstract
schema `a` (`C07.WfAS`).  This file proves

* `schemaWf_toSchema : WfAS a → SchemaWf a.toSchema = true` — no further hypothesis;
* `schemaWfGen_toSchema : WfAS a → WfASGen a → SchemaWfGen a.toSchema = true`, where `WfASGen a` (decidable) states on
  the abstract schema what `WfAS` does not: output fields do not have input-object types, no type `T!!`, `@oneOf`
  input fields are nullable (the witnesses of `Proofs/C02CompleteGen.lean` show these are needed);
* `schemaWf_fromSdl`, `schemaWf_fromIntro` — the corollaries for `Sdl.fromSdl` on any SDL rendering and for
  `Intro.fromIntro` on any introspection rendering.
-/
namespace GqlVerif
namespace C02Frontends
open C07 C02Complete C02Gen

theorem mem_pairsFrom_range (mk : Nat → TypeId) (ns : List String) (k : Nat) (n : String) (id : TypeId)
    (h : (n, id) ∈ pairsFrom mk ns k) : ∃ i, k ≤ i ∧ i < k + ns.length ∧ id = mk i := by
  induction ns generalizing k with
  | nil => cases h
  | cons m ns ih =>
    rw [pairsFrom_cons, List.mem_cons] at h
    rcases h with h | h
    · cases h; exact ⟨k, Nat.le_refl _, by simp, rfl⟩
    · obtain ⟨i, h1, h2, h3⟩ := ih _ h
      exact ⟨i, by omega, by simp only [List.length_cons]; omega, h3⟩

@[simp] theorem ifaceStored_length (start : Nat) (is : List AIface) : (ifaceStored start is).length = is.length := by
  induction is generalizing start with
  | nil => rfl
  | cons i is ih => simp [ifaceStored, ih]

@[simp] theorem objStored_length (N : List (String × TypeId)) (start : Nat) (os : List AObj) :
    (objStored N start os).length = os.length := by
  induction os generalizing start with
  | nil => rfl
  | cons o os ih => simp [objStored, ih]

@[simp] theorem objFields_length (N : List (String × TypeId)) (k : Nat) (os : List AObj) :
    (objFields N k os).length = (os.map (·.fields.length)).sum := by
  induction os generalizing k with
  | nil => rfl
  | cons o os ih => simp [objFields, ih]

theorem mem_ifaceFields {N : List (String × TypeId)} {sf : StoredField} : ∀ {k : Nat} {is : List AIface},
    sf ∈ ifaceFields N k is → ∃ i ∈ is, ∃ f ∈ i.fields, sf.ty = ftOf N f.ty
  | _, [], h => by cases h
  | k, i :: is, h => by
    simp only [ifaceFields, List.mem_append, List.mem_map] at h
    rcases h with ⟨f, hf, rfl⟩ | h
    · exact ⟨i, List.mem_cons_self, f, hf, rfl⟩
    · obtain ⟨i', hi', r⟩ := mem_ifaceFields h
      exact ⟨i', List.mem_cons_of_mem _ hi', r⟩

theorem mem_objFields {N : List (String × TypeId)} {sf : StoredField} : ∀ {k : Nat} {os : List AObj},
    sf ∈ objFields N k os → ∃ o ∈ os, ∃ f ∈ o.fields, sf.ty = ftOf N f.ty
  | _, [], h => by cases h
  | k, o :: os, h => by
    simp only [objFields, List.mem_append, List.mem_map] at h
    rcases h with ⟨f, hf, rfl⟩ | h
    · exact ⟨o, List.mem_cons_self, f, hf, rfl⟩
    · obtain ⟨o', ho', r⟩ := mem_objFields h
      exact ⟨o', List.mem_cons_of_mem _ ho', r⟩

theorem ifaceStored_ids : ∀ (start : Nat) (is : List AIface), ∀ o ∈ ifaceStored start is, ∀ id ∈ o.fields,
    id < start + (is.map (·.fields.length)).sum
  | _, [], o, ho, _, _ => by cases ho
  | start, i :: is, o, ho, id, hid => by
    simp only [ifaceStored, List.mem_cons] at ho
    simp only [List.map_cons, List.sum_cons]
    rcases ho with rfl | ho
    · simp only [List.mem_range'_1] at hid; omega
    · have := ifaceStored_ids _ is o ho id hid; omega

theorem objStored_ids (N : List (String × TypeId)) : ∀ (start : Nat) (os : List AObj), ∀ o ∈ objStored N start os,
    ∀ id ∈ o.fields, id < start + (os.map (·.fields.length)).sum
  | _, [], o, ho, _, _ => by cases ho
  | start, x :: os, o, ho, id, hid => by
    simp only [objStored, List.mem_cons] at ho
    simp only [List.map_cons, List.sum_cons]
    rcases ho with rfl | ho
    · simp only [List.mem_range'_1] at hid; omega
    · have := objStored_ids N _ os o ho id hid; omega

theorem mem_namesInsert {k : String} {v : TypeId} {x : String × TypeId} : ∀ {l : List (String × TypeId)},
    x ∈ namesInsert k v l → x = (k, v) ∨ x ∈ l
  | [], h => by simp [namesInsert] at h; exact .inl h
  | (k', v') :: rest, h => by
    unfold namesInsert at h
    split at h
    · rcases List.mem_cons.mp h with h | h
      · exact .inl h
      · exact .inr h
    · split at h
      · rcases List.mem_cons.mp h with h | h
        · exact .inl h
        · exact .inr (List.mem_cons_of_mem _ h)
      · rcases List.mem_cons.mp h with h | h
        · exact .inr (h ▸ List.mem_cons_self)
        · rcases mem_namesInsert h with h | h
          · exact .inl h
          · exact .inr (List.mem_cons_of_mem _ h)

theorem mem_insAll {x : String × TypeId} : ∀ {ps l : List (String × TypeId)}, x ∈ insAll ps l → x ∈ ps ∨ x ∈ l
  | [], l, h => .inr h
  | p :: ps, l, h => by
    rw [insAll_cons] at h
    rcases mem_insAll h with h | h
    · exact .inl (List.mem_cons_of_mem _ h)
    · rcases mem_namesInsert h with h | h
      · exact .inl (h ▸ List.mem_cons_self)
      · exact .inr h

/-- every id of the name table of `a` points inside `a.toSchema` -/
theorem pairs_tyOk (a : AS) {n : String} {t : TypeId} (hm : (n, t) ∈ a.pairs) : tyOk a.toSchema t = true := by
  simp only [AS.pairs, List.mem_append] at hm
  rcases hm with (((((hm | hm) | hm) | hm) | hm) | hm) | hm <;>
    obtain ⟨i, h1, h2, rfl⟩ := mem_pairsFrom_range _ _ _ _ _ hm <;>
    simp only [tyOk, AS.toSchema, decide_eq_true_eq, List.length_append, List.length_map, ifaceStored_length,
      objStored_length, AS.enumNames, AS.ifaceNames, AS.objNames, AS.unionNames, AS.inputNames] at h2 ⊢ <;>
    (try simp only [Schema.defaultScalars, List.length_cons, List.length_nil] at h2 ⊢) <;> omega

theorem names_tyOk (a : AS) {n : String} {t : TypeId} (h : namesGet n a.names = some t) : tyOk a.toSchema t = true :=
  pairs_tyOk a (a.mem_pairs_of_get h)

theorem ftOf_tyOk (a : AS) (hn : a.known.Nodup) {t : GTy} (h : t.base ∈ a.known) :
    tyOk a.toSchema (ftOf a.names t).id = true := by
  obtain ⟨id, hid⟩ := a.get_of_known hn h
  simp only [ftOf, tyId, hid, Option.getD_some]
  exact names_tyOk a hid

/-- **`SchemaWf` holds of the schema both front-ends build for a well-formed abstract schema** -/
theorem schemaWf_toSchema (a : AS) (hw : WfAS a) : SchemaWf a.toSchema = true := by
  obtain ⟨hn, hif, hof, _, _, _⟩ := hw
  unfold SchemaWf
  simp only [Bool.and_eq_true, List.all_eq_true, decide_eq_true_eq]
  have hroot : ∀ r, rootOk a.toSchema (rootId a.names r) = true := by
    intro r
    unfold rootId
    cases r with
    | none => rfl
    | some n =>
      simp only [Option.bind_some]
      cases hg : namesGet n a.names with
      | none => rfl
      | some t =>
        cases t <;> simp only [Option.bind_some, TypeId.asObject?, rootOk]
        have := names_tyOk a hg
        simpa [tyOk] using this
  refine ⟨⟨⟨⟨⟨⟨?_, ?_⟩, ?_⟩, ?_⟩, hroot _⟩, hroot _⟩, hroot _⟩
  · intro sf hsf
    simp only [AS.toSchema, List.mem_append] at hsf
    rcases hsf with hsf | hsf
    · obtain ⟨i, hi, f, hf, hty⟩ := mem_ifaceFields hsf
      rw [hty]; exact ftOf_tyOk a hn (hif i hi f hf)
    · obtain ⟨o, ho, f, hf, hty⟩ := mem_objFields hsf
      rw [hty]; exact ftOf_tyOk a hn (hof o ho f hf)
  · intro o ho id hid
    have := objStored_ids a.names _ a.objects o ho id hid
    simpa [AS.toSchema] using this
  · intro o ho id hid
    have := ifaceStored_ids 0 a.interfaces o ho id hid
    simp only [AS.toSchema, List.length_append, ifaceFields_length, objFields_length]
    omega
  · rintro ⟨n, t⟩ hp
    have : (n, t) ∈ a.pairs := by
      rcases mem_insAll (show (n, t) ∈ insAll a.pairs [] from hp) with h | h
      · exact h
      · cases h
    exact pairs_tyOk a this


/-- what `SchemaWfGen` asks of an abstract schema, beyond `WfAS` (decidable): output fields do not have
    input-object types, no type `T!!`, `@oneOf` input fields are nullable -/
def WfASGen (a : AS) : Prop :=
  (∀ i ∈ a.interfaces, ∀ f ∈ i.fields, f.ty.base ∉ a.inputNames ∧ qualsOk f.ty.quals = true) ∧
  (∀ o ∈ a.objects, ∀ f ∈ o.fields, f.ty.base ∉ a.inputNames ∧ qualsOk f.ty.quals = true) ∧
  (∀ i ∈ a.inputs, ∀ p ∈ i.fields, qualsOk p.2.quals = true ∧
    (i.isOneOf = true → p.2.quals.head? ≠ some .required))

instance (a : AS) : Decidable (WfASGen a) := by unfold WfASGen; infer_instance

theorem ftOf_not_input (a : AS) (hn : a.known.Nodup) {t : GTy} (h : t.base ∈ a.known) (hni : t.base ∉ a.inputNames) :
    (ftOf a.names t).id.asInput?.isNone = true := by
  obtain ⟨id, hid⟩ := a.get_of_known hn h
  simp only [ftOf, tyId, hid, Option.getD_some]
  cases id with
  | input j =>
    exfalso
    have hm := a.mem_pairs_of_get hid
    simp only [AS.pairs, List.mem_append] at hm
    rcases hm with (((((hm | hm) | hm) | hm) | hm) | hm) | hm <;> have h' := mem_pairsFrom _ _ _ _ _ hm
    all_goals first
      | exact hni h'.1
      | (obtain ⟨_, j', hj⟩ := h'; cases hj)
  | _ => rfl

/-- **`SchemaWfGen` holds of `a.toSchema`** under `WfAS a` and `WfASGen a` -/
theorem schemaWfGen_toSchema (a : AS) (hw : WfAS a) (hg : WfASGen a) : SchemaWfGen a.toSchema = true := by
  obtain ⟨hn, hif, hof, _, hun, hinp⟩ := hw
  obtain ⟨gif, gof, ginp⟩ := hg
  unfold SchemaWfGen
  simp only [Bool.and_eq_true, List.all_eq_true]
  refine ⟨⟨?_, ?_⟩, ?_⟩
  · intro sf hsf
    simp only [AS.toSchema, List.mem_append] at hsf
    rcases hsf with hsf | hsf
    · obtain ⟨i, hi, f, hf, hty⟩ := mem_ifaceFields hsf
      rw [hty]
      exact ⟨ftOf_not_input a hn (hif i hi f hf) (gif i hi f hf).1, (gif i hi f hf).2⟩
    · obtain ⟨o, ho, f, hf, hty⟩ := mem_objFields hsf
      rw [hty]
      exact ⟨ftOf_not_input a hn (hof o ho f hf) (gof o ho f hf).1, (gof o ho f hf).2⟩
  · intro u hu v hv
    simp only [AS.toSchema, List.mem_map] at hu
    obtain ⟨au, hau, rfl⟩ := hu
    simp only [storedUnion, List.mem_map] at hv
    obtain ⟨m, hm, rfl⟩ := hv
    obtain ⟨id, hid⟩ := a.get_of_known hn (hun au hau m hm)
    simp only [tyId, hid, Option.getD_some]
    exact names_tyOk a hid
  · intro i hi p hp
    simp only [AS.toSchema, List.mem_map] at hi
    obtain ⟨ai, hai, rfl⟩ := hi
    simp only [storedInput, List.mem_map] at hp
    obtain ⟨ap, hap, rfl⟩ := hp
    have h1 := ftOf_tyOk a hn (hinp ai hai ap hap)
    have h2 := ginp ai hai ap hap
    simp only [ftOf] at h1 ⊢
    refine ⟨⟨h1, h2.1⟩, ?_⟩
    cases ho : ai.isOneOf with
    | false => simp [storedInput, ho]
    | true => simpa [storedInput, ho] using h2.2 ho

/-- the schema the SDL front-end returns on any SDL rendering of a well-formed abstract schema satisfies the
    hypotheses of `resolve_complete` / `codegen_succeeds` -/
theorem schemaWf_fromSdl (a : AS) (doc : SdlDoc) (hw : WfAS a) (hd : IsSdlOf a doc) :
    ∃ s, Sdl.fromSdl doc = .ok s ∧ SchemaWf s = true ∧ (WfASGen a → SchemaWfGen s = true) :=
  ⟨a.toSchema, sdl_spec a doc hw hd, schemaWf_toSchema a hw, schemaWfGen_toSchema a hw⟩

/-- the same for the introspection front-end -/
theorem schemaWf_fromIntro (a : AS) (l : List (Option FullType)) (hw : WfAS a) (hi : IsIntroOf a (l.filterMap id)) :
    ∃ s, Intro.fromIntro true (some (introSchemaOf a l)) = .ok s ∧ SchemaWf s = true ∧
      (WfASGen a → SchemaWfGen s = true) :=
  ⟨a.toSchema, intro_spec a l hw hi, schemaWf_toSchema a hw, schemaWfGen_toSchema a hw⟩

/-- non-vacuity: the Star-Wars-like abstract schema of `Proofs/C07Frontends.lean` (interface, union, `@oneOf` input,
    recursive input, custom scalar, deprecated field) satisfies both hypotheses -/
example : WfAS exAS ∧ WfASGen exAS := by decide

end C02Frontends
end GqlVerif
