import GqlVerif.Proofs.C01NestedGenI
/-!
# `NestedGenOp`, part J: agreement with `C01NestedAbs*` on `NestedAbsOp`

On an operation of `NestedAbsOp` everything `nestedgen_roundtrip` mentions is what `nestedabs_roundtrip` mentions: the exact
acceptance predicate (`conformsLooseA_eq_A`), the canonical form (`canonSelA_eq_A`), the side conditions
(`nestedGenKeysOk_eq_A`, `nestedGenSideOk_eq_A`, `absTagOk_eq_A`); the specification `conformsOpN` does not depend on the class.
`nestedgen_roundtrip_on_nestedAbsOp`: `nestedabs_roundtrip`, obtained from `nestedgen_roundtrip`.
-/
set_option linter.unusedSimpArgs false
set_option linter.unusedVariables false
set_option linter.unusedSectionVars false
set_option linter.unnecessarySimpa false

namespace GqlVerif
namespace C01NG
open Serde Spec C13 C03 Codegen C01 C01.E2E C01M C01N C01NA

section Agree
variable {ok : TypeId → Nat → Bool} {s : Schema} {q : Query} {o : Options}

/-! ## at a position of `NestedAbsOp` -/

theorem looseAbsG_eq_A {sf : StoredField} {sub : List Sel} (h : absFieldA ok s q o sf sub = true)
    (whole : Nat → Bool → Json → Bool) (b : Bool) (v : Json) :
    looseAbsG whole s q o b sf sub v = looseAbsA whole s q o b sf sub v := by
  have hnf := absSubA_nofield (C01NA.absFieldA_parts h).2.2.2
  unfold looseAbsG looseAbsA
  congr 1
  funext j
  cases j <;> simp [looseTagG, looseTagA, ownSels_nil hnf, strip_eq_self hnf]

theorem canonAbsG_eq_A {sf : StoredField} {sub : List Sel} (h : absFieldA ok s q o sf sub = true)
    (cent : Nat → List (String × Json) → List (String × Json)) (v : Json) :
    canonAbsG cent s q o sf sub v = canonAbsA cent s q sf sub v := by
  have hnf := absSubA_nofield (C01NA.absFieldA_parts h).2.2.2
  unfold canonAbsG canonAbsA
  congr 1
  funext j
  cases j with
  | obj kvs =>
    simp only [canonTagG, canonTagA, ownSels_nil hnf, strip_eq_self hnf, canonEntriesS, List.nil_append]
    cases hl : Json.lookup "__typename" kvs with
    | none => rfl
    | some jv =>
      cases jv with
      | str n =>
        simp only []
        cases hfd : List.find? (fun vt => objName s vt == n) (vtsOfTy s sf.ty.id) <;> rfl
      | _ => rfl
  | _ => rfl

/-! ## acceptance -/

mutual
  theorem looseFieldA_eq_A (whole : Nat → Bool → Json → Bool) (b : Bool) : ∀ (x : Sel) (p : TypeId) (v : Json),
      C01NA.aSel ok s q o p x = true → looseFieldA whole s q o b x v = C01NA.looseFieldA whole s q o b x v
    | .field a fid sub, p, v => by
      intro h
      have IH1 := looseOwnA_eq_A whole b sub
      have IH2 := looseArrA_eq_A whole b sub
      obtain ⟨sf, hsf⟩ := C01NA.aSel_field_some h
      by_cases hobj : ∃ i, sf.ty.id = .object i
      · obtain ⟨i, hid⟩ := hobj
        obtain ⟨_, _, _, hb⟩ := C01NA.aSel_obj hsf hid h
        rw [looseFieldA, C01NA.looseFieldA]
        simp only [hsf, hid]
        by_cases hsp : ∃ g, sub = [Sel.spread g]
        · obtain ⟨g, rfl⟩ := hsp; rfl
        · have hnl : ∀ g, sub ≠ [Sel.spread g] := fun g hg => hsp ⟨g, hg⟩
          rw [C01NA.aBody_not_lone hnl] at hb
          have e1 : ∀ kvs, looseOwnA whole s q o b sub kvs = C01NA.looseOwnA whole s q o b sub kvs :=
            fun kvs => IH1 (.object i) kvs hb
          have e2 : ∀ xs, looseArrA whole s q o b sub xs = C01NA.looseArrA whole s q o b sub xs :=
            fun xs => IH2 (.object i) xs hb
          cases s.objects[i]? with
          | none => rfl
          | some ob =>
            simp only []
            congr 1
            funext j
            cases j <;> simp only [e1, e2]
      · have hno : ∀ i, sf.ty.id ≠ .object i := fun i h => hobj ⟨i, h⟩
        rcases C01NA.aSel_nonobj hsf hno h with hs | ⟨hs, hnew⟩
        · rw [looseFieldA_old hsf hno hs, C01NA.looseFieldA_old hsf hno hs]
        · rw [looseFieldA_new hsf hno hs, C01NA.looseFieldA_new hsf hno hs, looseAbsG_eq_A hnew]
    | .spread g, _, _ => by intro _; simp [looseFieldA, C01NA.looseFieldA]
    | .inline _ _, _, _ => by intro _; simp [looseFieldA, C01NA.looseFieldA]
    | .typename, _, _ => by intro _; simp [looseFieldA, C01NA.looseFieldA]
  theorem looseOwnA_eq_A (whole : Nat → Bool → Json → Bool) (b : Bool) : ∀ (sels : List Sel) (p : TypeId)
      (kvs : List (String × Json)), C01NA.aSels ok s q o p sels = true →
      looseOwnA whole s q o b sels kvs = C01NA.looseOwnA whole s q o b sels kvs
    | [], _, _ => by intro _; simp [looseOwnA, C01NA.looseOwnA]
    | x :: xs, p, kvs => by
      intro h
      obtain ⟨hx, hxs⟩ := C01NA.aSels_cons h
      have ih := looseOwnA_eq_A whole b xs p kvs hxs
      cases x with
      | field a fid sub =>
        rw [looseOwnA.eq_2, C01NA.looseOwnA.eq_2, ih]
        cases hsf : s.fields[fid]? with
        | none => rfl
        | some sf =>
          simp only []
          cases Json.lookup (a.getD sf.name) kvs with
          | none => rfl
          | some v => simp only [looseFieldA_eq_A whole b (.field a fid sub) p v hx]
      | spread g => simpa [looseOwnA, C01NA.looseOwnA] using ih
      | inline t sub => simpa [looseOwnA, C01NA.looseOwnA] using ih
      | typename => simpa [looseOwnA, C01NA.looseOwnA] using ih
  theorem looseArrA_eq_A (whole : Nat → Bool → Json → Bool) (b : Bool) : ∀ (sels : List Sel) (p : TypeId)
      (vs : List Json), C01NA.aSels ok s q o p sels = true →
      looseArrA whole s q o b sels vs = C01NA.looseArrA whole s q o b sels vs
    | [], _, _ => by intro _; simp [looseArrA, C01NA.looseArrA]
    | x :: xs, p, vs => by
      intro h
      obtain ⟨hx, hxs⟩ := C01NA.aSels_cons h
      cases x with
      | field a fid sub =>
        cases vs with
        | nil => simp [looseArrA, C01NA.looseArrA]
        | cons v vs' =>
          rw [looseArrA.eq_3, C01NA.looseArrA.eq_3, looseFieldA_eq_A whole b (.field a fid sub) p v hx,
            looseArrA_eq_A whole b xs p vs' hxs]
      | spread g => simpa [looseArrA, C01NA.looseArrA] using looseArrA_eq_A whole b xs p vs hxs
      | inline t sub => simpa [looseArrA, C01NA.looseArrA] using looseArrA_eq_A whole b xs p vs hxs
      | typename => simpa [looseArrA, C01NA.looseArrA] using looseArrA_eq_A whole b xs p vs hxs
end

/-- **on `NestedAbsOp` the exact acceptance predicate is the one of `nestedabs_precise_iff`** -/
theorem conformsLooseA_eq_A (whole : Nat → Bool → Json → Bool) (b : Bool) (p : TypeId) (sels : List Sel) (j : Json)
    (h : C01NA.aBody ok s q o p sels = true) :
    conformsLooseA whole s q o b sels j = C01NA.conformsLooseA whole s q o b sels j := by
  by_cases hsp : ∃ g, sels = [Sel.spread g]
  · obtain ⟨g, rfl⟩ := hsp; rfl
  · have hnl : ∀ g, sels ≠ [Sel.spread g] := fun g hg => hsp ⟨g, hg⟩
    rw [C01NA.aBody_not_lone hnl] at h
    rw [conformsLooseA_not_lone hnl, C01NA.conformsLooseA_not_lone hnl]
    cases j <;> simp only [looseOwnA_eq_A whole b sels p _ h, looseArrA_eq_A whole b sels p _ h]

/-! ## canonical form -/

mutual
  theorem canonFieldA_eq_A (cent : Nat → List (String × Json) → List (String × Json)) : ∀ (x : Sel) (p : TypeId) (v : Json),
      C01NA.aSel ok s q o p x = true → canonFieldA cent s q o x v = C01NA.canonFieldA cent s q o x v
    | .field a fid sub, p, v => by
      intro h
      have IH := canonEntriesA_eq_A cent sub
      obtain ⟨sf, hsf⟩ := C01NA.aSel_field_some h
      by_cases hobj : ∃ i, sf.ty.id = .object i
      · obtain ⟨i, hid⟩ := hobj
        obtain ⟨_, _, _, hb⟩ := C01NA.aSel_obj hsf hid h
        rw [canonFieldA, C01NA.canonFieldA]
        simp only [hsf, hid]
        by_cases hsp : ∃ g, sub = [Sel.spread g]
        · obtain ⟨g, rfl⟩ := hsp; rfl
        · have hnl : ∀ g, sub ≠ [Sel.spread g] := fun g hg => hsp ⟨g, hg⟩
          rw [C01NA.aBody_not_lone hnl] at hb
          have e1 : ∀ kvs, canonEntriesA cent s q o sub kvs = C01NA.canonEntriesA cent s q o sub kvs :=
            fun kvs => IH (.object i) kvs hb
          rw [canonLambdaA, C01NA.canonLambdaA]
          congr 1
          funext j
          rw [canonSelA_not_lone hnl, C01NA.canonSelA_not_lone hnl]
          cases j <;> simp only [e1]
      · have hno : ∀ i, sf.ty.id ≠ .object i := fun i h => hobj ⟨i, h⟩
        rcases C01NA.aSel_nonobj hsf hno h with hs | ⟨hs, hnew⟩
        · rw [canonFieldA_old hsf hno hs, C01NA.canonFieldA_old hsf hno hs]
        · rw [canonFieldA_new hsf hno hs, C01NA.canonFieldA_new hsf hno hs, canonAbsG_eq_A hnew]
    | .spread g, _, _ => by intro _; simp [canonFieldA, C01NA.canonFieldA]
    | .inline _ _, _, _ => by intro _; simp [canonFieldA, C01NA.canonFieldA]
    | .typename, _, _ => by intro _; simp [canonFieldA, C01NA.canonFieldA]
  theorem canonEntriesA_eq_A (cent : Nat → List (String × Json) → List (String × Json)) : ∀ (sels : List Sel) (p : TypeId)
      (kvs : List (String × Json)), C01NA.aSels ok s q o p sels = true →
      canonEntriesA cent s q o sels kvs = C01NA.canonEntriesA cent s q o sels kvs
    | [], _, _ => by intro _; simp [canonEntriesA, C01NA.canonEntriesA]
    | x :: xs, p, kvs => by
      intro h
      obtain ⟨hx, hxs⟩ := C01NA.aSels_cons h
      have ih := canonEntriesA_eq_A cent xs p kvs hxs
      cases x with
      | field a fid sub =>
        rw [canonEntriesA.eq_2, C01NA.canonEntriesA.eq_2, ih]
        cases hsf : s.fields[fid]? with
        | none => rfl
        | some sf =>
          simp only []
          cases Json.lookup (a.getD sf.name) kvs with
          | none => rfl
          | some v => simp only [canonFieldA_eq_A cent (.field a fid sub) p v hx]
      | spread g => rw [canonEntriesA.eq_3, C01NA.canonEntriesA.eq_3, ih]
      | inline t sub => simpa [canonEntriesA, C01NA.canonEntriesA] using ih
      | typename => simpa [canonEntriesA, C01NA.canonEntriesA] using ih
end

/-- **on `NestedAbsOp` the canonical form is the one of `nestedabs_roundtrip`** -/
theorem canonSelA_eq_A (cent : Nat → List (String × Json) → List (String × Json)) (p : TypeId) (sels : List Sel) (j : Json)
    (h : C01NA.aBody ok s q o p sels = true) :
    canonSelA cent s q o sels j = C01NA.canonSelA cent s q o sels j := by
  by_cases hsp : ∃ g, sels = [Sel.spread g]
  · obtain ⟨g, rfl⟩ := hsp; rfl
  · have hnl : ∀ g, sels ≠ [Sel.spread g] := fun g hg => hsp ⟨g, hg⟩
    rw [C01NA.aBody_not_lone hnl] at h
    rw [canonSelA_not_lone hnl, C01NA.canonSelA_not_lone hnl]
    cases j <;> simp only [canonEntriesA_eq_A cent sels p _ h]

/-! ## side conditions -/

mutual
  /-- the spread fragments are the same list (unconditionally) -/
  theorem aSpreads_eq_A : ∀ (x : Sel), aSpreads s q o x = C01NA.aSpreads s q o x
    | .field a fid sub => by
      have IH := aSpreadss_eq_A sub
      rw [aSpreads, C01NA.aSpreads]
      cases s.fields[fid]? with
      | none => rfl
      | some sf =>
        simp only []
        cases sf.ty.id <;> simp only [IH]
    | .spread g => by simp [aSpreads, C01NA.aSpreads]
    | .inline _ _ => by simp [aSpreads, C01NA.aSpreads]
    | .typename => by simp [aSpreads, C01NA.aSpreads]
  theorem aSpreadss_eq_A : ∀ (sels : List Sel), aSpreadss s q o sels = C01NA.aSpreadss s q o sels
    | [] => rfl
    | x :: xs => by rw [aSpreadss, C01NA.aSpreadss, aSpreads_eq_A x, aSpreadss_eq_A xs]
end

mutual
  theorem aPays_eq_A : ∀ (x : Sel) (p : TypeId), C01NA.aSel ok s q o p x = true →
      aPays s q o x = (C01NA.aPays s q o x).map (fun g => (g, ["__typename"]))
    | .field a fid sub, p => by
      intro h
      have IH := aPayss_eq_A sub
      obtain ⟨sf, hsf⟩ := C01NA.aSel_field_some h
      rw [aPays, C01NA.aPays]
      simp only [hsf]
      by_cases hobj : ∃ i, sf.ty.id = .object i
      · obtain ⟨i, hid⟩ := hobj
        obtain ⟨_, _, _, hb⟩ := C01NA.aSel_obj hsf hid h
        simp only [hid]
        by_cases hsp : ∃ g, sub = [Sel.spread g]
        · obtain ⟨g, rfl⟩ := hsp; simp [aPayss, aPays, C01NA.aPayss, C01NA.aPays]
        · have hnl : ∀ g, sub ≠ [Sel.spread g] := fun g hg => hsp ⟨g, hg⟩
          rw [C01NA.aBody_not_lone hnl] at hb
          exact IH _ hb
      · have hno : ∀ i, sf.ty.id ≠ .object i := fun i h => hobj ⟨i, h⟩
        have hpk : ∀ (hnew : absFieldA ok s q o sf sub = true), posKeys s sub = ["__typename"] := by
          intro hnew
          have hnf := absSubA_nofield (C01NA.absFieldA_parts hnew).2.2.2
          simp [posKeys, ownSels_nil hnf, fieldKeys]
        rcases C01NA.aSel_nonobj hsf hno h with hs | ⟨hs, hnew⟩
        · cases hid : sf.ty.id with
          | object i => exact absurd hid (hno i)
          | scalar k => simp [hs]
          | «enum» k => simp [hs]
          | interface k => simp [hs]
          | union k => simp [hs]
          | input k => simp [hs]
        · cases hid : sf.ty.id with
          | object i => exact absurd hid (hno i)
          | scalar k => simp [hs, hpk hnew]
          | «enum» k => simp [hs, hpk hnew]
          | interface k => simp [hs, hpk hnew]
          | union k => simp [hs, hpk hnew]
          | input k => simp [hs, hpk hnew]
    | .spread g, _ => by intro _; simp [aPays, C01NA.aPays]
    | .inline _ _, _ => by intro _; simp [aPays, C01NA.aPays]
    | .typename, _ => by intro _; simp [aPays, C01NA.aPays]
  theorem aPayss_eq_A : ∀ (sels : List Sel) (p : TypeId), C01NA.aSels ok s q o p sels = true →
      aPayss s q o sels = (C01NA.aPayss s q o sels).map (fun g => (g, ["__typename"]))
    | [], _ => by intro _; rfl
    | x :: xs, p => by
      intro h
      obtain ⟨hx, hxs⟩ := C01NA.aSels_cons h
      rw [aPayss, C01NA.aPayss, aPays_eq_A x p hx, aPayss_eq_A xs p hxs, List.map_append]
end

end Agree

mutual
  theorem sideOkSelA_eq_A {ok : TypeId → Nat → Bool} (KN : String → List String) (c : Ctx) : ∀ (x : Sel) (p : TypeId),
      C01NA.aSel ok c.s c.q c.o p x = true → sideOkSelA KN c x = C01NA.sideOkSelA KN c x
    | .field a fid sub, p => by
      intro h
      have IH := sideOkSelsA_eq_A (ok := ok) KN c sub
      obtain ⟨sf, hsf⟩ := C01NA.aSel_field_some h
      unfold sideOkSelA C01NA.sideOkSelA
      simp only [hsf, Option.map_some]
      by_cases hobj : ∃ i, sf.ty.id = .object i
      · obtain ⟨i, hid⟩ := hobj
        obtain ⟨_, _, _, hb⟩ := C01NA.aSel_obj hsf hid h
        simp only [hid]
        by_cases hsp : ∃ g, sub = [Sel.spread g]
        · obtain ⟨g, rfl⟩ := hsp; rfl
        · have hnl : ∀ g, sub ≠ [Sel.spread g] := fun g hg => hsp ⟨g, hg⟩
          rw [C01NA.aBody_not_lone hnl] at hb
          have e1 := IH _ hb
          split
          · exact absurd rfl (hnl _)
          · split
            · exact absurd rfl (hnl _)
            · rw [e1]
      · have hno : ∀ i, sf.ty.id ≠ .object i := fun i h => hobj ⟨i, h⟩
        have hnewfacts : ∀ (hnew : absFieldA ok c.s c.q c.o sf sub = true),
            posKeys c.s sub = ["__typename"] ∧ ownSels sub = [] ∧ strip sub = sub := by
          intro hnew
          have hnf := absSubA_nofield (C01NA.absFieldA_parts hnew).2.2.2
          exact ⟨by simp [posKeys, ownSels_nil hnf, fieldKeys], ownSels_nil hnf, strip_eq_self hnf⟩
        have hon : EnumSpec.nodup (rustNames c [] ++ ["on"]) = true := by
          show EnumSpec.nodup ["on"] = true
          decide
        rcases C01NA.aSel_nonobj hsf hno h with hs | ⟨hs, hnew⟩
        · cases hid : sf.ty.id with
          | object i => exact absurd hid (hno i)
          | scalar k => simp [hs]
          | «enum» k => simp [hs]
          | interface k => simp [hs]
          | union k => simp [hs]
          | input k => simp [hs]
        · obtain ⟨h1, h2, h3⟩ := hnewfacts hnew
          cases hid : sf.ty.id with
          | object i => exact absurd hid (hno i)
          | scalar k => simp [hs, h1, h2, h3, hon]
          | «enum» k => simp [hs, h1, h2, h3, hon]
          | interface k => simp [hs, h1, h2, h3, hon]
          | union k => simp [hs, h1, h2, h3, hon]
          | input k => simp [hs, h1, h2, h3, hon]
    | .spread g, _ => by intro _; simp [sideOkSelA, C01NA.sideOkSelA]
    | .inline _ _, _ => by intro _; simp [sideOkSelA, C01NA.sideOkSelA]
    | .typename, _ => by intro _; simp [sideOkSelA, C01NA.sideOkSelA]
  theorem sideOkSelsA_eq_A {ok : TypeId → Nat → Bool} (KN : String → List String) (c : Ctx) : ∀ (sels : List Sel)
      (p : TypeId), C01NA.aSels ok c.s c.q c.o p sels = true → sideOkSelsA KN c sels = C01NA.sideOkSelsA KN c sels
    | [], _ => by intro _; rfl
    | x :: xs, p => by
      intro h
      obtain ⟨hx, hxs⟩ := C01NA.aSels_cons h
      rw [sideOkSelsA, C01NA.sideOkSelsA, sideOkSelA_eq_A KN c x p hx, sideOkSelsA_eq_A KN c xs p hxs]
end

mutual
  theorem keysOkA_eq_A {ok : TypeId → Nat → Bool} (KN : String → List String) (c : Ctx) : ∀ (x : Sel) (p : TypeId),
      C01NA.aSel ok c.s c.q c.o p x = true → keysOkA KN c x = C01NA.keysOkA KN c x
    | .field a fid sub, p => by
      intro h
      have IH := keysOksA_eq_A (ok := ok) KN c sub
      obtain ⟨sf, hsf⟩ := C01NA.aSel_field_some h
      rw [keysOkA, C01NA.keysOkA]
      simp only [hsf, Option.map_some]
      by_cases hobj : ∃ i, sf.ty.id = .object i
      · obtain ⟨i, hid⟩ := hobj
        obtain ⟨_, _, _, hb⟩ := C01NA.aSel_obj hsf hid h
        simp only [hid]
        by_cases hsp : ∃ g, sub = [Sel.spread g]
        · obtain ⟨g, rfl⟩ := hsp
          simp [keysOksA, keysOkA, C01NA.keysOksA, C01NA.keysOkA]
        · have hnl : ∀ g, sub ≠ [Sel.spread g] := fun g hg => hsp ⟨g, hg⟩
          rw [C01NA.aBody_not_lone hnl] at hb
          rw [IH _ hb]
      · have hno : ∀ i, sf.ty.id ≠ .object i := fun i h => hobj ⟨i, h⟩
        rcases C01NA.aSel_nonobj hsf hno h with hs | ⟨hs, hnew⟩
        · cases hid : sf.ty.id with
          | object i => exact absurd hid (hno i)
          | scalar k => simp [hs]
          | «enum» k => simp [hs]
          | interface k => simp [hs]
          | union k => simp [hs]
          | input k => simp [hs]
        · have h3 : strip sub = sub := strip_eq_self (absSubA_nofield (C01NA.absFieldA_parts hnew).2.2.2)
          cases hid : sf.ty.id with
          | object i => exact absurd hid (hno i)
          | scalar k => simp [hs, h3]
          | «enum» k => simp [hs, h3]
          | interface k => simp [hs, h3]
          | union k => simp [hs, h3]
          | input k => simp [hs, h3]
    | .spread g, _ => by intro _; simp [keysOkA, C01NA.keysOkA]
    | .inline _ _, _ => by intro _; simp [keysOkA, C01NA.keysOkA]
    | .typename, _ => by intro _; simp [keysOkA, C01NA.keysOkA]
  theorem keysOksA_eq_A {ok : TypeId → Nat → Bool} (KN : String → List String) (c : Ctx) : ∀ (sels : List Sel)
      (p : TypeId), C01NA.aSels ok c.s c.q c.o p sels = true → keysOksA KN c sels = C01NA.keysOksA KN c sels
    | [], _ => by intro _; rfl
    | x :: xs, p => by
      intro h
      obtain ⟨hx, hxs⟩ := C01NA.aSels_cons h
      rw [keysOksA, C01NA.keysOksA, keysOkA_eq_A KN c x p hx, keysOksA_eq_A KN c xs p hxs]
end

/-- a lone spread or not: the payload fragments / side conditions of a body of `NestedAbsOp` -/
theorem body_agree_A {c : Ctx} {op : ROperation} (h : NestedAbsOp c op = true) :
    aPayss c.s c.q c.o op.sels = (C01NA.aPayss c.s c.q c.o op.sels).map (fun g => (g, ["__typename"])) ∧
      (∀ KN, sideOkSelsA KN c op.sels = C01NA.sideOkSelsA KN c op.sels) ∧
      ∀ KN, keysOksA KN c op.sels = C01NA.keysOksA KN c op.sels := by
  obtain ⟨_, _, hb⟩ := nestedAbsOp_parts h
  by_cases hsp : ∃ g, op.sels = [Sel.spread g]
  · obtain ⟨g, hg⟩ := hsp
    rw [hg]
    refine ⟨by simp [aPayss, aPays, C01NA.aPayss, C01NA.aPays], fun KN => ?_, fun KN => ?_⟩
    · simp [sideOkSelsA, sideOkSelA, C01NA.sideOkSelsA, C01NA.sideOkSelA]
    · simp [keysOksA, keysOkA, C01NA.keysOksA, C01NA.keysOkA]
  · have hnl : ∀ g, op.sels ≠ [Sel.spread g] := fun g hg => hsp ⟨g, hg⟩
    rw [C01NA.aBody_not_lone hnl] at hb
    exact ⟨aPayss_eq_A _ _ hb, fun KN => sideOkSelsA_eq_A KN c _ _ hb, fun KN => keysOksA_eq_A KN c _ _ hb⟩

theorem nestedGenKeysOk_eq_A (c : Ctx) (op : ROperation) (h : NestedAbsOp c op = true) :
    nestedGenKeysOk c op = nestedAbsKeysOk c op := by
  unfold nestedGenKeysOk nestedAbsKeysOk
  rw [aSpreadss_eq_A, (body_agree_A h).2.2]

theorem nestedGenSideOk_eq_A (c : Ctx) (op : ROperation) (h : NestedAbsOp c op = true) :
    nestedGenSideOk c op = nestedAbsSideOk c op := by
  unfold nestedGenSideOk nestedAbsSideOk
  rw [aSpreadss_eq_A, (body_agree_A h).2.1]

theorem absTagOk_eq_A (c : Ctx) (op : ROperation) (h : NestedAbsOp c op = true) :
    absTagOk c op = C01NA.absTagOk c op := by
  unfold absTagOk C01NA.absTagOk
  rw [(body_agree_A h).1, List.all_map]
  congr 1
  funext g
  simp

/-- **on `NestedAbsOp`, `nestedgen_roundtrip` is `nestedabs_roundtrip`**: same hypotheses, same specification, same
    canonical form -/
theorem nestedgen_roundtrip_on_nestedAbsOp (c : Ctx) (opIdx : Nat) (op : ROperation) (items : List Item)
    (hop : c.q.operations[opIdx]? = some op) (ht : NestedAbsOp c op = true) (hnd : fragNamesOk c = true)
    (hk : nestedAbsKeysOk c op = true) (htag : C01NA.absTagOk c op = true) (hr : nestedAbsSideOk c op = true)
    (hgen : responseForQuery c opIdx = .ok items) (hok : moduleOk c items = true)
    (j : Json) (hc : conformsOpN c op j = true) :
    Serde.roundtrip (moduleEnv c items) (.path "ResponseData") j =
      .ok (normJson (C01NA.canonSelA (centN c c.q.fragments.length) c.s c.q c.o op.sels j)) := by
  have h := nestedgen_roundtrip c opIdx op items hop (nestedGenOp_of_nestedAbsOp c op ht) hnd
    (by rw [nestedGenKeysOk_eq_A c op ht]; exact hk) (by rw [absTagOk_eq_A c op ht]; exact htag)
    (by rw [nestedGenSideOk_eq_A c op ht]; exact hr) hgen hok j hc
  rw [h, canonSelA_eq_A _ _ _ _ (nestedAbsOp_parts ht).2.2]

/-- … and `nestedgen_precise_iff` is `nestedabs_precise_iff` there -/
theorem conformsLooseA_eq_A_op (c : Ctx) (op : ROperation) (ht : NestedAbsOp c op = true)
    (whole : Nat → Bool → Json → Bool) (b : Bool) (j : Json) :
    conformsLooseA whole c.s c.q c.o b op.sels j = C01NA.conformsLooseA whole c.s c.q c.o b op.sels j :=
  conformsLooseA_eq_A whole b _ _ j (nestedAbsOp_parts ht).2.2

end C01NG
end GqlVerif
