import GqlVerif.Proofs.C04DefaultsLit
import GqlVerif.Proofs.C04RustCoercion
import Std.Data.String.ToInt
/-!
# C04 — what a `default_*` body denotes: `evalLit`

* `valueJson` — the JSON spelling of a GraphQL constant (`Value`): enum values as strings, float tokens as opaque
  JSON numbers; (a variable — which the generator panics on — as `null`).
* `evalLit e lit ty` — the `Serde.Val` the Rust expression `lit` denotes at the Rust type `ty` in the module `e`,
  `none` = "does not type-check": `Some(..)` / `None` only at `Option<_>`, `vec![..]` at `Vec<_>`, `Box::new(..)` at
  `Box<_>`, `true` at `bool`, `"s".to_string()` at `String`, an integer literal at `i64` (in range), a float literal at
  `f64`, `Name { .. }` at a struct item of that name whose members are exactly the listed ones (in declaration order,
  as the generator writes them; each at the member's type), `Enum::Variant` at a string enum that has the variant,
  `Enum::Variant(e)` at a `@oneOf` enum (payload at the variant's type; `Enum::Other(s)` of a string enum), and
  nothing for `compile_error!` / an enum literal at a non-enum type.  Type aliases and the consumer's types
  (`externs`) are unfolded at the head (`resolveTy`), the four leaf names `String`/`i64`/`f64`/`bool` first, as in
  `Serde.dePath` / `C04S.HasTy`.
* an `f64` value is a `Val.float j` carrying the JSON number it is written as (the project's convention): for the
  literal token `tok` that is `floatJson tok` — the integer `n` when `tok` is the decimal of `n` (the generator writes
  the integer default `7` of a `Float` variable as the float literal of `7`), the opaque number `tok` otherwise.
* `kindOk` — the side condition of the theorems on a default value that JSON cannot express: no variable inside (the
  generator panics; its JSON spelling is taken to be `null`), string literals not at enum positions, enum literals only
  at enum positions, float tokens are not integer tokens (the GraphQL grammar guarantees it: a float has a fraction or
  an exponent).  `null` is not restricted: `ValidC` accepts it exactly at nullable positions, where the (repaired)
  generator writes `None`; at a non-null position it is invalid, and the generator panics.
* `Good e lit r out x` — what the main induction (`C04DefaultsCore.lean`) shows of a literal.
-/
namespace GqlVerif
namespace C04D
open Codegen Serde C04S C04R C13

/-! ## the JSON spelling of a constant -/

mutual
  def valueJson : Value → Json
    | .int n => .int n
    | .float tok => .num tok
    | .str s => .str s
    | .bool b => .bool b
    | .null => .null
    | .enum e => .str e
    | .var _ => .null
    | .list xs => .arr (valueJsonList xs)
    | .obj kvs => .obj (valueJsonKvs kvs)
  def valueJsonList : List Value → List Json
    | [] => []
    | x :: xs => valueJson x :: valueJsonList xs
  def valueJsonKvs : List (String × Value) → List (String × Json)
    | [] => []
    | (k, v) :: rest => (k, valueJson v) :: valueJsonKvs rest
end

theorem valueJsonList_eq_map : ∀ xs, valueJsonList xs = xs.map valueJson
  | [] => by rw [valueJsonList]; rfl
  | x :: xs => by rw [valueJsonList, valueJsonList_eq_map xs]; rfl

mutual
  /-- nesting depth of a constant (what the fuel of `literalOk` / `valueToLiteral` counts) -/
  def valueDepth : Value → Nat
    | .list xs => valueDepthList xs + 1
    | .obj kvs => valueDepthKvs kvs + 1
    | _ => 0
  def valueDepthList : List Value → Nat
    | [] => 0
    | x :: xs => max (valueDepth x) (valueDepthList xs)
  def valueDepthKvs : List (String × Value) → Nat
    | [] => 0
    | (_, v) :: rest => max (valueDepth v) (valueDepthKvs rest)
end

mutual
  /-- see the header -/
  def kindOk (s : Schema) : TypeId → Value → Bool
    | _, .null => true      -- whether `null` is allowed at the position is `ValidC`'s business
    | _, .var _ => false
    | id, .str _ => id.asEnum?.isNone
    | id, .enum _ => id.asEnum?.isSome
    | _, .float tok => tok.toInt?.isNone
    | _, .int _ => true
    | _, .bool _ => true
    | id, .list xs => kindOkList s id xs
    | id, .obj kvs =>
      match inputOf s id with
      | some i => kindOkKvs s i.fields kvs
      | none => true
  def kindOkList (s : Schema) : TypeId → List Value → Bool
    | _, [] => true
    | id, x :: xs => kindOk s id x && kindOkList s id xs
  def kindOkKvs (s : Schema) : List (String × FieldType) → List (String × Value) → Bool
    | _, [] => true
    | fields, (k, v) :: rest =>
      (match fields.find? (·.1 == k) with
       | some p => kindOk s p.2.id v
       | none => true) && kindOkKvs s fields rest
end

/-! ## evaluation -/

/-- the JSON number the `f64` literal `tok` is written as -/
def floatJson (tok : String) : Json :=
  match tok.toInt? with
  | some n => .int n
  | none => .num tok

theorem floatJson_int (n : Int) : floatJson (toString n) = .int n := by
  show floatJson n.repr = _
  simp [floatJson]

theorem floatJson_ok (tok : String) : Spec.floatOk (floatJson tok) = true := by
  unfold floatJson; split <;> rfl

def isPrimName (p : String) : Bool := p == "String" || p == "i64" || p == "f64" || p == "bool"

theorem isPrimName_false {p : String} (h : C01.notPrim p) : isPrimName p = false := by
  simp [isPrimName, h.1, h.2.1, h.2.2.1, h.2.2.2]

theorem notPrim_of {p : String} (h : isPrimName p = false) : C01.notPrim p := by
  simpa [isPrimName, C01.notPrim, and_assoc] using h

/-- unfold type aliases and the consumer's types at the head of a type expression (at most `n` hops) -/
def resolveTyN (e : Env) : Nat → RTy → RTy
  | n+1, .path p =>
    if isPrimName p then .path p else
    match e.find p with
    | some (.alias _ _ t) => resolveTyN e n t
    | some _ => .path p
    | none =>
      match e.externs.find? (·.1 == p) with
      | some (_, t) => resolveTyN e n t
      | none => .path p
  | _, t => t

/-- no chain of distinct names is longer than the module and the consumer's table together -/
def resolveTy (e : Env) (t : RTy) : RTy := resolveTyN e (e.items.length + e.externs.length + 2) t

mutual
  /-- the value of the Rust expression at the Rust type; `none`: it does not type-check (see the header) -/
  def evalLit (e : Env) : LitExpr → RTy → Option Val
    | .some l, ty =>
      match resolveTy e ty with
      | .opt t => (evalLit e l t).map Val.some
      | _ => none
    | .none, ty =>
      match resolveTy e ty with
      | .opt _ => some .unit
      | _ => none
    | .vec ls, ty =>
      match resolveTy e ty with
      | .vec t => (evalList e ls t).map Val.list
      | _ => none
    | .box l, ty =>
      match resolveTy e ty with
      | .box t => evalLit e l t
      | _ => none
    | .bool b, ty => if resolveTy e ty = .path "bool" then some (.bool b) else none
    | .str s, ty => if resolveTy e ty = .path "String" then some (.str s) else none
    | .int n, ty => if resolveTy e ty = .path "i64" ∧ inI64 n = true then some (.int n) else none
    | .float tok, ty => if resolveTy e ty = .path "f64" then some (.float (floatJson tok)) else none
    | .struct name fields, ty =>
      match resolveTy e ty with
      | .path p =>
        if isPrimName p = false ∧ resolveTy e (.path name) = .path p then
          match e.find p with
          | some (.struct _ _ _ fs) => (evalFields e fs fields).map Val.record
          | _ => none
        else none
      | _ => none
    | .path en var, ty =>
      match resolveTy e ty with
      | .path p =>
        if isPrimName p = false ∧ resolveTy e (.path en) = .path p then
          match e.find p with
          | some (.gqlEnum _ _ _ vs _ _) => if var ∈ vs then some (.variant var none) else none
          | _ => none
        else none
      | _ => none
    | .variant en var l, ty =>
      match resolveTy e ty with
      | .path p =>
        if isPrimName p = false ∧ resolveTy e (.path en) = .path p then
          match e.find p with
          | some (.oneOf _ _ _ vs) =>
            (match vs.find? (·.name == var) with
             | some v =>
               (match v.payload with
                | some t => (evalLit e l t).map (fun x => Val.variant var (some x))
                | none => none)
             | none => none)
          | some (.gqlEnum ..) =>
            -- `Enum::Other("..".to_string())`
            if var = "Other" then (evalLit e l (.path "String")).bind (fun x =>
              match x with
              | .str s => some (.enumOther s)
              | _ => none)
            else none
          | _ => none
        else none
      | _ => none
    | .ident _, _ => none
    | .compileError _, _ => none
  def evalList (e : Env) : List LitExpr → RTy → Option (List Val)
    | [], _ => some []
    | l :: ls, t => do
      let x ← evalLit e l t
      let xs ← evalList e ls t
      pure (x :: xs)
  /-- the members of a struct literal against the members of the struct, in declaration order -/
  def evalFields (e : Env) : List RField → List (String × LitExpr) → Option (List (String × Val))
    | [], [] => some []
    | f :: fs, (n, l) :: rest =>
      if n = f.rust then do
        let x ← evalLit e l f.ty
        let xs ← evalFields e fs rest
        pure ((f.rust, x) :: xs)
      else none
    | _, _ => none
end

/-! ## what is shown of a literal -/

/-- the literal `lit` has no `compile_error!`, type-checks at `r` in `e` where it denotes `x : r`, which is written as
    `out` (at every sufficient fuel; `out` in `serde_json::Value` normal form) -/
structure Good (e : Env) (lit : LitExpr) (r : RTy) (out : Json) (x : Val) : Prop where
  noErr : lit.hasCompileError = false
  eval : evalLit e lit r = some x
  ty : HasTy e r x
  unit : x.isUnit = out.isNull
  ser : ∀ fuel, valSize x ≤ fuel → serTyWith (serPath e fuel) r x = .ok out
  norm : normJson out = out

end C04D
end GqlVerif
