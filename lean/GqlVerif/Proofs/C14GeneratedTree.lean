import GqlVerif.Proofs.C14GeneratedNested
import GqlVerif.Proofs.C01EndToEnd
/-!
# P26 (3/4, part 1) — C14: the generator link for object-tree operations WITH denied fields

`C01.E2E.TreeOp` excludes every selection of a deprecated field under `deny` (its closed form has a member per
selected field).  Here the class **`TreeOpD`**: the same selection trees (`.field` with or without alias over object
types at any depth, scalar / enum leaves, `.typename`; no fragment, no flatten) *including* deprecated fields under any
strategy; key distinctness is required of the **kept** keys only (the response keys of the selections that are not
omitted), so "the denied key is not also the key of a kept sibling" is a separate, explicit side condition.

* `isDenied`, `keptKey(s)`, `deniedKey(s)`; `fieldOfSelD` / `fieldsOfD` / `itemsOfSel(s)D` / `structItemsD` — closed form
  of the emitted items: a denied field contributes **no member**, but — in the model as in `selection.rs` — the struct of
  its sub-selection **is still emitted** (dead code);
* **`tree_items_shapeD`** (Theorem 1 for the class): `responseItems c op = .ok (structItemsD …)`;
  `treeOpD_of_treeOp`: the class contains `TreeOp`;
* `Node c root pfx₀ sels₀ name pfx sels` — "`name` is the struct of the selection set `sels` at some path below the
  root"; `node_struct`: that struct is what `name` resolves to in `moduleEnv c items`, with members `fieldsOfD c pfx sels`,
  whose wire names are exactly `keptKeys c sels` (`fieldsOfD_wires`);
* **`denied_field_keyFree`** — `responseForQuery c i = .ok items`, `TreeOpD`, item names distinct, the selection set
  at a node selects a field that is deprecated, the strategy is `deny`, its response key `k` is not a kept key of that
  selection set ⟹ `KeyFree (moduleEnv c items) k name` and no member of the struct has wire name `k`;
  `unselected_key_keyFree` — the same for every key that is not a kept key;
  necessity of the side condition: `C14GeneratedWitness.sibling_key_matters`.
-/
set_option linter.unusedSimpArgs false
set_option linter.unusedSectionVars false

namespace GqlVerif
namespace C14G
open Serde Composed SerdeFuel Codegen C13 C01 C01.E2E

/-! ## denied / kept selections -/

/-- the field is omitted: deprecated, and the strategy is `deny` -/
def isDenied (c : Ctx) (sf : StoredField) : Bool := sf.deprecation.isSome && c.o.deprecation == .deny

/-- response key of a field selection that is **not** omitted -/
def keptKey (c : Ctx) : Sel → Option String
  | .field a fid _ => match c.s.fields[fid]? with
    | some sf => if isDenied c sf then none else some (a.getD sf.name)
    | none => none
  | _ => none

/-- response key of a field selection that is omitted -/
def deniedKey (c : Ctx) : Sel → Option String
  | .field a fid _ => match c.s.fields[fid]? with
    | some sf => if isDenied c sf then some (a.getD sf.name) else none
    | none => none
  | _ => none

def keptKeys (c : Ctx) (sels : List Sel) : List String := sels.filterMap (keptKey c)
def deniedKeys (c : Ctx) (sels : List Sel) : List String := sels.filterMap (deniedKey c)

/-! ## closed form of the emitted items -/

def fieldOfSelD (c : Ctx) (pfx : String) : Sel → Option RField
  | .field a fid _ =>
    match c.s.fields[fid]? with
    | none => none
    | some sf =>
      if isDenied c sf then none else
      match leafName c pfx (a.getD sf.name) sf.ty.id with
      | none => none
      | some ft => some (fieldOf c (a.getD sf.name) ft sf.ty.quals sf.deprecation)
  | _ => none

def fieldsOfD (c : Ctx) (pfx : String) (sels : List Sel) : List RField := sels.filterMap (fieldOfSelD c pfx)

mutual
  /-- the struct of the sub-selection is emitted whether or not the field itself is omitted -/
  def itemsOfSelD (c : Ctx) (pfx : String) : Sel → List Item
    | .field a fid sub =>
      match c.s.fields[fid]? with
      | none => []
      | some sf =>
        match sf.ty.id with
        | .object _ =>
          .struct (pfx ++ c.cs.camel (a.getD sf.name)) c.respDerives c.serdeCrate
              (fieldsOfD c (pfx ++ c.cs.camel (a.getD sf.name)) sub) ::
            itemsOfSelsD c (pfx ++ c.cs.camel (a.getD sf.name)) sub
        | _ => []
    | _ => []
  def itemsOfSelsD (c : Ctx) (pfx : String) : List Sel → List Item
    | [] => []
    | x :: xs => itemsOfSelD c pfx x ++ itemsOfSelsD c pfx xs
end

def structItemsD (c : Ctx) (name pfx : String) (sels : List Sel) : List Item :=
  .struct name c.respDerives c.serdeCrate (fieldsOfD c pfx sels) :: itemsOfSelsD c pfx sels

/-! ## the class -/

mutual
  /-- one selection of the class: a field that exists, without `!!`; of scalar / enum type without sub-selection, or of
      object type with a sub-selection of the class whose **kept** keys are pairwise distinct; or `__typename`.
      Deprecated fields are allowed under every strategy. -/
  def treeSelD (c : Ctx) : Sel → Bool
    | .field _ fid sub =>
      match c.s.fields[fid]? with
      | none => false
      | some sf =>
        wfQuals sf.ty.quals &&
        (match sf.ty.id with
         | .scalar k => (c.s.scalars[k]?).isSome && sub.isEmpty
         | .enum k => (c.s.enums[k]?).isSome && sub.isEmpty
         | .object i => (c.s.objects[i]?).isSome && treeSelsD c sub && EnumSpec.nodup (keptKeys c sub)
         | _ => false)
    | .typename => true
    | _ => false
  def treeSelsD (c : Ctx) : List Sel → Bool
    | [] => true
    | x :: xs => treeSelD c x && treeSelsD c xs
end

/-- **the class** (decidable) -/
def TreeOpD (c : Ctx) (op : ROperation) : Bool :=
  c.o.normalization == .none && (c.s.objects[op.objectId]?).isSome &&
  treeSelsD c op.sels && EnumSpec.nodup (keptKeys c op.sels)

theorem treeSelsD_cons {c : Ctx} {x : Sel} {xs : List Sel} (h : treeSelsD c (x :: xs) = true) :
    treeSelD c x = true ∧ treeSelsD c xs = true := by
  simpa [treeSelsD] using h

theorem treeSelD_of_mem {c : Ctx} {x : Sel} : ∀ {xs : List Sel}, treeSelsD c xs = true → x ∈ xs → treeSelD c x = true
  | [], _, h => by simp at h
  | y :: ys, ht, h => by
    obtain ⟨hy, hys⟩ := treeSelsD_cons ht
    rcases List.mem_cons.mp h with rfl | h
    · exact hy
    · exact treeSelD_of_mem hys h

theorem treeOpD_parts {c : Ctx} {op : ROperation} (h : TreeOpD c op = true) :
    c.o.normalization = .none ∧ treeSelsD c op.sels = true ∧ EnumSpec.nodup (keptKeys c op.sels) = true := by
  simp only [TreeOpD, Bool.and_eq_true, beq_iff_eq] at h
  exact ⟨h.1.1.1, h.1.2, h.2⟩

/-! ## the class contains `TreeOp` (where nothing is denied the two closed forms coincide) -/

theorem keptKeys_sublist_respKeys (c : Ctx) : ∀ sels : List Sel, (keptKeys c sels).Sublist (respKeys c.s sels)
  | [] => by simp [keptKeys, respKeys]
  | x :: xs => by
    have ih := keptKeys_sublist_respKeys c xs
    simp only [keptKeys, respKeys, List.filterMap_cons] at ih ⊢
    cases x with
    | field a fid sub =>
      simp only [keptKey, respKey]
      cases hsf : c.s.fields[fid]? with
      | none => simpa using ih
      | some sf =>
        simp only [Option.map_some]
        by_cases hd : isDenied c sf = true
        · simp only [hd, ↓reduceIte]; exact List.Sublist.cons _ ih
        · simp only [hd, Bool.false_eq_true, ↓reduceIte]; exact List.Sublist.cons_cons _ ih
    | spread g => simpa [keptKey, respKey] using ih
    | inline t sub => simpa [keptKey, respKey] using ih
    | typename =>
      simp only [keptKey, respKey]
      exact List.Sublist.cons _ ih

theorem nodup_kept_of_resp (c : Ctx) (sels : List Sel) (h : EnumSpec.nodup (respKeys c.s sels) = true) :
    EnumSpec.nodup (keptKeys c sels) = true :=
  nodup_iff'.mpr (List.Nodup.sublist (keptKeys_sublist_respKeys c sels) (nodup_iff'.mp h))

mutual
  theorem treeSelD_of_treeSel (c : Ctx) : ∀ x : Sel, treeSel c.s c.o x = true → treeSelD c x = true
    | .field a fid sub => by
      intro h
      have IH := treeSelsD_of_treeSels c sub
      rw [treeSel] at h
      rw [treeSelD]
      cases hsf : c.s.fields[fid]? with
      | none => simp [hsf] at h
      | some sf =>
        simp only [hsf, Bool.and_eq_true] at h ⊢
        refine ⟨h.1.1, ?_⟩
        have hty := h.2
        cases hid : sf.ty.id with
        | scalar k => simpa [hid] using hty
        | enum k => simpa [hid] using hty
        | object i =>
          simp only [hid, Bool.and_eq_true] at hty ⊢
          exact ⟨⟨hty.1.1, IH hty.1.2⟩, nodup_kept_of_resp c sub hty.2⟩
        | interface k => simp [hid] at hty
        | union k => simp [hid] at hty
        | input k => simp [hid] at hty
    | .spread _ => by intro h; simp [treeSel] at h
    | .inline _ _ => by intro h; simp [treeSel] at h
    | .typename => by intro _; simp [treeSelD]
  theorem treeSelsD_of_treeSels (c : Ctx) : ∀ xs : List Sel, treeSels c.s c.o xs = true → treeSelsD c xs = true
    | [] => by intro _; simp [treeSelsD]
    | x :: xs => by
      intro h
      obtain ⟨hx, hxs⟩ := treeSels_cons h
      rw [treeSelsD, treeSelD_of_treeSel c x hx, treeSelsD_of_treeSels c xs hxs]
      rfl
end

theorem treeOpD_of_treeOp {c : Ctx} {op : ROperation} (h : TreeOp c op = true) : TreeOpD c op = true := by
  obtain ⟨hn, ho, hs, hk⟩ := treeOp_parts h
  simp only [TreeOpD, Bool.and_eq_true, beq_iff_eq]
  exact ⟨⟨⟨hn, ho⟩, treeSelsD_of_treeSels c _ hs⟩, nodup_kept_of_resp c _ hk⟩

/-! ## Theorem 1 for the class -/

theorem renderField_denied (c : Ctx) (g ft : String) (quals : List Qual) (dep : Option (Option String))
    (hw : wfQuals quals = true) (hdep : (dep.isSome && c.o.deprecation == .deny) = true) :
    renderField c (some g) (keywordReplace (c.cs.snake g)) ft quals false false dep = .ok none := by
  unfold renderField
  have hd := decorate_spec (.path ft) (gtyOf quals) (by rw [wf_gtyOf]; exact hw)
  rw [quals_gtyOf] at hd
  rw [hd]
  simp only [Bool.and_eq_true, beq_iff_eq] at hdep
  obtain ⟨h1, h2⟩ := hdep
  cases dep with
  | none => simp at h1
  | some m => simp [bind, Except.bind, h2, pure, Except.pure]

/-- either way, in one statement: what `renderField` returns for a selected field of the class -/
theorem renderField_D (c : Ctx) (sf : StoredField) (g ft : String) (hw : wfQuals sf.ty.quals = true) :
    renderField c (some g) (keywordReplace (c.cs.snake g)) ft sf.ty.quals false false sf.deprecation =
      .ok (if isDenied c sf then none else some (fieldOf c g ft sf.ty.quals sf.deprecation)) := by
  by_cases hd : isDenied c sf = true
  · rw [if_pos hd]; exact renderField_denied c g ft _ _ hw hd
  · rw [if_neg hd]
    exact renderField_tree c g ft _ _ hw (by simpa [isDenied] using hd)

section Calc
variable (c : Ctx) (hn : c.o.normalization = .none)

def S1D (fuel : Nat) : Prop := ∀ name pfx i sels, treeSelsD c sels = true → 2 * selsSize sels + 2 ≤ fuel →
  calcSelection c fuel name pfx (.object i) sels = .ok (structItemsD c name pfx sels)
def S4D (fuel : Nat) : Prop := ∀ pfx ty sels, treeSelsD c sels = true → 2 * selsSize sels + 1 ≤ fuel →
  calcFields c fuel pfx ty sels = .ok (fieldsOfD c pfx sels, itemsOfSelsD c pfx sels)

theorem stepS1D (f : Nat) (H4 : S4D c f) : S1D c (f + 1) := by
  intro name pfx i sels ht hf
  have hsp : ∀ g, sels = [Sel.spread g] → False := by
    intro g hg; subst hg; simp [treeSelsD, treeSelD] at ht
  rw [calcSelection.eq_3 _ _ _ _ _ _ hsp]
  have hv : variantsOf c.s (.object i) = .ok none := rfl
  simp only [hv, bind, Except.bind, pure, Except.pure]
  rw [H4 pfx (.object i) sels ht (by omega)]
  simp [renderType, structItemsD]

include hn in
theorem stepS4D (f : Nat) (H1 : S1D c f) (H4 : S4D c f) : S4D c (f + 1) := by
  intro pfx ty sels ht hf
  cases sels with
  | nil => rw [calcFields.eq_2 _ _ _ _ (by omega)]; rfl
  | cons x rest =>
    obtain ⟨hx, hrest⟩ := treeSelsD_cons ht
    rw [selsSize.eq_2] at hf
    have hR := H4 pfx ty rest hrest (by have := C02.selSize_pos x; omega)
    cases x with
    | field a fid sub =>
      rw [selSize.eq_1] at hf
      rw [calcFields.eq_3]
      rw [treeSelD] at hx
      cases hsf : c.s.fields[fid]? with
      | none => simp [hsf] at hx
      | some sf =>
        simp only [hsf, Bool.and_eq_true] at hx
        obtain ⟨hw, hty⟩ := hx
        simp only [getField_of hsf, bind, Except.bind]
        cases hid : sf.ty.id with
        | scalar k =>
          simp only [hid, Bool.and_eq_true] at hty
          cases hk : c.s.scalars[k]? with
          | none => simp [hk] at hty
          | some sn =>
            simp only [getScalar_of hk, hn, C02.fieldType_none, renderField_D c sf _ _ hw, hR, pure, Except.pure]
            by_cases hd : isDenied c sf = true <;>
              simp [fieldsOfD, itemsOfSelsD, itemsOfSelD, fieldOfSelD, hsf, hid, leafName, hk, hd]
        | enum k =>
          simp only [hid, Bool.and_eq_true] at hty
          cases hk : c.s.enums[k]? with
          | none => simp [hk] at hty
          | some en =>
            simp only [getEnum_of hk, hn, C02.fieldType_none, renderField_D c sf _ _ hw, hR, pure, Except.pure]
            by_cases hd : isDenied c sf = true <;>
              simp [fieldsOfD, itemsOfSelsD, itemsOfSelD, fieldOfSelD, hsf, hid, leafName, hk, hd]
        | object i =>
          simp only [hid, Bool.and_eq_true] at hty
          have hS := H1 (pfx ++ c.cs.camel (a.getD sf.name)) (pfx ++ c.cs.camel (a.getD sf.name)) i sub hty.1.2 (by omega)
          simp only [renderField_D c sf _ _ hw, hS, hR, pure, Except.pure]
          by_cases hd : isDenied c sf = true <;>
            simp [fieldsOfD, itemsOfSelsD, itemsOfSelD, fieldOfSelD, hsf, hid, leafName, structItemsD, hd]
        | interface k => simp [hid] at hty
        | union k => simp [hid] at hty
        | input k => simp [hid] at hty
    | spread g => simp [treeSelD] at hx
    | inline t sub => simp [treeSelD] at hx
    | typename =>
      rw [calcFields.eq_5 _ _ _ _ _ _ (by simp) (by simp), hR]
      have h1 : fieldOfSelD c pfx .typename = none := rfl
      have h2 : itemsOfSelD c pfx .typename = [] := by simp [itemsOfSelD]
      simp [fieldsOfD, itemsOfSelsD, h1, h2]

include hn in
theorem calc_treeD : ∀ fuel, S1D c fuel ∧ S4D c fuel := by
  intro fuel
  induction fuel with
  | zero => exact ⟨fun _ _ _ _ _ h => by omega, fun _ _ _ _ h => by omega⟩
  | succ f ih => exact ⟨stepS1D c f ih.2, stepS4D c hn f ih.1 ih.2⟩

end Calc

/-- **Theorem 1 for `TreeOpD`**: the response items in closed form — a denied field has no member, the struct of its
    sub-selection is there all the same -/
theorem tree_items_shapeD (c : Ctx) (op : ROperation) (hop : op ∈ c.q.operations) (ht : TreeOpD c op = true) :
    responseItems c op = .ok (structItemsD c "ResponseData" (c.cs.camel op.name) op.sels) := by
  obtain ⟨hn, hsels, _⟩ := treeOpD_parts ht
  exact (calc_treeD c hn _).1 _ _ _ _ hsels (calcFuel_ge c op hop)

/-- the response structs are the tail of the emitted module -/
theorem tree_module_shapeD (c : Ctx) (opIdx : Nat) (op : ROperation) (items : List Item)
    (hop : c.q.operations[opIdx]? = some op) (ht : TreeOpD c op = true)
    (hgen : responseForQuery c opIdx = .ok items) :
    ∃ pre, items = Codegen.builtinAliases ++ pre ++ structItemsD c "ResponseData" (c.cs.camel op.name) op.sels := by
  obtain ⟨u, S, E, I, V, F, o, resp, _, _, _, ho, hresp, hitems⟩ := responseForQuery_parts hgen
  rw [hop] at ho; cases ho
  rw [tree_items_shapeD c op (List.mem_of_getElem? hop) ht] at hresp
  cases hresp
  exact ⟨S ++ E ++ I ++ V ++ F, by rw [hitems]; simp⟩

/-! ## members of the emitted structs -/

theorem fieldOfSelD_wire {c : Ctx} {pfx : String} {x : Sel} {f : RField} (h : fieldOfSelD c pfx x = some f) :
    keptKey c x = some f.wire ∧ f.flatten = false := by
  cases x with
  | field a fid sub =>
    simp only [fieldOfSelD, keptKey] at h ⊢
    cases hsf : c.s.fields[fid]? with
    | none => simp [hsf] at h
    | some sf =>
      simp only [hsf] at h ⊢
      by_cases hd : isDenied c sf = true
      · simp [hd] at h
      · simp only [hd, Bool.false_eq_true, ↓reduceIte] at h ⊢
        cases hl : leafName c pfx (a.getD sf.name) sf.ty.id with
        | none => simp [hl] at h
        | some ft =>
          simp only [hl, Option.some.injEq] at h
          subst h
          exact ⟨by rw [fieldOf_wire], rfl⟩
  | spread g => simp [fieldOfSelD] at h
  | inline t sub => simp [fieldOfSelD] at h
  | typename => simp [fieldOfSelD] at h

/-- every member's wire name is a kept key -/
theorem wire_mem_keptKeys {c : Ctx} {pfx : String} {sels : List Sel} {f : RField} (h : f ∈ fieldsOfD c pfx sels) :
    f.wire ∈ keptKeys c sels ∧ f.flatten = false := by
  obtain ⟨x, hx, hfx⟩ := List.mem_filterMap.mp h
  obtain ⟨h1, h2⟩ := fieldOfSelD_wire hfx
  exact ⟨List.mem_filterMap.mpr ⟨x, hx, h1⟩, h2⟩

/-- the wire names of the struct of a selection set of the class are exactly its kept keys, in order -/
theorem fieldsOfD_wires (c : Ctx) (pfx : String) : ∀ sels : List Sel, treeSelsD c sels = true →
    (fieldsOfD c pfx sels).map (·.wire) = keptKeys c sels
  | [], _ => rfl
  | x :: xs, ht => by
    obtain ⟨hx, hxs⟩ := treeSelsD_cons ht
    have ih := fieldsOfD_wires c pfx xs hxs
    simp only [fieldsOfD, keptKeys, List.filterMap_cons] at ih ⊢
    cases hf : fieldOfSelD c pfx x with
    | some f =>
      rw [(fieldOfSelD_wire hf).1]
      simp [ih]
    | none =>
      have hk : keptKey c x = none := by
        cases x with
        | field a fid sub =>
          rw [treeSelD] at hx
          simp only [fieldOfSelD, keptKey] at hf ⊢
          cases hsf : c.s.fields[fid]? with
          | none => rfl
          | some sf =>
            simp only [hsf, Bool.and_eq_true] at hf hx ⊢
            by_cases hd : isDenied c sf = true
            · simp [hd]
            · exfalso
              simp only [hd, Bool.false_eq_true, ↓reduceIte] at hf
              have hty := hx.2
              cases hid : sf.ty.id with
              | scalar k =>
                simp only [hid, Bool.and_eq_true] at hty
                cases hk : c.s.scalars[k]? with
                | none => simp [hk] at hty
                | some sn => simp [leafName, hid, hk] at hf
              | enum k =>
                simp only [hid, Bool.and_eq_true] at hty
                cases hk : c.s.enums[k]? with
                | none => simp [hk] at hty
                | some en => simp [leafName, hid, hk] at hf
              | object i => simp [leafName, hid] at hf
              | interface k => simp [hid] at hty
              | union k => simp [hid] at hty
              | input k => simp [hid] at hty
        | spread g => rfl
        | inline t sub => rfl
        | typename => rfl
      rw [hk]
      exact ih

/-! ## the nodes of the selection tree and their structs -/

/-- `name` / `pfx` / `sels`: the struct name, path prefix and selection set of a node of the selection tree below the
    node `root` / `pfx₀` / `sels₀` (through object-typed field selections — omitted ones included: their struct is emitted) -/
inductive Node (c : Ctx) : String → String → List Sel → String → String → List Sel → Prop
  | here (name pfx : String) (sels : List Sel) : Node c name pfx sels name pfx sels
  | step {root pfx₀ : String} {sels₀ : List Sel} {a : Option String} {fid : Nat} {sub : List Sel} {sf : StoredField} {i : Nat}
      {name pfx : String} {sels : List Sel} :
      Sel.field a fid sub ∈ sels₀ → c.s.fields[fid]? = some sf → sf.ty.id = .object i →
      Node c (pfx₀ ++ c.cs.camel (a.getD sf.name)) (pfx₀ ++ c.cs.camel (a.getD sf.name)) sub name pfx sels →
      Node c root pfx₀ sels₀ name pfx sels

theorem itemsOfSelsD_mem {c : Ctx} {pfx : String} {x : Sel} {it : Item} : ∀ {xs : List Sel}, x ∈ xs →
    it ∈ itemsOfSelD c pfx x → it ∈ itemsOfSelsD c pfx xs
  | [], h, _ => by simp at h
  | y :: ys, h, hit => by
    rw [itemsOfSelsD]
    rcases List.mem_cons.mp h with rfl | h
    · exact List.mem_append_left _ hit
    · exact List.mem_append_right _ (itemsOfSelsD_mem h hit)

/-- the struct of every node is among the emitted items, and its selection set is in the class -/
theorem node_item {c : Ctx} {root pfx₀ name pfx : String} {sels₀ sels : List Sel}
    (h : Node c root pfx₀ sels₀ name pfx sels) (ht : treeSelsD c sels₀ = true)
    (hk : EnumSpec.nodup (keptKeys c sels₀) = true) :
    Item.struct name c.respDerives c.serdeCrate (fieldsOfD c pfx sels) ∈ structItemsD c root pfx₀ sels₀ ∧
    treeSelsD c sels = true ∧ EnumSpec.nodup (keptKeys c sels) = true := by
  induction h with
  | here name pfx sels => exact ⟨by simp [structItemsD], ht, hk⟩
  | @step root pfx₀ sels₀ a fid sub sf i name pfx sels hmem hsf hid _ ih =>
    have hx := treeSelD_of_mem ht hmem
    rw [treeSelD] at hx
    simp only [hsf, hid, Bool.and_eq_true] at hx
    obtain ⟨h1, h2, h3⟩ := ih hx.2.1.2 hx.2.2
    refine ⟨?_, h2, h3⟩
    simp only [structItemsD, List.mem_cons]
    right
    apply itemsOfSelsD_mem hmem
    rw [itemsOfSelD]
    simp only [hsf, hid]
    simpa [structItemsD] using h1

/-! ## the structs in the environment of the emitted module, and `KeyFree` -/

/-- at a struct without flatten members `KeyFree` is just "no member has wire name `k`" (nothing else reads the object) -/
theorem keyFree_of_struct {e : Env} {k p n : String} {d : List String} {sc : Option String} {fs : List RField}
    (hfind : e.find p = some (.struct n d sc fs)) (hnf : ∀ f ∈ fs, f.flatten = false) (hk : ∀ f ∈ fs, f.wire ≠ k) :
    KeyFree e k p := by
  intro q hq it hf
  cases hq with
  | refl =>
    rw [hfind] at hf
    cases hf
    simp only [itemOK, List.all_eq_true, Bool.or_eq_true, bne_iff_ne, ne_eq]
    exact fun f hf' => .inr (hk f hf')
  | item hf' hq' _ =>
    rw [hfind] at hf'
    cases hf'
    simp only [sameLevel, List.mem_map, List.mem_filter] at hq'
    obtain ⟨f, ⟨hm, hfl⟩, _⟩ := hq'
    rw [hnf f hm] at hfl
    cases hfl
  | extern hn _ _ => rw [hfind] at hn; cases hn

/-- conversely: a member with wire name `k` refutes `KeyFree` -/
theorem not_keyFree_of_member {e : Env} {k p n : String} {d : List String} {sc : Option String} {fs : List RField}
    (hfind : e.find p = some (.struct n d sc fs)) {f : RField} (hm : f ∈ fs) (hfl : f.flatten = false) (hw : f.wire = k) :
    ¬ KeyFree e k p := by
  intro h
  have := h.ok hfind
  simp only [itemOK, List.all_eq_true, Bool.or_eq_true, bne_iff_ne, ne_eq] at this
  rcases this f hm with h1 | h1
  · rw [hfl] at h1; cases h1
  · exact h1 hw

/-- **the struct of every node of the selection tree is what its name resolves to in the emitted module**, with
    exactly the members `fieldsOfD` -/
theorem node_struct (c : Ctx) (opIdx : Nat) (op : ROperation) (items : List Item)
    (hop : c.q.operations[opIdx]? = some op) (ht : TreeOpD c op = true)
    (hgen : responseForQuery c opIdx = .ok items) (hnd : EnumSpec.nodup (items.map (·.name)) = true)
    {name pfx : String} {sels : List Sel} (hnode : Node c "ResponseData" (c.cs.camel op.name) op.sels name pfx sels) :
    (moduleEnv c items).find name = some (.struct name c.respDerives c.serdeCrate (fieldsOfD c pfx sels)) ∧
    treeSelsD c sels = true ∧ EnumSpec.nodup (keptKeys c sels) = true := by
  obtain ⟨_, hsels, hkeys⟩ := treeOpD_parts ht
  obtain ⟨pre, hitems⟩ := tree_module_shapeD c opIdx op items hop ht hgen
  obtain ⟨hmem, h2, h3⟩ := node_item hnode hsels hkeys
  refine ⟨?_, h2, h3⟩
  have hin : Item.struct name c.respDerives c.serdeCrate (fieldsOfD c pfx sels) ∈ items := by
    rw [hitems]; exact List.mem_append_right _ hmem
  exact find_of_mem (customExterns c) (nodup_iff'.mp hnd) hin

/-- **every key that is not a kept key of the selection set is `KeyFree` at its struct** -/
theorem unselected_key_keyFree (c : Ctx) (opIdx : Nat) (op : ROperation) (items : List Item)
    (hop : c.q.operations[opIdx]? = some op) (ht : TreeOpD c op = true)
    (hgen : responseForQuery c opIdx = .ok items) (hnd : EnumSpec.nodup (items.map (·.name)) = true)
    {name pfx : String} {sels : List Sel} (hnode : Node c "ResponseData" (c.cs.camel op.name) op.sels name pfx sels)
    {k : String} (hk : k ∉ keptKeys c sels) : KeyFree (moduleEnv c items) k name := by
  obtain ⟨hfind, _, _⟩ := node_struct c opIdx op items hop ht hgen hnd hnode
  exact keyFree_of_struct hfind (fun f hf => (wire_mem_keptKeys hf).2)
    (fun f hf hw => hk (hw ▸ (wire_mem_keptKeys hf).1))

/-- … and only those: a kept key is read -/
theorem kept_key_not_keyFree (c : Ctx) (opIdx : Nat) (op : ROperation) (items : List Item)
    (hop : c.q.operations[opIdx]? = some op) (ht : TreeOpD c op = true)
    (hgen : responseForQuery c opIdx = .ok items) (hnd : EnumSpec.nodup (items.map (·.name)) = true)
    {name pfx : String} {sels : List Sel} (hnode : Node c "ResponseData" (c.cs.camel op.name) op.sels name pfx sels)
    {k : String} (hk : k ∈ keptKeys c sels) : ¬ KeyFree (moduleEnv c items) k name := by
  obtain ⟨hfind, hsels, _⟩ := node_struct c opIdx op items hop ht hgen hnd hnode
  rw [← fieldsOfD_wires c pfx sels hsels] at hk
  obtain ⟨f, hf, hw⟩ := List.mem_map.mp hk
  exact not_keyFree_of_member hfind hf (wire_mem_keptKeys hf).2 hw

/-- **the generator link** (reviewer finding 5): for an emitted module of the class, under `deny`, a selection set —
    at the root or at any depth — that selects a deprecated field with response key `k` (alias, else field name) yields a
    struct in which no member has wire name `k`, and `k` is `KeyFree` there — provided `k` is not also the response key
    of a kept (not omitted) sibling selection -/
theorem denied_field_keyFree (c : Ctx) (opIdx : Nat) (op : ROperation) (items : List Item)
    (hop : c.q.operations[opIdx]? = some op) (ht : TreeOpD c op = true)
    (hgen : responseForQuery c opIdx = .ok items) (hnd : EnumSpec.nodup (items.map (·.name)) = true)
    {name pfx : String} {sels : List Sel} (hnode : Node c "ResponseData" (c.cs.camel op.name) op.sels name pfx sels)
    {a : Option String} {fid : Nat} {sub : List Sel} {sf : StoredField}
    (_hsel : Sel.field a fid sub ∈ sels) (_hsf : c.s.fields[fid]? = some sf)
    (_hdep : sf.deprecation.isSome = true) (_hdeny : c.o.deprecation = .deny)
    (hsib : a.getD sf.name ∉ keptKeys c sels) :
    (∃ fs, (moduleEnv c items).find name = some (.struct name c.respDerives c.serdeCrate fs) ∧
      ∀ f ∈ fs, f.wire ≠ a.getD sf.name) ∧
    KeyFree (moduleEnv c items) (a.getD sf.name) name := by
  obtain ⟨hfind, _, _⟩ := node_struct c opIdx op items hop ht hgen hnd hnode
  exact ⟨⟨_, hfind, fun f hf hw => hsib (hw ▸ (wire_mem_keptKeys hf).1)⟩,
    unselected_key_keyFree c opIdx op items hop ht hgen hnd hnode hsib⟩

/-- the denied key is a denied key (so that the list `deniedKeys` of the eraser covers it) -/
theorem denied_mem_deniedKeys {c : Ctx} {sels : List Sel} {a : Option String} {fid : Nat} {sub : List Sel} {sf : StoredField}
    (hsel : Sel.field a fid sub ∈ sels) (hsf : c.s.fields[fid]? = some sf)
    (hdep : sf.deprecation.isSome = true) (hdeny : c.o.deprecation = .deny) :
    a.getD sf.name ∈ deniedKeys c sels :=
  List.mem_filterMap.mpr ⟨_, hsel, by simp [deniedKey, hsf, isDenied, hdep, hdeny]⟩

/-- with pairwise distinct response keys (the hypothesis of `TreeOp`) the side condition holds by itself -/
theorem not_kept_of_nodup_respKeys {c : Ctx} {sels : List Sel} (hnd : EnumSpec.nodup (respKeys c.s sels) = true)
    {k : String} (hk : k ∈ deniedKeys c sels) : k ∉ keptKeys c sels := by
  have hnd' := nodup_iff'.mp hnd
  clear hnd
  induction sels with
  | nil => simp [deniedKeys] at hk
  | cons x xs ih =>
    simp only [respKeys, List.filterMap_cons] at hnd'
    simp only [deniedKeys, keptKeys, List.filterMap_cons] at hk ih ⊢
    have hsub : ∀ y, y ∈ List.filterMap (keptKey c) xs → y ∈ List.filterMap (respKey c.s) xs :=
      fun y hy => (keptKeys_sublist_respKeys c xs).subset hy
    have hsubD : ∀ y, y ∈ List.filterMap (deniedKey c) xs → y ∈ List.filterMap (respKey c.s) xs := by
      intro y hy
      obtain ⟨z, hz, hzy⟩ := List.mem_filterMap.mp hy
      refine List.mem_filterMap.mpr ⟨z, hz, ?_⟩
      cases z with
      | field a fid sub =>
        simp only [deniedKey, respKey] at hzy ⊢
        cases hsf : c.s.fields[fid]? with
        | none => simp [hsf] at hzy
        | some sf =>
          simp only [hsf] at hzy ⊢
          split at hzy
          · simpa using hzy
          · cases hzy
      | spread g => simp [deniedKey] at hzy
      | inline t sub => simp [deniedKey] at hzy
      | typename => simp [deniedKey] at hzy
    cases x with
    | field a fid sub =>
      simp only [deniedKey, keptKey, respKey] at hk hnd' ⊢
      cases hsf : c.s.fields[fid]? with
      | none =>
        simp only [hsf, Option.map_none] at hk hnd' ⊢
        exact ih hk hnd'
      | some sf =>
        simp only [hsf, Option.map_some, List.nodup_cons] at hk hnd' ⊢
        by_cases hd : isDenied c sf = true
        · simp only [hd, ↓reduceIte, List.mem_cons] at hk ⊢
          rcases hk with rfl | hk
          · exact fun h => hnd'.1 (hsub _ h)
          · exact ih hk hnd'.2
        · simp only [hd, Bool.false_eq_true, ↓reduceIte, List.mem_cons, not_or] at hk ⊢
          exact ⟨fun h => hnd'.1 (h ▸ hsubD _ hk), ih hk hnd'.2⟩
    | spread g =>
      simp only [deniedKey, keptKey, respKey] at hk hnd' ⊢
      exact ih hk hnd'
    | inline t sub =>
      simp only [deniedKey, keptKey, respKey] at hk hnd' ⊢
      exact ih hk hnd'
    | typename =>
      simp only [deniedKey, keptKey, respKey, List.nodup_cons] at hk hnd' ⊢
      exact ih hk hnd'.2

end C14G
end GqlVerif
