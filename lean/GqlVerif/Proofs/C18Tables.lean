import GqlVerif.Props.C18
/-!
# C18 — the model's option parsers ARE the tables extracted from the source

`Model/Gen/Consts.lean` is regenerated on every run from `deprecation.rs` / `normalization.rs`: the arms of the two
`FromStr` impls (`Gen.deprecationFromStr`, `Gen.normalizationFromStr`) and the `#[default]` variant
(`Gen.deprecationDefault`).  `C18.option_spellings_match_source` compares those tables with literals; an independent
review (docs/REVIEW_3.md, finding 13) noted that nothing tied the literals to the model's own parsers
(`Attr.parseDeprecation`, `Attr.parseNormalization`, `Options.effectiveDeprecation`).  The theorems below do: for EVERY
string the model's parser is the look-up of the normalised word in the regenerated table, and the default strategy is the
regenerated default.  A spelling added, removed or re-targeted in the source now breaks THESE proofs (the table changes,
the parser does not), and an edit of the model's parser breaks them as well.
-/
namespace GqlVerif
namespace C18T
open Attr

/-- the variant of `DeprecationStrategy` named in the source -/
def depOfName : String → Option Deprecation
  | "Allow" => some .allow | "Deny" => some .deny | "Warn" => some .warn | _ => none
/-- the variant of `Normalization` named in the source -/
def normOfName : String → Option Normalization
  | "None" => some .none | "Rust" => some .rust | _ => none

/-- look-up of the normalised word among the arms of a `FromStr` impl -/
def tableLookup {α : Type} (table : List (String × String)) (ofName : String → Option α) (s : String) : Option α :=
  (table.find? (fun p => p.1.toList == normWord s)).bind (fun p => ofName p.2)

theorem parseDeprecation_is_table (s : String) :
    parseDeprecation s = tableLookup Gen.deprecationFromStr.2 depOfName s := by
  unfold parseDeprecation tableLookup
  simp only [Gen.deprecationFromStr, List.find?]
  have h1 : "allow".toList = ['a','l','l','o','w'] := by decide
  have h2 : "deny".toList = ['d','e','n','y'] := by decide
  have h3 : "warn".toList = ['w','a','r','n'] := by decide
  rw [h1, h2, h3]
  by_cases a : normWord s = ['a','l','l','o','w']
  · simp [a, depOfName]
  · by_cases b : normWord s = ['d','e','n','y']
    · simp [b, depOfName]
    · by_cases c : normWord s = ['w','a','r','n']
      · simp [c, depOfName]
      · have a' : (['a','l','l','o','w'] == normWord s) = false := by rw [beq_eq_false_iff_ne]; exact fun h => a h.symm
        have b' : (['d','e','n','y'] == normWord s) = false := by rw [beq_eq_false_iff_ne]; exact fun h => b h.symm
        have c' : (['w','a','r','n'] == normWord s) = false := by rw [beq_eq_false_iff_ne]; exact fun h => c h.symm
        simp [a, b, c, a', b', c']

theorem parseNormalization_is_table (s : String) :
    parseNormalization s = tableLookup Gen.normalizationFromStr.2 normOfName s := by
  unfold parseNormalization tableLookup
  simp only [Gen.normalizationFromStr, List.find?]
  have h1 : "none".toList = ['n','o','n','e'] := by decide
  have h2 : "rust".toList = ['r','u','s','t'] := by decide
  rw [h1, h2]
  by_cases a : normWord s = ['n','o','n','e']
  · simp [a, normOfName]
  · by_cases b : normWord s = ['r','u','s','t']
    · simp [b, normOfName]
    · have a' : (['n','o','n','e'] == normWord s) = false := by rw [beq_eq_false_iff_ne]; exact fun h => a h.symm
      have b' : (['r','u','s','t'] == normWord s) = false := by rw [beq_eq_false_iff_ne]; exact fun h => b h.symm
      simp [a, b, a', b']

/-- the strategy in force when the attribute gives none is the `#[default]` variant of the source -/
theorem default_deprecation_is_source_default (o : Options) (h : o.deprecation = none) :
    some o.effectiveDeprecation = depOfName Gen.deprecationDefault := by
  simp [Options.effectiveDeprecation, h, Gen.deprecationDefault, depOfName]

/-- every arm of the source is an arm of the model, with the same target (non-vacuity: the look-up is not constantly `none`) -/
theorem every_source_arm_is_parsed :
    (Gen.deprecationFromStr.2.map (fun p => (parseDeprecation p.1, depOfName p.2))).all (fun x => x.1.isSome && x.1 == x.2) = true ∧
    (Gen.normalizationFromStr.2.map (fun p => (parseNormalization p.1, normOfName p.2))).all (fun x => x.1.isSome && x.1 == x.2) = true := by
  constructor <;> decide

end C18T
end GqlVerif
