import GqlVerif.Proofs.C04Surjective
/-!
# C04 — `express_core`: a valid JSON value is the serialization of a value of the generated type

`Expr L e r j out x` bundles what is shown at every position: `x` has the Rust type `r`, is written as `out` at every
fuel `≥ valSize x`, is what `j` is read as at every fuel `≥ jsonSize j + 2` (integer IDs excluded), and `out` is in
`serde_json::Value` normal form.  `express_core` proves `∃ x, Expr … j (canon j) x` by induction on the derivation of
`Valid` — so recursive input types (boxed: `Box` is transparent, `expr_box`), lists of input objects and `@oneOf`
members at any depth are covered by one argument.  `express_struct` / `express_oneOf` are the generic steps for a
plain struct / an externally tagged enum over a field list; they are reused for `Variables` itself.
-/
namespace GqlVerif
namespace C04S
open Codegen Serde C13

/-! ## 5. one step of `serPath` / `dePath` -/

theorem dePath_alias (e : Env) (b : Bool) (f : Nat) (p n : String) (pub : Bool) (t : RTy) (j : Json)
    (hp : C01.notPrim p) (he : e.find p = some (.alias n pub t)) :
    dePath e b (f + 1) p j = deTyWith (dePath e b f) t j := by
  unfold dePath; simp only [C01.dePrim_none hp, he]

theorem dePath_extern (e : Env) (b : Bool) (f : Nat) (p q : String) (t : RTy) (j : Json)
    (hp : C01.notPrim p) (he : e.find p = none) (hx : e.externs.find? (·.1 == p) = some (q, t)) :
    dePath e b (f + 1) p j = deTyWith (dePath e b f) t j := by
  unfold dePath; simp only [C01.dePrim_none hp, he, hx]

theorem dePath_string (e : Env) (b : Bool) (f : Nat) (v : String) :
    dePath e b (f + 1) "String" (.str v) = .ok (.str v) := by
  unfold dePath; simp [dePrim, pure, Except.pure]

theorem dePath_i64 (e : Env) (b : Bool) (f : Nat) (n : Int) (h : inI64 n = true) :
    dePath e b (f + 1) "i64" (.int n) = .ok (.int n) := by
  unfold dePath; simp [dePrim, h, pure, Except.pure]

theorem dePath_f64_int (e : Env) (b : Bool) (f : Nat) (n : Int) :
    dePath e b (f + 1) "f64" (.int n) = .ok (.float (.int n)) := by
  unfold dePath; simp [dePrim, pure, Except.pure]

theorem dePath_f64_num (e : Env) (b : Bool) (f : Nat) (n : String) :
    dePath e b (f + 1) "f64" (.num n) = .ok (.float (.num n)) := by
  unfold dePath; simp [dePrim, pure, Except.pure]

theorem dePath_bool (e : Env) (b : Bool) (f : Nat) (v : Bool) :
    dePath e b (f + 1) "bool" (.bool v) = .ok (.bool v) := by
  unfold dePath; simp [dePrim, pure, Except.pure]

theorem dePath_enum (e : Env) (b : Bool) (f : Nat) (p n : String) (d : List String) (sp : String) (vs : List String)
    (ser de : List (String × String)) (v : String)
    (hp : C01.notPrim p) (he : e.find p = some (.gqlEnum n d sp vs ser de)) :
    dePath e b (f + 1) p (.str v) =
      (match de.find? (·.1 == v) with
       | some (_, x) => .ok (.variant x none)
       | none => .ok (.enumOther v)) := by
  unfold dePath; simp only [C01.dePrim_none hp, he]; rfl

theorem dePath_oneOf (e : Env) (b : Bool) (f : Nat) (p n : String) (d : List String) (sc : Option String)
    (vs : List RVariant) (k : String) (v : Json) (var : RVariant) (t : RTy)
    (hp : C01.notPrim p) (he : e.find p = some (.oneOf n d sc vs))
    (hf : vs.find? (·.wire == k) = some var) (ht : var.payload = some t) :
    dePath e b (f + 1) p (.obj [(k, v)]) = (fun x => Val.variant var.name (some x)) <$> deTyWith (dePath e b f) t v := by
  unfold dePath; simp only [C01.dePrim_none hp, he, hf, ht]

theorem serPath_enum (e : Env) (f : Nat) (p n : String) (d : List String) (sp : String) (vs : List String)
    (ser de : List (String × String)) (name : String)
    (he : e.find p = some (.gqlEnum n d sp vs ser de)) :
    serPath e (f + 1) p (.variant name none) =
      (match ser.find? (·.1 == name) with
       | some (_, s) => .ok (.str s)
       | none => unmodelled "enum variant without a serialize arm") := by
  unfold serPath; simp only [serPrim, he]; rfl

theorem serPath_oneOf (e : Env) (f : Nat) (p n : String) (d : List String) (sc : Option String)
    (vs : List RVariant) (var : RVariant) (t : RTy) (pv : Val)
    (he : e.find p = some (.oneOf n d sc vs))
    (hf : vs.find? (·.name == var.name) = some var) (ht : var.payload = some t) :
    serPath e (f + 1) p (.variant var.name (some pv)) =
      (fun j => Json.obj [(var.wire, j)]) <$> serTyWith (serPath e f) t pv := by
  unfold serPath; simp only [serPrim, he, hf, ht]
  cases serTyWith (serPath e f) t pv <;> rfl


/-! ## 6. leaves -/

theorem tnOf_scalar {c : Ctx} {k : Nat} {n : String} (h : c.s.scalars[k]? = some n) : C02.tnOf c (.scalar k) = n := by
  simp [C02.tnOf, Schema.typeName, Schema.getScalar, h, pure, Except.pure, Except.toOption]

theorem tnOf_enum {c : Ctx} {k : Nat} {en : StoredEnum} (h : c.s.enums[k]? = some en) :
    C02.tnOf c (.enum k) = en.name := by
  simp [C02.tnOf, Schema.typeName, Schema.getEnum, h, pure, Except.pure, Except.toOption, Functor.map, Except.map]

theorem tnOf_input {c : Ctx} {k : Nat} {i : StoredInput} (h : c.s.inputs[k]? = some i) :
    C02.tnOf c (.input k) = i.name := by
  simp [C02.tnOf, Schema.typeName, Schema.getInput, h, pure, Except.pure, Except.toOption, Functor.map, Except.map]

/-- what the main induction establishes at a position whose Rust type is `r`: a value `x` of that type which is
    written as `out`, and (when integer IDs are excluded) is what `j` is read as -/
structure Expr (L : Leaves) (e : Env) (r : RTy) (j out : Json) (x : Val) : Prop where
  ty : HasTy e r x
  unit : x.isUnit = j.isNull
  ser : ∀ fuel, valSize x ≤ fuel → serTyWith (serPath e fuel) r x = .ok out
  de : (∀ n, L.idInt n = false) → ∀ bf fuel, jsonSize j + 2 ≤ fuel → deTyWith (dePath e bf fuel) r j = .ok x
  norm : normJson out = out

theorem fuel_succ {n f : Nat} (h : n + 1 ≤ f) : ∃ f', f = f' + 1 ∧ n ≤ f' := ⟨f - 1, by omega, by omega⟩

theorem express_scalar (L : Leaves) (c : Ctx) (e : Env) (U : TypeId → Prop) (env : InputEnv c e U)
    (hint : ∀ n, L.intOk n = true → inI64 n = true) (t : GTy)
    {k : Nat} {n : String} {j : Json} (hU : U (.scalar k)) (hn : c.s.scalars[k]? = some n)
    (hok : scalarOk L n j = true) :
    j.isNull = false ∧ ∃ x, Expr L e (.path n) j (canon c.s c.o.skipNone (.scalar k) t j) x := by
  have hid : isID c.s (.scalar k) = (n == "ID") := by simp [isID, hn]
  have prim : ∀ (x : Val) (out : Json), serPrim x = some out → ∀ fuel, valSize x ≤ fuel →
      1 ≤ valSize x → serTyWith (serPath e fuel) (.path n) x = .ok out := by
    intro x out hx fuel hf h1
    obtain ⟨f', rfl, _⟩ := fuel_succ (Nat.le_trans h1 hf)
    exact C01.serPath_prim e f' n x out hx
  unfold scalarOk at hok
  by_cases h1 : n = "Int"
  · subst h1
    cases j <;> simp at hok
    rename_i m
    refine ⟨rfl, .int m, ?_⟩
    rw [canon_int, hid]
    refine ⟨.alias (by decide) env.int (.i64 (hint m hok)), rfl, fun fuel hf => prim _ _ rfl fuel hf (by simp [valSize]), ?_, rfl⟩
    intro _ bf fuel hf
    obtain ⟨f1, rfl, hf1⟩ := fuel_succ hf
    obtain ⟨f2, rfl, hf2⟩ := fuel_succ hf1
    show dePath e bf (f2 + 1 + 1) "Int" (.int m) = _
    rw [dePath_alias e bf _ _ _ _ _ _ (by decide) env.int]
    exact dePath_i64 e bf f2 m (hint m hok)
  have e1 : (n == "Int") = false := by simpa using h1
  simp only [e1, Bool.false_eq_true, ↓reduceIte] at hok
  by_cases h2 : n = "Float"
  · subst h2
    simp only [BEq.rfl, ↓reduceIte] at hok
    cases j <;> simp [Spec.floatOk] at hok
    · rename_i m
      refine ⟨rfl, .float (.int m), ?_⟩
      rw [canon_int, hid]
      refine ⟨.alias (by decide) env.float (.f64 rfl), rfl, fun fuel hf => prim _ _ rfl fuel hf (by simp [valSize]), ?_, rfl⟩
      intro _ bf fuel hf
      obtain ⟨f1, rfl, hf1⟩ := fuel_succ hf
      obtain ⟨f2, rfl, hf2⟩ := fuel_succ hf1
      show dePath e bf (f2 + 1 + 1) "Float" (.int m) = _
      rw [dePath_alias e bf _ _ _ _ _ _ (by decide) env.float]
      exact dePath_f64_int e bf f2 m
    · rename_i m
      refine ⟨rfl, .float (.num m), ?_⟩
      rw [canon_num]
      refine ⟨.alias (by decide) env.float (.f64 rfl), rfl, fun fuel hf => prim _ _ rfl fuel hf (by simp [valSize]), ?_, rfl⟩
      intro _ bf fuel hf
      obtain ⟨f1, rfl, hf1⟩ := fuel_succ hf
      obtain ⟨f2, rfl, hf2⟩ := fuel_succ hf1
      show dePath e bf (f2 + 1 + 1) "Float" (.num m) = _
      rw [dePath_alias e bf _ _ _ _ _ _ (by decide) env.float]
      exact dePath_f64_num e bf f2 m
  have e2 : (n == "Float") = false := by simpa using h2
  simp only [e2, Bool.false_eq_true, ↓reduceIte] at hok
  by_cases h3 : n = "Boolean"
  · subst h3
    simp only [BEq.rfl, ↓reduceIte] at hok
    cases j <;> simp [Spec.boolOk] at hok
    rename_i m
    refine ⟨rfl, .bool m, ?_⟩
    rw [canon_bool]
    refine ⟨.alias (by decide) env.boolean .bool, rfl, fun fuel hf => prim _ _ rfl fuel hf (by simp [valSize]), ?_, rfl⟩
    intro _ bf fuel hf
    obtain ⟨f1, rfl, hf1⟩ := fuel_succ hf
    obtain ⟨f2, rfl, hf2⟩ := fuel_succ hf1
    show dePath e bf (f2 + 1 + 1) "Boolean" (.bool m) = _
    rw [dePath_alias e bf _ _ _ _ _ _ (by decide) env.boolean]
    exact dePath_bool e bf f2 m
  have e3 : (n == "Boolean") = false := by simpa using h3
  simp only [e3, Bool.false_eq_true, ↓reduceIte] at hok
  by_cases h4 : n = "ID"
  · subst h4
    simp only [BEq.rfl, ↓reduceIte] at hok
    cases j <;> simp at hok
    · rename_i m
      refine ⟨rfl, .str (toString m), ?_⟩
      rw [canon_int, hid]
      refine ⟨.alias (by decide) env.id .string, rfl, fun fuel hf => prim _ _ rfl fuel hf (by simp [valSize]), ?_, rfl⟩
      intro hno
      rw [hno m] at hok
      cases hok
    · rename_i m
      refine ⟨rfl, .str m, ?_⟩
      rw [canon_str]
      refine ⟨.alias (by decide) env.id .string, rfl, fun fuel hf => prim _ _ rfl fuel hf (by simp [valSize]), ?_, rfl⟩
      intro _ bf fuel hf
      obtain ⟨f1, rfl, hf1⟩ := fuel_succ hf
      obtain ⟨f2, rfl, hf2⟩ := fuel_succ hf1
      show dePath e bf (f2 + 1 + 1) "ID" (.str m) = _
      rw [dePath_alias e bf _ _ _ _ _ _ (by decide) env.id]
      exact dePath_string e bf f2 m
  have e4 : (n == "ID") = false := by simpa using h4
  simp only [e4, Bool.false_eq_true, ↓reduceIte] at hok
  cases j <;> simp [Spec.stringOk] at hok
  rename_i m
  refine ⟨rfl, .str m, ?_⟩
  rw [canon_str]
  by_cases h5 : n = "String"
  · subst h5
    refine ⟨.string, rfl, fun fuel hf => prim _ _ rfl fuel hf (by simp [valSize]), ?_, rfl⟩
    intro _ bf fuel hf
    obtain ⟨f1, rfl, hf1⟩ := fuel_succ hf
    exact dePath_string e bf f1 m
  · have hnd : n ∉ Schema.defaultScalars := by simp [Schema.defaultScalars, h1, h2, h3, h4, h5]
    obtain ⟨hp, q, hq, hfn, hfq, hxq⟩ := env.custom k n hU hn hnd
    refine ⟨.alias hp hfn (.extern hq hfq hxq .string), rfl, fun fuel hf => prim _ _ rfl fuel hf (by simp [valSize]), ?_, rfl⟩
    intro _ bf fuel hf
    obtain ⟨f1, rfl, hf1⟩ := fuel_succ hf
    obtain ⟨f2, rfl, hf2⟩ := fuel_succ hf1
    obtain ⟨f3, rfl, hf3⟩ := fuel_succ (show 0 + 1 ≤ f2 by simp [jsonSize] at hf2; omega)
    show dePath e bf (f3 + 1 + 1 + 1) n (.str m) = _
    rw [dePath_alias e bf _ _ _ _ _ _ hp hfn]
    show dePath e bf (f3 + 1 + 1) q (.str m) = _
    rw [dePath_extern e bf _ _ _ _ _ hq hfq hxq]
    exact dePath_string e bf f3 m


theorem enumItem_eq (c : Ctx) (en : StoredEnum) :
    enumItem c en = .gqlEnum (c.o.normalization.enumName c.cs en.name) (enumDerives c.o) c.o.serdePath
      (en.variants.map (variantIdent c)) (en.variants.map fun v => (variantIdent c v, v))
      (en.variants.map fun v => (v, variantIdent c v)) := rfl

theorem find_ser_table (ident : String → String) : ∀ (vs : List String), (vs.map ident).Nodup → ∀ v ∈ vs,
    (vs.map fun v => (ident v, v)).find? (·.1 == ident v) = some (ident v, v)
  | [], _, v, hv => by simp at hv
  | w :: ws, hnd, v, hv => by
    simp only [List.map_cons, List.nodup_cons] at hnd
    simp only [List.map_cons, List.find?_cons]
    by_cases hw : w = v
    · subst hw; simp
    · have hv' : v ∈ ws := by
        rcases List.mem_cons.mp hv with h | h
        · exact absurd h.symm hw
        · exact h
      have : (ident w == ident v) = false := by
        simp only [beq_eq_false_iff_ne, ne_eq]
        intro heq
        exact hnd.1 (heq ▸ List.mem_map_of_mem hv')
      simp only [this]
      exact find_ser_table ident ws hnd.2 v hv'

theorem find_de_table (ident : String → String) (v : String) : ∀ (vs : List String),
    (vs.map fun w => (w, ident w)).find? (·.1 == v) = if v ∈ vs then some (v, ident v) else none
  | [] => by simp
  | w :: ws => by
    simp only [List.map_cons, List.find?_cons, List.mem_cons]
    by_cases hw : w = v
    · subst hw; simp
    · have : (w == v) = false := by simpa using hw
      have hw' : ¬ v = w := fun h => hw h.symm
      simp only [this, find_de_table ident v ws, hw', false_or]

theorem express_enum (L : Leaves) (c : Ctx) (e : Env) (U : TypeId → Prop) (env : InputEnv c e U) (t : GTy)
    {k : Nat} {en : StoredEnum} {v : String} (hU : U (.enum k)) (hen : c.s.enums[k]? = some en) :
    ∃ x, Expr L e (.path en.name) (.str v) (canon c.s c.o.skipNone (.enum k) t (.str v)) x := by
  rw [canon_str]
  obtain ⟨hp, hcase⟩ := env.enums k en hU hen
  have prim : ∀ (x : Val) (out : Json), serPrim x = some out → ∀ fuel, valSize x ≤ fuel →
      1 ≤ valSize x → serTyWith (serPath e fuel) (.path en.name) x = .ok out := by
    intro x out hx fuel hf h1
    obtain ⟨f', rfl, _⟩ := fuel_succ (Nat.le_trans h1 hf)
    exact C01.serPath_prim e f' en.name x out hx
  rcases hcase with ⟨hitem, hidents⟩ | ⟨hnone, hext⟩
  · rw [enumItem_eq] at hitem
    by_cases hv : v ∈ en.variants
    · refine ⟨.variant (variantIdent c v) none, .enumVariant hp hitem (List.mem_map_of_mem hv), rfl, ?_, ?_, rfl⟩
      · intro fuel hf
        obtain ⟨f', rfl, _⟩ := fuel_succ (show 0 + 1 ≤ fuel by simp [valSize] at hf; omega)
        show serPath e (f' + 1) en.name _ = _
        rw [serPath_enum e f' _ _ _ _ _ _ _ _ hitem, find_ser_table _ _ hidents v hv]
      · intro _ bf fuel hf
        obtain ⟨f1, rfl, hf1⟩ := fuel_succ hf
        show dePath e bf (f1 + 1) en.name _ = _
        rw [dePath_enum e bf f1 _ _ _ _ _ _ _ _ hp hitem, find_de_table, if_pos hv]
    · refine ⟨.enumOther v, .enumOther hp hitem, rfl, fun fuel hf => prim _ _ rfl fuel hf (by simp [valSize]), ?_, rfl⟩
      intro _ bf fuel hf
      obtain ⟨f1, rfl, hf1⟩ := fuel_succ hf
      show dePath e bf (f1 + 1) en.name _ = _
      rw [dePath_enum e bf f1 _ _ _ _ _ _ _ _ hp hitem, find_de_table, if_neg hv]
  · refine ⟨.str v, .extern hp hnone hext .string, rfl, fun fuel hf => prim _ _ rfl fuel hf (by simp [valSize]), ?_, rfl⟩
    intro _ bf fuel hf
    obtain ⟨f1, rfl, hf1⟩ := fuel_succ hf
    obtain ⟨f2, rfl, hf2⟩ := fuel_succ hf1
    show dePath e bf (f2 + 1 + 1) en.name _ = _
    rw [dePath_extern e bf _ _ _ _ _ hp hnone hext]
    exact dePath_string e bf f2 v


/-! ## 7. plain structs over a field list -/

open Classical in
theorem exists_fun_of_forall_mem {α β} [Inhabited β] (l : List α) (P : α → β → Prop) (h : ∀ a ∈ l, ∃ b, P a b) :
    ∃ g : α → β, ∀ a ∈ l, P a (g a) := by
  refine ⟨fun a => if ha : a ∈ l then Classical.choose (h a ha) else default, fun a ha => ?_⟩
  simp only [ha, dite_true]
  exact Classical.choose_spec (h a ha)

theorem find_key_map {α β} (key : α → String) (val : α → β) : ∀ (ps : List α), (ps.map key).Nodup → ∀ p ∈ ps,
    (ps.map fun p => (key p, val p)).find? (·.1 == key p) = some (key p, val p)
  | [], _, p, hp => by simp at hp
  | w :: ws, hnd, p, hp => by
    simp only [List.map_cons, List.nodup_cons] at hnd
    simp only [List.map_cons, List.find?_cons]
    by_cases hk : key w = key p
    · have hw : w = p := by
        rcases List.mem_cons.mp hp with h | h
        · exact h.symm
        · exact absurd (hk ▸ List.mem_map_of_mem h) hnd.1
      subst hw; simp
    · have hp' : p ∈ ws := by
        rcases List.mem_cons.mp hp with h | h
        · exact absurd (by rw [h]) hk
        · exact h
      have : (key w == key p) = false := by simpa using hk
      simp only [this]
      exact find_key_map key val ws hnd.2 p hp'

theorem all2_map {α β γ} (F : α → β) (G : α → γ) (R : β → γ → Prop) : ∀ (ps : List α),
    (∀ p ∈ ps, R (F p) (G p)) → C01.All2 R (ps.map F) (ps.map G)
  | [], _ => .nil
  | p :: ps, h => .cons (h p (by simp)) (all2_map F G R ps (fun q hq => h q (by simp [hq])))

theorem plain_map {α} (F : α → RField) : ∀ (ps : List α), (∀ p ∈ ps, (F p).flatten = false) → C01.plain (ps.map F) = true
  | [], _ => rfl
  | p :: ps, h => by
    simp only [C01.plain, List.map_cons, List.all_cons, Bool.and_eq_true, Bool.not_eq_true']
    exact ⟨h p (by simp), plain_map F ps (fun q hq => h q (by simp [hq]))⟩

/-- the entries `serFieldsWith` writes for the struct `ps.map F` holding `g p` in the member of `p` -/
theorem serFields_map {α} (path : String → Val → D Json) (F : α → RField) (g : α → Val) (J : α → Json)
    (vals : List (String × Val)) : ∀ (ps : List α), (∀ p ∈ ps, (F p).flatten = false) →
      (∀ p ∈ ps, vals.find? (·.1 == (F p).rust) = some ((F p).rust, g p)) →
      (∀ p ∈ ps, serTyWith path (F p).ty (g p) = .ok (J p)) →
      serFieldsWith path (ps.map F) vals =
        .ok (ps.filterMap fun p => if (F p).skipNone && (g p).isUnit then none else some ((F p).wire, J p))
  | [], _, _, _ => rfl
  | p :: ps, hfl, hfind, hser => by
    have ih := serFields_map path F g J vals ps (fun q hq => hfl q (by simp [hq])) (fun q hq => hfind q (by simp [hq]))
      (fun q hq => hser q (by simp [hq]))
    simp only [List.map_cons, serFieldsWith, ih, bind, Except.bind, hfind p (by simp), hfl p (by simp),
      Bool.false_eq_true, ↓reduceIte, List.filterMap_cons]
    cases hsk : ((F p).skipNone && (g p).isUnit)
    · simp [hser p (by simp), pure, Except.pure]
    · simp [pure, Except.pure]

theorem valSize_le_fieldsSize : ∀ {vals : List (String × Val)} {n : String} {v : Val}, (n, v) ∈ vals →
    valSize v ≤ fieldsSize vals
  | [], _, _, h => by simp at h
  | (m, w) :: rest, n, v, h => by
    rw [fieldsSize]
    rcases List.mem_cons.mp h with h | h
    · cases h; omega
    · have := valSize_le_fieldsSize h; omega

theorem valSize_le_valsSize : ∀ {vs : List Val} {v : Val}, v ∈ vs → valSize v ≤ valsSize vs
  | [], _, h => by simp at h
  | w :: rest, v, h => by
    rw [valsSize]
    rcases List.mem_cons.mp h with h | h
    · cases h; omega
    · have := valSize_le_valsSize h; omega

theorem jsonSize_le_kvsSize : ∀ {kvs : List (String × Json)} {k : String} {v : Json}, Json.lookup k kvs = some v →
    jsonSize v ≤ kvsSize kvs
  | [], _, _, h => by simp [Json.lookup] at h
  | (m, w) :: rest, k, v, h => by
    rw [kvsSize]
    simp only [Json.lookup] at h
    split at h
    · cases h; omega
    · have := jsonSize_le_kvsSize h; omega

theorem jsonSize_le_jsonsSize : ∀ {xs : List Json} {v : Json}, v ∈ xs → jsonSize v ≤ jsonsSize xs
  | [], _, h => by simp at h
  | w :: rest, v, h => by
    rw [jsonsSize]
    rcases List.mem_cons.mp h with h | h
    · cases h; omega
    · have := jsonSize_le_jsonsSize h; omega

theorem normKvs_eq_self : ∀ (out : List (String × Json)), (∀ kv ∈ out, normJson kv.2 = kv.2) → normKvs out = out
  | [], _ => by rw [normKvs]
  | (k, v) :: rest, h => by
    rw [normKvs, h (k, v) (by simp), normKvs_eq_self rest (fun kv hkv => h kv (by simp [hkv]))]

theorem normList_eq_self : ∀ (xs : List Json), (∀ x ∈ xs, normJson x = x) → normList xs = xs
  | [], _ => by rw [normList]
  | x :: rest, h => by
    rw [normList, h x (by simp), normList_eq_self rest (fun y hy => h y (by simp [hy]))]

theorem filterMap_congr' {α β} {f g : α → Option β} : ∀ {l : List α}, (∀ a ∈ l, f a = g a) →
    l.filterMap f = l.filterMap g
  | [], _ => rfl
  | a :: l, h => by
    rw [List.filterMap_cons, List.filterMap_cons, h a (by simp),
      filterMap_congr' (l := l) (fun b hb => h b (by simp [hb]))]

theorem keys_filterMap_sublist {α} (key : α → String) (h : α → Option (String × Json))
    (hk : ∀ a kv, h a = some kv → kv.1 = key a) : ∀ (l : List α), ((l.filterMap h).map (·.1)).Sublist (l.map key)
  | [] => .slnil
  | a :: l => by
    rw [List.filterMap_cons]
    cases ha : h a with
    | none => exact (keys_filterMap_sublist key h hk l).cons _
    | some kv =>
      simp only [List.map_cons]
      rw [hk a kv ha]
      exact (keys_filterMap_sublist key h hk l).cons_cons _

theorem isUnit_eq {x : Val} (h : x.isUnit = true) : x = .unit := by
  cases x <;> simp [Val.isUnit] at h ⊢

/-- **a plain struct over the field list `fields`**: given, for every declared field, a value of the member's type
    that is written as `J p` (and is what the field's JSON value — `null` when absent — is read as), the record of
    these values is a value of the struct, is written as the object of the `J p` in declaration order (minus the
    `None`s when `skip` is on), and is what the object is read as -/
theorem express_struct (L : Leaves) (e : Env) (skip : Bool) (fields : List (String × FieldType))
    (F : String × FieldType → RField) (pname sname : String) (d : List String) (sc : Option String)
    (hp : C01.notPrim pname) (hfind : e.find pname = some (.struct sname d sc (fields.map F)))
    (hF : ∀ p ∈ fields, (F p).wire = p.1 ∧ (F p).flatten = false ∧ (F p).deserWith = none ∧ (F p).default = false ∧
      (F p).skipNone = (skip && !isNN (gty p.2)))
    (hrust : (fields.map fun p => (F p).rust).Nodup) (hnames : (fields.map (·.1)).Nodup)
    (kvs : List (String × Json)) (hk : (keys kvs).Nodup)
    (J : String × FieldType → Json)
    (hfield : ∀ p ∈ fields, ∃ x, Expr L e (F p).ty ((Json.lookup p.1 kvs).getD .null) (J p) x)
    (habsent : ∀ p ∈ fields, Json.lookup p.1 kvs = none → isOption (F p).ty = true)
    (hnn : ∀ p ∈ fields, isNN (gty p.2) = true → ((Json.lookup p.1 kvs).getD .null).isNull = false) :
    ∃ x, Expr L e (.path pname) (.obj kvs)
      (.obj (fields.filterMap fun p =>
        if skip && ((Json.lookup p.1 kvs).getD .null).isNull then none else some (p.1, J p))) x := by
  obtain ⟨g, hg⟩ := exists_fun_of_forall_mem fields _ hfield
  let vals : List (String × Val) := fields.map fun p => ((F p).rust, g p)
  have hfindv : ∀ p ∈ fields, vals.find? (·.1 == (F p).rust) = some ((F p).rust, g p) :=
    fun p hp => find_key_map (fun p => (F p).rust) g fields hrust p hp
  have hvalOf : ∀ p ∈ fields, C01.valOf vals (F p).rust = g p := by
    intro p hp; simp only [C01.valOf, hfindv p hp]
  refine ⟨.record vals, ?_, rfl, ?_, ?_, ?_⟩
  · -- typing
    refine .struct hp hfind (by simp [vals, List.map_map, Function.comp_def]) ?_
    intro f hf
    obtain ⟨p, hpm, rfl⟩ := List.mem_map.mp hf
    rw [hvalOf p hpm]
    exact (hg p hpm).ty
  · -- writing
    intro fuel hfuel
    obtain ⟨f', rfl, hf'⟩ := fuel_succ (show fieldsSize vals + 1 ≤ fuel by simp only [valSize] at hfuel; omega)
    show serPath e (f' + 1) pname (.record vals) = _
    rw [C01.serPath_struct e f' pname sname d sc _ hfind,
      serFields_map (serPath e f') F g J vals fields (fun p hp => (hF p hp).2.1) hfindv
        (fun p hp => (hg p hp).ser f' (Nat.le_trans (valSize_le_fieldsSize
          (List.mem_map.mpr ⟨p, hp, rfl⟩ : ((F p).rust, g p) ∈ vals)) hf'))]
    show Except.ok (Json.obj _) = Except.ok (Json.obj _)
    refine congrArg (fun l => Except.ok (Json.obj l)) (filterMap_congr' ?_)
    intro p hp
    obtain ⟨hw, _, _, _, hsk⟩ := hF p hp
    rw [hw, hsk, (hg p hp).unit]
    cases hnnp : isNN (gty p.2)
    · simp
    · simp [hnn p hp hnnp]
  · -- reading
    intro hno bf fuel hfuel
    obtain ⟨f', rfl, hf'⟩ := fuel_succ (show kvsSize kvs + 2 + 1 ≤ fuel by simp only [jsonSize] at hfuel; omega)
    show dePath e bf (f' + 1) pname (.obj kvs) = _
    rw [C01.dePath_struct e bf f' pname sname d sc _ hp hfind, C01.deStruct_obj,
      C01.struct_value _ _ _ _ (plain_map F fields (fun p hp => (hF p hp).2.1)) hk]
    refine ⟨vals, rfl, all2_map F (fun p => ((F p).rust, g p)) _ fields ?_⟩
    intro p hp
    refine ⟨rfl, ?_⟩
    obtain ⟨hw, _, hdw, hdf, _⟩ := hF p hp
    unfold C01.readField
    rw [hw]
    cases hl : Json.lookup p.1 kvs with
    | none =>
      have hx := (hg p hp).unit
      simp only [hl, Option.getD_none, Json.isNull] at hx
      simp only [missingField, hdf, hdw, habsent p hp hl, Bool.false_eq_true, ↓reduceIte, Option.isSome_none, pure,
        Except.pure, isUnit_eq hx]
    | some v =>
      have hd := (hg p hp).de hno bf f' (by
        have := jsonSize_le_kvsSize hl
        simp only [hl, Option.getD_some]; omega)
      simp only [hl, Option.getD_some] at hd
      simp only [deFieldWith, hdw, hd]
  · -- `serde_json::Map` collapse is the identity
    rw [normJson, normKvs_eq_self, C01.normObj_of_nodup]
    · refine List.Nodup.sublist (keys_filterMap_sublist (·.1) _ ?_ fields) hnames
      intro p kv hkv
      split at hkv
      · cases hkv
      · cases hkv; rfl
    · intro kv hkv
      obtain ⟨p, hp, hkvp⟩ := List.mem_filterMap.mp hkv
      split at hkvp
      · cases hkvp
      · cases hkvp; exact (hg p hp).norm


/-! ## 8. `@oneOf` -/

theorem find_by_key {β} (key : β → String) : ∀ (l : List β), (l.map key).Nodup → ∀ b ∈ l,
    l.find? (fun x => key x == key b) = some b
  | [], _, b, hb => by simp at hb
  | w :: ws, hnd, b, hb => by
    simp only [List.map_cons, List.nodup_cons] at hnd
    simp only [List.find?_cons]
    by_cases hk : key w = key b
    · have hw : w = b := by
        rcases List.mem_cons.mp hb with h | h
        · exact h.symm
        · exact absurd (hk ▸ List.mem_map_of_mem h) hnd.1
      subst hw; simp
    · have hb' : b ∈ ws := by
        rcases List.mem_cons.mp hb with h | h
        · exact absurd (by rw [h]) hk
        · exact h
      have : (key w == key b) = false := by simpa using hk
      simp only [this]
      exact find_by_key key ws hnd.2 b hb'

theorem express_oneOf (L : Leaves) (e : Env) (fields : List (String × FieldType))
    (G : String × FieldType → RVariant) (pname sname : String) (d : List String) (sc : Option String)
    (hp : C01.notPrim pname) (hfind : e.find pname = some (.oneOf sname d sc (fields.map G)))
    (hG : ∀ p ∈ fields, (G p).wire = p.1)
    (hvn : (fields.map fun p => (G p).name).Nodup) (hnames : (fields.map (·.1)).Nodup)
    (p : String × FieldType) (hpm : p ∈ fields) (t : RTy) (hpay : (G p).payload = some t)
    (v out : Json) (x : Val) (h : Expr L e t v out x) :
    ∃ x', Expr L e (.path pname) (.obj [(p.1, v)]) (.obj [(p.1, out)]) x' := by
  have hmem : G p ∈ fields.map G := List.mem_map_of_mem hpm
  have hf1 : (fields.map G).find? (fun y => y.name == (G p).name) = some (G p) :=
    find_by_key (·.name) _ (by rw [List.map_map]; exact hvn) _ hmem
  have hf2 : (fields.map G).find? (fun y => y.wire == p.1) = some (G p) := by
    have := find_by_key (·.wire) (fields.map G) (by
      rw [List.map_map]
      have : fields.map ((fun y => y.wire) ∘ G) = fields.map (·.1) :=
        List.map_congr_left (fun q hq => hG q hq)
      rw [this]; exact hnames) _ hmem
    rw [hG p hpm] at this
    exact this
  refine ⟨.variant (G p).name (some x), .oneOf hp hfind hmem hpay h.ty, rfl, ?_, ?_, ?_⟩
  · intro fuel hfuel
    obtain ⟨f', rfl, hf'⟩ := fuel_succ (show valSize x + 1 ≤ fuel by simp only [valSize] at hfuel; omega)
    show serPath e (f' + 1) pname _ = _
    rw [serPath_oneOf e f' pname sname d sc _ (G p) t x hfind hf1 hpay, h.ser f' hf', hG p hpm]
    rfl
  · intro hno bf fuel hfuel
    obtain ⟨f', rfl, hf'⟩ := fuel_succ (show jsonSize v + 2 + 1 ≤ fuel by
      simp only [jsonSize, kvsSize] at hfuel; omega)
    show dePath e bf (f' + 1) pname _ = _
    rw [dePath_oneOf e bf f' pname sname d sc _ p.1 v (G p) t hp hfind hf2 hpay, h.de hno bf f' hf']
    rfl
  · rw [normJson, normKvs, normKvs, h.norm]
    rfl

/-! ## 9. wrappers -/

theorem rustOf_opt (b : RTy) {t : GTy} (h : isNN t = false) : rustOf b t = .opt (rustOfNN b t) := by
  cases t <;> simp_all [rustOf, isNN]

theorem wf_nonNull {t : GTy} (h : wf (.nonNull t) = true) : wf t = true := by
  cases t <;> simp_all [wf]

theorem wf_nonNull_of {t : GTy} (h : wf t = true) (hn : isNN t = false) : wf (.nonNull t) = true := by
  cases t <;> simp_all [wf, isNN]

theorem expr_null (L : Leaves) (e : Env) (r : RTy) : Expr L e (.opt r) .null .null .unit :=
  ⟨.none, rfl, fun _ _ => rfl, fun _ _ _ _ => rfl, rfl⟩

theorem expr_some {L : Leaves} {e : Env} {r : RTy} {j out : Json} {x : Val} (h : Expr L e r j out x)
    (hj : j.isNull = false) : Expr L e (.opt r) j out (.some x) := by
  refine ⟨.some h.ty, by rw [hj]; rfl, ?_, ?_, h.norm⟩
  · intro fuel hf
    show serTyWith (serPath e fuel) r x = _
    exact h.ser fuel (by simp only [valSize] at hf; omega)
  · intro hno bf fuel hf
    show (if j.isNull then pure .unit else Val.some <$> deTyWith (dePath e bf fuel) r j) = _
    rw [hj, h.de hno bf fuel hf]; rfl

theorem expr_box {L : Leaves} {e : Env} {r : RTy} {j out : Json} {x : Val} (h : Expr L e r j out x) :
    Expr L e (.box r) j out x :=
  ⟨.box h.ty, h.unit, fun fuel hf => h.ser fuel hf, fun hno bf fuel hf => h.de hno bf fuel hf, h.norm⟩

theorem all2_map_right {α β} (G : α → β) (R : α → β → Prop) : ∀ (ps : List α),
    (∀ p ∈ ps, R p (G p)) → C01.All2 R ps (ps.map G)
  | [], _ => .nil
  | p :: ps, h => .cons (h p (by simp)) (all2_map_right G R ps (fun q hq => h q (by simp [hq])))

theorem expr_list {L : Leaves} {e : Env} {r : RTy} (xs : List Json) (f : Json → Json)
    (h : ∀ x ∈ xs, ∃ v, Expr L e r x (f x) v) :
    ∃ v, Expr L e (.vec r) (.arr xs) (.arr (xs.map f)) v := by
  obtain ⟨g, hg⟩ := exists_fun_of_forall_mem xs _ h
  refine ⟨.list (xs.map g), .vec ?_, rfl, ?_, ?_, ?_⟩
  · intro v hv
    obtain ⟨x, hx, rfl⟩ := List.mem_map.mp hv
    exact (hg x hx).ty
  · intro fuel hf
    refine C01.ser_list_ok (serPath e fuel) r f xs (xs.map g) (all2_map_right g _ xs ?_)
    intro x hx
    refine (hg x hx).ser fuel ?_
    have := valSize_le_valsSize (List.mem_map_of_mem (f := g) hx)
    simp only [valSize] at hf; omega
  · intro hno bf fuel hf
    show Val.list <$> xs.mapM (deTyWith (dePath e bf fuel) r) = _
    rw [(C01.mapM_ok_forall₂ _ xs (xs.map g)).mpr (all2_map_right g _ xs ?_)]
    · rfl
    · intro x hx
      refine (hg x hx).de hno bf fuel ?_
      have := jsonSize_le_jsonsSize hx
      simp only [jsonSize] at hf; omega
  · rw [normJson, normList_eq_self]
    intro y hy
    obtain ⟨x, hx, rfl⟩ := List.mem_map.mp hy
    exact (hg x hx).norm

theorem scalarOk_null (L : Leaves) (n : String) : scalarOk L n .null = false := by
  unfold scalarOk
  repeat (split <;> try rfl)

/-- a position that must not be `null` (non-null context, or `T!`) never holds `null` -/
theorem valid_nonnull {L : Leaves} {s : Schema} {id : TypeId} {b : Bool} {t : GTy} {j : Json}
    (h : Valid L s id b t j) : (b = true ∨ isNN t = true) → j.isNull = false := by
  induction h with
  | null hn => intro h; rcases h with h | h <;> simp_all
  | some hn _ ih => intro h; rcases h with h | h <;> simp_all
  | bang _ ih => intro _; exact ih (.inl rfl)
  | list _ _ => intro _; rfl
  | @scalar k n nm j' _ hok =>
    intro _
    cases j' <;> first | rfl | (rw [scalarOk_null] at hok; cases hok)
  | «enum» _ _ => intro _; rfl
  | object _ _ _ _ _ _ _ => intro _; rfl
  | oneOf _ _ _ _ _ => intro _; rfl


/-! ## 10. the main induction -/

/-- Rust type of a position of type `t` over the named type `id`, in non-null (`b = true`) / nullable context -/
def R (c : Ctx) (id : TypeId) (b : Bool) (t : GTy) : RTy :=
  if b then rustOfNN (.path (C02.tnOf c id)) t else rustOf (.path (C02.tnOf c id)) t

theorem find_field {fields : List (String × FieldType)} (hn : (fields.map (·.1)).Nodup)
    {p : String × FieldType} (hp : p ∈ fields) : fields.find? (·.1 == p.1) = some p :=
  find_by_key (·.1) fields hn p hp

theorem lookup_canonKvs (s : Schema) (skip : Bool) (fields : List (String × FieldType))
    (hn : (fields.map (·.1)).Nodup) (p : String × FieldType) (hp : p ∈ fields) :
    ∀ kvs, Json.lookup p.1 (canonKvs s skip fields kvs) = (Json.lookup p.1 kvs).map (canon s skip p.2.id (gty p.2))
  | [] => by rw [canonKvs]; rfl
  | (k, v) :: rest => by
    rw [canonKvs]
    simp only [Json.lookup]
    by_cases hk : k = p.1
    · subst hk
      simp only [BEq.rfl, ↓reduceIte, find_field hn hp, Option.map_some]
    · have : (k == p.1) = false := by simpa using hk
      simp only [this, Bool.false_eq_true, ↓reduceIte]
      exact lookup_canonKvs s skip fields hn p hp rest

theorem fieldRTy_eq (c : Ctx) (id : TypeId) (t : GTy) :
    fieldRTy c id t = R c id false t ∨ fieldRTy c id t = .box (R c id false t) := by
  unfold fieldRTy R
  cases boxed c id <;> simp

theorem expr_field {L : Leaves} {e : Env} {c : Ctx} {id : TypeId} {t : GTy} {j out : Json} {x : Val}
    (h : Expr L e (R c id false t) j out x) : Expr L e (fieldRTy c id t) j out x := by
  rcases fieldRTy_eq c id t with h' | h' <;> rw [h']
  · exact h
  · exact expr_box h

theorem isOption_fieldRTy (c : Ctx) (id : TypeId) {t : GTy} (h : isNN t = false) :
    isOption (fieldRTy c id t) = true := by
  unfold fieldRTy
  rw [rustOf_opt _ h]
  split <;> rfl

/-- **core of `input_expressible`** (any module `e` that resolves the used names, `InputEnv`): for every JSON
    value `j` that is valid at a position of type `t` over the named type `id` there is a value `x` of the Rust
    type of that position which is written as `canon j` (at any sufficient fuel) and — integer IDs excluded — is
    what `j` is read as -/
theorem express_core (L : Leaves) (c : Ctx) (e : Env) (U : TypeId → Prop) (env : InputEnv c e U)
    (hint : ∀ n, L.intOk n = true → inI64 n = true) {id : TypeId} {b : Bool} {t : GTy} {j : Json}
    (h : Valid L c.s id b t j) : U id → wf t = true →
      ∃ x, Expr L e (R c id b t) j (canon c.s c.o.skipNone id t j) x := by
  induction h with
  | @null id t hn =>
    intro _ _
    refine ⟨.unit, ?_⟩
    rw [canon_null, R, if_neg (by simp), rustOf_opt _ hn]
    exact expr_null L e _
  | @some id t j hn hv ih =>
    intro hU hw
    obtain ⟨x, hx⟩ := ih hU hw
    refine ⟨.some x, ?_⟩
    have : R c id false t = .opt (R c id true t) := by simp [R, rustOf_opt _ hn]
    rw [this]
    exact expr_some hx (valid_nonnull hv (.inl rfl))
  | @bang id b t j hv ih =>
    intro hU hw
    obtain ⟨x, hx⟩ := ih hU (wf_nonNull hw)
    refine ⟨x, ?_⟩
    have : R c id b (.nonNull t) = R c id true t := by cases b <;> simp [R, rustOf, rustOfNN]
    rw [this, canon_nonNull]
    exact hx
  | @list id t xs hv ih =>
    intro hU hw
    have hw' : wf t = true := by simpa [wf] using hw
    have : R c id true (.list t) = .vec (R c id false t) := by simp [R, rustOfNN]
    rw [this, canon_arr, canonList_eq_map]
    exact expr_list xs _ (fun x hx => ih x hx hU hw')
  | @scalar k n nm j hn hok =>
    intro hU _
    have : R c (.scalar k) true (.named nm) = .path n := by simp [R, rustOfNN, tnOf_scalar hn]
    rw [this]
    exact (express_scalar L c e U env hint _ hU hn hok).2
  | @«enum» k en nm v hen _ =>
    intro hU _
    have : R c (.enum k) true (.named nm) = .path en.name := by simp [R, rustOfNN, tnOf_enum hen]
    rw [this]
    exact express_enum L c e U env _ hU hen
  | @object k i nm kvs hi hone hk hsub habs hpres ih =>
    intro hU _
    have : R c (.input k) true (.named nm) = .path i.name := by simp [R, rustOfNN, tnOf_input hi]
    rw [this, canon_obj_input _ _ _ _ _ _ hi, if_neg (by simp [hone])]
    obtain ⟨hp, hfind⟩ := env.inputs k i hU hi
    rw [inputItemSpec, if_neg (by simp [hone])] at hfind
    have hcl := env.closed k i hU hi
    have hnames := env.fieldNames k i hU hi
    have hexp := express_struct L e c.o.skipNone i.fields (inputField c) i.name i.name _ _ hp hfind
      (fun p _ => ⟨inputField_wire c p, rfl, rfl, rfl, by simp [inputField, isOptional_eq]⟩)
      ((env.members k i hU hi).1 hone) hnames kvs hk
      (fun p => canon c.s c.o.skipNone p.2.id (gty p.2) ((Json.lookup p.1 kvs).getD .null))
      (by
        intro p hpm
        obtain ⟨hUp, _, hwp, _⟩ := hcl p hpm
        cases hl : Json.lookup p.1 kvs with
        | none =>
          refine ⟨.unit, ?_⟩
          simp only [Option.getD_none, canon_null]
          refine expr_field (c := c) ?_
          rw [R, if_neg (by simp), rustOf_opt _ (habs p hpm hl)]
          exact expr_null L e _
        | some v =>
          obtain ⟨x, hx⟩ := ih p hpm v hl hUp hwp
          exact ⟨x, expr_field hx⟩)
      (fun p hpm hl => isOption_fieldRTy c _ (habs p hpm hl))
      (by
        intro p hpm hnn
        cases hl : Json.lookup p.1 kvs with
        | none => rw [habs p hpm hl] at hnn; cases hnn
        | some v => exact valid_nonnull (hpres p hpm v hl) (.inr hnn))
    obtain ⟨x, hx⟩ := hexp
    refine ⟨x, ?_⟩
    have : assemble c.o.skipNone i.fields (canonKvs c.s c.o.skipNone i.fields kvs) =
        i.fields.filterMap (fun p => if c.o.skipNone && ((Json.lookup p.1 kvs).getD .null).isNull then none
          else some (p.1, canon c.s c.o.skipNone p.2.id (gty p.2) ((Json.lookup p.1 kvs).getD .null))) := by
      unfold assemble
      apply filterMap_congr'
      intro p hpm
      rw [lookup_canonKvs c.s c.o.skipNone i.fields hnames p hpm]
      cases Json.lookup p.1 kvs with
      | none => simp [canon_null]
      | some v => simp [canon_isNull]
    rw [this]
    exact hx
  | @oneOf k i nm p v hi hone hpm hv ih =>
    intro hU _
    have : R c (.input k) true (.named nm) = .path i.name := by simp [R, rustOfNN, tnOf_input hi]
    rw [this, canon_obj_input _ _ _ _ _ _ hi, if_pos hone]
    obtain ⟨hp, hfind⟩ := env.inputs k i hU hi
    rw [inputItemSpec, if_pos hone] at hfind
    obtain ⟨hUp, _, hwp, hnn, _⟩ := env.closed k i hU hi p hpm
    have hnames := env.fieldNames k i hU hi
    obtain ⟨x, hx⟩ := ih hUp (wf_nonNull_of hwp (hnn hone))
    have hck : canonKvs c.s c.o.skipNone i.fields [(p.1, v)] =
        [(p.1, canon c.s c.o.skipNone p.2.id (.nonNull (gty p.2)) v)] := by
      rw [canonKvs, canonKvs, find_field hnames hpm, canon_nonNull]
    rw [hck]
    exact express_oneOf L e i.fields (inputVariant c) i.name i.name _ _ hp hfind
      (fun q _ => inputVariant_wire c q) ((env.members k i hU hi).2 hone) hnames p hpm _ rfl v _ x (expr_field hx)


end C04S
end GqlVerif
