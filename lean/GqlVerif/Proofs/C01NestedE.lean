import GqlVerif.Proofs.C01NestedK
/-!
# C01 / C03 end to end (`NestedOp`), part E: the emitted module; `nested_precise_iff`

* `envSelN_of` / `envSelsN_of`, `fragEnvN_of` — the environment hypotheses of parts C / D hold for the module
  `responseForQuery` emits: the items of every reachable spread fragment of any rank are in the module
  (`nested_fragment_shape`, `C02.selected_types_used`), by induction on the rank;
* `topEnvN_of_module` — `TopEnvN (moduleEnv c items) c op`; `EnvOK` (no fuel exhaustion, fuel independence) from
  `nested_module_envOK` (part K: the ranks of the class make the reachable spread graph acyclic);
* **`nested_precise_iff`** (C03): `Serde.de (moduleEnv c items) ResponseData j` succeeds **iff**
  `conformsLooseN (wholeN c R) … false op.sels j`; `nested_precise`.
-/
set_option linter.unusedSimpArgs false
set_option linter.unusedVariables false
set_option linter.unusedSectionVars false
set_option linter.unnecessarySimpa false

namespace GqlVerif
namespace C01N
open Serde Spec C13 C03 Codegen C01 C01.E2E C01M

theorem bodyEnvN_mk {fenv : Nat → Prop} {e : Env} {c : Ctx} {name pfx : String} {sels : List Sel}
    (hnl : ∀ g, sels ≠ [Sel.spread g])
    (h : StructEnv e name (fieldsOfF c pfx sels) ∧ envSelsN fenv e c pfx sels) : BodyEnvN fenv e c name pfx sels := by
  unfold BodyEnvN
  split
  · exact absurd rfl (hnl _)
  · exact h

section EnvOfN
variable {c : Ctx} {items : List Item} {u : UsedTypes} {root : List Sel} (M : ModFacts c items u root)
  (hfr : FragsIn c items root) (hfrB : FragsInB c items root)
include M hfr hfrB

mutual
  theorem envSelN_of {ok : TypeId → Nat → Bool} {fenv : Nat → Prop}
      (hfenv : ∀ p g, ok (.object p) g = true → C02.Reach c.q root (.spread g) → fenv g) :
      ∀ (x : Sel) (pfx : String) (p : Nat), nSel ok c.s c.q c.o (.object p) x = true →
      (∀ it ∈ itemsM c pfx x, it ∈ items) → C02.Reach c.q root x → envSelN fenv (moduleEnv c items) c pfx x
    | .field a fid sub, pfx, p => by
      intro ht hit hr
      have IH := envSelsN_of hfenv sub
      obtain ⟨sf, hsf⟩ := nSel_field_some ht
      by_cases hobj : ∃ i, sf.ty.id = .object i
      · obtain ⟨i, hid⟩ := hobj
        obtain ⟨_, _, _, hbody⟩ := nSel_obj hsf hid ht
        rw [itemsM] at hit
        rw [envSelN]
        simp only [hsf, hid] at hit ⊢
        by_cases hsp : ∃ g, sub = [Sel.spread g]
        · obtain ⟨g, rfl⟩ := hsp
          simp only at hit ⊢
          have hokg : ok (.object i) g = true := hbody
          exact ⟨aliasEnv_of M hfr _ _ (hit _ (by simp)), hfenv i g hokg (reach_step hr (by simp))⟩
        · have hnl : ∀ g, sub ≠ [Sel.spread g] := fun g hg => hsp ⟨g, hg⟩
          rw [nBody_not_lone hnl] at hbody
          have hit' : ∀ it ∈ (Item.struct (pfx ++ c.cs.camel (a.getD sf.name)) c.respDerives c.serdeCrate
              (fieldsOfF c (pfx ++ c.cs.camel (a.getD sf.name)) sub) ::
              itemsMs c (pfx ++ c.cs.camel (a.getD sf.name)) sub), it ∈ items := by
            revert hit
            split
            · exact absurd rfl (hnl _)
            · exact id
          split
          · exact absurd rfl (hnl _)
          · exact ⟨structEnv_of M _ _ (hit' _ (by simp)),
              IH _ i hbody (fun x hx it h => hit' it (by simp [mem_itemsMs hx h]))
                (fun y hy => reach_step hr hy)⟩
      · have hno : ∀ i, sf.ty.id ≠ .object i := fun i h => hobj ⟨i, h⟩
        have hs := nSel_nonobj hsf hno ht
        rw [itemsM_nonobj c pfx a fid sub sf hsf hno] at hit
        have := envSelS_of M hfr hfrB _ pfx false hs (by simpa [allItemsS] using hit) hr (fun g hg => by cases hg)
        rw [envSelN]
        simp only [hsf]
        cases hid : sf.ty.id with
        | object i => exact absurd hid (hno i)
        | scalar k => simpa only [hid] using this
        | «enum» k => simpa only [hid] using this
        | interface k => simpa only [hid] using this
        | union k => simpa only [hid] using this
        | input k => simpa only [hid] using this
    | .spread g, pfx, p => by
      intro ht _ hr
      have hokg : ok (.object p) g = true := by simpa [nSel] using ht
      rw [envSelN]
      exact hfenv p g hokg hr
    | .inline _ _, _, _ => by intro ht; simp [nSel] at ht
    | .typename, _, _ => by intro _ _ _; simp [envSelN]
  theorem envSelsN_of {ok : TypeId → Nat → Bool} {fenv : Nat → Prop}
      (hfenv : ∀ p g, ok (.object p) g = true → C02.Reach c.q root (.spread g) → fenv g) :
      ∀ (sels : List Sel) (pfx : String) (p : Nat), nSels ok c.s c.q c.o (.object p) sels = true →
      (∀ x ∈ sels, ∀ it ∈ itemsM c pfx x, it ∈ items) → (∀ x ∈ sels, C02.Reach c.q root x) →
      envSelsN fenv (moduleEnv c items) c pfx sels
    | [], _, _ => by intro _ _ _; simp [envSelsN]
    | x :: xs, pfx, p => by
      intro ht hit hr
      obtain ⟨hx, hxs⟩ := nSels_cons ht
      rw [envSelsN]
      exact ⟨envSelN_of hfenv x pfx p hx (hit x (by simp)) (hr x (by simp)),
        envSelsN_of hfenv xs pfx p hxs (fun y hy => hit y (by simp [hy])) (fun y hy => hr y (by simp [hy]))⟩
end

/-- the environment of a reachable spread fragment of rank `r`, by induction on the rank -/
theorem fragEnvN_of
    (hmemN : ∀ g i r, C02.Reach c.q root (.spread g) → fragOkN c.s c.q c.o r (.object i) g = true →
      ∀ f, c.q.fragments[g]? = some f → ∀ it ∈ bodyItemsM c f.name (c.cs.camel f.name) f.sels, it ∈ items) :
    ∀ (r : Nat) (i g : Nat), fragOkN c.s c.q c.o r (.object i) g = true → C02.Reach c.q root (.spread g) →
      FragEnvN (moduleEnv c items) c r g
  | 0, i, g => by
    intro h hr
    rw [FragEnvN]
    rw [fragOkN] at h
    exact fragEnv_of M hfr g i hr h
  | r + 1, i, g => by
    intro h hr
    by_cases hold : fragOkN c.s c.q c.o r (.object i) g = true
    · obtain ⟨f, hf, hon, _, _⟩ := fragOkN_spec c.s c.q c.o r _ g hold
      have hfon : fragOn c.q g = .object i := by simp [fragOn, hf, hon]
      rw [FragEnvN, hfon, if_pos hold]
      exact fragEnvN_of hmemN r i g hold hr
    · have holdf : fragOkN c.s c.q c.o r (.object i) g = false := by simpa using hold
      have hnew := h
      rw [fragOkN, holdf, Bool.false_or] at hnew
      obtain ⟨f, hf, hon, _, _, hnl, hb⟩ := fragNew_parts hnew
      have hfon : fragOn c.q g = .object i := by simp [fragOn, hf, hon]
      rw [FragEnvN, hfon, if_neg hold]
      simp only [hf]
      have hin := hmemN g i (r + 1) hr h f hf
      rw [bodyItemsM_not_lone c _ _ hnl] at hin
      rw [hon] at hb
      exact ⟨structEnv_of M _ _ (hin _ (by simp)),
        envSelsN_of M hfr hfrB (fun p g' h' hr' => fragEnvN_of hmemN r p g' h' hr') f.sels _ i hb
          (fun x hx it h => hin it (by simp [mem_itemsMs hx h])) (fun x hx => reach_step_spread hr hf hx)⟩

end EnvOfN

/-! ## top level -/

theorem topEnvN_of_module {c : Ctx} {opIdx : Nat} {op : ROperation} {items : List Item}
    (hop : c.q.operations[opIdx]? = some op) (ht : NestedOp c op = true)
    (hgen : responseForQuery c opIdx = .ok items) (hok : moduleOk c items = true) :
    TopEnvN (moduleEnv c items) c op := by
  obtain ⟨hn, _, hsels⟩ := nestedOp_parts ht
  refine ⟨?_, (nested_module_envOK hop ht hgen hok).1⟩
  have hshape := nested_items_shape c op (List.mem_of_getElem? hop) ht
  obtain ⟨u, S, E, F, I, V, o, resp, hu, hS, hE, hF, ho, hresp, hitems⟩ := responseForQuery_parts_full hgen
  rw [hop] at ho; cases ho
  rw [hshape] at hresp
  cases hresp
  have hok' := hok
  simp only [moduleOk, Bool.and_eq_true, List.all_eq_true, decide_eq_true_eq, List.isEmpty_iff] at hok'
  obtain ⟨⟨⟨⟨hnd, hnp⟩, hext⟩, htab⟩, hnoext⟩ := hok'
  have hsub : ∀ it ∈ bodyItemsM c "ResponseData" (c.cs.camel op.name) op.sels, it ∈ items := by
    intro it h; rw [hitems]; simp [h]
  have M : ModFacts c items u op.sels := {
    hn := hn
    nodup := nodup_iff'.mp hnd
    np := hnp
    ext := fun x hx => ⟨(hext x hx).1, fun it hit => by simpa using (hext x hx).2 it hit⟩
    tables := fun n d sp vs ser de hm => by simpa using htab _ hm
    builtin := fun it h => by rw [hitems]; simp [h]
    scalars := fun k n hk hn' hnd' => by
      have := scalarItems_mem hS hk hn' hnd'
      simp only [hn, Normalization.scalarName, Normalization.camelCase] at this
      rw [hitems]; simp [this]
    enums := fun k en hk hen => by
      have := enumItems_mem hE hk hen (by simp [hnoext])
      rw [hitems]; simp [this]
    used := C02.selected_types_used c.s c.q opIdx u hu op hop }
  -- the items of every spread fragment are in the module
  have hfragmem : ∀ g i, C02.Reach c.q op.sels (.spread g) → fragOk c.s c.q c.o (.object i) g = true →
      ∀ f, c.q.fragments[g]? = some f → structItemsV c f.name (c.cs.camel f.name) f.sels ∈ F := by
    intro g i hr hokg f hf
    have hused : g ∈ u.fragments := M.used _ hr
    obtain ⟨its, hits, hfi⟩ := C02.mapM_ok_of_mem hF g ((C02.mem_sortNat _ _).mpr hused)
    obtain ⟨f', hf', hshape⟩ := fragment_struct_shape c hn (.object i) g i rfl hokg
    rw [hf] at hf'; cases hf'
    rw [hshape] at hfi; cases hfi
    exact hits
  have hfragmemB : ∀ g ty, C02.Reach c.q op.sels (.spread g) → absHyp c.s ty → fragOkB c.s c.q c.o ty g = true →
      ∀ f, c.q.fragments[g]? = some f → absItemsV c f.name (c.cs.camel f.name) ty f.sels ∈ F := by
    intro g ty hr hty hokg f hf
    have hused : g ∈ u.fragments := M.used _ hr
    obtain ⟨its, hits, hfi⟩ := C02.mapM_ok_of_mem hF g ((C02.mem_sortNat _ _).mpr hused)
    obtain ⟨f', hf', hshape⟩ := fragment_abs_shape c hn ty g hty hokg
    rw [hf] at hf'; cases hf'
    rw [hshape] at hfi; cases hfi
    exact hits
  have hfr : FragsIn c items op.sels := by
    intro g i hr hokg f hf it hit
    rw [hitems]
    have : it ∈ F.flatten := List.mem_flatten.mpr ⟨_, hfragmem g i hr hokg f hf, hit⟩
    simp [this]
  have hfrB : FragsInB c items op.sels := by
    intro g ty hr hty hokg f hf it hit
    rw [hitems]
    have : it ∈ F.flatten := List.mem_flatten.mpr ⟨_, hfragmemB g ty hr hty hokg f hf, hit⟩
    simp [this]
  have hmemN : ∀ g i r, C02.Reach c.q op.sels (.spread g) → fragOkN c.s c.q c.o r (.object i) g = true →
      ∀ f, c.q.fragments[g]? = some f → ∀ it ∈ bodyItemsM c f.name (c.cs.camel f.name) f.sels, it ∈ items := by
    intro g i r hr hokg f hf it hit
    have hused : g ∈ u.fragments := M.used _ hr
    obtain ⟨its, hits, hfi⟩ := C02.mapM_ok_of_mem hF g ((C02.mem_sortNat _ _).mpr hused)
    obtain ⟨f', hf', _, hshape⟩ := nested_fragment_shape c hn r i g hokg
    rw [hf] at hf'; cases hf'
    rw [hshape] at hfi; cases hfi
    rw [hitems]
    have : it ∈ F.flatten := List.mem_flatten.mpr ⟨_, hits, hit⟩
    simp [this]
  have hfenv : ∀ p g, fragOkN c.s c.q c.o c.q.fragments.length (.object p) g = true →
      C02.Reach c.q op.sels (.spread g) → FragEnvN (moduleEnv c items) c c.q.fragments.length g :=
    fun p g h hr => fragEnvN_of M hfr hfrB hmemN _ p g h hr
  by_cases hsp : ∃ g, op.sels = [Sel.spread g]
  · obtain ⟨g, hg⟩ := hsp
    have hokg : fragOkN c.s c.q c.o c.q.fragments.length (.object op.objectId) g = true := by
      rw [hg] at hsels; exact hsels
    have hr : C02.Reach c.q op.sels (.spread g) := .here (by rw [hg]; simp)
    unfold BodyEnvN
    rw [hg]
    simp only
    exact ⟨aliasEnv_of M hfr _ _ (hsub _ (by rw [hg]; simp [bodyItemsM])), hfenv _ g hokg hr⟩
  · have hnl : ∀ g, op.sels ≠ [Sel.spread g] := fun g hg => hsp ⟨g, hg⟩
    have hsels' := hsels
    rw [nBody_not_lone hnl] at hsels'
    have hbody := bodyItemsM_not_lone c "ResponseData" (c.cs.camel op.name) hnl
    rw [hbody] at hsub
    exact bodyEnvN_mk hnl ⟨structEnv_of M _ _ (hsub _ (by simp)),
        envSelsN_of M hfr hfrB hfenv op.sels _ op.objectId hsels'
          (fun x hx it h => hsub it (by simp [mem_itemsMs hx h])) (fun x hx => .here hx)⟩

/-- **`nested_precise_iff` (C03), as an equivalence**: on the module `responseForQuery` emits for an operation of
    `NestedOp`, `ResponseData` accepts exactly `conformsLooseN (wholeN c R)`, `R` the number of fragments -/
theorem nested_precise_iff (c : Ctx) (opIdx : Nat) (op : ROperation) (items : List Item)
    (hop : c.q.operations[opIdx]? = some op) (ht : NestedOp c op = true) (hnd : fragNamesOk c = true)
    (hk : nestedKeysOk c op = true)
    (hgen : responseForQuery c opIdx = .ok items) (hok : moduleOk c items = true) (j : Json) :
    okB (Serde.de (moduleEnv c items) (.path "ResponseData") j) =
      conformsLooseN (wholeN c c.q.fragments.length) c.s c.q c.o false op.sels j :=
  top_accepts_iffN (moduleEnv c items) c op ht hnd hk
    (topEnvN_of_module hop ht hgen hok) j

theorem nested_precise (c : Ctx) (opIdx : Nat) (op : ROperation) (items : List Item)
    (hop : c.q.operations[opIdx]? = some op) (ht : NestedOp c op = true) (hnd : fragNamesOk c = true)
    (hk : nestedKeysOk c op = true)
    (hgen : responseForQuery c opIdx = .ok items) (hok : moduleOk c items = true) (j : Json) (v : Val)
    (hd : Serde.de (moduleEnv c items) (.path "ResponseData") j = .ok v) :
    conformsLooseN (wholeN c c.q.fragments.length) c.s c.q c.o false op.sels j = true := by
  rw [← nested_precise_iff c opIdx op items hop ht hnd hk hgen hok j, hd]; rfl

end C01N
end GqlVerif
