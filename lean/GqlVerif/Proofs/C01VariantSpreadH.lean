import GqlVerif.Proofs.C01VariantSpreadE
/-!
# C01 end to end: what `canonSelD` is, relative to the response (`SameContent`, part H)

`variantspread_lossless` / `variantspread_roundtrip` state the result of the round trip as `normJson (canonSelD … j)`, a closed
form computed from the response `j` and the selection set.  This file relates that closed form to `j` itself, by a relation
that is **defined independently of the generator, of serde and of the selection set**:

`SameContent skip j j'` — `j'` carries the content of `j` up to exactly the differences C01 allows:
* the order of the keys of an object (and `j'` has no repeated key);
* an integer (`ID`) written as its decimal string;
* `__typename` dropped;
* with `skip_serializing_none`: an entry whose value is `null` dropped;
nothing else: every entry of `j'` is an entry of `j` (recursively `SameContent`), every other entry of `j` is in `j'`, arrays
have the same length and `SameContent` elements, all other values are equal.

* `variantspread_content` — for an operation of the class `VariantSpreadOp` and a conforming response `j`:
  `SameContent c.o.skipNone j (normJson (canonSelD c.s c.q c.o.skipNone op.sels j))`;
* `variantspread_roundtrip_content` — the round trip through the emitted `ResponseData` returns a `j'` with
  `SameContent c.o.skipNone j j'`: **no selected data is lost, nothing is invented**.
-/
set_option linter.unusedSimpArgs false
set_option linter.unusedVariables false
set_option linter.unusedSectionVars false

namespace GqlVerif
namespace C01
namespace E2E
open Serde Spec C13 C03 Codegen

/-! ## the relation -/

/-- `j'` has the content of `j`, up to the differences C01 allows (independent of generator, serde and selection set) -/
inductive SameContent (skip : Bool) : Json → Json → Prop
  | refl (j : Json) : SameContent skip j j
  | id (n : Int) : SameContent skip (.int n) (.str (toString n))
  | arr (xs ys : List Json) (hl : xs.length = ys.length)
      (h : ∀ (i : Nat) x y, xs[i]? = some x → ys[i]? = some y → SameContent skip x y) :
      SameContent skip (.arr xs) (.arr ys)
  | obj (kvs kvs' : List (String × Json)) (hnd : (kvs'.map (·.1)).Nodup)
      (hfrom : ∀ k v', (k, v') ∈ kvs' → (Json.lookup k kvs).isSome = true)
      (hsame : ∀ k v v', (k, v') ∈ kvs' → Json.lookup k kvs = some v → SameContent skip v v')
      (hcov : ∀ k v, Json.lookup k kvs = some v →
        k = "__typename" ∨ (skip = true ∧ v = .null) ∨ k ∈ kvs'.map (·.1)) :
      SameContent skip (.obj kvs) (.obj kvs')

/-! ## `serde_json::to_value` on repeated keys -/

theorem mem_jinsert {k : String} {v : Json} : ∀ {acc : List (String × Json)} {x : String × Json},
    x ∈ Json.insert k v acc → x = (k, v) ∨ x ∈ acc
  | [], x, h => by simp only [Json.insert, List.mem_singleton] at h; exact .inl h
  | (k', v') :: rest, x, h => by
    rw [Json.insert] at h
    split at h
    · rcases List.mem_cons.mp h with h | h
      · exact .inl h
      · exact .inr (List.mem_cons_of_mem _ h)
    · rcases List.mem_cons.mp h with h | h
      · exact .inr (by rw [h]; simp)
      · rcases mem_jinsert h with h | h
        · exact .inl h
        · exact .inr (List.mem_cons_of_mem _ h)

theorem keys_jinsert {k : String} {v : Json} : ∀ (acc : List (String × Json)) (k' : String),
    k' ∈ (Json.insert k v acc).map (·.1) ↔ k' = k ∨ k' ∈ acc.map (·.1)
  | [], k' => by simp [Json.insert]
  | (k1, v1) :: rest, k' => by
    rw [Json.insert]
    by_cases h : k1 = k
    · subst h; simp
    · have : (k1 == k) = false := by simpa using h
      simp only [this, Bool.false_eq_true, ↓reduceIte, List.map_cons, List.mem_cons, keys_jinsert rest k']
      constructor
      · rintro (h | h | h)
        · exact .inr (.inl h)
        · exact .inl h
        · exact .inr (.inr h)
      · rintro (h | h | h)
        · exact .inr (.inl h)
        · exact .inl h
        · exact .inr (.inr h)

theorem nodup_jinsert {k : String} {v : Json} : ∀ (acc : List (String × Json)), (acc.map (·.1)).Nodup →
    ((Json.insert k v acc).map (·.1)).Nodup
  | [], _ => by simp [Json.insert]
  | (k1, v1) :: rest, h => by
    rw [Json.insert]
    simp only [List.map_cons, List.nodup_cons] at h
    by_cases hk : k1 = k
    · subst hk; simpa using h
    · have : (k1 == k) = false := by simpa using hk
      simp only [this, Bool.false_eq_true, ↓reduceIte, List.map_cons, List.nodup_cons]
      refine ⟨?_, nodup_jinsert rest h.2⟩
      intro hm
      rcases (keys_jinsert rest k1).mp hm with h' | h'
      · exact hk h'
      · exact h.1 h'

theorem foldl_jinsert (M : List (String × Json)) : ∀ (acc : List (String × Json)), (acc.map (·.1)).Nodup →
    ((M.foldl (fun acc (kv : String × Json) => Json.insert kv.1 kv.2 acc) acc).map (·.1)).Nodup ∧
    (∀ x, x ∈ M.foldl (fun acc (kv : String × Json) => Json.insert kv.1 kv.2 acc) acc → x ∈ M ∨ x ∈ acc) ∧
    (∀ k, (k ∈ M.map (·.1) ∨ k ∈ acc.map (·.1)) →
      k ∈ (M.foldl (fun acc (kv : String × Json) => Json.insert kv.1 kv.2 acc) acc).map (·.1)) := by
  induction M with
  | nil => intro acc h; exact ⟨h, fun x hx => .inr hx, fun k hk => by simpa using hk⟩
  | cons kv rest ih =>
    intro acc h
    obtain ⟨h1, h2, h3⟩ := ih (Json.insert kv.1 kv.2 acc) (nodup_jinsert acc h)
    refine ⟨h1, ?_, ?_⟩
    · intro x hx
      rcases h2 x hx with hx | hx
      · exact .inl (List.mem_cons_of_mem _ hx)
      · rcases mem_jinsert hx with hx | hx
        · exact .inl (by rw [hx]; simp)
        · exact .inr hx
    · intro k hk
      apply h3
      rcases hk with hk | hk
      · simp only [List.map_cons, List.mem_cons] at hk
        rcases hk with hk | hk
        · exact .inr ((keys_jinsert acc k).mpr (.inl hk))
        · exact .inl hk
      · exact .inr ((keys_jinsert acc k).mpr (.inr hk))

theorem normObj_facts (M : List (String × Json)) :
    ((Json.normObj M).map (·.1)).Nodup ∧ (∀ x, x ∈ Json.normObj M → x ∈ M) ∧
    (∀ k, k ∈ M.map (·.1) → k ∈ (Json.normObj M).map (·.1)) := by
  obtain ⟨h1, h2, h3⟩ := foldl_jinsert M [] (by simp)
  refine ⟨h1, fun x hx => ?_, fun k hk => h3 k (.inl hk)⟩
  rcases h2 x hx with h | h
  · exact h
  · simp at h

theorem mem_normKvs : ∀ {L : List (String × Json)} {k : String} {v' : Json}, (k, v') ∈ normKvs L →
    ∃ w, (k, w) ∈ L ∧ v' = normJson w
  | [], _, _, h => by simp [normKvs] at h
  | (k1, w1) :: rest, k, v', h => by
    rw [normKvs] at h
    rcases List.mem_cons.mp h with h | h
    · simp only [Prod.mk.injEq] at h
      exact ⟨w1, by rw [h.1]; simp, h.2⟩
    · obtain ⟨w, hw, hv⟩ := mem_normKvs h
      exact ⟨w, List.mem_cons_of_mem _ hw, hv⟩

theorem keys_normKvs' : ∀ (L : List (String × Json)), (normKvs L).map (·.1) = L.map (·.1)
  | [] => by simp [normKvs]
  | (k1, w1) :: rest => by rw [normKvs, List.map_cons, List.map_cons, keys_normKvs' rest]

/-! ## assembling -/

/-- every entry of `L` is (the canonical form of) the entry of `kvs` under its key -/
def From (skip : Bool) (kvs L : List (String × Json)) : Prop :=
  ∀ k w, (k, w) ∈ L → ∃ v, Json.lookup k kvs = some v ∧ SameContent skip v (normJson w)

/-- every entry of `kvs` but `__typename` and (with skip-none) the `null`s has its key in `L` -/
def Covers (skip : Bool) (kvs L : List (String × Json)) : Prop :=
  ∀ k v, Json.lookup k kvs = some v → k = "__typename" ∨ (skip = true ∧ v = .null) ∨ k ∈ L.map (·.1)

theorem From.nil {skip : Bool} {kvs : List (String × Json)} : From skip kvs [] := by
  intro k w h; simp at h

theorem From.append {skip : Bool} {kvs L1 L2 : List (String × Json)} (h1 : From skip kvs L1) (h2 : From skip kvs L2) :
    From skip kvs (L1 ++ L2) := by
  intro k w h
  rcases List.mem_append.mp h with h | h
  · exact h1 k w h
  · exact h2 k w h

theorem From.cons {skip : Bool} {kvs L : List (String × Json)} {k : String} {w v : Json}
    (hl : Json.lookup k kvs = some v) (hs : SameContent skip v (normJson w)) (h : From skip kvs L) :
    From skip kvs ((k, w) :: L) := by
  intro k' w' hm
  rcases List.mem_cons.mp hm with hm | hm
  · simp only [Prod.mk.injEq] at hm
    rw [hm.1, hm.2]; exact ⟨v, hl, hs⟩
  · exact h k' w' hm

theorem sc_obj {skip : Bool} {kvs L : List (String × Json)} (hf : From skip kvs L) (hc : Covers skip kvs L) :
    SameContent skip (.obj kvs) (normJson (.obj L)) := by
  simp only [normJson]
  obtain ⟨h1, h2, h3⟩ := normObj_facts (normKvs L)
  refine .obj _ _ h1 ?_ ?_ ?_
  · intro k v' hm
    obtain ⟨w, hw, _⟩ := mem_normKvs (h2 _ hm)
    obtain ⟨v, hv, _⟩ := hf k w hw
    rw [hv]; rfl
  · intro k v v' hm hl
    obtain ⟨w, hw, rfl⟩ := mem_normKvs (h2 _ hm)
    obtain ⟨v0, hv0, hs⟩ := hf k w hw
    rw [hl] at hv0; cases hv0
    exact hs
  · intro k v hl
    rcases hc k v hl with h | h | h
    · exact .inl h
    · exact .inr (.inl h)
    · exact .inr (.inr (h3 k (by rw [keys_normKvs']; exact h)))

theorem sc_null {skip : Bool} : SameContent skip .null (normJson .null) := by
  simp only [normJson]; exact .refl _

/-- lifting through the list / null structure of a type expression -/
theorem sc_canon {skip : Bool} (ok : Json → Bool) (lc : Json → Json)
    (hl : ∀ j, ok j = true → SameContent skip j (normJson (lc j))) :
    ∀ t : GTy, (∀ j, acceptsNN ok t j = true → SameContent skip j (normJson (canonNN lc t j))) ∧
      (∀ j, accepts ok t j = true → SameContent skip j (normJson (canon lc t j))) := by
  intro t
  have lift : ∀ (A : Json → Bool) (cn : Json → Json), (∀ j, A j = true → SameContent skip j (normJson (cn j))) →
      ∀ j, (j.isNull || A j) = true → SameContent skip j (normJson (if j.isNull then .null else cn j)) := by
    intro A cn h j hj
    cases hn : j.isNull
    · simp only [hn, Bool.false_eq_true, ↓reduceIte]; exact h j (by simpa [hn] using hj)
    · simp only [↓reduceIte]
      rw [isNull_eq j hn]; exact sc_null
  induction t with
  | named n =>
    have hnn : ∀ j, acceptsNN ok (.named n) j = true → SameContent skip j (normJson (canonNN lc (.named n) j)) := by
      intro j hj; simp only [canonNN, acceptsNN] at hj ⊢; exact hl j hj
    exact ⟨hnn, fun j hj => by simp only [canon, accepts] at hj ⊢; exact lift _ _ hnn j hj⟩
  | list t ih =>
    have hnn : ∀ j, acceptsNN ok (.list t) j = true → SameContent skip j (normJson (canonNN lc (.list t) j)) := by
      intro j hj
      cases j with
      | arr xs =>
        simp only [acceptsNN, List.all_eq_true] at hj
        simp only [canonNN, normJson, normList_eq, List.map_map]
        refine .arr _ _ (by simp) ?_
        intro i x y hx hy
        rw [List.getElem?_map, hx] at hy
        simp only [Option.map_some, Option.some.injEq, Function.comp] at hy
        subst hy
        exact ih.2 x (hj x (List.mem_of_getElem? hx))
      | null => simp [acceptsNN] at hj
      | bool _ => simp [acceptsNN] at hj
      | int _ => simp [acceptsNN] at hj
      | num _ => simp [acceptsNN] at hj
      | str _ => simp [acceptsNN] at hj
      | obj _ => simp [acceptsNN] at hj
    exact ⟨hnn, fun j hj => by simp only [canon, accepts] at hj ⊢; exact lift _ _ hnn j hj⟩
  | nonNull t ih =>
    exact ⟨fun j hj => by simp only [canonNN, acceptsNN] at hj ⊢; exact ih.1 j hj,
           fun j hj => by simp only [canon, accepts] at hj ⊢; exact ih.1 j hj⟩

theorem sc_id {skip : Bool} (j : Json) (h : idOk j = true) : SameContent skip j (normJson (idCanon j)) := by
  cases j with
  | int n => simp only [idCanon, normJson]; exact .id n
  | str s => simp only [idCanon, normJson]; exact .refl _
  | null => simp [idOk] at h
  | bool _ => simp [idOk] at h
  | num _ => simp [idOk] at h
  | arr _ => simp [idOk] at h
  | obj _ => simp [idOk] at h

/-- a value left unchanged that is a normal form -/
theorem sc_fixed {skip : Bool} (j : Json) (h : normJson j = j) : SameContent skip j (normJson j) := by
  rw [h]; exact .refl _


/-! ## the pieces of the canonical forms -/

/-- under every selected field's key there is a value, and it conforms to the field -/
def ConfAtV (s : Schema) (sels : List Sel) (kvs : List (String × Json)) : Prop :=
  ∀ a fid sub, Sel.field a fid sub ∈ sels → ∀ sf, s.fields[fid]? = some sf →
    ∃ v, Json.lookup (a.getD sf.name) kvs = some v ∧ strictFieldV s (.field a fid sub) v = true

theorem confAtV_of_conf {s : Schema} {rt : Nat} {sels : List Sel} {kvs : List (String × Json)}
    (h : confSelsV s rt sels kvs = true) : ConfAtV s sels kvs := by
  intro a fid sub hm sf hsf
  have := confSelsV_mem h _ hm
  rw [confSelV_field] at this
  simp only [hsf] at this
  cases hl : Json.lookup (a.getD sf.name) kvs with
  | none => simp [hl] at this
  | some v => exact ⟨v, rfl, by simpa [strictFieldV, hsf, hl] using this⟩

theorem jlookup_mem : ∀ {kvs : List (String × Json)} {k : String} {v : Json}, Json.lookup k kvs = some v → (k, v) ∈ kvs
  | [], _, _, h => by simp [Json.lookup] at h
  | (k', v') :: rest, k, v, h => by
    rw [Json.lookup] at h
    split at h
    · rename_i hk
      simp only [Option.some.injEq] at h
      simp only [beq_iff_eq] at hk
      rw [hk, h]; simp
    · exact List.mem_cons_of_mem _ (jlookup_mem h)

/-- the entries `canonEntriesV` writes, from what it writes for each field -/
theorem fromEntriesV {s : Schema} {skip : Bool} {kvs : List (String × Json)} : ∀ (sels : List Sel),
    (∀ a fid sub, Sel.field a fid sub ∈ sels → ∀ sf, s.fields[fid]? = some sf →
      ∃ v, Json.lookup (a.getD sf.name) kvs = some v ∧
        SameContent skip v (normJson (canonFieldV s skip (.field a fid sub) v))) →
    From skip kvs (canonEntriesV s skip sels kvs)
  | [], _ => by simp [canonEntriesV]; exact From.nil
  | x :: xs, H => by
    have ih := fromEntriesV xs (fun a fid sub hm => H a fid sub (List.mem_cons_of_mem _ hm))
    cases x with
    | field a fid sub =>
      rw [canonEntriesV.eq_2]
      cases hsf : s.fields[fid]? with
      | none => simpa using ih
      | some sf =>
        obtain ⟨v, hl, hs⟩ := H a fid sub (by simp) sf hsf
        simp only [hl]
        split
        · simpa using ih
        · exact From.cons hl hs ih
    | spread g => simpa [canonEntriesV] using ih
    | inline t sub => simpa [canonEntriesV] using ih
    | typename => simpa [canonEntriesV] using ih

/-- every selected field's key is written, unless its value is a skipped `null` -/
theorem covEntriesV {s : Schema} {skip : Bool} {kvs : List (String × Json)} : ∀ (sels : List Sel) (k : String),
    k ∈ fieldKeys s sels → ∀ v, Json.lookup k kvs = some v →
    (skip = true ∧ v = .null) ∨ k ∈ (canonEntriesV s skip sels kvs).map (·.1)
  | [], k, h, _, _ => by simp [fieldKeys] at h
  | x :: xs, k, h, v, hl => by
    have ih := covEntriesV (s := s) (skip := skip) (kvs := kvs) xs k
    cases x with
    | field a fid sub =>
      rw [canonEntriesV.eq_2]
      simp only [fieldKeys, List.filterMap_cons, fieldKey] at h
      cases hsf : s.fields[fid]? with
      | none =>
        simp only [hsf, Option.map_none] at h
        simpa using ih h v hl
      | some sf =>
        simp only [hsf, Option.map_some, List.mem_cons] at h
        rcases h with h | h
        · subst h
          simp only [hl]
          split
          · rename_i hsk
            simp only [Bool.and_eq_true] at hsk
            exact .inl ⟨hsk.1.1, isNull_eq v hsk.2⟩
          · exact .inr (by simp)
        · rcases ih h v hl with h' | h'
          · exact .inl h'
          · exact .inr (by simp only [List.map_append, List.mem_append]; exact .inr h')
    | spread g => simpa [canonEntriesV, fieldKeys, List.filterMap_cons, fieldKey] using ih (by simpa [fieldKeys, List.filterMap_cons, fieldKey] using h) v hl
    | inline t sub => simpa [canonEntriesV, fieldKeys, List.filterMap_cons, fieldKey] using ih (by simpa [fieldKeys, List.filterMap_cons, fieldKey] using h) v hl
    | typename => simpa [canonEntriesV, fieldKeys, List.filterMap_cons, fieldKey] using ih (by simpa [fieldKeys, List.filterMap_cons, fieldKey] using h) v hl

/-- the keys `CollectFields` groups by, sorted out -/
theorem mem_keysSelsV {s : Schema} {rt : Nat} {k : String} : ∀ {sels : List Sel}, k ∈ keysSelsV s rt sels →
    k = "__typename" ∨ k ∈ fieldKeys s sels ∨
      ∃ t isub, Sel.inline t isub ∈ sels ∧ fragApplies s rt t = true ∧ k ∈ keysSelsV s rt isub
  | [], h => by simp [keysSelsV] at h
  | x :: xs, h => by
    rw [keysSelsV, List.mem_append] at h
    rcases h with h | h
    · cases x with
      | field a fid sub =>
        simp only [keysSelV] at h
        cases hsf : s.fields[fid]? with
        | none => simp [hsf] at h
        | some sf =>
          simp only [hsf, List.mem_singleton] at h
          exact .inr (.inl (by simp [fieldKeys, List.filterMap_cons, fieldKey, hsf, h]))
      | typename => simp only [keysSelV, List.mem_singleton] at h; exact .inl h
      | inline t isub =>
        simp only [keysSelV] at h
        split at h
        · rename_i happ
          exact .inr (.inr ⟨t, isub, by simp, happ, h⟩)
        · simp at h
      | spread g => simp [keysSelV] at h
    · rcases mem_keysSelsV h with h' | h' | ⟨t, isub, hm, happ, hk⟩
      · exact .inl h'
      · refine .inr (.inl ?_)
        simp only [fieldKeys, List.filterMap_cons] at h' ⊢
        cases fieldKey s x <;> simp [h']
      · exact .inr (.inr ⟨t, isub, List.mem_cons_of_mem _ hm, happ, hk⟩)

/-- … for a selection set without inline fragments -/
theorem mem_keysSelsV_obj {s : Schema} {rt : Nat} {k : String} {sels : List Sel}
    (hni : ∀ t isub, Sel.inline t isub ∉ sels) (h : k ∈ keysSelsV s rt sels) :
    k = "__typename" ∨ k ∈ fieldKeys s sels := by
  rcases mem_keysSelsV h with h | h | ⟨t, isub, hm, _, _⟩
  · exact .inl h
  · exact .inr h
  · exact absurd hm (hni t isub)

theorem no_inline_of_vSels {s : Schema} {o : Options} : ∀ {sels : List Sel}, vSels s o false sels = true →
    ∀ t isub, Sel.inline t isub ∉ sels
  | [], _, _, _, h => by simp at h
  | x :: xs, h, t, isub, hm => by
    obtain ⟨hx, hxs⟩ := vSels_cons h
    rcases List.mem_cons.mp hm with rfl | hm'
    · simp [vSel] at hx
    · exact no_inline_of_vSels hxs t isub hm'

/-- the entries of the inline fragment on the object type named `n` are among those `canonInlV` writes -/
theorem canonInlV_sub {s : Schema} {skip : Bool} {kvs : List (String × Json)} {n : String} : ∀ {sub : List Sel}
    {t : TypeId} {isub : List Sel}, Sel.inline t isub ∈ sub → objName s t = n →
    ∀ kv ∈ canonEntriesV s skip isub kvs, kv ∈ canonInlV s skip n sub kvs
  | [], _, _, h, _, _, _ => by simp at h
  | x :: xs, t, isub, hm, hn, kv, hkv => by
    rcases List.mem_cons.mp hm with heq | hm'
    · subst heq
      rw [canonInlV]
      simp only [hn, beq_self_eq_true, ↓reduceIte, List.mem_append]
      exact .inl hkv
    · have ih := canonInlV_sub hm' hn kv hkv
      cases x with
      | inline t' isub' => rw [canonInlV, List.mem_append]; exact .inr ih
      | field a fid sub' => simpa [canonInlV] using ih
      | spread g => simpa [canonInlV] using ih
      | typename => simpa [canonInlV] using ih

/-- … and every entry `canonInlV` writes is one of such an inline fragment -/
theorem mem_canonInlV {s : Schema} {skip : Bool} {kvs : List (String × Json)} {n : String} : ∀ {sub : List Sel}
    {kv : String × Json}, kv ∈ canonInlV s skip n sub kvs →
    ∃ t isub, Sel.inline t isub ∈ sub ∧ objName s t = n ∧ kv ∈ canonEntriesV s skip isub kvs
  | [], _, h => by simp [canonInlV] at h
  | x :: xs, kv, h => by
    cases x with
    | inline t isub =>
      rw [canonInlV, List.mem_append] at h
      rcases h with h | h
      · split at h
        · rename_i hn
          exact ⟨t, isub, by simp, by simpa using hn, h⟩
        · simp at h
      · obtain ⟨t', isub', hm, hn, hkv⟩ := mem_canonInlV h
        exact ⟨t', isub', List.mem_cons_of_mem _ hm, hn, hkv⟩
    | field a fid sub' =>
      obtain ⟨t', isub', hm, hn, hkv⟩ := mem_canonInlV (by simpa [canonInlV] using h)
      exact ⟨t', isub', List.mem_cons_of_mem _ hm, hn, hkv⟩
    | spread g =>
      obtain ⟨t', isub', hm, hn, hkv⟩ := mem_canonInlV (by simpa [canonInlV] using h)
      exact ⟨t', isub', List.mem_cons_of_mem _ hm, hn, hkv⟩
    | typename =>
      obtain ⟨t', isub', hm, hn, hkv⟩ := mem_canonInlV (by simpa [canonInlV] using h)
      exact ⟨t', isub', List.mem_cons_of_mem _ hm, hn, hkv⟩

theorem fragApplies_obj {s : Schema} {rt i : Nat} (h : fragApplies s rt (.object i) = true) : i = rt := by
  simpa [fragApplies] using h

/-! ## `VariantOp` selection sets (the bodies of fragments) -/

section ContentV
variable (s : Schema) (o : Options) (skip : Bool)

/-- the canonical form at an abstract position of `VariantOp` has the content of the response object, given that of its
    parts -/
theorem sc_absV (ty : TypeId) (sub : List Sel)
    (IHe : ∀ kvs, ConfAtV s sub kvs → From skip kvs (canonEntriesV s skip sub kvs))
    (IHi : ∀ t isub, Sel.inline t isub ∈ sub → ∀ kvs, ConfAtV s isub kvs → From skip kvs (canonEntriesV s skip isub kvs))
    (hty : absHyp s ty) (ht : vSels s o true sub = true) (hok : absOk s o ty sub = true) (j : Json)
    (hc : conformsAt s ty sub j = true) : SameContent skip j (normJson (canonAbsV s skip sub j)) := by
  obtain ⟨htn, hrk, hobj, _, hvn, hin, hind, hexcl⟩ := absOk_parts hok
  simp only [conformsAt, List.any_eq_true, List.mem_range, Bool.and_eq_true] at hc
  obtain ⟨rt, hrt, happ, hc⟩ := hc
  cases j with
  | obj kvs =>
    simp only [conformsV, Bool.and_eq_true, List.all_eq_true] at hc
    obtain ⟨⟨hnd, hkeys⟩, hconf⟩ := hc
    have hmem : TypeId.object rt ∈ vtsOfTy s ty := mem_vtsOfTy happ hrt hty
    have htag : Json.lookup "__typename" kvs = some (.str (rtName s rt)) := by
      have := confSelsV_mem hconf _ (typename_mem htn)
      simp only [confSelV] at this
      split at this
      · rename_i n hl; rw [hl]; simp only [beq_iff_eq] at this; rw [this]
      · cases this
    have htagName : tagName kvs = rtName s rt := by simp [tagName, htag]
    have hnames : ((vtsOfTy s ty).map (objName s)).Nodup := by
      unfold variantNames at hvn
      exact (List.nodup_append.mp hvn).1
    simp only [canonAbsV, htagName]
    apply sc_obj
    · -- every written entry is an entry of the response
      apply From.append (IHe kvs (confAtV_of_conf hconf))
      refine From.cons htag (by simp only [normJson]; exact .refl _) ?_
      intro k w hm
      obtain ⟨t, isub, hmi, hn, hkv⟩ := mem_canonInlV hm
      have htv : t ∈ vtsOfTy s ty := hin t (List.mem_filterMap.mpr ⟨_, hmi, rfl⟩)
      have heq : t = .object rt := by
        have := objName_eq_iff s _ hnames htv hmem
        rw [show rtName s rt = objName s (.object rt) from rfl] at hn
        simpa [hn] using this
      subst heq
      have hconf_i : confSelsV s rt isub kvs = true := by
        have := confSelsV_mem hconf _ hmi
        simpa [confSelV, fragApplies] using this
      exact IHi _ isub hmi kvs (confAtV_of_conf hconf_i) k w hkv
    · -- every entry of the response is written
      intro k v hl
      have hk : k ∈ keysSelsV s rt sub := by
        have := hkeys (k, v) (jlookup_mem hl)
        simpa using this
      rcases mem_keysSelsV hk with h | h | ⟨t, isub, hmi, happi, hki⟩
      · exact .inl h
      · rcases covEntriesV (skip := skip) sub k h v hl with h' | h'
        · exact .inr (.inl h')
        · exact .inr (.inr (by simp only [List.map_append, List.mem_append]; exact .inl h'))
      · have htv : t ∈ vtsOfTy s ty := hin t (List.mem_filterMap.mpr ⟨_, hmi, rfl⟩)
        obtain ⟨i, rfl, _⟩ := hobj t htv
        have := fragApplies_obj happi
        subst this
        have hvi := vSels_mem ht _ hmi
        simp only [vSel, Bool.and_eq_true] at hvi
        rcases mem_keysSelsV_obj (no_inline_of_vSels hvi.1.2) hki with h | h
        · exact .inl h
        · rcases covEntriesV (skip := skip) isub k h v hl with h' | h'
          · exact .inr (.inl h')
          · refine .inr (.inr ?_)
            obtain ⟨kv, hkv, hkk⟩ := List.mem_map.mp h'
            have := canonInlV_sub (s := s) (skip := skip) (kvs := kvs) hmi (rfl : objName s (.object i) = rtName s i) kv hkv
            simp only [List.map_append, List.map_cons, List.mem_append, List.mem_cons]
            exact .inr (.inr (List.mem_map.mpr ⟨kv, this, hkk⟩))
  | null => simp [conformsV] at hc
  | bool _ => simp [conformsV] at hc
  | int _ => simp [conformsV] at hc
  | num _ => simp [conformsV] at hc
  | str _ => simp [conformsV] at hc
  | arr _ => simp [conformsV] at hc

end ContentV

section ContentV2
variable (s : Schema) (o : Options) (skip : Bool)

/-- what is proved of every field of a selection set of `VariantOp` -/
def FieldsSCV (sels : List Sel) (kvs : List (String × Json)) : Prop :=
  ∀ a fid sub, Sel.field a fid sub ∈ sels → ∀ sf, s.fields[fid]? = some sf →
    ∃ v, Json.lookup (a.getD sf.name) kvs = some v ∧
      SameContent skip v (normJson (canonFieldV s skip (.field a fid sub) v))

theorem sc_objV (sub : List Sel) (hni : ∀ t isub, Sel.inline t isub ∉ sub)
    (IHe : ∀ kvs, ConfAtV s sub kvs → From skip kvs (canonEntriesV s skip sub kvs)) (ty : TypeId) (j : Json)
    (hj : conformsAt s ty sub j = true) : SameContent skip j (normJson (canonSelV s skip sub j)) := by
  simp only [conformsAt, List.any_eq_true, List.mem_range, Bool.and_eq_true] at hj
  obtain ⟨rt, _, _, hcv⟩ := hj
  cases j with
  | obj kvs =>
    simp only [conformsV, Bool.and_eq_true, List.all_eq_true] at hcv
    rw [canonSelV]
    apply sc_obj (IHe kvs (confAtV_of_conf hcv.2))
    intro k v hl
    have hk : k ∈ keysSelsV s rt sub := by simpa using hcv.1.2 (k, v) (jlookup_mem hl)
    rcases mem_keysSelsV_obj hni hk with h | h
    · exact .inl h
    · rcases covEntriesV (skip := skip) sub k h v hl with h' | h'
      · exact .inr (.inl h')
      · exact .inr (.inr h')
  | null => simp [conformsV] at hcv
  | bool _ => simp [conformsV] at hcv
  | int _ => simp [conformsV] at hcv
  | num _ => simp [conformsV] at hcv
  | str _ => simp [conformsV] at hcv
  | arr _ => simp [conformsV] at hcv

mutual
  theorem scFieldV : ∀ (x : Sel) (abs : Bool) (v : Json), vSel s o abs x = true →
      strictFieldV s x v = true → SameContent skip v (normJson (canonFieldV s skip x v))
    | .field a fid sub, abs, v => by
      intro ht hst
      have IHe := scFieldsV sub
      have IHi := scInlsV sub
      rw [vSel] at ht
      simp only [strictFieldV] at hst
      rw [canonFieldV]
      cases hsf : s.fields[fid]? with
      | none => simp [hsf] at ht
      | some sf =>
        simp only [hsf, Bool.and_eq_true] at ht hst ⊢
        obtain ⟨_, hty⟩ := ht
        cases hid : sf.ty.id with
        | scalar k =>
          simp only [hid] at hst ⊢
          cases hk : s.scalars[k]? with
          | none => simp [hk] at hst
          | some sn =>
            simp only [hk] at hst ⊢
            by_cases hID : sn = "ID"
            · subst hID
              simp only [↓reduceIte]
              exact (sc_canon idOk idCanon sc_id _).2 v (by simpa [scalarOk] using hst)
            · simp only [hID, ↓reduceIte]
              have := (sc_canon (skip := skip) (scalarOk sn) id (fun j h => sc_fixed j (norm_scalar sn j h)) _).2 v hst
              rwa [(canon_id _).2 v] at this
        | «enum» k =>
          simp only [hid] at hst ⊢
          cases hk : s.enums[k]? with
          | none => simp [hk] at hst
          | some en =>
            simp only [hk] at hst
            have := (sc_canon (skip := skip) stringOk id (fun j h => sc_fixed j (norm_string j h)) _).2 v hst
            rwa [(canon_id _).2 v] at this
        | object i =>
          simp only [hid, Bool.and_eq_true] at hty hst ⊢
          rw [canonLambdaV]
          exact (sc_canon (conformsAt s (.object i) sub) (canonSelV s skip sub)
            (sc_objV s skip sub (no_inline_of_vSels hty.1.2)
              (fun kvs h => fromEntriesV sub (IHe false kvs hty.1.2 h)) (.object i)) _).2 v hst
        | interface k =>
          simp only [hid, Bool.and_eq_true] at hty hst ⊢
          rw [canonLambdaAbs]
          exact (sc_canon (conformsAt s (.interface k) sub) (canonAbsV s skip sub)
            (sc_absV s o skip (.interface k) sub (fun kvs h => fromEntriesV sub (IHe true kvs hty.1.2 h))
              (fun t isub hm kvs h => fromEntriesV isub (IHi hty.1.2 t isub hm kvs h)) hty.1.1 hty.1.2 hty.2) _).2 v hst
        | union k =>
          simp only [hid, Bool.and_eq_true] at hty hst ⊢
          rw [canonLambdaAbs]
          exact (sc_canon (conformsAt s (.union k) sub) (canonAbsV s skip sub)
            (sc_absV s o skip (.union k) sub (fun kvs h => fromEntriesV sub (IHe true kvs hty.1.2 h))
              (fun t isub hm kvs h => fromEntriesV isub (IHi hty.1.2 t isub hm kvs h)) hty.1.1 hty.1.2 hty.2) _).2 v hst
        | input k => simp [hid] at hty
    | .spread _, _, _ => by intro ht; simp [vSel] at ht
    | .inline _ _, _, _ => by intro _ h; simp [strictFieldV] at h
    | .typename, _, _ => by intro _ h; simp [strictFieldV] at h
  theorem scFieldsV : ∀ (sels : List Sel) (abs : Bool) (kvs : List (String × Json)),
      vSels s o abs sels = true → ConfAtV s sels kvs → FieldsSCV s skip sels kvs
    | [], _, _, _, _ => by intro a fid sub hm; simp at hm
    | x :: xs, abs, kvs, ht, hc => by
      obtain ⟨hx, hxs⟩ := vSels_cons ht
      have ih := scFieldsV xs abs kvs hxs (fun a fid sub hm => hc a fid sub (List.mem_cons_of_mem _ hm))
      intro a fid sub hm sf hsf
      rcases List.mem_cons.mp hm with heq | hm'
      · cases x with
        | field a' fid' sub' =>
          cases heq
          obtain ⟨v, hl, hst⟩ := hc a fid sub (by simp) sf hsf
          exact ⟨v, hl, scFieldV (.field a fid sub) abs v hx hst⟩
        | inline t sub' => cases heq
        | spread g => cases heq
        | typename => cases heq
      · exact ih a fid sub hm' sf hsf
  theorem scInlsV : ∀ (sels : List Sel), vSels s o true sels = true → ∀ t isub, Sel.inline t isub ∈ sels →
      ∀ kvs, ConfAtV s isub kvs → FieldsSCV s skip isub kvs
    | [], _, _, _, h => by simp at h
    | x :: xs, ht, t, isub, hm => by
      obtain ⟨hx, hxs⟩ := vSels_cons ht
      rcases List.mem_cons.mp hm with heq | hm'
      · cases x with
        | inline t' isub' =>
          cases heq
          simp only [vSel, Bool.and_eq_true] at hx
          exact fun kvs h => scFieldsV isub false kvs hx.1.2 h
        | field a fid sub => cases heq
        | spread g => cases heq
        | typename => cases heq
      · exact scInlsV xs hxs t isub hm'
end

/-- the entries written for a selection set of `VariantOp` are entries of the response object -/
theorem scEntriesV (sels : List Sel) (abs : Bool) (kvs : List (String × Json)) (ht : vSels s o abs sels = true)
    (hc : ConfAtV s sels kvs) : From skip kvs (canonEntriesV s skip sels kvs) :=
  fromEntriesV sels (scFieldsV s o skip sels abs kvs ht hc)

/-- … at an abstract position of `VariantOp` (the own type(s) of a fragment on an abstract type) -/
theorem sc_canonAbsV (ty : TypeId) (sub : List Sel) (hty : absHyp s ty) (ht : vSels s o true sub = true)
    (hok : absOk s o ty sub = true) (j : Json) (hc : conformsAt s ty sub j = true) :
    SameContent skip j (normJson (canonAbsV s skip sub j)) :=
  sc_absV s o skip ty sub (fun kvs h => scEntriesV s o skip sub true kvs ht h)
    (fun t isub hm kvs h => fromEntriesV isub (scInlsV s o skip sub ht t isub hm kvs h)) hty ht hok j hc

end ContentV2

/-! ## the pieces of `canonSelD` -/

/-- under every selected field's key there is a value, and it conforms to the field (spreads below expanded) -/
def ConfAtS (s : Schema) (q : Query) (sels : List Sel) (kvs : List (String × Json)) : Prop :=
  ∀ a fid sub, Sel.field a fid sub ∈ sels → ∀ sf, s.fields[fid]? = some sf →
    ∃ v, Json.lookup (a.getD sf.name) kvs = some v ∧ strictFieldV s (expandSel q (.field a fid sub)) v = true

theorem confAtS_of_conf {s : Schema} {q : Query} {rt : Nat} {sels : List Sel} {kvs : List (String × Json)}
    (h : confSelsV s rt (expandSels q sels) kvs = true) : ConfAtS s q sels kvs := by
  intro a fid sub hm sf hsf
  have := confSelsV_mem h _ (expandSels_mem q hm)
  rw [expandSel, confSelV_field] at this
  simp only [hsf] at this
  cases hl : Json.lookup (a.getD sf.name) kvs with
  | none => simp [hl] at this
  | some v => exact ⟨v, rfl, by rw [expandSel]; simpa [strictFieldV, hsf, hl] using this⟩

/-- what is proved of every field of a selection set of the class -/
def FieldsSCD (s : Schema) (q : Query) (skip : Bool) (sels : List Sel) (kvs : List (String × Json)) : Prop :=
  ∀ a fid sub, Sel.field a fid sub ∈ sels → ∀ sf, s.fields[fid]? = some sf →
    ∃ v, Json.lookup (a.getD sf.name) kvs = some v ∧
      SameContent skip v (normJson (canonFieldD s q skip (.field a fid sub) v))

theorem FieldsSCD.tail {s : Schema} {q : Query} {skip : Bool} {x : Sel} {xs : List Sel} {kvs : List (String × Json)}
    (h : FieldsSCD s q skip (x :: xs) kvs) : FieldsSCD s q skip xs kvs :=
  fun a fid sub hm => h a fid sub (List.mem_cons_of_mem _ hm)

theorem fromEntriesD {s : Schema} {q : Query} {skip : Bool} {kvs : List (String × Json)} : ∀ (sels : List Sel),
    FieldsSCD s q skip sels kvs → From skip kvs (canonEntriesD s q skip sels kvs)
  | [], _ => by simp [canonEntriesD]; exact From.nil
  | x :: xs, H => by
    have ih := fromEntriesD xs H.tail
    cases x with
    | field a fid sub =>
      rw [canonEntriesD.eq_2]
      cases hsf : s.fields[fid]? with
      | none => simpa using ih
      | some sf =>
        obtain ⟨v, hl, hs⟩ := H a fid sub (by simp) sf hsf
        simp only [hl]
        split
        · simpa using ih
        · exact From.cons hl hs ih
    | spread g => simpa [canonEntriesD] using ih
    | inline t sub => simpa [canonEntriesD] using ih
    | typename => simpa [canonEntriesD] using ih

theorem covEntriesD {s : Schema} {q : Query} {skip : Bool} {kvs : List (String × Json)} : ∀ (sels : List Sel) (k : String),
    k ∈ fieldKeys s sels → ∀ v, Json.lookup k kvs = some v →
    (skip = true ∧ v = .null) ∨ k ∈ (canonEntriesD s q skip sels kvs).map (·.1)
  | [], k, h, _, _ => by simp [fieldKeys] at h
  | x :: xs, k, h, v, hl => by
    have ih := covEntriesD (s := s) (q := q) (skip := skip) (kvs := kvs) xs k
    cases x with
    | field a fid sub =>
      rw [canonEntriesD.eq_2]
      simp only [fieldKeys, List.filterMap_cons, fieldKey] at h
      cases hsf : s.fields[fid]? with
      | none =>
        simp only [hsf, Option.map_none] at h
        simpa using ih h v hl
      | some sf =>
        simp only [hsf, Option.map_some, List.mem_cons] at h
        rcases h with h | h
        · subst h
          simp only [hl]
          split
          · rename_i hsk
            simp only [Bool.and_eq_true] at hsk
            exact .inl ⟨hsk.1.1, isNull_eq v hsk.2⟩
          · exact .inr (by simp)
        · rcases ih h v hl with h' | h'
          · exact .inl h'
          · exact .inr (by simp only [List.map_append, List.mem_append]; exact .inr h')
    | spread g => simpa [canonEntriesD, fieldKeys, List.filterMap_cons, fieldKey] using ih (by simpa [fieldKeys, List.filterMap_cons, fieldKey] using h) v hl
    | inline t sub => simpa [canonEntriesD, fieldKeys, List.filterMap_cons, fieldKey] using ih (by simpa [fieldKeys, List.filterMap_cons, fieldKey] using h) v hl
    | typename => simpa [canonEntriesD, fieldKeys, List.filterMap_cons, fieldKey] using ih (by simpa [fieldKeys, List.filterMap_cons, fieldKey] using h) v hl

theorem fromEntriesBD {s : Schema} {q : Query} {skip : Bool} {ty : TypeId} {rest kvs : List (String × Json)} :
    ∀ (sels : List Sel), FieldsSCD s q skip sels kvs →
    (∀ g f, Sel.spread g ∈ sels → q.fragments[g]? = some f → f.on = ty →
      From skip kvs (absEntries (canonAbsV s skip f.sels (.obj rest)))) →
    From skip kvs (canonEntriesBD s q skip ty rest sels kvs)
  | [], _, _ => by simp [canonEntriesBD]; exact From.nil
  | x :: xs, H, HB => by
    have ih := fromEntriesBD xs H.tail (fun g f hm => HB g f (List.mem_cons_of_mem _ hm))
    cases x with
    | field a fid sub =>
      rw [canonEntriesBD.eq_2]
      cases hsf : s.fields[fid]? with
      | none => simpa using ih
      | some sf =>
        obtain ⟨v, hl, hs⟩ := H a fid sub (by simp) sf hsf
        simp only [hl]
        split
        · simpa using ih
        · exact From.cons hl hs ih
    | spread g =>
      rw [canonEntriesBD.eq_3]
      cases hf : q.fragments[g]? with
      | none => simpa using ih
      | some f =>
        simp only []
        by_cases hon : f.on = ty
        · simp only [hon, beq_self_eq_true, ↓reduceIte]
          exact From.append (HB g f (by simp) hf hon) ih
        · have : (f.on == ty) = false := by simpa using hon
          simpa [this] using ih
    | inline t sub => simpa [canonEntriesBD] using ih
    | typename => simpa [canonEntriesBD] using ih

theorem covEntriesBD {s : Schema} {q : Query} {skip : Bool} {ty : TypeId} {rest kvs : List (String × Json)} :
    ∀ (sels : List Sel) (k : String), k ∈ fieldKeys s sels → ∀ v, Json.lookup k kvs = some v →
    (skip = true ∧ v = .null) ∨ k ∈ (canonEntriesBD s q skip ty rest sels kvs).map (·.1)
  | [], k, h, _, _ => by simp [fieldKeys] at h
  | x :: xs, k, h, v, hl => by
    have ih := covEntriesBD (s := s) (q := q) (skip := skip) (ty := ty) (rest := rest) (kvs := kvs) xs k
    cases x with
    | field a fid sub =>
      rw [canonEntriesBD.eq_2]
      simp only [fieldKeys, List.filterMap_cons, fieldKey] at h
      cases hsf : s.fields[fid]? with
      | none =>
        simp only [hsf, Option.map_none] at h
        simpa using ih h v hl
      | some sf =>
        simp only [hsf, Option.map_some, List.mem_cons] at h
        rcases h with h | h
        · subst h
          simp only [hl]
          split
          · rename_i hsk
            simp only [Bool.and_eq_true] at hsk
            exact .inl ⟨hsk.1.1, isNull_eq v hsk.2⟩
          · exact .inr (by simp)
        · rcases ih h v hl with h' | h'
          · exact .inl h'
          · exact .inr (by simp only [List.map_append, List.mem_append]; exact .inr h')
    | spread g =>
      rw [canonEntriesBD.eq_3]
      rcases ih (by simpa [fieldKeys, List.filterMap_cons, fieldKey] using h) v hl with h' | h'
      · exact .inl h'
      · exact .inr (by simp only [List.map_append, List.mem_append]; exact .inr h')
    | inline t sub => simpa [canonEntriesBD, fieldKeys, List.filterMap_cons, fieldKey] using ih (by simpa [fieldKeys, List.filterMap_cons, fieldKey] using h) v hl
    | typename => simpa [canonEntriesBD, fieldKeys, List.filterMap_cons, fieldKey] using ih (by simpa [fieldKeys, List.filterMap_cons, fieldKey] using h) v hl

/-- the entries of a fragment on the abstract type itself are among those `canonEntriesBD` writes -/
theorem subEntriesBD {s : Schema} {q : Query} {skip : Bool} {ty : TypeId} {rest kvs : List (String × Json)} :
    ∀ {sels : List Sel} {g : Nat} {f : RFragment}, Sel.spread g ∈ sels → q.fragments[g]? = some f → f.on = ty →
    ∀ kv ∈ absEntries (canonAbsV s skip f.sels (.obj rest)), kv ∈ canonEntriesBD s q skip ty rest sels kvs
  | [], _, _, h, _, _, _, _ => by simp at h
  | x :: xs, g, f, hm, hf, hon, kv, hkv => by
    rcases List.mem_cons.mp hm with heq | hm'
    · subst heq
      rw [canonEntriesBD.eq_3]
      simp only [hf, hon, beq_self_eq_true, ↓reduceIte, List.mem_append]
      exact .inl hkv
    · have ih := subEntriesBD (s := s) (q := q) (skip := skip) (ty := ty) (rest := rest) (kvs := kvs) hm' hf hon kv hkv
      cases x with
      | field a fid sub => rw [canonEntriesBD.eq_2, List.mem_append]; exact .inr ih
      | spread g' => rw [canonEntriesBD.eq_3, List.mem_append]; exact .inr ih
      | inline t sub => simpa [canonEntriesBD] using ih
      | typename => simpa [canonEntriesBD] using ih

theorem mem_canonVarD {s : Schema} {q : Query} {skip : Bool} {kvs : List (String × Json)} {n : String} :
    ∀ {sub : List Sel} {kv : String × Json}, kv ∈ canonVarD s q skip n sub kvs →
    (∃ t isub, Sel.inline t isub ∈ sub ∧ objName s t = n ∧ kv ∈ canonEntriesD s q skip isub kvs) ∨
    (∃ g f, Sel.spread g ∈ sub ∧ q.fragments[g]? = some f ∧ onNamed s f.on n = true ∧
      kv ∈ canonEntriesV s skip f.sels kvs)
  | [], _, h => by simp [canonVarD] at h
  | x :: xs, kv, h => by
    have lift : ((∃ t isub, Sel.inline t isub ∈ xs ∧ objName s t = n ∧ kv ∈ canonEntriesD s q skip isub kvs) ∨
        (∃ g f, Sel.spread g ∈ xs ∧ q.fragments[g]? = some f ∧ onNamed s f.on n = true ∧
          kv ∈ canonEntriesV s skip f.sels kvs)) →
        ((∃ t isub, Sel.inline t isub ∈ x :: xs ∧ objName s t = n ∧ kv ∈ canonEntriesD s q skip isub kvs) ∨
        (∃ g f, Sel.spread g ∈ x :: xs ∧ q.fragments[g]? = some f ∧ onNamed s f.on n = true ∧
          kv ∈ canonEntriesV s skip f.sels kvs)) := by
      rintro (⟨t, isub, hm, hn, hkv⟩ | ⟨g, f, hm, hf, hn, hkv⟩)
      · exact .inl ⟨t, isub, List.mem_cons_of_mem _ hm, hn, hkv⟩
      · exact .inr ⟨g, f, List.mem_cons_of_mem _ hm, hf, hn, hkv⟩
    cases x with
    | inline t isub =>
      rw [canonVarD, List.mem_append] at h
      rcases h with h | h
      · split at h
        · rename_i hn
          exact .inl ⟨t, isub, by simp, by simpa using hn, h⟩
        · simp at h
      · exact lift (mem_canonVarD h)
    | spread g =>
      rw [canonVarD, List.mem_append] at h
      rcases h with h | h
      · cases hf : q.fragments[g]? with
        | none => simp [hf] at h
        | some f =>
          simp only [hf] at h
          split at h
          · rename_i hn
            exact .inr ⟨g, f, by simp, hf, hn, h⟩
          · simp at h
      · exact lift (mem_canonVarD h)
    | field a fid sub' => exact lift (mem_canonVarD (by simpa [canonVarD] using h))
    | typename => exact lift (mem_canonVarD (by simpa [canonVarD] using h))

theorem canonVarD_subI {s : Schema} {q : Query} {skip : Bool} {kvs : List (String × Json)} {n : String} :
    ∀ {sub : List Sel} {t : TypeId} {isub : List Sel}, Sel.inline t isub ∈ sub → objName s t = n →
    ∀ kv ∈ canonEntriesD s q skip isub kvs, kv ∈ canonVarD s q skip n sub kvs
  | [], _, _, h, _, _, _ => by simp at h
  | x :: xs, t, isub, hm, hn, kv, hkv => by
    rcases List.mem_cons.mp hm with heq | hm'
    · subst heq
      rw [canonVarD]
      simp only [hn, beq_self_eq_true, ↓reduceIte, List.mem_append]
      exact .inl hkv
    · have ih := canonVarD_subI (s := s) (q := q) (skip := skip) (kvs := kvs) hm' hn kv hkv
      cases x with
      | inline t' isub' => rw [canonVarD, List.mem_append]; exact .inr ih
      | spread g => rw [canonVarD, List.mem_append]; exact .inr ih
      | field a fid sub' => simpa [canonVarD] using ih
      | typename => simpa [canonVarD] using ih

theorem canonVarD_subA {s : Schema} {q : Query} {skip : Bool} {kvs : List (String × Json)} {n : String} :
    ∀ {sub : List Sel} {g : Nat} {f : RFragment}, Sel.spread g ∈ sub → q.fragments[g]? = some f →
    onNamed s f.on n = true → ∀ kv ∈ canonEntriesV s skip f.sels kvs, kv ∈ canonVarD s q skip n sub kvs
  | [], _, _, h, _, _, _, _ => by simp at h
  | x :: xs, g, f, hm, hf, hn, kv, hkv => by
    rcases List.mem_cons.mp hm with heq | hm'
    · subst heq
      rw [canonVarD]
      simp only [hf, hn, ↓reduceIte, List.mem_append]
      exact .inl hkv
    · have ih := canonVarD_subA (s := s) (q := q) (skip := skip) (kvs := kvs) hm' hf hn kv hkv
      cases x with
      | inline t' isub' => rw [canonVarD, List.mem_append]; exact .inr ih
      | spread g' => rw [canonVarD, List.mem_append]; exact .inr ih
      | field a fid sub' => simpa [canonVarD] using ih
      | typename => simpa [canonVarD] using ih

theorem mem_expandSels (q : Query) : ∀ {sels : List Sel} {y : Sel}, y ∈ expandSels q sels → ∃ x ∈ sels, y = expandSel q x
  | [], _, h => by simp [expandSels] at h
  | x :: xs, y, h => by
    rw [expandSels] at h
    rcases List.mem_cons.mp h with h | h
    · exact ⟨x, by simp, h⟩
    · obtain ⟨x', hx', hy⟩ := mem_expandSels q h
      exact ⟨x', List.mem_cons_of_mem _ hx', hy⟩

theorem fieldKeys_expandSels (s : Schema) (q : Query) : ∀ (sels : List Sel), fieldKeys s (expandSels q sels) = fieldKeys s sels
  | [] => by simp [expandSels]
  | x :: xs => by
    have ih := fieldKeys_expandSels s q xs
    unfold fieldKeys at ih ⊢
    rw [expandSels, List.filterMap_cons, List.filterMap_cons, ih]
    cases x with
    | field a fid sub => simp [expandSel, fieldKey]
    | inline t sub => simp [expandSel, fieldKey]
    | spread g =>
      simp only [expandSel]
      cases q.fragments[g]? <;> simp [fieldKey]
    | typename => simp [expandSel, fieldKey]

theorem lookup_filter_nodup {p : String × Json → Bool} {kvs : List (String × Json)} (hnd : (kvs.map (·.1)).Nodup)
    {k : String} {v : Json} (h : Json.lookup k (kvs.filter p) = some v) : Json.lookup k kvs = some v := by
  have hm := jlookup_mem h
  have hm' : (k, v) ∈ kvs := (List.mem_filter.mp hm).1
  cases hl : Json.lookup k kvs with
  | none =>
    have : k ∉ kvs.map (·.1) := by
      intro hk
      obtain ⟨kv, hkv, hkk⟩ := List.mem_map.mp hk
      have hx : ∀ (l : List (String × Json)), kv ∈ l → Json.lookup kv.1 l ≠ none := by
        intro l
        induction l with
        | nil => intro h; simp at h
        | cons y ys ih =>
          intro hy
          rw [Json.lookup]
          split
          · simp
          · rename_i hne
            rcases List.mem_cons.mp hy with rfl | hy'
            · simp at hne
            · exact ih hy'
      rw [← hkk] at hl
      exact hx kvs hkv hl
    exact absurd (List.mem_map.mpr ⟨(k, v), hm', rfl⟩) this
  | some v' =>
    have hm2 := jlookup_mem hl
    -- two entries with the key `k` in a list with pairwise distinct keys
    have huniq : ∀ (l : List (String × Json)), (l.map (·.1)).Nodup → (k, v) ∈ l → (k, v') ∈ l → v = v' := by
      intro l
      induction l with
      | nil => intro _ h; simp at h
      | cons y ys ih =>
        intro hnd h1 h2
        simp only [List.map_cons, List.nodup_cons] at hnd
        rcases List.mem_cons.mp h1 with rfl | h1'
        · rcases List.mem_cons.mp h2 with h2' | h2'
          · simpa using h2'.symm
          · exact absurd (List.mem_map.mpr ⟨(k, v'), h2', rfl⟩) hnd.1
        · rcases List.mem_cons.mp h2 with rfl | h2'
          · exact absurd (List.mem_map.mpr ⟨(k, v), h1', rfl⟩) hnd.1
          · exact ih hnd.2 h1' h2'
    rw [huniq kvs hnd hm' hm2]

theorem From.of_filter {skip : Bool} {p : String × Json → Bool} {kvs L : List (String × Json)}
    (hnd : (kvs.map (·.1)).Nodup) (h : From skip (kvs.filter p) L) : From skip kvs L := by
  intro k w hm
  obtain ⟨v, hl, hs⟩ := h k w hm
  exact ⟨v, lookup_filter_nodup hnd hl, hs⟩

theorem lookup_filter_of {p : String × Json → Bool} : ∀ {kvs : List (String × Json)} {k : String} {v : Json},
    Json.lookup k kvs = some v → (∀ v', p (k, v') = true) → Json.lookup k (kvs.filter p) = some v
  | [], _, _, h, _ => by simp [Json.lookup] at h
  | (k', v') :: rest, k, v, h, hp => by
    rw [Json.lookup] at h
    by_cases hk : k' = k
    · subst hk
      simp only [beq_self_eq_true, ↓reduceIte, Option.some.injEq] at h
      subst h
      simp [List.filter_cons, hp, Json.lookup]
    · have hne : (k' == k) = false := by simpa using hk
      simp only [hne, Bool.false_eq_true, ↓reduceIte] at h
      have ih := lookup_filter_of h hp
      rw [List.filter_cons]
      split
      · rw [Json.lookup]; simp only [hne, Bool.false_eq_true, ↓reduceIte]; exact ih
      · exact ih

/-! ## an abstract position of the class -/

mutual
  theorem keysSelV_deep (s : Schema) (rt : Nat) (k : String) : ∀ (x : Sel), k ∈ keysSelV s rt x →
      k = "__typename" ∨ k ∈ deepKey s x
    | .field a fid sub => by
      intro h
      simp only [keysSelV] at h
      rw [deepKey]
      exact .inr h
    | .typename => by intro h; simp only [keysSelV, List.mem_singleton] at h; exact .inl h
    | .inline t isub => by
      intro h
      simp only [keysSelV] at h
      rw [deepKey]
      split at h
      · exact keysSelsV_deep s rt k isub h
      · simp at h
    | .spread g => by intro h; simp [keysSelV] at h
  theorem keysSelsV_deep (s : Schema) (rt : Nat) (k : String) : ∀ (sels : List Sel), k ∈ keysSelsV s rt sels →
      k = "__typename" ∨ k ∈ deepKeys s sels
    | [] => by intro h; simp [keysSelsV] at h
    | x :: xs => by
      intro h
      rw [keysSelsV, List.mem_append] at h
      rw [deepKeys, List.mem_append]
      rcases h with h | h
      · rcases keysSelV_deep s rt k x h with h' | h'
        · exact .inl h'
        · exact .inr (.inl h')
      · rcases keysSelsV_deep s rt k xs h with h' | h'
        · exact .inl h'
        · exact .inr (.inr h')
end

section ContentAbs
variable (s : Schema) (q : Query) (o : Options) (skip : Bool)

/-- the entries written by the own type(s) of a fragment on an abstract type are entries of the object they read -/
theorem from_absV (ty : TypeId) (sub : List Sel) (hty : absHyp s ty) (ht : vSels s o true sub = true)
    (hok : absOk s o ty sub = true) (rt : Nat) (kvs : List (String × Json)) (hmem : TypeId.object rt ∈ vtsOfTy s ty)
    (hconf : confSelsV s rt sub kvs = true) (htag : Json.lookup "__typename" kvs = some (.str (rtName s rt))) :
    From skip kvs (absEntries (canonAbsV s skip sub (.obj kvs))) := by
  obtain ⟨htn, hrk, hobj, _, hvn, hin, hind, hexcl⟩ := absOk_parts hok
  have htagName : tagName kvs = rtName s rt := by simp [tagName, htag]
  have hnames : ((vtsOfTy s ty).map (objName s)).Nodup := by
    unfold variantNames at hvn
    exact (List.nodup_append.mp hvn).1
  simp only [canonAbsV, absEntries, htagName]
  apply From.append (scEntriesV s o skip sub true kvs ht (confAtV_of_conf hconf))
  refine From.cons htag (by simp only [normJson]; exact .refl _) ?_
  intro k w hm
  obtain ⟨t, isub, hmi, hn, hkv⟩ := mem_canonInlV hm
  have htv : t ∈ vtsOfTy s ty := hin t (List.mem_filterMap.mpr ⟨_, hmi, rfl⟩)
  have heq : t = .object rt := by
    have := objName_eq_iff s _ hnames htv hmem
    rw [show rtName s rt = objName s (.object rt) from rfl] at hn
    simpa [hn] using this
  subst heq
  have hconf_i : confSelsV s rt isub kvs = true := by
    have := confSelsV_mem hconf _ hmi
    simpa [confSelV, fragApplies] using this
  exact fromEntriesV isub (scInlsV s o skip sub ht _ isub hmi kvs (confAtV_of_conf hconf_i)) k w hkv

/-- … and every selected key of that object is written -/
theorem cov_absV (ty : TypeId) (sub : List Sel) (hty : absHyp s ty) (ht : vSels s o true sub = true)
    (hok : absOk s o ty sub = true) (rt : Nat) (kvs : List (String × Json))
    (htag : Json.lookup "__typename" kvs = some (.str (rtName s rt))) (k : String) (hk : k ∈ keysSelsV s rt sub)
    (v : Json) (hl : Json.lookup k kvs = some v) :
    k = "__typename" ∨ (skip = true ∧ v = .null) ∨
      k ∈ (absEntries (canonAbsV s skip sub (.obj kvs))).map (·.1) := by
  obtain ⟨htn, hrk, hobj, _, hvn, hin, hind, hexcl⟩ := absOk_parts hok
  have htagName : tagName kvs = rtName s rt := by simp [tagName, htag]
  simp only [canonAbsV, absEntries, htagName]
  rcases mem_keysSelsV hk with h | h | ⟨t, isub, hmi, happi, hki⟩
  · exact .inl h
  · rcases covEntriesV (skip := skip) sub k h v hl with h' | h'
    · exact .inr (.inl h')
    · exact .inr (.inr (by simp only [List.map_append, List.mem_append]; exact .inl h'))
  · have htv : t ∈ vtsOfTy s ty := hin t (List.mem_filterMap.mpr ⟨_, hmi, rfl⟩)
    obtain ⟨i, rfl, _⟩ := hobj t htv
    have := fragApplies_obj happi
    subst this
    have hvi := vSels_mem ht _ hmi
    simp only [vSel, Bool.and_eq_true] at hvi
    rcases mem_keysSelsV_obj (no_inline_of_vSels hvi.1.2) hki with h | h
    · exact .inl h
    · rcases covEntriesV (skip := skip) isub k h v hl with h' | h'
      · exact .inr (.inl h')
      · refine .inr (.inr ?_)
        obtain ⟨kv, hkv, hkk⟩ := List.mem_map.mp h'
        have := canonInlV_sub (s := s) (skip := skip) (kvs := kvs) hmi (rfl : objName s (.object i) = rtName s i) kv hkv
        simp only [List.map_append, List.map_cons, List.mem_append, List.mem_cons]
        exact .inr (.inr (List.mem_map.mpr ⟨kv, this, hkk⟩))

/-- what the flattened members see (`absRest`) of a response object with pairwise distinct keys -/
theorem absRest_facts (ty : TypeId) (sub : List Sel) (rt : Nat) (kvs : List (String × Json))
    (hnd : (kvs.map (·.1)).Nodup) (htnf : "__typename" ∉ fieldKeys s sub) :
    (∀ L, From skip (absRest s q ty sub kvs) L → From skip kvs L) ∧
    (∀ k v, Json.lookup k kvs = some v → k ∉ fieldKeys s sub → Json.lookup k (absRest s q ty sub kvs) = some v) ∧
    (∀ sels, (∀ k ∈ deepKeys s sels, k ∉ fieldKeys s sub) →
      confSelsV s rt sels (absRest s q ty sub kvs) = confSelsV s rt sels kvs) := by
  unfold absRest
  split
  · refine ⟨fun L h => From.of_filter hnd h, ?_, ?_⟩
    · intro k v hl hk
      exact lookup_filter_of hl (fun v' => by simpa using hk)
    · intro sels hk
      exact confSelsV_filter s rt _ kvs (fun v => by simpa using htnf) sels (fun k hk' v => by simpa using hk k hk')
  · exact ⟨fun L h => h, fun k v hl _ => hl, fun sels _ => rfl⟩

theorem no_inline_expand_obj {sels : List Sel} (h : sSels s q o false sels = true) :
    ∀ t isub, Sel.inline t isub ∉ expandSels q sels := by
  intro t isub hm
  obtain ⟨x, hx, he⟩ := mem_expandSels q hm
  have hxs := sSels_mem h x hx
  cases x with
  | field a fid sub => rw [expandSel] at he; cases he
  | inline t' sub => simp [sSel] at hxs
  | spread g => simp [sSel] at hxs
  | typename => rw [expandSel] at he; cases he

theorem onNamed_obj (rt : Nat) : onNamed s (.object rt) (rtName s rt) = true := by
  simp [onNamed, objName]

/-- **the canonical form at an abstract position of the class has the content of the response object**, given that of its
    parts -/
theorem sc_absS (ty : TypeId) (sub : List Sel)
    (IHe : ∀ kvs, ConfAtS s q sub kvs → FieldsSCD s q skip sub kvs)
    (IHi : ∀ t isub, Sel.inline t isub ∈ sub → ∀ kvs, ConfAtS s q isub kvs → FieldsSCD s q skip isub kvs)
    (hty : absHyp s ty) (ht : sSels s q o true sub = true) (hok : absOkS s q o ty sub = true) (j : Json)
    (hc : conformsAt s ty (expandSels q sub) j = true) :
    SameContent skip j (normJson (canonAbsD s q skip ty sub j)) := by
  obtain ⟨hok1, hsp, _⟩ := absOkS_parts hok
  obtain ⟨htn, hrk, hobj, _, hvn, hin, _, hexcl⟩ := absOk2_parts hok1
  simp only [conformsAt, List.any_eq_true, List.mem_range, Bool.and_eq_true] at hc
  obtain ⟨rt, hrt, happ, hc⟩ := hc
  cases j with
  | obj kvs =>
    simp only [conformsV, Bool.and_eq_true, List.all_eq_true] at hc
    obtain ⟨⟨hnd, hkeys⟩, hconf⟩ := hc
    have hnd' := nodup_iff'.mp hnd
    have hmem : TypeId.object rt ∈ vtsOfTy s ty := mem_vtsOfTy happ hrt hty
    have htag : Json.lookup "__typename" kvs = some (.str (rtName s rt)) := by
      have := confSelsV_mem hconf _ (expandSels_typename q htn)
      simp only [confSelV] at this
      split at this
      · rename_i n hl; rw [hl]; simp only [beq_iff_eq] at this; rw [this]
      · cases this
    have htagName : tagName kvs = rtName s rt := by simp [tagName, htag]
    have hnames : ((vtsOfTy s ty).map (objName s)).Nodup := by
      unfold variantNames at hvn
      exact (List.nodup_append.mp hvn).1
    have htnf := typename_not_fieldKey s sub htn hrk
    obtain ⟨R1, R2, R3⟩ := absRest_facts s q skip ty sub rt kvs hnd' htnf
    have htagR : Json.lookup "__typename" (absRest s q ty sub kvs) = some (.str (rtName s rt)) := R2 _ _ htag htnf
    -- a spread of a fragment on the abstract type itself
    have hB : ∀ g f, Sel.spread g ∈ sub → q.fragments[g]? = some f → f.on = ty →
        vSels s o true f.sels = true ∧ absOk s o ty f.sels = true ∧ (∀ k ∈ deepKeys s f.sels, k ∉ fieldKeys s sub) ∧
        confSelsV s rt f.sels (absRest s q ty sub kvs) = true := by
      intro g f hm hf hon
      rcases hsp g hm with ⟨vt, f', hvt, _, hf', hon', _⟩ | ⟨f', hokB, hf', _, hk⟩
      · rw [hf] at hf'; cases hf'
        obtain ⟨i, rfl, _⟩ := hobj vt hvt
        exact absurd (hon'.symm.trans hon) (obj_ne_abs hty i)
      · rw [hf] at hf'; cases hf'
        obtain ⟨f', hf', _, _, hv, hokf⟩ := fragOkB_parts hokB
        rw [hf] at hf'; cases hf'
        refine ⟨hv, hokf, hk, ?_⟩
        rw [R3 f.sels hk]
        have := confSelsV_mem hconf _ (expandSels_mem q hm)
        simpa [expandSel, hf, confSelV, hon, happ] using this
    -- a spread of a fragment on the possible type `rt`
    have hA : ∀ g f, Sel.spread g ∈ sub → q.fragments[g]? = some f → f.on = .object rt →
        vSels s o false f.sels = true ∧ confSelsV s rt f.sels kvs = true := by
      intro g f hm hf hon
      rcases hsp g hm with ⟨vt, f', hvt, hokA, hf', hon', _⟩ | ⟨f', _, hf', hon', _⟩
      · rw [hf] at hf'; cases hf'
        obtain ⟨f', hf', _, _, hv, _⟩ := fragOk_parts hokA
        rw [hf] at hf'; cases hf'
        refine ⟨hv, ?_⟩
        have := confSelsV_mem hconf _ (expandSels_mem q hm)
        simpa [expandSel, hf, confSelV, hon, fragApplies] using this
      · rw [hf] at hf'; cases hf'
        exact absurd (hon.symm.trans hon') (obj_ne_abs hty rt)
    -- an inline fragment on `rt`
    have hI : ∀ isub, Sel.inline (.object rt) isub ∈ sub → confSelsV s rt (expandSels q isub) kvs = true := by
      intro isub hm
      have := confSelsV_mem hconf _ (expandSels_mem q hm)
      simpa [expandSel, confSelV, fragApplies] using this
    simp only [canonAbsD, htagName]
    apply sc_obj
    · -- every written entry is an entry of the response
      apply From.append
      · refine fromEntriesBD sub (IHe kvs (confAtS_of_conf hconf)) ?_
        intro g f hm hf hon
        obtain ⟨hv, hokf, _, hcR⟩ := hB g f hm hf hon
        exact R1 _ (from_absV s o skip ty f.sels hty hv hokf rt _ hmem hcR htagR)
      · refine From.cons htag (by simp only [normJson]; exact .refl _) ?_
        intro k w hm
        rcases mem_canonVarD hm with ⟨t, isub, hmi, hn, hkv⟩ | ⟨g, f, hmg, hf, hn, hkv⟩
        · have htv : t ∈ vtsOfTy s ty := hin t (List.mem_filterMap.mpr ⟨_, hmi, rfl⟩)
          have heq : t = .object rt := by
            have := objName_eq_iff s _ hnames htv hmem
            rw [show rtName s rt = objName s (.object rt) from rfl] at hn
            simpa [hn] using this
          subst heq
          exact fromEntriesD isub (IHi _ isub hmi kvs (confAtS_of_conf (hI isub hmi))) k w hkv
        · have hon : f.on = .object rt := by
            rcases hsp g hmg with ⟨vt, f', hvt, _, hf', hon', _⟩ | ⟨f', _, hf', hon', _⟩
            · rw [hf] at hf'; cases hf'
              obtain ⟨i, rfl, _⟩ := hobj vt hvt
              rw [hon'] at hn ⊢
              simp only [onNamed, beq_iff_eq] at hn
              have := objName_eq_iff s _ hnames hvt hmem
              rw [show rtName s rt = objName s (.object rt) from rfl] at hn
              simpa [hn] using this
            · rw [hf] at hf'; cases hf'
              rw [hon'] at hn
              cases ty <;> simp_all [onNamed, absHyp]
          obtain ⟨hv, hcA⟩ := hA g f hmg hf hon
          exact scEntriesV s o skip f.sels false kvs hv (confAtV_of_conf hcA) k w hkv
    · -- every entry of the response is written
      intro k v hl
      have hk : k ∈ keysSelsV s rt (expandSels q sub) := by simpa using hkeys (k, v) (jlookup_mem hl)
      rcases mem_keysSelsV hk with h | h | ⟨t', isub', hmi, happi, hki⟩
      · exact .inl h
      · rw [fieldKeys_expandSels] at h
        rcases covEntriesBD (q := q) (skip := skip) (ty := ty) (rest := absRest s q ty sub kvs) sub k h v hl with h' | h'
        · exact .inr (.inl h')
        · exact .inr (.inr (by simp only [List.map_append, List.mem_append]; exact .inl h'))
      · obtain ⟨x, hx, he⟩ := mem_expandSels q hmi
        cases x with
        | field a fid sub' => rw [expandSel] at he; cases he
        | typename => rw [expandSel] at he; cases he
        | inline t isub =>
          rw [expandSel] at he
          cases he
          have htv : t' ∈ vtsOfTy s ty := hin t' (List.mem_filterMap.mpr ⟨_, hx, rfl⟩)
          obtain ⟨i, rfl, _⟩ := hobj t' htv
          have := fragApplies_obj happi
          subst this
          have hxs := sSels_mem ht _ hx
          simp only [sSel, Bool.and_eq_true] at hxs
          rcases mem_keysSelsV_obj (no_inline_expand_obj s q o hxs.1.2) hki with h | h
          · exact .inl h
          · rw [fieldKeys_expandSels] at h
            rcases covEntriesD (q := q) (skip := skip) isub k h v hl with h' | h'
            · exact .inr (.inl h')
            · refine .inr (.inr ?_)
              obtain ⟨kv, hkv, hkk⟩ := List.mem_map.mp h'
              have := canonVarD_subI (s := s) (q := q) (skip := skip) (kvs := kvs) hx
                (rfl : objName s (.object i) = rtName s i) kv hkv
              simp only [List.map_append, List.map_cons, List.mem_append, List.mem_cons]
              exact .inr (.inr (List.mem_map.mpr ⟨kv, this, hkk⟩))
        | spread g =>
          rw [expandSel] at he
          cases hf : q.fragments[g]? with
          | none => simp [hf] at he
          | some f =>
            simp only [hf, Sel.inline.injEq] at he
            obtain ⟨rfl, rfl⟩ := he
            by_cases hon : f.on = ty
            · -- a fragment on the abstract type itself
              obtain ⟨hv, hokf, hkB, _⟩ := hB g f hx hf hon
              rcases keysSelsV_deep s rt k f.sels hki with h | h
              · exact .inl h
              · have hlR := R2 k v hl (hkB k h)
                rcases cov_absV s o skip ty f.sels hty hv hokf rt _ htagR k hki v hlR with h' | h' | h'
                · exact .inl h'
                · exact .inr (.inl h')
                · refine .inr (.inr ?_)
                  obtain ⟨kv, hkv, hkk⟩ := List.mem_map.mp h'
                  have := subEntriesBD (s := s) (q := q) (skip := skip) (ty := ty) (rest := absRest s q ty sub kvs)
                    (kvs := kvs) hx hf hon kv hkv
                  simp only [List.map_append, List.mem_append]
                  exact .inl (List.mem_map.mpr ⟨kv, this, hkk⟩)
            · -- a fragment on a possible type
              have hon' : f.on = .object rt := by
                rcases hsp g hx with ⟨vt, f', hvt, _, hf', hon', _⟩ | ⟨f', _, hf', hon', _⟩
                · rw [hf] at hf'; cases hf'
                  obtain ⟨i, rfl, _⟩ := hobj vt hvt
                  rw [hon'] at happi ⊢
                  rw [fragApplies_obj happi]
                · rw [hf] at hf'; cases hf'
                  exact absurd hon' hon
              obtain ⟨hv, _⟩ := hA g f hx hf hon'
              rcases mem_keysSelsV_obj (no_inline_of_vSels hv) hki with h | h
              · exact .inl h
              · rcases covEntriesV (skip := skip) f.sels k h v hl with h' | h'
                · exact .inr (.inl h')
                · refine .inr (.inr ?_)
                  obtain ⟨kv, hkv, hkk⟩ := List.mem_map.mp h'
                  have := canonVarD_subA (s := s) (q := q) (skip := skip) (kvs := kvs) (n := rtName s rt) hx hf
                    (by rw [hon']; exact onNamed_obj s rt) kv hkv
                  simp only [List.map_append, List.map_cons, List.mem_append, List.mem_cons]
                  exact .inr (.inr (List.mem_map.mpr ⟨kv, this, hkk⟩))
  | null => simp [conformsV] at hc
  | bool _ => simp [conformsV] at hc
  | int _ => simp [conformsV] at hc
  | num _ => simp [conformsV] at hc
  | str _ => simp [conformsV] at hc
  | arr _ => simp [conformsV] at hc

end ContentAbs

/-! ## the selection sets of the class -/

section ContentS
variable (s : Schema) (q : Query) (o : Options) (skip : Bool)

theorem sc_objS_rt (sub : List Sel) (ht : sSels s q o false sub = true)
    (IHe : ∀ kvs, ConfAtS s q sub kvs → FieldsSCD s q skip sub kvs) (rt : Nat) (j : Json)
    (hcv : conformsV s rt (expandSels q sub) j = true) : SameContent skip j (normJson (canonSelD s q skip sub j)) := by
  cases j with
  | obj kvs =>
    simp only [conformsV, Bool.and_eq_true, List.all_eq_true] at hcv
    rw [canonSelD]
    apply sc_obj (fromEntriesD sub (IHe kvs (confAtS_of_conf hcv.2)))
    intro k v hl
    have hk : k ∈ keysSelsV s rt (expandSels q sub) := by simpa using hcv.1.2 (k, v) (jlookup_mem hl)
    rcases mem_keysSelsV_obj (no_inline_expand_obj s q o ht) hk with h | h
    · exact .inl h
    · rw [fieldKeys_expandSels] at h
      rcases covEntriesD (q := q) (skip := skip) sub k h v hl with h' | h'
      · exact .inr (.inl h')
      · exact .inr (.inr h')
  | null => simp [conformsV] at hcv
  | bool _ => simp [conformsV] at hcv
  | int _ => simp [conformsV] at hcv
  | num _ => simp [conformsV] at hcv
  | str _ => simp [conformsV] at hcv
  | arr _ => simp [conformsV] at hcv

theorem sc_objS (sub : List Sel) (ht : sSels s q o false sub = true)
    (IHe : ∀ kvs, ConfAtS s q sub kvs → FieldsSCD s q skip sub kvs) (ty : TypeId) (j : Json)
    (hj : conformsAt s ty (expandSels q sub) j = true) : SameContent skip j (normJson (canonSelD s q skip sub j)) := by
  simp only [conformsAt, List.any_eq_true, List.mem_range, Bool.and_eq_true] at hj
  obtain ⟨rt, _, _, hcv⟩ := hj
  exact sc_objS_rt s q o skip sub ht IHe rt j hcv

/-- a response object of a lone spread of a fragment on the abstract type itself is one of the fragment's body -/
theorem conformsAt_lone' (ty : TypeId) (g : Nat) (fr : RFragment) (hfr : q.fragments[g]? = some fr) (hon : fr.on = ty)
    (j : Json) (hc : conformsAt s ty (expandSels q [Sel.spread g]) j = true) : conformsAt s ty fr.sels j = true := by
  simp only [conformsAt, List.any_eq_true, List.mem_range, Bool.and_eq_true] at hc ⊢
  obtain ⟨rt, hrt, happ, hc⟩ := hc
  refine ⟨rt, hrt, happ, ?_⟩
  cases j with
  | obj kvs =>
    simpa only [expandSels, expandSel, hfr, conformsV, keysSelsV, keysSelV, hon, happ, ↓reduceIte, List.append_nil,
      confSelsV, confSelV, Bool.not_true, Bool.false_or, Bool.and_true] using hc
  | null => simp [conformsV] at hc
  | bool _ => simp [conformsV] at hc
  | int _ => simp [conformsV] at hc
  | num _ => simp [conformsV] at hc
  | str _ => simp [conformsV] at hc
  | arr _ => simp [conformsV] at hc

mutual
  theorem scFieldD : ∀ (x : Sel) (abs : Bool) (v : Json), sSel s q o abs x = true →
      strictFieldV s (expandSel q x) v = true → SameContent skip v (normJson (canonFieldD s q skip x v))
    | .field a fid sub, abs, v => by
      intro ht hst
      have IHe := scFieldsD sub
      have IHi := scInlsD sub
      rw [sSel] at ht
      simp only [expandSel, strictFieldV] at hst
      rw [canonFieldD]
      cases hsf : s.fields[fid]? with
      | none => simp [hsf] at ht
      | some sf =>
        simp only [hsf, Bool.and_eq_true] at ht hst ⊢
        obtain ⟨_, hty⟩ := ht
        cases hid : sf.ty.id with
        | scalar k =>
          simp only [hid] at hst ⊢
          cases hk : s.scalars[k]? with
          | none => simp [hk] at hst
          | some sn =>
            simp only [hk] at hst ⊢
            by_cases hID : sn = "ID"
            · subst hID
              simp only [↓reduceIte]
              exact (sc_canon idOk idCanon sc_id _).2 v (by simpa [scalarOk] using hst)
            · simp only [hID, ↓reduceIte]
              have := (sc_canon (skip := skip) (scalarOk sn) id (fun j h => sc_fixed j (norm_scalar sn j h)) _).2 v hst
              rwa [(canon_id _).2 v] at this
        | «enum» k =>
          simp only [hid] at hst ⊢
          cases hk : s.enums[k]? with
          | none => simp [hk] at hst
          | some en =>
            simp only [hk] at hst
            have := (sc_canon (skip := skip) stringOk id (fun j h => sc_fixed j (norm_string j h)) _).2 v hst
            rwa [(canon_id _).2 v] at this
        | object i =>
          simp only [hid, Bool.and_eq_true] at hty hst ⊢
          rw [canonLambdaD]
          exact (sc_canon (conformsAt s (.object i) (expandSels q sub)) (canonSelD s q skip sub)
            (sc_objS s q o skip sub hty.1.2 (fun kvs h => IHe false kvs hty.1.2 h) (.object i)) _).2 v hst
        | interface k =>
          simp only [hid, Bool.and_eq_true] at hty hst ⊢
          rcases absOkL_cases hty.2 with ⟨hok, hlg⟩ | ⟨g, rfl, hokB⟩
          · simp only [hlg]
            rw [canonLambdaAbsD]
            exact (sc_canon (conformsAt s (.interface k) (expandSels q sub)) (canonAbsD s q skip (.interface k) sub)
              (sc_absS s q o skip (.interface k) sub (fun kvs h => IHe true kvs hty.1.2 h)
                (fun t isub hm kvs h => IHi hty.1.2 t isub hm kvs h) hty.1.1 hty.1.2 hok) _).2 v hst
          · simp only [loneG_lone]
            obtain ⟨fr, hfr, hon, _, hv, hokf⟩ := fragOkB_parts hokB
            simp only [hfr]
            exact (sc_canon (conformsAt s (.interface k) (expandSels q [Sel.spread g])) (canonAbsV s skip fr.sels)
              (fun j hj => sc_canonAbsV s o skip (.interface k) fr.sels hty.1.1 hv hokf j
                (conformsAt_lone' s q (.interface k) g fr hfr hon j hj)) _).2 v hst
        | union k =>
          simp only [hid, Bool.and_eq_true] at hty hst ⊢
          rcases absOkL_cases hty.2 with ⟨hok, hlg⟩ | ⟨g, rfl, hokB⟩
          · simp only [hlg]
            rw [canonLambdaAbsD]
            exact (sc_canon (conformsAt s (.union k) (expandSels q sub)) (canonAbsD s q skip (.union k) sub)
              (sc_absS s q o skip (.union k) sub (fun kvs h => IHe true kvs hty.1.2 h)
                (fun t isub hm kvs h => IHi hty.1.2 t isub hm kvs h) hty.1.1 hty.1.2 hok) _).2 v hst
          · simp only [loneG_lone]
            obtain ⟨fr, hfr, hon, _, hv, hokf⟩ := fragOkB_parts hokB
            simp only [hfr]
            exact (sc_canon (conformsAt s (.union k) (expandSels q [Sel.spread g])) (canonAbsV s skip fr.sels)
              (fun j hj => sc_canonAbsV s o skip (.union k) fr.sels hty.1.1 hv hokf j
                (conformsAt_lone' s q (.union k) g fr hfr hon j hj)) _).2 v hst
        | input k => simp [hid] at hty
    | .spread g, _, _ => by
      intro _ h
      rw [expandSel] at h
      cases hf : q.fragments[g]? with
      | none => simp [hf, strictFieldV] at h
      | some f => simp [hf, strictFieldV] at h
    | .inline _ _, _, _ => by intro _ h; simp [expandSel, strictFieldV] at h
    | .typename, _, _ => by intro _ h; simp [expandSel, strictFieldV] at h
  theorem scFieldsD : ∀ (sels : List Sel) (abs : Bool) (kvs : List (String × Json)),
      sSels s q o abs sels = true → ConfAtS s q sels kvs → FieldsSCD s q skip sels kvs
    | [], _, _, _, _ => by intro a fid sub hm; simp at hm
    | x :: xs, abs, kvs, ht, hc => by
      obtain ⟨hx, hxs⟩ := sSels_cons ht
      have ih := scFieldsD xs abs kvs hxs (fun a fid sub hm => hc a fid sub (List.mem_cons_of_mem _ hm))
      intro a fid sub hm sf hsf
      rcases List.mem_cons.mp hm with heq | hm'
      · cases x with
        | field a' fid' sub' =>
          cases heq
          obtain ⟨v, hl, hst⟩ := hc a fid sub (by simp) sf hsf
          exact ⟨v, hl, scFieldD (.field a fid sub) abs v hx hst⟩
        | inline t sub' => cases heq
        | spread g => cases heq
        | typename => cases heq
      · exact ih a fid sub hm' sf hsf
  theorem scInlsD : ∀ (sels : List Sel), sSels s q o true sels = true → ∀ t isub, Sel.inline t isub ∈ sels →
      ∀ kvs, ConfAtS s q isub kvs → FieldsSCD s q skip isub kvs
    | [], _, _, _, h => by simp at h
    | x :: xs, ht, t, isub, hm => by
      obtain ⟨hx, hxs⟩ := sSels_cons ht
      rcases List.mem_cons.mp hm with heq | hm'
      · cases x with
        | inline t' isub' =>
          cases heq
          simp only [sSel, Bool.and_eq_true] at hx
          exact fun kvs h => scFieldsD isub false kvs hx.1.2 h
        | field a fid sub => cases heq
        | spread g => cases heq
        | typename => cases heq
      · exact scInlsD xs hxs t isub hm'
end

end ContentS

/-! ## the theorems -/

/-- **`variantspread_content`.**  For an operation of the class `VariantSpreadOp` and a response `j` that conforms to it, the
    closed form `normJson (canonSelD … j)` of `variantspread_lossless` / `variantspread_roundtrip` has the content of `j`
    (`SameContent`: up to key order, integer `ID` → string, `__typename` dropped, `null` dropped under skip-none). -/
theorem variantspread_content (c : Ctx) (op : ROperation) (ht : VariantSpreadOp c op = true) (j : Json)
    (hc : conformsOpS c op j = true) :
    SameContent c.o.skipNone j (normJson (canonSelD c.s c.q c.o.skipNone op.sels j)) := by
  obtain ⟨_, _, hsels, _⟩ := variantSpreadOp_parts ht
  exact sc_objS_rt c.s c.q c.o c.o.skipNone op.sels hsels
    (fun kvs h => scFieldsD c.s c.q c.o c.o.skipNone op.sels false kvs hsels h) op.objectId j hc

/-- **`variantspread_roundtrip_content`.**  The round trip of a conforming response through the emitted `ResponseData`
    returns a response with the same content: no selected data is lost, nothing is invented. -/
theorem variantspread_roundtrip_content (c : Ctx) (opIdx : Nat) (op : ROperation) (items : List Item)
    (hop : c.q.operations[opIdx]? = some op) (ht : VariantSpreadOp c op = true)
    (hgen : responseForQuery c opIdx = .ok items) (hok : moduleOk c items = true)
    (hr : spreadRustOkD c op = true) (j : Json) (hc : conformsOpS c op j = true) :
    ∃ j', Serde.roundtrip (moduleEnv c items) (.path "ResponseData") j = .ok j' ∧ SameContent c.o.skipNone j j' :=
  ⟨_, variantspread_roundtrip c opIdx op items hop ht hgen hok hr j hc, variantspread_content c op ht j hc⟩

/-! ## the relation is not vacuous -/

theorem jlookup_of_mem_nodup : ∀ {kvs : List (String × Json)} {k : String} {v : Json}, (kvs.map (·.1)).Nodup →
    (k, v) ∈ kvs → Json.lookup k kvs = some v
  | [], _, _, _, h => by simp at h
  | (k', v') :: rest, k, v, hnd, hm => by
    simp only [List.map_cons, List.nodup_cons] at hnd
    rw [Json.lookup]
    rcases List.mem_cons.mp hm with heq | hm'
    · simp only [Prod.mk.injEq] at heq
      simp [heq.1, heq.2]
    · have hne : k' ≠ k := by
        intro h; subst h
        exact hnd.1 (List.mem_map.mpr ⟨(k', v), hm', rfl⟩)
      have : (k' == k) = false := by simpa using hne
      simp only [this, Bool.false_eq_true, ↓reduceIte]
      exact jlookup_of_mem_nodup hnd.2 hm'

/-- **nothing is lost**: every entry of `j` but `__typename` and (under skip-none) the `null`s has its key in `j'` -/
theorem SameContent.no_loss {skip : Bool} {kvs kvs' : List (String × Json)}
    (h : SameContent skip (.obj kvs) (.obj kvs')) :
    ∀ k v, Json.lookup k kvs = some v → k = "__typename" ∨ (skip = true ∧ v = .null) ∨ k ∈ kvs'.map (·.1) := by
  cases h with
  | refl => exact fun k v hl => .inr (.inr (List.mem_map.mpr ⟨(k, v), jlookup_mem hl, rfl⟩))
  | obj _ _ hnd hfrom hsame hcov => exact hcov

/-- **nothing is invented**: every entry of `j'` is an entry of `j` with the same content -/
theorem SameContent.entry {skip : Bool} {kvs kvs' : List (String × Json)} (hndk : (kvs.map (·.1)).Nodup)
    (h : SameContent skip (.obj kvs) (.obj kvs')) :
    ∀ k v', (k, v') ∈ kvs' → ∃ v, Json.lookup k kvs = some v ∧ SameContent skip v v' := by
  cases h with
  | refl => exact fun k v' hm => ⟨v', jlookup_of_mem_nodup hndk hm, .refl _⟩
  | obj _ _ hnd hfrom hsame hcov =>
    intro k v' hm
    have := hfrom k v' hm
    cases hl : Json.lookup k kvs with
    | none => simp [hl] at this
    | some v => exact ⟨v, rfl, hsame k v v' hm hl⟩

/-- the data loss of `variantspread_b_merge_loses_fields` (outside the class) is **not** `SameContent`: the relation does
    tell a lost field -/
theorem merge_loss_not_sameContent :
    ¬ SameContent false mgJson
      (.obj [("hero", .obj [("__typename", .str "Human"), ("buddy", .obj [("__typename", .str "Droid")])])]) := by
  intro h
  simp only [mgJson] at h
  obtain ⟨v1, hl1, h1⟩ := SameContent.entry (by simp) h "hero"
    (.obj [("__typename", .str "Human"), ("buddy", .obj [("__typename", .str "Droid")])]) (by simp)
  simp only [Json.lookup, beq_self_eq_true, ↓reduceIte, Option.some.injEq] at hl1
  subst hl1
  obtain ⟨v2, hl2, h2⟩ := SameContent.entry (by simp) h1 "buddy" (.obj [("__typename", .str "Droid")]) (by simp)
  simp [Json.lookup] at hl2
  subst hl2
  have := SameContent.no_loss h2 "primaryFunction" (.str "beep") (by simp [Json.lookup])
  simp at this

end E2E
end C01
end GqlVerif
