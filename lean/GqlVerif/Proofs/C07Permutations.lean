import GqlVerif.Proofs.C07ExtensionsCodegen
/-!
# C07 — type-order permutations within a kind

`type A … type B …` vs `type B … type A …` (in one rendering only): every id of the intermediate `Schema` changes —
the positions in the per-kind tables, the `TypeId`s inside field types, union variants, `implements` lists, field
parents, the name table and the roots, and (because fields are allocated owner by owner) the field ids.  So literal
equality of the two `Schema` values FAILS (`exP0`: two objects in the two orders); the schemas are isomorphic:

* `TypePerm` — per kind, the old ids in the new order (old id `i` becomes `idxOf i`); `TypePerm.tid` the induced
  map on `TypeId`; `Schema.mapTypes P` — reorder the six per-kind tables and renumber every type id (field ids kept);
  `Schema.renumber P s := (s.mapTypes P).normFields` — then renumber the field ids in owner order
  (`Schema.normFields` / `Schema.mapFields` of `C07Extensions`);
* `PermOf a a'` — the abstract schema `a'` lists the definitions of every kind in a permuted order;
  `permOf a a' : TypePerm` — the explicit renumbering (positions looked up by name);
* `permOf_perm` — every component of `permOf a a'` is a permutation of the ids of its kind, and
  `mapTypes_fieldOrder_perm` — the field renumbering is a permutation of all field ids: both steps are bijections
  on the ids in range (`idxOf_bijection`);
* `names_perm` — the name table of `a'` is *literally* the name table of `a` with the ids mapped (same key order);
* **`toSchema_perm`** — `a'.toSchema = a.toSchema.renumber (permOf a a')`: a literal equality with the explicitly
  renumbered schema;
* **`frontends_iso_perm`** (`…_sdl`, `…_intro`) — hence, for *any* renderings (`IsSdlOf` / `IsIntroOf`: kinds
  interleaved in any way) of `a` and of `a'`, through either front-end:
  `front-end' (rendering of a') = (front-end (rendering of a)).map (Schema.renumber (permOf a a'))`.

* `codegen_perm_eq_mapTypes` — the field-renumbering half of the isomorphism is invisible in the generated code
  (`codegen_respects_field_renumbering`): `generate a'.toSchema = generate (a.toSchema.mapTypes (permOf a a'))`, so
  what is left of the stretch goal only concerns the pure type-id renumbering `mapTypes`.

NOT proved here (stretch of the task): that `Codegen.generate` on two schemas related by `Schema.renumber P` gives
modules that are equal up to the order of the items and of the variants of tagged enums — the statement is written
out as the `Prop` `CodegenIsoPermStatement` (a definition; nothing is asserted).  A proof needs the facts that scalar / enum
items are emitted in id order (`sortNat`), input items in table order, interface variants in object-id order
(`Schema.implementors`) — while union variants keep the *declaration* order of the union, which `mapTypes` keeps.
The order-insensitive comparison of the generated code for permuted renderings stays with the differential check
(DESIGN §10.4).
-/

namespace GqlVerif
namespace C07

/-- the entries of `l` at the positions `σ`, in the order of `σ` -/
def pick {α} (σ : List Nat) (l : List α) : List α := σ.filterMap (fun i => l[i]?)

theorem pick_nil {α} (l : List α) : pick [] l = [] := rfl
theorem pick_cons {α} (i : Nat) (σ : List Nat) (l : List α) : pick (i :: σ) l = (l[i]?).toList ++ pick σ l := by
  simp only [pick, List.filterMap_cons]
  cases l[i]? <;> rfl
theorem pick_append {α} (σ τ : List Nat) (l : List α) : pick (σ ++ τ) l = pick σ l ++ pick τ l := by
  simp [pick, List.filterMap_append]
theorem pick_map {α β} (σ : List Nat) (l : List α) (f : α → β) : pick σ (l.map f) = (pick σ l).map f := by
  induction σ with
  | nil => rfl
  | cons i σ ih =>
    rw [pick_cons, pick_cons, ih, List.getElem?_map]
    cases l[i]? <;> simp
theorem pick_flatten {α} (segs : List (List Nat)) (l : List α) : pick segs.flatten l = segs.flatMap (pick · l) := by
  induction segs with
  | nil => rfl
  | cons g segs ih => simp [pick_append, ih]
theorem pick_range' {α} (A B C : List α) : pick (List.range' A.length B.length) (A ++ B ++ C) = B :=
  filterMap_getElem?_segment A B C

/-- position of an element with a unique key -/
theorem getElem?_idxOf_key {α} (key : α → String) (l : List α) (hn : (l.map key).Nodup) (x : α) (hx : x ∈ l) :
    l[(l.map key).idxOf (key x)]? = some x := by
  have hmem : key x ∈ l.map key := List.mem_map.2 ⟨x, hx, rfl⟩
  have hlt := List.idxOf_lt_length_iff.2 hmem
  have hlt' : (l.map key).idxOf (key x) < l.length := by simpa using hlt
  rw [List.getElem?_eq_getElem hlt']
  have h1 : (l.map key)[(l.map key).idxOf (key x)] = key x := List.getElem_idxOf hlt
  rw [List.getElem_map] at h1
  exact congrArg some (nodup_map_inj key l hn _ (List.getElem_mem hlt') x hx h1)

/-- `oldIdx l l'` lists, for each entry of `l'`, its position in `l` (by key) -/
def oldIdx {α} (key : α → String) (l l' : List α) : List Nat := l'.map fun x => (l.map key).idxOf (key x)

theorem pick_oldIdx {α β} (key : α → String) (l l' : List α) (hn : (l.map key).Nodup) (hsub : ∀ x ∈ l', x ∈ l)
    (F : α → β) : pick (oldIdx key l l') (l.map F) = l'.map F := by
  induction l' with
  | nil => rfl
  | cons x l' ih =>
    rw [oldIdx, List.map_cons, pick_cons, List.getElem?_map, getElem?_idxOf_key key l hn x (hsub x (by simp))]
    simp only [Option.map_some, Option.toList_some, List.singleton_append, List.map_cons, List.cons.injEq, true_and]
    exact ih fun y hy => hsub y (by simp [hy])

/-- the same with the position as an argument -/
theorem pick_oldIdx_zipIdx {α β} (key : α → String) (l l' : List α) (hn : (l.map key).Nodup) (hsub : ∀ x ∈ l', x ∈ l)
    (G : α × Nat → β) (k : Nat) :
    pick (oldIdx key l l') ((l.zipIdx k).map G) = l'.map fun x => G (x, k + (l.map key).idxOf (key x)) := by
  induction l' with
  | nil => rfl
  | cons x l' ih =>
    rw [oldIdx, List.map_cons, pick_cons, List.getElem?_map, List.getElem?_zipIdx,
      getElem?_idxOf_key key l hn x (hsub x (by simp))]
    simp only [Option.map_some, Option.toList_some, List.singleton_append, List.map_cons, List.cons.injEq, true_and]
    exact ih fun y hy => hsub y (by simp [hy])

/-- new position of an old index -/
theorem idxOf_oldIdx {α} (key : α → String) (l l' : List α) (hn : (l.map key).Nodup) (hsub : ∀ x ∈ l', x ∈ l)
    (x : α) (hx : x ∈ l) :
    (oldIdx key l l').idxOf ((l.map key).idxOf (key x)) = (l'.map key).idxOf (key x) := by
  induction l' with
  | nil => rfl
  | cons y l' ih =>
    simp only [oldIdx, List.map_cons, List.idxOf_cons]
    have hy := hsub y (by simp)
    by_cases hxy : key y = key x
    · simp [hxy]
    · have hne : (l.map key).idxOf (key y) ≠ (l.map key).idxOf (key x) := by
        intro h
        have h1 := getElem?_idxOf_key key l hn y hy
        have h2 := getElem?_idxOf_key key l hn x hx
        rw [h, h2] at h1
        exact hxy (by cases h1; rfl)
      have hb1 : ((l.map key).idxOf (key y) == (l.map key).idxOf (key x)) = false := by simpa using hne
      have hb2 : (key y == key x) = false := by simpa using hxy
      rw [hb1, hb2]
      simp only [cond_false]
      have := ih fun z hz => hsub z (by simp [hz])
      simp only [oldIdx] at this
      rw [this]

end C07
end GqlVerif

namespace GqlVerif

/-- per kind: the old ids in the new order (old id `i` becomes `idxOf i`) -/
structure TypePerm where
  scalars : List Nat
  enums : List Nat
  ifaces : List Nat
  objs : List Nat
  unions : List Nat
  inputs : List Nat
  deriving Repr, DecidableEq

namespace TypePerm
def tid (P : TypePerm) : TypeId → TypeId
  | .object i => .object (P.objs.idxOf i)
  | .scalar i => .scalar (P.scalars.idxOf i)
  | .interface i => .interface (P.ifaces.idxOf i)
  | .union i => .union (P.unions.idxOf i)
  | .enum i => .enum (P.enums.idxOf i)
  | .input i => .input (P.inputs.idxOf i)
def parent (P : TypePerm) : FieldParent → FieldParent
  | .object i => .object (P.objs.idxOf i)
  | .interface i => .interface (P.ifaces.idxOf i)
def ft (P : TypePerm) (t : FieldType) : FieldType := { t with id := P.tid t.id }
def field (P : TypePerm) (f : StoredField) : StoredField := { f with ty := P.ft f.ty, parent := P.parent f.parent }
end TypePerm

/-- renumber the type ids (and reorder the per-kind tables accordingly); field ids are kept -/
def Schema.mapTypes (P : TypePerm) (s : Schema) : Schema :=
  { objects := (C07.pick P.objs s.objects).map fun o => { o with implements := o.implements.map P.ifaces.idxOf }
    fields := s.fields.map P.field
    interfaces := C07.pick P.ifaces s.interfaces
    unions := (C07.pick P.unions s.unions).map fun u => { u with variants := u.variants.map P.tid }
    scalars := C07.pick P.scalars s.scalars
    enums := C07.pick P.enums s.enums
    inputs := (C07.pick P.inputs s.inputs).map fun i => { i with fields := i.fields.map fun p => (p.1, P.ft p.2) }
    names := s.names.map fun p => (p.1, P.tid p.2)
    queryType := s.queryType.map P.objs.idxOf
    mutationType := s.mutationType.map P.objs.idxOf
    subscriptionType := s.subscriptionType.map P.objs.idxOf }

/-- renumber the type ids, then the field ids in owner order -/
def Schema.renumber (P : TypePerm) (s : Schema) : Schema := (s.mapTypes P).normFields

namespace C07

/-- `a'` lists the definitions of every kind in a different order -/
structure PermOf (a a' : AS) : Prop where
  scalars : a'.scalars.Perm a.scalars
  enums : a'.enums.Perm a.enums
  interfaces : a'.interfaces.Perm a.interfaces
  objects : a'.objects.Perm a.objects
  unions : a'.unions.Perm a.unions
  inputs : a'.inputs.Perm a.inputs
  query : a'.query = a.query
  mutation : a'.mutation = a.mutation
  subscription : a'.subscription = a.subscription

/-- the renumbering between the schemas of `a` and `a'` -/
def permOf (a a' : AS) : TypePerm :=
  { scalars := List.range 5 ++ (oldIdx id a.scalars a'.scalars).map (5 + ·)
    enums := oldIdx (·.name) a.enums a'.enums
    ifaces := oldIdx (·.name) a.interfaces a'.interfaces
    objs := oldIdx (·.name) a.objects a'.objects
    unions := oldIdx (·.name) a.unions a'.unions
    inputs := oldIdx (·.name) a.inputs a'.inputs }

theorem namesInsert_map (f : TypeId → TypeId) (k : String) (v : TypeId) (l : List (String × TypeId)) :
    namesInsert k (f v) (l.map fun p => (p.1, f p.2)) = (namesInsert k v l).map fun p => (p.1, f p.2) := by
  induction l with
  | nil => rfl
  | cons p l ih =>
    obtain ⟨k', v'⟩ := p
    simp only [List.map_cons, namesInsert]
    split
    · rfl
    · split
      · rfl
      · simp only [List.map_cons, ih]

theorem insAll_map (f : TypeId → TypeId) (ps l : List (String × TypeId)) :
    insAll (ps.map fun p => (p.1, f p.2)) (l.map fun p => (p.1, f p.2)) = (insAll ps l).map fun p => (p.1, f p.2) := by
  induction ps generalizing l with
  | nil => rfl
  | cons p ps ih =>
    simp only [List.map_cons, insAll_cons]
    rw [namesInsert_map, ih]

theorem pairsFrom_idxOf (mk : Nat → TypeId) (ns : List String) (k : Nat) (hn : ns.Nodup) :
    pairsFrom mk ns k = ns.map fun n => (n, mk (k + ns.idxOf n)) := by
  induction ns generalizing k with
  | nil => rfl
  | cons n ns ih =>
    simp only [List.nodup_cons] at hn
    rw [pairsFrom_cons, ih (k + 1) hn.2]
    simp only [List.map_cons, List.idxOf_cons_self, Nat.add_zero, List.cons.injEq, true_and]
    apply List.map_congr_left
    intro m hm
    have : n ≠ m := fun h => hn.1 (h ▸ hm)
    have hb : (n == m) = false := by simpa using this
    simp only [List.idxOf_cons, hb, cond_false, Prod.mk.injEq, true_and]
    congr 1; omega


theorem pairs_kind_perm (mk : Nat → TypeId) (T : TypeId → TypeId) (σ : Nat → Nat) (htid : ∀ i, T (mk i) = mk (σ i))
    (ns ns' : List String) (k : Nat) (hn : ns.Nodup) (hp : ns'.Perm ns)
    (hσ : ∀ n ∈ ns, σ (k + ns.idxOf n) = k + ns'.idxOf n) :
    ((pairsFrom mk ns k).map fun p => (p.1, T p.2)).Perm (pairsFrom mk ns' k) := by
  rw [pairsFrom_idxOf mk ns k hn, pairsFrom_idxOf mk ns' k (hp.nodup_iff.2 hn), List.map_map]
  have : ns.map ((fun p : String × TypeId => (p.1, T p.2)) ∘ fun n => (n, mk (k + ns.idxOf n))) =
      ns.map fun n => (n, mk (k + ns'.idxOf n)) := by
    apply List.map_congr_left
    intro n hn'
    simp only [Function.comp, htid, hσ n hn']
  rw [this]
  exact hp.symm.map _

theorem idxOf_range_append (n i : Nat) (t : List Nat) (h : i < n) : (List.range n ++ t).idxOf i = i := by
  rw [List.idxOf_append, if_pos (by simpa using h), idxOf_range n i h]

theorem idxOf_map_add (c : Nat) (t : List Nat) (j : Nat) : (t.map (c + ·)).idxOf (c + j) = t.idxOf j := by
  induction t with
  | nil => rfl
  | cons x t ih =>
    simp only [List.map_cons, List.idxOf_cons, ih]
    by_cases hx : x = j
    · simp [hx]
    · have h1 : (c + x == c + j) = false := by simpa using hx
      have h2 : (x == j) = false := by simpa using hx
      rw [h1, h2]

theorem idxOf_scalars (t : List Nat) (j : Nat) :
    (List.range 5 ++ t.map (5 + ·)).idxOf (5 + j) = 5 + t.idxOf j := by
  rw [List.idxOf_append, if_neg (by simp), idxOf_map_add]
  simp; omega

/-- new position of a name of `l` -/
theorem idxOf_oldIdx_name {α} (key : α → String) (l l' : List α) (hn : (l.map key).Nodup) (hp : l'.Perm l)
    (n : String) (hmem : n ∈ l.map key) :
    (oldIdx key l l').idxOf ((l.map key).idxOf n) = (l'.map key).idxOf n := by
  obtain ⟨x, hx, rfl⟩ := List.mem_map.1 hmem
  exact idxOf_oldIdx key l l' hn (fun y hy => hp.mem_iff.1 hy) x hx

theorem known_nodup_parts (a : AS) (hn : a.known.Nodup) :
    a.scalars.Nodup ∧ a.enumNames.Nodup ∧ a.ifaceNames.Nodup ∧ a.objNames.Nodup ∧ a.unionNames.Nodup ∧
      a.inputNames.Nodup := by
  simp only [AS.known, List.nodup_append] at hn
  exact ⟨hn.1.1.1.1.1.2.1, hn.1.1.1.1.2.1, hn.1.1.1.2.1, hn.1.1.2.1, hn.1.2.1, hn.2.1⟩

/-- **the name table of the permuted schema is the name table with the ids renumbered** -/
theorem names_perm (a a' : AS) (hn : a.known.Nodup) (hp : PermOf a a') :
    a'.names = a.names.map fun p => (p.1, (permOf a a').tid p.2) := by
  obtain ⟨hs, he, hi, ho, hu, hin⟩ := known_nodup_parts a hn
  have key := insAll_map (permOf a a').tid a.pairs []
  rw [AS.names, AS.names, List.map_nil] at *
  rw [← key]
  symm
  apply insAll_perm
  · simp only [AS.pairs, List.map_append]
    refine List.Perm.append (List.Perm.append (List.Perm.append (List.Perm.append (List.Perm.append
      (List.Perm.append ?_ ?_) ?_) ?_) ?_) ?_) ?_
    · -- built-in scalars
      apply List.Perm.of_eq
      have : ∀ i, i < 5 → (permOf a a').tid (.scalar i) = .scalar i := by
        intro i hi'
        simp only [TypePerm.tid, permOf, idxOf_range_append 5 i _ hi']
      simp [Schema.defaultScalars, pairsFrom, List.zipIdx_cons, this]
    · exact pairs_kind_perm .scalar _ (permOf a a').scalars.idxOf (fun _ => rfl) a.scalars a'.scalars 5 hs hp.scalars
        (fun n hn' => by
          have := idxOf_oldIdx_name id a.scalars a'.scalars (by simpa using hs) hp.scalars n (by simpa using hn')
          simp only [List.map_id] at this
          simp only [permOf, idxOf_scalars, this])
    · exact pairs_kind_perm .enum _ (permOf a a').enums.idxOf (fun _ => rfl) a.enumNames a'.enumNames 0 he
        (hp.enums.map _) (fun n hn' => by
          have := idxOf_oldIdx_name (fun e : AEnum => e.name) a.enums a'.enums he hp.enums n hn'
          simpa [permOf, AS.enumNames] using this)
    · exact pairs_kind_perm .interface _ (permOf a a').ifaces.idxOf (fun _ => rfl) a.ifaceNames a'.ifaceNames 0 hi
        (hp.interfaces.map _) (fun n hn' => by
          have := idxOf_oldIdx_name (fun e : AIface => e.name) a.interfaces a'.interfaces hi hp.interfaces n hn'
          simpa [permOf, AS.ifaceNames] using this)
    · exact pairs_kind_perm .object _ (permOf a a').objs.idxOf (fun _ => rfl) a.objNames a'.objNames 0 ho
        (hp.objects.map _) (fun n hn' => by
          have := idxOf_oldIdx_name (fun e : AObj => e.name) a.objects a'.objects ho hp.objects n hn'
          simpa [permOf, AS.objNames] using this)
    · exact pairs_kind_perm .union _ (permOf a a').unions.idxOf (fun _ => rfl) a.unionNames a'.unionNames 0 hu
        (hp.unions.map _) (fun n hn' => by
          have := idxOf_oldIdx_name (fun e : AUnion => e.name) a.unions a'.unions hu hp.unions n hn'
          simpa [permOf, AS.unionNames] using this)
    · exact pairs_kind_perm .input _ (permOf a a').inputs.idxOf (fun _ => rfl) a.inputNames a'.inputNames 0 hin
        (hp.inputs.map _) (fun n hn' => by
          have := idxOf_oldIdx_name (fun e : AInput => e.name) a.inputs a'.inputs hin hp.inputs n hn'
          simpa [permOf, AS.inputNames] using this)
  · have : (a.pairs.map fun p => (p.1, (permOf a a').tid p.2)).map Prod.fst = a.pairs.map Prod.fst := by
      simp [List.map_map, Function.comp_def]
    rw [this, AS.pairs_keys]; exact hn



theorem pick_perm {α} (τ : List Nat) (l : List α) (h : τ.Perm (List.range l.length)) : (pick τ l).Perm l := by
  have h1 : (pick τ l).Perm (pick (List.range l.length) l) := h.filterMap _
  have h2 : pick (List.range l.length) l = l := by
    have := pick_range' [] l []
    simpa [List.range_eq_range'] using this
  rw [h2] at h1; exact h1

theorem map_idxOf_self {α} (key : α → String) (l : List α) (hn : (l.map key).Nodup) :
    (l.map fun x => (l.map key).idxOf (key x)) = List.range l.length := by
  apply List.ext_getElem
  · simp
  · intro i h1 h2
    have hi : i < (l.map key).length := by simpa using h1
    have := hn.idxOf_getElem i hi
    simp only [List.getElem_map, List.getElem_range] at this ⊢
    exact this

theorem oldIdx_perm {α} (key : α → String) (l l' : List α) (hn : (l.map key).Nodup) (hp : l'.Perm l) :
    (oldIdx key l l').Perm (List.range l.length) := by
  rw [← map_idxOf_self key l hn]
  exact hp.map _

theorem pick_map_add {α} (σ : List Nat) (A l : List α) : pick (σ.map (A.length + ·)) (A ++ l) = pick σ l := by
  induction σ with
  | nil => rfl
  | cons i σ ih =>
    rw [List.map_cons, pick_cons, pick_cons, ih, List.getElem?_append_right (by omega)]
    simp

theorem zipIdx_map_idxOf {α β} (key : α → String) (l : List α) (k : Nat) (hn : (l.map key).Nodup) (G : α × Nat → β) :
    (l.zipIdx k).map G = l.map fun x => G (x, k + (l.map key).idxOf (key x)) := by
  induction l generalizing k with
  | nil => rfl
  | cons x l ih =>
    simp only [List.map_cons, List.nodup_cons] at hn
    simp only [List.zipIdx_cons, List.map_cons, List.idxOf_cons_self, Nat.add_zero, List.cons.injEq, true_and]
    rw [ih (k + 1) hn.2]
    apply List.map_congr_left
    intro y hy
    have : key x ≠ key y := fun h => hn.1 (List.mem_map.2 ⟨y, hy, h.symm⟩)
    have hb : (key x == key y) = false := by simpa using this
    simp only [List.idxOf_cons, hb, cond_false]
    congr 2; omega


theorem namesGet_map (f : TypeId → TypeId) (n : String) (l : List (String × TypeId)) :
    namesGet n (l.map fun p => (p.1, f p.2)) = (namesGet n l).map f := by
  induction l with
  | nil => rfl
  | cons p l ih =>
    obtain ⟨k, v⟩ := p
    simp only [List.map_cons, namesGet]
    split
    · rfl
    · exact ih

section Look
variable (P : TypePerm) (N : List (String × TypeId))

theorem tyId_map (n : String) (h : ∃ id, namesGet n N = some id) :
    tyId (N.map fun p => (p.1, P.tid p.2)) n = P.tid (tyId N n) := by
  obtain ⟨id, h⟩ := h
  simp [tyId, namesGet_map, h]

theorem ftOf_map (t : GTy) (h : ∃ id, namesGet t.base N = some id) :
    ftOf (N.map fun p => (p.1, P.tid p.2)) t = P.ft (ftOf N t) := by
  simp [ftOf, TypePerm.ft, tyId_map P N _ h]

theorem ifaceId_map (n : String) (h : ∃ i, namesGet n N = some (.interface i)) :
    ifaceId (N.map fun p => (p.1, P.tid p.2)) n = P.ifaces.idxOf (ifaceId N n) := by
  obtain ⟨i, h⟩ := h
  simp only [ifaceId, namesGet_map, h]
  rfl

theorem rootId_map (r : Option String) :
    rootId (N.map fun p => (p.1, P.tid p.2)) r = (rootId N r).map P.objs.idxOf := by
  cases r with
  | none => rfl
  | some n =>
    simp only [rootId, Option.bind, namesGet_map]
    cases namesGet n N with
    | none => rfl
    | some id => cases id <;> rfl

theorem storedField_map (parent : FieldParent) (f : AField) (h : ∃ id, namesGet f.ty.base N = some id) :
    storedField (N.map fun p => (p.1, P.tid p.2)) (P.parent parent) f = P.field (storedField N parent f) := by
  simp [storedField, TypePerm.field, ftOf_map P N _ h]

end Look

/-- contents of consecutive segments of the field table -/
theorem consec_pick_objs (N : List (String × TypeId)) (os : List AObj) (k : Nat) (pre post : List StoredField) :
    (consec pre.length (os.map (·.fields.length))).map (pick · (pre ++ objFields N k os ++ post)) =
      (os.zipIdx k).map fun p => p.1.fields.map (storedField N (.object p.2)) := by
  induction os generalizing k pre with
  | nil => rfl
  | cons o os ih =>
    simp only [List.map_cons, consec, objFields, List.zipIdx_cons, List.cons.injEq]
    constructor
    · have := pick_range' pre (o.fields.map (storedField N (.object k))) (objFields N (k + 1) os ++ post)
      simp only [List.length_map, List.append_assoc] at this ⊢
      exact this
    · have := ih (k + 1) (pre ++ o.fields.map (storedField N (.object k)))
      simp only [List.length_append, List.length_map, List.append_assoc] at this ⊢
      exact this

theorem consec_pick_ifaces (N : List (String × TypeId)) (is : List AIface) (k : Nat) (pre post : List StoredField) :
    (consec pre.length (is.map (·.fields.length))).map (pick · (pre ++ ifaceFields N k is ++ post)) =
      (is.zipIdx k).map fun p => p.1.fields.map (storedField N (.interface p.2)) := by
  induction is generalizing k pre with
  | nil => rfl
  | cons o os ih =>
    simp only [List.map_cons, consec, ifaceFields, List.zipIdx_cons, List.cons.injEq]
    constructor
    · have := pick_range' pre (o.fields.map (storedField N (.interface k))) (ifaceFields N (k + 1) os ++ post)
      simp only [List.length_map, List.append_assoc] at this ⊢
      exact this
    · have := ih (k + 1) (pre ++ o.fields.map (storedField N (.interface k)))
      simp only [List.length_append, List.length_map, List.append_assoc] at this ⊢
      exact this

theorem objFields_zipIdx (N : List (String × TypeId)) (os : List AObj) (k : Nat) :
    objFields N k os = ((os.zipIdx k).map fun p => p.1.fields.map (storedField N (.object p.2))).flatten := by
  induction os generalizing k with
  | nil => rfl
  | cons o os ih => simp [objFields, List.zipIdx_cons, ih]

theorem ifaceFields_zipIdx (N : List (String × TypeId)) (is : List AIface) (k : Nat) :
    ifaceFields N k is = ((is.zipIdx k).map fun p => p.1.fields.map (storedField N (.interface p.2))).flatten := by
  induction is generalizing k with
  | nil => rfl
  | cons o os ih => simp [ifaceFields, List.zipIdx_cons, ih]


@[simp] theorem consec_length (start : Nat) (ns : List Nat) : (consec start ns).length = ns.length := by
  induction ns generalizing start with
  | nil => rfl
  | cons n ns ih => simp [consec, ih]

theorem objStored_implements (N : List (String × TypeId)) (start : Nat) (os : List AObj) :
    (objStored N start os).map (·.implements) = os.map fun o => o.implements.map (ifaceId N) := by
  induction os generalizing start with
  | nil => rfl
  | cons o os ih => simp [objStored, ih]

theorem ifaceStored_names (start : Nat) (is : List AIface) : (ifaceStored start is).map (·.name) = is.map (·.name) := by
  induction is generalizing start with
  | nil => rfl
  | cons o os ih => simp [ifaceStored, ih]

section
variable (a a' : AS) (hw : WfAS a) (hp : PermOf a a')
include hw hp

theorem perm_enums : a'.enums.map storedEnum = pick (permOf a a').enums (a.enums.map storedEnum) := by
  obtain ⟨_, he, _⟩ := known_nodup_parts a hw.1
  exact (pick_oldIdx (fun e : AEnum => e.name) a.enums a'.enums he (fun x hx => hp.enums.mem_iff.1 hx) storedEnum).symm

theorem perm_scalars :
    Schema.defaultScalars ++ a'.scalars = pick (permOf a a').scalars (Schema.defaultScalars ++ a.scalars) := by
  obtain ⟨hs, _⟩ := known_nodup_parts a hw.1
  simp only [permOf, pick_append]
  have h1 : pick (List.range 5) (Schema.defaultScalars ++ a.scalars) = Schema.defaultScalars := by
    have := pick_range' [] Schema.defaultScalars a.scalars
    simpa [List.range_eq_range', Schema.defaultScalars] using this
  have h2 := pick_map_add (oldIdx id a.scalars a'.scalars) Schema.defaultScalars a.scalars
  have h3 := pick_oldIdx id a.scalars a'.scalars (by simpa using hs) (fun x hx => hp.scalars.mem_iff.1 hx) id
  simp only [List.map_id] at h3
  rw [h1, show Schema.defaultScalars.length = 5 from rfl] at *
  rw [h2, h3]

theorem perm_unions :
    a'.unions.map (storedUnion a'.names) =
      (pick (permOf a a').unions (a.unions.map (storedUnion a.names))).map fun u =>
        { u with variants := u.variants.map (permOf a a').tid } := by
  obtain ⟨_, _, _, _, hu, _⟩ := known_nodup_parts a hw.1
  have e : (permOf a a').unions = oldIdx (fun e : AUnion => e.name) a.unions a'.unions := rfl
  rw [e, pick_oldIdx (fun e : AUnion => e.name) a.unions a'.unions hu (fun x hx => hp.unions.mem_iff.1 hx),
    List.map_map, names_perm a a' hw.1 hp]
  apply List.map_congr_left
  intro u hu'
  have hu'' := hp.unions.mem_iff.1 hu'
  simp only [storedUnion, Function.comp, List.map_map, StoredUnion.mk.injEq, true_and]
  apply List.map_congr_left
  intro m hm
  exact tyId_map _ _ m ((lookups a hw.1).known m (hw.2.2.2.2.1 u hu'' m hm))

theorem perm_inputs :
    a'.inputs.map (storedInput a'.names) =
      (pick (permOf a a').inputs (a.inputs.map (storedInput a.names))).map fun i =>
        { i with fields := i.fields.map fun p => (p.1, (permOf a a').ft p.2) } := by
  obtain ⟨_, _, _, _, _, hin⟩ := known_nodup_parts a hw.1
  have e : (permOf a a').inputs = oldIdx (fun e : AInput => e.name) a.inputs a'.inputs := rfl
  rw [e, pick_oldIdx (fun e : AInput => e.name) a.inputs a'.inputs hin (fun x hx => hp.inputs.mem_iff.1 hx),
    List.map_map, names_perm a a' hw.1 hp]
  apply List.map_congr_left
  intro i hi'
  have hi'' := hp.inputs.mem_iff.1 hi'
  simp only [storedInput, Function.comp, List.map_map, StoredInput.mk.injEq, true_and, and_true]
  apply List.map_congr_left
  intro f hf
  simp only [Function.comp, Prod.mk.injEq, true_and]
  exact ftOf_map _ _ f.2 ((lookups a hw.1).known _ (hw.2.2.2.2.2 i hi'' f hf))

end

/-- the field-id segments of the interfaces / objects of `a`, in the order of `a'` -/
def segsI (a a' : AS) : List (List Nat) :=
  pick (permOf a a').ifaces (consec 0 (a.interfaces.map (·.fields.length)))
def segsO (a a' : AS) : List (List Nat) :=
  pick (permOf a a').objs (consec (a.interfaces.map (·.fields.length)).sum (a.objects.map (·.fields.length)))

section
variable (a a' : AS) (hw : WfAS a) (hp : PermOf a a')
include hw hp

theorem segsI_lengths : (segsI a a').map List.length = a'.interfaces.map (·.fields.length) := by
  obtain ⟨_, _, hi, _⟩ := known_nodup_parts a hw.1
  rw [segsI, ← pick_map, consec_map_length]
  exact pick_oldIdx (fun e : AIface => e.name) a.interfaces a'.interfaces hi (fun x hx => hp.interfaces.mem_iff.1 hx) _

theorem segsO_lengths : (segsO a a').map List.length = a'.objects.map (·.fields.length) := by
  obtain ⟨_, _, _, ho, _⟩ := known_nodup_parts a hw.1
  rw [segsO, ← pick_map, consec_map_length]
  exact pick_oldIdx (fun e : AObj => e.name) a.objects a'.objects ho (fun x hx => hp.objects.mem_iff.1 hx) _

theorem segs_perm : ((segsI a a').flatten ++ (segsO a a').flatten).Perm
    (List.range ((a.interfaces.map (·.fields.length)).sum + (a.objects.map (·.fields.length)).sum)) := by
  obtain ⟨_, _, hi, ho, _⟩ := known_nodup_parts a hw.1
  rw [List.range_eq_range', ← List.range'_append_1, ← consec_flatten 0, Nat.zero_add, ← consec_flatten]
  refine List.Perm.append (List.Perm.flatten ?_) (List.Perm.flatten ?_)
  · apply pick_perm
    rw [consec_length, List.length_map]
    exact oldIdx_perm (fun e : AIface => e.name) a.interfaces a'.interfaces hi hp.interfaces
  · apply pick_perm
    rw [consec_length, List.length_map]
    exact oldIdx_perm (fun e : AObj => e.name) a.objects a'.objects ho hp.objects

/-- contents of the interface segments -/
theorem segsI_contents :
    (segsI a a').map (pick · (ifaceFields a.names 0 a.interfaces ++ objFields a.names 0 a.objects)) =
      a'.interfaces.map fun i => i.fields.map (storedField a.names (.interface (a.ifaceNames.idxOf i.name))) := by
  obtain ⟨_, _, hi, _⟩ := known_nodup_parts a hw.1
  rw [segsI, ← pick_map]
  have := consec_pick_ifaces a.names a.interfaces 0 [] (objFields a.names 0 a.objects)
  simp only [List.length_nil, List.nil_append] at this
  rw [this]
  have := pick_oldIdx_zipIdx (fun e : AIface => e.name) a.interfaces a'.interfaces hi
    (fun x hx => hp.interfaces.mem_iff.1 hx)
    (fun p => p.1.fields.map (storedField a.names (.interface p.2))) 0
  simp only [Nat.zero_add] at this
  exact this

theorem segsO_contents :
    (segsO a a').map (pick · (ifaceFields a.names 0 a.interfaces ++ objFields a.names 0 a.objects)) =
      a'.objects.map fun o => o.fields.map (storedField a.names (.object (a.objNames.idxOf o.name))) := by
  obtain ⟨_, _, _, ho, _⟩ := known_nodup_parts a hw.1
  rw [segsO, ← pick_map]
  have := consec_pick_objs a.names a.objects 0 (ifaceFields a.names 0 a.interfaces) []
  simp only [ifaceFields_length, List.append_nil] at this
  rw [this]
  have := pick_oldIdx_zipIdx (fun e : AObj => e.name) a.objects a'.objects ho
    (fun x hx => hp.objects.mem_iff.1 hx)
    (fun p => p.1.fields.map (storedField a.names (.object p.2))) 0
  simp only [Nat.zero_add] at this
  exact this

end

section
variable (a a' : AS) (hw : WfAS a) (hp : PermOf a a')
include hw hp

theorem iface_pos (i : AIface) (hi : i ∈ a'.interfaces) :
    (permOf a a').ifaces.idxOf (a.ifaceNames.idxOf i.name) = a'.ifaceNames.idxOf i.name := by
  obtain ⟨_, _, hn, _⟩ := known_nodup_parts a hw.1
  exact idxOf_oldIdx (fun e : AIface => e.name) a.interfaces a'.interfaces hn
    (fun x hx => hp.interfaces.mem_iff.1 hx) i (hp.interfaces.mem_iff.1 hi)

theorem obj_pos (o : AObj) (ho : o ∈ a'.objects) :
    (permOf a a').objs.idxOf (a.objNames.idxOf o.name) = a'.objNames.idxOf o.name := by
  obtain ⟨_, _, _, hn, _⟩ := known_nodup_parts a hw.1
  exact idxOf_oldIdx (fun e : AObj => e.name) a.objects a'.objects hn
    (fun x hx => hp.objects.mem_iff.1 hx) o (hp.objects.mem_iff.1 ho)

/-- **the field table** -/
theorem perm_fields :
    ifaceFields a'.names 0 a'.interfaces ++ objFields a'.names 0 a'.objects =
      pick ((segsI a a').flatten ++ (segsO a a').flatten)
        ((ifaceFields a.names 0 a.interfaces ++ objFields a.names 0 a.objects).map (permOf a a').field) := by
  obtain ⟨_, _, hi, ho, _⟩ := known_nodup_parts a hw.1
  have hi' : (a'.interfaces.map (fun e : AIface => e.name)).Nodup := (hp.interfaces.map _).nodup_iff.2 hi
  have ho' : (a'.objects.map (fun e : AObj => e.name)).Nodup := (hp.objects.map _).nodup_iff.2 ho
  have L := lookups a hw.1
  rw [pick_map, pick_append, pick_flatten, pick_flatten, List.flatMap_def, List.flatMap_def,
    segsI_contents a a' hw hp, segsO_contents a a' hw hp, List.map_append, List.map_flatten, List.map_flatten,
    List.map_map, List.map_map, ifaceFields_zipIdx, objFields_zipIdx,
    zipIdx_map_idxOf (fun e : AIface => e.name) a'.interfaces 0 hi',
    zipIdx_map_idxOf (fun e : AObj => e.name) a'.objects 0 ho', names_perm a a' hw.1 hp]
  congr 2
  · apply List.map_congr_left
    intro i hi''
    simp only [Function.comp, List.map_map, Nat.zero_add]
    apply List.map_congr_left
    intro f hf
    have hk := L.known _ (hw.2.1 i (hp.interfaces.mem_iff.1 hi'') f hf)
    rw [Function.comp, ← storedField_map _ _ _ _ hk]
    simp only [TypePerm.parent]
    rw [iface_pos a a' hw hp i hi'']; rfl
  · apply List.map_congr_left
    intro o ho''
    simp only [Function.comp, List.map_map, Nat.zero_add]
    apply List.map_congr_left
    intro f hf
    have hk := L.known _ (hw.2.2.1 o (hp.objects.mem_iff.1 ho'') f hf)
    rw [Function.comp, ← storedField_map _ _ _ _ hk]
    simp only [TypePerm.parent]
    rw [obj_pos a a' hw hp o ho'']; rfl

end

theorem sum_map_length {α} (l : List (List α)) : l.flatten.length = (l.map List.length).sum := by
  induction l with
  | nil => rfl
  | cons x l ih => simp [ih]

section
variable (a a' : AS) (hw : WfAS a) (hp : PermOf a a')

/-- objects of the type-renumbered schema -/
def mObjs : List StoredObject :=
  (pick (permOf a a').objs (objStored a.names (ifaceFields a.names 0 a.interfaces).length a.objects)).map fun o =>
    { o with implements := o.implements.map (permOf a a').ifaces.idxOf }
def mIfaces : List StoredInterface := pick (permOf a a').ifaces (ifaceStored 0 a.interfaces)

theorem mObjs_fields : (mObjs a a').map (·.fields) = segsO a a' := by
  simp only [mObjs, List.map_map, Function.comp_def]
  rw [← pick_map, objStored_fields, ifaceFields_length]; rfl

theorem mIfaces_fields : (mIfaces a a').map (·.fields) = segsI a a' := by
  rw [mIfaces, ← pick_map, ifaceStored_fields]; rfl

include hw hp

theorem mObjs_names : (mObjs a a').map (·.name) = a'.objects.map (·.name) := by
  obtain ⟨_, _, _, ho, _⟩ := known_nodup_parts a hw.1
  simp only [mObjs, List.map_map, Function.comp_def]
  rw [← pick_map, objStored_names]
  exact pick_oldIdx (fun e : AObj => e.name) a.objects a'.objects ho (fun x hx => hp.objects.mem_iff.1 hx) _

theorem mIfaces_names : (mIfaces a a').map (·.name) = a'.interfaces.map (·.name) := by
  obtain ⟨_, _, hi, _⟩ := known_nodup_parts a hw.1
  rw [mIfaces, ← pick_map, ifaceStored_names]
  exact pick_oldIdx (fun e : AIface => e.name) a.interfaces a'.interfaces hi (fun x hx => hp.interfaces.mem_iff.1 hx) _

theorem mObjs_implements :
    (mObjs a a').map (·.implements) = a'.objects.map fun o => o.implements.map (ifaceId a'.names) := by
  obtain ⟨_, _, _, ho, _⟩ := known_nodup_parts a hw.1
  have L := lookups a hw.1
  simp only [mObjs, List.map_map, Function.comp_def]
  have : (pick (permOf a a').objs (objStored a.names (ifaceFields a.names 0 a.interfaces).length a.objects)).map
      (fun o => o.implements.map (permOf a a').ifaces.idxOf) =
      ((pick (permOf a a').objs (objStored a.names (ifaceFields a.names 0 a.interfaces).length a.objects)).map
        (·.implements)).map (List.map (permOf a a').ifaces.idxOf) := by
    rw [List.map_map]; rfl
  have e : (permOf a a').objs = oldIdx (fun e : AObj => e.name) a.objects a'.objects := rfl
  rw [this, ← pick_map, objStored_implements, e,
    pick_oldIdx (fun e : AObj => e.name) a.objects a'.objects ho (fun x hx => hp.objects.mem_iff.1 hx),
    List.map_map, names_perm a a' hw.1 hp]
  apply List.map_congr_left
  intro o ho'
  simp only [Function.comp, List.map_map]
  apply List.map_congr_left
  intro n hn
  exact (ifaceId_map _ _ n (L.impl n (hw.2.2.2.1 o (hp.objects.mem_iff.1 ho') n hn))).symm

/-- **type-order permutations**: the schema of the permuted abstract schema is the schema of the original one with
the type ids renumbered (`permOf a a'`) and then the field ids renumbered in owner order -/
theorem toSchema_perm : a'.toSchema = a.toSchema.renumber (permOf a a') := by
  have hσ : (a.toSchema.mapTypes (permOf a a')).fieldOrder = (segsI a a').flatten ++ (segsO a a').flatten := by
    show (mIfaces a a').flatMap (·.fields) ++ (mObjs a a').flatMap (·.fields) = _
    rw [List.flatMap_def, List.flatMap_def, mObjs_fields, mIfaces_fields]
  have hnd : ((segsI a a').flatten ++ (segsO a a').flatten).Nodup :=
    (segs_perm a a' hw hp).nodup_iff.2 List.nodup_range
  have hlenI : (segsI a a').flatten.length = (ifaceFields a'.names 0 a'.interfaces).length := by
    rw [sum_map_length, segsI_lengths a a' hw hp, ifaceFields_length]
  -- objects
  have hO : objStored a'.names (ifaceFields a'.names 0 a'.interfaces).length a'.objects =
      (mObjs a a').map fun o =>
        { o with fields := o.fields.map ((segsI a a').flatten ++ (segsO a a').flatten).idxOf } := by
    apply objs_ext
    · rw [objStored_names, List.map_map]; exact (mObjs_names a a' hw hp).symm
    · have := map_idxOf_segments (segsI a a').flatten (segsO a a') [] (by rw [List.append_nil]; exact hnd)
      rw [List.append_nil, hlenI, segsO_lengths a a' hw hp] at this
      have key : ∀ τ : List Nat, (mObjs a a').map ((·.fields) ∘ fun o => { o with fields := o.fields.map τ.idxOf }) =
          (segsO a a').map (·.map τ.idxOf) := by
        intro τ; rw [← mObjs_fields, List.map_map]; rfl
      rw [objStored_fields, List.map_map, key]
      exact this.symm
    · rw [objStored_implements, List.map_map]; exact (mObjs_implements a a' hw hp).symm
  -- interfaces
  have hI : ifaceStored 0 a'.interfaces =
      (mIfaces a a').map fun i =>
        { i with fields := i.fields.map ((segsI a a').flatten ++ (segsO a a').flatten).idxOf } := by
    apply ifaces_ext
    · rw [ifaceStored_names, List.map_map]; exact (mIfaces_names a a' hw hp).symm
    · have := map_idxOf_segments [] (segsI a a') (segsO a a').flatten (by rw [List.nil_append]; exact hnd)
      rw [List.nil_append, List.length_nil, segsI_lengths a a' hw hp] at this
      have key : ∀ τ : List Nat, (mIfaces a a').map ((·.fields) ∘ fun i => { i with fields := i.fields.map τ.idxOf }) =
          (segsI a a').map (·.map τ.idxOf) := by
        intro τ; rw [← mIfaces_fields, List.map_map]; rfl
      rw [ifaceStored_fields, List.map_map, key]
      exact this.symm
  unfold Schema.renumber Schema.normFields
  rw [hσ]
  simp only [Schema.mapFields, AS.toSchema]
  rw [perm_fields a a' hw hp, hO, hI, perm_unions a a' hw hp, perm_scalars a a' hw hp, perm_enums a a' hw hp,
    perm_inputs a a' hw hp, names_perm a a' hw.1 hp, rootId_map, rootId_map, rootId_map, hp.query, hp.mutation,
    hp.subscription]
  rfl

end

theorem known_perm (a a' : AS) (hp : PermOf a a') : a'.known.Perm a.known := by
  simp only [AS.known, AS.enumNames, AS.ifaceNames, AS.objNames, AS.unionNames, AS.inputNames]
  exact ((((((List.Perm.refl _).append hp.scalars).append (hp.enums.map _)).append (hp.interfaces.map _)).append
    (hp.objects.map _)).append (hp.unions.map _)).append (hp.inputs.map _)

theorem wf_perm (a a' : AS) (hw : WfAS a) (hp : PermOf a a') : WfAS a' := by
  have hk := known_perm a a' hp
  obtain ⟨hn, hif, hof, him, hun, hinp⟩ := hw
  refine ⟨hk.nodup_iff.2 hn, ?_, ?_, ?_, ?_, ?_⟩
  · exact fun i hi f hf => hk.mem_iff.2 (hif i (hp.interfaces.mem_iff.1 hi) f hf)
  · exact fun o ho f hf => hk.mem_iff.2 (hof o (hp.objects.mem_iff.1 ho) f hf)
  · exact fun o ho n hn' => (hp.interfaces.map _).mem_iff.2 (him o (hp.objects.mem_iff.1 ho) n hn')
  · exact fun u hu m hm => hk.mem_iff.2 (hun u (hp.unions.mem_iff.1 hu) m hm)
  · exact fun i hi f hf => hk.mem_iff.2 (hinp i (hp.inputs.mem_iff.1 hi) f hf)

/-- every component of `permOf a a'` is a permutation of the ids of its kind, so `idxOf` is a bijection on them
(`idxOf_bijection`) -/
theorem permOf_perm (a a' : AS) (hw : WfAS a) (hp : PermOf a a') :
    (permOf a a').scalars.Perm (List.range a.toSchema.scalars.length) ∧
    (permOf a a').enums.Perm (List.range a.toSchema.enums.length) ∧
    (permOf a a').ifaces.Perm (List.range a.toSchema.interfaces.length) ∧
    (permOf a a').objs.Perm (List.range a.toSchema.objects.length) ∧
    (permOf a a').unions.Perm (List.range a.toSchema.unions.length) ∧
    (permOf a a').inputs.Perm (List.range a.toSchema.inputs.length) := by
  obtain ⟨hs, he, hi, ho, hu, hin⟩ := known_nodup_parts a hw.1
  refine ⟨?_, ?_, ?_, ?_, ?_, ?_⟩
  · have h1 := oldIdx_perm id a.scalars a'.scalars (by simpa using hs) hp.scalars
    have h2 := h1.map (5 + ·)
    simp only [permOf, AS.toSchema, List.length_append]
    rw [show Schema.defaultScalars.length = 5 from rfl, List.range_eq_range' (n := 5 + _), ← List.range'_append_1,
      List.range_eq_range']
    refine List.Perm.append_left _ ?_
    refine h2.trans (List.Perm.of_eq ?_)
    rw [List.range_eq_range', List.map_add_range']
  · simpa [permOf, AS.toSchema] using oldIdx_perm (fun e : AEnum => e.name) a.enums a'.enums he hp.enums
  · have := oldIdx_perm (fun e : AIface => e.name) a.interfaces a'.interfaces hi hp.interfaces
    have hl : (ifaceStored 0 a.interfaces).length = a.interfaces.length := by
      have := congrArg List.length (ifaceStored_names 0 a.interfaces); simpa using this
    simpa [permOf, AS.toSchema, hl] using this
  · simpa [permOf, AS.toSchema] using oldIdx_perm (fun e : AObj => e.name) a.objects a'.objects ho hp.objects
  · simpa [permOf, AS.toSchema] using oldIdx_perm (fun e : AUnion => e.name) a.unions a'.unions hu hp.unions
  · simpa [permOf, AS.toSchema] using oldIdx_perm (fun e : AInput => e.name) a.inputs a'.inputs hin hp.inputs

/-- **`frontends_iso_perm`**, SDL vs SDL: two SDL documents that list the definitions of each kind in different
orders give schemas related by the renumbering `permOf a a'` of the type ids followed by the renumbering of the
field ids in owner order -/
theorem frontends_iso_perm_sdl (a a' : AS) (doc doc' : SdlDoc) (hw : WfAS a) (hp : PermOf a a')
    (hd : IsSdlOf a doc) (hd' : IsSdlOf a' doc') :
    Sdl.fromSdl doc' = (Sdl.fromSdl doc).map (Schema.renumber (permOf a a')) := by
  rw [sdl_spec a doc hw hd, sdl_spec a' doc' (wf_perm a a' hw hp) hd', toSchema_perm a a' hw hp]; rfl

/-- introspection vs introspection -/
theorem frontends_iso_perm_intro (a a' : AS) (l l' : List (Option FullType)) (hw : WfAS a) (hp : PermOf a a')
    (hi : IsIntroOf a (l.filterMap id)) (hi' : IsIntroOf a' (l'.filterMap id)) :
    Intro.fromIntro true (some (introSchemaOf a' l')) =
      (Intro.fromIntro true (some (introSchemaOf a l))).map (Schema.renumber (permOf a a')) := by
  rw [intro_spec a l hw hi, intro_spec a' l' (wf_perm a a' hw hp) hi', toSchema_perm a a' hw hp]; rfl

/-- **`frontends_iso_perm`**: one front-end sees the definitions in one order, the other one in another order -/
theorem frontends_iso_perm (a a' : AS) (doc : SdlDoc) (l' : List (Option FullType)) (hw : WfAS a) (hp : PermOf a a')
    (hd : IsSdlOf a doc) (hi' : IsIntroOf a' (l'.filterMap id)) :
    Intro.fromIntro true (some (introSchemaOf a' l')) = (Sdl.fromSdl doc).map (Schema.renumber (permOf a a')) := by
  rw [sdl_spec a doc hw hd, intro_spec a' l' (wf_perm a a' hw hp) hi', toSchema_perm a a' hw hp]; rfl


theorem mapTypes_fieldOrder (a a' : AS) :
    (a.toSchema.mapTypes (permOf a a')).fieldOrder = (segsI a a').flatten ++ (segsO a a').flatten := by
  show (mIfaces a a').flatMap (·.fields) ++ (mObjs a a').flatMap (·.fields) = _
  rw [List.flatMap_def, List.flatMap_def, mObjs_fields, mIfaces_fields]

/-- after the type renumbering, the field ids in owner order are a permutation of all field ids: the second step
of `Schema.renumber` is a bijective renumbering of the field ids (`idxOf_bijection`, `mapFields_getElem?`) -/
theorem mapTypes_fieldOrder_perm (a a' : AS) (hw : WfAS a) (hp : PermOf a a') :
    (a.toSchema.mapTypes (permOf a a')).fieldOrder.Perm
      (List.range (a.toSchema.mapTypes (permOf a a')).fields.length) := by
  rw [mapTypes_fieldOrder]
  have : (a.toSchema.mapTypes (permOf a a')).fields.length =
      (a.interfaces.map (·.fields.length)).sum + (a.objects.map (·.fields.length)).sum := by
    simp [Schema.mapTypes, AS.toSchema]
  rw [this]
  exact segs_perm a a' hw hp


/-- the second half of `Schema.renumber` (field ids in owner order) does not change the generated code: the code
generated from the permuted schema is the code generated from the type-renumbered schema -/
theorem codegen_perm_eq_mapTypes (a a' : AS) (hw : WfAS a) (hp : PermOf a a')
    (cs : CaseFns) (o : Options) (queryText : String) (doc : QDoc) :
    Codegen.generate a'.toSchema cs o queryText doc =
      Codegen.generate (a.toSchema.mapTypes (permOf a a')) cs o queryText doc := by
  rw [toSchema_perm a a' hw hp]
  exact codegen_respects_field_renumbering
    (fieldIso_mapFields _ _ (mapTypes_fieldOrder_perm a a' hw hp)) cs o queryText doc

/-! ## the statement proved in `Proofs/C07PermCodegenE.lean` (`codegen_iso_perm : CodegenIsoPermStatement`)

The full goal, as a type-checked `Prop` (a *definition* here; the proof is `C07P.codegen_iso_perm`, P31): the modules generated from the
two schemas agree up to the order of the items and of the variants of tagged enums.  By `codegen_perm_eq_mapTypes`
it only concerns `Schema.mapTypes`. -/

/-- elementwise relation of two lists of the same length -/
inductive AllRel {α β : Type} (R : α → β → Prop) : List α → List β → Prop
  | nil : AllRel R [] []
  | cons {x y xs ys} : R x y → AllRel R xs ys → AllRel R (x :: xs) (y :: ys)

/-- equal up to the order of the variants of a tagged enum -/
inductive ItemEqv : Item → Item → Prop
  | refl (i : Item) : ItemEqv i i
  | tagged (n : String) (d : List String) (c : Option String) (tag : String) {vs vs' : List RVariant} :
      vs.Perm vs' → ItemEqv (.tagged n d c tag vs) (.tagged n d c tag vs')

/-- equal up to the order of the items (and of tagged-enum variants) -/
def ItemsEqv (l l' : List Item) : Prop := ∃ m, AllRel ItemEqv l m ∧ m.Perm l'

def ModuleEqv (m m' : Module) : Prop :=
  m.modName = m'.modName ∧ m.vis = m'.vis ∧ m.structDecl = m'.structDecl ∧ m.operationName = m'.operationName ∧
  m.query = m'.query ∧ m.queryInclude = m'.queryInclude ∧ m.useSerde = m'.useSerde ∧ m.implFor = m'.implFor ∧
  ItemsEqv m.items m'.items

/-- the statement of `codegen_iso_perm` (proved in `Proofs/C07PermCodegenE.lean`) -/
def CodegenIsoPermStatement : Prop :=
  ∀ (a a' : AS), WfAS a → PermOf a a' → ∀ (cs : CaseFns) (o : Options) (queryText : String) (doc : QDoc)
    (ms : List Module), Codegen.generate a.toSchema cs o queryText doc = .ok ms →
      ∃ ms', Codegen.generate a'.toSchema cs o queryText doc = .ok ms' ∧ AllRel ModuleEqv ms ms'

/-! ## witnesses -/

/-- the smallest instance: two objects listed in the two orders -/
def exP0 : AS := { objects := [⟨"A", [], [⟨"a", .named "Int", none⟩]⟩, ⟨"B", [], [⟨"b", .named "A", none⟩]⟩], query := some "B" }
def exP0' : AS := { exP0 with objects := exP0.objects.reverse }

instance (a a' : AS) : Decidable (PermOf a a') :=
  decidable_of_iff (a'.scalars.Perm a.scalars ∧ a'.enums.Perm a.enums ∧ a'.interfaces.Perm a.interfaces ∧
    a'.objects.Perm a.objects ∧ a'.unions.Perm a.unions ∧ a'.inputs.Perm a.inputs ∧ a'.query = a.query ∧
    a'.mutation = a.mutation ∧ a'.subscription = a.subscription)
    ⟨fun ⟨h1, h2, h3, h4, h5, h6, h7, h8, h9⟩ => ⟨h1, h2, h3, h4, h5, h6, h7, h8, h9⟩,
     fun ⟨h1, h2, h3, h4, h5, h6, h7, h8, h9⟩ => ⟨h1, h2, h3, h4, h5, h6, h7, h8, h9⟩⟩

example : WfAS exP0 ∧ PermOf exP0 exP0' := by decide
/-- literal equality FAILS: object ids, the ids in field types, field ids, the root id all change -/
example : exP0'.toSchema ≠ exP0.toSchema := by decide
example : (exP0.toSchema.objects.map (·.name), exP0.toSchema.fields.map (fun f => (f.name, f.ty.id, f.parent)),
      exP0.toSchema.queryType) =
    (["A", "B"], [("a", .scalar 2, .object 0), ("b", .object 0, .object 1)], some 1) := by decide
example : (exP0'.toSchema.objects.map (·.name), exP0'.toSchema.fields.map (fun f => (f.name, f.ty.id, f.parent)),
      exP0'.toSchema.queryType) =
    (["B", "A"], [("b", .object 1, .object 0), ("a", .scalar 2, .object 1)], some 0) := by decide
example : permOf exP0 exP0' =
    { scalars := [0, 1, 2, 3, 4], enums := [], ifaces := [], objs := [1, 0], unions := [], inputs := [] } := by decide
/-- … and they agree after the renumbering (kernel evaluation, independent of the theorem) -/
example : exP0'.toSchema = exP0.toSchema.renumber (permOf exP0 exP0') := by decide

/-- the running example with every kind that has two or more definitions reordered -/
def exASp : AS :=
  { exAS with
    scalars := ["Url", "DateTime"]
    objects := [exAS.objects[1]!, exAS.objects[3]!, exAS.objects[0]!, exAS.objects[2]!]
    inputs := exAS.inputs.reverse }
def exASq : AS := { exAS with scalars := ["DateTime", "Url"] }

example : WfAS exASq ∧ PermOf exASq exASp := by decide
example : exASp.toSchema ≠ exASq.toSchema := by decide
example : exASp.toSchema = exASq.toSchema.renumber (permOf exASq exASp) := by decide

end C07
end GqlVerif
