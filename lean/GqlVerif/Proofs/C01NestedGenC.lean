import GqlVerif.Proofs.C01NestedGenA
/-!
# `NestedGenOp`, part C: exact acceptance (parametric in the fragments' acceptance), after `C01NestedAbsC`

The recursion over object-level selection sets is the one of `C01NestedAbsC`; what is new is `accAbsG`: at a position with
interface-level fields the struct (own fields + flattened `on`) accepts an object iff the own fields accept it and the tagged
enum `…On` accepts the entries they left (`restG`), its payloads being those of `NestedAbsOp` (`C01NA.accVariantA`).
-/
set_option linter.unusedSimpArgs false
set_option linter.unusedVariables false
set_option linter.unusedSectionVars false
set_option linter.unnecessarySimpa false

namespace GqlVerif
namespace C01NG
open Serde Spec C13 C03 Codegen C01 C01.E2E C01M C01N C01NA

/-! ## the exact acceptance predicate -/

/-- the entries the flattened `on` sees: those the interface-level fields left -/
def restG (s : Schema) (sub : List Sel) (kvs : List (String × Json)) : List (String × Json) :=
  kvs.filter (fun kv => !(fieldKeys s (ownSels sub)).contains kv.1)

/-- what the type(s) emitted for a selection set of the general kind on the abstract type `ty` accept: without
    interface-level fields the tagged enum of `NestedAbsOp` (`looseTagA`); with them the struct: the own fields, and the
    flattened tagged enum `on` reads the entries they left (`restG`) -/
def looseTagG (whole : Nat → Bool → Json → Bool) (s : Schema) (q : Query) (o : Options) (b : Bool) (ty : TypeId)
    (sub : List Sel) : Json → Bool
  | .obj kvs =>
    if (ownSels sub).isEmpty then tagOkV s o b (vtsOfTy s ty) (payA whole q (strip sub)) kvs
    else looseSelsS s q o b (ownSels sub) kvs &&
      tagOkV s o true (vtsOfTy s ty) (payA whole q (strip sub)) (restG s sub kvs)
  | _ => false

/-- … and the field of abstract type -/
def looseAbsG (whole : Nat → Bool → Json → Bool) (s : Schema) (q : Query) (o : Options) (b : Bool) (sf : StoredField)
    (sub : List Sel) (v : Json) : Bool :=
  accepts (looseTagG whole s q o b sf.ty.id sub) (gtyOf sf.ty.quals) v

mutual
  def looseFieldA (whole : Nat → Bool → Json → Bool) (s : Schema) (q : Query) (o : Options) (b : Bool) : Sel → Json → Bool
    | .field a fid sub, v =>
      match s.fields[fid]? with
      | none => false
      | some sf =>
        match sf.ty.id with
        | .object i => (match s.objects[i]? with
          | some _ => accepts (fun j =>
              match sub with
              | [.spread g] => whole g b j      -- type alias of the fragment struct
              | _ => match j with
                | .obj kvs' => looseOwnA whole s q o b sub kvs' && looseMemN whole sub kvs'
                | .arr xs => !sub.any isSpread && looseArrA whole s q o b sub xs
                | _ => false) (gtyOf sf.ty.quals) v
          | none => false)
        | _ => if sSel s q o false (.field a fid sub) then looseFieldS s q o b (.field a fid sub) v
               else looseAbsG whole s q o b sf sub v
    | _, _ => true
  /-- the own fields of the struct (spreads contribute no own field) -/
  def looseOwnA (whole : Nat → Bool → Json → Bool) (s : Schema) (q : Query) (o : Options) (b : Bool) :
      List Sel → List (String × Json) → Bool
    | [], _ => true
    | .field a fid sub :: xs, kvs =>
      (match s.fields[fid]? with
       | none => false
       | some sf =>
         decide (countKey (a.getD sf.name) kvs ≤ 1) &&
         (match Json.lookup (a.getD sf.name) kvs with
          | none => nullableQ sf.ty.quals
          | some v => looseFieldA whole s q o b (.field a fid sub) v)) && looseOwnA whole s q o b xs kvs
    | _ :: xs, kvs => looseOwnA whole s q o b xs kvs
  def looseArrA (whole : Nat → Bool → Json → Bool) (s : Schema) (q : Query) (o : Options) (b : Bool) :
      List Sel → List Json → Bool
    | [], _ => true
    | .field a fid sub :: xs, vs =>
      (match vs with
       | [] => false
       | v :: vs' => looseFieldA whole s q o b (.field a fid sub) v && looseArrA whole s q o b xs vs')
    | _ :: xs, vs => looseArrA whole s q o b xs vs
end

/-- what the type emitted for an object-level selection set of `NestedOp` accepts -/
def conformsLooseA (whole : Nat → Bool → Json → Bool) (s : Schema) (q : Query) (o : Options) (b : Bool) (sels : List Sel)
    (j : Json) : Bool :=
  match sels with
  | [.spread g] => whole g b j
  | _ => match j with
    | .obj kvs' => looseOwnA whole s q o b sels kvs' && looseMemN whole sels kvs'
    | .arr xs => !sels.any isSpread && looseArrA whole s q o b sels xs
    | _ => false

theorem looseLambdaA (whole : Nat → Bool → Json → Bool) (s : Schema) (q : Query) (o : Options) (b : Bool) (sub : List Sel) :
    (fun j =>
      match sub with
      | [.spread g] => whole g b j
      | _ => match j with
        | .obj kvs' => looseOwnA whole s q o b sub kvs' && looseMemN whole sub kvs'
        | .arr xs => !sub.any isSpread && looseArrA whole s q o b sub xs
        | _ => false) = conformsLooseA whole s q o b sub := by
  funext j; unfold conformsLooseA; rfl

theorem conformsLooseA_not_lone {whole : Nat → Bool → Json → Bool} {s : Schema} {q : Query} {o : Options} {b : Bool}
    {sels : List Sel} (h : ∀ g, sels ≠ [Sel.spread g]) (j : Json) :
    conformsLooseA whole s q o b sels j =
      (match j with
       | .obj kvs' => looseOwnA whole s q o b sels kvs' && looseMemN whole sels kvs'
       | .arr xs => !sels.any isSpread && looseArrA whole s q o b sels xs
       | _ => false) := by
  unfold conformsLooseA
  split
  · rename_i g; exact absurd rfl (h g)
  · rfl

/-! ## environment, keys -/

/-- the environment of a position of the general kind: the struct + tagged enum `…On` (or the tagged enum alone), the
    types of the interface-level fields, and per selected possible type the item of `NestedAbsOp` -/
def EnvAbsG (fenv : Nat → Prop) (e : Env) (c : Ctx) (name : String) (ty : TypeId) (sub : List Sel) : Prop :=
  AbsEnv e name (fieldsOfV c name sub) (variantsV c name ty (marks c.q (strip sub))) ∧
  envSelsS e c name (ownSels sub) ∧
  ∀ vt ∈ vtsOfTy c.s ty, VarEnvA fenv e c name vt (strip sub)

mutual
  /-- **keys disjoint between a fragment and its siblings** at object level (as `keysOkN`), and **between the fragments
      selected on one possible type** at a position of the new kind -/
  def keysOkA (KN : String → List String) (c : Ctx) : Sel → Bool
    | .field a fid sub =>
      (match (c.s.fields[fid]?).map (fun sf => sf.ty.id) with
       | some (TypeId.object _) => EnumSpec.nodup (expKeysN KN c sub) && keysOksA KN c sub
       | some ty =>
         if sSel c.s c.q c.o false (.field a fid sub) then true
         else (vtsOfTy c.s ty).all (fun vt => EnumSpec.nodup (memKeys KN c vt (strip sub)))
       | none => true)
    | _ => true
  def keysOksA (KN : String → List String) (c : Ctx) : List Sel → Bool
    | [] => true
    | x :: xs => keysOkA KN c x && keysOksA KN c xs
end

mutual
  def envSelA (fenv : Nat → Prop) (e : Env) (c : Ctx) (pfx : String) : Sel → Prop
    | .field a fid sub =>
      match c.s.fields[fid]? with
      | none => True
      | some sf =>
        match sf.ty.id with
        | .object _ =>
          (match sub with
           | [.spread g] => AliasEnv e (pfx ++ c.cs.camel (a.getD sf.name)) (fragName c g) ∧ fenv g
           | _ => StructEnv e (pfx ++ c.cs.camel (a.getD sf.name)) (fieldsOfF c (pfx ++ c.cs.camel (a.getD sf.name)) sub) ∧
                  envSelsA fenv e c (pfx ++ c.cs.camel (a.getD sf.name)) sub)
        | ty => if sSel c.s c.q c.o false (.field a fid sub) = true then envSelS e c pfx (.field a fid sub)
                else EnvAbsG fenv e c (pfx ++ c.cs.camel (a.getD sf.name)) ty sub
    | .spread g => fenv g
    | _ => True
  def envSelsA (fenv : Nat → Prop) (e : Env) (c : Ctx) (pfx : String) : List Sel → Prop
    | [] => True
    | x :: xs => envSelA fenv e c pfx x ∧ envSelsA fenv e c pfx xs
end

/-- what the name of an object-level selection set resolves to -/
def BodyEnvA (fenv : Nat → Prop) (e : Env) (c : Ctx) (name pfx : String) (sels : List Sel) : Prop :=
  match sels with
  | [.spread g] => AliasEnv e name (fragName c g) ∧ fenv g
  | _ => StructEnv e name (fieldsOfF c pfx sels) ∧ envSelsA fenv e c pfx sels

/-! ## facts about the emitted fields -/

section Fields
variable {ok : TypeId → Nat → Bool} {c : Ctx} (hok : OkSpec c.q ok)

theorem fieldOfSelV_a (pfx : String) (p : TypeId) (a : Option String) (fid : Nat) (sub : List Sel)
    (ht : aSel ok c.s c.q c.o p (.field a fid sub) = true) :
    ∃ sf ft, c.s.fields[fid]? = some sf ∧ leafNameV c pfx (a.getD sf.name) sf.ty.id = some ft ∧
      fieldOfSelV c pfx (.field a fid sub) = some (fieldOf c (a.getD sf.name) ft sf.ty.quals sf.deprecation) ∧
      wfQuals sf.ty.quals = true := by
  obtain ⟨sf, hsf⟩ := aSel_field_some ht
  by_cases hobj : ∃ i, sf.ty.id = .object i
  · obtain ⟨i, hid⟩ := hobj
    obtain ⟨hw, _, _, _⟩ := aSel_obj hsf hid ht
    exact ⟨sf, pfx ++ c.cs.camel (a.getD sf.name), hsf, by simp [leafNameV, hid], by simp [fieldOfSelV, hsf, leafNameV, hid], hw⟩
  · have hno : ∀ i, sf.ty.id ≠ .object i := fun i h => hobj ⟨i, h⟩
    rcases aSel_nonobj hsf hno ht with hs | ⟨_, hnew⟩
    · exact fieldOfSelV_s c pfx false a fid sub hs
    · obtain ⟨hw, _, hty, _⟩ := absFieldG_parts hnew
      cases hid : sf.ty.id with
      | object i => exact absurd hid (hno i)
      | scalar k => rw [hid] at hty; exact absurd hty (by simp [absHyp])
      | «enum» k => rw [hid] at hty; exact absurd hty (by simp [absHyp])
      | input k => rw [hid] at hty; exact absurd hty (by simp [absHyp])
      | interface k =>
        exact ⟨sf, pfx ++ c.cs.camel (a.getD sf.name), hsf, by simp [leafNameV, hid],
          by simp [fieldOfSelV, hsf, leafNameV, hid], hw⟩
      | union k =>
        exact ⟨sf, pfx ++ c.cs.camel (a.getD sf.name), hsf, by simp [leafNameV, hid],
          by simp [fieldOfSelV, hsf, leafNameV, hid], hw⟩

include hok in
theorem own_fieldsOfA (pfx : String) (p : TypeId) : ∀ (sels : List Sel), aSels ok c.s c.q c.o p sels = true →
    (fieldsOfF c pfx sels).filter (fun f => !f.flatten) = fieldsOfV c pfx sels
  | [], _ => rfl
  | x :: xs, ht => by
    obtain ⟨hx, hxs⟩ := aSels_cons ht
    have ih := own_fieldsOfA pfx p xs hxs
    rw [fieldsOfF_cons, List.filter_append, ih]
    cases x with
    | field a fid sub =>
      obtain ⟨sf, ft, _, _, hf, _⟩ := fieldOfSelV_a pfx p a fid sub hx
      rw [fieldOfSelF_field, hf, fieldsOfV_cons_field c pfx _ xs _ hf]
      simp [fieldOf]
    | spread g =>
      have hokg : ok p g = true := by simpa [aSel] using hx
      obtain ⟨fr, hfr, _⟩ := hok _ _ hokg
      rw [fieldsOfV_cons_none c pfx _ xs rfl]
      simp [fieldOfSelF, hfr, spreadField]
    | inline t sub => simp [aSel] at hx
    | typename => rw [fieldsOfV_cons_none c pfx _ xs rfl]; simp [fieldOfSelF, fieldOfSelV]

include hok in
theorem any_flatten_fieldsOfA (pfx : String) (p : TypeId) : ∀ (sels : List Sel), aSels ok c.s c.q c.o p sels = true →
    (fieldsOfF c pfx sels).any (·.flatten) = sels.any isSpread
  | [], _ => rfl
  | x :: xs, ht => by
    obtain ⟨hx, hxs⟩ := aSels_cons ht
    have ih := any_flatten_fieldsOfA pfx p xs hxs
    rw [fieldsOfF_cons, List.any_append, ih, List.any_cons]
    cases x with
    | field a fid sub =>
      obtain ⟨sf, ft, _, _, hf, _⟩ := fieldOfSelV_a pfx p a fid sub hx
      rw [fieldOfSelF_field, hf]; simp [fieldOf, isSpread]
    | spread g =>
      have hokg : ok p g = true := by simpa [aSel] using hx
      obtain ⟨fr, hfr, _⟩ := hok _ _ hokg
      simp [fieldOfSelF, hfr, spreadField, isSpread]
    | inline t sub => simp [aSel] at hx
    | typename => simp [fieldOfSelF, fieldOfSelV, isSpread]

include hok in
/-- from "the keys of the selection set (through spreads) are pairwise distinct" to the hypotheses of `okB_deStructMapN` -/
theorem flat_hypsA (KN : String → List String) (pfx : String) (p : TypeId) : ∀ (sels : List Sel),
    aSels ok c.s c.q c.o p sels = true → (expKeysN KN c sels).Nodup →
    (∀ g ∈ fieldsOfF c pfx sels, g.flatten = true → ∀ k ∈ kOf KN g, k ∈ expKeysN KN c sels) ∧
    (∀ f ∈ fieldsOfF c pfx sels, f.flatten = false → f.wire ∈ expKeysN KN c sels) ∧
    (∀ g ∈ fieldsOfF c pfx sels, g.flatten = true → ∀ k ∈ kOf KN g,
      k ∉ ((fieldsOfF c pfx sels).filter (fun f => !f.flatten)).map (·.wire)) ∧
    (fieldsOfF c pfx sels).Pairwise (fun g g' => g.flatten = true → g'.flatten = true →
      ∀ k ∈ kOf KN g', k ∉ kOf KN g)
  | [], _, _ => by simp [fieldsOfF]
  | x :: xs, ht, hnd => by
    obtain ⟨hx, hxs⟩ := aSels_cons ht
    cases x with
    | field a fid sub =>
      obtain ⟨sf, ft, hsf, _, hf, _⟩ := fieldOfSelV_a pfx p a fid sub hx
      have hexp : expKeysN KN c (.field a fid sub :: xs) = a.getD sf.name :: expKeysN KN c xs := by
        simp [expKeysN, hsf]
      rw [hexp, List.nodup_cons] at hnd
      obtain ⟨ih1, ih2, ih3, ih4⟩ := flat_hypsA KN pfx p xs hxs hnd.2
      have hfs : fieldsOfF c pfx (.field a fid sub :: xs) =
          fieldOf c (a.getD sf.name) ft sf.ty.quals sf.deprecation :: fieldsOfF c pfx xs := by
        rw [fieldsOfF_cons, fieldOfSelF_field, hf]; rfl
      have hnf : (fieldOf c (a.getD sf.name) ft sf.ty.quals sf.deprecation).flatten = false := rfl
      rw [hfs, hexp]
      refine ⟨?_, ?_, ?_, ?_⟩
      · intro g hg hfl
        rcases List.mem_cons.mp hg with rfl | hg'
        · rw [hnf] at hfl; cases hfl
        · exact fun k hk => List.mem_cons_of_mem _ (ih1 g hg' hfl k hk)
      · intro f hf' hfl
        rcases List.mem_cons.mp hf' with rfl | hf''
        · rw [fieldOf_wire]; simp
        · exact List.mem_cons_of_mem _ (ih2 f hf'' hfl)
      · intro g hg hfl k hk
        rcases List.mem_cons.mp hg with rfl | hg'
        · rw [hnf] at hfl; cases hfl
        · simp only [List.filter_cons, hnf, Bool.not_false, ↓reduceIte, List.map_cons, List.mem_cons, not_or, fieldOf_wire]
          refine ⟨?_, ih3 g hg' hfl k hk⟩
          intro heq
          exact hnd.1 (heq ▸ ih1 g hg' hfl k hk)
      · rw [List.pairwise_cons]
        exact ⟨fun g' _ hfl => (by rw [hnf] at hfl; cases hfl), ih4⟩
    | spread g =>
      have hokg : ok p g = true := by simpa [aSel] using hx
      obtain ⟨fr, hfr, _⟩ := hok _ _ hokg
      have hname : fragName c g = fr.name := by simp [fragName, hfr]
      have hexp : expKeysN KN c (.spread g :: xs) = KN fr.name ++ expKeysN KN c xs := by
        simp [expKeysN, hname]
      rw [hexp, List.nodup_append] at hnd
      obtain ⟨hnd1, hnd2, hdisj⟩ := hnd
      obtain ⟨ih1, ih2, ih3, ih4⟩ := flat_hypsA KN pfx p xs hxs hnd2
      have hfs : fieldsOfF c pfx (.spread g :: xs) = spreadField c fr :: fieldsOfF c pfx xs := by
        rw [fieldsOfF_cons]; simp [fieldOfSelF, hfr]
      have hfl' : (spreadField c fr).flatten = true := rfl
      have hmk : kOf KN (spreadField c fr) = KN fr.name := rfl
      rw [hfs, hexp]
      refine ⟨?_, ?_, ?_, ?_⟩
      · intro g' hg hfl
        rcases List.mem_cons.mp hg with rfl | hg'
        · exact fun k hk => List.mem_append_left _ (hmk ▸ hk)
        · exact fun k hk => List.mem_append_right _ (ih1 g' hg' hfl k hk)
      · intro f hf' hfl
        rcases List.mem_cons.mp hf' with rfl | hf''
        · rw [hfl'] at hfl; cases hfl
        · exact List.mem_append_right _ (ih2 f hf'' hfl)
      · intro g' hg hfl k hk
        simp only [List.filter_cons, hfl', Bool.not_true, Bool.false_eq_true, ↓reduceIte]
        rcases List.mem_cons.mp hg with rfl | hg'
        · rw [hmk] at hk
          intro hmem
          obtain ⟨f, hf', hfw⟩ := List.mem_map.mp hmem
          have hf'' := List.mem_filter.mp hf'
          have := ih2 f hf''.1 (by simpa using hf''.2)
          exact hdisj k hk k (hfw ▸ this) rfl
        · exact ih3 g' hg' hfl k hk
      · rw [List.pairwise_cons]
        refine ⟨?_, ih4⟩
        intro g' hg' _ hfl k hk
        rw [hmk]
        intro hmem
        exact hdisj k hmem k (ih1 g' hg' hfl k hk) rfl
    | inline t sub => simp [aSel] at hx
    | typename =>
      have hexp : expKeysN KN c (.typename :: xs) = expKeysN KN c xs := by simp [expKeysN]
      have hfs : fieldsOfF c pfx (.typename :: xs) = fieldsOfF c pfx xs := by
        rw [fieldsOfF_cons]; simp [fieldOfSelF, fieldOfSelV]
      rw [hexp] at hnd ⊢
      rw [hfs]
      exact flat_hypsA KN pfx p xs hxs hnd

end Fields

theorem envSelsA_mem {fenv : Nat → Prop} {e : Env} {c : Ctx} {pfx : String} : ∀ {sels : List Sel},
    envSelsA fenv e c pfx sels → ∀ x ∈ sels, envSelA fenv e c pfx x
  | [], _, _, hx => by simp at hx
  | y :: ys, h, x, hx => by
    rw [envSelsA] at h
    rcases List.mem_cons.mp hx with rfl | hx'
    · exact h.1
    · exact envSelsA_mem h.2 x hx'

theorem envSelA_spread {fenv : Nat → Prop} {e : Env} {c : Ctx} {pfx : String} {g : Nat} :
    envSelA fenv e c pfx (.spread g) = fenv g := by
  rw [envSelA]

theorem bodyEnvA_not_lone {fenv : Nat → Prop} {e : Env} {c : Ctx} {name pfx : String} {sels : List Sel}
    (hnl : ∀ g, sels ≠ [Sel.spread g]) (h : BodyEnvA fenv e c name pfx sels) :
    StructEnv e name (fieldsOfF c pfx sels) ∧ envSelsA fenv e c pfx sels := by
  unfold BodyEnvA at h
  revert h
  split
  · exact fun _ => absurd rfl (hnl _)
  · exact id

theorem keysOkA_obj {KN : String → List String} {c : Ctx} {a : Option String} {fid : Nat} {sub : List Sel}
    {sf : StoredField} {i : Nat}
    (hsf : c.s.fields[fid]? = some sf) (hid : sf.ty.id = .object i) (h : keysOkA KN c (.field a fid sub) = true) :
    EnumSpec.nodup (expKeysN KN c sub) = true ∧ keysOksA KN c sub = true := by
  rw [keysOkA] at h
  simp only [hsf, hid, Option.map_some, Bool.and_eq_true] at h
  exact h

theorem keysOkA_new {KN : String → List String} {c : Ctx} {a : Option String} {fid : Nat} {sub : List Sel}
    {sf : StoredField} (hsf : c.s.fields[fid]? = some sf) (hno : ∀ i, sf.ty.id ≠ .object i)
    (hs : sSel c.s c.q c.o false (.field a fid sub) = false) (h : keysOkA KN c (.field a fid sub) = true) :
    ∀ vt ∈ vtsOfTy c.s sf.ty.id, (memKeys KN c vt (strip sub)).Nodup := by
  rw [keysOkA] at h
  simp only [hsf, Option.map_some] at h
  have h' : (vtsOfTy c.s sf.ty.id).all (fun vt => EnumSpec.nodup (memKeys KN c vt (strip sub))) = true := by
    cases hid : sf.ty.id with
    | object i => exact absurd hid (hno i)
    | scalar k => simpa only [hid, hs, Bool.false_eq_true, if_false] using h
    | «enum» k => simpa only [hid, hs, Bool.false_eq_true, if_false] using h
    | interface k => simpa only [hid, hs, Bool.false_eq_true, if_false] using h
    | union k => simpa only [hid, hs, Bool.false_eq_true, if_false] using h
    | input k => simpa only [hid, hs, Bool.false_eq_true, if_false] using h
  intro vt hvt
  simp only [List.all_eq_true] at h'
  exact nodup_iff'.mp (h' vt hvt)

theorem envSelA_obj {fenv : Nat → Prop} {e : Env} {c : Ctx} {pfx : String} {a : Option String} {fid : Nat}
    {sub : List Sel} {sf : StoredField}
    {i : Nat} (hsf : c.s.fields[fid]? = some sf) (hid : sf.ty.id = .object i) (h : envSelA fenv e c pfx (.field a fid sub)) :
    BodyEnvA fenv e c (pfx ++ c.cs.camel (a.getD sf.name)) (pfx ++ c.cs.camel (a.getD sf.name)) sub := by
  rw [envSelA] at h
  simp only [hsf, hid] at h
  exact h

theorem envSelA_old {fenv : Nat → Prop} {e : Env} {c : Ctx} {pfx : String} {a : Option String} {fid : Nat}
    {sub : List Sel}
    {sf : StoredField} (hsf : c.s.fields[fid]? = some sf) (hno : ∀ i, sf.ty.id ≠ .object i)
    (hs : sSel c.s c.q c.o false (.field a fid sub) = true)
    (h : envSelA fenv e c pfx (.field a fid sub)) : envSelS e c pfx (.field a fid sub) := by
  rw [envSelA] at h
  simp only [hsf] at h
  cases hid : sf.ty.id with
  | object i => exact absurd hid (hno i)
  | scalar k => simpa only [hid, hs, if_true] using h
  | «enum» k => simpa only [hid, hs, if_true] using h
  | interface k => simpa only [hid, hs, if_true] using h
  | union k => simpa only [hid, hs, if_true] using h
  | input k => simpa only [hid, hs, if_true] using h

theorem envSelA_new {fenv : Nat → Prop} {e : Env} {c : Ctx} {pfx : String} {a : Option String} {fid : Nat}
    {sub : List Sel}
    {sf : StoredField} (hsf : c.s.fields[fid]? = some sf) (hno : ∀ i, sf.ty.id ≠ .object i)
    (hs : sSel c.s c.q c.o false (.field a fid sub) = false)
    (h : envSelA fenv e c pfx (.field a fid sub)) : EnvAbsG fenv e c (pfx ++ c.cs.camel (a.getD sf.name)) sf.ty.id sub := by
  rw [envSelA] at h
  simp only [hsf] at h
  cases hid : sf.ty.id with
  | object i => exact absurd hid (hno i)
  | scalar k => simpa only [hid, hs, Bool.false_eq_true, if_false] using h
  | «enum» k => simpa only [hid, hs, Bool.false_eq_true, if_false] using h
  | interface k => simpa only [hid, hs, Bool.false_eq_true, if_false] using h
  | union k => simpa only [hid, hs, Bool.false_eq_true, if_false] using h
  | input k => simpa only [hid, hs, Bool.false_eq_true, if_false] using h

theorem looseFieldA_old {whole : Nat → Bool → Json → Bool} {s : Schema} {q : Query} {o : Options} {b : Bool}
    {a : Option String} {fid : Nat}
    {sub : List Sel} {sf : StoredField} (hsf : s.fields[fid]? = some sf) (hno : ∀ i, sf.ty.id ≠ .object i)
    (hs : sSel s q o false (.field a fid sub) = true) (v : Json) :
    looseFieldA whole s q o b (.field a fid sub) v = looseFieldS s q o b (.field a fid sub) v := by
  rw [looseFieldA]
  simp only [hsf]
  cases hid : sf.ty.id with
  | object i => exact absurd hid (hno i)
  | scalar k => simp only [hs, if_true]
  | «enum» k => simp only [hs, if_true]
  | interface k => simp only [hs, if_true]
  | union k => simp only [hs, if_true]
  | input k => simp only [hs, if_true]

theorem looseFieldA_new {whole : Nat → Bool → Json → Bool} {s : Schema} {q : Query} {o : Options} {b : Bool}
    {a : Option String} {fid : Nat}
    {sub : List Sel} {sf : StoredField} (hsf : s.fields[fid]? = some sf) (hno : ∀ i, sf.ty.id ≠ .object i)
    (hs : sSel s q o false (.field a fid sub) = false) (v : Json) :
    looseFieldA whole s q o b (.field a fid sub) v = looseAbsG whole s q o b sf sub v := by
  rw [looseFieldA]
  simp only [hsf]
  cases hid : sf.ty.id with
  | object i => exact absurd hid (hno i)
  | scalar k => simp only [hs, Bool.false_eq_true, if_false]
  | «enum» k => simp only [hs, Bool.false_eq_true, if_false]
  | interface k => simp only [hs, Bool.false_eq_true, if_false]
  | union k => simp only [hs, Bool.false_eq_true, if_false]
  | input k => simp only [hs, Bool.false_eq_true, if_false]

theorem exists_uniform {α : Type} (P : α → Nat → Prop) (hmono : ∀ a n m, n ≤ m → P a n → P a m) :
    ∀ (l : List α), (∀ a ∈ l, ∃ n, P a n) → ∃ n, ∀ a ∈ l, P a n
  | [], _ => ⟨0, fun _ h => by simp at h⟩
  | x :: xs, h => by
    obtain ⟨n1, h1⟩ := h x (List.mem_cons_self)
    obtain ⟨n2, h2⟩ := exists_uniform P hmono xs (fun a ha => h a (List.mem_cons_of_mem _ ha))
    refine ⟨max n1 n2, fun a ha => ?_⟩
    rcases List.mem_cons.mp ha with rfl | ha'
    · exact hmono _ _ _ (Nat.le_max_left _ _) h1
    · exact hmono _ _ _ (Nat.le_max_right _ _) (h2 a ha')

/-! ## acceptance, exactly -/

section AccA
variable (e : Env) (c : Ctx) (ok : TypeId → Nat → Bool) (whole : Nat → Bool → Json → Bool) (KN : String → List String)
  (fenv : Nat → Prop) (hok : OkSpec c.q ok) (hfa : ∀ p g, ok p g = true → fenv g → FragAcc e c whole KN g)

include hok hfa in
/-- the flattened members: struct items, keys, irrelevance of other keys, and what they accept -/
theorem accMemA (pfx : String) (p : TypeId) : ∀ (sels : List Sel), aSels ok c.s c.q c.o p sels = true →
    envSelsA fenv e c pfx sels → ∃ N, ∀ fuel, N ≤ fuel →
    (∀ g ∈ fieldsOfF c pfx sels, g.flatten = true → MemberOkN e g ∧
      (∀ f ∈ memberFields e g, f.flatten = false → f.wire ∈ kOf KN g) ∧
      (∀ L' : List String, (∀ k ∈ L', k ∉ kOf KN g) → ∀ kvs,
        okB (memberVal e fuel g (kvs.filter (fun kv => !L'.contains kv.1))) = okB (memberVal e fuel g kvs))) ∧
    (∀ kvs, ((fieldsOfF c pfx sels).filter (·.flatten)).all (fun g => okB (memberVal e fuel g kvs)) =
      looseMemN whole sels kvs)
  | [], _, _ => ⟨0, fun _ _ => ⟨by simp [fieldsOfF], fun _ => rfl⟩⟩
  | x :: xs, ht, henv => by
    obtain ⟨hx, hxs⟩ := aSels_cons ht
    rw [envSelsA] at henv
    obtain ⟨N, ih⟩ := accMemA pfx p xs hxs henv.2
    cases x with
    | field a fid sub =>
      obtain ⟨sf, ft, _, _, hf, _⟩ := fieldOfSelV_a pfx p a fid sub hx
      refine ⟨N, fun fuel hfuel => ?_⟩
      obtain ⟨i1, i2⟩ := ih fuel hfuel
      have hfs : fieldsOfF c pfx (.field a fid sub :: xs) =
          fieldOf c (a.getD sf.name) ft sf.ty.quals sf.deprecation :: fieldsOfF c pfx xs := by
        rw [fieldsOfF_cons, fieldOfSelF_field, hf]; rfl
      have hnf : (fieldOf c (a.getD sf.name) ft sf.ty.quals sf.deprecation).flatten = false := rfl
      rw [hfs]
      refine ⟨?_, fun kvs => ?_⟩
      · intro g hg hfl
        rcases List.mem_cons.mp hg with rfl | hg'
        · rw [hnf] at hfl; cases hfl
        · exact i1 g hg' hfl
      · simp only [List.filter_cons, hnf, Bool.false_eq_true, ↓reduceIte, i2 kvs, looseMemN]
    | spread g =>
      have hokg : ok p g = true := by simpa [aSel] using hx
      obtain ⟨fr, hfr, _⟩ := hok _ _ hokg
      have hname : fragName c g = fr.name := by simp [fragName, hfr]
      have hfg : fenv g := by have := henv.1; rwa [envSelA] at this
      have fa := hfa p g hokg hfg
      obtain ⟨n, d, cr, G, hnp, hfind, hG⟩ := fa.str
      obtain ⟨Ng, hacc⟩ := fa.acc
      rw [hname] at hnp hfind hG hacc
      have hirr := fa.irr
      rw [hname] at hirr
      have hfs : fieldsOfF c pfx (.spread g :: xs) = spreadField c fr :: fieldsOfF c pfx xs := by
        rw [fieldsOfF_cons]; simp [fieldOfSelF, hfr]
      have hfl' : (spreadField c fr).flatten = true := rfl
      have hmf : memberFields e (spreadField c fr) = G := by
        simp [memberFields, spreadField, hfind]
      have hmv : ∀ fuel kvs, memberVal e fuel (spreadField c fr) kvs = dePath e true (fuel + 1) fr.name (.obj kvs) :=
        fun fuel kvs => memberVal_eq_dePath e fuel _ fr.name n d cr rfl hnp (by rw [hmf]; exact hfind) kvs
      refine ⟨max N Ng, fun fuel hfuel => ?_⟩
      obtain ⟨i1, i2⟩ := ih fuel (by omega)
      rw [hfs]
      refine ⟨?_, fun kvs => ?_⟩
      · intro g' hg hfl
        rcases List.mem_cons.mp hg with rfl | hg'
        · refine ⟨⟨fr.name, n, d, cr, rfl, hnp, by rw [hmf]; exact hfind⟩, ?_, ?_⟩
          · rw [hmf]; exact hG
          · intro L' hL' kvs
            rw [hmv, hmv, hacc (fuel + 1) (by omega), hacc (fuel + 1) (by omega)]
            exact hirr L' hL' true kvs
        · exact i1 g' hg' hfl
      · simp only [List.filter_cons, hfl', ↓reduceIte, List.all_cons, i2 kvs, looseMemN, hmv,
          hacc (fuel + 1) (by omega)]
    | inline t sub => simp [aSel] at hx
    | typename =>
      refine ⟨N, fun fuel hfuel => ?_⟩
      have hfs : fieldsOfF c pfx (.typename :: xs) = fieldsOfF c pfx xs := by
        rw [fieldsOfF_cons]; simp [fieldOfSelF, fieldOfSelV]
      rw [hfs]
      exact ⟨(ih fuel hfuel).1, fun kvs => by rw [(ih fuel hfuel).2 kvs]; rfl⟩

def AccSelA (pfx : String) (x : Sel) : Prop :=
  ∀ p, aSel ok c.s c.q c.o p x = true → envSelA fenv e c pfx x → keysOkA KN c x = true →
    ∀ f, fieldOfSelV c pfx x = some f →
    ∃ N, ∀ b fd, N ≤ fd → ∀ v, okB (deFieldWith (dePath e b fd) f v) = looseFieldA whole c.s c.q c.o b x v

def AccSelsA (pfx : String) (sels : List Sel) : Prop :=
  ∀ p, aSels ok c.s c.q c.o p sels = true → envSelsA fenv e c pfx sels → keysOksA KN c sels = true →
    ∃ N, ∀ b fd, N ≤ fd →
    (∀ kvs, (fieldsOfV c pfx sels).all (fun f => decide (countKey f.wire kvs ≤ 1) &&
        okB (readField (dePath e b fd) f kvs)) = looseOwnA whole c.s c.q c.o b sels kvs) ∧
    (∀ xs, (decide ((fieldsOfV c pfx sels).length ≤ xs.length) &&
        ((fieldsOfV c pfx sels).zip xs).all (fun p => okB (deFieldWith (dePath e b fd) p.1 p.2))) =
          looseArrA whole c.s c.q c.o b sels xs)

include hok hfa in
/-- the struct of an object-level selection set (not a lone spread) accepts exactly `conformsLooseA` -/
theorem accStructA (pfx name : String) (p : TypeId) (sels : List Sel) (H : AccSelsA e c ok whole KN fenv pfx sels)
    (hnl : ∀ g, sels ≠ [Sel.spread g])
    (ht : aSels ok c.s c.q c.o p sels = true) (henv : envSelsA fenv e c pfx sels) (hko : keysOksA KN c sels = true)
    (hkeys : EnumSpec.nodup (expKeysN KN c sels) = true)
    (hs : StructEnv e name (fieldsOfF c pfx sels)) :
    ∃ N, ∀ b fd, N ≤ fd → ∀ j, okB (dePath e b fd name j) = conformsLooseA whole c.s c.q c.o b sels j := by
  obtain ⟨hp, _, n, d, cr, hfind⟩ := hs
  obtain ⟨N0, H0⟩ := H p ht henv hko
  obtain ⟨N1, H1⟩ := accMemA e c ok whole KN fenv hok hfa pfx p sels ht henv
  refine ⟨max N0 N1 + 2, fun b fd hfd j => ?_⟩
  obtain ⟨fd', rfl⟩ : ∃ k, fd = k + 2 := ⟨fd - 2, by omega⟩
  rw [conformsLooseA_not_lone hnl]
  have hown := own_fieldsOfA hok pfx p sels ht
  have hany := any_flatten_fieldsOfA hok pfx p sels ht
  have hpl := plain_fieldsOfV c pfx sels
  obtain ⟨A1, A2⟩ := H0 b (fd' + 1) (by omega)
  rw [dePath_struct e b (fd' + 1) name n d cr _ hp hfind]
  cases hsp : sels.any isSpread
  · -- no spread: a plain struct
    have hplain : fieldsOfF c pfx sels = fieldsOfV c pfx sels := by
      rw [← hown]
      symm
      rw [List.filter_eq_self]
      intro f hf
      rw [hsp] at hany
      have := List.any_eq_false.mp hany f hf
      simpa using this
    rw [hplain]
    cases j with
    | obj kvs =>
      rw [deStruct_obj, deStructMap_plain _ _ _ _ hpl, okB_map, okB_deOwn' _ _ _ hpl, A1]
      simp [looseMemN_nospread whole kvs sels hsp]
    | arr xs =>
      simp only [deStructWith, any_flatten_of_plain hpl, Bool.false_eq_true, ↓reduceIte, Bool.not_false, Bool.true_and]
      rw [← A2 xs]
      by_cases hlen : xs.length < (fieldsOfV c pfx sels).length
      · have : ¬ ((fieldsOfV c pfx sels).length ≤ xs.length) := by omega
        simp [hlen, this, okB, bad]
      · have : (fieldsOfV c pfx sels).length ≤ xs.length := by omega
        simp only [hlen, ↓reduceIte, okB_map, okB_mapM, this, decide_true, Bool.true_and]
        congr 1; funext p
        cases deFieldWith (dePath e b (fd' + 1)) p.1 p.2 <;> rfl
    | null => rfl
    | bool _ => rfl
    | int _ => rfl
    | num _ => rfl
    | str _ => rfl
  · -- flattened members
    rw [hsp] at hany
    obtain ⟨M1, M2⟩ := H1 fd' (by omega)
    obtain ⟨_, _, h3, h4⟩ := flat_hypsA hok KN pfx p sels ht (nodup_iff'.mp hkeys)
    cases j with
    | obj kvs =>
      rw [deStruct_obj, okB_deStructMapN e fd' _ _ kvs (kOf KN) hany (fun g hg hf => (M1 g hg hf).1)
        (fun g hg hf => (M1 g hg hf).2.1) (fun g hg hf k hk hkK => h3 g hg hf k hkK hk)
        (fun g hg hf _ L' hL' => (M1 g hg hf).2.2 L' hL' kvs) h4, hown, okB_deOwn' _ _ _ hpl, A1 kvs, M2 kvs]
    | arr xs => simp only [deStructWith, hany, ↓reduceIte]; rfl
    | null => rfl
    | bool _ => rfl
    | int _ => rfl
    | num _ => rfl
    | str _ => rfl

include hfa in
/-- a lone spread: the alias of the fragment struct accepts what the fragment struct accepts -/
theorem accAliasA (name : String) (p : TypeId) (g : Nat) (hokg : ok p g = true)
    (ha : AliasEnv e name (fragName c g)) (hf : fenv g) :
    ∃ N, ∀ b fd, N ≤ fd → ∀ j, okB (dePath e b fd name j) = whole g b j := by
  obtain ⟨Ng, hacc⟩ := (hfa p g hokg hf).acc
  obtain ⟨hp, _, n, pub, hfind⟩ := ha
  refine ⟨Ng + 1, fun b fd hfd j => ?_⟩
  obtain ⟨fd', rfl⟩ : ∃ k, fd = k + 1 := ⟨fd - 1, by omega⟩
  have : dePath e b (fd' + 1) name j = dePath e b fd' (fragName c g) j := by
    rw [dePath]; simp only [dePrim_none hp, hfind, deTyWith]
  rw [this]
  exact hacc fd' (by omega) b j

theorem pairwise_of_nodup_flatMap {α β : Type} (f : α → List β) : ∀ (l : List α), (l.flatMap f).Nodup →
    l.Pairwise (fun a b => ∀ k ∈ f b, k ∉ f a)
  | [], _ => List.Pairwise.nil
  | a :: l, h => by
    rw [List.flatMap_cons, List.nodup_append] at h
    obtain ⟨_, h2, h3⟩ := h
    rw [List.pairwise_cons]
    refine ⟨fun b hb k hk hka => h3 k hka k (List.mem_flatMap.mpr ⟨b, hb, hk⟩) rfl, pairwise_of_nodup_flatMap f l h2⟩

theorem all_congr_mem {α : Type} {f g : α → Bool} : ∀ {l : List α}, (∀ a ∈ l, f a = g a) → l.all f = l.all g
  | [], _ => rfl
  | a :: l, h => by
    rw [List.all_cons, List.all_cons, h a (List.mem_cons_self), all_congr_mem (fun b hb => h b (List.mem_cons_of_mem _ hb))]

theorem looseMemN_spreads (whole : Nat → Bool → Json → Bool) (kvs : List (String × Json)) : ∀ (gs : List Nat),
    looseMemN whole (gs.map Sel.spread) kvs = gs.all (fun g => whole g true (.obj kvs))
  | [] => rfl
  | g :: gs => by rw [List.map_cons, looseMemN, looseMemN_spreads whole kvs gs, List.all_cons]

/-- **a struct that consists of flattened members for the structs of the fragments `gs`** (a variant struct) accepts an
    object iff every fragment's struct accepts it -/
theorem accMembersA (name : String) (gs : List Nat) (hne : gs ≠ []) (hs : StructEnv e name (gs.map (memField c)))
    (hfa' : ∀ g ∈ gs, FragAcc e c whole KN g) (hkeys : (gs.flatMap (fun g => KN (fragName c g))).Nodup) :
    ∃ N, ∀ b fd, N ≤ fd → ∀ kvs, okB (dePath e b fd name (.obj kvs)) = gs.all (fun g => whole g true (.obj kvs)) := by
  obtain ⟨hp, _, n, d, cr, hfind⟩ := hs
  -- what is known of each member
  have hmem : ∀ g ∈ gs, ∃ n' d' cr' G, notPrim (fragName c g) ∧
      e.find (fragName c g) = some (.struct n' d' cr' G) ∧ memberFields e (memField c g) = G ∧
      (∀ f ∈ G, f.flatten = false → f.wire ∈ KN (fragName c g)) := by
    intro g hg
    obtain ⟨n', d', cr', G, hnp, hf, hG⟩ := (hfa' g hg).str
    exact ⟨n', d', cr', G, hnp, hf, by simp [memberFields, memField, hf], hG⟩
  have hacc : ∃ N, ∀ g ∈ gs, ∀ fd, N ≤ fd → ∀ b j, okB (dePath e b fd (fragName c g) j) = whole g b j := by
    apply exists_uniform (fun g N => ∀ fd, N ≤ fd → ∀ b j, okB (dePath e b fd (fragName c g) j) = whole g b j)
    · intro g n m hnm h fd hfd; exact h fd (by omega)
    · intro g hg; exact (hfa' g hg).acc
  obtain ⟨N, hN⟩ := hacc
  refine ⟨N + 2, fun b fd hfd kvs => ?_⟩
  obtain ⟨fd', rfl⟩ : ∃ k, fd = k + 2 := ⟨fd - 2, by omega⟩
  have hmv : ∀ g ∈ gs, ∀ kvs', memberVal e fd' (memField c g) kvs' = dePath e true (fd' + 1) (fragName c g) (.obj kvs') := by
    intro g hg kvs'
    obtain ⟨n', d', cr', G, hnp, hf, hmf, _⟩ := hmem g hg
    exact memberVal_eq_dePath e fd' _ (fragName c g) n' d' cr' rfl hnp (by rw [hmf]; exact hf) kvs'
  have hany : (gs.map (memField c)).any (·.flatten) = true := by
    cases gs with
    | nil => exact absurd rfl hne
    | cons g gs' => simp [memField]
  have hown0 : (gs.map (memField c)).filter (fun f => !f.flatten) = [] := by
    rw [List.filter_eq_nil_iff]
    intro f hf
    obtain ⟨g, _, rfl⟩ := List.mem_map.mp hf
    simp [memField]
  have hfl0 : (gs.map (memField c)).filter (·.flatten) = gs.map (memField c) := by
    rw [List.filter_eq_self]
    intro f hf
    obtain ⟨g, _, rfl⟩ := List.mem_map.mp hf
    rfl
  rw [dePath_struct e b (fd' + 1) name n d cr _ hp hfind, deStruct_obj,
    okB_deStructMapN e fd' _ _ kvs (kOf KN) hany
      (fun f hf _ => by
        obtain ⟨g, hg, rfl⟩ := List.mem_map.mp hf
        obtain ⟨n', d', cr', G, hnp, hf', hmf, _⟩ := hmem g hg
        exact ⟨fragName c g, n', d', cr', rfl, hnp, by rw [hmf]; exact hf'⟩)
      (fun f hf _ => by
        obtain ⟨g, hg, rfl⟩ := List.mem_map.mp hf
        obtain ⟨n', d', cr', G, hnp, hf', hmf, hG⟩ := hmem g hg
        rw [hmf]; exact hG)
      (fun f hf _ k hk => by rw [hown0] at hk; simp at hk)
      (fun f hf _ _ L' hL' => by
        obtain ⟨g, hg, rfl⟩ := List.mem_map.mp hf
        rw [hmv g hg, hmv g hg, hN g hg (fd' + 1) (by omega), hN g hg (fd' + 1) (by omega)]
        exact (hfa' g hg).irr L' hL' true kvs)
      ((pairwise_of_nodup_flatMap _ gs hkeys).map (memField c) (fun a b h _ _ k hk => h k hk)),
    hown0, hfl0, List.all_map]
  have : okB (deOwnWith (dePath e b (fd' + 1)) [] kvs) = true := by
    rw [okB_deOwn' _ _ [] rfl]; rfl
  rw [this, Bool.true_and]
  apply all_congr_mem
  intro g hg
  simp only [Function.comp]
  rw [hmv g hg, hN g hg (fd' + 1) (by omega)]

omit hfa in
theorem ownSels_cons_field (a : Option String) (fid : Nat) (sub' : List Sel) (xs : List Sel) :
    ownSels (Sel.field a fid sub' :: xs) = Sel.field a fid sub' :: ownSels xs := by
  simp [ownSels, List.filter_cons, isFieldSel]

omit hfa in
theorem ownSels_cons_other {x : Sel} (h : isFieldSel x = false) (xs : List Sel) : ownSels (x :: xs) = ownSels xs := by
  simp [ownSels, List.filter_cons, h]

omit hfa in
theorem fieldsOfV_ownSels (c : Ctx) (pfx : String) : ∀ (sub : List Sel), fieldsOfV c pfx (ownSels sub) = fieldsOfV c pfx sub
  | [] => rfl
  | x :: xs => by
    have ih := fieldsOfV_ownSels c pfx xs
    cases x with
    | field a fid sub' =>
      rw [ownSels_cons_field]; unfold fieldsOfV at ih ⊢; rw [List.filterMap_cons, List.filterMap_cons, ih]
    | spread g => rw [ownSels_cons_other rfl, ih, fieldsOfV_cons_none c pfx _ xs rfl]
    | inline t sub' => rw [ownSels_cons_other rfl, ih, fieldsOfV_cons_none c pfx _ xs rfl]
    | typename => rw [ownSels_cons_other rfl, ih, fieldsOfV_cons_none c pfx _ xs rfl]

omit hfa in
theorem sSels_ownSels {s : Schema} {q : Query} {o : Options} : ∀ (sub : List Sel),
    (∀ x ∈ sub, leafSel s q o x = true) → sSels s q o true (ownSels sub) = true
  | [], _ => by simp [ownSels, sSels]
  | x :: xs, h => by
    have ih := sSels_ownSels xs (fun y hy => h y (List.mem_cons_of_mem _ hy))
    cases x with
    | field a fid sub' =>
      rw [ownSels_cons_field, sSels, ih, Bool.and_true]
      have := h _ (List.mem_cons_self)
      simp only [leafSel, Bool.and_eq_true] at this
      exact this.1
    | spread g => rw [ownSels_cons_other rfl]; exact ih
    | inline t sub' => rw [ownSels_cons_other rfl]; exact ih
    | typename => rw [ownSels_cons_other rfl]; exact ih

omit hfa in
/-- a leaf field has its struct field -/
theorem fieldOfSelV_leaf {c : Ctx} (pfx : String) {a : Option String} {fid : Nat} {sub' : List Sel}
    (h : leafSel c.s c.q c.o (.field a fid sub') = true) : ∃ f, fieldOfSelV c pfx (.field a fid sub') = some f := by
  obtain ⟨sf, hsf, _, _, _, hty⟩ := leafSel_field h
  rcases hty with ⟨k, sn, hid, hk⟩ | ⟨k, en, hid, hk⟩
  · simp only [fieldOfSelV, hsf, hid, leafNameV, hk, Option.map_some]; exact ⟨_, rfl⟩
  · simp only [fieldOfSelV, hsf, hid, leafNameV, hk, Option.map_some]; exact ⟨_, rfl⟩

omit hfa in
theorem fieldsOfV_isEmpty {c : Ctx} (pfx : String) {sub : List Sel} (h : ∀ x ∈ sub, leafSel c.s c.q c.o x = true) :
    (fieldsOfV c pfx sub).isEmpty = (ownSels sub).isEmpty := by
  rw [← fieldsOfV_ownSels]
  cases hown : ownSels sub with
  | nil => rfl
  | cons x rest =>
    have hx : x ∈ ownSels sub := by rw [hown]; exact List.mem_cons_self
    obtain ⟨hxs, hxf⟩ := List.mem_filter.mp hx
    cases x with
    | field a fid sub' =>
      obtain ⟨f, hf⟩ := fieldOfSelV_leaf pfx (h _ hxs)
      rw [fieldsOfV_cons_field c pfx _ rest f hf]; rfl
    | spread g => simp [isFieldSel] at hxf
    | inline t sub' => simp [isFieldSel] at hxf
    | typename => simp [isFieldSel] at hxf

include hok hfa in
/-- **a field of abstract type of the general kind**: without interface-level fields the tagged enum, with them the struct
    (own fields + flattened `on`) and the tagged enum `…On`, accept exactly `looseTagG` — the payloads are those of
    `NestedAbsOp` (`accVariantA`) -/
theorem accAbsG (pfx : String) (a : Option String) (fid : Nat) (sub : List Sel) (sf : StoredField)
    (hsf : c.s.fields[fid]? = some sf) (hnew : absFieldG ok c.s c.q c.o sf sub = true)
    (henv : EnvAbsG fenv e c (pfx ++ c.cs.camel (a.getD sf.name)) sf.ty.id sub)
    (hkeys : ∀ vt ∈ vtsOfTy c.s sf.ty.id, (memKeys KN c vt (strip sub)).Nodup) :
    ∃ N, ∀ b fd, N ≤ fd → ∀ v,
      okB (deFieldWith (dePath e b fd)
        (fieldOf c (a.getD sf.name) (pfx ++ c.cs.camel (a.getD sf.name)) sf.ty.quals sf.deprecation) v) =
        looseAbsG whole c.s c.q c.o b sf sub v := by
  obtain ⟨hw, _, hty, hsubG⟩ := absFieldG_parts hnew
  have hsg := absSubG_parts hsubG
  have hsp := hsg.abs
  have hwf : wf (gtyOf sf.ty.quals) = true := by rw [wf_gtyOf]; exact hw
  obtain ⟨habs, henvF, hvar⟩ := henv
  generalize hname : pfx ++ c.cs.camel (a.getD sf.name) = name at *
  -- the payloads, uniformly in the fuel
  have hpay : ∃ N, ∀ vt ∈ vtsOfTy c.s sf.ty.id, ∀ fd, N ≤ fd → ∀ rest,
      pickOk (dePath e true fd) (variantOf c name (marks c.q (strip sub)) vt) rest =
        payA whole c.q (strip sub) vt rest := by
    apply exists_uniform (fun vt N => ∀ fd, N ≤ fd → ∀ rest,
      pickOk (dePath e true fd) (variantOf c name (marks c.q (strip sub)) vt) rest =
        payA whole c.q (strip sub) vt rest)
    · intro vt n m hnm h fd hfd rest
      exact h fd (by omega) rest
    · intro vt hvt
      exact C01NA.accVariantA e c ok whole KN fenv hok hfa _ sf.ty.id (strip sub) hsp vt hvt (hvar vt hvt) (hkeys vt hvt)
  obtain ⟨N, hN⟩ := hpay
  have hsS := sSels_ownSels sub hsg.leaf
  have hemp := fieldsOfV_isEmpty name hsg.leaf
  unfold AbsEnv at habs
  cases hown : (ownSels sub).isEmpty with
  | true =>
    rw [hown] at hemp
    simp only [hemp, if_true] at habs
    obtain ⟨hp, hID, n, d, cr, hfind⟩ := habs
    refine ⟨N + 1, fun b fd hfd v => ?_⟩
    obtain ⟨fd', rfl⟩ : ∃ k, fd = k + 1 := ⟨fd - 1, by omega⟩
    have hleaf : ∀ j, okB (dePath e b (fd' + 1) name j) = looseTagG whole c.s c.q c.o b sf.ty.id sub j := by
      intro j
      cases j with
      | obj kvs =>
        rw [dePath_tagged e b fd' _ n d cr _ _ hp hfind]
        simp only [looseTagG, hown, if_true]
        exact okB_tagged c _ sf.ty.id (marks c.q (strip sub)) _ b _ kvs (fun vt hvt => hN vt hvt fd' (by omega) _)
      | arr xs => unfold dePath; simp only [dePrim_none hp, hfind]; rfl
      | null => unfold dePath; simp only [dePrim_none hp, hfind]; rfl
      | bool _ => unfold dePath; simp only [dePrim_none hp, hfind]; rfl
      | int _ => unfold dePath; simp only [dePrim_none hp, hfind]; rfl
      | num _ => unfold dePath; simp only [dePrim_none hp, hfind]; rfl
      | str _ => unfold dePath; simp only [dePrim_none hp, hfind]; rfl
    rw [deField_plain _ _ _ _ hID]
    exact (ok_iff_accepts _ _ (looseTagG whole c.s c.q c.o b sf.ty.id sub) hleaf _ hwf).2 v
  | false =>
    rw [hown] at hemp
    simp only [hemp, Bool.false_eq_true, if_false] at habs
    obtain ⟨⟨hp, hID, n, d, cr, hfind⟩, hpT, _, n', d', cr', hfind'⟩ := habs
    refine ⟨max N (2 * depthsF c.q (ownSels sub) + 1) + 2, fun b fd hfd v => ?_⟩
    obtain ⟨fd', rfl⟩ : ∃ k, fd = k + 2 := ⟨fd - 2, by omega⟩
    obtain ⟨H1, _⟩ := accSelsS e c (ownSels sub) name true hsS henvF b (fd' + 1) (by omega)
    have hpl := plain_fieldsOfV c name sub
    have hany : (fieldsOfV c name sub ++ [onField name]).any (·.flatten) = true := by simp [onField]
    have hnfl : ∀ g ∈ fieldsOfV c name sub, g.flatten = false := by
      intro g hg
      have := hpl
      simp only [plain, List.all_eq_true] at this
      simpa using this g hg
    have hleaf : ∀ j, okB (dePath e b (fd' + 1 + 1) name j) = looseTagG whole c.s c.q c.o b sf.ty.id sub j := by
      intro j
      rw [dePath_struct e b (fd' + 1) name n d cr _ hp hfind]
      cases j with
      | obj kvs =>
        have hb : ∀ g ∈ fieldsOfV c name sub ++ [onField name], g.flatten = true → Borrows e g := by
          intro g hg hfl
          rcases List.mem_append.mp hg with hg | hg
          · rw [hnfl g hg] at hfl; cases hfl
          · simp only [List.mem_singleton] at hg
            subst hg
            exact ⟨name ++ "On", rfl, hpT, .inl ⟨n', d', cr', _, _, hfind'⟩⟩
        have hown' : (fieldsOfV c name sub ++ [onField name]).filter (fun f => !f.flatten) = fieldsOfV c name sub := by
          rw [List.filter_append, List.filter_eq_self.mpr (fun g hg => by simp [hnfl g hg])]; simp [onField]
        have hfl : (fieldsOfV c name sub ++ [onField name]).filter (·.flatten) = [onField name] := by
          rw [List.filter_append, List.filter_eq_nil_iff.mpr (fun g hg => by simp [hnfl g hg])]; simp [onField]
        have hrest : kvs.filter (fun kv => !((fieldsOfV c name sub).map (·.wire)).contains kv.1) = restG c.s sub kvs := by
          rw [← fieldsOfV_ownSels, wire_fieldsOfS c name true _ hsS]; rfl
        have H1' := H1 kvs
        rw [fieldsOfV_ownSels] at H1'
        rw [deStruct_obj, deStructMap_borrow e fd' _ _ kvs hany hb, okB_bind2, hown', okB_deOwn' _ _ _ hpl, H1',
          okB_borrowVals, hfl, hrest]
        simp only [looseTagG, hown, Bool.false_eq_true, if_false, List.all_cons, List.all_nil, Bool.and_true]
        congr 1
        rw [show readB e fd' (onField name) (restG c.s sub kvs) =
          dePath e true (fd' + 1) (name ++ "On") (.obj (restG c.s sub kvs)) from rfl,
          dePath_tagged e true fd' _ n' d' cr' _ _ hpT hfind']
        exact okB_tagged c _ sf.ty.id (marks c.q (strip sub)) _ true _ _ (fun vt hvt => hN vt hvt fd' (by omega) _)
      | arr xs => simp only [deStructWith, hany, ↓reduceIte]; rfl
      | null => rfl
      | bool _ => rfl
      | int _ => rfl
      | num _ => rfl
      | str _ => rfl
    rw [deField_plain _ _ _ _ hID]
    exact (ok_iff_accepts _ _ (looseTagG whole c.s c.q c.o b sf.ty.id sub) hleaf _ hwf).2 v

mutual
  theorem accSelA : ∀ (x : Sel) (pfx : String), OkSpec c.q ok →
      (∀ p g, ok p g = true → fenv g → FragAcc e c whole KN g) → AccSelA e c ok whole KN fenv pfx x
    | .field a fid sub, pfx => by
      intro hok hfa p ht henv hko f hf
      have IH := accSelsA sub
      obtain ⟨sf, ft, hsf, hleaf, hf', hw⟩ := fieldOfSelV_a pfx p a fid sub ht
      by_cases hobj : ∃ i, sf.ty.id = .object i
      · obtain ⟨i, hid⟩ := hobj
        have hwf : wf (gtyOf sf.ty.quals) = true := by rw [wf_gtyOf]; exact hw
        obtain ⟨_, _, hobjs, hbody⟩ := aSel_obj hsf hid ht
        have henv := envSelA_obj hsf hid henv
        have hko := keysOkA_obj hsf hid hko
        simp only [fieldOfSelV, hsf, leafNameV, hid, Option.some.injEq] at hf
        subst hf
        have hleaf : ∃ N, ∀ b fd, N ≤ fd → ∀ j, okB (dePath e b fd (pfx ++ c.cs.camel (a.getD sf.name)) j) =
            conformsLooseA whole c.s c.q c.o b sub j := by
          by_cases hsp : ∃ g, sub = [Sel.spread g]
          · obtain ⟨g, rfl⟩ := hsp
            unfold BodyEnvA at henv
            simp only at henv
            exact accAliasA e c ok whole KN fenv hfa _ (.object i) g hbody henv.1 henv.2
          · have hnl : ∀ g, sub ≠ [Sel.spread g] := fun g hg => hsp ⟨g, hg⟩
            have henv' := bodyEnvA_not_lone hnl henv
            rw [aBody_not_lone hnl] at hbody
            exact accStructA e c ok whole KN fenv hok hfa _ _ (.object i) sub (IH _ hok hfa) hnl hbody henv'.2 hko.2
              hko.1 henv'.1
        have hID : pfx ++ c.cs.camel (a.getD sf.name) ≠ "ID" := by
          unfold BodyEnvA at henv
          split at henv
          · exact henv.1.2.1
          · exact henv.1.2.1
        obtain ⟨N, hN⟩ := hleaf
        refine ⟨N, fun b fd hfd v => ?_⟩
        rw [looseFieldA]
        simp only [hsf, hid]
        cases hk : c.s.objects[i]? with
        | none => simp [hk] at hobjs
        | some ob =>
          simp only []
          rw [looseLambdaA, deField_plain _ _ _ _ hID]
          exact (ok_iff_accepts _ _ (conformsLooseA whole c.s c.q c.o b sub) (hN b fd hfd) _ hwf).2 v
      · -- scalar / enum / abstract: as in `VariantSpreadOp`
        have hno : ∀ i, sf.ty.id ≠ .object i := fun i h => hobj ⟨i, h⟩
        rcases aSel_nonobj hsf hno ht with hs | ⟨hs, hnew⟩
        · refine ⟨2 * depthF c.q (.field a fid sub) + 1, fun b fd hfd v => ?_⟩
          rw [looseFieldA_old hsf hno hs]
          exact accSelS e c _ pfx false hs (envSelA_old hsf hno hs henv) f hf b fd hfd v
        · have hf'' := hf'
          rw [hf] at hf''
          simp only [Option.some.injEq] at hf''
          subst hf''
          have hft : ft = pfx ++ c.cs.camel (a.getD sf.name) := by
            obtain ⟨_, _, hty, _⟩ := absFieldG_parts hnew
            cases hid : sf.ty.id with
            | object i => exact absurd hid (hno i)
            | scalar k => rw [hid] at hty; exact absurd hty (by simp [absHyp])
            | «enum» k => rw [hid] at hty; exact absurd hty (by simp [absHyp])
            | input k => rw [hid] at hty; exact absurd hty (by simp [absHyp])
            | interface k => simpa [leafNameV, hid] using hleaf.symm
            | union k => simpa [leafNameV, hid] using hleaf.symm
          subst hft
          obtain ⟨N, hN⟩ := accAbsG e c ok whole KN fenv hok hfa pfx a fid sub sf hsf hnew (envSelA_new hsf hno hs henv)
            (keysOkA_new hsf hno hs hko)
          exact ⟨N, fun b fd hfd v => by rw [looseFieldA_new hsf hno hs]; exact hN b fd hfd v⟩
    | .spread g, pfx => by intro _ _ _ _ _ _ f hf; cases hf
    | .inline t sub, pfx => by intro _ _ _ _ _ _ f hf; cases hf
    | .typename, pfx => by intro _ _ _ _ _ _ f hf; cases hf
  theorem accSelsA : ∀ (sels : List Sel) (pfx : String), OkSpec c.q ok →
      (∀ p g, ok p g = true → fenv g → FragAcc e c whole KN g) → AccSelsA e c ok whole KN fenv pfx sels
    | [], pfx => by
      intro _ _ _ _ _ _
      exact ⟨0, fun b fd _ => ⟨fun kvs => by simp [fieldsOfV, looseOwnA], fun xs => by simp [fieldsOfV, looseArrA]⟩⟩
    | x :: xs, pfx => by
      intro hok hfa p ht henv hko
      obtain ⟨hx, hxs⟩ := aSels_cons ht
      rw [envSelsA] at henv
      rw [keysOksA, Bool.and_eq_true] at hko
      obtain ⟨N2, I⟩ := accSelsA xs pfx hok hfa p hxs henv.2 hko.2
      have IX := accSelA x pfx hok hfa p hx henv.1 hko.1
      cases x with
      | field a fid sub =>
        obtain ⟨sf, ft, hsf, _, hf, hw⟩ := fieldOfSelV_a pfx p a fid sub hx
        obtain ⟨N1, IXf⟩ := IX _ hf
        have hfs := fieldsOfV_cons_field c pfx _ xs _ hf
        refine ⟨max N1 N2, fun b fd hfd => ?_⟩
        obtain ⟨I1, I2⟩ := I b fd (by omega)
        have IXf := IXf b fd (by omega)
        refine ⟨fun kvs => ?_, fun vs => ?_⟩
        · rw [hfs, List.all_cons, I1 kvs, looseOwnA.eq_2]
          simp only [hsf, fieldOf_wire, readField]
          cases hl : Json.lookup (a.getD sf.name) kvs with
          | none => simp only [missing_fieldOf]
          | some v => simp only [IXf v]
        · rw [hfs]
          cases vs with
          | nil => rw [looseArrA.eq_2]; simp
          | cons v vs' =>
            rw [looseArrA.eq_3]
            simp only [List.length_cons, List.zip_cons_cons, List.all_cons, IXf v, ← I2 vs',
              Nat.add_le_add_iff_right]
            cases looseFieldA whole c.s c.q c.o b (.field a fid sub) v <;> simp
      | spread g =>
        have hfs := fieldsOfV_cons_none c pfx (.spread g) xs rfl
        refine ⟨N2, fun b fd hfd => ?_⟩
        obtain ⟨I1, I2⟩ := I b fd hfd
        refine ⟨fun kvs => ?_, fun vs => ?_⟩
        · rw [hfs, I1 kvs]; simp [looseOwnA]
        · rw [hfs, I2 vs]; simp [looseArrA]
      | inline t sub => simp [aSel] at hx
      | typename =>
        have hfs := fieldsOfV_cons_none c pfx .typename xs rfl
        refine ⟨N2, fun b fd hfd => ?_⟩
        obtain ⟨I1, I2⟩ := I b fd hfd
        refine ⟨fun kvs => ?_, fun vs => ?_⟩
        · rw [hfs, I1 kvs]; simp [looseOwnA]
        · rw [hfs, I2 vs]; simp [looseArrA]
end

include hok hfa in
/-- **the type emitted for an object-level selection set accepts exactly `conformsLooseA`** (from some fuel on) -/
theorem bodyA_accepts_iff (pfx name : String) (p : TypeId) (sels : List Sel)
    (ht : aBody ok c.s c.q c.o p sels = true) (henv : BodyEnvA fenv e c name pfx sels)
    (hko : keysOksA KN c sels = true) (hkeys : EnumSpec.nodup (expKeysN KN c sels) = true) :
    ∃ N, ∀ b fd, N ≤ fd → ∀ j, okB (dePath e b fd name j) = conformsLooseA whole c.s c.q c.o b sels j := by
  by_cases hsp : ∃ g, sels = [Sel.spread g]
  · obtain ⟨g, rfl⟩ := hsp
    unfold BodyEnvA at henv
    simp only at henv
    exact accAliasA e c ok whole KN fenv hfa _ p g ht henv.1 henv.2
  · have hnl : ∀ g, sels ≠ [Sel.spread g] := fun g hg => hsp ⟨g, hg⟩
    have henv' := bodyEnvA_not_lone hnl henv
    rw [aBody_not_lone hnl] at ht
    exact accStructA e c ok whole KN fenv hok hfa pfx name p sels (accSelsA e c ok whole KN fenv sels pfx hok hfa) hnl ht
      henv'.2 hko hkeys henv'.1

end AccA

end C01NG
end GqlVerif
