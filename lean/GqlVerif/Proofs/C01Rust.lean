import GqlVerif.Proofs.C01RecursiveE
import GqlVerif.Proofs.C09Normalization
/-!
# C01 / C03 end to end under `normalization = rust`, by transfer (P21)

The end-to-end theorems of `C01EndToEnd` (`TreeOp`), `C01Abstract` (`VariantOp`), `C01AbstractH/I` (`FragmentOp`) and
`C01RecursiveC/D` (`RecFragmentOp`) all require `c.o.normalization = none`.  `C09Normalization.lean` shows that, under
decidable side conditions, the `none` and the `rust` module read and write the same JSON at `ResponseData`
(`normalization_wire_invariant_of_names`).  This file composes the two.

* `noNorm c` — `c` with `normalization := none`; `normAgree_noNorm : NormAgree (noNorm c) c`.
* **Bridge of the environments.**  The end-to-end theorems read a module in `moduleEnv c items`, whose externs are named
  `<scalars module>::<raw scalar name>`.  A module generated under `rust` refers to `<scalars module>::<CamelName>`:
  `moduleEnv c₁ items₁` is the *wrong* environment for it (`moduleEnv_wrong_for_rust`: the good reply is rejected there).
  `customExternsN` / `moduleEnvN` name the externs after `normalization.scalarName`; `moduleEnvN_none`: under `none` this
  is `moduleEnv`; `customExterns_sameShape`: the two extern lists have the same shape (hypothesis `hx` of C09N).
* `WireSide c₀ c₁ opIdx items₀ items₁ x₀ x₁` — exactly the hypotheses of `normalization_wire_invariant_of_names`
  (`NormAgree`, `IdStable`, both generations succeed, externs of the same shape, `NamesInjective`, `EnumIdentsInjective`,
  `FieldsWF`), all decidable for concrete data; `RustSide` = `WireSide` at `customExterns c₀` / `customExternsN c₁`;
  `RustSide.mk'`, `RustSide.of_noNorm` (the form of the task, `c₀ = noNorm c₁`), `gen₁_of_gen₀`.
* Generic transfer: `transfer_okB`, `transfer_accepts`, `transfer_roundtrip`, `transfer_lossless`.
* For each class `X ∈ {tree, variant, fragment, recfragment}`: `X_accepts_rust`, `X_roundtrip_rust`, `X_lossless_rust`,
  `X_precise_iff_rust`: if `XOp c₀ op` and the side conditions of the `none` theorem hold of `c₀` / `items₀`, and
  `RustSide c₀ c₁ …`, then `c₁`'s module accepts every conforming payload, writes it back as the *same* canonical form
  (`canonSel c₀.s c₀.o.skipNone …` — a function of the schema, the query and `skipNone`, which `c₀` and `c₁` share: it
  does not mention Rust names), and accepts exactly the loose specification.  The statements are for any `c₀`, `c₁` with
  `NormAgree c₀ c₁` (so `c₁` may also differ in derives, serde path, scalars module); with `c₀ := noNorm c₁` every
  `c₀.s`, `c₀.q`, `c₀.o.skipNone` below is definitionally `c₁`'s.
* Concrete instances (one per class) in which every hypothesis is evaluated, the two generated modules differ
  (`ColorKind::DarkBlue` / `MoodKind::VerySad`, `DateTime`), and the theorems are applied to a payload.

Nothing is left unproved; no new side condition is introduced (the hypotheses are the union of those of the two
theorems composed).
-/
set_option linter.unusedSimpArgs false
namespace GqlVerif
namespace C01
namespace E2E
open Serde Spec C13 C03 Codegen C09N

/-! ## the `none` counterpart of a context, and the environment of a normalized module -/

/-- the same context with `normalization = none` -/
def noNorm (c : Ctx) : Ctx := { c with o := { c.o with normalization := .none } }

theorem normAgree_noNorm (c : Ctx) : NormAgree (noNorm c) c :=
  { s := rfl, q := rfl, cs := rfl, otherVariant := rfl, skipNone := rfl, deprecation := rfl, externEnums := rfl }

/-- externs of a module generated under any normalization: every custom scalar `n` of the schema is supplied by the
    consumer as `String`, **under the name the module's alias refers to**, `<scalars module>::<scalarName n>` -/
def customExternsN (c : Ctx) : List (String × RTy) :=
  (c.s.scalars.filter (fun n => !Schema.defaultScalars.contains n)).map
    (fun n => ((c.o.scalarsModule.getD "super") ++ "::" ++ c.o.normalization.scalarName c.cs n, RTy.path "String"))

/-- the environment in which a module emitted under any normalization is read -/
def moduleEnvN (c : Ctx) (items : List Item) : Env := { items := items, externs := customExternsN c }

/-- bridge: under `normalization = none` this is the environment of the end-to-end theorems -/
theorem customExternsN_none {c : Ctx} (h : c.o.normalization = .none) : customExternsN c = customExterns c := by
  unfold customExternsN customExterns
  simp only [h, Normalization.scalarName, Normalization.camelCase]

theorem moduleEnvN_none {c : Ctx} (h : c.o.normalization = .none) (items : List Item) :
    moduleEnvN c items = moduleEnv c items := by
  unfold moduleEnvN moduleEnv; rw [customExternsN_none h]

/-- the two extern lists have the same shape (all `String`, one per custom scalar of the common schema) -/
theorem customExterns_sameShape {c₀ c₁ : Ctx} (hs : c₁.s = c₀.s) :
    (customExterns c₀).map (fun x => eraseTy x.2) = (customExternsN c₁).map (fun x => eraseTy x.2) := by
  unfold customExterns customExternsN
  simp only [hs, List.map_map, Function.comp_def]

/-! ## the generic transfer lemmas -/

/-- what `DRel` gives for acceptance -/
theorem okB_of_drel {α β} {S : α → β → Prop} {x : D α} {y : D β} (h : DRel S x y) : okB y = okB x := by
  cases x <;> cases y <;> simp_all [DRel, okB]

theorem ok_of_drel_eq {α} {x y : D α} (h : DRel Eq x y) (out : α) : x = .ok out ↔ y = .ok out := by
  cases x <;> cases y <;> simp_all [DRel]

/-- the side conditions of `normalization_wire_invariant_of_names`, for two generated modules read in the
    environments `e₀ = {items₀, x₀}`, `e₁ = {items₁, x₁}` -/
structure WireSide (c₀ c₁ : Ctx) (opIdx : Nat) (items₀ items₁ : List Item) (x₀ x₁ : List (String × RTy)) : Prop where
  agree : NormAgree c₀ c₁
  idStable : IdStable c₀ c₁
  gen₀ : responseForQuery c₀ opIdx = .ok items₀
  gen₁ : responseForQuery c₁ opIdx = .ok items₁
  shape : x₀.map (fun x => eraseTy x.2) = x₁.map (fun x => eraseTy x.2)
  names : NamesInjective { items := items₀, externs := x₀ } { items := items₁, externs := x₁ }
  enums : EnumIdentsInjective c₀ c₁
  wf : FieldsWF { items := items₀, externs := x₀ }

section Transfer
variable {c₀ c₁ : Ctx} {opIdx : Nat} {items₀ items₁ : List Item} {x₀ x₁ : List (String × RTy)}
  (W : WireSide c₀ c₁ opIdx items₀ items₁ x₀ x₁)
include W

theorem WireSide.wire :
    (∀ j, DRel (VRel (Corr { items := items₀, externs := x₀ } { items := items₁, externs := x₁ })
        { items := items₀, externs := x₀ } { items := items₁, externs := x₁ } (.path "ResponseData"))
      (Serde.de { items := items₀, externs := x₀ } (.path "ResponseData") j)
      (Serde.de { items := items₁, externs := x₁ } (.path "ResponseData") j)) ∧
    (∀ j, DRel Eq (Serde.roundtrip { items := items₀, externs := x₀ } (.path "ResponseData") j)
      (Serde.roundtrip { items := items₁, externs := x₁ } (.path "ResponseData") j)) :=
  let h := normalization_wire_invariant_of_names W.agree W.idStable opIdx W.gen₀ W.gen₁ x₀ x₁ W.shape W.names W.enums W.wf
  ⟨h.2.1, h.2.2.1⟩

/-- **`transfer_okB`**: the two modules accept the same JSON at `ResponseData` -/
theorem transfer_okB (j : Json) :
    okB (Serde.de { items := items₁, externs := x₁ } (.path "ResponseData") j) =
    okB (Serde.de { items := items₀, externs := x₀ } (.path "ResponseData") j) :=
  okB_of_drel (W.wire.1 j)

/-- **`transfer_accepts`** -/
theorem transfer_accepts (j : Json)
    (h : ∃ v, Serde.de { items := items₀, externs := x₀ } (.path "ResponseData") j = .ok v) :
    ∃ v, Serde.de { items := items₁, externs := x₁ } (.path "ResponseData") j = .ok v := by
  rw [← okB_iff] at h ⊢
  rw [transfer_okB W j]; exact h

/-- **`transfer_roundtrip`**: a successful round trip gives the same JSON -/
theorem transfer_roundtrip (j out : Json) :
    Serde.roundtrip { items := items₀, externs := x₀ } (.path "ResponseData") j = .ok out ↔
    Serde.roundtrip { items := items₁, externs := x₁ } (.path "ResponseData") j = .ok out :=
  ok_of_drel_eq (W.wire.2 j) out

/-- **`transfer_lossless`**: whatever the second module read is written back as the first module's round trip -/
theorem transfer_lossless (j out : Json)
    (h : Serde.roundtrip { items := items₀, externs := x₀ } (.path "ResponseData") j = .ok out) (v : Val)
    (hd : Serde.de { items := items₁, externs := x₁ } (.path "ResponseData") j = .ok v) :
    Serde.ser { items := items₁, externs := x₁ } (.path "ResponseData") v = .ok out := by
  have := (transfer_roundtrip W j out).mp h
  unfold Serde.roundtrip at this
  rw [hd] at this
  exact this

end Transfer

/-! ## the hypotheses, for the environments of the end-to-end theorems -/

/-- the side conditions of `normalization_wire_invariant_of_names` for the two generated modules, read in
    `moduleEnv c₀ items₀` (the environment of the end-to-end theorems) and `moduleEnvN c₁ items₁` -/
abbrev RustSide (c₀ c₁ : Ctx) (opIdx : Nat) (items₀ items₁ : List Item) : Prop :=
  WireSide c₀ c₁ opIdx items₀ items₁ (customExterns c₀) (customExternsN c₁)

/-- `RustSide` from its decidable parts (the shape condition on the externs is automatic) -/
theorem RustSide.mk' {c₀ c₁ : Ctx} {opIdx : Nat} {items₀ items₁ : List Item} (H : NormAgree c₀ c₁)
    (hid : IdStable c₀ c₁) (h₀ : responseForQuery c₀ opIdx = .ok items₀) (h₁ : responseForQuery c₁ opIdx = .ok items₁)
    (hn : NamesInjective (moduleEnv c₀ items₀) (moduleEnvN c₁ items₁)) (he : EnumIdentsInjective c₀ c₁)
    (hwf : FieldsWF (moduleEnv c₀ items₀)) : RustSide c₀ c₁ opIdx items₀ items₁ :=
  { agree := H, idStable := hid, gen₀ := h₀, gen₁ := h₁, shape := customExterns_sameShape H.s, names := hn,
    enums := he, wf := hwf }

/-- the form of the task: `c₀ = { c₁ with o.normalization := none }` -/
theorem RustSide.of_noNorm {c₁ : Ctx} {opIdx : Nat} {items₀ items₁ : List Item}
    (hid : IdStable (noNorm c₁) c₁) (h₀ : responseForQuery (noNorm c₁) opIdx = .ok items₀)
    (h₁ : responseForQuery c₁ opIdx = .ok items₁)
    (hn : NamesInjective (moduleEnv (noNorm c₁) items₀) (moduleEnvN c₁ items₁))
    (he : EnumIdentsInjective (noNorm c₁) c₁) (hwf : FieldsWF (moduleEnv (noNorm c₁) items₀)) :
    RustSide (noNorm c₁) c₁ opIdx items₀ items₁ :=
  RustSide.mk' (normAgree_noNorm c₁) hid h₀ h₁ hn he hwf

/-- generation under `c₁` succeeds as soon as it does under `c₀` (so `gen₁` only names the result) -/
theorem gen₁_of_gen₀ {c₀ c₁ : Ctx} (H : NormAgree c₀ c₁) (hid : IdStable c₀ c₁) {opIdx : Nat} {items₀ : List Item}
    (h₀ : responseForQuery c₀ opIdx = .ok items₀) : ∃ items₁, responseForQuery c₁ opIdx = .ok items₁ :=
  let ⟨i, h, _⟩ := normalization_only_renames_ok H hid opIdx items₀ h₀
  ⟨i, h⟩

section Classes
variable {c₀ c₁ : Ctx} {opIdx : Nat} {op : ROperation} {items₀ items₁ : List Item}
  (W : RustSide c₀ c₁ opIdx items₀ items₁)
include W

/-! ## `TreeOp` -/

/-- **`tree_accepts_rust`** -/
theorem tree_accepts_rust (hop : c₀.q.operations[opIdx]? = some op) (ht : TreeOp c₀ op = true)
    (hok : moduleOk c₀ items₀ = true) (j : Json) (hc : conformsOp c₀ op j = true) :
    ∃ v, Serde.de (moduleEnvN c₁ items₁) (.path "ResponseData") j = .ok v :=
  transfer_accepts W j (tree_accepts c₀ opIdx op items₀ hop ht W.gen₀ hok j hc)

/-- **`tree_roundtrip_rust`** -/
theorem tree_roundtrip_rust (hop : c₀.q.operations[opIdx]? = some op) (ht : TreeOp c₀ op = true)
    (hok : moduleOk c₀ items₀ = true) (hro : rustOkSels c₀ op.sels = true)
    (hrn : EnumSpec.nodup (rustNames c₀ op.sels) = true) (j : Json) (hc : conformsOp c₀ op j = true) :
    Serde.roundtrip (moduleEnvN c₁ items₁) (.path "ResponseData") j = .ok (canonSel c₀.s c₀.o.skipNone op.sels j) :=
  (transfer_roundtrip W j _).mp (tree_roundtrip c₀ opIdx op items₀ hop ht W.gen₀ hok hro hrn j hc)

/-- **`tree_lossless_rust`** -/
theorem tree_lossless_rust (hop : c₀.q.operations[opIdx]? = some op) (ht : TreeOp c₀ op = true)
    (hok : moduleOk c₀ items₀ = true) (hro : rustOkSels c₀ op.sels = true)
    (hrn : EnumSpec.nodup (rustNames c₀ op.sels) = true) (j : Json) (hc : conformsOp c₀ op j = true) (v : Val)
    (hd : Serde.de (moduleEnvN c₁ items₁) (.path "ResponseData") j = .ok v) :
    Serde.ser (moduleEnvN c₁ items₁) (.path "ResponseData") v = .ok (canonSel c₀.s c₀.o.skipNone op.sels j) :=
  transfer_lossless W j _ (tree_roundtrip c₀ opIdx op items₀ hop ht W.gen₀ hok hro hrn j hc) v hd

/-- **`tree_precise_iff_rust`** -/
theorem tree_precise_iff_rust (hop : c₀.q.operations[opIdx]? = some op) (ht : TreeOp c₀ op = true)
    (hok : moduleOk c₀ items₀ = true) (j : Json) :
    okB (Serde.de (moduleEnvN c₁ items₁) (.path "ResponseData") j) = conformsSelLoose c₀.s op.sels j :=
  (transfer_okB W j).trans (tree_precise_iff c₀ opIdx op items₀ hop ht W.gen₀ hok j)

/-! ## `VariantOp` -/

/-- **`variant_accepts_rust`** -/
theorem variant_accepts_rust (hop : c₀.q.operations[opIdx]? = some op) (ht : VariantOp c₀ op = true)
    (hok : moduleOk c₀ items₀ = true) (j : Json) (hc : conformsOpV c₀ op j = true) :
    ∃ v, Serde.de (moduleEnvN c₁ items₁) (.path "ResponseData") j = .ok v :=
  transfer_accepts W j (variant_accepts c₀ opIdx op items₀ hop ht W.gen₀ hok j hc)

/-- **`variant_roundtrip_rust`** -/
theorem variant_roundtrip_rust (hop : c₀.q.operations[opIdx]? = some op) (ht : VariantOp c₀ op = true)
    (hok : moduleOk c₀ items₀ = true) (hro : rustOkSelsV c₀ op.sels = true)
    (hrn : EnumSpec.nodup (rustNames c₀ op.sels) = true) (j : Json) (hc : conformsOpV c₀ op j = true) :
    Serde.roundtrip (moduleEnvN c₁ items₁) (.path "ResponseData") j = .ok (canonSelV c₀.s c₀.o.skipNone op.sels j) :=
  (transfer_roundtrip W j _).mp (variant_roundtrip c₀ opIdx op items₀ hop ht W.gen₀ hok hro hrn j hc)

/-- **`variant_lossless_rust`** -/
theorem variant_lossless_rust (hop : c₀.q.operations[opIdx]? = some op) (ht : VariantOp c₀ op = true)
    (hok : moduleOk c₀ items₀ = true) (hro : rustOkSelsV c₀ op.sels = true)
    (hrn : EnumSpec.nodup (rustNames c₀ op.sels) = true) (j : Json) (hc : conformsOpV c₀ op j = true) (v : Val)
    (hd : Serde.de (moduleEnvN c₁ items₁) (.path "ResponseData") j = .ok v) :
    Serde.ser (moduleEnvN c₁ items₁) (.path "ResponseData") v = .ok (canonSelV c₀.s c₀.o.skipNone op.sels j) :=
  transfer_lossless W j _ (variant_roundtrip c₀ opIdx op items₀ hop ht W.gen₀ hok hro hrn j hc) v hd

/-- **`variant_precise_iff_rust`** -/
theorem variant_precise_iff_rust (hop : c₀.q.operations[opIdx]? = some op) (ht : VariantOp c₀ op = true)
    (hok : moduleOk c₀ items₀ = true) (j : Json) :
    okB (Serde.de (moduleEnvN c₁ items₁) (.path "ResponseData") j) = conformsLooseV c₀.s c₀.o false op.sels j :=
  (transfer_okB W j).trans (variant_precise_iff c₀ opIdx op items₀ hop ht W.gen₀ hok j)

/-! ## `FragmentOp` -/

/-- **`fragment_accepts_rust`** -/
theorem fragment_accepts_rust (hop : c₀.q.operations[opIdx]? = some op) (ht : FragmentOp c₀ op = true)
    (hk : fragKeysOk c₀ op = true) (hok : moduleOk c₀ items₀ = true) (j : Json) (hc : conformsOpF c₀ op j = true) :
    ∃ v, Serde.de (moduleEnvN c₁ items₁) (.path "ResponseData") j = .ok v :=
  transfer_accepts W j (fragment_accepts c₀ opIdx op items₀ hop ht hk W.gen₀ hok j hc)

/-- **`fragment_roundtrip_rust`** -/
theorem fragment_roundtrip_rust (hop : c₀.q.operations[opIdx]? = some op) (ht : FragmentOp c₀ op = true)
    (hk : fragKeysOk c₀ op = true) (hr : fragRustOk c₀ op = true) (hok : moduleOk c₀ items₀ = true)
    (j : Json) (hc : conformsOpF c₀ op j = true) :
    Serde.roundtrip (moduleEnvN c₁ items₁) (.path "ResponseData") j =
      .ok (canonSelF c₀.s c₀.q c₀.o.skipNone op.sels j) :=
  (transfer_roundtrip W j _).mp (fragment_roundtrip c₀ opIdx op items₀ hop ht hk hr W.gen₀ hok j hc)

/-- **`fragment_lossless_rust`** -/
theorem fragment_lossless_rust (hop : c₀.q.operations[opIdx]? = some op) (ht : FragmentOp c₀ op = true)
    (hk : fragKeysOk c₀ op = true) (hr : fragRustOk c₀ op = true) (hok : moduleOk c₀ items₀ = true)
    (j : Json) (hc : conformsOpF c₀ op j = true) (v : Val)
    (hd : Serde.de (moduleEnvN c₁ items₁) (.path "ResponseData") j = .ok v) :
    Serde.ser (moduleEnvN c₁ items₁) (.path "ResponseData") v = .ok (canonSelF c₀.s c₀.q c₀.o.skipNone op.sels j) :=
  transfer_lossless W j _ (fragment_roundtrip c₀ opIdx op items₀ hop ht hk hr W.gen₀ hok j hc) v hd

/-- **`fragment_precise_iff_rust`** -/
theorem fragment_precise_iff_rust (hop : c₀.q.operations[opIdx]? = some op) (ht : FragmentOp c₀ op = true)
    (hk : fragKeysOk c₀ op = true) (hok : moduleOk c₀ items₀ = true) (j : Json) :
    okB (Serde.de (moduleEnvN c₁ items₁) (.path "ResponseData") j) = conformsLooseF c₀.s c₀.q c₀.o false op.sels j :=
  (transfer_okB W j).trans (fragment_precise_iff c₀ opIdx op items₀ hop ht hk W.gen₀ hok j)

/-! ## `RecFragmentOp` -/

/-- **`recfragment_accepts_rust`** -/
theorem recfragment_accepts_rust (hop : c₀.q.operations[opIdx]? = some op) (ht : RecFragmentOp c₀ op = true)
    (hk : recKeysOk c₀ op = true) (hok : moduleOk c₀ items₀ = true)
    (j : Json) (k : Nat) (hkj : 2 * jsonSize j ≤ k) (hc : conformsOpR c₀ op k j = true) :
    ∃ v, Serde.de (moduleEnvN c₁ items₁) (.path "ResponseData") j = .ok v :=
  transfer_accepts W j (recfragment_accepts c₀ opIdx op items₀ hop ht hk W.gen₀ hok j k hkj hc)

/-- **`recfragment_roundtrip_rust`** -/
theorem recfragment_roundtrip_rust (hop : c₀.q.operations[opIdx]? = some op) (ht : RecFragmentOp c₀ op = true)
    (hk : recKeysOk c₀ op = true) (hr : recRustOk c₀ op = true) (hok : moduleOk c₀ items₀ = true)
    (j : Json) (k : Nat) (hkj : 2 * jsonSize j ≤ k) (hc : conformsOpR c₀ op k j = true) :
    Serde.roundtrip (moduleEnvN c₁ items₁) (.path "ResponseData") j =
      .ok (canonR c₀.s c₀.q c₀.o.skipNone (jsonSize j) op.sels j) :=
  (transfer_roundtrip W j _).mp (recfragment_roundtrip c₀ opIdx op items₀ hop ht hk hr W.gen₀ hok j k hkj hc)

/-- **`recfragment_lossless_rust`** -/
theorem recfragment_lossless_rust (hop : c₀.q.operations[opIdx]? = some op) (ht : RecFragmentOp c₀ op = true)
    (hk : recKeysOk c₀ op = true) (hr : recRustOk c₀ op = true) (hok : moduleOk c₀ items₀ = true)
    (j : Json) (k : Nat) (hkj : 2 * jsonSize j ≤ k) (hc : conformsOpR c₀ op k j = true) (v : Val)
    (hd : Serde.de (moduleEnvN c₁ items₁) (.path "ResponseData") j = .ok v) :
    Serde.ser (moduleEnvN c₁ items₁) (.path "ResponseData") v =
      .ok (canonR c₀.s c₀.q c₀.o.skipNone (jsonSize j) op.sels j) :=
  transfer_lossless W j _ (recfragment_roundtrip c₀ opIdx op items₀ hop ht hk hr W.gen₀ hok j k hkj hc) v hd

/-- **`recfragment_precise_iff_rust`** -/
theorem recfragment_precise_iff_rust (hop : c₀.q.operations[opIdx]? = some op) (ht : RecFragmentOp c₀ op = true)
    (hk : recKeysOk c₀ op = true) (hok : moduleOk c₀ items₀ = true) (j : Json) :
    okB (Serde.de (moduleEnvN c₁ items₁) (.path "ResponseData") j) =
      conformsLooseR c₀.s c₀.q c₀.o (jsonSize j) false op.sels j :=
  (transfer_okB W j).trans (recfragment_precise_iff c₀ opIdx op items₀ hop ht hk W.gen₀ hok j)

end Classes

/-! ## concrete instances: every hypothesis holds, the two modules differ in names, the theorems apply

In each instance `c₁` has `normalization = rust`, `c₀ = noNorm c₁`, both modules are generated by the model
(`C09N.itemsOf`), and every hypothesis is evaluated (`decide +kernel`). -/

/-! ### `TreeOp`: the good instance of `C09Normalization.lean`

`scalar date_time`, `scalar url`, `enum color_kind { red dark_blue }`, `query Q($f: filter_in) { color at until }`;
under `rust` the module says `ColorKind { Red, DarkBlue }`, `DateTime`, `Url`, `FilterIn`. -/

def okC₁ : Ctx := C09N.exCtx okSchema okTbl .rust
def okOp : ROperation :=
  { name := "Q", kind := .query, objectId := 0, sels := [.field none 0 [], .field none 1 [], .field none 2 []] }

/-- the contexts / environments are those of `C09Normalization.lean` (`okE₀`, `okE₁`) -/
example : noNorm okC₁ = C09N.exCtx okSchema okTbl .none ∧ customExterns (noNorm okC₁) = okX₀ ∧
    customExternsN okC₁ = okX₁ := ⟨rfl, by decide +kernel, by decide +kernel⟩

set_option maxRecDepth 100000 in
theorem ok_side : RustSide (noNorm okC₁) okC₁ 0 okE₀.items okE₁.items :=
  RustSide.of_noNorm (by decide +kernel) (itemsOf_ok (by decide +kernel)) (itemsOf_ok (by decide +kernel))
    (by decide +kernel) (by decide +kernel) (by decide +kernel)

set_option maxRecDepth 100000 in
theorem ok_class : TreeOp (noNorm okC₁) okOp = true ∧ moduleOk (noNorm okC₁) okE₀.items = true ∧
    rustOkSels (noNorm okC₁) okOp.sels = true ∧ EnumSpec.nodup (rustNames (noNorm okC₁) okOp.sels) = true ∧
    (okE₀.items != okE₁.items) = true :=
  ⟨by decide +kernel, by decide +kernel, by decide +kernel, by decide +kernel, by decide +kernel⟩

def okJson : Json := .obj [("until", .null), ("color", .str "dark_blue"), ("at", .str "2020")]
def okCanon : Json := .obj [("color", .str "dark_blue"), ("at", .str "2020"), ("until", .null)]

theorem ok_conforms : conformsOp (noNorm okC₁) okOp okJson = true := by
  simp [conformsOp, rootName, conformsSel, confSels, confSel, noNorm, okC₁, C09N.exCtx, okSchema, C09N.exSchema, okOp,
    okJson, Json.lookup, accepts, acceptsNN, gtyOf, scalarOk, stringOk, Json.isNull, EnumSpec.nodup, respKeys, respKey]

/-- the `rust` module (`ColorKind::DarkBlue`, `DateTime`, …) reads the reply and writes the canonical form back -/
example : Serde.roundtrip (moduleEnvN okC₁ okE₁.items) (.path "ResponseData") okJson = .ok okCanon :=
  tree_roundtrip_rust ok_side (op := okOp) rfl ok_class.1 ok_class.2.1 ok_class.2.2.1 ok_class.2.2.2.1 okJson ok_conforms

set_option maxRecDepth 100000 in
/-- … and rejects a reply with a missing non-null key -/
example : okB (Serde.de (moduleEnvN okC₁ okE₁.items) (.path "ResponseData") (.obj [("at", .str "2020")])) = false := by
  rw [tree_precise_iff_rust ok_side (op := okOp) rfl ok_class.1 ok_class.2.1]; decide +kernel

set_option maxRecDepth 100000 in
/-- **the bridge is needed**: read in `moduleEnv okC₁ …` (externs under the raw scalar names, `super::date_time`) the
    `rust` module rejects the good reply — its alias `DateTime = super::DateTime` dangles there -/
theorem moduleEnv_wrong_for_rust :
    okB (Serde.de (moduleEnv okC₁ okE₁.items) (.path "ResponseData") okJson) = false ∧
    okB (Serde.de (moduleEnvN okC₁ okE₁.items) (.path "ResponseData") okJson) = true :=
  ⟨by decide +kernel, by decide +kernel⟩

/-! ### the other classes: one schema, three operations

`interface Character { name: String! }`,
`type Human implements Character { name born: date_time mood: mood_kind! friend: Human }`,
`type Droid implements Character { name }`, `enum mood_kind { happy very_sad }`, `scalar date_time`,
`type Query { hero: Character, me: Human }`; under `rust`: `MoodKind { Happy, VerySad }`, `DateTime`. -/

def nxSchema : Schema :=
  { objects := [{ name := "Query", fields := [0, 1], implements := [] },
                { name := "Human", fields := [2, 3, 4, 5], implements := [0] },
                { name := "Droid", fields := [2], implements := [0] }]
    fields := [{ name := "hero", ty := { id := .interface 0, quals := [] }, parent := .object 0, deprecation := none },
               { name := "me", ty := { id := .object 1, quals := [] }, parent := .object 0, deprecation := none },
               { name := "name", ty := { id := .scalar 1, quals := [.required] }, parent := .interface 0, deprecation := none },
               { name := "born", ty := { id := .scalar 5, quals := [] }, parent := .object 1, deprecation := none },
               { name := "mood", ty := { id := .enum 0, quals := [.required] }, parent := .object 1, deprecation := none },
               { name := "friend", ty := { id := .object 1, quals := [] }, parent := .object 1, deprecation := none }]
    interfaces := [{ name := "Character", fields := [2] }]
    enums := [{ name := "mood_kind", variants := ["happy", "very_sad"] }]
    scalars := ["ID", "String", "Int", "Float", "Boolean", "date_time"] }

def nxTbl : List (String × String) :=
  [("mood_kind", "MoodKind"), ("happy", "Happy"), ("very_sad", "VerySad"), ("date_time", "DateTime")]

def nxCtx (q : Query) : Ctx :=
  { s := nxSchema, q := q, o := { normalization := .rust }, cs := { snake := id, camel := tblCamel nxTbl } }

/-- what the instances have in common: `RustSide` for the two generated modules, `moduleOk` of the `none` module, and
    the two modules differ -/
def NxOk (q : Query) : Prop :=
  RustSide (noNorm (nxCtx q)) (nxCtx q) 0 (itemsOf (noNorm (nxCtx q))) (itemsOf (nxCtx q)) ∧
  moduleOk (noNorm (nxCtx q)) (itemsOf (noNorm (nxCtx q))) = true ∧
  (itemsOf (noNorm (nxCtx q)) != itemsOf (nxCtx q)) = true

/-! #### `VariantOp`: `query Q { hero { __typename name ... on Human { born mood } } }` -/

def nvOp : ROperation :=
  { name := "Q", kind := .query, objectId := 0,
    sels := [.field none 0 [.typename, .field none 2 [], .inline (.object 1) [.field none 3 [], .field none 4 []]]] }
def nvQuery : Query := { operations := [nvOp] }

set_option maxRecDepth 100000 in
theorem nv_ok : NxOk nvQuery :=
  ⟨RustSide.of_noNorm (by decide +kernel) (itemsOf_ok (by decide +kernel)) (itemsOf_ok (by decide +kernel))
    (by decide +kernel) (by decide +kernel) (by decide +kernel), by decide +kernel, by decide +kernel⟩

set_option maxRecDepth 100000 in
theorem nv_class : VariantOp (noNorm (nxCtx nvQuery)) nvOp = true ∧ rustOkSelsV (noNorm (nxCtx nvQuery)) nvOp.sels = true ∧
    EnumSpec.nodup (rustNames (noNorm (nxCtx nvQuery)) nvOp.sels) = true :=
  ⟨by decide +kernel, by decide +kernel, by decide +kernel⟩

def nvJson : Json :=
  .obj [("hero", .obj [("born", .str "1977"), ("__typename", .str "Human"), ("mood", .str "very_sad"), ("name", .str "Luke")])]
def nvCanon : Json :=
  .obj [("hero", .obj [("name", .str "Luke"), ("__typename", .str "Human"), ("born", .str "1977"), ("mood", .str "very_sad")])]

theorem nv_conforms : conformsOpV (noNorm (nxCtx nvQuery)) nvOp nvJson = true := by
  simp [conformsOpV, conformsV, confSelsV, confSelV, keysSelsV, keysSelV, fragApplies, rtName, noNorm, nxCtx, nxSchema,
    nvOp, nvJson, Json.lookup, accepts, acceptsNN, gtyOf, scalarOk, stringOk, Json.isNull, EnumSpec.nodup,
    List.range, List.range.loop]

theorem nv_canon : canonSelV nxSchema false nvOp.sels nvJson = nvCanon := by
  simp [canonSelV, canonEntriesV, canonFieldV, canonInlV, canon, canonNN, gtyOf, nxSchema, nvOp, nvJson, nvCanon,
    Json.lookup, skipQ, Json.isNull, tagName, objName, rtName]

/-- the `rust` module (`MoodKind::VerySad` behind the `Human` variant of the tagged enum, `DateTime`) reads the reply
    and writes the canonical form back -/
example : Serde.roundtrip (moduleEnvN (nxCtx nvQuery) (itemsOf (nxCtx nvQuery))) (.path "ResponseData") nvJson = .ok nvCanon := by
  rw [← nv_canon]
  exact variant_roundtrip_rust nv_ok.1 (op := nvOp) rfl nv_class.1 nv_ok.2.1 nv_class.2.1 nv_class.2.2 nvJson nv_conforms

/-- … and rejects a wrong kind at the enum position inside the variant -/
example : okB (Serde.de (moduleEnvN (nxCtx nvQuery) (itemsOf (nxCtx nvQuery))) (.path "ResponseData")
    (.obj [("hero", .obj [("__typename", .str "Human"), ("name", .str "x"), ("mood", .int 3)])])) = false := by
  rw [variant_precise_iff_rust nv_ok.1 (op := nvOp) rfl nv_class.1 nv_ok.2.1]
  simp [conformsLooseV, looseSelsV, looseArrV, looseFieldV, loosePayV, tagOkV, noNorm, nxCtx, nxSchema, nvOp,
    Json.lookup, accepts, acceptsNN, gtyOf, scalarOk, floatOk, stringOk, Json.isNull, nullableQ, countKey, isFieldSel,
    fieldKeys, fieldKey, vtsOfTy, Schema.implementors, List.zipIdx, objName, rtName]

/-! #### `FragmentOp`: `fragment B on Human { name born mood }`, `query Q { me { ...B friend { ...B } } }` -/

def nfOp : ROperation :=
  { name := "Q", kind := .query, objectId := 0, sels := [.field none 1 [.spread 0, .field none 5 [.spread 0]]] }
def nfQuery : Query :=
  { operations := [nfOp]
    fragments := [{ name := "B", on := .object 1, sels := [.field none 2 [], .field none 3 [], .field none 4 []] }] }

set_option maxRecDepth 100000 in
theorem nf_ok : NxOk nfQuery :=
  ⟨RustSide.of_noNorm (by decide +kernel) (itemsOf_ok (by decide +kernel)) (itemsOf_ok (by decide +kernel))
    (by decide +kernel) (by decide +kernel) (by decide +kernel), by decide +kernel, by decide +kernel⟩

set_option maxRecDepth 100000 in
theorem nf_class : FragmentOp (noNorm (nxCtx nfQuery)) nfOp = true ∧ fragKeysOk (noNorm (nxCtx nfQuery)) nfOp = true ∧
    fragRustOk (noNorm (nxCtx nfQuery)) nfOp = true :=
  ⟨by decide +kernel, by decide +kernel, by decide +kernel⟩

def nfJson : Json :=
  .obj [("me", .obj [("friend", .obj [("name", .str "Han"), ("born", .str "1942"), ("mood", .str "very_sad")]),
                     ("name", .str "Luke"), ("born", .null), ("mood", .str "happy")])]
def nfCanon : Json :=
  .obj [("me", .obj [("name", .str "Luke"), ("born", .null), ("mood", .str "happy"),
                     ("friend", .obj [("name", .str "Han"), ("born", .str "1942"), ("mood", .str "very_sad")])])]

theorem nf_conforms : conformsOpF (noNorm (nxCtx nfQuery)) nfOp nfJson = true := by
  simp [conformsOpF, expandSels, expandSel, conformsV, confSelsV, confSelV, keysSelsV, keysSelV, fragApplies,
    noNorm, nxCtx, nxSchema, nfOp, nfQuery, nfJson, Json.lookup, accepts, acceptsNN, gtyOf, scalarOk, stringOk,
    Json.isNull, EnumSpec.nodup, List.range, List.range.loop]

theorem nf_canon : canonSelF nxSchema nfQuery false nfOp.sels nfJson = nfCanon := by
  simp [canonSelF, canonEntriesF, canonFieldF, canonSelV, canonEntriesV, canonFieldV, canon, canonNN, gtyOf, fragSels,
    nxSchema, nfOp, nfQuery, nfJson, nfCanon, Json.lookup, skipQ, Json.isNull]

example : Serde.roundtrip (moduleEnvN (nxCtx nfQuery) (itemsOf (nxCtx nfQuery))) (.path "ResponseData") nfJson = .ok nfCanon := by
  rw [← nf_canon]
  exact fragment_roundtrip_rust nf_ok.1 (op := nfOp) rfl nf_class.1 nf_class.2.1 nf_class.2.2 nf_ok.2.1 nfJson nf_conforms

/-- … and rejects a reply in which the aliased fragment struct (`friend { ...B }`) misses its non-null `mood` -/
example : okB (Serde.de (moduleEnvN (nxCtx nfQuery) (itemsOf (nxCtx nfQuery))) (.path "ResponseData")
    (.obj [("me", .obj [("name", .str "x"), ("mood", .str "happy"), ("friend", .obj [("name", .str "y")])])])) = false := by
  rw [fragment_precise_iff_rust nf_ok.1 (op := nfOp) rfl nf_class.1 nf_class.2.1 nf_ok.2.1]
  simp [conformsLooseF, looseOwnF, looseMemF, looseArrF, looseFieldF, conformsLooseV, looseSelsV, looseArrV,
    looseFieldV, fragSels, isSpread, noNorm, nxCtx, nxSchema, nfOp, nfQuery, Json.lookup, accepts, acceptsNN, gtyOf,
    scalarOk, floatOk, stringOk, Json.isNull, nullableQ, countKey]

/-! #### `RecFragmentOp`: `fragment F on Human { name mood born friend { ...F } }`, `query Q { me { ...F } }` -/

def nrOp : ROperation := { name := "Q", kind := .query, objectId := 0, sels := [.field none 1 [.spread 0]] }
def nrQuery : Query :=
  { operations := [nrOp]
    fragments := [{ name := "F", on := .object 1,
                    sels := [.field none 2 [], .field none 4 [], .field none 3 [], .field none 5 [.spread 0]] }] }

set_option maxRecDepth 100000 in
theorem nr_ok : NxOk nrQuery :=
  ⟨RustSide.of_noNorm (by decide +kernel) (itemsOf_ok (by decide +kernel)) (itemsOf_ok (by decide +kernel))
    (by decide +kernel) (by decide +kernel) (by decide +kernel), by decide +kernel, by decide +kernel⟩

set_option maxRecDepth 100000 in
theorem nr_class : RecFragmentOp (noNorm (nxCtx nrQuery)) nrOp = true ∧ recKeysOk (noNorm (nxCtx nrQuery)) nrOp = true ∧
    recRustOk (noNorm (nxCtx nrQuery)) nrOp = true ∧ fragmentIsRecursive nrQuery 0 = true :=
  ⟨by decide +kernel, by decide +kernel, by decide +kernel, by decide +kernel⟩

def nrJson : Json :=
  .obj [("me", .obj [("name", .str "Luke"), ("born", .null), ("mood", .str "happy"),
                     ("friend", .obj [("friend", .null), ("name", .str "Han"), ("born", .str "1942"), ("mood", .str "very_sad")])])]
def nrCanon : Json :=
  .obj [("me", .obj [("name", .str "Luke"), ("mood", .str "happy"), ("born", .null),
                     ("friend", .obj [("name", .str "Han"), ("mood", .str "very_sad"), ("born", .str "1942"), ("friend", .null)])])]

set_option maxRecDepth 8000 in
theorem nr_size : jsonSize nrJson = 10 := by simp [nrJson, jsonSize, kvsSize]

set_option maxRecDepth 8000 in
theorem nr_conforms : conformsOpR (noNorm (nxCtx nrQuery)) nrOp (2 * jsonSize nrJson) nrJson = true := by
  rw [nr_size]
  simp [conformsOpR, expandR, conformsV, confSelsV, confSelV, keysSelsV, keysSelV, fragApplies,
    noNorm, nxCtx, nxSchema, nrOp, nrQuery, nrJson, Json.lookup, accepts, acceptsNN, gtyOf, scalarOk, stringOk,
    Json.isNull, EnumSpec.nodup, List.range, List.range.loop]

set_option maxRecDepth 8000 in
theorem nr_canon : canonR nxSchema nrQuery false (jsonSize nrJson) nrOp.sels nrJson = nrCanon := by
  rw [nr_size]
  simp [canonR, canonBodyP, canonStructP, canonEntriesP, canonEntryP, canonFieldP, canonFieldV, canon,
    canonNN, gtyOf, fragSels, nxSchema, nrOp, nrQuery, nrJson, nrCanon, Json.lookup, skipQ, Json.isNull]

example : Serde.roundtrip (moduleEnvN (nxCtx nrQuery) (itemsOf (nxCtx nrQuery))) (.path "ResponseData") nrJson = .ok nrCanon := by
  rw [← nr_canon]
  exact recfragment_roundtrip_rust nr_ok.1 (op := nrOp) rfl nr_class.1 nr_class.2.1 nr_class.2.2.1 nr_ok.2.1 nrJson _
    (Nat.le_refl _) nr_conforms

set_option maxRecDepth 8000 in
/-- … and rejects a reply that misses the non-null `mood` one level down the recursion -/
example : okB (Serde.de (moduleEnvN (nxCtx nrQuery) (itemsOf (nxCtx nrQuery))) (.path "ResponseData")
    (.obj [("me", .obj [("name", .str "x"), ("mood", .str "happy"), ("friend", .obj [("name", .str "y")])])])) = false := by
  rw [recfragment_precise_iff_rust nr_ok.1 (op := nrOp) rfl nr_class.1 nr_class.2.1 nr_ok.2.1]
  simp [conformsLooseR, looseBodyP, looseStructP, looseOwnP, looseMemP, looseArrP, looseFieldP, looseFieldV,
    fragSels, isSpread, noNorm, nxCtx, nxSchema, nrOp, nrQuery, Json.lookup, accepts, acceptsNN, gtyOf, scalarOk,
    floatOk, stringOk, Json.isNull, nullableQ, countKey, jsonSize, kvsSize]

end E2E
end C01
end GqlVerif
