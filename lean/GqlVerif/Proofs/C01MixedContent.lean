import GqlVerif.Proofs.C01MixedG
import GqlVerif.Proofs.C01VariantSpreadH
/-!
# C01 end to end (`MixedOp`, `MixedOp2`): what `canonSelM` is, relative to the response (`SameContent`)

`mixed_lossless` / `mixed_roundtrip` (`C01MixedD`) state the result of the round trip as `normJson (canonSelM … j)`, a closed
form computed from the response `j` and the selection set.  This file relates that closed form to `j` itself by
`SameContent` (`C01VariantSpreadH`), a relation **defined independently of the generator, of serde and of the selection set**:
every entry of the output is an entry of the input under the same key (recursively `SameContent`), every key of the input is
in the output except `__typename` and — under skip-none — `null` members, an integer may come back as its decimal string, key
order is free, the output has no repeated key.

* `mixed_content` — for an operation of the class `MixedOp` and a conforming response `j`:
  `SameContent c.o.skipNone j (normJson (canonSelM c.s c.q c.o.skipNone op.sels j))` (no side condition: `mixedKeysOk` /
  `mixedRustOk` are not needed for the closed form, only for "the closed form is the round trip");
* `mixed_roundtrip_content` — the round trip through the emitted `ResponseData` returns `out` with
  `SameContent c.o.skipNone j out`: **no selected data is lost, nothing is invented** (hypotheses of `mixed_roundtrip`);
* `mixed2_content` / `mixed2_roundtrip_content` — the same for `MixedOp2` (hypotheses of `mixed2_roundtrip`, specification
  of the operation as written);
* `mixed_content_on_S` / `mixed_content_on_F` — on `VariantSpreadOp` / `FragmentOp` the statement is the one about
  `canonSelD` / `canonSelF` (`canonSelM_eq_D`, `canonSelM_eq_F`): `variantspread_content` is an instance.

Object positions: `sc_bodyM` (own entries `FieldsSCM`, the entries of each spread fragment by `scEntriesV` of part H; a lone
spread by `sc_objV_rt`); fields of scalar / enum / abstract type: `scFieldD` of part H (`canonFieldM_nonobj`).
Instances and the negative witness: `C01MixedContentW`.
-/
set_option linter.unusedSimpArgs false
set_option linter.unusedVariables false
set_option linter.unusedSectionVars false
set_option linter.unnecessarySimpa false

namespace GqlVerif
namespace C01M
open Serde Spec C13 C03 Codegen C01 C01.E2E

/-! ## the entries of an object-level selection set -/

/-- what is proved of every field of an object-level selection set of the class -/
def FieldsSCM (s : Schema) (q : Query) (skip : Bool) (sels : List Sel) (kvs : List (String × Json)) : Prop :=
  ∀ a fid sub, Sel.field a fid sub ∈ sels → ∀ sf, s.fields[fid]? = some sf →
    ∃ v, Json.lookup (a.getD sf.name) kvs = some v ∧
      SameContent skip v (normJson (canonFieldM s q skip (.field a fid sub) v))

theorem FieldsSCM.tail {s : Schema} {q : Query} {skip : Bool} {x : Sel} {xs : List Sel} {kvs : List (String × Json)}
    (h : FieldsSCM s q skip (x :: xs) kvs) : FieldsSCM s q skip xs kvs :=
  fun a fid sub hm => h a fid sub (List.mem_cons_of_mem _ hm)

/-- every entry `canonEntriesM` writes is an entry of the response object: the own entries from `FieldsSCM`, the entries
    written at the position of a spread from the same fact about the fragment's body -/
theorem fromEntriesM {s : Schema} {q : Query} {skip : Bool} {kvs : List (String × Json)} : ∀ (sels : List Sel),
    FieldsSCM s q skip sels kvs →
    (∀ g, Sel.spread g ∈ sels → From skip kvs (canonEntriesV s skip (fragSels q g) kvs)) →
    From skip kvs (canonEntriesM s q skip sels kvs)
  | [], _, _ => by simp [canonEntriesM]; exact From.nil
  | x :: xs, H, HS => by
    have ih := fromEntriesM xs H.tail (fun g hm => HS g (List.mem_cons_of_mem _ hm))
    cases x with
    | field a fid sub =>
      rw [canonEntriesM.eq_2]
      cases hsf : s.fields[fid]? with
      | none => simpa using ih
      | some sf =>
        obtain ⟨v, hl, hs⟩ := H a fid sub (by simp) sf hsf
        simp only [hl]
        split
        · simpa using ih
        · exact From.cons hl hs ih
    | spread g =>
      rw [canonEntriesM.eq_3]
      exact From.append (HS g (by simp)) ih
    | inline t sub => simpa [canonEntriesM] using ih
    | typename => simpa [canonEntriesM] using ih

/-- every selected own field's key is written, unless its value is a skipped `null` -/
theorem covEntriesM {s : Schema} {q : Query} {skip : Bool} {kvs : List (String × Json)} : ∀ (sels : List Sel) (k : String),
    k ∈ fieldKeys s sels → ∀ v, Json.lookup k kvs = some v →
    (skip = true ∧ v = .null) ∨ k ∈ (canonEntriesM s q skip sels kvs).map (·.1)
  | [], k, h, _, _ => by simp [fieldKeys] at h
  | x :: xs, k, h, v, hl => by
    have ih := covEntriesM (s := s) (q := q) (skip := skip) (kvs := kvs) xs k
    cases x with
    | field a fid sub =>
      rw [canonEntriesM.eq_2]
      simp only [fieldKeys, List.filterMap_cons, fieldKey] at h
      cases hsf : s.fields[fid]? with
      | none =>
        simp only [hsf, Option.map_none] at h
        simpa using ih h v hl
      | some sf =>
        simp only [hsf, Option.map_some, List.mem_cons] at h
        rcases h with h | h
        · subst h
          simp only [hl]
          split
          · rename_i hsk
            simp only [Bool.and_eq_true] at hsk
            exact .inl ⟨hsk.1.1, isNull_eq v hsk.2⟩
          · exact .inr (by simp)
        · rcases ih h v hl with h' | h'
          · exact .inl h'
          · exact .inr (by simp only [List.map_append, List.mem_append]; exact .inr h')
    | spread g =>
      rw [canonEntriesM.eq_3]
      rcases ih (by simpa [fieldKeys, List.filterMap_cons, fieldKey] using h) v hl with h' | h'
      · exact .inl h'
      · exact .inr (by simp only [List.map_append, List.mem_append]; exact .inr h')
    | inline t sub => simpa [canonEntriesM, fieldKeys, List.filterMap_cons, fieldKey] using ih (by simpa [fieldKeys, List.filterMap_cons, fieldKey] using h) v hl
    | typename => simpa [canonEntriesM, fieldKeys, List.filterMap_cons, fieldKey] using ih (by simpa [fieldKeys, List.filterMap_cons, fieldKey] using h) v hl

/-- the entries of a spread fragment are among those `canonEntriesM` writes -/
theorem subEntriesM {s : Schema} {q : Query} {skip : Bool} {kvs : List (String × Json)} :
    ∀ {sels : List Sel} {g : Nat}, Sel.spread g ∈ sels →
    ∀ kv ∈ canonEntriesV s skip (fragSels q g) kvs, kv ∈ canonEntriesM s q skip sels kvs
  | [], _, h, _, _ => by simp at h
  | x :: xs, g, hm, kv, hkv => by
    rcases List.mem_cons.mp hm with heq | hm'
    · subst heq
      rw [canonEntriesM.eq_3, List.mem_append]
      exact .inl hkv
    · have ih := subEntriesM (s := s) (q := q) (skip := skip) (kvs := kvs) hm' kv hkv
      cases x with
      | field a fid sub => rw [canonEntriesM.eq_2, List.mem_append]; exact .inr ih
      | spread g' => rw [canonEntriesM.eq_3, List.mem_append]; exact .inr ih
      | inline t sub => simpa [canonEntriesM] using ih
      | typename => simpa [canonEntriesM] using ih

/-! ## an object-level selection set -/

/-- `sc_objV` of part H for a given runtime type (the object of a spread-free selection set of `VariantOp`) -/
theorem sc_objV_rt (s : Schema) (skip : Bool) (sub : List Sel) (hni : ∀ t isub, Sel.inline t isub ∉ sub)
    (IHe : ∀ kvs, ConfAtV s sub kvs → From skip kvs (canonEntriesV s skip sub kvs)) (rt : Nat) (j : Json)
    (hcv : conformsV s rt sub j = true) : SameContent skip j (normJson (canonSelV s skip sub j)) := by
  cases j with
  | obj kvs =>
    simp only [conformsV, Bool.and_eq_true, List.all_eq_true] at hcv
    rw [canonSelV]
    apply sc_obj (IHe kvs (confAtV_of_conf hcv.2))
    intro k v hl
    have hk : k ∈ keysSelsV s rt sub := by simpa using hcv.1.2 (k, v) (jlookup_mem hl)
    rcases mem_keysSelsV_obj hni hk with h | h
    · exact .inl h
    · rcases covEntriesV (skip := skip) sub k h v hl with h' | h'
      · exact .inr (.inl h')
      · exact .inr (.inr h')
  | null => simp [conformsV] at hcv
  | bool _ => simp [conformsV] at hcv
  | int _ => simp [conformsV] at hcv
  | num _ => simp [conformsV] at hcv
  | str _ => simp [conformsV] at hcv
  | arr _ => simp [conformsV] at hcv

/-- a response object of a lone spread of a fragment on the object type `i` is one of the fragment's body -/
theorem conformsV_lone (s : Schema) (q : Query) (i g : Nat) (fr : RFragment) (hfr : q.fragments[g]? = some fr)
    (hon : fr.on = .object i) (j : Json) (hc : conformsV s i (expandSels q [Sel.spread g]) j = true) :
    conformsV s i fr.sels j = true := by
  cases j with
  | obj kvs =>
    simp only [expandSels, expandSel, hfr, conformsV, keysSelsV, keysSelV, hon, fragApplies, beq_self_eq_true,
      ↓reduceIte, List.append_nil, confSelsV, confSelV, Bool.not_true, Bool.false_or, Bool.and_true] at hc ⊢
    exact hc
  | null => simp [conformsV] at hc
  | bool _ => simp [conformsV] at hc
  | int _ => simp [conformsV] at hc
  | num _ => simp [conformsV] at hc
  | str _ => simp [conformsV] at hc
  | arr _ => simp [conformsV] at hc

section ContentM
variable (s : Schema) (q : Query) (o : Options) (skip : Bool)

/-- a spread in an object-level selection set of the class, on a conforming response object: the fragment, and its body
    conforms -/
theorem spread_partsM (i : Nat) (sels : List Sel) (ht : mSels s q o (.object i) sels = true)
    (kvs : List (String × Json)) (hconf : confSelsV s i (expandSels q sels) kvs = true) (g : Nat)
    (hm : Sel.spread g ∈ sels) :
    ∃ fr, q.fragments[g]? = some fr ∧ fr.on = .object i ∧ fragSels q g = fr.sels ∧ vSels s o false fr.sels = true ∧
      confSelsV s i fr.sels kvs = true := by
  have hx := mSels_mem ht _ hm
  have hokg : fragOk s q o (.object i) g = true := by simpa [mSel] using hx
  obtain ⟨fr, hfr, hon, _, hv, _⟩ := fragOk_parts hokg
  refine ⟨fr, hfr, hon, by simp [fragSels, hfr], hv, ?_⟩
  have := confSelsV_mem hconf _ (expandSels_mem q hm)
  simpa [expandSel, hfr, confSelV, hon, fragApplies] using this

/-- **the canonical form at an object position of `MixedOp` has the content of the response object**, given that of its own
    fields -/
theorem sc_bodyM (sels : List Sel)
    (IHe : ∀ p kvs, mSels s q o p sels = true → ConfAtS s q sels kvs → FieldsSCM s q skip sels kvs)
    (i : Nat) (j : Json) (ht : mBody s q o (.object i) sels = true)
    (hc : conformsV s i (expandSels q sels) j = true) :
    SameContent skip j (normJson (canonSelM s q skip sels j)) := by
  by_cases hsp : ∃ g, sels = [Sel.spread g]
  · -- a lone spread: the type alias of the fragment struct
    obtain ⟨g, rfl⟩ := hsp
    have hok : fragOk s q o (.object i) g = true := ht
    obtain ⟨fr, hfr, hon, _, hv, _⟩ := fragOk_parts hok
    have hsels : fragSels q g = fr.sels := by simp [fragSels, hfr]
    have hcm : canonSelM s q skip [Sel.spread g] j = canonSelV s skip fr.sels j := by
      rw [← hsels]; rfl
    rw [hcm]
    exact sc_objV_rt s skip fr.sels (no_inline_of_vSels hv) (fun kvs h => scEntriesV s o skip fr.sels false kvs hv h) i j
      (conformsV_lone s q i g fr hfr hon j hc)
  · have hnl : ∀ g, sels ≠ [Sel.spread g] := fun g hg => hsp ⟨g, hg⟩
    rw [mBody_not_lone hnl] at ht
    rw [canonSelM_not_lone hnl]
    cases j with
    | obj kvs =>
      simp only [conformsV, Bool.and_eq_true, List.all_eq_true] at hc
      obtain ⟨⟨_, hkeys⟩, hconf⟩ := hc
      apply sc_obj
      · -- every written entry is an entry of the response
        refine fromEntriesM sels (IHe _ kvs ht (confAtS_of_conf hconf)) ?_
        intro g hm
        obtain ⟨fr, _, _, hsels, hv, hcg⟩ := spread_partsM s q o i sels ht kvs hconf g hm
        rw [hsels]
        exact scEntriesV s o skip fr.sels false kvs hv (confAtV_of_conf hcg)
      · -- every entry of the response is written
        intro k v hl
        have hk : k ∈ keysSelsV s i (expandSels q sels) := by simpa using hkeys (k, v) (jlookup_mem hl)
        rcases mem_keysSelsV hk with h | h | ⟨t', isub', hmi, happi, hki⟩
        · exact .inl h
        · rw [fieldKeys_expandSels] at h
          rcases covEntriesM (q := q) (skip := skip) sels k h v hl with h' | h'
          · exact .inr (.inl h')
          · exact .inr (.inr h')
        · obtain ⟨x, hx, he⟩ := mem_expandSels q hmi
          cases x with
          | field a fid sub' => rw [expandSel] at he; cases he
          | typename => rw [expandSel] at he; cases he
          | inline t isub => have := mSels_mem ht _ hx; simp [mSel] at this
          | spread g =>
            obtain ⟨fr, hfr, _, hsels, hv, _⟩ := spread_partsM s q o i sels ht kvs hconf g hx
            rw [expandSel] at he
            simp only [hfr, Sel.inline.injEq] at he
            obtain ⟨rfl, rfl⟩ := he
            rcases mem_keysSelsV_obj (no_inline_of_vSels hv) hki with h | h
            · exact .inl h
            · rcases covEntriesV (skip := skip) fr.sels k h v hl with h' | h'
              · exact .inr (.inl h')
              · refine .inr (.inr ?_)
                obtain ⟨kv, hkv, hkk⟩ := List.mem_map.mp h'
                have := subEntriesM (s := s) (q := q) (skip := skip) (kvs := kvs) hx kv (by rw [hsels]; exact hkv)
                exact List.mem_map.mpr ⟨kv, this, hkk⟩
    | null => simp [conformsV] at hc
    | bool _ => simp [conformsV] at hc
    | int _ => simp [conformsV] at hc
    | num _ => simp [conformsV] at hc
    | str _ => simp [conformsV] at hc
    | arr _ => simp [conformsV] at hc

mutual
  /-- the value of a field of the class: an object-typed field by `sc_bodyM` on its sub-selection, every other field is a
      field of `VariantSpreadOp` (`scFieldD` of part H) -/
  theorem scFieldM : ∀ (x : Sel) (p : TypeId) (v : Json), mSel s q o p x = true →
      strictFieldV s (expandSel q x) v = true → SameContent skip v (normJson (canonFieldM s q skip x v))
    | .field a fid sub, p, v => by
      intro ht hst
      have IHe := scFieldsM sub
      obtain ⟨sf, hsf⟩ := mSel_field_some ht
      by_cases hobj : ∃ i, sf.ty.id = .object i
      · obtain ⟨i, hid⟩ := hobj
        obtain ⟨_, _, _, hbody⟩ := mSel_obj hsf hid ht
        simp only [expandSel, strictFieldV] at hst
        rw [canonFieldM]
        simp only [hsf, hid] at hst ⊢
        rw [canonLambdaM]
        refine (sc_canon (conformsAt s (.object i) (expandSels q sub)) (canonSelM s q skip sub) ?_ _).2 v hst
        intro j hj
        simp only [conformsAt, List.any_eq_true, List.mem_range, Bool.and_eq_true, fragApplies, beq_iff_eq] at hj
        obtain ⟨rt, _, hrt, hc⟩ := hj
        subst hrt
        exact sc_bodyM s q o skip sub (fun p' kvs h1 h2 => IHe p' kvs h1 h2) i j hbody hc
      · have hno : ∀ i, sf.ty.id ≠ .object i := fun i h => hobj ⟨i, h⟩
        rw [canonFieldM_nonobj hsf hno]
        exact scFieldD s q o skip (.field a fid sub) false v (mSel_nonobj hsf hno ht) hst
    | .spread g, _, _ => by
      intro _ h
      rw [expandSel] at h
      cases hf : q.fragments[g]? with
      | none => simp [hf, strictFieldV] at h
      | some f => simp [hf, strictFieldV] at h
    | .inline _ _, _, _ => by intro ht; simp [mSel] at ht
    | .typename, _, _ => by intro _ h; simp [expandSel, strictFieldV] at h
  theorem scFieldsM : ∀ (sels : List Sel) (p : TypeId) (kvs : List (String × Json)),
      mSels s q o p sels = true → ConfAtS s q sels kvs → FieldsSCM s q skip sels kvs
    | [], _, _, _, _ => by intro a fid sub hm; simp at hm
    | x :: xs, p, kvs, ht, hc => by
      obtain ⟨hx, hxs⟩ := mSels_cons ht
      have ih := scFieldsM xs p kvs hxs (fun a fid sub hm => hc a fid sub (List.mem_cons_of_mem _ hm))
      intro a fid sub hm sf hsf
      rcases List.mem_cons.mp hm with heq | hm'
      · cases x with
        | field a' fid' sub' =>
          cases heq
          obtain ⟨v, hl, hst⟩ := hc a fid sub (by simp) sf hsf
          exact ⟨v, hl, scFieldM (.field a fid sub) p v hx hst⟩
        | inline t sub' => cases heq
        | spread g => cases heq
        | typename => cases heq
      · exact ih a fid sub hm' sf hsf
end

/-- the content theorem for an object-level selection set of the class (any `skip`) -/
theorem bodyM_content (sels : List Sel) (i : Nat) (j : Json) (ht : mBody s q o (.object i) sels = true)
    (hc : conformsV s i (expandSels q sels) j = true) :
    SameContent skip j (normJson (canonSelM s q skip sels j)) :=
  sc_bodyM s q o skip sels (fun p kvs h1 h2 => scFieldsM s q o skip sels p kvs h1 h2) i j ht hc

end ContentM

/-! ## the theorems -/

/-- **`mixed_content`.**  For an operation of the class `MixedOp` and a response `j` that conforms to it, the closed form
    `normJson (canonSelM … j)` of `mixed_lossless` / `mixed_roundtrip` has the content of `j` (`SameContent`: up to key order,
    integer `ID` → string, `__typename` dropped, `null` dropped under skip-none).  No side condition is needed here. -/
theorem mixed_content (c : Ctx) (op : ROperation) (ht : MixedOp c op = true) (j : Json)
    (hc : conformsOpM c op j = true) :
    SameContent c.o.skipNone j (normJson (canonSelM c.s c.q c.o.skipNone op.sels j)) :=
  bodyM_content c.s c.q c.o c.o.skipNone op.sels op.objectId j (mixedOp_parts ht).2.2 hc

/-- **`mixed_roundtrip_content`.**  The round trip of a conforming response through the emitted `ResponseData` returns a
    response with the same content: no selected data is lost, nothing is invented (hypotheses: those of
    `mixed_roundtrip`). -/
theorem mixed_roundtrip_content (c : Ctx) (opIdx : Nat) (op : ROperation) (items : List Item)
    (hop : c.q.operations[opIdx]? = some op) (ht : MixedOp c op = true) (hk : mixedKeysOk c op = true)
    (hr : mixedRustOk c op = true)
    (hgen : responseForQuery c opIdx = .ok items) (hok : moduleOk c items = true)
    (j : Json) (hc : conformsOpM c op j = true) :
    ∃ out, Serde.roundtrip (moduleEnv c items) (.path "ResponseData") j = .ok out ∧ SameContent c.o.skipNone j out :=
  ⟨_, mixed_roundtrip c opIdx op items hop ht hk hr hgen hok j hc, mixed_content c op ht j hc⟩

/-- **`mixed2_content`.**  The same for `MixedOp2` (aliased inline fragments `... on T { ...F }` at abstract positions): the
    closed form of `mixed2_roundtrip` (on the normalized selection set) has the content of every response that conforms to
    the operation **as written**. -/
theorem mixed2_content (c : Ctx) (op : ROperation) (ht : MixedOp2 c op = true) (j : Json)
    (hc : conformsOpM c op j = true) :
    SameContent c.o.skipNone j (normJson (canonSelM c.s c.q c.o.skipNone (normSels op.sels) j)) := by
  obtain ⟨hwf, _, _, _, ht'⟩ := mixedOp2_parts ht
  have hc' : conformsOpM c (normOp op) j = true := by rw [conformsOpM_norm hwf]; exact hc
  exact mixed_content c (normOp op) ht' j hc'

/-- **`mixed2_roundtrip_content`** (hypotheses: those of `mixed2_roundtrip`) -/
theorem mixed2_roundtrip_content (c : Ctx) (opIdx : Nat) (op : ROperation) (items : List Item)
    (hop : c.q.operations[opIdx]? = some op) (ht : MixedOp2 c op = true) (hk : mixedKeysOk c (normOp op) = true)
    (hr : mixedRustOk c (normOp op) = true)
    (hgen : responseForQuery c opIdx = .ok items) (hok : moduleOk c items = true)
    (j : Json) (hc : conformsOpM c op j = true) :
    ∃ out, Serde.roundtrip (moduleEnv c items) (.path "ResponseData") j = .ok out ∧ SameContent c.o.skipNone j out :=
  ⟨_, mixed2_roundtrip c opIdx op items hop ht hk hr hgen hok j hc, mixed2_content c op ht j hc⟩

/-! ## the two older classes -/

/-- on `VariantSpreadOp` the statement is `variantspread_content` (`canonSelM_eq_D`) -/
theorem mixed_content_on_S (c : Ctx) (op : ROperation) (ht : VariantSpreadOp c op = true) (j : Json)
    (hc : conformsOpS c op j = true) :
    SameContent c.o.skipNone j (normJson (canonSelD c.s c.q c.o.skipNone op.sels j)) := by
  rw [← canonSelM_eq_D c op ht]
  exact mixed_content c op (mixedOp_of_variantSpreadOp c op ht) j hc

/-- on `FragmentOp` the statement is about `canonSelF` (`canonSelM_eq_F`): the content theorem for `fragment_roundtrip` -/
theorem mixed_content_on_F (c : Ctx) (op : ROperation) (ht : FragmentOp c op = true) (j : Json)
    (hc : conformsOpF c op j = true) :
    SameContent c.o.skipNone j (normJson (canonSelF c.s c.q c.o.skipNone op.sels j)) := by
  rw [← canonSelM_eq_F c op ht]
  exact mixed_content c op (mixedOp_of_fragmentOp c op ht) j hc

/-- … hence for the round trip of `FragmentOp` (hypotheses of `fragment_roundtrip`) -/
theorem fragment_roundtrip_content (c : Ctx) (opIdx : Nat) (op : ROperation) (items : List Item)
    (hop : c.q.operations[opIdx]? = some op) (ht : FragmentOp c op = true) (hk : fragKeysOk c op = true)
    (hr : fragRustOk c op = true)
    (hgen : responseForQuery c opIdx = .ok items) (hok : moduleOk c items = true)
    (j : Json) (hc : conformsOpF c op j = true) :
    ∃ out, Serde.roundtrip (moduleEnv c items) (.path "ResponseData") j = .ok out ∧ SameContent c.o.skipNone j out :=
  mixed_roundtrip_content c opIdx op items hop (mixedOp_of_fragmentOp c op ht) (mixedKeysOk_of_fragKeysOk c op hk)
    (mixedRustOk_of_fragRustOk c op ht hr) hgen hok j hc

end C01M
end GqlVerif
