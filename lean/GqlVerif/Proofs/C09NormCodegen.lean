import GqlVerif.Proofs.C09Options
/-!
# C09 — codegen half of the `normalization` wire theorem

`normalization` only changes *names*: with every type name (item names, `RTy.path` leaves), every Rust identifier
of a string-enum variant, the derive lists, the serde path and the `pub` flag of aliases erased (`eraseItem`),
two contexts that agree on the schema, the query, the case functions and on `deprecation`, `otherVariant`,
`skipNone`, `externEnums` — but not necessarily on `normalization` (nor on the derive / placement options of
`C09Options`) — generate the same list of items, in the same order, or fail with the same error
(`normalization_only_renames`).  The one side condition, `IdStable`: no enum / scalar name is turned into, or
away from, the special name `ID` (the generator tests the *normalized* name against `"ID"` to decide whether a
field gets the `deserialize_with` ID helpers).
-/
namespace GqlVerif
namespace C09N
open Serde Codegen C09

/-! ## erasing names -/

def eraseTy : RTy → RTy
  | .path _ => .path ""
  | .opt t => .opt (eraseTy t)
  | .vec t => .vec (eraseTy t)
  | .box t => .box (eraseTy t)

/-- the named type at the bottom of a type expression -/
def tyLeaf : RTy → String
  | .path p => p
  | .opt t => tyLeaf t
  | .vec t => tyLeaf t
  | .box t => tyLeaf t

def eraseField (f : RField) : RField := { f with ty := eraseTy f.ty, deprecated := none }

def eraseVariant (v : RVariant) : RVariant := { v with payload := v.payload.map eraseTy }

/-- erase item names, the leaves of all types, the Rust identifiers of string-enum variants, derives, serde
    path, alias visibility.  Field / variant names, wire names, serde attributes, tags and the wire strings of
    the enum tables are kept. -/
def eraseItem : Item → Item
  | .struct _ _ _ fs => .struct "" [] none (fs.map eraseField)
  | .unitStruct _ _ _ => .unitStruct "" [] none
  | .tagged _ _ _ tag vs => .tagged "" [] none tag (vs.map eraseVariant)
  | .alias _ _ t => .alias "" false (eraseTy t)
  | .gqlEnum _ _ _ _ ser de => .gqlEnum "" [] "" [] (ser.map fun x => ("", x.2)) (de.map fun x => (x.1, ""))
  | .oneOf _ _ _ vs => .oneOf "" [] none (vs.map eraseVariant)
  | .defaults _ => .defaults []

/-! ## `decorate_type` -/

theorem decorateStep_erase {st st' : RTy × Bool} (h : eraseTy st.1 = eraseTy st'.1 ∧ st.2 = st'.2) (q : Qual) :
    ORel (fun a b : RTy × Bool => eraseTy a.1 = eraseTy b.1 ∧ a.2 = b.2) (decorateStep st q) (decorateStep st' q) := by
  obtain ⟨t, nn⟩ := st
  obtain ⟨t', nn'⟩ := st'
  obtain ⟨h1, h2⟩ := h
  simp only at h1 h2
  subst h2
  cases nn <;> cases q <;> simp only [decorateStep] <;>
    first | exact rfl | exact ORel.pure ⟨h1, rfl⟩ | exact ORel.pure ⟨by simp only [eraseTy, h1], rfl⟩

theorem foldlM_decorate_erase : ∀ (qs : List Qual) {st st' : RTy × Bool},
    (eraseTy st.1 = eraseTy st'.1 ∧ st.2 = st'.2) →
    ORel (fun a b : RTy × Bool => eraseTy a.1 = eraseTy b.1 ∧ a.2 = b.2) (qs.foldlM decorateStep st) (qs.foldlM decorateStep st')
  | [], _, _, h => by simp only [List.foldlM_nil]; exact ORel.pure h
  | q :: qs, _, _, h => by
    simp only [List.foldlM_cons]
    exact ORel.bind (decorateStep_erase h q) (fun a b hab => foldlM_decorate_erase qs hab)

theorem decorateType_erase {b b' : RTy} (h : eraseTy b = eraseTy b') (quals : List Qual) :
    ORel (fun t t' => eraseTy t = eraseTy t') (decorateType b quals) (decorateType b' quals) := by
  unfold decorateType
  apply ORel.bind (foldlM_decorate_erase quals.reverse (st := (b, false)) (st' := (b', false)) ⟨h, rfl⟩)
  intro a a' ha
  obtain ⟨t, nn⟩ := a
  obtain ⟨t', nn'⟩ := a'
  obtain ⟨h1, h2⟩ := ha
  simp only at h1 h2
  subst h2
  apply ORel.pure
  cases nn <;> simp [eraseTy, h1]

/-! ## fields and expanded types -/

/-- everything the `calc*` block reads, except `normalization` -/
structure CalcNorm (c c' : Ctx) : Prop where
  s : c'.s = c.s
  q : c'.q = c.q
  cs : c'.cs = c.cs
  otherVariant : c'.o.otherVariant = c.o.otherVariant
  skipNone : c'.o.skipNone = c.o.skipNone
  deprecation : c'.o.deprecation = c.o.deprecation

/-- the two normalizations agree on which enum / scalar names are (turned into) the special name `ID` -/
def IdStable (c c' : Ctx) : Prop :=
  ∀ n ∈ c.s.enums.map (·.name) ++ c.s.scalars,
    (c'.o.normalization.fieldType c'.cs n == "ID") = (c.o.normalization.fieldType c.cs n == "ID")

instance (c c' : Ctx) : Decidable (IdStable c c') := by unfold IdStable; infer_instance

theorem renderField_erase {c c' : Ctx} (h1 : c'.o.skipNone = c.o.skipNone) (h2 : c'.o.deprecation = c.o.deprecation)
    (g : Option String) (r ft ft' : String) (hid : (ft' == "ID") = (ft == "ID")) (quals : List Qual) (fl bx : Bool)
    (dep : Option (Option String)) :
    ORel (fun a b : Option RField => a.map eraseField = b.map eraseField)
      (renderField c g r ft quals fl bx dep) (renderField c' g r ft' quals fl bx dep) := by
  unfold renderField
  rw [h1, h2, hid]
  apply ORel.bind (decorateType_erase (b := .path ft) (b' := .path ft') rfl quals); intro t t' ht
  simp only
  split
  · exact ORel.pure rfl
  · apply ORel.pure
    simp only [Option.map_some, eraseField, Option.some.injEq, RField.mk.injEq, and_true, true_and]
    cases bx <;> simp [eraseTy, ht]

theorem renderType_erase (c c' : Ctx) (n : String) {fs fs' : List RField} (h : fs.map eraseField = fs'.map eraseField)
    (vs : List RVariant) : (renderType c n fs vs).map eraseItem = (renderType c' n fs' vs).map eraseItem := by
  have he : fs'.isEmpty = fs.isEmpty := by
    have := congrArg List.length h
    simp only [List.length_map] at this
    cases fs <;> cases fs' <;> simp_all
  unfold renderType
  rw [he]
  split
  · rfl
  · split
    · simp only [List.map_cons, List.map_nil, eraseItem, h]
    · simp only [List.map_cons, List.map_nil, eraseItem, List.map_append, h]

/-! ## the `calc*` block -/

theorem ORel.bind_same' {α β} {S : β → β → Prop} {x : Outcome α} {f g : α → Outcome β}
    (hfg : ∀ a, x = .ok a → ORel S (f a) (g a)) : ORel S (x >>= f) (x >>= g) := by
  cases x
  · exact rfl
  · exact hfg _ rfl

abbrev EI (a b : List Item) : Prop := a.map eraseItem = b.map eraseItem
abbrev EF (a b : List RField) : Prop := a.map eraseField = b.map eraseField
abbrev EPv (a b : List RVariant × List Item) : Prop := a.1 = b.1 ∧ EI a.2 b.2
abbrev ET (a b : List RField × List Item × List Item) : Prop := EF a.1 b.1 ∧ EI a.2.1 b.2.1 ∧ EI a.2.2 b.2.2
abbrev EPf (a b : List RField × List Item) : Prop := EF a.1 b.1 ∧ EI a.2 b.2

theorem getEnum_mem {s : Schema} {i : Nat} {en : StoredEnum} (h : s.getEnum i = .ok en) : en.name ∈ s.enums.map (·.name) := by
  unfold Schema.getEnum at h
  split at h
  · rename_i o ho
    cases h
    exact List.mem_map.mpr ⟨_, List.mem_of_getElem? ho, rfl⟩
  · cases h

theorem getScalar_mem {s : Schema} {i : Nat} {sn : String} (h : s.getScalar i = .ok sn) : sn ∈ s.scalars := by
  unfold Schema.getScalar at h
  split at h
  · rename_i o ho
    cases h
    exact List.mem_of_getElem? ho
  · cases h

theorem optToList_erase {a b : Option RField} (h : a.map eraseField = b.map eraseField) :
    a.toList.map eraseField = b.toList.map eraseField := by
  cases a <;> cases b <;> simp_all

theorem calc_erase {c c' : Ctx} (H : CalcNorm c c') (hid : IdStable c c') : ∀ fuel,
    (∀ name pfx t sels, ORel EI (calcSelection c fuel name pfx t sels) (calcSelection c' fuel name pfx t sels)) ∧
    (∀ name pfx vsels vts, ORel EPv (calcVariants c fuel name pfx vsels vts) (calcVariants c' fuel name pfx vsels vts)) ∧
    (∀ sname pfx vt vsels, ORel ET (calcVariantSels c fuel sname pfx vt vsels) (calcVariantSels c' fuel sname pfx vt vsels)) ∧
    (∀ pfx t sels, ORel EPf (calcFields c fuel pfx t sels) (calcFields c' fuel pfx t sels)) := by
  have hrf := renderField_congr H.skipNone H.deprecation
  intro fuel
  induction fuel with
  | zero =>
    refine ⟨?_, ?_, ?_, ?_⟩
    · intros; unfold calcSelection; exact rfl
    · intros; unfold calcVariants; exact rfl
    · intros; unfold calcVariantSels; exact rfl
    · intros; unfold calcFields; exact rfl
  | succ n ih =>
    obtain ⟨ihS, ihV, ihVS, ihF⟩ := ih
    refine ⟨?_, ?_, ?_, ?_⟩
    · intro name pfx t sels
      unfold calcSelection
      simp only [H.s, H.q, H.otherVariant]
      split
      · exact ORel.refl (R := EI) (fun _ => rfl) _
      · apply ORel.bind_same; intro variants
        cases variants with
        | none =>
          simp only [pure_bind]
          apply ORel.bind (ihF pfx t sels); intro a b hab
          apply ORel.pure
          simp only [EI, List.map_append, renderType_erase c c' name hab.1, hab.2]
        | some vts =>
          simp only [pure_bind]
          apply ORel.bind_same; intro vsels
          apply ORel.bind (ihV name pfx vsels vts); intro r r' hr
          apply ORel.bind (ihF pfx t sels); intro a b hab
          apply ORel.pure
          simp only [EI, List.map_append, renderType_erase c c' name hab.1, hab.2, hr.1, hr.2]
    · intro name pfx vsels vts
      cases vts with
      | nil => unfold calcVariants; exact ORel.pure ⟨rfl, rfl⟩
      | cons vt rest =>
        unfold calcVariants
        simp only [H.s, H.q]
        apply ORel.bind_same; intro vname
        have hrest : ∀ (v : RVariant) (i i' : List Item), i.map eraseItem = i'.map eraseItem →
            ORel EPv
              (do let __x ← (Pure.pure (v, i) : Outcome _)
                  let __x_1 ← calcVariants c n name pfx vsels rest
                  Pure.pure (__x.fst :: __x_1.fst, __x.snd ++ __x_1.snd))
              (do let __x ← (Pure.pure (v, i') : Outcome _)
                  let __x_1 ← calcVariants c' n name pfx vsels rest
                  Pure.pure (__x.fst :: __x_1.fst, __x.snd ++ __x_1.snd)) := by
          intro v i i' hi
          simp only [pure_bind]
          apply ORel.bind (ihV name pfx vsels rest); intro a b hab
          exact ORel.pure ⟨by rw [hab.1], by simp only [EI, List.map_append, hab.2, hi]⟩
        generalize List.filter (fun v => v.typeId == vt) vsels = mine
        split
        · exact hrest _ _ _ rfl
        · split
          · exact hrest _ _ _ rfl
          · apply ORel.bind (ihVS _ pfx vt _); intro r r' hr
            obtain ⟨r1, r2, r3⟩ := r
            obtain ⟨r1', r2', r3'⟩ := r'
            obtain ⟨h1, h2, h3⟩ := hr
            simp only at h1 h2 h3
            cases r3 with
            | nil =>
              cases r3' with
              | nil => exact hrest _ _ _ (by simp only [List.map_append, renderType_erase c c' _ h1, h2])
              | cons y ys => simp [EI] at h3
            | cons x xs =>
              cases r3' with
              | nil => simp [EI] at h3
              | cons y ys =>
                simp only [EI, List.map_cons, List.cons.injEq] at h3
                exact hrest _ _ _ (by simp only [List.map_cons, h3.1, h2])
    · intro sname pfx vt vsels
      cases vsels with
      | nil => unfold calcVariantSels; exact ORel.pure ⟨rfl, rfl, rfl⟩
      | cons v rest =>
        cases v with
        | inline t sub =>
          unfold calcVariantSels
          simp only [H.s, H.q, H.cs]
          apply ORel.bind_same; intro tn
          split
          · apply ORel.bind_same; intro fr
            simp only [pure_bind]
            apply ORel.bind (ihVS sname pfx vt rest); intro a b hab
            exact ORel.pure ⟨by simp only [EF, List.map_append, hab.1], by simp only [EI, List.map_append, hab.2.1],
              by simp only [EI, List.map_append, hab.2.2]⟩
          · apply ORel.bind (ihF _ vt sub); intro x y hxy
            simp only [pure_bind]
            apply ORel.bind (ihVS sname pfx vt rest); intro a b hab
            exact ORel.pure ⟨by simp only [EF, List.map_append, hab.1, hxy.1],
              by simp only [EI, List.map_append, hab.2.1, hxy.2], by simp only [EI, List.map_append, hab.2.2]⟩
        | spread fid fr =>
          unfold calcVariantSels
          simp only [H.q, H.cs, hrf]
          apply ORel.bind_same; intro fld
          apply ORel.bind (ihVS sname pfx vt rest); intro a b hab
          exact ORel.pure ⟨by simp only [EF, List.map_append, hab.1], hab.2.1, hab.2.2⟩
    · intro pfx t sels
      cases sels with
      | nil => unfold calcFields; exact ORel.pure ⟨rfl, rfl⟩
      | cons sel rest =>
        have hcons : ∀ (fl fl' : Option RField) (i i' : List Item), fl.map eraseField = fl'.map eraseField →
            i.map eraseItem = i'.map eraseItem →
            ORel EPf
              (do let __x ← (Pure.pure (fl, i) : Outcome _)
                  let __x_1 ← calcFields c n pfx t rest
                  Pure.pure (__x.fst.toList ++ __x_1.fst, __x.snd ++ __x_1.snd))
              (do let __x ← (Pure.pure (fl', i') : Outcome _)
                  let __x_1 ← calcFields c' n pfx t rest
                  Pure.pure (__x.fst.toList ++ __x_1.fst, __x.snd ++ __x_1.snd)) := by
          intro fl fl' i i' hfl hi
          simp only [pure_bind]
          apply ORel.bind (ihF pfx t rest); intro a b hab
          exact ORel.pure ⟨by simp only [EF, List.map_append, hab.1, optToList_erase hfl],
            by simp only [EI, List.map_append, hab.2, hi]⟩
        cases sel with
        | field al fid sub =>
          unfold calcFields
          simp only [H.s, H.cs]
          apply ORel.bind_same; intro sf
          split
          · apply ORel.bind_same'; intro en hen
            have := hid en.name (List.mem_append_left _ (getEnum_mem hen))
            rw [H.cs] at this
            apply ORel.bind (renderField_erase H.skipNone H.deprecation _ _ _ _ this _ _ _ _); intro fl fl' hfl
            exact hcons _ _ _ _ hfl rfl
          · apply ORel.bind_same'; intro sn hsn
            have := hid sn (List.mem_append_right _ (getScalar_mem hsn))
            rw [H.cs] at this
            apply ORel.bind (renderField_erase H.skipNone H.deprecation _ _ _ _ this _ _ _ _); intro fl fl' hfl
            exact hcons _ _ _ _ hfl rfl
          · exact ORel.refl (R := EPf) (fun _ => ⟨rfl, rfl⟩) _
          · apply ORel.bind (renderField_erase H.skipNone H.deprecation _ _ _ _ rfl _ _ _ _); intro fl fl' hfl
            apply ORel.bind (ihS _ _ _ sub); intro i i' hi
            exact hcons _ _ _ _ hfl hi
        | spread fid =>
          unfold calcFields
          simp only [H.q, H.cs, hrf]
          apply ORel.bind_same; intro fr
          apply ORel.bind (ihF pfx t rest); intro a b hab
          split
          · exact ORel.pure ⟨hab.1, hab.2⟩
          · apply ORel.bind_same; intro fl
            exact ORel.pure ⟨by simp only [EF, List.map_append, hab.1], hab.2⟩
        | inline t' sub =>
          unfold calcFields
          exact ihF pfx t rest
        | typename =>
          unfold calcFields
          exact ihF pfx t rest

/-! ## the module level -/

/-- `c` and `c'` have the same schema, query and case functions and agree on `deprecation`, `otherVariant`,
    `skipNone`, `externEnums`; they may differ in **`normalization`** and in `responseDerives`,
    `variablesDerives`, `serdePath`, `visibility`, `queryFile`, `mode`, `operationName`, `structIdent`,
    `scalarsModule` -/
structure NormAgree (c c' : Ctx) : Prop extends CalcNorm c c' where
  externEnums : c'.o.externEnums = c.o.externEnums

/-- the hypothesis is satisfiable with the normalization (and the neutral options) changed -/
example (c : Ctx) (nz : Normalization) (rd vd sm : Option String) (sp : String) :
    NormAgree c { c with o := { c.o with normalization := nz, responseDerives := rd, variablesDerives := vd,
                                         scalarsModule := sm, serdePath := sp } } :=
  { s := rfl, q := rfl, cs := rfl, otherVariant := rfl, skipNone := rfl, deprecation := rfl, externEnums := rfl }

theorem scalarItems_erase {c c' : Ctx} (H : NormAgree c c') (u : UsedTypes) :
    ORel EI (scalarItems c u) (scalarItems c' u) := by
  unfold scalarItems
  simp only [H.s]
  apply ORel.bind_same; intro names
  apply ORel.pure
  simp only [EI, List.map_map]
  apply List.map_congr_left
  intro n _
  rfl

theorem enumItem_erase (c c' : Ctx) (e : StoredEnum) : eraseItem (enumItem c e) = eraseItem (enumItem c' e) := by
  simp only [enumItem, eraseItem, List.map_map, Function.comp_def]

theorem enumItems_erase {c c' : Ctx} (H : NormAgree c c') (u : UsedTypes) :
    ORel EI (enumItems c u) (enumItems c' u) := by
  unfold enumItems
  simp only [H.s, H.externEnums]
  apply ORel.bind_same; intro es
  apply ORel.pure
  simp only [EI, List.map_map]
  apply List.map_congr_left
  intro e _
  exact enumItem_erase c c' e

theorem decorateType_erase_path (a b : String) (quals : List Qual) :
    ORel (fun t t' => eraseTy t = eraseTy t') (decorateType (.path a) quals) (decorateType (.path b) quals) :=
  decorateType_erase (b := .path a) (b' := .path b) rfl quals

theorem inputFieldType_erase {c c' : Ctx} (H : NormAgree c c') (ty : FieldType) (quals : List Qual) :
    ORel (fun t t' => eraseTy t = eraseTy t') (inputFieldType c ty quals) (inputFieldType c' ty quals) := by
  unfold inputFieldType
  simp only [H.s, H.cs]
  apply ORel.bind_same; intro tn
  apply ORel.bind (decorateType_erase_path _ _ quals); intro t t' ht
  apply ORel.pure
  show eraseTy _ = eraseTy _
  repeat' split
  all_goals first | exact ht | simp only [eraseTy, ht]

theorem inputItem_erase {c c' : Ctx} (H : NormAgree c c') (i : StoredInput) :
    ORel (fun a b => eraseItem a = eraseItem b) (inputItem c i) (inputItem c' i) := by
  unfold inputItem
  simp only [H.cs, H.skipNone]
  split
  · refine ORel.bind (ORel.mapM eraseVariant (fun x => ?_) i.fields) (fun a b hab => ORel.pure (by simp only [eraseItem, hab]))
    apply ORel.bind (inputFieldType_erase H _ _); intro t t' ht
    exact ORel.pure (by simp only [eraseVariant, Option.map_some, ht])
  · refine ORel.bind (ORel.mapM eraseField (fun x => ?_) i.fields) (fun a b hab => ORel.pure (by simp only [eraseItem, hab]))
    apply ORel.bind (inputFieldType_erase H _ _); intro t t' ht
    exact ORel.pure (by simp only [eraseField, ht])

theorem variableType_erase {c c' : Ctx} (H : NormAgree c c') (v : RVariable) :
    ORel (fun t t' => eraseTy t = eraseTy t') (variableType c v) (variableType c' v) := by
  unfold variableType
  simp only [H.s, H.cs]
  apply ORel.bind_same; intro tn
  exact decorateType_erase_path _ _ _

theorem ORel.true_right {α} {x y : Outcome α} (h : ORel (fun _ _ => True) x y) (f : α → α) :
    ORel (fun _ _ => True) x (y >>= fun r => pure (f r)) := by
  cases x <;> cases y <;> simp_all [ORel, bind, Except.bind, pure, Except.pure]

theorem ORel.true_left {α} {x y : Outcome α} (h : ORel (fun _ _ => True) x y) (f : α → α) :
    ORel (fun _ _ => True) (x >>= fun r => pure (f r)) y := by
  cases x <;> cases y <;> simp_all [ORel, bind, Except.bind, pure, Except.pure]

theorem ORel.filterMapM_true {α β} {g g' : α → Outcome (Option β)} (h : ∀ x, ORel (fun _ _ => True) (g x) (g' x)) :
    ∀ xs : List α, ORel (fun _ _ => True) (xs.filterMapM g) (xs.filterMapM g')
  | [] => by simp only [List.filterMapM_nil]; exact ORel.pure trivial
  | x :: xs => by
    simp only [List.filterMapM_cons]
    apply ORel.bind (h x); intro a b _
    have ih := ORel.filterMapM_true h xs
    cases a <;> cases b <;> simp only
    · exact ih
    · exact ORel.true_right ih _
    · exact ORel.true_left ih _
    · exact ORel.true_left (ORel.true_right ih _) _

theorem variablesItems_erase {c c' : Ctx} (H : NormAgree c c') (op : Nat) :
    ORel EI (variablesItems c op) (variablesItems c' op) := by
  unfold variablesItems
  simp only [H.s, H.q, H.cs, H.skipNone]
  split
  · exact ORel.pure rfl
  · refine ORel.bind (ORel.mapM eraseField (fun v => ?_) _) (fun fs fs' hfs => ?_)
    · apply ORel.bind (variableType_erase H v); intro t t' ht
      exact ORel.pure (by simp only [eraseField, ht])
    · refine ORel.bind (R := fun _ _ => True) (ORel.filterMapM_true (fun v => ?_) _) (fun d d' _ => ?_)
      · cases v.default with
        | none => exact ORel.pure trivial
        | some dv =>
          simp only
          apply ORel.bind (variableType_erase H v); intro t t' _
          apply ORel.bind_same; intro _
          exact ORel.pure trivial
      · exact ORel.pure (by simp only [EI, List.map_cons, List.map_nil, eraseItem, hfs])

/-! ## where `Variables` and `ResponseData` sit -/

/-- the first item is named `n` -/
def HeadNamed (n : String) (l : List Item) : Prop := ∃ it rest, l = it :: rest ∧ it.name = n

theorem HeadNamed.append {n : String} {l : List Item} (h : HeadNamed n l) (l' : List Item) : HeadNamed n (l ++ l') := by
  obtain ⟨it, rest, rfl, hn⟩ := h
  exact ⟨it, rest ++ l', rfl, hn⟩

theorem renderType_head (c : Ctx) (n : String) (fs : List RField) (vs : List RVariant) : HeadNamed n (renderType c n fs vs) := by
  unfold renderType
  split
  · exact ⟨_, _, rfl, rfl⟩
  · split <;> exact ⟨_, _, rfl, rfl⟩

theorem calcSelection_head (c : Ctx) (fuel : Nat) (name pfx : String) (t : TypeId) (sels : List Sel) (items : List Item)
    (h : calcSelection c fuel name pfx t sels = .ok items) : HeadNamed name items := by
  cases fuel with
  | zero => unfold calcSelection at h; cases h
  | succ n =>
    unfold calcSelection at h
    simp only at h
    split at h
    · obtain ⟨f, _, h⟩ := bind_ok h
      cases h
      exact ⟨_, _, rfl, rfl⟩
    · obtain ⟨variants, _, h⟩ := bind_ok h
      cases variants with
      | none =>
        simp only [pure_bind] at h
        obtain ⟨rf, _, h⟩ := bind_ok h
        cases h
        exact ((renderType_head c name _ _).append _).append _
      | some vts =>
        simp only at h
        obtain ⟨vsels, _, h⟩ := bind_ok h
        obtain ⟨r, _, h⟩ := bind_ok h
        simp only [pure_bind] at h
        obtain ⟨rf, _, h⟩ := bind_ok h
        cases h
        exact ((renderType_head c name _ _).append _).append _

theorem variablesItems_head (c : Ctx) (op : Nat) (items : List Item) (h : variablesItems c op = .ok items) :
    HeadNamed "Variables" items := by
  unfold variablesItems at h
  simp only at h
  split at h
  · cases h; exact ⟨_, _, rfl, rfl⟩
  · obtain ⟨fs, _, h⟩ := bind_ok h
    obtain ⟨dfl, _, h⟩ := bind_ok h
    cases h
    exact ⟨_, _, rfl, rfl⟩

theorem ORel.bind' {α β} {R : α → α → Prop} {S : β → β → Prop} {x y : Outcome α} {f g : α → Outcome β}
    (hxy : ORel R x y) (hfg : ∀ a b, x = .ok a → y = .ok b → R a b → ORel S (f a) (g b)) : ORel S (x >>= f) (y >>= g) := by
  cases x <;> cases y <;> simp only [ORel] at hxy
  · subst hxy; exact rfl
  · exact hfg _ _ rfl rfl hxy

/-- the two modules are equal up to names chunk by chunk; the chunk of the variables starts with `Variables`,
    the last chunk with `ResponseData` -/
def ModRel (a b : List Item) : Prop :=
  ∃ pre pre' vars vars' mid mid' resp resp',
    a = pre ++ vars ++ mid ++ resp ∧ b = pre' ++ vars' ++ mid' ++ resp' ∧
    EI pre pre' ∧ EI vars vars' ∧ EI mid mid' ∧ EI resp resp' ∧
    HeadNamed "Variables" vars ∧ HeadNamed "Variables" vars' ∧
    HeadNamed "ResponseData" resp ∧ HeadNamed "ResponseData" resp'

theorem ModRel.ei {a b : List Item} (h : ModRel a b) : EI a b := by
  obtain ⟨pre, pre', vars, vars', mid, mid', resp, resp', rfl, rfl, h1, h2, h3, h4, _⟩ := h
  simp only [EI, List.map_append] at *
  rw [h1, h2, h3, h4]

theorem normalization_modRel {c c' : Ctx} (H : NormAgree c c') (hid : IdStable c c') (op : Nat) :
    ORel ModRel (responseForQuery c op) (responseForQuery c' op) := by
  have hC := calc_erase H.toCalcNorm hid
  have hfrag : ∀ fid, ORel (fun a b : List Item => a.map eraseItem = b.map eraseItem) (fragmentItems c fid) (fragmentItems c' fid) := by
    intro fid
    unfold fragmentItems
    simp only [H.s, H.q, H.cs]
    apply ORel.bind_same; intro fr
    exact (hC _).1 _ _ _ _
  have hinput : ∀ u, ORel EI (inputItems c u) (inputItems c' u) := by
    intro u
    unfold inputItems
    simp only [H.s]
    exact ORel.mapM eraseItem (fun (x : StoredInput × Nat) => inputItem_erase H x.1) _
  have hresp : ∀ o, ORel EI (responseItems c o) (responseItems c' o) := by
    intro o
    unfold responseItems
    simp only [H.s, H.q, H.cs]
    exact (hC _).1 _ _ _ _
  unfold responseForQuery
  simp only [H.s, H.q]
  apply ORel.bind_same; intro u
  apply ORel.bind (scalarItems_erase H u); intro sc sc' hsc
  apply ORel.bind (enumItems_erase H u); intro en en' hen
  apply ORel.bind (ORel.mapM (List.map eraseItem) hfrag _); intro fr fr' hfr
  apply ORel.bind (hinput u); intro inp inp' hinp
  apply ORel.bind' (variablesItems_erase H op); intro vs vs' hv hv' hvs
  apply ORel.bind_same; intro o
  apply ORel.bind' (hresp o); intro r r' hr hr' hrr
  apply ORel.pure
  refine ⟨builtinAliases ++ sc ++ en ++ inp, builtinAliases ++ sc' ++ en' ++ inp', vs, vs', fr.flatten, fr'.flatten, r, r',
    rfl, rfl, ?_, hvs, ?_, hrr, variablesItems_head c op vs hv, variablesItems_head c' op vs' hv', ?_, ?_⟩
  · simp only [EI, List.map_append, hsc, hen, hinp]
  · simp only [EI, List.map_flatten, hfr]
  · unfold responseItems at hr; exact calcSelection_head _ _ _ _ _ _ _ hr
  · unfold responseItems at hr'; exact calcSelection_head _ _ _ _ _ _ _ hr'

/-- **`normalization` only renames**: the two contexts generate the same items up to names (or fail with the
    same error) -/
theorem normalization_only_renames {c c' : Ctx} (H : NormAgree c c') (hid : IdStable c c') (op : Nat) :
    ORel EI (responseForQuery c op) (responseForQuery c' op) :=
  ORel.mono (fun _ _ h => h.ei) (normalization_modRel H hid op)

/-- spelled out: generation succeeds under `c` iff it does under `c'`, with items that are equal up to names -/
theorem normalization_only_renames_ok {c c' : Ctx} (H : NormAgree c c') (hid : IdStable c c') (op : Nat)
    (items : List Item) (h : responseForQuery c op = .ok items) :
    ∃ items', responseForQuery c' op = .ok items' ∧ items.map eraseItem = items'.map eraseItem := by
  have := normalization_only_renames H hid op
  rw [h] at this
  cases h' : responseForQuery c' op with
  | error err => rw [h'] at this; exact this.elim
  | ok items' => rw [h'] at this; exact ⟨items', rfl, this⟩

theorem normalization_same_error {c c' : Ctx} (H : NormAgree c c') (hid : IdStable c c') (op : Nat) (err : Err) :
    responseForQuery c op = .error err ↔ responseForQuery c' op = .error err := by
  have := normalization_only_renames H hid op
  cases h1 : responseForQuery c op <;> cases h2 : responseForQuery c' op <;> simp [h1, h2, ORel] at this ⊢
  rw [this]

end C09N
end GqlVerif
